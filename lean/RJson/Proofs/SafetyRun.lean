import RJson.Proofs.Safety
import RJson.Proofs.Traverse
/-!
# Totality and memory safety of the abstract machines for arbitrary handlers — the semantic part

From `allOK k` (kernel-decided): for every input shorter than 2^62 bytes, every handler whatsoever and every
destination, the run of machine `k` does not panic, ends within the fuel of the interpreter (i.e. the Go loop
terminates), and an `ok` result reports an offset between 0 and the input length.
-/
namespace RJson.Abs
open RJson.Ragel RJson.Spec RJson.HelpersSpec

/-- the return-state stack fits the state: non-empty exactly inside sub-machines, entries are reachable states
    whose key-slice class is 0 -/
def StkOK (k : Kind) : AS → List AS → Prop
  | s, [] => isSub s = false
  | s, top :: st' => isSub s = true ∧ top ∈ statesOf k ∧ fcls top = 0 ∧ StkOK k top st'

theorem StkOK.same {k : Kind} {s n : AS} {st : List AS} (h : StkOK k s st) (hn : isSub n = isSub s) : StkOK k n st := by
  cases st with
  | nil => simp only [StkOK] at h ⊢; rw [hn]; exact h
  | cons top st' => simp only [StkOK] at h ⊢; rw [hn]; exact h

def FieldInv {τ} (data : Bytes) (c : Nat) (r : Regs τ) : Prop :=
  match c with
  | 1 => 0 ≤ r.fs ∧ r.fs + 1 ≤ r.p
  | 2 => 0 ≤ r.fs ∧ r.fs + 2 ≤ r.p
  | 3 => 0 ≤ r.fs ∧ r.fs + 2 ≤ r.fe ∧ r.fe ≤ (data.size : Int)
  | _ => True

structure SInv {τ} (k : Kind) (data : Bytes) (s : AS) (st : List AS) (r : Regs τ) : Prop where
  inS : s ∈ statesOf k
  stk : StkOK k s st
  pLo : 0 ≤ r.p
  pHi : r.p ≤ (data.size : Int)
  fld : FieldInv data (fcls s) r

/-- a result that is acceptable for C10 -/
def Good {τ} (data : Bytes) (res : Result τ) : Prop :=
  res.kind ≠ .panic ∧ res.kind ≠ .fuel ∧ (res.kind = .ok → 0 ≤ res.p ∧ res.p ≤ (data.size : Int))

/-- termination measure: twice the distance to the end, plus one in states that may call the handler -/
def mu {τ} (data : Bytes) (s : AS) (r : Regs τ) : Nat := 2 * ((data.size : Int) - r.p).toNat + (if hcap s then 1 else 0)

theorem good_err {τ} (data : Bytes) (res : Result τ) (e : Err) (h : res.kind = .err e) : Good data res := by
  refine ⟨by rw [h]; simp, by rw [h]; simp, by rw [h]; intro hh; cases hh⟩

theorem good_herr {τ} (data : Bytes) (res : Result τ) (id : Nat) (h : res.kind = .herr id) : Good data res := by
  refine ⟨by rw [h]; simp, by rw [h]; simp, by rw [h]; intro hh; cases hh⟩

theorem good_finish {τ} (data : Bytes) (r : Regs τ) (h0 : 0 ≤ r.p) (h1 : r.p ≤ (data.size : Int)) : Good data r.finish := by
  refine ⟨?_, ?_, fun _ => ⟨h0, h1⟩⟩ <;> (simp only [Regs.finish]; cases r.err <;> simp)

theorem good_finish_err {τ} (data : Bytes) (r : Regs τ) (e : Err) (h : r.err = some e) : Good data r.finish :=
  good_err data _ e (by simp [Regs.finish, h])

/-- end of input: every eof action list of the machines is harmless -/
theorem eof_good {τ} (k : Kind) (data : Bytes) (h : Handler τ) (s : AS) (r : Regs τ) (hp : r.p = (data.size : Int)) :
    Good data (runEof data (machine k).hasField h ((machine k).eof s) r) := by
  simp only [machine, eof]
  by_cases hf : isFinal s = true
  · simp only [hf, if_true, runEof]
    exact good_finish data r (by rw [hp]; omega) (by rw [hp]; omega)
  · simp only [hf, Bool.false_eq_true, if_false]
    cases s.ctx <;> simp only [eofActs, runEof, execSimple] <;>
      first
        | exact good_err data _ _ rfl
        | exact good_finish_err data _ _ rfl

theorem mem_of_contains {l : List AS} {x : AS} (h : l.contains x = true) : x ∈ l := by
  simpa using h

theorem trOK_of_inv (k : Kind) (s : AS) (hs : s ∈ statesOf k) (b : UInt8) : trOK k s (step k s b) = true := by
  have hall := allOK_all k
  simp only [allOK, Bool.and_eq_true, List.all_eq_true] at hall
  have := hall.1.1.1 s hs
  have h2 := forall_byte (P := fun b => trOK k s (step k s b)) this b
  exact h2

/-- the handler's arguments can always be sliced out -/
theorem handlerArgs_some {τ} (k : Kind) (data : Bytes) (hsm : Small data) (r : Regs τ) (h0 : 0 ≤ r.p) (h1 : r.p ≤ (data.size : Int))
    (hf : k ≠ .hobj ∨ FieldInv data 3 r) :
    ∃ f suf, handlerArgs data (machine k).hasField (hFlo k) (hFhi k) r = some (f, suf) := by
  have hs : sliceChecked data r.p (data.size : Int) = some (data.extract r.p.toNat (data.size : Int).toNat) := by
    simp only [sliceChecked]
    have : 0 ≤ r.p ∧ r.p ≤ (data.size : Int) ∧ (data.size : Int) ≤ (data.size : Int) := ⟨h0, h1, Int.le_refl _⟩
    simp only [this, and_self, if_true]
  by_cases hk : k = .hobj
  · subst hk
    have hfi : FieldInv data 3 r := by
      rcases hf with hf | hf
      · exact absurd rfl hf
      · exact hf
    simp only [FieldInv] at hfi
    obtain ⟨f0, f1, f2⟩ := hfi
    unfold Small at hsm
    have hflo : hFlo .hobj = .add .fs (.lit 1) := rfl
    have hfhi : hFhi .hobj = .sub .fe (.lit 1) := rfl
    have e1 : (hFlo .hobj).eval (r.env 0 (data.size : Int)) = r.fs + 1 := by
      rw [hflo]; simp only [GExpr.eval, Regs.env]; rw [wrap64_id] <;> omega
    have e2 : (hFhi .hobj).eval (r.env 0 (data.size : Int)) = r.fe - 1 := by
      rw [hfhi]; simp only [GExpr.eval, Regs.env]; rw [wrap64_id] <;> omega
    have hs2 : ∃ x, sliceChecked data (r.fs + 1) (r.fe - 1) = some x := by
      simp only [sliceChecked]
      have : 0 ≤ r.fs + 1 ∧ r.fs + 1 ≤ r.fe - 1 ∧ r.fe - 1 ≤ (data.size : Int) := by omega
      simp only [this, and_self, if_true]
      exact ⟨_, rfl⟩
    obtain ⟨x, hx⟩ := hs2
    have hhf : (machine .hobj).hasField = true := rfl
    exact ⟨x, data.extract r.p.toNat (data.size : Int).toNat, by simp only [handlerArgs, hs, hhf, if_true, e1, e2, hx]⟩
  · have hhf : (machine k).hasField = false := by cases k <;> first | rfl | exact absurd rfl hk
    exact ⟨#[], data.extract r.p.toNat (data.size : Int).toNat, by simp only [handlerArgs, hs, hhf, Bool.false_eq_true, if_false]⟩

theorem getByte_some (data : Bytes) (p : Int) (h0 : 0 ≤ p) (h1 : p < (data.size : Int)) : ∃ b, getByte data p = some b := by
  simp only [getByte]
  have : 0 ≤ p ∧ p < (data.size : Int) := ⟨h0, h1⟩
  simp only [this, and_self, if_true]
  have hlt : p.toNat < data.size := by omega
  exact ⟨data[p.toNat], by simp [hlt]⟩

theorem at_of_pos (data : Bytes) (p : Int) (h0 : 0 ≤ p) (h1 : p ≤ (data.size : Int)) :
    At data p.toNat (data.toList.drop p.toNat) ∧ ((p.toNat : Nat) : Int) = p :=
  ⟨At.of_drop (by omega), by omega⟩

/-- the helper scanners never panic and stay inside the input -/
theorem floatDec_range (data : Bytes) (q : Nat) (hq : q ≤ data.size) :
    ∃ pr, skipFloatDec data (q : Int) (data.size : Int) = some pr ∧
      (pr.2 = none → (q : Int) ≤ pr.1 ∧ pr.1 + 1 ≤ (data.size : Int)) := by
  have hat := At.of_drop (data := data) hq
  obtain ⟨pr, hpr, hm⟩ := skipFloatDec_spec data q _ hat
  refine ⟨pr, hpr, ?_⟩
  intro hnone
  have hlen := hat.length
  cases hft : fracTail (data.toList.drop q) with
  | none => rw [hft] at hm; rw [hnone] at hm; cases hm
  | some rest' =>
    rw [hft] at hm
    obtain ⟨h1, h2⟩ := hm
    rw [h1]
    simp only
    omega

theorem floatExp_range (data : Bytes) (q : Nat) (hq : q ≤ data.size) :
    ∃ pr, skipFloatExp data (q : Int) (data.size : Int) = some pr ∧
      (pr.2 = none → (q : Int) ≤ pr.1 ∧ pr.1 + 1 ≤ (data.size : Int)) := by
  have hat := At.of_drop (data := data) hq
  obtain ⟨pr, hpr, hm⟩ := skipFloatExp_spec data q _ hat
  refine ⟨pr, hpr, ?_⟩
  intro hnone
  have hlen := hat.length
  cases hft : expTail (data.toList.drop q) with
  | none => rw [hft] at hm; rw [hnone] at hm; cases hm
  | some rest' =>
    rw [hft] at hm
    obtain ⟨h1, h2⟩ := hm
    rw [h1]
    simp only
    omega

/-- every way a `try_handler` action can end, for an arbitrary handler -/
theorem exec_handler_gen {τ} (k : Kind) (data : Bytes) (hsm : Small data) (h : Handler τ) (r : Regs τ) (f suf : Bytes)
    (hargs : handlerArgs data (machine k).hasField (hFlo k) (hFhi k) r = some (f, suf))
    (h0 : 0 ≤ r.p) (h1 : r.p ≤ (data.size : Int)) :
    (∃ id res, execSimple data (machine k).hasField h (handlerAct k) r = .stop res ∧ res.kind = .herr id) ∨
    (∃ e res, execSimple data (machine k).hasField h (handlerAct k) r = .stop res ∧ res.kind = .err e) ∨
    (∃ hs', execSimple data (machine k).hasField h (handlerAct k) r = .cont (afterCall r hs')) ∨
    (∃ (hs' : τ) (n : Int), 0 < n ∧ n ≤ (data.size : Int) - r.p ∧
      execSimple data (machine k).hasField h (handlerAct k) r = .cont { afterCall r hs' with p := r.p + n - 2 }) := by
  rw [handlerAct_eq]
  simp only [execSimple, hargs]
  generalize h r.hs f suf = res
  obtain ⟨hs', pp, e⟩ := res
  cases e with
  | some id => exact .inl ⟨id, _, rfl, rfl⟩
  | none =>
    simp only []
    unfold Small at hsm
    have w1 : wrap64 ((data.size : Int) - r.p) = (data.size : Int) - r.p := by rw [wrap64_id] <;> omega
    by_cases hneg : pp < 0
    · refine .inr (.inl ?_)
      simp only [Guard.eval, CmpOp.eval, GExpr.eval, Regs.env, decide_eq_true_eq, hneg, if_true]
      exact ⟨.pOutOfRange, _, rfl, by simp [Regs.finish]⟩
    · by_cases hz : pp = 0
      · subst hz
        refine .inr (.inr (.inl ⟨hs', ?_⟩))
        simp [Guard.eval, CmpOp.eval, GExpr.eval, Regs.env, afterCall]
      · by_cases hbig : pp > (data.size : Int) - r.p
        · refine .inr (.inl ?_)
          have g2 : (pp != 0) = true := by simpa using hz
          simp only [Guard.eval, CmpOp.eval, GExpr.eval, Regs.env, decide_eq_true_eq, hneg, if_false, w1, g2, if_true, hbig]
          exact ⟨.pOutOfRange, _, rfl, by simp [Regs.finish]⟩
        · refine .inr (.inr (.inr ⟨hs', pp, by omega, by omega, ?_⟩))
          have w2 : wrap64 (r.p + pp) = r.p + pp := by rw [wrap64_id] <;> omega
          have w3 : wrap64 (r.p + pp - 1) = r.p + pp - 1 := by rw [wrap64_id] <;> omega
          have w4 : wrap64 (r.p + pp - 1 - 1) = r.p + pp - 2 := by rw [wrap64_id] <;> omega
          have g2 : (pp != 0) = true := by simpa using hz
          simp [Guard.eval, CmpOp.eval, GExpr.eval, Regs.env, afterCall, w1, w2, w3, w4, hneg, g2, hbig]

theorem exec_handlerSimple_gen {τ} (k : Kind) (data : Bytes) (h : Handler τ) (r : Regs τ) (f suf : Bytes)
    (hargs : handlerArgs data (machine k).hasField (hFlo k) (hFhi k) r = some (f, suf)) :
    (∃ id res, execSimple data (machine k).hasField h (handlerSimpleAct k) r = .stop res ∧ res.kind = .herr id) ∨
    (∃ hs', execSimple data (machine k).hasField h (handlerSimpleAct k) r = .cont (afterCall r hs')) := by
  rw [exec_handlerSimple k data h r f suf hargs]
  cases (h r.hs f suf).2.2 with
  | some id => exact .inl ⟨id, _, rfl, rfl⟩
  | none => exact .inr ⟨_, rfl⟩

theorem mu_step {τ} (data : Bytes) (s n : AS) (r r2 : Regs τ) (h1 : r.p + 1 ≤ r2.p) (h2 : r2.p ≤ (data.size : Int)) (h0 : 0 ≤ r.p) :
    mu data n r2 + 1 ≤ mu data s r := by
  simp only [mu]
  split <;> split <;> omega

theorem mu_jump {τ} (data : Bytes) (s n : AS) (r r2 : Regs τ) (h1 : r.p ≤ r2.p) (h2 : r2.p ≤ (data.size : Int)) (h0 : 0 ≤ r.p)
    (hs : hcap s = true) (hn : hcap n = false) : mu data n r2 + 1 ≤ mu data s r := by
  simp only [mu, hs, hn, if_true, Bool.false_eq_true, if_false]
  omega

theorem handler_of_ok (k : Kind) (a : SAct) (h : (a == handlerSimpleAct k || a == handlerAct k) = true) :
    a = handlerSimpleAct k ∨ a = handlerAct k := by
  rcases Bool.or_eq_true _ _ |>.mp h with h | h
  · exact .inl (by simpa using h)
  · exact .inr (by simpa using h)

theorem handlerAct_isHandler (k : Kind) : (handlerAct k).isHandler = true := by rw [handlerAct_eq]; rfl
theorem handlerSimpleAct_isHandler (k : Kind) : (handlerSimpleAct k).isHandler = true := by rw [handlerSimpleAct_eq]; rfl

theorem stkOK_nil_of_main {k : Kind} {s : AS} {st : List AS} (h : StkOK k s st) (hs : isSub s = false) : st = [] := by
  cases st with
  | nil => rfl
  | cons top st' => simp only [StkOK] at h; rw [hs] at h; exact absurd h.1 (by decide)

/-- **totality and memory safety** of machine `k`, any handler -/
theorem safe_run {τ} (k : Kind) (data : Bytes) (hsm : Small data) (h : Handler τ) :
    ∀ (fuel : Nat) (s : AS) (st : List AS) (r : Regs τ), SInv k data s st r → mu data s r ≤ fuel →
      Good data (contL (machine k) data h fuel s st r) := by
  intro fuel
  induction fuel with
  | zero =>
    intro s st r hinv hmu
    simp only [contL]
    by_cases hend : (r.p == (data.size : Int)) = true
    · simp only [hend, if_true]
      exact eof_good k data h s r (by simpa using hend)
    · have hne : r.p ≠ (data.size : Int) := by simpa using hend
      have h0 := hinv.pLo
      have h1 := hinv.pHi
      simp only [mu] at hmu
      have : 2 * ((data.size : Int) - r.p).toNat ≥ 2 := by omega
      omega
  | succ fuel ih =>
    intro s st r hinv hmu
    simp only [contL]
    by_cases hend : (r.p == (data.size : Int)) = true
    · simp only [hend, if_true]
      exact eof_good k data h s r (by simpa using hend)
    · simp only [hend, Bool.false_eq_true, if_false]
      have hne : r.p ≠ (data.size : Int) := by simpa using hend
      have h0 := hinv.pLo
      have h1 : r.p < (data.size : Int) := by have := hinv.pHi; omega
      obtain ⟨b, hb⟩ := getByte_some data r.p h0 h1
      rw [loopL_succ (machine k) data h fuel s st r b hb]
      have hok := trOK_of_inv k s hinv.inS b
      have hstep : (machine k).step s b = step k s b := rfl
      rw [hstep]
      unfold Small at hsm
      have hw : wrap64 (r.p + 1) = r.p + 1 := by rw [wrap64_id] <;> omega
      -- continuing in state `n`
      have adv : ∀ (n : AS) (st' : List AS) (r' : Regs τ), SInv k data n st' { r' with p := wrap64 (r'.p + 1) } →
          mu data n ({ r' with p := wrap64 (r'.p + 1) } : Regs τ) ≤ fuel →
          Good data (if (({ r' with p := wrap64 (r'.p + 1) } : Regs τ).p == (data.size : Int)) = true then
              runEof data (machine k).hasField h ((machine k).eof n) { r' with p := wrap64 (r'.p + 1) }
            else loopL (machine k) data h fuel n st' { r' with p := wrap64 (r'.p + 1) }) :=
        fun n st' r' hi hm => ih n st' _ hi hm
      have mustep : ∀ (n : AS) (r2 : Regs τ), r.p + 1 ≤ r2.p → r2.p ≤ (data.size : Int) → mu data n r2 ≤ fuel := by
        intro n r2 a b
        have := mu_step data s n r r2 a b h0
        omega
      have mujump : ∀ (n : AS) (r2 : Regs τ), r.p ≤ r2.p → r2.p ≤ (data.size : Int) → hcap s = true → hcap n = false →
          mu data n r2 ≤ fuel := by
        intro n r2 a b c d
        have := mu_jump data s n r r2 a b h0 c d
        omega
      generalize htr : step k s b = tr at hok
      obtain ⟨acts, tgt⟩ := tr
      cases acts with
      | nil =>
        cases tgt with
        | none =>
          simp only [execActsL]
          exact good_finish data r h0 (by omega)
        | some n =>
          simp only [trOK, tgtOK, Bool.and_eq_true, beq_iff_eq] at hok
          obtain ⟨⟨hn1, hn2⟩, hfs⟩ := hok
          simp only [execActsL]
          apply adv n st r
          · refine ⟨mem_of_contains hn1, hinv.stk.same hn2, by simp only [hw]; omega, by simp only [hw]; omega, ?_⟩
            have hf := hinv.fld
            simp only [fieldStep, Bool.or_eq_true, Bool.and_eq_true, beq_iff_eq] at hfs
            rcases hfs with ((hc | hc) | hc) | hc
            · rw [hc]; trivial
            · rw [hc.1] at hf; rw [hc.2]; simp only [FieldInv, hw] at hf ⊢; omega
            · rw [hc.1] at hf; rw [hc.2]; simp only [FieldInv, hw] at hf ⊢; omega
            · rw [hc.1] at hf; rw [hc.2]; simp only [FieldInv] at hf ⊢; exact hf
          · exact mustep n _ (by show r.p + 1 ≤ wrap64 (r.p + 1); rw [hw]; omega) (by show wrap64 (r.p + 1) ≤ _; rw [hw]; omega)
      | cons a rest =>
        cases a with
        | ret =>
          cases rest with
          | cons _ _ => simp [trOK] at hok
          | nil =>
            simp only [trOK] at hok
            have hstk := hinv.stk
            cases st with
            | nil => simp only [StkOK] at hstk; rw [hok] at hstk; cases hstk
            | cons top st' =>
              simp only [StkOK] at hstk
              simp only [execActsL]
              apply adv top st' r
              · refine ⟨hstk.2.1, hstk.2.2.2, by simp only [hw]; omega, by simp only [hw]; omega, ?_⟩
                rw [hstk.2.2.1]; trivial
              · exact mustep top _ (by show r.p + 1 ≤ wrap64 (r.p + 1); rw [hw]; omega) (by show wrap64 (r.p + 1) ≤ _; rw [hw]; omega)
        | call lim rs en =>
          cases rest with
          | cons _ _ => simp [trOK] at hok
          | nil =>
            simp only [trOK, Bool.and_eq_true, beq_iff_eq] at hok
            obtain ⟨⟨⟨⟨⟨hrs, hen⟩, hrsS⟩, henS⟩, hfr⟩, hfe⟩ := hok
            by_cases hlim : (lim && st.length == (machine k).maxDepth) = true
            · simp only [execActsL, hlim, if_true]
              exact good_finish_err data _ _ rfl
            · simp only [execActsL, hlim, Bool.false_eq_true, if_false]
              apply adv en (rs :: st) r
              · refine ⟨mem_of_contains henS, ?_, by simp only [hw]; omega, by simp only [hw]; omega, ?_⟩
                · simp only [StkOK]
                  exact ⟨hen, mem_of_contains hrsS, hfr, hinv.stk.same hrs⟩
                · rw [hfe]; trivial
              · exact mustep en _ (by show r.p + 1 ≤ wrap64 (r.p + 1); rw [hw]; omega) (by show wrap64 (r.p + 1) ≤ _; rw [hw]; omega)
        | s sa =>
          cases rest with
          | nil =>
            -- a single simple action
            cases tgt with
            | none =>
              cases sa <;> first
                | (simp only [execActsL, SAct.isHandler, Bool.false_and, Bool.false_eq_true, if_false, execSimple]
                   exact good_err data _ _ rfl)
                | (simp [trOK] at hok)
            | some n =>
              cases sa with
              | errReturn e =>
                simp only [execActsL, SAct.isHandler, Bool.false_and, Bool.false_eq_true, if_false, execSimple]
                exact good_err data _ _ rfl
              | floatDec =>
                simp only [trOK, tgtOK, Bool.and_eq_true, beq_iff_eq] at hok
                obtain ⟨⟨hn1, hn2⟩, hfn⟩ := hok
                obtain ⟨hat, hpc⟩ := at_of_pos data (r.p + 1) (by omega) (by omega)
                obtain ⟨pr, hpr, hrange⟩ := floatDec_range data (r.p + 1).toNat hat.le
                rw [hpc] at hpr hrange
                simp only [execActsL, SAct.isHandler, Bool.false_and, Bool.false_eq_true, if_false, execSimple, hw, hpr]
                obtain ⟨p', e⟩ := pr
                cases e with
                | some e => exact good_finish_err data _ _ rfl
                | none =>
                  simp only [execActsL]
                  obtain ⟨hr1, hr2⟩ := hrange rfl
                  simp only at hr1 hr2
                  have hw' : wrap64 (p' + 1) = p' + 1 := by rw [wrap64_id] <;> omega
                  apply adv n st ({ r with p := p', err := none } : Regs τ)
                  · refine ⟨mem_of_contains hn1, hinv.stk.same hn2, by simp only [hw']; omega, by simp only [hw']; omega, ?_⟩
                    rw [hfn]; trivial
                  · exact mustep n _ (by show r.p + 1 ≤ wrap64 (p' + 1); rw [hw']; omega) (by show wrap64 (p' + 1) ≤ _; rw [hw']; omega)
              | floatExp =>
                simp only [trOK, tgtOK, Bool.and_eq_true, beq_iff_eq] at hok
                obtain ⟨⟨hn1, hn2⟩, hfn⟩ := hok
                obtain ⟨hat, hpc⟩ := at_of_pos data (r.p + 1) (by omega) (by omega)
                obtain ⟨pr, hpr, hrange⟩ := floatExp_range data (r.p + 1).toNat hat.le
                rw [hpc] at hpr hrange
                simp only [execActsL, SAct.isHandler, Bool.false_and, Bool.false_eq_true, if_false, execSimple, hw, hpr]
                obtain ⟨p', e⟩ := pr
                cases e with
                | some e => exact good_finish_err data _ _ rfl
                | none =>
                  simp only [execActsL]
                  obtain ⟨hr1, hr2⟩ := hrange rfl
                  simp only at hr1 hr2
                  have hw' : wrap64 (p' + 1) = p' + 1 := by rw [wrap64_id] <;> omega
                  apply adv n st ({ r with p := p', err := none } : Regs τ)
                  · refine ⟨mem_of_contains hn1, hinv.stk.same hn2, by simp only [hw']; omega, by simp only [hw']; omega, ?_⟩
                    rw [hfn]; trivial
                  · exact mustep n _ (by show r.p + 1 ≤ wrap64 (p' + 1); rw [hw']; omega) (by show wrap64 (p' + 1) ≤ _; rw [hw']; omega)
              | fieldStart =>
                simp only [trOK, tgtOK, Bool.and_eq_true, beq_iff_eq] at hok
                obtain ⟨⟨hn1, hn2⟩, hfn⟩ := hok
                simp only [execActsL, SAct.isHandler, Bool.false_and, Bool.false_eq_true, if_false, execSimple]
                apply adv n st ({ r with fs := r.p } : Regs τ)
                · refine ⟨mem_of_contains hn1, hinv.stk.same hn2, by simp only [hw]; omega, by simp only [hw]; omega, ?_⟩
                  rw [hfn]; simp only [FieldInv, hw]; omega
                · exact mustep n _ (by show r.p + 1 ≤ wrap64 (r.p + 1); rw [hw]; omega) (by show wrap64 (r.p + 1) ≤ _; rw [hw]; omega)
              | fieldEnd =>
                simp only [trOK, tgtOK, Bool.and_eq_true, beq_iff_eq] at hok
                obtain ⟨⟨⟨hn1, hn2⟩, hfs⟩, hfn⟩ := hok
                simp only [execActsL, SAct.isHandler, Bool.false_and, Bool.false_eq_true, if_false, execSimple]
                have hf := hinv.fld
                rw [hfs] at hf
                simp only [FieldInv] at hf
                apply adv n st ({ r with fe := r.p } : Regs τ)
                · refine ⟨mem_of_contains hn1, hinv.stk.same hn2, by simp only [hw]; omega, by simp only [hw]; omega, ?_⟩
                  rw [hfn]; simp only [FieldInv]; omega
                · exact mustep n _ (by show r.p + 1 ≤ wrap64 (r.p + 1); rw [hw]; omega) (by show wrap64 (r.p + 1) ≤ _; rw [hw]; omega)
              | handler a1 a2 a3 a4 a5 a6 a7 =>
                simp only [trOK, tgtOK, Bool.and_eq_true, Bool.not_eq_true', beq_iff_eq] at hok
                obtain ⟨⟨⟨⟨⟨⟨hsa, hsub⟩, hcs⟩, ⟨hn1, hn2⟩⟩, hfn⟩, hcn⟩, hkf⟩ := hok
                have hst : st = [] := stkOK_nil_of_main hinv.stk hsub
                subst hst
                have hsa' : SAct.handler a1 a2 a3 a4 a5 a6 a7 = handlerAct k := by
                  rcases handler_of_ok k _ hsa with hh | hh
                  · rw [handlerSimpleAct_eq] at hh; cases hh
                  · exact hh
                rw [hsa']
                have hfld : k ≠ .hobj ∨ FieldInv data 3 r := by
                  simp only [Bool.or_eq_true, bne_iff_ne, ne_eq, beq_iff_eq] at hkf
                  rcases hkf with hk | hk
                  · exact .inl hk
                  · right; have := hinv.fld; rw [hk] at this; exact this
                obtain ⟨f, suf, hargs⟩ := handlerArgs_some k data hsm r h0 (by omega) hfld
                simp only [execActsL, handlerAct_isHandler, List.isEmpty_nil, Bool.not_true, Bool.and_false, Bool.false_eq_true, if_false]
                rcases exec_handler_gen k data hsm h r f suf hargs h0 (by omega) with ⟨id, res, he, hk⟩ | ⟨e, res, he, hk⟩ | ⟨hs', he⟩ | ⟨hs', m, hm0, hm1, he⟩
                · rw [he]; exact good_herr data res id hk
                · rw [he]; exact good_err data res e hk
                · rw [he]
                  simp only [execActsL]
                  have hpa : (afterCall r hs').p = r.p := rfl
                  apply adv n [] (afterCall r hs')
                  · refine ⟨mem_of_contains hn1, hinv.stk.same hn2, by simp only [hpa, hw]; omega, by simp only [hpa, hw]; omega, ?_⟩
                    rw [hfn]; trivial
                  · exact mustep n _ (by show r.p + 1 ≤ wrap64 (r.p + 1); rw [hw]; omega) (by show wrap64 (r.p + 1) ≤ _; rw [hw]; omega)
                · rw [he]
                  simp only [execActsL]
                  have hwj : wrap64 (r.p + m - 2 + 1) = r.p + m - 1 := by rw [wrap64_id] <;> omega
                  apply adv n [] ({ afterCall r hs' with p := r.p + m - 2 } : Regs τ)
                  · refine ⟨mem_of_contains hn1, hinv.stk.same hn2, by simp only [hwj]; omega, by simp only [hwj]; omega, ?_⟩
                    rw [hfn]; trivial
                  · exact mujump n _ (by show r.p ≤ wrap64 (r.p + m - 2 + 1); rw [hwj]; omega) (by show wrap64 (r.p + m - 2 + 1) ≤ _; rw [hwj]; omega) hcs hcn
              | handlerSimple a1 a2 a3 =>
                simp only [trOK, tgtOK, Bool.and_eq_true, Bool.not_eq_true', beq_iff_eq] at hok
                obtain ⟨⟨⟨⟨⟨⟨hsa, hsub⟩, hcs⟩, ⟨hn1, hn2⟩⟩, hfn⟩, hcn⟩, hkf⟩ := hok
                have hst : st = [] := stkOK_nil_of_main hinv.stk hsub
                subst hst
                have hsa' : SAct.handlerSimple a1 a2 a3 = handlerSimpleAct k := by
                  rcases handler_of_ok k _ hsa with hh | hh
                  · exact hh
                  · rw [handlerAct_eq] at hh; cases hh
                rw [hsa']
                have hfld : k ≠ .hobj ∨ FieldInv data 3 r := by
                  simp only [Bool.or_eq_true, bne_iff_ne, ne_eq, beq_iff_eq] at hkf
                  rcases hkf with hk | hk
                  · exact .inl hk
                  · right; have := hinv.fld; rw [hk] at this; exact this
                obtain ⟨f, suf, hargs⟩ := handlerArgs_some k data hsm r h0 (by omega) hfld
                simp only [execActsL, handlerSimpleAct_isHandler, List.isEmpty_nil, Bool.not_true, Bool.and_false, Bool.false_eq_true, if_false]
                rcases exec_handlerSimple_gen k data h r f suf hargs with ⟨id, res, he, hk⟩ | ⟨hs', he⟩
                · rw [he]; exact good_herr data res id hk
                · rw [he]
                  simp only [execActsL]
                  have hpa : (afterCall r hs').p = r.p := rfl
                  apply adv n [] (afterCall r hs')
                  · refine ⟨mem_of_contains hn1, hinv.stk.same hn2, by simp only [hpa, hw]; omega, by simp only [hpa, hw]; omega, ?_⟩
                    rw [hfn]; trivial
                  · exact mustep n _ (by show r.p + 1 ≤ wrap64 (r.p + 1); rw [hw]; omega) (by show wrap64 (r.p + 1) ≤ _; rw [hw]; omega)
              | errReturnByte => simp [trOK, handlerAct_eq, handlerSimpleAct_eq] at hok
              | setErr e => simp [trOK, handlerAct_eq, handlerSimpleAct_eq] at hok
              | brk => simp [trOK, handlerAct_eq, handlerSimpleAct_eq] at hok
              | setBool v => simp [trOK, handlerAct_eq, handlerSimpleAct_eq] at hok
              | segStart => simp [trOK, handlerAct_eq, handlerSimpleAct_eq] at hok
              | appendSeg => simp [trOK, handlerAct_eq, handlerSimpleAct_eq] at hok
              | appendByte c => simp [trOK, handlerAct_eq, handlerSimpleAct_eq] at hok
              | unescapeU => simp [trOK, handlerAct_eq, handlerSimpleAct_eq] at hok
          | cons a2 rest2 =>
            cases rest2 with
            | cons _ _ => cases sa <;> cases a2 <;> simp [trOK] at hok
            | nil =>
              cases a2 with
              | ret => cases sa <;> simp [trOK] at hok
              | s sb =>
                cases sa <;> cases sb <;> first
                  | (simp only [execActsL, SAct.isHandler, Bool.false_and, Bool.false_eq_true, if_false, execSimple]
                     exact good_finish_err data _ _ rfl)
                  | (simp [trOK] at hok)
              | call lim rs en =>
                cases lim with
                | true => cases sa <;> simp [trOK] at hok
                | false =>
                  cases sa with
                  | handler a1 a2 a3 a4 a5 a6 a7 =>
                    simp only [trOK, Bool.and_eq_true, Bool.not_eq_true', beq_iff_eq] at hok
                    obtain ⟨⟨⟨⟨⟨⟨⟨⟨⟨⟨hsa, hsub⟩, hcs⟩, hrsub⟩, hensub⟩, hrsS⟩, henS⟩, hfr⟩, hfe⟩, hcn⟩, hkf⟩ := hok
                    have hst : st = [] := stkOK_nil_of_main hinv.stk hsub
                    subst hst
                    rw [hsa]
                    have hfld : k ≠ .hobj ∨ FieldInv data 3 r := by
                      simp only [Bool.or_eq_true, bne_iff_ne, ne_eq, beq_iff_eq] at hkf
                      rcases hkf with hk | hk
                      · exact .inl hk
                      · right; have := hinv.fld; rw [hk] at this; exact this
                    obtain ⟨f, suf, hargs⟩ := handlerArgs_some k data hsm r h0 (by omega) hfld
                    simp only [execActsL, handlerAct_isHandler, List.isEmpty_nil, Bool.not_true, Bool.and_false, Bool.false_eq_true, if_false]
                    have hstk : StkOK k en [rs] := by
                      simp only [StkOK]
                      exact ⟨hensub, mem_of_contains hrsS, hfr, hrsub⟩
                    rcases exec_handler_gen k data hsm h r f suf hargs h0 (by omega) with ⟨id, res, he, hk⟩ | ⟨e, res, he, hk⟩ | ⟨hs', he⟩ | ⟨hs', m, hm0, hm1, he⟩
                    · rw [he]; exact good_herr data res id hk
                    · rw [he]; exact good_err data res e hk
                    · rw [he]
                      simp only [execActsL, Bool.false_and, Bool.false_eq_true, if_false]
                      have hpa : (afterCall r hs').p = r.p := rfl
                      apply adv en [rs] (afterCall r hs')
                      · refine ⟨mem_of_contains henS, hstk, by simp only [hpa, hw]; omega, by simp only [hpa, hw]; omega, ?_⟩
                        rw [hfe]; trivial
                      · exact mustep en _ (by show r.p + 1 ≤ wrap64 (r.p + 1); rw [hw]; omega) (by show wrap64 (r.p + 1) ≤ _; rw [hw]; omega)
                    · rw [he]
                      simp only [execActsL, Bool.false_and, Bool.false_eq_true, if_false]
                      have hwj : wrap64 (r.p + m - 2 + 1) = r.p + m - 1 := by rw [wrap64_id] <;> omega
                      apply adv en [rs] ({ afterCall r hs' with p := r.p + m - 2 } : Regs τ)
                      · refine ⟨mem_of_contains henS, hstk, by simp only [hwj]; omega, by simp only [hwj]; omega, ?_⟩
                        rw [hfe]; trivial
                      · exact mujump en _ (by show r.p ≤ wrap64 (r.p + m - 2 + 1); rw [hwj]; omega) (by show wrap64 (r.p + m - 2 + 1) ≤ _; rw [hwj]; omega) hcs hcn
                  | errReturn e => simp [trOK, handlerAct_eq] at hok
                  | errReturnByte => simp [trOK, handlerAct_eq] at hok
                  | setErr e => simp [trOK, handlerAct_eq] at hok
                  | brk => simp [trOK, handlerAct_eq] at hok
                  | floatDec => simp [trOK, handlerAct_eq] at hok
                  | floatExp => simp [trOK, handlerAct_eq] at hok
                  | fieldStart => simp [trOK, handlerAct_eq] at hok
                  | fieldEnd => simp [trOK, handlerAct_eq] at hok
                  | setBool v => simp [trOK, handlerAct_eq] at hok
                  | segStart => simp [trOK, handlerAct_eq] at hok
                  | appendSeg => simp [trOK, handlerAct_eq] at hok
                  | appendByte c => simp [trOK, handlerAct_eq] at hok
                  | unescapeU => simp [trOK, handlerAct_eq] at hok
                  | handlerSimple a1 a2 a3 => simp [trOK, handlerAct_eq] at hok

/-- **every abstract machine is total and memory-safe**: for every input shorter than 2^62 bytes, every handler
    (whatever integers and errors it returns) and every destination -/
theorem machine_total {τ} (k : Kind) (data : Bytes) (hsm : Small data) (h : Handler τ) (dst : Bytes) (hs : τ) :
    Good data (runL (machine k) data h dst hs) := by
  rw [runL_eq_contL]
  have hall := allOK_all k
  simp only [allOK, Bool.and_eq_true, Bool.not_eq_true', beq_iff_eq] at hall
  obtain ⟨⟨⟨_, hstart⟩, hsub⟩, hf⟩ := hall
  have hst : (machine k).start = start k := rfl
  rw [hst]
  apply safe_run k data hsm h (fuelFor data) (start k) [] (initRegs dst hs)
  · refine ⟨mem_of_contains hstart, ?_, by simp [initRegs], by simp [initRegs], ?_⟩
    · simp only [StkOK]; exact hsub
    · rw [hf]; trivial
  · simp only [mu, fuelFor, initRegs]
    split <;> omega

end RJson.Abs
