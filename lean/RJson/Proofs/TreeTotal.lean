import RJson.Proofs.TreeComplete
/-!
# The generic decoder never panics

For every input, `ReadValue` / `ReadObject` / `ReadArray` (model of complex_readers.go over the regenerated handler
tables) return normally: the machines stop with `ok`, a syntax error or the handler's error (`Abs.traverse_run`), the
key passed to `HandleObjectValue` is always a well-formed string body (so unescaping it cannot fail), every scalar
reader is total (`C06`, `C13`, `C10.readFloat64_total`), and the fuel the model gives its recursion
(`readerFuel = min(len, maxDepth + 1) + 2` levels) is never exhausted: a child reader is only started one level deeper
on a strictly shorter suffix, and never beyond `maxDepth`.
-/
namespace RJson.Tree
open RJson.Spec RJson.Model RJson.Ragel RJson.Abs RJson.VR

/-! ## an invariant of the handler state along a traversal -/

/-- the handler state of an outcome satisfies `P` -/
def TOutP {τ} (P : τ → Prop) : TOut τ → Prop
  | .bad => True
  | .herr hs _ _ => P hs
  | .done hs _ _ => P hs

/-- what the traversal specification passes to the handler: an empty or well-formed key, a value start, within `L` bytes -/
def CallOK (L : Nat) (field : Bytes) (v : List UInt8) : Prop :=
  (field = #[] ∨ ∃ body : List UInt8, field = body.toArray ∧ StrMachine.WFBody body ∧ body.length < L) ∧
  (∃ b t, v = b :: t ∧ isValueStart b = true) ∧ v.length < L

theorem memberOut_inv {τ} (P : τ → Prop) (h : Handler τ) (L : Nat)
    (hstep : ∀ hs field v, P hs → CallOK L field v → P (h hs field v.toArray).1)
    (field : Bytes) (v : List UInt8) (hs : τ) (hP : P hs)
    (hf : field = #[] ∨ ∃ body : List UInt8, field = body.toArray ∧ StrMachine.WFBody body ∧ body.length < L) (hv : v.length < L) :
    match memberOut h field v hs with
    | .bad => True
    | .herr hs' _ => P hs'
    | .next hs' r => P hs' ∧ r.length ≤ v.length := by
  simp only [memberOut]
  cases v with
  | nil => trivial
  | cons b t =>
    simp only []
    by_cases hvs : isValueStart b = true
    · simp only [hvs, Bool.not_true, Bool.false_eq_true, if_false]
      have hnew := hstep hs field (b :: t) hP ⟨hf, ⟨b, t, rfl, hvs⟩, hv⟩
      cases he : (h hs field (b :: t).toArray).2.2 with
      | some id => simp only []; exact hnew
      | none =>
        simp only []
        cases hsv : scanValue none (2 * (b :: t).length + 2) 0 (b :: t) with
        | none => trivial
        | some r => exact ⟨hnew, ((scan_suffix none _).1 _ _ _ hsv).length_le⟩
    · have : isValueStart b = false := by simpa using hvs
      simp [this]

theorem stepMember_inv {τ} (P : τ → Prop) (m : MOut τ) (calls : Nat) (cont : τ → Nat → List UInt8 → TOut τ) (B : Nat)
    (hm : match m with | .bad => True | .herr hs' _ => P hs' | .next hs' r => P hs' ∧ r.length ≤ B)
    (hcont : ∀ hs' n r, P hs' → r.length ≤ B → TOutP P (cont hs' n r)) :
    TOutP P (stepMember m calls cont) := by
  cases m with
  | bad => trivial
  | herr hs' id => exact hm
  | next hs' r => exact hcont hs' _ r hm.1 hm.2

theorem arrWalk_inv {τ} (P : τ → Prop) (h : Handler τ) (L : Nat)
    (hstep : ∀ hs field v, P hs → CallOK L field v → P (h hs field v.toArray).1) :
    ∀ (fuel : Nat) (first : Bool) (l : List UInt8) (hs : τ) (calls : Nat), P hs → l.length < L →
      TOutP P (arrWalk h fuel first l hs calls) := by
  intro fuel
  induction fuel with
  | zero => intro first l hs calls _ _; trivial
  | succ fuel ih =>
    intro first l hs calls hP hl
    simp only [arrWalk]
    have hwl := skipWs_length_le' l
    cases hsk : skipWs l with
    | nil => trivial
    | cons b rest =>
      rw [hsk] at hwl
      simp only [List.length_cons] at hwl
      simp only []
      by_cases h93 : (b == 93) = true
      · simp only [h93, if_true]; exact hP
      · simp only [h93, Bool.false_eq_true, if_false]
        cases first with
        | true =>
          simp only [if_true]
          exact stepMember_inv P _ calls _ (b :: rest).length
            (memberOut_inv P h L hstep #[] (b :: rest) hs hP (.inl rfl) (by simp only [List.length_cons]; omega))
            (fun hs' n r hp hr => ih false r hs' n hp (by simp only [List.length_cons] at hr; omega))
        | false =>
          simp only [Bool.false_eq_true, if_false]
          by_cases h44 : (b == 44) = true
          · simp only [h44, if_true]
            have hw2 := skipWs_length_le' rest
            exact stepMember_inv P _ calls _ (skipWs rest).length
              (memberOut_inv P h L hstep #[] (skipWs rest) hs hP (.inl rfl) (by omega))
              (fun hs' n r hp hr => ih false r hs' n hp (by omega))
          · simp [h44, TOutP]

theorem objWalk_inv {τ} (P : τ → Prop) (h : Handler τ) (L : Nat)
    (hstep : ∀ hs field v, P hs → CallOK L field v → P (h hs field v.toArray).1) :
    ∀ (fuel : Nat) (first : Bool) (l : List UInt8) (hs : τ) (calls : Nat), P hs → l.length < L →
      TOutP P (objWalk h fuel first l hs calls) := by
  intro fuel
  induction fuel with
  | zero => intro first l hs calls _ _; trivial
  | succ fuel ih =>
    intro first l hs calls hP hl
    simp only [objWalk]
    have hwl := skipWs_length_le' l
    cases hsk : skipWs l with
    | nil => trivial
    | cons b rest =>
      rw [hsk] at hwl
      simp only [List.length_cons] at hwl
      simp only []
      -- one member starting at `kl`
      have key : ∀ kl : List UInt8, kl.length < L →
          TOutP P (keyMember h hs calls (fun hs' n r => objWalk h fuel false r hs' n) kl) := by
        intro kl hkl
        cases kl with
        | nil => simp [keyMember_nil, TOutP]
        | cons q k =>
          by_cases hq : q = 34
          · subst hq
            rw [keyMember_34]
            cases hsp : splitString k with
            | none => trivial
            | some pr =>
              obtain ⟨body, r1⟩ := pr
              simp only []
              obtain ⟨hwf, hkb⟩ := C06.wfBody_of_split k body r1 hsp
              have hlen : body.length + 1 + r1.length = k.length := by rw [hkb]; simp only [List.length_append, List.length_cons]; omega
              simp only [List.length_cons] at hkl
              have hw1 := skipWs_length_le' r1
              cases hsk1 : skipWs r1 with
              | nil => simp [colonMember_nil, TOutP]
              | cons b2 r2 =>
                rw [hsk1] at hw1
                simp only [List.length_cons] at hw1
                by_cases h58 : b2 = 58
                · subst h58
                  rw [colonMember_58]
                  have hw2 := skipWs_length_le' r2
                  exact stepMember_inv P _ calls _ (skipWs r2).length
                    (memberOut_inv P h L hstep body.toArray (skipWs r2) hs hP (.inr ⟨body, rfl, hwf, by omega⟩) (by omega))
                    (fun hs' n r hp hr => ih false r hs' n hp (by omega))
                · rw [colonMember_other _ _ _ _ _ b2 r2 h58]; trivial
          · rw [keyMember_other _ _ _ _ q k hq]; trivial
      by_cases h125 : (b == 125) = true
      · simp only [h125, if_true]; exact hP
      · simp only [h125, Bool.false_eq_true, if_false]
        cases first with
        | true => simp only [if_true]; exact key (b :: rest) (by simp only [List.length_cons]; omega)
        | false =>
          simp only [Bool.false_eq_true, if_false]
          by_cases h44 : (b == 44) = true
          · simp only [h44, if_true]
            have hw2 := skipWs_length_le' rest
            exact key (skipWs rest) (by omega)
          · simp [h44, TOutP]

/-- the invariant along the whole traversal specification -/
theorem traverseH_inv {τ} (P : τ → Prop) (k : Abs.Kind) (h : Handler τ) (data : List UInt8)
    (hstep : ∀ hs field v, P hs → CallOK data.length field v → P (h hs field v.toArray).1) (hs : τ) (hP : P hs) :
    TOutP P (traverseH k h data hs) := by
  simp only [traverseH]
  have hwl := skipWs_length_le' data
  cases hsk : skipWs data with
  | nil => trivial
  | cons b rest =>
    rw [hsk] at hwl
    simp only [List.length_cons] at hwl
    simp only []
    by_cases h110 : (b == 110) = true
    · simp only [h110, if_true]
      cases scanLit [117, 108, 108] rest with
      | none => trivial
      | some r => exact hP
    · simp only [h110, Bool.false_eq_true, if_false]
      by_cases ha : (k == .harr && b == 91) = true
      · simp only [ha, if_true]
        exact arrWalk_inv P h data.length hstep _ true rest hs 0 hP (by omega)
      · simp only [ha, Bool.false_eq_true, if_false]
        by_cases ho : (k == .hobj && b == 123) = true
        · simp only [ho, if_true]
          exact objWalk_inv P h data.length hstep _ true rest hs 0 hP (by omega)
        · simp [ho, TOutP]

/-! ## the readers -/

theorem readSimpleValue_nopanic (sub : Bytes) (hsm : Small sub) (tp : Nat) : (Model.readSimpleValue sub tp).panicked = false := by
  simp only [Model.readSimpleValue]
  by_cases h1 : (tp == 1) = true
  · simp only [h1, if_true]
    have key := C13.readNull_spec sub hsm
    cases hs : scanLit [110, 117, 108, 108] (skipWs sub.toList) with
    | none => rw [hs] at key; exact key.2
    | some r => rw [hs] at key; exact key.2.2
  · simp only [h1, Bool.false_eq_true, if_false]
    by_cases h2 : (tp == 2) = true
    · simp only [h2, if_true]
      have key := C06.readStringBytes_spec sub hsm #[]
      cases hs : Spec.readString sub.toList with
      | none => rw [hs] at key; exact key.2
      | some pr => obtain ⟨c, n⟩ := pr; rw [hs] at key; exact key.2.1
    · simp only [h2, Bool.false_eq_true, if_false]
      by_cases h3 : (tp == 3) = true
      · simp only [h3, if_true]
        exact (C10.readFloat64_total sub).1
      · simp only [h3, Bool.false_eq_true, if_false]
        by_cases h4 : (tp == 4 || tp == 5) = true
        · simp only [h4, if_true]
          have key := C13.readBool_spec sub hsm
          cases hs1 : scanLit [116, 114, 117, 101] (skipWs sub.toList) with
          | some r => rw [hs1] at key; exact key.2.2.2
          | none =>
            rw [hs1] at key
            cases hs2 : scanLit [102, 97, 108, 115, 101] (skipWs sub.toList) with
            | some r => rw [hs2] at key; exact key.2.2.2
            | none => rw [hs2] at key; exact key.2
        · simp only [h4, Bool.false_eq_true, if_false]

/-- `handleMember` does not panic when the child readers it may start do not -/
theorem handleMember_nopanic (prev : Readers) (depth : Nat) (suffix : Bytes) (hsm : Small suffix)
    (b : UInt8) (t : List UInt8) (hsuf : suffix.toList = b :: t) (hws : isWs b = false)
    (hchild : depth + 1 ≤ Gen.valueReaderMaxDepth →
      (prev.1 (depth + 1) suffix).panicked = false ∧ (prev.2 (depth + 1) suffix).panicked = false) :
    (Model.handleMember prev depth suffix).panicked = false := by
  have hnt := C13.nextTokenType_spec suffix
  have hsk : skipWs suffix.toList = b :: t := by rw [hsuf]; exact C05.skipWs_of_not_ws b t hws
  simp only [Model.handleMember]
  rw [hnt]
  simp only [Spec.nextTokenType, hsk]
  have hlen : suffix.toList.length - t.length - 1 = 0 := by rw [hsuf]; simp
  rw [hlen]
  have hsub : Array.extract suffix 0 = suffix := by simp
  rw [hsub]
  by_cases h6 : (Spec.tokenType b == 6) = true
  · simp only [h6, if_true]
    by_cases hd : depth + 1 > Gen.valueReaderMaxDepth
    · simp only [hd, if_true]
    · simp only [hd, if_false]
      exact (hchild (by omega)).1
  · simp only [h6, Bool.false_eq_true, if_false]
    by_cases h8 : (Spec.tokenType b == 8) = true
    · simp only [h8, if_true]
      by_cases hd : depth + 1 > Gen.valueReaderMaxDepth
      · simp only [hd, if_true]
      · simp only [hd, if_false]
        exact (hchild (by omega)).2
    · simp only [h8, Bool.false_eq_true, if_false]
      exact readSimpleValue_nopanic suffix hsm _

/-- a level of readers does not panic on inputs its fuel covers -/
def NoPanicLevel (rd : Readers) (F : Nat) : Prop :=
  ∀ (depth : Nat) (data : Bytes), Small data → depth ≤ Gen.valueReaderMaxDepth →
    (F + depth ≥ Gen.valueReaderMaxDepth + 2 ∨ F ≥ data.size + 1) →
    (rd.1 depth data).panicked = false ∧ (rd.2 depth data).panicked = false

/-- the child readers started from a member of `data` are covered by one level less of fuel -/
theorem child_covered (prev : Readers) (F : Nat) (hnp : NoPanicLevel prev F) (depth : Nat) (data : Bytes) (hsm : Small data)
    (hcov : F + 1 + depth ≥ Gen.valueReaderMaxDepth + 2 ∨ F + 1 ≥ data.size + 1)
    (v : List UInt8) (hv : v.length < data.toList.length) :
    depth + 1 ≤ Gen.valueReaderMaxDepth →
      (prev.1 (depth + 1) v.toArray).panicked = false ∧ (prev.2 (depth + 1) v.toArray).panicked = false := by
  intro hd
  have hsmv : Small v.toArray := by
    unfold Small at hsm ⊢
    simp only [List.size_toArray]
    simp only [Array.length_toList] at hv
    omega
  refine hnp (depth + 1) v.toArray hsmv hd ?_
  simp only [Array.length_toList] at hv
  simp only [List.size_toArray]
  omega

theorem arrReader_nopanic (prev : Readers) (hprev : LevelOK prev) (F : Nat) (hnp : NoPanicLevel prev F) (depth : Nat)
    (data : Bytes) (hsm : Small data) (hcov : F + 1 + depth ≥ Gen.valueReaderMaxDepth + 2 ∨ F + 1 ≥ data.size + 1) :
    (Model.arrReader prev depth data).panicked = false := by
  have hwb := arrHandler_WB prev hprev depth
  have hw := traverse_run .harr (.inl rfl) (Model.arrHandler prev depth) hwb data hsm #[] ({} : ArrHS)
  rw [← Certs.HandleArrayValues.run_eq] at hw
  have hinv := traverseH_inv (fun hs : ArrHS => hs.panicked = false) .harr (Model.arrHandler prev depth) data.toList
    (by
      intro hs field v hP hc
      obtain ⟨_, ⟨b, t, hbt, hvs⟩, hvl⟩ := hc
      have hnpm := handleMember_nopanic prev depth v.toArray
        (by unfold Small at hsm ⊢; simp only [List.size_toArray]; simp only [Array.length_toList] at hvl; omega)
        b t (by simpa using hbt) (C08.not_ws_of_valueStart b hvs) (child_covered prev F hnp depth data hsm hcov v hvl)
      simp only [Model.arrHandler, hnpm, Bool.false_eq_true, if_false]
      cases (Model.handleMember prev depth v.toArray).err with
      | some e => exact hP
      | none => exact hP)
    {} rfl
  simp only [Model.arrReader]
  generalize runL Gen.HandleArrayValues.machine data (Model.arrHandler prev depth) #[] {} = res at hw
  cases hto : traverseH .harr (Model.arrHandler prev depth) data.toList {} with
  | bad =>
    rw [hto] at hw
    obtain ⟨e, he⟩ := hw
    simp only [he]
  | herr hs' n id =>
    rw [hto] at hw hinv
    obtain ⟨hk, hhs, _⟩ := hw
    simp only [hk, hhs]
    exact hinv
  | done hs' n rest =>
    rw [hto] at hw
    obtain ⟨hk, _⟩ := hw
    simp only [hk]
    split <;> rfl

theorem objReader_nopanic (prev : Readers) (hprev : LevelOK prev) (F : Nat) (hnp : NoPanicLevel prev F) (depth : Nat)
    (data : Bytes) (hsm : Small data) (hcov : F + 1 + depth ≥ Gen.valueReaderMaxDepth + 2 ∨ F + 1 ≥ data.size + 1) :
    (Model.objReader prev depth data).panicked = false := by
  have hwb := objHandler_WB prev hprev depth
  have hw := traverse_run .hobj (.inr rfl) (Model.objHandler prev depth) hwb data hsm #[] ({} : ObjHS)
  rw [← Certs.HandleObjectValues.run_eq] at hw
  have hinv := traverseH_inv (fun hs : ObjHS => hs.panicked = false) .hobj (Model.objHandler prev depth) data.toList
    (by
      intro hs field v hP hc
      obtain ⟨hfield, ⟨b, t, hbt, hvs⟩, hvl⟩ := hc
      have hnpm := handleMember_nopanic prev depth v.toArray
        (by unfold Small at hsm ⊢; simp only [List.size_toArray]; simp only [Array.length_toList] at hvl; omega)
        b t (by simpa using hbt) (C08.not_ws_of_valueStart b hvs) (child_covered prev F hnp depth data hsm hcov v hvl)
      -- the key: empty (never for objects) or a well-formed body
      have hkey : (Model.objKeyOf field).panicked = false := by
        rcases hfield with rfl | ⟨body, rfl, hwf, hbl⟩
        · simp [Model.objKeyOf, Model.findBackslash]
        · have hl : body.length < 4611686018427387904 := by
            unfold Small at hsm; simp only [Array.length_toList] at hbl; omega
          exact (objKey_spec body hwf hl).2.1
      simp only [Model.objHandler, hkey, Bool.false_eq_true, if_false]
      cases (Model.objKeyOf field).err with
      | some e => exact hP
      | none =>
        simp only [hnpm, Bool.false_eq_true, if_false]
        cases (Model.handleMember prev depth v.toArray).err with
        | some e => exact hP
        | none => exact hP)
    {} rfl
  simp only [Model.objReader]
  generalize runL Gen.HandleObjectValues.machine data (Model.objHandler prev depth) #[] {} = res at hw
  cases hto : traverseH .hobj (Model.objHandler prev depth) data.toList {} with
  | bad =>
    rw [hto] at hw
    obtain ⟨e, he⟩ := hw
    simp only [he]
  | herr hs' n id =>
    rw [hto] at hw hinv
    obtain ⟨hk, hhs, _⟩ := hw
    simp only [hk, hhs]
    exact hinv
  | done hs' n rest =>
    rw [hto] at hw
    obtain ⟨hk, _⟩ := hw
    simp only [hk]
    split <;> rfl

/-- every level of readers is panic-free on the inputs its fuel covers -/
theorem readers_nopanic : ∀ (F : Nat), NoPanicLevel (Model.readers F) F := by
  intro F
  induction F with
  | zero =>
    intro depth data _ hd hcov
    exfalso
    have hmax : Gen.valueReaderMaxDepth = 10000 := rfl
    rcases hcov with h | h <;> omega
  | succ F ih =>
    intro depth data hsm hd hcov
    exact ⟨objReader_nopanic _ (readers_levelOK F) F ih depth data hsm hcov, arrReader_nopanic _ (readers_levelOK F) F ih depth data hsm hcov⟩

end RJson.Tree
