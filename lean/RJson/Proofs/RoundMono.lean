import RJson.Proofs.ExactPath
/-!
# `Spec.roundRat` is monotone, so a value between two values that round alike rounds like them

Used for literals with more than 19 digits: when the 19-digit prefix `m` and `m + 1` (times the same power of ten)
round to the same double, every value in between does.
-/
namespace RJson.RoundMono
open RJson.Spec RJson.RoundRat RJson.Exact

/-- the rounded mantissa and exponent (after the carry), before packing -/
def rp (n d : ℕ) : ℕ × ℤ :=
  let e := expOf n d
  let m := roundHalfEven (divPow2 n d e).1 (divPow2 n d e).2
  if m == 2 ^ 53 then (2 ^ 52, e + 1) else (m, e)

/-- packing -/
def encode (me : ℕ × ℤ) : ℕ × Bool :=
  if me.1 < 2 ^ 52 then (me.1, false)
  else if me.2 + 1075 ≥ 2047 then (2047 * 2 ^ 52, true)
  else ((me.2 + 1075).toNat * 2 ^ 52 + (me.1 - 2 ^ 52), false)

theorem roundRat_encode (n d : ℕ) (hn : n ≠ 0) (hd : d ≠ 0) : roundRat false n d = encode (rp n d) := by
  rw [roundRat_unfold false n d hn hd]
  simp only [roundAt, rp, encode, signBit_false, Nat.zero_add]
  rfl

def valP (me : ℕ × ℤ) : ℚ := (me.1 : ℚ) * 2 ^ me.2

/-- the exponent is at least -1074; the quotient has at most 53 bits, and exactly 53 above the clamp -/
theorem expOf_facts (n d : ℕ) (hn : n ≠ 0) (hd : d ≠ 0) :
    -1074 ≤ expOf n d ∧ (divPow2 n d (expOf n d)).1 < 2 ^ 53 ∧ (-1074 < expOf n d → 2 ^ 52 ≤ (divPow2 n d (expOf n d)).1) := by
  obtain ⟨a, b⟩ := expPre_spec n d hn hd
  rw [expOf_pre]
  by_cases hc : expPre n d < -1074
  · rw [if_pos hc]
    refine ⟨by norm_num, ?_, fun h => absurd h (by norm_num)⟩
    -- x < 2^53 · 2^expPre ≤ 2^52 · 2^(-1074)
    have hdp := Nat.pos_of_ne_zero hd
    have hq := (divPow2_spec n d hdp (expPre n d)).1
    obtain ⟨_, u⟩ := isQ_normal_bounds hq a b
    have hq2 := (divPow2_spec n d hdp (-1074)).1
    have hp := two_zpow_pos (-1074)
    have hle : (2 : ℚ) ^ (53 + expPre n d) ≤ 2 ^ (52 + (-1074 : ℤ)) := zpow_le_zpow_right₀ (by norm_num) (by omega)
    have h1 : ((divPow2 n d (-1074)).1 : ℚ) * 2 ^ (-1074 : ℤ) < 2 ^ 52 * 2 ^ (-1074 : ℤ) := by
      calc ((divPow2 n d (-1074)).1 : ℚ) * 2 ^ (-1074 : ℤ) ≤ (n : ℚ) / d := hq2.1
        _ < 2 ^ (53 + expPre n d) := u
        _ ≤ 2 ^ (52 + (-1074 : ℤ)) := hle
        _ = 2 ^ 52 * 2 ^ (-1074 : ℤ) := by rw [zpow_add₀ (by norm_num)]; norm_cast
    have := lt_of_mul_lt_mul_right h1 hp.le
    have h2 : (divPow2 n d (-1074)).1 < 2 ^ 52 := by exact_mod_cast this
    omega
  · rw [if_neg hc]
    exact ⟨by omega, b, fun _ => a⟩

theorem rhe_bounds (q c : ℕ) : q ≤ roundHalfEven q c ∧ roundHalfEven q c ≤ q + 1 := by
  rcases roundHalfEven_cases q c with h | h <;> omega

/-- the value of the rounded pair is the rounded quotient times the unit -/
theorem valP_rp (n d : ℕ) :
    valP (rp n d) = (roundHalfEven (divPow2 n d (expOf n d)).1 (divPow2 n d (expOf n d)).2 : ℚ) * 2 ^ expOf n d := by
  simp only [rp, valP]
  by_cases h : roundHalfEven (divPow2 n d (expOf n d)).1 (divPow2 n d (expOf n d)).2 = 2 ^ 53
  · rw [if_pos (beq_iff_eq.mpr h), h]
    simp only []
    rw [two_zpow_succ]
    push_cast
    ring
  · rw [if_neg (by simpa using h)]

/-- same quotient at the same exponent: the rounding follows the order of the values -/
theorem rhe_mono {x y : ℚ} {e : ℤ} {q cx cy : ℕ} (hxy : x ≤ y) (hx : IsC x e q cx) (hy : IsC y e q cy) :
    roundHalfEven q cx ≤ roundHalfEven q cy := by
  have hp := two_zpow_pos e
  have hmid : (q : ℚ) * 2 ^ e < ((q : ℚ) + 1 / 2) * 2 ^ e := by
    apply mul_lt_mul_of_pos_right _ hp; linarith
  rcases hx with ⟨rfl, a⟩ | ⟨rfl, a, a'⟩ | ⟨rfl, a⟩ | ⟨rfl, a⟩ <;>
  rcases hy with ⟨rfl, b⟩ | ⟨rfl, b, b'⟩ | ⟨rfl, b⟩ | ⟨rfl, b⟩ <;>
  first
    | (exfalso; linarith)
    | (simp only [roundHalfEven]; norm_num; done)
    | (simp only [roundHalfEven]; norm_num; split <;> omega)

/-- **monotonicity of the rounded value** -/
theorem rp_mono (n d n' d' : ℕ) (hn : n ≠ 0) (hd : d ≠ 0) (hn' : n' ≠ 0) (hd' : d' ≠ 0)
    (hxy : (n : ℚ) / d ≤ (n' : ℚ) / d') : valP (rp n d) ≤ valP (rp n' d') := by
  obtain ⟨ex1, qx53, qx52⟩ := expOf_facts n d hn hd
  obtain ⟨ey1, qy53, qy52⟩ := expOf_facts n' d' hn' hd'
  obtain ⟨hqx, hcx⟩ := divPow2_spec n d (Nat.pos_of_ne_zero hd) (expOf n d)
  obtain ⟨hqy, hcy⟩ := divPow2_spec n' d' (Nat.pos_of_ne_zero hd') (expOf n' d')
  rw [valP_rp, valP_rp]
  generalize hex : expOf n d = ex at *
  generalize hey : expOf n' d' = ey at *
  generalize hqxv : (divPow2 n d ex).1 = qx at *
  generalize hqyv : (divPow2 n' d' ey).1 = qy at *
  generalize hcxv : (divPow2 n d ex).2 = cx at *
  generalize hcyv : (divPow2 n' d' ey).2 = cy at *
  obtain ⟨rx1, rx2⟩ := rhe_bounds qx cx
  obtain ⟨ry1, ry2⟩ := rhe_bounds qy cy
  have hpx := two_zpow_pos ex
  have hpy := two_zpow_pos ey
  have hrx : (roundHalfEven qx cx : ℚ) ≤ (qx : ℚ) + 1 := by exact_mod_cast rx2
  have hry : (qy : ℚ) ≤ (roundHalfEven qy cy : ℚ) := by exact_mod_cast ry1
  have hqx53 : (qx : ℚ) + 1 ≤ 2 ^ 53 := by exact_mod_cast qx53
  have hqy53 : (qy : ℚ) + 1 ≤ 2 ^ 53 := by exact_mod_cast qy53
  -- the exponents are ordered
  have hexp : ex ≤ ey := by
    by_contra hcon
    have hlt : ey + 1 ≤ ex := by omega
    have hq52 : ((2 ^ 52 : ℕ) : ℚ) ≤ qx := by exact_mod_cast qx52 (by omega)
    push_cast at hq52
    have h1 : (n' : ℚ) / d' < 2 ^ 53 * 2 ^ ey := lt_of_lt_of_le hqy.2 (mul_le_mul_of_nonneg_right hqy53 hpy.le)
    have h2 : (2 : ℚ) ^ 53 * 2 ^ ey ≤ 2 ^ 52 * 2 ^ ex := by
      have : (2 : ℚ) ^ (ey + 1) ≤ 2 ^ ex := zpow_le_zpow_right₀ (by norm_num) hlt
      rw [two_zpow_succ] at this
      nlinarith
    have h3 : (2 : ℚ) ^ 52 * 2 ^ ex ≤ (n : ℚ) / d := le_trans (mul_le_mul_of_nonneg_right hq52 hpx.le) hqx.1
    linarith
  rcases Int.lt_or_eq_of_le hexp with hlt | heq
  · -- a smaller exponent: below the next power of two
    have hq52 : ((2 ^ 52 : ℕ) : ℚ) ≤ qy := by exact_mod_cast qy52 (by omega)
    push_cast at hq52
    have hstep : (2 : ℚ) ^ (ex + 1) ≤ 2 ^ ey := zpow_le_zpow_right₀ (by norm_num) (by omega)
    rw [two_zpow_succ] at hstep
    calc (roundHalfEven qx cx : ℚ) * 2 ^ ex ≤ ((qx : ℚ) + 1) * 2 ^ ex := mul_le_mul_of_nonneg_right hrx hpx.le
      _ ≤ 2 ^ 53 * 2 ^ ex := mul_le_mul_of_nonneg_right hqx53 hpx.le
      _ = 2 ^ 52 * (2 * 2 ^ ex) := by ring
      _ ≤ 2 ^ 52 * 2 ^ ey := mul_le_mul_of_nonneg_left hstep (by positivity)
      _ ≤ (qy : ℚ) * 2 ^ ey := mul_le_mul_of_nonneg_right hq52 hpy.le
      _ ≤ (roundHalfEven qy cy : ℚ) * 2 ^ ey := mul_le_mul_of_nonneg_right hry hpy.le
  · subst heq
    apply mul_le_mul_of_nonneg_right _ hpx.le
    -- the quotients are ordered
    have hq : qx ≤ qy := by
      have h1 : (qx : ℚ) * 2 ^ ex < ((qy : ℚ) + 1) * 2 ^ ex := lt_of_le_of_lt hqx.1 (lt_of_le_of_lt hxy hqy.2)
      have := lt_of_mul_lt_mul_right h1 hpx.le
      have h2 : qx < qy + 1 := by exact_mod_cast this
      omega
    rcases Nat.lt_or_eq_of_le hq with hlt | heq
    · have : roundHalfEven qx cx ≤ roundHalfEven qy cy := by omega
      exact_mod_cast this
    · subst heq
      have := rhe_mono hxy hcx hcy
      exact_mod_cast this

/-- canonical pairs: a normal mantissa, or a subnormal one at the minimum exponent -/
def Canon (p : ℕ × ℤ) : Prop := p.1 < 2 ^ 53 ∧ -1074 ≤ p.2 ∧ (p.1 < 2 ^ 52 → p.2 = -1074)

theorem rp_canon (n d : ℕ) (hn : n ≠ 0) (hd : d ≠ 0) : Canon (rp n d) := by
  obtain ⟨e1, q53, q52⟩ := expOf_facts n d hn hd
  obtain ⟨r1, r2⟩ := rhe_bounds (divPow2 n d (expOf n d)).1 (divPow2 n d (expOf n d)).2
  simp only [rp, Canon]
  by_cases h : roundHalfEven (divPow2 n d (expOf n d)).1 (divPow2 n d (expOf n d)).2 = 2 ^ 53
  · rw [if_pos (beq_iff_eq.mpr h)]
    exact ⟨by norm_num, by simp only []; omega, fun hh => absurd hh (by norm_num)⟩
  · rw [if_neg (by simpa using h)]
    refine ⟨by simp only []; omega, e1, ?_⟩
    intro hlt
    simp only [] at hlt ⊢
    by_contra hne
    have := q52 (by omega)
    omega

theorem valP_inj (p p' : ℕ × ℤ) (hc : Canon p) (hc' : Canon p') (hv : valP p = valP p') : p = p' := by
  obtain ⟨m, e⟩ := p
  obtain ⟨m', e'⟩ := p'
  obtain ⟨a1, a2, a3⟩ := hc
  obtain ⟨b1, b2, b3⟩ := hc'
  simp only [valP] at hv a1 a2 a3 b1 b2 b3
  have hp := two_zpow_pos e
  have hp' := two_zpow_pos e'
  have hm53 : (m : ℚ) < 2 ^ 53 := by exact_mod_cast a1
  have hm'53 : (m' : ℚ) < 2 ^ 53 := by exact_mod_cast b1
  -- the exponents agree
  have hexp : e = e' := by
    by_contra hne
    rcases Int.lt_or_gt_of_ne hne with hlt | hgt
    · -- e < e': then m' is normal (e' > -1074) and m·2^e < 2^53·2^e ≤ 2^52·2^e' ≤ m'·2^e'
      have hm'52 : (2 : ℚ) ^ 52 ≤ m' := by
        have : ¬ m' < 2 ^ 52 := fun hh => by have := b3 hh; omega
        have : 2 ^ 52 ≤ m' := Nat.le_of_not_lt this
        exact_mod_cast this
      have hstep : (2 : ℚ) ^ (e + 1) ≤ 2 ^ e' := zpow_le_zpow_right₀ (by norm_num) (by omega)
      rw [two_zpow_succ] at hstep
      have : (m : ℚ) * 2 ^ e < (m' : ℚ) * 2 ^ e' := by
        calc (m : ℚ) * 2 ^ e < 2 ^ 53 * 2 ^ e := mul_lt_mul_of_pos_right hm53 hp
          _ = 2 ^ 52 * (2 * 2 ^ e) := by ring
          _ ≤ 2 ^ 52 * 2 ^ e' := mul_le_mul_of_nonneg_left hstep (by positivity)
          _ ≤ (m' : ℚ) * 2 ^ e' := mul_le_mul_of_nonneg_right hm'52 hp'.le
      linarith
    · have hm52 : (2 : ℚ) ^ 52 ≤ m := by
        have : ¬ m < 2 ^ 52 := fun hh => by have := a3 hh; omega
        have : 2 ^ 52 ≤ m := Nat.le_of_not_lt this
        exact_mod_cast this
      have hstep : (2 : ℚ) ^ (e' + 1) ≤ 2 ^ e := zpow_le_zpow_right₀ (by norm_num) (by omega)
      rw [two_zpow_succ] at hstep
      have : (m' : ℚ) * 2 ^ e' < (m : ℚ) * 2 ^ e := by
        calc (m' : ℚ) * 2 ^ e' < 2 ^ 53 * 2 ^ e' := mul_lt_mul_of_pos_right hm'53 hp'
          _ = 2 ^ 52 * (2 * 2 ^ e') := by ring
          _ ≤ 2 ^ 52 * 2 ^ e := mul_le_mul_of_nonneg_left hstep (by positivity)
          _ ≤ (m : ℚ) * 2 ^ e := mul_le_mul_of_nonneg_right hm52 hp.le
      linarith
  subst hexp
  have : (m : ℚ) = m' := mul_right_cancel₀ hp.ne' hv
  have : m = m' := by exact_mod_cast this
  rw [this]

theorem normal_pack_inj (b1 b2 m1 m2 : ℕ) (h1 : 2 ^ 52 ≤ m1) (h1' : m1 < 2 ^ 53) (h2 : 2 ^ 52 ≤ m2) (h2' : m2 < 2 ^ 53)
    (h : b1 * 2 ^ 52 + (m1 - 2 ^ 52) = b2 * 2 ^ 52 + (m2 - 2 ^ 52)) : b1 = b2 ∧ m1 = m2 := by
  simp only [Nat.reducePow] at *
  omega

theorem encode_inj (p p' : ℕ × ℤ) (hc : Canon p) (hc' : Canon p') (a : ℕ) (h : encode p = (a, false)) (h' : encode p' = (a, false)) :
    p = p' := by
  obtain ⟨m, e⟩ := p
  obtain ⟨m', e'⟩ := p'
  obtain ⟨a1, a2, a3⟩ := hc
  obtain ⟨b1, b2, b3⟩ := hc'
  simp only [encode] at h h' a1 a2 a3 b1 b2 b3
  by_cases hs : m < 2 ^ 52
  · rw [if_pos hs] at h
    have h := (Prod.mk.inj h).1
    by_cases hs' : m' < 2 ^ 52
    · rw [if_pos hs'] at h'
      have h' := (Prod.mk.inj h').1
      rw [a3 hs, b3 hs', h, h']
    · rw [if_neg hs'] at h'
      by_cases ho : e' + 1075 ≥ 2047
      · rw [if_pos ho] at h'; exact absurd (Prod.mk.inj h').2 (by decide)
      · rw [if_neg ho] at h'
        have h' := (Prod.mk.inj h').1
        exfalso
        have : 1 ≤ (e' + 1075).toNat := by omega
        have : 2 ^ 52 ≤ (e' + 1075).toNat * 2 ^ 52 := Nat.le_mul_of_pos_left _ this
        omega
  · rw [if_neg hs] at h
    by_cases ho : e + 1075 ≥ 2047
    · rw [if_pos ho] at h; exact absurd (Prod.mk.inj h).2 (by decide)
    · rw [if_neg ho] at h
      have h := (Prod.mk.inj h).1
      by_cases hs' : m' < 2 ^ 52
      · rw [if_pos hs'] at h'
        have h' := (Prod.mk.inj h').1
        exfalso
        have : 1 ≤ (e + 1075).toNat := by omega
        have : 2 ^ 52 ≤ (e + 1075).toNat * 2 ^ 52 := Nat.le_mul_of_pos_left _ this
        omega
      · rw [if_neg hs'] at h'
        by_cases ho' : e' + 1075 ≥ 2047
        · rw [if_pos ho'] at h'; exact absurd (Prod.mk.inj h').2 (by decide)
        · rw [if_neg ho'] at h'
          have h' := (Prod.mk.inj h').1
          have hEq : (e + 1075).toNat * 2 ^ 52 + (m - 2 ^ 52) = (e' + 1075).toNat * 2 ^ 52 + (m' - 2 ^ 52) := by rw [h, h']
          obtain ⟨hb, hmm⟩ := normal_pack_inj _ _ m m' (Nat.le_of_not_lt hs) a1 (Nat.le_of_not_lt hs') b1 hEq
          have he : e = e' := by
            clear h h' hEq
            omega
          rw [he, hmm]

/-- **a value between two values that round alike rounds like them** -/
theorem roundRat_sandwich (neg : Bool) (n1 d1 n2 d2 n3 d3 : ℕ) (h1n : n1 ≠ 0) (h1d : d1 ≠ 0) (h2n : n2 ≠ 0) (h2d : d2 ≠ 0)
    (h3n : n3 ≠ 0) (h3d : d3 ≠ 0) (h12 : (n1 : ℚ) / d1 ≤ (n2 : ℚ) / d2) (h23 : (n2 : ℚ) / d2 ≤ (n3 : ℚ) / d3) (f : ℕ)
    (hr1 : roundRat neg n1 d1 = (f, false)) (hr3 : roundRat neg n3 d3 = (f, false)) :
    roundRat neg n2 d2 = (f, false) := by
  rw [roundRat_sign] at hr1 hr3 ⊢
  injection hr1 with a1 o1
  injection hr3 with a3 o3
  have haa : (roundRat false n1 d1).1 = (roundRat false n3 d3).1 := by omega
  have e1 : encode (rp n1 d1) = ((roundRat false n1 d1).1, false) := by
    rw [← roundRat_encode n1 d1 h1n h1d]; exact Prod.ext rfl o1
  have e3 : encode (rp n3 d3) = ((roundRat false n1 d1).1, false) := by
    rw [← roundRat_encode n3 d3 h3n h3d, haa]; exact Prod.ext rfl o3
  have hp13 : rp n1 d1 = rp n3 d3 := encode_inj _ _ (rp_canon n1 d1 h1n h1d) (rp_canon n3 d3 h3n h3d) _ e1 e3
  have m12 := rp_mono n1 d1 n2 d2 h1n h1d h2n h2d h12
  have m23 := rp_mono n2 d2 n3 d3 h2n h2d h3n h3d h23
  rw [← hp13] at m23
  have hv : valP (rp n2 d2) = valP (rp n1 d1) := le_antisymm m23 m12
  have hp21 : rp n2 d2 = rp n1 d1 := valP_inj _ _ (rp_canon n2 d2 h2n h2d) (rp_canon n1 d1 h1n h1d) hv
  rw [roundRat_encode n2 d2 h2n h2d, hp21, e1, a1]

end RJson.RoundMono
