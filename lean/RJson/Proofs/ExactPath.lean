import RJson.Proofs.RoundRat
import RJson.Props.C04Tables
import RJson.Proofs.EiselLemire
/-!
# The exact path of `ParseJSONFloatPrefix` (`atof64exact`) is correctly rounded whenever it answers

`float64(mantissa)` is exact below 2^53, the table `float64pow10` holds the exact powers of ten (`C04.float64pow10_exact`),
and one correctly rounded multiplication or division of two exact operands is the correctly rounded product or
quotient.  The hardware operations are *defined* in the model as one correct rounding (trusted base).
-/
namespace RJson.Exact
open RJson.Spec RJson.FP RJson.RoundRat

/-- the rational value of a finite bit pattern (sign ignored) -/
def valOf (bits : ℕ) : ℚ := ((ratOfBits bits).1 : ℚ) / (ratOfBits bits).2

/-- `bitsToRat` with the fields made explicit -/
theorem bitsToRat_fields (bits ex fr : ℕ) (hex : bits / 2 ^ 52 % 2048 = ex) (hfr : bits % 2 ^ 52 = fr) (h0 : ex ≠ 0) :
    ratOfBits bits = if (ex : ℤ) - 1075 ≥ 0 then ((fr + 2 ^ 52) * 2 ^ ((ex : ℤ) - 1075).toNat, 1)
      else (fr + 2 ^ 52, 2 ^ (-((ex : ℤ) - 1075)).toNat) := by
  have hex0 : (ex == 0) = false := beq_eq_false_iff_ne.mpr h0
  simp only [ratOfBits, bitsToRat, hex, hfr, hex0, Bool.false_eq_true, if_false]
  by_cases he : (ex : ℤ) - 1075 ≥ 0
  · rw [if_pos he, if_pos he]
  · rw [if_neg he, if_neg he]

/-- decoding a normal number -/
theorem decode_normal (biased m : ℕ) (hb1 : 1 ≤ biased) (hb2 : biased ≤ 2046) (hm : 2 ^ 52 ≤ m) (hm' : m < 2 ^ 53) :
    (ratOfBits (biased * 2 ^ 52 + (m - 2 ^ 52))).2 ≠ 0 ∧
    valOf (biased * 2 ^ 52 + (m - 2 ^ 52)) = (m : ℚ) * 2 ^ ((biased : ℤ) - 1075) := by
  have hex : (biased * 2 ^ 52 + (m - 2 ^ 52)) / 2 ^ 52 % 2048 = biased := by
    simp only [Nat.reducePow] at hm hm' ⊢; omega
  have hfr : (biased * 2 ^ 52 + (m - 2 ^ 52)) % 2 ^ 52 = m - 2 ^ 52 := by
    simp only [Nat.reducePow] at hm hm' ⊢; omega
  have hmm : m - 2 ^ 52 + 2 ^ 52 = m := Nat.sub_add_cancel hm
  have hf := bitsToRat_fields _ biased (m - 2 ^ 52) hex hfr (by omega)
  rw [hmm] at hf
  unfold valOf
  rw [hf]
  by_cases he : (biased : ℤ) - 1075 ≥ 0
  · rw [if_pos he]
    refine ⟨by norm_num, ?_⟩
    show (((m * 2 ^ ((biased : ℤ) - 1075).toNat : ℕ) : ℚ)) / ((1 : ℕ) : ℚ) = _
    push_cast
    rw [← zpow_natCast, Int.toNat_of_nonneg he]
    simp
  · rw [if_neg he]
    refine ⟨by positivity, ?_⟩
    show ((m : ℕ) : ℚ) / ((2 ^ (-((biased : ℤ) - 1075)).toNat : ℕ) : ℚ) = _
    push_cast
    have : (2 : ℚ) ^ (-((biased : ℤ) - 1075)).toNat = (2 ^ ((biased : ℤ) - 1075))⁻¹ := by
      rw [← zpow_natCast, Int.toNat_of_nonneg (by omega), zpow_neg]
    rw [this]
    field_simp

theorem roundHalfEven_cases (q c : ℕ) : roundHalfEven q c = q ∨ roundHalfEven q c = q + 1 := by
  simp only [roundHalfEven]
  split
  · right; rfl
  · split
    · split
      · right; rfl
      · left; rfl
    · left; rfl

/-- the packed form of a rounding at a normal exponent -/
theorem roundAt_normal (q c : ℕ) (e : ℤ) (hq : 2 ^ 52 ≤ q) (hq' : q < 2 ^ 53) :
    ∃ (m' : ℕ) (e' : ℤ), 2 ^ 52 ≤ m' ∧ m' < 2 ^ 53 ∧ (e' = e ∨ e' = e + 1) ∧
      (q : ℚ) * 2 ^ e ≤ (m' : ℚ) * 2 ^ e' ∧
      (roundHalfEven q c = q → m' = q ∧ e' = e) ∧
      roundAt false (q, c) e = if e' + 1075 ≥ 2047 then (2047 * 2 ^ 52, true)
        else ((e' + 1075).toNat * 2 ^ 52 + (m' - 2 ^ 52), false) := by
  have hp := two_zpow_pos e
  by_cases h53 : roundHalfEven q c = 2 ^ 53
  · refine ⟨2 ^ 52, e + 1, Nat.le_refl _, by norm_num, .inr rfl, ?_, ?_, ?_⟩
    · rw [two_zpow_succ]
      have : (q : ℚ) ≤ 2 ^ 53 := by
        have : q ≤ 2 ^ 53 := by omega
        exact_mod_cast this
      calc (q : ℚ) * 2 ^ e ≤ 2 ^ 53 * 2 ^ e := mul_le_mul_of_nonneg_right this hp.le
        _ = ((2 ^ 52 : ℕ) : ℚ) * (2 * 2 ^ e) := by push_cast; ring
    · intro hh; rw [hh] at h53; omega
    · have hb : (roundHalfEven q c == 2 ^ 53) = true := beq_iff_eq.mpr h53
      simp only [roundAt, hb, if_true, signBit_false, Nat.zero_add]
      rw [if_neg (Nat.lt_irrefl _)]
  · have hb : (roundHalfEven q c == 2 ^ 53) = false := beq_eq_false_iff_ne.mpr h53
    have hcs := roundHalfEven_cases q c
    have hlo : 2 ^ 52 ≤ roundHalfEven q c := by rcases hcs with h | h <;> omega
    have hhi : roundHalfEven q c < 2 ^ 53 := by rcases hcs with h | h <;> omega
    refine ⟨roundHalfEven q c, e, hlo, hhi, .inl rfl, ?_, fun hh => ⟨hh, rfl⟩, ?_⟩
    · apply mul_le_mul_of_nonneg_right _ hp.le
      have : q ≤ roundHalfEven q c := by rcases hcs with h | h <;> omega
      exact_mod_cast this
    · simp only [roundAt, hb, Bool.false_eq_true, if_false, signBit_false, Nat.zero_add]
      rw [if_neg (Nat.not_lt.mpr hlo)]

/-- the exponent `roundRat` works at for a value of at least `2^-1022` -/
theorem expOf_normal (n d : ℕ) (hn : n ≠ 0) (hd : d ≠ 0) (hx : (2 : ℚ) ^ (-1022 : ℤ) ≤ (n : ℚ) / d) :
    expOf n d = expPre n d ∧ -1074 ≤ expPre n d := by
  obtain ⟨a, b⟩ := expPre_spec n d hn hd
  have hq := (divPow2_spec n d (Nat.pos_of_ne_zero hd) (expPre n d)).1
  obtain ⟨_, u⟩ := isQ_normal_bounds hq a b
  have : (-1022 : ℤ) < 53 + expPre n d := zpow_two_lt (lt_of_le_of_lt hx u)
  have hge : -1074 ≤ expPre n d := by omega
  refine ⟨?_, hge⟩
  rw [expOf_pre]
  have : ¬ expPre n d < -1074 := by omega
  rw [if_neg this]

/-- a value in the normal range below `2^1000`: the result is a normal number, no overflow, at least the truncated value -/
theorem roundRat_normal (n d : ℕ) (hn : n ≠ 0) (hd : d ≠ 0) (hlo : (2 : ℚ) ^ (-1022 : ℤ) ≤ (n : ℚ) / d)
    (hhi : (n : ℚ) / d < 2 ^ (1000 : ℤ)) :
    ∃ (m' : ℕ) (e' : ℤ) (q : ℕ) (e : ℤ), 2 ^ 52 ≤ m' ∧ m' < 2 ^ 53 ∧ 1 ≤ e' + 1075 ∧ e' + 1075 ≤ 2046 ∧
      IsQ ((n : ℚ) / d) e q ∧ 2 ^ 52 ≤ q ∧ q < 2 ^ 53 ∧ (q : ℚ) * 2 ^ e ≤ (m' : ℚ) * 2 ^ e' ∧
      ((n : ℚ) / d = (q : ℚ) * 2 ^ e → m' = q ∧ e' = e) ∧
      roundRat false n d = ((e' + 1075).toNat * 2 ^ 52 + (m' - 2 ^ 52), false) := by
  obtain ⟨hE, hge⟩ := expOf_normal n d hn hd hlo
  obtain ⟨a, b⟩ := expPre_spec n d hn hd
  obtain ⟨hq, hc⟩ := divPow2_spec n d (Nat.pos_of_ne_zero hd) (expPre n d)
  obtain ⟨l, _⟩ := isQ_normal_bounds hq a b
  have hub : 52 + expPre n d < 1000 := zpow_two_lt (lt_of_le_of_lt l hhi)
  obtain ⟨m', e', h1, h2, h3, h4, h5, h6⟩ := roundAt_normal (divPow2 n d (expPre n d)).1 (divPow2 n d (expPre n d)).2 (expPre n d) a b
  have hnov : ¬ e' + 1075 ≥ 2047 := by rcases h3 with h | h <;> omega
  refine ⟨m', e', _, expPre n d, h1, h2, by rcases h3 with h | h <;> omega, by rcases h3 with h | h <;> omega, hq, a, b, h4, ?_, ?_⟩
  · intro hex
    apply h5
    -- exact value: remainder class 0
    have hc0 : IsC ((n : ℚ) / d) (expPre n d) (divPow2 n d (expPre n d)).1 0 := .inl ⟨rfl, hex⟩
    have : (divPow2 n d (expPre n d)).2 = 0 := isC_unique hc hc0
    rw [this]
    simp [roundHalfEven]
  · rw [roundRat_unfold false n d hn hd, hE]
    rw [h6, if_neg hnov]

/-! ## the hardware operations of the model -/

theorem valOf_num_ne (b : ℕ) (A : ℚ) (hA : valOf b = A) (hA0 : 0 < A) : (ratOfBits b).1 ≠ 0 := by
  intro h0
  unfold valOf at hA
  rw [h0] at hA
  simp at hA
  linarith

theorem fmul_eq (a b : ℕ) (ha2 : (ratOfBits a).2 ≠ 0) (hb2 : (ratOfBits b).2 ≠ 0) (A B : ℚ) (hA : valOf a = A) (hB : valOf b = B)
    (hA0 : 0 < A) (hB0 : 0 < B) (N D : ℕ) (hN : N ≠ 0) (hD : D ≠ 0) (hv : (N : ℚ) / D = A * B) :
    fmulAbs a b = (roundRat false N D).1 := by
  have han := valOf_num_ne a A hA hA0
  have hbn := valOf_num_ne b B hB hB0
  have : fmulAbs a b = (roundRat false ((ratOfBits a).1 * (ratOfBits b).1) ((ratOfBits a).2 * (ratOfBits b).2)).1 := rfl
  rw [this]
  congr 1
  apply roundRat_congr false _ _ N D (Nat.mul_ne_zero han hbn) (Nat.mul_ne_zero ha2 hb2) hN hD
  rw [hv, ← hA, ← hB]
  unfold valOf
  push_cast
  rw [div_mul_div_comm]

theorem fdiv_eq (a b : ℕ) (ha2 : (ratOfBits a).2 ≠ 0) (hb2 : (ratOfBits b).2 ≠ 0) (A B : ℚ) (hA : valOf a = A) (hB : valOf b = B)
    (hA0 : 0 < A) (hB0 : 0 < B) (N D : ℕ) (hN : N ≠ 0) (hD : D ≠ 0) (hv : (N : ℚ) / D = A / B) :
    fdivAbs a b = (roundRat false N D).1 := by
  have han := valOf_num_ne a A hA hA0
  have hbn := valOf_num_ne b B hB hB0
  have : fdivAbs a b = (roundRat false ((ratOfBits a).1 * (ratOfBits b).2) ((ratOfBits a).2 * (ratOfBits b).1)).1 := rfl
  rw [this]
  congr 1
  apply roundRat_congr false _ _ N D (Nat.mul_ne_zero han hb2) (Nat.mul_ne_zero ha2 hbn) hN hD
  rw [hv, ← hA, ← hB]
  unfold valOf
  push_cast
  rw [div_div_div_eq]

theorem fgt_iff (a b : ℕ) (ha2 : (ratOfBits a).2 ≠ 0) (hb2 : (ratOfBits b).2 ≠ 0) :
    fgtAbs a b = true ↔ valOf b < valOf a := by
  have : fgtAbs a b = decide ((ratOfBits a).1 * (ratOfBits b).2 > (ratOfBits b).1 * (ratOfBits a).2) := rfl
  rw [this, decide_eq_true_eq]
  unfold valOf
  have hap : (0 : ℚ) < ((ratOfBits a).2 : ℚ) := by exact_mod_cast Nat.pos_of_ne_zero ha2
  have hbp : (0 : ℚ) < ((ratOfBits b).2 : ℚ) := by exact_mod_cast Nat.pos_of_ne_zero hb2
  rw [div_lt_div_iff₀ hbp hap]
  constructor
  · intro h; exact_mod_cast h
  · intro h; exact_mod_cast h

/-- the table `float64pow10` holds the exact powers of ten -/
theorem pow10_val (i : ℕ) (hi : i < 23) : (ratOfBits (float64pow10 i)).2 ≠ 0 ∧ valOf (float64pow10 i) = (10 : ℚ) ^ i := by
  have h := allBelow_spec C04.float64pow10_exact.2 i hi
  simp only [Bool.and_eq_true, Bool.not_eq_true', beq_iff_eq, decide_eq_true_eq] at h
  obtain ⟨⟨_, hn⟩, hd⟩ := h
  have e1 : (ratOfBits (float64pow10 i)).1 = (bitsToRat (float64pow10 i)).2.1 := rfl
  have e2 : (ratOfBits (float64pow10 i)).2 = (bitsToRat (float64pow10 i)).2.2 := rfl
  refine ⟨by rw [e2]; omega, ?_⟩
  unfold valOf
  rw [e1, e2, hn]
  have : (0 : ℚ) < ((bitsToRat (float64pow10 i)).2.2 : ℚ) := by exact_mod_cast hd
  push_cast
  field_simp

/-- an integer that fits the quotient range is its own quotient -/
theorem exact_of_int (m q : ℕ) (e : ℤ) (he : e ≤ 0) (h : IsQ (m : ℚ) e q) : (m : ℚ) = (q : ℚ) * 2 ^ e := by
  obtain ⟨j, rfl⟩ : ∃ j : ℕ, e = -(j : ℤ) := ⟨(-e).toNat, by rw [Int.toNat_of_nonneg (by omega)]; ring⟩
  obtain ⟨h1, h2⟩ := h
  rw [zpow_neg, zpow_natCast] at h1 h2 ⊢
  have hp : (0 : ℚ) < 2 ^ j := by positivity
  have a : (q : ℚ) ≤ (m : ℚ) * 2 ^ j := by
    have := mul_le_mul_of_nonneg_right h1 hp.le
    rwa [mul_assoc, inv_mul_cancel₀ hp.ne', mul_one] at this
  have b : (m : ℚ) * 2 ^ j < (q : ℚ) + 1 := by
    have := mul_lt_mul_of_pos_right h2 hp
    rwa [mul_assoc, inv_mul_cancel₀ hp.ne', mul_one] at this
  have a' : q ≤ m * 2 ^ j := by exact_mod_cast a
  have b' : m * 2 ^ j < q + 1 := by exact_mod_cast b
  have : q = m * 2 ^ j := by omega
  rw [this]; push_cast
  field_simp

/-- the value of the rounding of a value in the normal range, and of an integer below `2^53` -/
theorem round_val (n d : ℕ) (hn : n ≠ 0) (hd : d ≠ 0) (hlo : (2 : ℚ) ^ (-1022 : ℤ) ≤ (n : ℚ) / d)
    (hhi : (n : ℚ) / d < 2 ^ (1000 : ℤ)) :
    (roundRat false n d).2 = false ∧ (ratOfBits (roundRat false n d).1).2 ≠ 0 ∧
      ((2 : ℚ) ^ (53 : ℤ) ≤ (n : ℚ) / d → (2 : ℚ) ^ (53 : ℤ) ≤ valOf (roundRat false n d).1) ∧
      (∀ m : ℕ, (n : ℚ) / d = m → m < 2 ^ 53 → valOf (roundRat false n d).1 = m) := by
  obtain ⟨m', e', q, e, h1, h2, h3, h4, hq, hq1, hq2, hle, hex, hr⟩ := roundRat_normal n d hn hd hlo hhi
  obtain ⟨b, hb⟩ : ∃ b : ℕ, (e' + 1075).toNat = b ∧ ((b : ℤ) = e' + 1075) := ⟨(e' + 1075).toNat, rfl, by omega⟩
  obtain ⟨hb1, hb2⟩ := hb
  have hdec := decode_normal b m' (by omega) (by omega) h1 h2
  rw [hr, hb1]
  have hbe : (b : ℤ) - 1075 = e' := by omega
  rw [hbe] at hdec
  refine ⟨rfl, hdec.1, ?_, ?_⟩
  · intro h53
    rw [hdec.2]
    -- e ≥ 1 since the value is at least 2^53 and below 2^53·2^e
    obtain ⟨_, u⟩ := isQ_normal_bounds hq hq1 hq2
    have : (53 : ℤ) < 53 + e := zpow_two_lt (lt_of_le_of_lt h53 u)
    have he1 : (1 : ℤ) ≤ e := by omega
    have hq52 : ((2 ^ 52 : ℕ) : ℚ) ≤ q := by exact_mod_cast hq1
    have hpe : (2 : ℚ) ^ (1 : ℤ) ≤ 2 ^ e := zpow_le_zpow_right₀ (by norm_num) he1
    calc (2 : ℚ) ^ (53 : ℤ) = ((2 ^ 52 : ℕ) : ℚ) * 2 ^ (1 : ℤ) := by norm_num
      _ ≤ (q : ℚ) * 2 ^ e := mul_le_mul hq52 hpe (by positivity) (by positivity)
      _ ≤ (m' : ℚ) * 2 ^ e' := hle
  · intro m hm hm53
    rw [hdec.2]
    rw [hm] at hq
    -- e ≤ 0 because m < 2^53
    obtain ⟨l, _⟩ := isQ_normal_bounds hq hq1 hq2
    have hmq : (m : ℚ) < 2 ^ (53 : ℤ) := by
      have : (m : ℚ) < ((2 ^ 53 : ℕ) : ℚ) := by exact_mod_cast hm53
      calc (m : ℚ) < ((2 ^ 53 : ℕ) : ℚ) := this
        _ = 2 ^ (53 : ℤ) := by norm_num
    have : 52 + e < (53 : ℤ) := zpow_two_lt (lt_of_le_of_lt l hmq)
    have hexact := exact_of_int m q e (by omega) hq
    obtain ⟨e1, e2⟩ := hex (by rw [hm]; exact hexact)
    rw [e1, e2, ← hexact]

/-! ## `atof64exact` -/

theorem range_bounds (m : ℕ) (e : ℤ) (hm0 : m ≠ 0) (hm : m < 2 ^ 53) (he1 : -22 ≤ e) (he2 : e ≤ 37) :
    (2 : ℚ) ^ (-1022 : ℤ) ≤ (m : ℚ) * 10 ^ e ∧ (m : ℚ) * 10 ^ e < 2 ^ (1000 : ℤ) := by
  have hm1 : (1 : ℚ) ≤ m := by
    have : 1 ≤ m := Nat.pos_of_ne_zero hm0
    exact_mod_cast this
  have hmu : (m : ℚ) < 2 ^ 53 := by exact_mod_cast hm
  have hlo : (10 : ℚ) ^ (-22 : ℤ) ≤ 10 ^ e := zpow_le_zpow_right₀ (by norm_num) he1
  have hhi : (10 : ℚ) ^ e ≤ 10 ^ (37 : ℤ) := zpow_le_zpow_right₀ (by norm_num) he2
  have hp : (0 : ℚ) < 10 ^ e := by positivity
  have c1 : (2 : ℚ) ^ (-1022 : ℤ) ≤ 10 ^ (-22 : ℤ) := by
    have a : (2 : ℚ) ^ (-1022 : ℤ) ≤ 2 ^ (-74 : ℤ) := zpow_le_zpow_right₀ (by norm_num) (by norm_num)
    have b : (2 : ℚ) ^ (-74 : ℤ) ≤ 10 ^ (-22 : ℤ) := by
      rw [zpow_neg, zpow_neg]
      apply inv_anti₀ (by positivity)
      norm_num
    exact le_trans a b
  have c2 : (10 : ℚ) ^ (37 : ℤ) * 2 ^ 53 ≤ 2 ^ (1000 : ℤ) := by
    have a : (10 : ℚ) ^ (37 : ℤ) * 2 ^ 53 ≤ 2 ^ (176 : ℤ) := by norm_num
    have b : (2 : ℚ) ^ (176 : ℤ) ≤ 2 ^ (1000 : ℤ) := zpow_le_zpow_right₀ (by norm_num) (by norm_num)
    exact le_trans a b
  constructor
  · calc (2 : ℚ) ^ (-1022 : ℤ) ≤ 10 ^ (-22 : ℤ) := c1
      _ ≤ 10 ^ e := hlo
      _ = 1 * 10 ^ e := by ring
      _ ≤ (m : ℚ) * 10 ^ e := mul_le_mul_of_nonneg_right hm1 hp.le
  · calc (m : ℚ) * 10 ^ e < 2 ^ 53 * 10 ^ e := mul_lt_mul_of_pos_right hmu hp
      _ ≤ 2 ^ 53 * 10 ^ (37 : ℤ) := mul_le_mul_of_nonneg_left hhi (by positivity)
      _ = 10 ^ (37 : ℤ) * 2 ^ 53 := by ring
      _ ≤ 2 ^ (1000 : ℤ) := c2

theorem ratOfBits_zero : (ratOfBits 0).1 = 0 := by
  have := bitsToRat_fields 0 0 0 (by norm_num) (by norm_num)
  simp only [ratOfBits, bitsToRat]
  rfl

theorem fmul_zero (b : ℕ) : fmulAbs 0 b = 0 := by
  have : fmulAbs 0 b = (roundRat false ((ratOfBits 0).1 * (ratOfBits b).1) ((ratOfBits 0).2 * (ratOfBits b).2)).1 := rfl
  rw [this, ratOfBits_zero, Nat.zero_mul]
  simp [roundRat, signBit_false]

theorem fdiv_zero (b : ℕ) : fdivAbs 0 b = 0 := by
  have : fdivAbs 0 b = (roundRat false ((ratOfBits 0).1 * (ratOfBits b).2) ((ratOfBits 0).2 * (ratOfBits b).1)).1 := rfl
  rw [this, ratOfBits_zero, Nat.zero_mul]
  simp [roundRat, signBit_false]

theorem zpow_nonneg_toNat (z : ℤ) (hz : 0 ≤ z) : (10 : ℚ) ^ z = 10 ^ z.toNat := by
  rw [← zpow_natCast, Int.toNat_of_nonneg hz]

set_option maxRecDepth 10000 in
/-- **the exact path is correctly rounded whenever it answers** -/
theorem atof64exact_correct (m : ℕ) (exp : ℤ) (neg : Bool) (bits : ℕ) (h : atof64exact m exp neg = some bits) :
    roundDec neg m exp = (bits, false) := by
  simp only [atof64exact] at h
  by_cases hbig : (m / 2 ^ 52 != 0) = true
  · rw [if_pos hbig] at h; cases h
  · rw [if_neg hbig] at h
    have hm52 : m < 2 ^ 52 := by
      have : m / 2 ^ 52 = 0 := by simpa using hbig
      simp only [Nat.reducePow] at this ⊢; omega
    by_cases hm0 : m = 0
    · -- zero: every branch returns the signed zero
      subst hm0
      have hf0 : (roundRat false 0 1).1 = 0 := by simp [roundRat, signBit_false]
      rw [hf0] at h
      have hz : roundDec neg 0 exp = (signBit neg, false) := by simp [roundDec]
      rw [hz]
      by_cases he0 : (exp == 0) = true
      · rw [if_pos he0] at h
        injection h with h; rw [← h]; rfl
      · rw [if_neg he0] at h
        by_cases hpos : (decide (exp > 0) && decide (exp ≤ 15 + 22)) = true
        · rw [if_pos hpos] at h
          by_cases h22 : exp > 22
          · rw [if_pos h22] at h
            simp only [fmul_zero] at h
            by_cases hgt : fgtAbs 0 (float64pow10 15) = true
            · rw [if_pos hgt] at h; cases h
            · rw [if_neg hgt] at h
              injection h with h; rw [← h]; rfl
          · rw [if_neg h22] at h
            simp only [fmul_zero] at h
            by_cases hgt : fgtAbs 0 (float64pow10 15) = true
            · rw [if_pos hgt] at h; cases h
            · rw [if_neg hgt] at h
              injection h with h; rw [← h]; rfl
        · rw [if_neg hpos] at h
          by_cases hneg : (decide (exp < 0) && decide (exp ≥ -22)) = true
          · rw [if_pos hneg, fdiv_zero] at h
            injection h with h; rw [← h]; rfl
          · rw [if_neg hneg] at h; cases h
    · have hm53 : m < 2 ^ 53 := by simp only [Nat.reducePow] at hm52 ⊢; omega
      -- float64(mantissa) is exact
      obtain ⟨bl, bh⟩ := range_bounds m 0 hm0 hm53 (by norm_num) (by norm_num)
      have hx1 : ((m : ℕ) : ℚ) / ((1 : ℕ) : ℚ) = (m : ℚ) := by simp
      have hx0 : (m : ℚ) * 10 ^ (0 : ℤ) = m := by simp
      obtain ⟨_, hf2, _, hfv⟩ := round_val m 1 hm0 (by norm_num) (by rw [hx1, ← hx0]; exact bl) (by rw [hx1, ← hx0]; exact bh)
      have hfv := hfv m hx1 hm53
      have hmpos : (0 : ℚ) < m := by
        have : 0 < m := Nat.pos_of_ne_zero hm0
        exact_mod_cast this
      generalize hfdef : (roundRat false m 1).1 = f at h hf2 hfv
      -- the specification side, once the exponent is known to be in range
      have spec : ∀ (he1 : -22 ≤ exp) (he2 : exp ≤ 37), ∃ n d : ℕ, n ≠ 0 ∧ d ≠ 0 ∧ (n : ℚ) / d = (m : ℚ) * 10 ^ exp ∧
          roundDec neg m exp = (signBit neg + (roundRat false n d).1, false) := by
        intro he1 he2
        obtain ⟨n, d, hn, hd, hrd, hval⟩ := EL.roundDec_eq neg m exp hm0 (by omega) (by omega)
        obtain ⟨bl, bh⟩ := range_bounds m exp hm0 hm53 he1 he2
        obtain ⟨hov, _, _, _⟩ := round_val n d hn hd (by rw [hval]; exact bl) (by rw [hval]; exact bh)
        refine ⟨n, d, hn, hd, hval, ?_⟩
        rw [hrd, roundRat_sign, hov]
      by_cases he0 : (exp == 0) = true
      · rw [if_pos he0] at h
        injection h with h
        have : exp = 0 := by simpa using he0
        subst this
        obtain ⟨n, d, hn, hd, hval, hspec⟩ := spec (by norm_num) (by norm_num)
        rw [hspec, ← h, ← hfdef]
        congr 2
        apply congrArg Prod.fst
        apply roundRat_congr false n d m 1 hn hd hm0 (by norm_num)
        rw [hval, hx1]; simp
      · rw [if_neg he0] at h
        have hexp0 : exp ≠ 0 := by simpa using he0
        by_cases hpos : (decide (exp > 0) && decide (exp ≤ 15 + 22)) = true
        · rw [if_pos hpos] at h
          simp only [Bool.and_eq_true, decide_eq_true_eq] at hpos
          obtain ⟨hp1, hp2⟩ := hpos
          obtain ⟨n, d, hn, hd, hval, hspec⟩ := spec (by omega) (by omega)
          obtain ⟨p15a, p15b⟩ := pow10_val 15 (by norm_num)
          by_cases h22 : exp > 22
          · -- two multiplications; the first must be exact
            rw [if_pos h22] at h
            simp only [] at h
            obtain ⟨j, hj, hj1, hj2⟩ : ∃ j : ℕ, (exp - 22).toNat = j ∧ 1 ≤ j ∧ j ≤ 15 := ⟨(exp - 22).toNat, rfl, by omega, by omega⟩
            rw [hj] at h
            obtain ⟨pja, pjb⟩ := pow10_val j (by omega)
            -- f' = round(m · 10^j)
            have hy0 : m * 10 ^ j ≠ 0 := Nat.mul_ne_zero hm0 (by positivity)
            have hyv : ((m * 10 ^ j : ℕ) : ℚ) / ((1 : ℕ) : ℚ) = (m : ℚ) * 10 ^ (j : ℤ) := by push_cast; simp
            have hf' := fmul_eq f (float64pow10 j) hf2 pja m (10 ^ j) hfv pjb hmpos (by positivity) (m * 10 ^ j) 1 hy0 (by norm_num)
              (by push_cast; simp)
            obtain ⟨bl, bh⟩ := range_bounds m j hm0 hm53 (by omega) (by omega)
            obtain ⟨_, hf'2, hge, hexact⟩ := round_val (m * 10 ^ j) 1 hy0 (by norm_num) (by rw [hyv]; exact bl) (by rw [hyv]; exact bh)
            rw [hf'] at h
            generalize hf'def : (roundRat false (m * 10 ^ j) 1).1 = f' at h hf'2 hge hexact
            by_cases hgt : fgtAbs f' (float64pow10 15) = true
            · rw [if_pos hgt] at h; cases h
            · rw [if_neg hgt] at h
              injection h with h
              have hle15 : valOf f' ≤ (10 : ℚ) ^ 15 := by
                have := (fgt_iff f' (float64pow10 15) hf'2 p15a).not.mp hgt
                rw [p15b] at this
                exact not_lt.mp this
              -- so the product is below 2^53, hence exact
              have hy53 : m * 10 ^ j < 2 ^ 53 := by
                by_contra hcon
                have hcon' : 2 ^ 53 ≤ m * 10 ^ j := Nat.le_of_not_lt hcon
                have : (2 : ℚ) ^ (53 : ℤ) ≤ ((m * 10 ^ j : ℕ) : ℚ) / ((1 : ℕ) : ℚ) := by
                  have h1 : ((2 ^ 53 : ℕ) : ℚ) ≤ ((m * 10 ^ j : ℕ) : ℚ) := by exact_mod_cast hcon'
                  have h2 : ((2 ^ 53 : ℕ) : ℚ) = (2 : ℚ) ^ (53 : ℤ) := by norm_num
                  rw [← h2]
                  simpa using h1
                have := hge this
                have c : (10 : ℚ) ^ 15 < 2 ^ (53 : ℤ) := by norm_num
                linarith
              have hf'v : valOf f' = ((m * 10 ^ j : ℕ) : ℚ) := hexact (m * 10 ^ j) (by simp) hy53
              obtain ⟨p22a, p22b⟩ := pow10_val 22 (by norm_num)
              have hypos : (0 : ℚ) < ((m * 10 ^ j : ℕ) : ℚ) := by
                have : 0 < m * 10 ^ j := Nat.pos_of_ne_zero hy0
                exact_mod_cast this
              have h22n : (22 : ℤ).toNat = 22 := rfl
              rw [h22n] at h
              have hfin := fmul_eq f' (float64pow10 22) hf'2 p22a _ _ hf'v p22b hypos (by positivity) n d hn hd (by
                rw [hval]
                have : exp = (j : ℤ) + 22 := by omega
                rw [this, zpow_add₀ (by norm_num)]
                push_cast
                rw [zpow_natCast]
                norm_num
                ring)
              rw [hspec, ← h, hfin]
          · rw [if_neg h22] at h
            simp only [] at h
            by_cases hgt : fgtAbs f (float64pow10 15) = true
            · rw [if_pos hgt] at h; cases h
            · rw [if_neg hgt] at h
              injection h with h
              obtain ⟨i, hi, hi2⟩ : ∃ i : ℕ, exp.toNat = i ∧ (i : ℤ) = exp := ⟨exp.toNat, rfl, by omega⟩
              rw [hi] at h
              obtain ⟨pia, pib⟩ := pow10_val i (by omega)
              have hfin := fmul_eq f (float64pow10 i) hf2 pia m (10 ^ i) hfv pib hmpos (by positivity) n d hn hd (by
                rw [hval, ← hi2, zpow_natCast])
              rw [hspec, ← h, hfin]
        · rw [if_neg hpos] at h
          by_cases hneg : (decide (exp < 0) && decide (exp ≥ -22)) = true
          · rw [if_pos hneg] at h
            simp only [Bool.and_eq_true, decide_eq_true_eq] at hneg
            obtain ⟨hn1, hn2⟩ := hneg
            injection h with h
            obtain ⟨n, d, hn, hd, hval, hspec⟩ := spec (by omega) (by omega)
            obtain ⟨i, hi, hi2⟩ : ∃ i : ℕ, (-exp).toNat = i ∧ (i : ℤ) = -exp := ⟨(-exp).toNat, rfl, by omega⟩
            rw [hi] at h
            obtain ⟨pia, pib⟩ := pow10_val i (by omega)
            have hfin := fdiv_eq f (float64pow10 i) hf2 pia m (10 ^ i) hfv pib hmpos (by positivity) n d hn hd (by
              rw [hval]
              have : exp = -(i : ℤ) := by omega
              rw [this, zpow_neg, zpow_natCast]
              rfl)
            rw [hspec, ← h, hfin]
          · rw [if_neg hneg] at h; cases h

end RJson.Exact
