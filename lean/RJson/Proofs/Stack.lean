import RJson.Model.Ragel
/-!
# The Go stack slice is irrelevant (C14 at the level of the interpreter)

`runA` executes a machine with the return-state stack as a Go slice: arbitrary initial contents and length,
grown by `prepush`, and *havocked* after every handler call (a re-entrant use of the same `Buffer` may have
written anything into the shared backing array). `runL` keeps only the live part of the stack as a list and
reports `badDepth` if a handler action fires while the stack is non-empty.

`runA_eq_runL`: whenever `runL` does not report `badDepth`, `runA` returns the same result for every initial
slice and every havoc. `badDepth`-freedom is a property of the table (handler actions only occur at depth 0),
established in `Props/C14.lean` from the simulation certificates and an invariant of the abstract machines.
-/
namespace RJson.Ragel

/-- the live list is what the slice holds below `top` -/
inductive SR {σ : Type} (stack : Array σ) : Nat → List σ → Prop
  | nil : SR stack 0 []
  | cons {top st v} : SR stack top st → stack[top]? = some v → SR stack (top + 1) (v :: st)

theorem SR.length {σ} {stack : Array σ} {top st} (h : SR stack top st) : st.length = top := by
  induction h with
  | nil => rfl
  | cons _ _ ih => simp [ih]

theorem SR.mono {σ} {stack stack' : Array σ} {top st} (h : SR stack top st)
    (hsame : ∀ i, i < top → stack'[i]? = stack[i]?) : SR stack' top st := by
  induction h with
  | nil => exact .nil
  | cons h1 h2 ih =>
    refine .cons (ih (fun i hi => hsame i (by omega))) ?_
    rw [hsame _ (by omega)]; exact h2

theorem SR.top_le {σ} {stack : Array σ} {top st} (h : SR stack top st) : top ≤ stack.size := by
  induction h with
  | nil => omega
  | @cons top st v _ h2 ih =>
    have : top < stack.size := by
      rcases Nat.lt_or_ge top stack.size with hlt | hge
      · exact hlt
      · have hn : stack[top]? = none := by simp; omega
        rw [hn] at h2; cases h2
    omega

theorem pushA_spec {σ} [Inhabited σ] (stack : Array σ) (top : Nat) (v : σ) :
    ∃ stack', pushA stack top v = some stack' ∧ stack'[top]? = some v ∧ ∀ i, i < top → i < stack.size → stack'[i]? = stack[i]? := by
  unfold pushA
  by_cases hg : top + 1 ≥ stack.size
  · simp only [hg, if_true]
    have hsz : top < (stack ++ Array.replicate (1 + top - stack.size) default).size := by
      simp; omega
    simp only [hsz, if_true]
    refine ⟨_, rfl, ?_, ?_⟩
    · rw [Array.set!_eq_setIfInBounds, Array.getElem?_setIfInBounds_self_of_lt hsz]
    · intro i hi his
      rw [Array.set!_eq_setIfInBounds, Array.getElem?_setIfInBounds_ne (by omega)]
      rw [Array.getElem?_append_left his]
  · simp only [hg, if_false]
    have hsz : top < stack.size := by omega
    simp only [hsz, if_true]
    refine ⟨_, rfl, ?_, ?_⟩
    · rw [Array.set!_eq_setIfInBounds, Array.getElem?_setIfInBounds_self_of_lt hsz]
    · intro i hi _
      rw [Array.set!_eq_setIfInBounds, Array.getElem?_setIfInBounds_ne (by omega)]

/-- relation between the results of running an action list on both representations -/
def ActsOK {σ τ : Type} (rl : ActsR σ τ) (ra : ActsRA σ τ) : Prop :=
  match rl with
  | .stop res => res.kind ≠ .badDepth → ∃ stack', ra = .stop res stack'
  | .next t st' r' => ∃ stack', ra = .next t stack' st'.length r' ∧ SR stack' st'.length st'

theorem execActs_stack {σ τ} [Inhabited σ] (M : PDM σ) (data : Bytes) (h : Handler τ) (hv : Havoc σ) :
    ∀ (acts : List (Act σ)) (tgt : Option σ) (stack : Array σ) (st : List σ) (r : Regs τ),
      SR stack st.length st →
      ActsOK (execActsL M data h acts tgt st r) (execActsA M data h hv acts tgt stack st.length r) := by
  intro acts
  induction acts with
  | nil =>
    intro tgt stack st r hsr
    exact ⟨stack, rfl, hsr⟩
  | cons a rest ih =>
    intro tgt stack st r hsr
    cases a with
    | s a =>
      simp only [execActsL, execActsA]
      by_cases hh : a.isHandler = true
      · cases st with
        | nil =>
          simp only [hh, List.isEmpty_nil, Bool.not_true, Bool.and_false, Bool.false_eq_true, if_false, if_true]
          cases hex : execSimple data M.hasField h a r with
          | stop res => exact fun _ => ⟨_, rfl⟩
          | cont r' => exact ih tgt _ [] r' .nil
        | cons v st' =>
          simp only [hh, List.isEmpty_cons, Bool.not_false, Bool.and_true, if_true]
          intro hk
          exact absurd rfl hk
      · have hh' : a.isHandler = false := by simpa using hh
        simp only [hh', Bool.false_and, Bool.false_eq_true, if_false]
        cases hex : execSimple data M.hasField h a r with
        | stop res => exact fun _ => ⟨_, rfl⟩
        | cont r' => exact ih tgt stack st r' hsr
    | call lim rs en =>
      simp only [execActsL, execActsA]
      split
      · exact fun _ => ⟨_, rfl⟩
      · obtain ⟨stack', hp, htop, hlow⟩ := pushA_spec stack st.length rs
        simp only [hp]
        have hsr' : SR stack' (st.length + 1) (rs :: st) :=
          .cons (hsr.mono (fun i hi => hlow i hi (by have := hsr.top_le; omega))) htop
        exact ih (some en) stack' (rs :: st) r hsr'
    | ret =>
      simp only [execActsL, execActsA]
      cases st with
      | nil => exact fun _ => ⟨_, rfl⟩
      | cons v st' =>
        simp only [List.length_cons]
        cases hsr with
        | cons h1 h2 =>
          simp only [h2]
          exact ih (some v) stack st' r h1

theorem loop_stack {σ τ} [Inhabited σ] (M : PDM σ) (data : Bytes) (h : Handler τ) (hv : Havoc σ) :
    ∀ (fuel : Nat) (cs : σ) (stack : Array σ) (st : List σ) (r : Regs τ),
      SR stack st.length st → (loopL M data h fuel cs st r).kind ≠ .badDepth →
      (loopA M data h hv fuel cs stack st.length r).1 = loopL M data h fuel cs st r := by
  intro fuel
  induction fuel with
  | zero => intros; rfl
  | succ fuel ih =>
    intro cs stack st r hsr hk
    simp only [loopL, loopA] at hk ⊢
    cases hgb : getByte data r.p with
    | none => rfl
    | some b =>
      simp only [hgb] at hk ⊢
      have hok := execActs_stack M data h hv (M.step cs b).1 (M.step cs b).2 stack st r hsr
      generalize execActsL M data h (M.step cs b).1 (M.step cs b).2 st r = rl at hok hk
      generalize execActsA M data h hv (M.step cs b).1 (M.step cs b).2 stack st.length r = ra at hok
      cases rl with
      | stop res =>
        obtain ⟨stack', hra⟩ := hok hk
        rw [hra]
      | next tgt st' r' =>
        obtain ⟨stack', hra, hsr'⟩ := hok
        rw [hra]
        cases tgt with
        | none => rfl
        | some n =>
          simp only [] at hk ⊢
          split
          · rfl
          · next hne =>
            simp only [hne, Bool.false_eq_true, if_false] at hk
            exact ih _ _ _ _ hsr' hk

/-- for every initial slice and every havoc, the slice-based run returns what the list-based run returns -/
theorem runA_eq_runL {σ τ} [Inhabited σ] (M : PDM σ) (data : Bytes) (h : Handler τ) (hv : Havoc σ)
    (stack0 : Array σ) (dst : Bytes) (hs : τ) (hk : (runL M data h dst hs).kind ≠ .badDepth) :
    (runA M data h hv stack0 dst hs).1 = runL M data h dst hs := by
  simp only [runL, runA] at hk ⊢
  split
  · rfl
  · next hne =>
    simp only [hne, Bool.false_eq_true, if_false] at hk
    exact loop_stack M data h hv _ _ stack0 [] _ .nil hk

/-- hence the outcome does not depend on the slice handed in, nor on what re-entrant calls wrote into it -/
theorem runA_stack_irrelevant {σ τ} [Inhabited σ] (M : PDM σ) (data : Bytes) (h : Handler τ)
    (hv₁ hv₂ : Havoc σ) (stack₁ stack₂ : Array σ) (dst : Bytes) (hs : τ)
    (hk : (runL M data h dst hs).kind ≠ .badDepth) :
    (runA M data h hv₁ stack₁ dst hs).1 = (runA M data h hv₂ stack₂ dst hs).1 := by
  rw [runA_eq_runL M data h hv₁ stack₁ dst hs hk, runA_eq_runL M data h hv₂ stack₂ dst hs hk]

end RJson.Ragel
