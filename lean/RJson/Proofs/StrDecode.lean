import RJson.Proofs.Utf8
import RJson.Proofs.SkipTokens
import RJson.Spec.Values
/-!
# String decoding: `\uXXXX` escapes (model of machine_helpers.go against the specification), `decodeString` equations
-/
namespace RJson.StrDecode
open RJson.Spec RJson.Utf8

/-! ## equations of `Spec.decodeString` -/

theorem decodeString_nil (f : Nat) : decodeString f [] = [] := by
  cases f <;> rfl

theorem decodeString_plain (f : Nat) (x : UInt8) (rest : List UInt8) (hx : x ≠ 92) :
    decodeString (f + 1) (x :: rest) = x :: decodeString f rest := by
  conv => lhs; unfold decodeString
  split
  all_goals simp_all

theorem decodeString_esc (f : Nat) (e : UInt8) (rest : List UInt8) (he : e ≠ 117) :
    decodeString (f + 1) (92 :: e :: rest) = simpleEscape e :: decodeString f rest := by
  conv => lhs; unfold decodeString
  split
  case h_5 _ _ _ x' rest' hnu hne _ heq =>
    injection heq with h1 h2
    exact (hne e rest h1.symm h2.symm).elim
  all_goals simp_all

/-- the `\uXXXX` escape at the head of a list, if it is one -/
def getu4L : List UInt8 → Option Nat
  | 92 :: 117 :: a :: b :: c :: d :: _ => if isHex a && isHex b && isHex c && isHex d then some (hex4 a b c d) else none
  | _ => none

/-- bytes produced by the escape `\u a b c d` followed by `rest`, and how many input bytes it accounts for -/
def uniStep (a b c d : UInt8) (rest : List UInt8) : List UInt8 × Nat :=
  if isHighSurrogate (hex4 a b c d) then
    match getu4L rest with
    | some r2 =>
      if isLowSurrogate r2 then (utf8EncodeScalar (0x10000 + (hex4 a b c d - 0xD800) * 1024 + (r2 - 0xDC00)), 12)
      else (replacement, 6)
    | none => (replacement, 6)
  else if isLowSurrogate (hex4 a b c d) then (replacement, 6)
  else (utf8EncodeScalar (hex4 a b c d), 6)

theorem decodeString_u (f : Nat) (a b c d : UInt8) (rest : List UInt8) :
    decodeString (f + 1) (92 :: 117 :: a :: b :: c :: d :: rest) =
      (uniStep a b c d rest).1 ++ decodeString f (rest.drop ((uniStep a b c d rest).2 - 6)) := by
  have h0 : decodeString (f + 1) (92 :: 117 :: a :: b :: c :: d :: rest) =
      if isHighSurrogate (hex4 a b c d) then
        (match rest with
          | 92 :: 117 :: a2 :: b2 :: c2 :: d2 :: rest2 =>
            if isHex a2 && isHex b2 && isHex c2 && isHex d2 && isLowSurrogate (hex4 a2 b2 c2 d2) then
              utf8EncodeScalar (0x10000 + (hex4 a b c d - 0xD800) * 1024 + (hex4 a2 b2 c2 d2 - 0xDC00)) ++ decodeString f rest2
            else replacement ++ decodeString f rest
          | _ => replacement ++ decodeString f rest)
      else if isLowSurrogate (hex4 a b c d) then replacement ++ decodeString f rest
      else utf8EncodeScalar (hex4 a b c d) ++ decodeString f rest := rfl
  rw [h0]
  simp only [uniStep]
  by_cases hh : isHighSurrogate (hex4 a b c d) = true
  · simp only [hh, if_true]
    split
    · next a2 b2 c2 d2 rest2 =>
      simp only [getu4L]
      by_cases hx : (isHex a2 && isHex b2 && isHex c2 && isHex d2) = true
      · by_cases hl : isLowSurrogate (hex4 a2 b2 c2 d2) = true
        · simp [hx, hl]
        · simp [hx, hl]
      · simp [hx]
    · next hne =>
      have : getu4L rest = none := by
        simp only [getu4L]
      simp [this]
  · simp only [hh, Bool.false_eq_true, if_false]
    by_cases hl : isLowSurrogate (hex4 a b c d) = true
    · simp [hl]
    · simp [hl]

/-! ## `getu4` / `unescapeUnicodeChar` (models of machine_helpers.go) against the list-level specification -/

theorem hexDigitVal_eq (c : UInt8) : hexDigitVal c = if isHex c then some (Spec.hexVal c) else none := by
  have hall : allBelow (fun n => decide (hexDigitVal (UInt8.ofNat n) =
      if isHex (UInt8.ofNat n) then some (Spec.hexVal (UInt8.ofNat n)) else none)) 256 = true := by decide +kernel
  have := forall_byte (P := fun c => decide (hexDigitVal c = if isHex c then some (Spec.hexVal c) else none)) hall c
  simpa using this

theorem hexVal_lt (c : UInt8) (h : isHex c = true) : Spec.hexVal c < 16 := by
  have hall : allBelow (fun n => !(isHex (UInt8.ofNat n)) || decide (Spec.hexVal (UInt8.ofNat n) < 16)) 256 = true := by decide +kernel
  have := forall_byte (P := fun c => !(isHex c) || decide (Spec.hexVal c < 16)) hall c
  simpa [h] using this

theorem hex4_lt (a b c d : UInt8) (ha : isHex a = true) (hb : isHex b = true) (hc : isHex c = true) (hd : isHex d = true) :
    hex4 a b c d < 65536 := by
  have := hexVal_lt a ha; have := hexVal_lt b hb; have := hexVal_lt c hc; have := hexVal_lt d hd
  simp only [hex4]; omega

theorem getBang (data : Bytes) (i : Nat) (x : UInt8) (h : data[i]? = some x) : data[i]! = x := by
  rw [Array.getElem!_eq_getD, Array.getD_eq_getD_getElem?, h]; rfl

theorem getu4_eq (data : Bytes) (p : Nat) : getu4 data p = getu4L (data.toList.drop p) := by
  have hlen : (data.toList.drop p).length = data.size - p := by simp
  have hk : ∀ k, data[p + k]? = (data.toList.drop p)[k]? := fun k => getElem?_drop_at data p k
  rcases hl : data.toList.drop p with _ | ⟨x0, _ | ⟨x1, _ | ⟨x2, _ | ⟨x3, _ | ⟨x4, _ | ⟨x5, t⟩⟩⟩⟩⟩⟩
  all_goals rw [hl] at hlen hk
  all_goals simp only [List.length_cons, List.length_nil] at hlen
  · have : data.size < p + 6 := by omega
    simp [getu4, this, getu4L]
  · have : data.size < p + 6 := by omega
    simp [getu4, this, getu4L]
  · have : data.size < p + 6 := by omega
    simp [getu4, this, getu4L]
  · have : data.size < p + 6 := by omega
    simp [getu4, this, getu4L]
  · have : data.size < p + 6 := by omega
    simp [getu4, this, getu4L]
  · have : data.size < p + 6 := by omega
    simp [getu4, this, getu4L]
  · have hsz : ¬ data.size < p + 6 := by omega
    have e0 : data[p]! = x0 := getBang data p x0 (by have := hk 0; simpa using this)
    have e1 : data[p + 1]! = x1 := getBang data _ x1 (by have := hk 1; simpa using this)
    have e2 : data[p + 2]! = x2 := getBang data _ x2 (by have := hk 2; simpa using this)
    have e3 : data[p + 3]! = x3 := getBang data _ x3 (by have := hk 3; simpa using this)
    have e4 : data[p + 4]! = x4 := getBang data _ x4 (by have := hk 4; simpa using this)
    have e5 : data[p + 5]! = x5 := getBang data _ x5 (by have := hk 5; simpa using this)
    simp only [getu4, hsz, if_false, e0, e1, e2, e3, e4, e5, hexDigitVal_eq]
    by_cases h0 : x0 = 92
    · subst h0
      by_cases h1 : x1 = 117
      · subst h1
        simp only [getu4L, bne_self_eq_false, Bool.or_self, Bool.false_eq_true, if_false]
        by_cases ha : isHex x2 = true <;> by_cases hb : isHex x3 = true <;> by_cases hc : isHex x4 = true <;>
          by_cases hd : isHex x5 = true <;> simp [ha, hb, hc, hd, hex4]
      · have h1' : (x1 != 117) = true := by simpa using h1
        simp only [h1', Bool.or_true, if_true, getu4L]
        split
        · next heq => injection heq with _ heq; injection heq with h _; exact absurd h h1
        · rfl
    · have h0' : (x0 != 92) = true := by simpa using h0
      simp only [h0', Bool.true_or, if_true, getu4L]
      split
      · next heq => injection heq with h _; exact absurd h h0
      · rfl

theorem utf8Encode_scalar (r : Nat) (hs : isSurrogate r = false) (hr : r ≤ 0x10FFFF) : utf8Encode r = utf8EncodeScalar r := by
  simp only [isSurrogate, Bool.and_eq_false_iff, decide_eq_false_iff_not] at hs
  simp only [utf8Encode, utf8EncodeScalar]
  by_cases h1 : r < 0x80
  · simp [h1]
  · by_cases h2 : r < 0x800
    · simp [h1, h2]
    · have h3 : ¬ ((0xD800 ≤ r && r < 0xE000) || decide (r > 0x10FFFF)) = true := by
        simp only [Bool.or_eq_true, Bool.and_eq_true, decide_eq_true_eq, not_or, not_and]
        omega
      simp only [h1, h2, if_false, h3]
      simp

theorem surrogate_split (r : Nat) : isSurrogate r = (isHighSurrogate r || isLowSurrogate r) := by
  simp only [isSurrogate, isHighSurrogate, isLowSurrogate]
  by_cases h1 : 0xD800 ≤ r <;> by_cases h2 : r < 0xDC00 <;> by_cases h3 : r < 0xE000 <;> simp [h1, h2, h3] <;> omega

theorem pair_value (r1 r2 : Nat) (h1 : isHighSurrogate r1 = true) (h2 : isLowSurrogate r2 = true) :
    (((r1 - 0xD800) <<< 10) ||| (r2 - 0xDC00)) + 0x10000 = 0x10000 + (r1 - 0xD800) * 1024 + (r2 - 0xDC00) := by
  simp only [isHighSurrogate, isLowSurrogate, Bool.and_eq_true, decide_eq_true_eq] at h1 h2
  have hlt : r2 - 0xDC00 < 2 ^ 10 := by omega
  rw [← Nat.shiftLeft_add_eq_or_of_lt hlt, Nat.shiftLeft_eq]
  omega

/-- **`unescapeUnicodeChar` on a `\uXXXX` escape** -/
theorem unescapeU_eq (data : Bytes) (p : Nat) (dst : Bytes) (a b c d : UInt8) (rest : List UInt8)
    (hl : data.toList.drop p = 92 :: 117 :: a :: b :: c :: d :: rest)
    (ha : isHex a = true) (hb : isHex b = true) (hc : isHex c = true) (hd : isHex d = true) :
    unescapeUnicodeChar data p dst = (dst ++ (uniStep a b c d rest).1.toArray, (uniStep a b c d rest).2, true) := by
  have h1 : getu4 data p = some (hex4 a b c d) := by
    rw [getu4_eq, hl]; simp [getu4L, ha, hb, hc, hd]
  have h2 : getu4 data (p + 6) = getu4L rest := by
    rw [getu4_eq]
    have : data.toList.drop (p + 6) = (data.toList.drop p).drop 6 := by rw [List.drop_drop]
    rw [this, hl]; rfl
  have hlt := hex4_lt a b c d ha hb hc hd
  simp only [unescapeUnicodeChar, h1, h2, uniStep]
  rw [surrogate_split]
  by_cases hh : isHighSurrogate (hex4 a b c d) = true
  · simp only [hh, Bool.true_or, if_true]
    cases hg : getu4L rest with
    | none => simp [utf16Decode, enc_fffd]
    | some r2 =>
      by_cases hl2 : isLowSurrogate r2 = true
      · have hhi := hh
        have hlo := hl2
        simp only [isHighSurrogate, Bool.and_eq_true, decide_eq_true_eq] at hhi
        simp only [isLowSurrogate, Bool.and_eq_true, decide_eq_true_eq] at hlo
        have hcond : (decide (0xD800 ≤ hex4 a b c d) && decide (hex4 a b c d < 0xDC00) && decide (0xDC00 ≤ r2) && decide (r2 < 0xE000)) = true := by
          simp [hhi.1, hhi.2, hlo.1, hlo.2]
        have hpv := pair_value (hex4 a b c d) r2 hh hl2
        have hne : ((((hex4 a b c d - 0xD800) <<< 10) ||| (r2 - 0xDC00)) + 0x10000 != 0xFFFD) = true := by
          rw [hpv]; simp; omega
        simp only [utf16Decode, hcond, if_true, hne, hl2]
        rw [hpv, utf8Encode_scalar _ (by simp [isSurrogate]; omega) (by omega)]
      · have hl2' : isLowSurrogate r2 = false := by simpa using hl2
        have hcond : (decide (0xD800 ≤ hex4 a b c d) && decide (hex4 a b c d < 0xDC00) && decide (0xDC00 ≤ r2) && decide (r2 < 0xE000)) = false := by
          simp only [isLowSurrogate] at hl2'
          simp only [Bool.and_assoc]
          simp [hl2']
        simp [utf16Decode, hcond, hl2', enc_fffd]
  · have hh' : isHighSurrogate (hex4 a b c d) = false := by simpa using hh
    simp only [hh', Bool.false_or, Bool.false_eq_true, if_false]
    by_cases hlo : isLowSurrogate (hex4 a b c d) = true
    · have hcond : ∀ r2, (decide (0xD800 ≤ hex4 a b c d) && decide (hex4 a b c d < 0xDC00) && decide (0xDC00 ≤ r2) && decide (r2 < 0xE000)) = false := by
        intro r2
        simp only [isHighSurrogate] at hh'
        simp [hh']
      simp only [hlo, if_true]
      cases hg : getu4L rest with
      | none => simp [utf16Decode, enc_fffd]
      | some r2 => simp [utf16Decode, hcond r2, enc_fffd]
    · have hlo' : isLowSurrogate (hex4 a b c d) = false := by simpa using hlo
      simp only [hlo', Bool.false_eq_true, if_false]
      rw [utf8Encode_scalar _ (by rw [surrogate_split, hh', hlo']; rfl) (by omega)]

end RJson.StrDecode
