import RJson.Model.Abs
import RJson.Proofs.Stack
/-!
# Handlers run only when the machine's own stack is empty (abstract machines)

Invariant of every abstract machine: in a *main* context (`top`, `hTop`, `hArr`, `hObj`) the live stack is
empty; sub-machine contexts are only entered by `call`. Handler actions occur only in `hArr`/`hObj`, hence the
list runner never reports `badDepth`, and by `Proofs/Stack.lean` the slice-based run is independent of the
slice and of re-entrant writes to it.
-/
namespace RJson.Abs
open RJson.Ragel

def Ctx.isMain : Ctx → Bool
  | .top | .hTop | .hArr | .hObj => true
  | _ => false

/-- syntactic condition on a transition taken from a state whose context is main / not main -/
def okActs (main : Bool) : List (Act AS) → Option AS → Bool
  | [], none => true
  | [], some t => t.ctx.isMain == main
  | [.ret], _ => !main
  | [.call _ r e], _ => (r.ctx.isMain == main) && !e.ctx.isMain
  | .s a :: rest, tgt => (!a.isHandler || main) && okActs main rest tgt
  | _, _ => false

def StackOK : List AS → Prop
  | [] => True
  | v :: st => (v.ctx.isMain = true → st = []) ∧ StackOK st

def Inv (cs : AS) (st : List AS) : Prop := (cs.ctx.isMain = true → st = []) ∧ StackOK st

theorem okActs_errTr (k : Kind) (c : Ctx) (m : Bool) : okActs m (errTr k c).1 (errTr k c).2 = true := by
  cases c <;> simp [errTr, okActs, SAct.isHandler]

theorem okActs_afterTr (k : Kind) (c : Ctx) (b : UInt8) : okActs c.isMain (afterTr k c b).1 (afterTr k c b).2 = true := by
  cases c <;> simp only [afterTr] <;> (repeat' split) <;>
    first | exact okActs_errTr _ _ _ | simp [okActs, Ctx.isMain]

@[simp] theorem subCtx_fst_not_main (k : Kind) (c : Ctx) : (subCtx k c).1.isMain = false := by
  cases k <;> cases c <;> rfl

@[simp] theorem subCtx_snd_not_main (k : Kind) (c : Ctx) : (subCtx k c).2.isMain = false := by
  cases k <;> cases c <;> rfl

theorem okActs_startValue_plain (k : Kind) (c : Ctx) (b : UInt8) (hh : c.handled = false) :
    okActs c.isMain (startValue k c b).1 (startValue k c b).2 = true := by
  simp only [startValue, hh, Bool.false_eq_true, if_false, List.nil_append]
  repeat' split
  all_goals first
    | exact okActs_errTr _ _ _
    | simp [okActs]

set_option maxHeartbeats 1000000 in
theorem okActs_startValue_handled (k : Kind) (c : Ctx) (b : UInt8) (hh : c.handled = true) :
    okActs c.isMain (startValue k c b).1 (startValue k c b).2 = true := by
  have hm : c.isMain = true := by cases c <;> simp_all [Ctx.handled, Ctx.isMain]
  simp only [startValue, hh, if_true, hm]
  repeat' split
  all_goals first
    | exact okActs_errTr _ _ _
    | simp [okActs, SAct.isHandler, handlerAct, handlerSimpleAct, hm]
    | (cases k <;> simp [okActs, SAct.isHandler, handlerAct, handlerSimpleAct, hm])

theorem okActs_startValue (k : Kind) (c : Ctx) (b : UInt8) : okActs c.isMain (startValue k c b).1 (startValue k c b).2 = true := by
  by_cases hh : c.handled = true
  · exact okActs_startValue_handled k c b hh
  · exact okActs_startValue_plain k c b (by simpa using hh)

theorem okActs_strTr (k : Kind) (c : Ctx) (mk : Tok → Pos) (closed : AS) (t : Tok) (b : UInt8)
    (hc : closed.ctx.isMain = c.isMain) : okActs c.isMain (strTr k c mk closed t b).1 (strTr k c mk closed t b).2 = true := by
  cases t <;> simp only [strTr] <;> (repeat' split) <;>
    first | exact okActs_errTr _ _ _ | simp [okActs, hc]

theorem okActs_step (k : Kind) (s : AS) (b : UInt8) : okActs s.ctx.isMain (step k s b).1 (step k s b).2 = true := by
  obtain ⟨c, pos⟩ := s
  cases pos with
  | want first =>
    simp only [step]
    split
    · next hc =>
      have : c = .hTop := by simpa using hc
      subst this
      repeat' split
      all_goals first | exact okActs_errTr _ _ _ | simp [okActs, Ctx.isMain]
    · repeat' split
      all_goals first
        | exact okActs_startValue _ _ _
        | (simp [okActs]; done)
        | (cases c <;> simp_all [okActs, Ctx.isMain])
  | tok t =>
    cases t with
    | str => exact okActs_strTr _ _ _ _ _ _ rfl
    | esc => exact okActs_strTr _ _ _ _ _ _ rfl
    | u n => exact okActs_strTr _ _ _ _ _ _ rfl
    | lit l i =>
      simp only [step]
      repeat' split
      all_goals first | exact okActs_errTr _ _ _ | simp [okActs]
    | _ =>
      simp only [step]
      repeat' split
      all_goals first | exact okActs_errTr _ _ _ | exact okActs_afterTr _ _ _ | simp [okActs, SAct.isHandler]
  | after => exact okActs_afterTr _ _ _
  | wantKey first =>
    simp only [step]
    repeat' split
    all_goals first | exact okActs_errTr _ _ _ | (simp_all [okActs, Ctx.isMain, SAct.isHandler])
  | key t => exact okActs_strTr _ _ _ _ _ _ rfl
  | keyClosed =>
    simp only [step]
    repeat' split
    all_goals first | exact okActs_errTr _ _ _ | simp [okActs, SAct.isHandler]
  | afterKey =>
    simp only [step]
    repeat' split
    all_goals first | exact okActs_errTr _ _ _ | simp [okActs]
  | done => simp [step, okActs]
  | body =>
    simp only [step]
    repeat' split
    all_goals first | exact okActs_errTr _ _ _ | (simp_all [okActs, Ctx.isMain])

/-! ## the list runner never reports `badDepth` on an abstract machine -/

def _root_.RJson.Ragel.ActR.noBD {τ} : ActR τ → Prop
  | .cont _ => True
  | .stop res => res.kind ≠ .badDepth

theorem finish_noBD {τ} (r : Regs τ) : r.finish.kind ≠ .badDepth := by
  simp only [Regs.finish]; split <;> simp

theorem execSimple_noBD {τ} (data : Bytes) (hf : Bool) (h : Handler τ) (a : SAct) (r : Regs τ) :
    (execSimple data hf h a r).noBD := by
  cases a <;> simp only [execSimple]
  all_goals (repeat' split)
  all_goals first
    | trivial
    | exact finish_noBD _
    | (simp [ActR.noBD, Regs.stop])

theorem runEof_noBD {τ} (data : Bytes) (hf : Bool) (h : Handler τ) :
    ∀ (acts : List SAct) (r : Regs τ), (runEof data hf h acts r).kind ≠ .badDepth := by
  intro acts
  induction acts with
  | nil => intro r; exact finish_noBD r
  | cons a rest ih =>
    intro r
    have := execSimple_noBD data hf h a r
    simp only [runEof]
    generalize execSimple data hf h a r = k at this
    cases k with
    | stop res => exact this
    | cont r' => exact ih r'

def _root_.RJson.Ragel.ActsR.ok {τ} : ActsR AS τ → Prop
  | .stop res => res.kind ≠ .badDepth
  | .next none _ _ => True
  | .next (some n) st' _ => Inv n st'

theorem execActsL_inv {τ} (k : Kind) (data : Bytes) (h : Handler τ) :
    ∀ (acts : List (Act AS)) (tgt : Option AS) (cs : AS) (st : List AS) (r : Regs τ),
      okActs cs.ctx.isMain acts tgt = true → Inv cs st →
      (execActsL (machine k) data h acts tgt st r).ok := by
  intro acts
  induction acts with
  | nil =>
    intro tgt cs st r hok hinv
    cases tgt with
    | none => trivial
    | some t =>
      simp only [okActs, beq_iff_eq] at hok
      exact ⟨fun ht => hinv.1 (by rw [← hok]; exact ht), hinv.2⟩
  | cons a rest ih =>
    intro tgt cs st r hok hinv
    cases a with
    | s a =>
      have hok' : (!a.isHandler || cs.ctx.isMain) = true ∧ okActs cs.ctx.isMain rest tgt = true := by
        cases rest <;> simpa [okActs] using hok
      simp only [execActsL]
      split
      · next hbad =>
        -- a handler action with a non-empty stack contradicts the invariant
        simp only [Bool.and_eq_true, Bool.not_eq_true'] at hbad
        have hm : cs.ctx.isMain = true := by
          have := hok'.1
          simp only [hbad.1, Bool.not_true, Bool.false_or] at this
          exact this
        have := hinv.1 hm
        rw [this] at hbad
        simp at hbad
      · have := execSimple_noBD data (machine k).hasField h a r
        generalize execSimple data (machine k).hasField h a r = kk at this
        cases kk with
        | stop res => exact this
        | cont r' => exact ih tgt cs st r' hok'.2 hinv
    | call lim rs en =>
      cases rest with
      | cons _ _ => simp [okActs] at hok
      | nil =>
        simp only [okActs, Bool.and_eq_true, beq_iff_eq, Bool.not_eq_true'] at hok
        simp only [execActsL]
        split
        · exact finish_noBD _
        · show Inv en (rs :: st)
          refine ⟨fun hm => ?_, ⟨fun hm => hinv.1 (by rw [← hok.1]; exact hm), hinv.2⟩⟩
          rw [hok.2] at hm; cases hm
    | ret =>
      cases rest with
      | cons _ _ => simp [okActs] at hok
      | nil =>
        simp only [execActsL]
        cases st with
        | nil => simp [ActsR.ok, Regs.stop]
        | cons v st' => exact ⟨hinv.2.1, hinv.2.2⟩

theorem loopL_noBD {τ} (k : Kind) (data : Bytes) (h : Handler τ) :
    ∀ (fuel : Nat) (cs : AS) (st : List AS) (r : Regs τ), Inv cs st →
      (loopL (machine k) data h fuel cs st r).kind ≠ .badDepth := by
  intro fuel
  induction fuel with
  | zero => intro cs st r _; simp [loopL, Regs.stop]
  | succ fuel ih =>
    intro cs st r hinv
    simp only [loopL]
    cases hgb : getByte data r.p with
    | none => simp [Regs.stop]
    | some b =>
      simp only []
      have := execActsL_inv k data h (step k cs b).1 (step k cs b).2 cs st r (okActs_step k cs b) hinv
      change (execActsL (machine k) data h ((machine k).step cs b).1 ((machine k).step cs b).2 st r).ok at this
      generalize execActsL (machine k) data h ((machine k).step cs b).1 ((machine k).step cs b).2 st r = kk at this
      cases kk with
      | stop res => exact this
      | next tgt st' r' =>
        cases tgt with
        | none => exact finish_noBD _
        | some n =>
          simp only []
          split
          · exact runEof_noBD _ _ _ _ _
          · exact ih _ _ _ this

/-- the abstract machines never run a handler with a non-empty stack -/
theorem run_noBD {τ} (k : Kind) (data : Bytes) (h : Handler τ) (dst : Bytes) (hs : τ) :
    (runL (machine k) data h dst hs).kind ≠ .badDepth := by
  simp only [runL]
  split
  · exact runEof_noBD _ _ _ _ _
  · exact loopL_noBD k data h _ _ _ _ ⟨fun _ => rfl, trivial⟩

end RJson.Abs
