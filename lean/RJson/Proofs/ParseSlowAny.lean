import RJson.Proofs.DecSetAny
/-!
# The slow path on literals of any length, when its run is exact
-/
namespace RJson.ParseSlow
open RJson.FP RJson.Spec RJson.NumShape RJson.FloatValue RJson.FloatSyntax RJson.Ragel RJson.Abs RJson.HelpersSpec RJson.Dec
open RJson.ParseFast RJson.RoundRat RJson.EL

/-- an exact run started from an untruncated decimal (the flag is sticky) -/
theorem exactRun_trunc (a : Decimal) (hg : Good0 a) (hex : a.exactRun = true) : a.trunc = false := by
  have hm : Gen.fpMantBits = 52 := rfl
  have he : Gen.fpExpBits = 11 := rfl
  have hbi : Gen.fpBias = -1023 := rfl
  by_cases hnd0 : (a.nd == 0) = true
  · have hp : a.prepare = some (.early (assemble 0 (-1023) a.neg, false)) := by
      simp only [Decimal.prepare, hm, he, hbi]; rw [if_pos hnd0]
    simpa [Decimal.exactRun, hp] using hex
  · by_cases hhi : a.dp > 310
    · have hp : a.prepare = some (.early (assemble 0 (((2 ^ 11 : ℕ) : ℤ) - 1 + -1023) a.neg, true)) := by
        simp only [Decimal.prepare, hm, he, hbi]; rw [if_neg hnd0, if_pos hhi]
      simpa [Decimal.exactRun, hp] using hex
    · by_cases hlo : a.dp < -330
      · have hp : a.prepare = some (.early (assemble 0 (-1023) a.neg, false)) := by
          simp only [Decimal.prepare, hm, he, hbi]; rw [if_neg hnd0, if_neg hhi, if_pos hlo]
        simpa [Decimal.exactRun, hp] using hex
      · have hnd : 1 ≤ a.nd := by
          have : a.nd ≠ 0 := by simpa using hnd0
          omega
        cases hpr : a.prepare with
        | none => simp [Decimal.exactRun, hpr] at hex
        | some res =>
          obtain ⟨a1, e1, a2, e2, a3, exp3, h1, h2, h3, hcases⟩ := prepare_cases a hnd0 hhi hlo res hpr
          have hsc := scaled_spec a hg hnd (by omega) a1 e1 h1 a2 e2 h2 a3 exp3 h3
          rcases hcases with ⟨_, hres⟩ | ⟨_, a4, h4, hres⟩
          · subst hres
            have htr3 : a3.trunc = false := by simpa [Decimal.exactRun, hpr] using hex
            exact (hsc.exact htr3).1
          · subst hres
            have htr4 : a4.trunc = false := by simpa [Decimal.exactRun, hpr] using hex
            obtain ⟨b, hb4, _, _, _, _, _, hbval⟩ := shift_spec a3 hsc.good ((1 + 52 : ℕ) : ℤ) (by norm_num) (by norm_num)
            rw [h4] at hb4
            injection hb4 with hb4
            subst hb4
            exact (hsc.exact (hbval htr4).1).1

/-- **the slow path on a literal of any length, when its run is exact** -/
theorem slow_correct_any (lit : Bytes) (neg : Bool) (ip fp : List UInt8) (ec : UInt8) (sg eds : List UInt8)
    (h : Shape lit.toList neg ip fp ec sg eds []) :
    ∃ a, Decimal.set lit = some a ∧
      (a.exactRun = true → a.floatBits = some (roundDec neg (digitsVal (ip ++ fp) 0) (sgnOf sg * (digitsVal eds 0 : ℤ) - fp.length))) := by
  obtain ⟨a, hset, hg, hneg, hvalc⟩ := set_spec_any lit neg ip fp ec sg eds h
  refine ⟨a, hset, fun hex => ?_⟩
  have hval := hvalc (exactRun_trunc a hg hex)
  have hds : allDigits (ip ++ fp) := by
    intro b hb
    rcases List.mem_append.mp hb with h1 | h1
    · exact h.ipDigits b h1
    · exact h.fpDigits b h1
  have hD := digitsVal_lt _ hds
  have hL : (ip ++ fp).length ≤ lit.size := by
    have := congrArg List.length h.eq
    have hfl : fp.length ≤ (fracL fp).length := by cases fp <;> simp [fracL]
    simp only [Array.length_toList, List.length_append] at this ⊢
    omega
  have hsgn : sgnOf sg = 1 ∨ sgnOf sg = -1 := by
    unfold sgnOf; split
    · right; rfl
    · left; rfl
  obtain ⟨n, d, hd, hv⟩ : ∃ n d : ℕ, d ≠ 0 ∧ (n : ℚ) / d = aval a := by
    rw [hval]
    generalize (clipAcc (10000 + lit.size) eds 0 : ℤ) * sgnOf sg - (fp.length : ℤ) = z
    by_cases hz : z ≥ 0
    · refine ⟨digitsVal (ip ++ fp) 0 * 10 ^ z.toNat, 1, by omega, ?_⟩
      push_cast
      rw [zpow_split 10 (by norm_num) z]; simp [hz]
    · refine ⟨digitsVal (ip ++ fp) 0, 10 ^ (-z).toNat, by positivity, ?_⟩
      push_cast
      rw [zpow_split 10 (by norm_num) z]; simp [hz]; ring
  rw [floatBits_spec a hg n d hd hv hex, hneg]
  congr 1
  exact roundRat_clip neg _ (ip ++ fp).length fp.length (10000 + lit.size) eds (sgnOf sg) hsgn hD (by simp) (by omega) n d hd
    (by rw [hv, hval])

end RJson.ParseSlow
