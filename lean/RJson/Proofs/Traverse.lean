import RJson.Proofs.ScannerSuffix
/-!
# The handler machines: one member (handler call, then the value is skipped or stepped over)
-/
namespace RJson.Abs
open RJson.Ragel RJson.Spec RJson.HelpersSpec

/-! ## slices -/

theorem extract_toList (data : Bytes) (a b : Nat) : (data.extract a b).toList = (data.toList.drop a).take (b - a) := by
  rw [Array.toList_extract, List.extract_eq_take_drop]

theorem slice_at {data : Bytes} {a : Nat} {l : List UInt8} (hat : At data a l) (b : Nat) (hab : a ≤ b) (hb : b ≤ data.size) :
    sliceChecked data (a : Int) (b : Int) = some (l.take (b - a)).toArray := by
  have : (0 : Int) ≤ (a : Int) ∧ (a : Int) ≤ (b : Int) ∧ (b : Int) ≤ (data.size : Int) := by omega
  simp only [sliceChecked, this, and_self, if_true, Int.toNat_natCast]
  congr 1
  apply Array.ext'
  rw [extract_toList, hat.eq]

theorem suffix_at {data : Bytes} {p : Nat} {v : List UInt8} (hat : At data p v) :
    sliceChecked data (p : Int) (data.size : Int) = some v.toArray := by
  have := slice_at hat data.size hat.le (Nat.le_refl _)
  rw [this]
  congr 2
  rw [List.take_of_length_le]
  have := hat.length
  omega

/-! ## handler calls -/

/-- the field slice expressions of the handler actions -/
def hFlo (k : Kind) : GExpr := if k == .hobj then .add .fs (.lit 1) else .lit 0
def hFhi (k : Kind) : GExpr := if k == .hobj then .sub .fe (.lit 1) else .lit 0

theorem handlerAct_eq (k : Kind) : handlerAct k =
    .handler (.add .p .pp) ⟨.lt, .pp, .lit 0⟩ ⟨.ne, .pp, .lit 0⟩ ⟨.gt, .pp, .sub .pe .p⟩
      (.sub (.sub (.add .p .pp) (.lit 1)) (.lit 1)) (hFlo k) (hFhi k) := by
  cases k <;> rfl

theorem handlerSimpleAct_eq (k : Kind) : handlerSimpleAct k = .handlerSimple .p (hFlo k) (hFhi k) := by
  cases k <;> rfl

/-- the registers after a handler call that reported no error and asked the machine to go on validating -/
def afterCall {τ} (r : Regs τ) (hs' : τ) : Regs τ := { r with hs := hs', ncalls := r.ncalls + 1, err := none }

theorem exec_handlerSimple {τ} (k : Kind) (data : Bytes) (h : Handler τ) (r : Regs τ) (field suffix : Bytes)
    (hargs : handlerArgs data (machine k).hasField (hFlo k) (hFhi k) r = some (field, suffix)) :
    execSimple data (machine k).hasField h (handlerSimpleAct k) r =
      match (h r.hs field suffix).2.2 with
      | some id => .stop (({ r with hs := (h r.hs field suffix).1, ncalls := r.ncalls + 1 } : Regs τ).stop (.herr id) r.p)
      | none => .cont (afterCall r (h r.hs field suffix).1) := by
  rw [handlerSimpleAct_eq]
  simp only [execSimple, hargs]
  generalize h r.hs field suffix = res
  obtain ⟨hs', pp, e⟩ := res
  cases e <;> rfl

theorem exec_handler_err {τ} (k : Kind) (data : Bytes) (h : Handler τ) (r : Regs τ) (field suffix : Bytes)
    (hargs : handlerArgs data (machine k).hasField (hFlo k) (hFhi k) r = some (field, suffix))
    (id : Nat) (he : (h r.hs field suffix).2.2 = some id) :
    ∃ q, execSimple data (machine k).hasField h (handlerAct k) r =
      .stop (({ r with hs := (h r.hs field suffix).1, ncalls := r.ncalls + 1 } : Regs τ).stop (.herr id) q) := by
  rw [handlerAct_eq]
  simp only [execSimple, hargs]
  generalize h r.hs field suffix = res at he
  obtain ⟨hs', pp, e⟩ := res
  simp only at he
  subst he
  exact ⟨_, rfl⟩

theorem exec_handler_zero {τ} (k : Kind) (data : Bytes) (h : Handler τ) (r : Regs τ) (field suffix : Bytes)
    (hargs : handlerArgs data (machine k).hasField (hFlo k) (hFhi k) r = some (field, suffix))
    (he : (h r.hs field suffix).2.2 = none) (hpp : (h r.hs field suffix).2.1 = 0) :
    execSimple data (machine k).hasField h (handlerAct k) r = .cont (afterCall r (h r.hs field suffix).1) := by
  rw [handlerAct_eq]
  simp only [execSimple, hargs]
  generalize h r.hs field suffix = res at he hpp
  obtain ⟨hs', pp, e⟩ := res
  simp only at he hpp
  subst he hpp
  simp [Guard.eval, CmpOp.eval, GExpr.eval, Regs.env, afterCall]

theorem exec_handler_jump {τ} (k : Kind) (data : Bytes) (hsm : Small data) (h : Handler τ) (r : Regs τ) (field suffix : Bytes)
    (hargs : handlerArgs data (machine k).hasField (hFlo k) (hFhi k) r = some (field, suffix))
    (p n : Nat) (hp : r.p = p) (hple : p ≤ data.size)
    (he : (h r.hs field suffix).2.2 = none) (hpp : (h r.hs field suffix).2.1 = (n : Int)) (hn0 : 0 < n) (hn : n ≤ data.size - p) :
    execSimple data (machine k).hasField h (handlerAct k) r =
      .cont { afterCall r (h r.hs field suffix).1 with p := (p : Int) + (n : Int) - 2 } := by
  rw [handlerAct_eq]
  simp only [execSimple, hargs]
  generalize h r.hs field suffix = res at he hpp
  obtain ⟨hs', pp, e⟩ := res
  simp only at he hpp
  subst he hpp
  unfold Small at hsm
  have w1 : wrap64 ((data.size : Int) - (p : Int)) = (data.size : Int) - (p : Int) := by rw [wrap64_id] <;> omega
  have w2 : wrap64 ((p : Int) + (n : Int)) = (p : Int) + (n : Int) := by rw [wrap64_id] <;> omega
  have w3 : wrap64 ((p : Int) + (n : Int) - 1) = (p : Int) + (n : Int) - 1 := by rw [wrap64_id] <;> omega
  have w4 : wrap64 ((p : Int) + (n : Int) - 1 - 1) = (p : Int) + (n : Int) - 2 := by rw [wrap64_id] <;> omega
  have g1 : ¬ ((n : Int) < 0) := by omega
  have g2 : ((n : Int) != 0) = true := by simp; omega
  have g3 : ¬ ((n : Int) > (data.size : Int) - (p : Int)) := by omega
  simp [Guard.eval, CmpOp.eval, GExpr.eval, Regs.env, afterCall, hp, w1, w2, w3, w4, g1, g2, g3]

/-! ## scalar tokens from their second byte on -/

def scalarTok (b : UInt8) : Option Tok :=
  if b == 34 then some .str else if b == 116 then some (.lit .t 0) else if b == 102 then some (.lit .f 0)
  else if b == 110 then some (.lit .n 0) else if b == 45 then some .minus else if b == 48 then some .zero
  else if isDig19 b then some .int else none

theorem scalar_body_run {τ} (k : Kind) (c : Ctx) (hc : c ≠ .hTop) (hnf : (c == .farr || c == .fobj) = false)
    (data : Bytes) (h : Handler τ) (hsm : Small data) (b : UInt8) (rest : List UInt8) (T : Tok) (hT : scalarTok b = some T)
    (fuel p : Nat) (st : List AS) (r : Regs τ) (hat : At data p rest) (hp : r.p = p) (herr : r.err = none)
    (hf : rest.length + 1 ≤ fuel) :
    Outcome (machine k) data h fuel ⟨c, .tok T⟩ st r (scanScalar b rest) ⟨c, .after⟩ st := by
  simp only [scalarTok] at hT
  simp only [scanScalar]
  by_cases h34 : (b == 34) = true
  · simp only [h34, if_true] at hT ⊢
    injection hT with hT; subst hT
    have key := str_run k c .tok ⟨c, .after⟩ (fun t b ht => str_tok_step k c hnf t b ht) (fun t ht => str_tok_not_final c t ht)
      data h hsm rest .str rfl fuel p st r hat hp hf
    rw [strScanT_str] at key
    exact key
  have h34' : (b == 34) = false := by simpa using h34
  simp only [h34', Bool.false_eq_true, if_false] at hT ⊢
  by_cases h116 : (b == 116) = true
  · simp only [h116, if_true] at hT ⊢
    injection hT with hT; subst hT
    exact lit_run k c .t data h hsm _ 0 rfl (by simp [Lit.tail]) rest fuel p st _ hat hp hf
  have h116' : (b == 116) = false := by simpa using h116
  simp only [h116', Bool.false_eq_true, if_false] at hT ⊢
  by_cases h102 : (b == 102) = true
  · simp only [h102, if_true] at hT ⊢
    injection hT with hT; subst hT
    exact lit_run k c .f data h hsm _ 0 rfl (by simp [Lit.tail]) rest fuel p st _ hat hp hf
  have h102' : (b == 102) = false := by simpa using h102
  simp only [h102', Bool.false_eq_true, if_false] at hT ⊢
  by_cases h110 : (b == 110) = true
  · simp only [h110, if_true] at hT ⊢
    injection hT with hT; subst hT
    exact lit_run k c .n data h hsm _ 0 rfl (by simp [Lit.tail]) rest fuel p st _ hat hp hf
  have h110' : (b == 110) = false := by simpa using h110
  simp only [h110', Bool.false_eq_true, if_false] at hT ⊢
  by_cases h45 : b = 45
  · subst h45
    simp only [beq_self_eq_true, if_true] at hT
    injection hT with hT; subst hT
    rw [scanNumber_minus]
    cases rest with
    | nil => exact Outcome.of_eof k data h fuel _ st _ p hp hat (minus_not_final c) _ _
    | cons d t =>
      exact num1_run k c hc data h hsm _ d t (by simp only [machine, step]) fuel p st _ hat hp herr hf
  have h45' : (b == 45) = false := by simpa using h45
  simp only [h45', Bool.false_eq_true, if_false] at hT
  rw [scanNumber_other b rest h45]
  by_cases h48 : b = 48
  · subst h48
    simp only [beq_self_eq_true, if_true] at hT
    injection hT with hT; subst hT
    rw [scanNum1_zero]
    exact num_tail_any k c hc .zero (.inl rfl) data h hsm rest fuel p st r hat hp herr hf (by intro hh; cases hh)
  have h48' : (b == 48) = false := by simpa using h48
  simp only [h48', Bool.false_eq_true, if_false] at hT
  rw [scanNum1_other b rest h48]
  by_cases h19 : isDig19 b = true
  · simp only [h19, if_true] at hT
    injection hT with hT; subst hT
    have h19' : (49 ≤ b && b ≤ 57) = true := h19
    simp only [h19', if_true]
    exact int_run_any k c hc data h hsm rest fuel p st r hat hp herr hf
  · simp [h19] at hT

/-! ## one member -/

def isValueStart (b : UInt8) : Bool :=
  b == 34 || b == 116 || b == 102 || b == 110 || b == 45 || b == 48 || isDig19 b || b == 91 || b == 123

inductive MOut (τ : Type)
  | bad
  | herr (hs : τ) (id : Nat)
  | next (hs : τ) (rest : List UInt8)

/-- specification of one member: the handler is called on the first byte of a value; if it reports no error the
    value must be well-formed and the traversal goes on behind it -/
def memberOut {τ} (h : Handler τ) (field : Bytes) (v : List UInt8) (hs : τ) : MOut τ :=
  match v with
  | [] => .bad
  | b :: _ =>
    if !isValueStart b then .bad
    else
      match (h hs field v.toArray).2.2 with
      | some id => .herr (h hs field v.toArray).1 id
      | none =>
        match scanValue none (2 * v.length + 2) 0 v with
        | none => .bad
        | some r => .next (h hs field v.toArray).1 r

/-- a well-behaved handler returns (with no error) 0 or the exact length of the value at the head of its input;
    only inputs whose first byte can start a value matter (the machines call the handler on nothing else) -/
def WB {τ} (h : Handler τ) : Prop :=
  ∀ (hs : τ) (field : Bytes) (v : List UInt8), (∀ b rest, v = b :: rest → isValueStart b = true) →
    v.length < 4611686018427387904 → (h hs field v.toArray).2.2 = none →
    (h hs field v.toArray).2.1 = 0 ∨
      ∃ r, scanValue none (2 * v.length + 2) 0 v = some r ∧ (h hs field v.toArray).2.1 = ((v.length - r.length : Nat) : Int)

theorem startValue_handled (k : Kind) (hk : hasLimit k = false) (c : Ctx) (hch : c.handled = true) (b : UInt8) :
    startValue k c b =
      if b == 34 then ([.s (handlerAct k)], some ⟨c, .tok .str⟩)
      else if b == 116 then ([.s (handlerSimpleAct k)], some ⟨c, .tok (.lit .t 0)⟩)
      else if b == 102 then ([.s (handlerSimpleAct k)], some ⟨c, .tok (.lit .f 0)⟩)
      else if b == 110 then ([.s (handlerSimpleAct k)], some ⟨c, .tok (.lit .n 0)⟩)
      else if b == 45 then ([.s (handlerSimpleAct k)], some ⟨c, .tok .minus⟩)
      else if b == 48 then ([.s (handlerSimpleAct k)], some ⟨c, .tok .zero⟩)
      else if isDig19 b then ([.s (handlerSimpleAct k)], some ⟨c, .tok .int⟩)
      else if b == 91 then ([.s (handlerAct k), .call false ⟨c, .after⟩ ⟨.arr, .want true⟩], some ⟨c, .after⟩)
      else if b == 123 then ([.s (handlerAct k), .call false ⟨c, .after⟩ ⟨.obj, .wantKey true⟩], some ⟨c, .after⟩)
      else errTr k c := by
  have hkf : (k == Kind.fast) = false := by cases k <;> first | rfl | (simp [hasLimit] at hk)
  have hsub : subCtx k c = (.arr, .obj) := by cases k <;> first | rfl | (simp [hasLimit] at hk)
  simp only [startValue, hch, if_true, List.singleton_append, hkf, hsub, hk, Bool.false_eq_true, if_false]

/-- a transition whose only action is a handler call, at depth 0 -/
theorem loopL_handler1 {τ} (M : PDM AS) (data : Bytes) (h : Handler τ) (fuel : Nat) (s n : AS) (r : Regs τ) (b : UInt8)
    (a : SAct) (hb : getByte data r.p = some b) (hs : M.step s b = ([.s a], some n)) :
    loopL M data h (fuel + 1) s [] r =
      match execSimple data M.hasField h a r with
      | .stop res => res
      | .cont r' => contL M data h fuel n [] { r' with p := wrap64 (r'.p + 1) } := by
  rw [loopL_succ M data h fuel s [] r b hb, hs]
  simp only [execActsL, List.isEmpty_nil, Bool.not_true, Bool.and_false, Bool.false_eq_true, if_false]
  cases execSimple data M.hasField h a r with
  | stop res => rfl
  | cont r' => simp only [execActsL, contL]

/-- a handler call followed by a call of a sub-machine without depth limit -/
theorem loopL_handler_call {τ} (M : PDM AS) (data : Bytes) (h : Handler τ) (fuel : Nat) (s : AS) (tgt : Option AS) (rs en : AS)
    (r : Regs τ) (b : UInt8) (a : SAct) (hb : getByte data r.p = some b) (hs : M.step s b = ([.s a, .call false rs en], tgt)) :
    loopL M data h (fuel + 1) s [] r =
      match execSimple data M.hasField h a r with
      | .stop res => res
      | .cont r' => contL M data h fuel en [rs] { r' with p := wrap64 (r'.p + 1) } := by
  rw [loopL_succ M data h fuel s [] r b hb, hs]
  simp only [execActsL, List.isEmpty_nil, Bool.not_true, Bool.and_false, Bool.false_eq_true, if_false]
  cases execSimple data M.hasField h a r with
  | stop res => rfl
  | cont r' => simp only [execActsL, Bool.false_and, Bool.false_eq_true, if_false, contL]

def MemberGoal {τ} (k : Kind) (data : Bytes) (h : Handler τ) (c : Ctx) (fuel : Nat) (s : AS) (r : Regs τ) : MOut τ → Prop
  | .bad => IsErr (contL (machine k) data h fuel s [] r)
  | .herr hs' id => (contL (machine k) data h fuel s [] r).kind = .herr id ∧ (contL (machine k) data h fuel s [] r).hs = hs' ∧
      (contL (machine k) data h fuel s [] r).ncalls = r.ncalls + 1
  | .next hs' rest' => ∃ (fuel' p' : Nat), At data p' rest' ∧ rest'.length + 1 ≤ fuel' ∧
      contL (machine k) data h fuel s [] r =
        contL (machine k) data h fuel' ⟨c, .after⟩ [] { afterCall r hs' with p := (p' : Int) }

theorem md_none (k : Kind) (hk : hasLimit k = false) : md k = none := by simp [md, hk]

theorem kind_ne_fast (k : Kind) (hk : hasLimit k = false) : k ≠ .fast := by
  intro hh; subst hh; simp [hasLimit] at hk

theorem isValueStart_scalar (b : UInt8) (h34 : (b == 34) = false) (h91 : (b == 91) = false) (h123 : (b == 123) = false) :
    isValueStart b = (scalarTok b).isSome := by
  simp only [isValueStart, scalarTok, h34, h91, h123, Bool.false_or, Bool.or_false, Bool.false_eq_true, if_false]
  by_cases h1 : (b == 116) = true
  · simp [h1]
  simp only [h1, Bool.false_or, Bool.false_eq_true, if_false]
  by_cases h2 : (b == 102) = true
  · simp [h2]
  simp only [h2, Bool.false_or, Bool.false_eq_true, if_false]
  by_cases h3 : (b == 110) = true
  · simp [h3]
  simp only [h3, Bool.false_or, Bool.false_eq_true, if_false]
  by_cases h4 : (b == 45) = true
  · simp [h4]
  simp only [h4, Bool.false_or, Bool.false_eq_true, if_false]
  by_cases h5 : (b == 48) = true
  · simp [h5]
  simp only [h5, Bool.false_or, Bool.false_eq_true, if_false]
  by_cases h6 : isDig19 b = true
  · simp [h6]
  simp [h6]

theorem startValue_handled_scalar (k : Kind) (hk : hasLimit k = false) (c : Ctx) (hch : c.handled = true) (b : UInt8)
    (h34 : (b == 34) = false) (h91 : (b == 91) = false) (h123 : (b == 123) = false) :
    startValue k c b =
      match scalarTok b with
      | some T => ([.s (handlerSimpleAct k)], some ⟨c, .tok T⟩)
      | none => errTr k c := by
  rw [startValue_handled k hk c hch]
  simp only [scalarTok, h34, h91, h123, Bool.false_eq_true, if_false]
  by_cases h1 : (b == 116) = true
  · simp only [h1, if_true]
  simp only [h1, Bool.false_eq_true, if_false]
  by_cases h2 : (b == 102) = true
  · simp only [h2, if_true]
  simp only [h2, Bool.false_eq_true, if_false]
  by_cases h3 : (b == 110) = true
  · simp only [h3, if_true]
  simp only [h3, Bool.false_eq_true, if_false]
  by_cases h4 : (b == 45) = true
  · simp only [h4, if_true]
  simp only [h4, Bool.false_eq_true, if_false]
  by_cases h5 : (b == 48) = true
  · simp only [h5, if_true]
  simp only [h5, Bool.false_eq_true, if_false]
  by_cases h6 : isDig19 b = true
  · simp only [h6, if_true]
  simp only [h6, Bool.false_eq_true, if_false]

theorem herr_result {τ} (r : Regs τ) (hs' : τ) (id : Nat) (q : Int) :
    (({ r with hs := hs', ncalls := r.ncalls + 1 } : Regs τ).stop (.herr id) q).kind = .herr id ∧
    (({ r with hs := hs', ncalls := r.ncalls + 1 } : Regs τ).stop (.herr id) q).hs = hs' ∧
    (({ r with hs := hs', ncalls := r.ncalls + 1 } : Regs τ).stop (.herr id) q).ncalls = r.ncalls + 1 :=
  ⟨rfl, rfl, rfl⟩

/-- **one member**: the handler is called with the member's bytes; the machine then validates the value itself or
    steps over it to the offset a well-behaved handler reported -/
theorem member_run {τ} (k : Kind) (hk : hasLimit k = false) (c : Ctx) (hch : c.handled = true) (hnt : c ≠ .hTop)
    (hnf : (c == .farr || c == .fobj) = false) (h : Handler τ) (hwb : WB h) (data : Bytes) (hsm : Small data)
    (s : AS) (b : UInt8) (rest : List UInt8) (hstep : (machine k).step s b = startValue k c b) (field : Bytes)
    (fuel p : Nat) (r : Regs τ) (hat : At data p (b :: rest)) (hp : r.p = p) (herr : r.err = none)
    (hargs : handlerArgs data (machine k).hasField (hFlo k) (hFhi k) r = some (field, (b :: rest).toArray))
    (hf : (b :: rest).length + 1 ≤ fuel) :
    MemberGoal k data h c fuel s r (memberOut h field (b :: rest) r.hs) := by
  obtain ⟨hb, hlt, hat'⟩ := hat.cons_inv
  have hb' : getByte data r.p = some b := by rw [hp]; exact hb
  have hlen := hat.length
  have hlen' := hat'.length
  obtain ⟨fuel, rfl⟩ : ∃ f, fuel = f + 1 := ⟨fuel - 1, by omega⟩
  have hf' : rest.length + 1 ≤ fuel := by simp only [List.length_cons] at hf; omega
  have hcl := contL_cons (machine k) data h (fuel + 1) s [] r p b rest hp hat
  obtain ⟨sf, hsf⟩ : ∃ sf, 2 * (b :: rest).length + 2 = sf + 1 := ⟨2 * (b :: rest).length + 1, rfl⟩
  have hsfv : 2 * rest.length + 3 = sf := by simp only [List.length_cons] at hsf; omega
  have hw1 : ∀ hs', wrap64 ((afterCall r hs').p + 1) = ((p + 1 : Nat) : Int) := by
    intro hs'
    have : (afterCall r hs').p = (p : Int) := hp
    rw [this, wrap64_id] <;> (unfold Small at hsm; omega)
  simp only [memberOut]
  rw [hsf]
  -- the handler's answer
  generalize hres : h r.hs field (b :: rest).toArray = res at *
  have hwb' : isValueStart b = true → _ := fun hvs => hwb r.hs field (b :: rest)
    (by intro b' rest' hh; injection hh with h1 _; subst h1; exact hvs)
    (by have := hat.le; unfold Small at hsm; omega)
  rw [hres, hsf] at hwb'
  -- what happens after a jump to the last byte of the value
  have jump : ∀ (cb : UInt8) (r' : List UInt8) (n : Nat) (inner : AS) (S : List AS),
      (cb :: r') <:+ rest → n = (b :: rest).length - r'.length →
      (∀ (f : Nat) (q : Nat) (rr : Regs τ), At data q (cb :: r') → rr.p = q →
        loopL (machine k) data h (f + 1) inner S rr = contL (machine k) data h f ⟨c, .after⟩ [] { rr with p := ((q + 1 : Nat) : Int) }) →
      ∃ (fuel' p' : Nat), At data p' r' ∧ r'.length + 1 ≤ fuel' ∧
        contL (machine k) data h fuel inner S
            { ({ afterCall r res.1 with p := (p : Int) + (n : Int) - 2 } : Regs τ) with
              p := wrap64 (({ afterCall r res.1 with p := (p : Int) + (n : Int) - 2 } : Regs τ).p + 1) } =
          contL (machine k) data h fuel' ⟨c, .after⟩ [] { afterCall r res.1 with p := (p' : Int) } := by
    intro cb r' n inner S hsuf hn hclose
    have hatc := at_of_suffix hat' hsuf
    have hsl := hsuf.length_le
    simp only [List.length_cons] at hsl hn hatc
    obtain ⟨_, _, hatr⟩ := hatc.cons_inv
    obtain ⟨f, rfl⟩ : ∃ f, fuel = f + 1 := ⟨fuel - 1, by omega⟩
    have hpos : wrap64 ((p : Int) + (n : Int) - 2 + 1) = ((data.size - (r'.length + 1) : Nat) : Int) := by
      rw [wrap64_id] <;> (unfold Small at hsm; omega)
    refine ⟨f, data.size - (r'.length + 1) + 1, hatr, by omega, ?_⟩
    simp only [hpos]
    rw [contL_cons (machine k) data h _ _ _ _ (data.size - (r'.length + 1)) cb r' rfl hatc,
      hclose f (data.size - (r'.length + 1)) _ hatc rfl]
  by_cases h34 : (b == 34) = true
  · -- a string: `try_handler`
    have hb34 : b = 34 := by simpa using h34
    subst hb34
    have hvs : isValueStart 34 = true := by decide
    simp only [hvs, Bool.not_true, Bool.false_eq_true, if_false]
    have hstep' : (machine k).step s 34 = ([.s (handlerAct k)], some ⟨c, .tok .str⟩) := by
      rw [hstep, startValue_handled k hk c hch]; rfl
    have hl1 := loopL_handler1 (machine k) data h fuel s _ r 34 (handlerAct k) hb' hstep'
    have hsv : scanValue none (sf + 1) 0 (34 :: rest) = scanStringBody rest := by
      rw [scanValue_scalar none sf 0 34 rest (by decide) (by decide)]; rfl
    rw [hsv] at hwb' ⊢
    cases he : res.2.2 with
    | some id =>
      simp only [MemberGoal]
      obtain ⟨q, hq⟩ := exec_handler_err k data h r field _ hargs id (by rw [hres]; exact he)
      rw [hres] at hq
      rw [hcl, hl1, hq]
      exact herr_result r res.1 id q
    | none =>
      simp only []
      rcases hwb' hvs he with hz | ⟨r', hsr, hpp⟩
      · -- the handler declined: the machine validates the string
        have hx := exec_handler_zero k data h r field _ hargs (by rw [hres]; exact he) (by rw [hres]; exact hz)
        rw [hres] at hx
        have key := scalar_body_run k c hnt hnf data h hsm 34 rest .str rfl fuel (p + 1) []
          ({ afterCall r res.1 with p := ((p + 1 : Nat) : Int) } : Regs τ) hat' rfl rfl hf'
        have hsc : scanScalar 34 rest = scanStringBody rest := rfl
        rw [hsc] at key
        cases hs : scanStringBody rest with
        | none =>
          rw [hs] at key
          simp only [MemberGoal, Outcome] at key ⊢
          rw [hcl, hl1, hx]
          simp only [hw1]
          exact key
        | some r' =>
          rw [hs] at key
          simp only [MemberGoal, Outcome] at key ⊢
          obtain ⟨f2, p2, hat2, hf2, e2⟩ := key
          refine ⟨f2, p2, hat2, hf2, ?_⟩
          rw [hcl, hl1, hx]
          simp only [hw1]
          exact e2
      · -- the handler reported the exact end of the string
        rw [hsr]
        simp only [MemberGoal]
        have hprog := scanStringBody_length_lt _ _ hsr
        have hx := exec_handler_jump k data hsm h r field _ hargs p ((34 :: rest).length - r'.length) hp hat.le
          (by rw [hres]; exact he) (by rw [hres]; exact hpp) (by simp only [List.length_cons]; omega)
          (by simp only [List.length_cons]; omega)
        rw [hres] at hx
        obtain ⟨f2, p2, hat2, hf2, e2⟩ := jump 34 r' _ ⟨c, .tok .str⟩ [] (scanStringBody_closing _ _ hsr) rfl
          (by
            intro f q rr hatq hq
            exact loopL_goto (machine k) data h f _ _ [] rr q 34 r' hsm hq hatq
              (by rw [str_tok_step k c hnf .str 34 rfl]; rfl))
        refine ⟨f2, p2, hat2, hf2, ?_⟩
        rw [hcl, hl1, hx]
        exact e2
  have h34' : (b == 34) = false := by simpa using h34
  by_cases h91 : (b == 91) = true
  · have hb91 : b = 91 := by simpa using h91
    subst hb91
    have hvs : isValueStart 91 = true := by decide
    simp only [hvs, Bool.not_true, Bool.false_eq_true, if_false]
    have hstep' : (machine k).step s 91 =
        ([.s (handlerAct k), .call false ⟨c, .after⟩ ⟨.arr, .want true⟩], some ⟨c, .after⟩) := by
      rw [hstep, startValue_handled k hk c hch]; rfl
    have hl1 := loopL_handler_call (machine k) data h fuel s _ _ _ r 91 (handlerAct k) hb' hstep'
    have hsv : scanValue none (sf + 1) 0 (91 :: rest) = scanArr none sf 1 true rest := by
      simp [scanValue]
    rw [hsv] at hwb' ⊢
    cases he : res.2.2 with
    | some id =>
      simp only [MemberGoal]
      obtain ⟨q, hq⟩ := exec_handler_err k data h r field _ hargs id (by rw [hres]; exact he)
      rw [hres] at hq
      rw [hcl, hl1, hq]
      exact herr_result r res.1 id q
    | none =>
      simp only []
      rcases hwb' hvs he with hz | ⟨r', hsr, hpp⟩
      · have hx := exec_handler_zero k data h r field _ hargs (by rw [hres]; exact he) (by rw [hres]; exact hz)
        rw [hres] at hx
        have key := (skip_goals k (kind_ne_fast k hk) data h hsm sf).2.1 true rest fuel (p + 1) ⟨c, .after⟩ []
          ({ afterCall r res.1 with p := ((p + 1 : Nat) : Int) } : Regs τ) hat' rfl rfl hf' (by omega)
        rw [md_none k hk] at key
        simp only [List.length_nil, Nat.zero_add, if_true] at key
        cases hs : scanArr none sf 1 true rest with
        | none =>
          rw [hs] at key
          simp only [MemberGoal, Outcome] at key ⊢
          rw [hcl, hl1, hx]
          simp only [hw1]
          exact key
        | some r' =>
          rw [hs] at key
          simp only [MemberGoal, Outcome] at key ⊢
          obtain ⟨f2, p2, hat2, hf2, e2⟩ := key
          refine ⟨f2, p2, hat2, hf2, ?_⟩
          rw [hcl, hl1, hx]
          simp only [hw1]
          exact e2
      · rw [hsr]
        simp only [MemberGoal]
        have hprog := (scan_progress none sf).2.1 _ _ _ _ hsr
        have hx := exec_handler_jump k data hsm h r field _ hargs p ((91 :: rest).length - r'.length) hp hat.le
          (by rw [hres]; exact he) (by rw [hres]; exact hpp) (by simp only [List.length_cons]; omega)
          (by simp only [List.length_cons]; omega)
        rw [hres] at hx
        obtain ⟨f2, p2, hat2, hf2, e2⟩ := jump 93 r' _ ⟨.arr, .want true⟩ [⟨c, .after⟩] ((scan_suffix none sf).2.1 _ _ _ _ hsr) rfl
          (by
            intro f q rr hatq hq
            exact loopL_ret (machine k) data h f _ (some ⟨.arr, .done⟩) ⟨c, .after⟩ [] rr q 93 r' hsm hq hatq
              (by simp [machine, step, isWs]))
        refine ⟨f2, p2, hat2, hf2, ?_⟩
        rw [hcl, hl1, hx]
        exact e2
  have h91' : (b == 91) = false := by simpa using h91
  by_cases h123 : (b == 123) = true
  · have hb123 : b = 123 := by simpa using h123
    subst hb123
    have hvs : isValueStart 123 = true := by decide
    simp only [hvs, Bool.not_true, Bool.false_eq_true, if_false]
    have hstep' : (machine k).step s 123 =
        ([.s (handlerAct k), .call false ⟨c, .after⟩ ⟨.obj, .wantKey true⟩], some ⟨c, .after⟩) := by
      rw [hstep, startValue_handled k hk c hch]; rfl
    have hl1 := loopL_handler_call (machine k) data h fuel s _ _ _ r 123 (handlerAct k) hb' hstep'
    have hsv : scanValue none (sf + 1) 0 (123 :: rest) = scanObj none sf 1 true rest := by
      simp [scanValue]
    rw [hsv] at hwb' ⊢
    cases he : res.2.2 with
    | some id =>
      simp only [MemberGoal]
      obtain ⟨q, hq⟩ := exec_handler_err k data h r field _ hargs id (by rw [hres]; exact he)
      rw [hres] at hq
      rw [hcl, hl1, hq]
      exact herr_result r res.1 id q
    | none =>
      simp only []
      rcases hwb' hvs he with hz | ⟨r', hsr, hpp⟩
      · have hx := exec_handler_zero k data h r field _ hargs (by rw [hres]; exact he) (by rw [hres]; exact hz)
        rw [hres] at hx
        have key := (skip_goals k (kind_ne_fast k hk) data h hsm sf).2.2 true rest fuel (p + 1) ⟨c, .after⟩ []
          ({ afterCall r res.1 with p := ((p + 1 : Nat) : Int) } : Regs τ) hat' rfl rfl hf' (by omega)
        rw [md_none k hk] at key
        simp only [List.length_nil, Nat.zero_add, if_true] at key
        cases hs : scanObj none sf 1 true rest with
        | none =>
          rw [hs] at key
          simp only [MemberGoal, Outcome] at key ⊢
          rw [hcl, hl1, hx]
          simp only [hw1]
          exact key
        | some r' =>
          rw [hs] at key
          simp only [MemberGoal, Outcome] at key ⊢
          obtain ⟨f2, p2, hat2, hf2, e2⟩ := key
          refine ⟨f2, p2, hat2, hf2, ?_⟩
          rw [hcl, hl1, hx]
          simp only [hw1]
          exact e2
      · rw [hsr]
        simp only [MemberGoal]
        have hprog := (scan_progress none sf).2.2 _ _ _ _ hsr
        have hx := exec_handler_jump k data hsm h r field _ hargs p ((123 :: rest).length - r'.length) hp hat.le
          (by rw [hres]; exact he) (by rw [hres]; exact hpp) (by simp only [List.length_cons]; omega)
          (by simp only [List.length_cons]; omega)
        rw [hres] at hx
        obtain ⟨f2, p2, hat2, hf2, e2⟩ := jump 125 r' _ ⟨.obj, .wantKey true⟩ [⟨c, .after⟩] ((scan_suffix none sf).2.2 _ _ _ _ hsr) rfl
          (by
            intro f q rr hatq hq
            exact loopL_ret (machine k) data h f _ (some ⟨.obj, .done⟩) ⟨c, .after⟩ [] rr q 125 r' hsm hq hatq
              (by simp [machine, step, isWs]))
        refine ⟨f2, p2, hat2, hf2, ?_⟩
        rw [hcl, hl1, hx]
        exact e2
  have h123' : (b == 123) = false := by simpa using h123
  -- scalars and bytes that start no value
  rw [isValueStart_scalar b h34' h91' h123']
  rw [startValue_handled_scalar k hk c hch b h34' h91' h123'] at hstep
  cases hT : scalarTok b with
  | none =>
    rw [hT] at hstep
    simp only [Option.isSome_none, Bool.not_false, if_true, MemberGoal]
    rw [hcl]
    exact errTr_stops k c data h fuel s [] r b hb' hstep
  | some T =>
    rw [hT] at hstep
    simp only [Option.isSome_some, Bool.not_true, Bool.false_eq_true, if_false] at hstep ⊢
    have hl1 := loopL_handler1 (machine k) data h fuel s _ r b (handlerSimpleAct k) hb' hstep
    have hx := exec_handlerSimple k data h r field _ hargs
    rw [hres] at hx
    rw [scanValue_scalar none sf 0 b rest h91' h123']
    cases he : res.2.2 with
    | some id =>
      rw [he] at hx
      simp only [MemberGoal]
      rw [hcl, hl1, hx]
      exact herr_result r res.1 id _
    | none =>
      rw [he] at hx
      simp only []
      have key := scalar_body_run k c hnt hnf data h hsm b rest T hT fuel (p + 1) []
        ({ afterCall r res.1 with p := ((p + 1 : Nat) : Int) } : Regs τ) hat' rfl rfl hf'
      cases hs : scanScalar b rest with
      | none =>
        rw [hs] at key
        simp only [MemberGoal, Outcome] at key ⊢
        rw [hcl, hl1, hx]
        simp only [hw1]
        exact key
      | some r' =>
        rw [hs] at key
        simp only [MemberGoal, Outcome] at key ⊢
        obtain ⟨f2, p2, hat2, hf2, e2⟩ := key
        refine ⟨f2, p2, hat2, hf2, ?_⟩
        rw [hcl, hl1, hx]
        simp only [hw1]
        exact e2

end RJson.Abs
