import RJson.Proofs.DecCore
import Mathlib.Tactic.Ring
import Mathlib.Tactic.Linarith
import Mathlib.Tactic.FieldSimp
import Mathlib.Tactic.Positivity
import Mathlib.Algebra.Order.Field.Power
import Mathlib.Data.Rat.Defs
/-!
# `rightShift` of the multiprecision decimal: long division of the digit string by `2^k`

The three loops of `rightShift` (pick up leading digits, one digit in / one digit out, put down extra digits) keep
`(digits read so far) = (digits written so far) · 2^k · 10 + n`; when the division comes out even within the 800
digits (the `trunc` flag stays off) the digits written are exactly the quotient.
-/
namespace RJson.Dec
open RJson.FP

/-- one digit in, one digit out -/
theorem rsMain_spec (k nd : Nat) (d0 : Array UInt8) (hnd : nd ≤ 800) (h0 : DigitsOK d0 nd) :
    ∀ (fuel r w n : Nat) (d : Array UInt8), nd - r ≤ fuel → w < r → r ≤ nd → d.size = 800 →
      (∀ i, r ≤ i → i < nd → d[i]! = d0[i]!) → DigitsOK d w → n < 2 ^ k * 10 →
      val d w * 2 ^ k * 10 + n = val d0 r → (0 < w → 1 ≤ dig d 0) → (w = 0 → 2 ^ k ≤ n) →
      let res := rsMain k (2 ^ k - 1) nd fuel r w n d
      res.1 = w + (nd - r) ∧ res.2.2.size = 800 ∧ DigitsOK res.2.2 res.1 ∧ res.2.1 < 2 ^ k * 10 ∧
        val res.2.2 res.1 * 2 ^ k * 10 + res.2.1 = val d0 nd ∧ (0 < res.1 → 1 ≤ dig res.2.2 0) ∧ (res.1 = 0 → 2 ^ k ≤ res.2.1) := by
  intro fuel
  induction fuel with
  | zero =>
    intro r w n d hf hw hr hsz _ hdw hn hinv hj1 hj2
    have : r = nd := by omega
    subst this
    simp only [rsMain]
    exact ⟨by omega, hsz, hdw, hn, hinv, hj1, hj2⟩
  | succ fuel ih =>
    intro r w n d hf hw hr hsz hsame hdw hn hinv hj1 hj2
    simp only [rsMain]
    by_cases hlt : r < nd
    · rw [if_pos hlt]
      have hp : 0 < 2 ^ k := by positivity
      have hdig : n >>> k ≤ 9 := by
        rw [Nat.shiftRight_eq_div_pow]
        have : n / 2 ^ k < 10 := by
          rw [Nat.div_lt_iff_lt_mul hp]; rw [Nat.mul_comm]; exact hn
        omega
      have hmask : n &&& (2 ^ k - 1) = n % 2 ^ k := Nat.and_two_pow_sub_one_eq_mod n k
      have hc := h0 r hlt
      have hcr : d[r]! = d0[r]! := hsame r (Nat.le_refl _) hlt
      have hwsz : w < d.size := by omega
      rw [hmask, hcr]
      have hnn : n % 2 ^ k * 10 + d0[r]!.toNat - 48 = n % 2 ^ k * 10 + dig d0 r := by
        unfold dig; omega
      rw [hnn]
      have hres := ih (r + 1) (w + 1) (n % 2 ^ k * 10 + dig d0 r) (d.set! w (UInt8.ofNat (n >>> k + 48)))
        (by omega) (by omega) (by omega) (by rw [size_set!]; exact hsz)
        (by
          intro i hi hin
          rw [getElem!_set! d w i _ hwsz, if_neg (by omega)]
          exact hsame i (by omega) hin)
        (by
          intro i hi
          by_cases hiw : i = w
          · subst hiw; exact byte_set_self d i _ hwsz hdig
          · rw [getElem!_set! d w i _ hwsz, if_neg hiw]; exact hdw i (by omega))
        (by
          have : n % 2 ^ k < 2 ^ k := Nat.mod_lt _ hp
          have := dig_le9 h0 hlt
          omega)
        (by
          simp only [val]
          rw [val_set_ge d w _ hwsz w (Nat.le_refl _), dig_set_self d w _ hwsz hdig, Nat.shiftRight_eq_div_pow]
          have hdm := Nat.div_add_mod n (2 ^ k)
          -- (Q·10 + n/2^k)·2^k·10 + (n%2^k·10 + c) = (Q·2^k·10 + n)·10 + c
          have : (val d w * 10 + n / 2 ^ k) * 2 ^ k * 10 + (n % 2 ^ k * 10 + dig d0 r) =
              (val d w * 2 ^ k * 10 + (2 ^ k * (n / 2 ^ k) + n % 2 ^ k)) * 10 + dig d0 r := by ring
          rw [this, hdm, hinv])
        (by
          intro _
          by_cases hw0 : w = 0
          · subst hw0
            rw [dig_set_self d 0 _ hwsz hdig, Nat.shiftRight_eq_div_pow]
            exact Nat.div_pos (hj2 rfl) hp
          · rw [dig_set_ne d w 0 _ hwsz (by omega)]; exact hj1 (by omega))
        (by intro h; omega)
      simp only [] at hres
      obtain ⟨a1, a2, a3, a4, a5, a6, a7⟩ := hres
      exact ⟨by omega, a2, a3, a4, a5, a6, a7⟩
    · rw [if_neg hlt]
      have : r = nd := by omega
      subst this
      exact ⟨by omega, hsz, hdw, hn, hinv, hj1, hj2⟩

theorem rsExtra_sticky (k mask : Nat) : ∀ (fuel w n : Nat) (d : Array UInt8), (rsExtra k mask fuel w n d true).2.2 = true := by
  intro fuel
  induction fuel with
  | zero => intro w n d; rfl
  | succ fuel ih =>
    intro w n d
    simp only [rsExtra]
    split
    · split
      · exact ih _ _ _
      · simp only [Bool.true_or]; exact ih _ _ _
    · rfl

theorem dvd_mod_step (n k m : Nat) (hdiv : 2 ^ m ∣ n) (hm : m ≤ k) :
    n % 2 ^ k * 10 = 0 ∨ (2 ^ (m + 1) ∣ n % 2 ^ k * 10 ∧ m + 1 ≤ k) := by
  by_cases hmk : m = k
  · subst hmk
    left
    rw [Nat.mod_eq_zero_of_dvd hdiv]
  · right
    have hlt : m < k := by omega
    have h2k : 2 ^ m ∣ 2 ^ k := Nat.pow_dvd_pow 2 hm
    have hmod : 2 ^ m ∣ n % 2 ^ k := (Nat.dvd_mod_iff h2k).mpr hdiv
    obtain ⟨t, ht⟩ := hmod
    refine ⟨⟨t * 5, ?_⟩, by omega⟩
    rw [ht, Nat.pow_succ]; ring

/-- well-formedness of what `rsExtra` writes -/
theorem rsExtra_wf (k : Nat) : ∀ (fuel w n : Nat) (d : Array UInt8) (tr : Bool), d.size = 800 → w ≤ 800 → DigitsOK d w →
    n < 2 ^ k * 10 →
    let res := rsExtra k (2 ^ k - 1) fuel w n d tr
    res.2.1.size = 800 ∧ res.1 ≤ 800 ∧ DigitsOK res.2.1 res.1 := by
  intro fuel
  induction fuel with
  | zero => intro w n d tr hsz hw hdw _; simp only [rsExtra]; exact ⟨hsz, hw, hdw⟩
  | succ fuel ih =>
    intro w n d tr hsz hw hdw hn
    have hp : 0 < 2 ^ k := by positivity
    simp only [rsExtra]
    by_cases hn0 : n > 0
    · rw [if_pos hn0]
      have hmask : n &&& (2 ^ k - 1) = n % 2 ^ k := Nat.and_two_pow_sub_one_eq_mod n k
      have hdig : n >>> k ≤ 9 := by
        rw [Nat.shiftRight_eq_div_pow]
        have : n / 2 ^ k < 10 := by
          rw [Nat.div_lt_iff_lt_mul hp]; rw [Nat.mul_comm]; exact hn
        omega
      have hmod : n % 2 ^ k < 2 ^ k := Nat.mod_lt _ hp
      have hn' : n % 2 ^ k * 10 < 2 ^ k * 10 := by omega
      rw [hmask]
      by_cases hfit : w < d.size
      · rw [if_pos hfit]
        exact ih (w + 1) _ _ tr (by rw [size_set!]; exact hsz) (by omega)
          (by
            intro i hi
            by_cases hiw : i = w
            · subst hiw; exact byte_set_self d i _ hfit hdig
            · rw [getElem!_set! d w i _ hfit, if_neg hiw]; exact hdw i (by omega))
          hn'
      · rw [if_neg hfit]
        exact ih w _ d _ hsz hw hdw hn'
    · rw [if_neg hn0]; exact ⟨hsz, hw, hdw⟩

/-- the leading digit survives the extra digits (and is written by them when nothing was written before) -/
theorem rsExtra_nz (k : Nat) : ∀ (fuel w n : Nat) (d : Array UInt8) (tr : Bool), d.size = 800 → n < 2 ^ k * 10 →
    (0 < w → 1 ≤ dig d 0) → (w = 0 → 2 ^ k ≤ n) →
    0 < (rsExtra k (2 ^ k - 1) fuel w n d tr).1 → 1 ≤ dig (rsExtra k (2 ^ k - 1) fuel w n d tr).2.1 0 := by
  intro fuel
  induction fuel with
  | zero => intro w n d tr _ _ hj1 _ hpos; simp only [rsExtra] at hpos ⊢; exact hj1 hpos
  | succ fuel ih =>
    intro w n d tr hsz hn hj1 hj2
    have hp : 0 < 2 ^ k := by positivity
    simp only [rsExtra]
    by_cases hn0 : n > 0
    · rw [if_pos hn0]
      have hmask : n &&& (2 ^ k - 1) = n % 2 ^ k := Nat.and_two_pow_sub_one_eq_mod n k
      have hdig : n >>> k ≤ 9 := by
        rw [Nat.shiftRight_eq_div_pow]
        have : n / 2 ^ k < 10 := by
          rw [Nat.div_lt_iff_lt_mul hp]; rw [Nat.mul_comm]; exact hn
        omega
      have hmod : n % 2 ^ k < 2 ^ k := Nat.mod_lt _ hp
      have hn' : n % 2 ^ k * 10 < 2 ^ k * 10 := by omega
      rw [hmask]
      by_cases hfit : w < d.size
      · rw [if_pos hfit]
        apply ih (w + 1) _ _ tr (by rw [size_set!]; exact hsz) hn'
        · intro _
          by_cases hw0 : w = 0
          · subst hw0
            rw [dig_set_self d 0 _ hfit hdig, Nat.shiftRight_eq_div_pow]
            exact Nat.div_pos (hj2 rfl) hp
          · rw [dig_set_ne d w 0 _ hfit (by omega)]; exact hj1 (by omega)
        · intro h; omega
      · rw [if_neg hfit]
        exact ih w _ d _ hsz hn' hj1 (fun h => by omega)
    · rw [if_neg hn0]
      intro hpos; exact hj1 hpos

/-- put down extra digits: when no non-zero digit is dropped the digits written (followed by `z'` zeros that did not
    fit) are the exact quotient -/
theorem rsExtra_spec (k P ca cb : Nat) :
    ∀ (fuel w z n j m : Nat) (d : Array UInt8) (tr : Bool), d.size = 800 → w ≤ 800 → DigitsOK d w → n < 2 ^ k * 10 →
      val d w * 10 ^ z * 2 ^ k * 10 + n = P * 10 ^ j → w + z + ca = cb + j → (0 < z → w = 800) →
      (n = 0 ∨ (2 ^ m ∣ n ∧ m ≤ k ∧ k + 2 ≤ fuel + m)) →
      let res := rsExtra k (2 ^ k - 1) fuel w n d tr
      res.2.1.size = 800 ∧ res.1 ≤ 800 ∧ DigitsOK res.2.1 res.1 ∧
        (res.2.2 = false → tr = false ∧ ∃ z' j', val res.2.1 res.1 * 10 ^ z' * 2 ^ k * 10 = P * 10 ^ j' ∧ res.1 + z' + ca = cb + j') := by
  intro fuel
  induction fuel with
  | zero =>
    intro w z n j m d tr hsz hw hdw hn hinv hpos hz hterm
    have hn0 : n = 0 := by
      rcases hterm with h | ⟨_, h2, h3⟩
      · exact h
      · omega
    subst hn0
    simp only [rsExtra]
    exact ⟨hsz, hw, hdw, fun htr => ⟨htr, z, j, by simpa using hinv, hpos⟩⟩
  | succ fuel ih =>
    intro w z n j m d tr hsz hw hdw hn hinv hpos hz hterm
    have hp : 0 < 2 ^ k := by positivity
    simp only [rsExtra]
    by_cases hn0 : n > 0
    · rw [if_pos hn0]
      obtain ⟨hdiv, hm, hf⟩ : 2 ^ m ∣ n ∧ m ≤ k ∧ k + 2 ≤ fuel + 1 + m := by
        rcases hterm with h | h
        · omega
        · exact h
      have hmask : n &&& (2 ^ k - 1) = n % 2 ^ k := Nat.and_two_pow_sub_one_eq_mod n k
      have hdig : n >>> k ≤ 9 := by
        rw [Nat.shiftRight_eq_div_pow]
        have : n / 2 ^ k < 10 := by
          rw [Nat.div_lt_iff_lt_mul hp]; rw [Nat.mul_comm]; exact hn
        omega
      have hmod : n % 2 ^ k < 2 ^ k := Nat.mod_lt _ hp
      have hdm := Nat.div_add_mod n (2 ^ k)
      have hn' : n % 2 ^ k * 10 < 2 ^ k * 10 := by omega
      have hterm' : n % 2 ^ k * 10 = 0 ∨ (2 ^ (m + 1) ∣ n % 2 ^ k * 10 ∧ m + 1 ≤ k ∧ k + 2 ≤ fuel + (m + 1)) := by
        rcases dvd_mod_step n k m hdiv hm with h | ⟨h1, h2⟩
        · exact .inl h
        · exact .inr ⟨h1, h2, by omega⟩
      rw [hmask]
      by_cases hfit : w < d.size
      · rw [if_pos hfit]
        have hz0 : z = 0 := by
          by_contra hcon
          have := hz (by omega)
          omega
        subst hz0
        have hres := ih (w + 1) 0 (n % 2 ^ k * 10) (j + 1) (m + 1) (d.set! w (UInt8.ofNat (n >>> k + 48))) tr
          (by rw [size_set!]; exact hsz) (by omega)
          (by
            intro i hi
            by_cases hiw : i = w
            · subst hiw; exact byte_set_self d i _ hfit hdig
            · rw [getElem!_set! d w i _ hfit, if_neg hiw]; exact hdw i (by omega))
          hn'
          (by
            simp only [val, Nat.pow_zero, Nat.mul_one] at hinv ⊢
            rw [val_set_ge d w _ hfit w (Nat.le_refl _), dig_set_self d w _ hfit hdig, Nat.shiftRight_eq_div_pow]
            have : (val d w * 10 + n / 2 ^ k) * 2 ^ k * 10 + n % 2 ^ k * 10 =
                (val d w * 2 ^ k * 10 + (2 ^ k * (n / 2 ^ k) + n % 2 ^ k)) * 10 := by ring
            rw [this, hdm, hinv, Nat.pow_succ]; ring)
          (by omega) (by omega) hterm'
        exact hres
      · rw [if_neg hfit]
        have hw800 : w = 800 := by omega
        by_cases hd0 : n >>> k > 0
        · -- a non-zero digit is dropped: the flag is set and stays set
          have htrue : (tr || decide (n >>> k > 0)) = true := by simp [hd0]
          rw [htrue]
          have hst := rsExtra_sticky k (2 ^ k - 1) fuel w (n % 2 ^ k * 10) d
          obtain ⟨r1, r2, r3⟩ := rsExtra_wf k fuel w (n % 2 ^ k * 10) d true hsz hw hdw hn'
          refine ⟨r1, r2, r3, fun hh => ?_⟩
          rw [hst] at hh; cases hh
        · have hdz : n >>> k = 0 := Nat.eq_zero_of_not_pos hd0
          have hfalse : (tr || decide (n >>> k > 0)) = tr := by simp [hdz]
          rw [hfalse]
          have hnk : n / 2 ^ k = 0 := by rw [← Nat.shiftRight_eq_div_pow]; exact hdz
          have hres := ih w (z + 1) (n % 2 ^ k * 10) (j + 1) (m + 1) d tr hsz hw hdw hn'
            (by
              rw [hnk] at hdm
              have hnm : n % 2 ^ k = n := by omega
              rw [hnm, Nat.pow_succ, Nat.pow_succ]
              have : val d w * (10 ^ z * 10) * 2 ^ k * 10 + n * 10 = (val d w * 10 ^ z * 2 ^ k * 10 + n) * 10 := by ring
              rw [this, hinv]; ring)
            (by omega) (fun _ => hw800) hterm'
          exact hres
    · rw [if_neg hn0]
      have hn00 : n = 0 := by omega
      subst hn00
      exact ⟨hsz, hw, hdw, fun htr => ⟨htr, z, j, by simpa using hinv, hpos⟩⟩

/-! ## value of a decimal, `trim` -/

/-- the rational a decimal stands for (sign aside) -/
def aval (a : Decimal) : ℚ := (val a.d a.nd : ℚ) * 10 ^ (a.dp - (a.nd : ℤ))

theorem trimLoop_spec (d : Array UInt8) : ∀ (nd : Nat), trimLoop d nd ≤ nd ∧ val d nd = val d (trimLoop d nd) * 10 ^ (nd - trimLoop d nd) := by
  intro nd
  induction nd with
  | zero => simp [trimLoop]
  | succ nd ih =>
    simp only [trimLoop]
    by_cases h0 : (d[nd]! == 48) = true
    · rw [if_pos h0]
      obtain ⟨a, b⟩ := ih
      refine ⟨by omega, ?_⟩
      have hd : dig d nd = 0 := by
        have : d[nd]! = 48 := by simpa using h0
        simp [dig, this]
      simp only [val, hd, Nat.add_zero]
      rw [b]
      have : nd + 1 - trimLoop d nd = (nd - trimLoop d nd) + 1 := by omega
      rw [this, Nat.pow_succ]; ring
    · rw [if_neg h0]
      simp

theorem trim_spec (a : Decimal) (h : WF a) : WF a.trim ∧ aval a.trim = aval a ∧ a.trim.neg = a.neg ∧ a.trim.trunc = a.trunc := by
  obtain ⟨t1, t2⟩ := trimLoop_spec a.d a.nd
  refine ⟨⟨h.size, by show trimLoop a.d a.nd ≤ 800; have := h.nd; omega, fun i hi => h.digits i (by
    have : i < trimLoop a.d a.nd := hi
    omega)⟩, ?_, rfl, rfl⟩
  simp only [aval, Decimal.trim]
  by_cases h0 : trimLoop a.d a.nd = 0
  · have hb : (trimLoop a.d a.nd == 0) = true := by simpa using h0
    simp only [hb, if_true]
    rw [t2, h0]
    simp [val]
  · have hb : (trimLoop a.d a.nd == 0) = false := by simpa using h0
    simp only [hb, Bool.false_eq_true, if_false]
    rw [t2]
    push_cast
    have hnd : (a.nd : ℤ) = (trimLoop a.d a.nd : ℤ) + ((a.nd - trimLoop a.d a.nd : ℕ) : ℤ) := by omega
    rw [hnd, mul_assoc]
    congr 1
    rw [← zpow_natCast, ← zpow_add₀ (by norm_num)]
    congr 1
    ring

/-! ## picking up the leading digits -/

theorem pad_spec (k : Nat) : ∀ (f r n : Nat), 0 < n → n < 2 ^ k → 2 ^ k ≤ n * 10 ^ f →
    let res := rsPickup.pad k f r n
    r ≤ res.1 ∧ res.2 = n * 10 ^ (res.1 - r) ∧ 2 ^ k ≤ res.2 ∧ res.2 < 2 ^ k * 10 := by
  intro f
  induction f with
  | zero => intro r n _ h1 h2; simp at h2; omega
  | succ f ih =>
    intro r n hn h1 h2
    simp only [rsPickup.pad]
    have hz : (n >>> k == 0) = true := by
      rw [Nat.shiftRight_eq_div_pow]
      simp [Nat.div_eq_of_lt h1]
    rw [if_pos hz]
    by_cases hbig : n * 10 < 2 ^ k
    · have := ih (r + 1) (n * 10) (by omega) hbig (by rw [Nat.pow_succ] at h2; rw [Nat.mul_assoc, Nat.mul_comm 10]; exact h2)
      simp only [] at this
      obtain ⟨a, b, c, d⟩ := this
      refine ⟨by omega, ?_, c, d⟩
      rw [b]
      have : (rsPickup.pad k f (r + 1) (n * 10)).1 - r = ((rsPickup.pad k f (r + 1) (n * 10)).1 - (r + 1)) + 1 := by omega
      rw [this, Nat.pow_succ]; ring
    · -- the next value already covers the shift
      have hge : 2 ^ k ≤ n * 10 := by omega
      cases f with
      | zero =>
        simp only [rsPickup.pad]
        refine ⟨by omega, by simp, hge, by omega⟩
      | succ f' =>
        simp only [rsPickup.pad]
        have hnz : ¬ (((n * 10) >>> k == 0) = true) := by
          rw [Nat.shiftRight_eq_div_pow]
          have : 0 < n * 10 / 2 ^ k := Nat.div_pos hge (by positivity)
          intro hh
          have : n * 10 / 2 ^ k = 0 := by simpa using hh
          omega
        rw [if_neg hnz]
        refine ⟨by omega, by simp, hge, by omega⟩

/-- the first loop of `rightShift`: `(r, n)` with `n` the number read so far, just large enough for one quotient digit -/
theorem rsPickup_spec (a : Decimal) (h : WF a) (k : Nat) (hk1 : 1 ≤ k) (hk : k ≤ 60) :
    ∀ (fuel r n : Nat), a.nd + 1 - r ≤ fuel → r ≤ a.nd → n = val a.d r → n < 2 ^ k * 10 → (0 < r → n < 2 ^ k → True) →
      match rsPickup a k fuel r n with
      | none => val a.d a.nd = 0
      | some (r', n') => r ≤ r' ∧ 2 ^ k ≤ n' ∧ n' < 2 ^ k * 10 ∧
          n' = val a.d (min r' a.nd) * 10 ^ (r' - min r' a.nd) ∧ (2 ^ k ≤ n → r' = r) := by
  intro fuel
  induction fuel with
  | zero => intro r n hf hr _ _ _; omega
  | succ fuel ih =>
    intro r n hf hr hn hlt _
    have hp : 0 < 2 ^ k := by positivity
    simp only [rsPickup]
    by_cases hz : (n >>> k == 0) = true
    · rw [if_pos hz]
      have hnk : n < 2 ^ k := by
        rw [Nat.shiftRight_eq_div_pow] at hz
        have : n / 2 ^ k = 0 := by simpa using hz
        exact (Nat.div_eq_zero_iff.mp this).resolve_left (by omega)
      by_cases hend : r ≥ a.nd
      · rw [if_pos hend]
        have hrn : r = a.nd := by omega
        by_cases hn0 : (n == 0) = true
        · rw [if_pos hn0]
          have : n = 0 := by simpa using hn0
          rw [← hrn, ← hn, this]
        · rw [if_neg hn0]
          have hnpos : 0 < n := by
            have : n ≠ 0 := by simpa using hn0
            omega
          have hfuel : 2 ^ k ≤ n * 10 ^ 64 := by
            have h1 : 2 ^ k ≤ 2 ^ 60 := Nat.pow_le_pow_right (by norm_num) hk
            have h2 : (2 : ℕ) ^ 60 ≤ 10 ^ 64 := by norm_num
            have h3 : 10 ^ 64 ≤ n * 10 ^ 64 := Nat.le_mul_of_pos_left _ hnpos
            omega
          obtain ⟨p1, p2, p3, p4⟩ := pad_spec k 64 r n hnpos hnk hfuel
          simp only []
          refine ⟨p1, p3, p4, ?_, fun hh => by omega⟩
          have hmin : min (rsPickup.pad k 64 r n).1 a.nd = a.nd := by omega
          rw [hmin, p2, hn, hrn]
      · rw [if_neg hend]
        have hrlt : r < a.nd := by omega
        have hd9 := dig_le9 h.digits hrlt
        have hstep : n * 10 + (a.d[r]!.toNat - 48) = val a.d (r + 1) := by
          simp only [val, dig]; rw [hn]
        have hres := ih (r + 1) (n * 10 + (a.d[r]!.toNat - 48)) (by omega) (by omega) hstep
          (by unfold dig at hd9; omega) (fun _ _ => trivial)
        cases hrp : rsPickup a k fuel (r + 1) (n * 10 + (a.d[r]!.toNat - 48)) with
        | none => rw [hrp] at hres; exact hres
        | some pr =>
          obtain ⟨r', n'⟩ := pr
          rw [hrp] at hres
          simp only [] at hres ⊢
          obtain ⟨b1, b2, b3, b4, _⟩ := hres
          exact ⟨by omega, b2, b3, b4, fun hh => by omega⟩
    · rw [if_neg hz]
      have hge : 2 ^ k ≤ n := by
        rw [Nat.shiftRight_eq_div_pow] at hz
        by_contra hcon
        have : n / 2 ^ k = 0 := Nat.div_eq_of_lt (by omega)
        simp [this] at hz
      simp only []
      refine ⟨Nat.le_refl _, hge, hlt, ?_, by intro _; first | rfl | trivial⟩
      rw [Nat.min_eq_left hr, Nat.sub_self, Nat.pow_zero, Nat.mul_one, hn]

theorem val_ge_of_lead' (d : Array UInt8) (h1 : 1 ≤ dig d 0) : ∀ n, 1 ≤ n → 10 ^ (n - 1) ≤ val d n := by
  intro n
  induction n with
  | zero => intro h; omega
  | succ n ih =>
    intro _
    by_cases hn : n = 0
    · subst hn; simp [val]; exact h1
    · have := ih (by omega)
      simp only [val, Nat.add_sub_cancel]
      have hp : 10 ^ n = 10 ^ (n - 1) * 10 := by
        rw [← Nat.pow_succ]; congr 1; omega
      rw [hp]; omega

/-- no trailing zero digit -/
def Trimmed (a : Decimal) : Prop := a.nd = 0 ∨ a.d[a.nd - 1]! ≠ 48

theorem trimLoop_trimmed (d : Array UInt8) : ∀ nd, trimLoop d nd = 0 ∨ d[trimLoop d nd - 1]! ≠ 48 := by
  intro nd
  induction nd with
  | zero => left; rfl
  | succ n ih =>
    simp only [trimLoop]
    by_cases h : (d[n]! == 48) = true
    · rw [if_pos h]; exact ih
    · rw [if_neg h]
      right
      simpa using h

theorem trim_trimmed (a : Decimal) : Trimmed a.trim := trimLoop_trimmed a.d a.nd

/-- normal form: a non-empty digit string starts with a non-zero digit -/
def NZ (a : Decimal) : Prop := 0 < a.nd → 1 ≤ dig a.d 0

theorem trim_nz (a : Decimal) (h : NZ a) : NZ a.trim := by
  intro hpos
  have hle := (trimLoop_spec a.d a.nd).1
  have : 0 < a.nd := by
    have : a.trim.nd = trimLoop a.d a.nd := rfl
    omega
  exact h this

theorem trimLoop_pos (d : Array UInt8) (hlead : 1 ≤ dig d 0) : ∀ nd, 1 ≤ nd → 1 ≤ trimLoop d nd := by
  intro nd
  induction nd with
  | zero => intro h; omega
  | succ n ih =>
    intro _
    simp only [trimLoop]
    by_cases hn : n = 0
    · subst hn
      have : (d[0]! == 48) = false := by
        apply beq_eq_false_iff_ne.mpr
        intro h48
        unfold dig at hlead
        rw [h48] at hlead
        simp at hlead
      rw [if_neg (by simp [this])]
    · split
      · exact ih (by omega)
      · omega

theorem trim_pos (a : Decimal) (hnz : NZ a) (hnd : 1 ≤ a.nd) : 1 ≤ a.trim.nd :=
  trimLoop_pos a.d (hnz hnd) a.nd hnd

theorem rsExtra_mono (k mask : Nat) : ∀ (fuel w n : Nat) (d : Array UInt8) (tr : Bool), w ≤ (rsExtra k mask fuel w n d tr).1 := by
  intro fuel
  induction fuel with
  | zero => intro w n d tr; simp [rsExtra]
  | succ fuel ih =>
    intro w n d tr
    simp only [rsExtra]
    split
    · split
      · exact Nat.le_trans (by omega) (ih _ _ _ _)
      · exact ih _ _ _ _
    · exact Nat.le_refl _

theorem rsExtra_pos (k mask : Nat) (fuel w n : Nat) (d : Array UInt8) (tr : Bool) (hsz : d.size = 800)
    (h : 0 < w ∨ (0 < n ∧ 1 ≤ fuel)) : 0 < (rsExtra k mask fuel w n d tr).1 := by
  rcases h with h | ⟨hn, hf⟩
  · exact Nat.lt_of_lt_of_le h (rsExtra_mono k mask fuel w n d tr)
  · by_cases hw : 0 < w
    · exact Nat.lt_of_lt_of_le hw (rsExtra_mono k mask fuel w n d tr)
    · have hw0 : w = 0 := by omega
      subst hw0
      obtain ⟨fuel, rfl⟩ : ∃ f, fuel = f + 1 := ⟨fuel - 1, by omega⟩
      simp only [rsExtra]
      rw [if_pos hn, if_pos (by omega)]
      exact Nat.lt_of_lt_of_le (by omega) (rsExtra_mono k mask fuel 1 _ _ tr)

/-! ## `rightShift` -/

theorem aval_zero_of_val (a : Decimal) (h : val a.d a.nd = 0) : aval a = 0 := by simp [aval, h]

/-- **`rightShift(a, k)`**: well-formed again; when the `trunc` flag is off afterwards it was off before and the
    value is exactly `a / 2^k` -/
theorem rightShift_spec (a : Decimal) (h : WF a) (k : Nat) (hk1 : 1 ≤ k) (hk : k ≤ 60) :
    WF (rightShift a k) ∧ NZ (rightShift a k) ∧ Trimmed (rightShift a k) ∧ (NZ a → 1 ≤ a.nd → 1 ≤ (rightShift a k).nd) ∧ (rightShift a k).neg = a.neg ∧
      ((rightShift a k).trunc = false → a.trunc = false ∧ aval (rightShift a k) = aval a / 2 ^ k) := by
  have hp : (0 : ℕ) < 2 ^ k := by positivity
  simp only [rightShift]
  have hpick := rsPickup_spec a h k hk1 hk (a.nd + 1) 0 0 (by omega) (by omega) rfl (by positivity) (fun _ _ => trivial)
  cases hrp : rsPickup a k (a.nd + 1) 0 0 with
  | none =>
    rw [hrp] at hpick
    simp only [] at hpick ⊢
    refine ⟨⟨h.size, by simp, fun i hi => absurd hi (by simp)⟩, fun hh => absurd hh (by simp), .inl rfl, ?_, by first | rfl | trivial, fun htr => ⟨htr, ?_⟩⟩
    · intro hnz hnd1
      exfalso
      have := val_ge_of_lead' a.d (hnz hnd1) a.nd hnd1
      have hp10 : 0 < 10 ^ (a.nd - 1) := by positivity
      omega
    rw [aval_zero_of_val a hpick]
    simp [aval, val]
  | some pr =>
    obtain ⟨r, n⟩ := pr
    rw [hrp] at hpick
    simp only [] at hpick ⊢
    obtain ⟨_, hn1, hn2, hnv, _⟩ := hpick
    have hr1 : 1 ≤ r := by
      -- with r = 0 the number read is 0 < 2^k
      by_contra hcon
      have : r = 0 := by omega
      subst this
      simp [val] at hnv
      omega
    -- the main loop
    have hmain : ∃ w n1 d1, rsMain k (2 ^ k - 1) a.nd (a.nd + 1) r 0 n a.d = (w, n1, d1) ∧ d1.size = 800 ∧ w ≤ 800 ∧ DigitsOK d1 w ∧
        n1 < 2 ^ k * 10 ∧ (0 < w → 1 ≤ dig d1 0) ∧ (w = 0 → 2 ^ k ≤ n1) ∧
        ∃ j, val d1 w * 10 ^ 0 * 2 ^ k * 10 + n1 = val a.d a.nd * 10 ^ j ∧ w + 0 + r = a.nd + j := by
      by_cases hrn : r ≤ a.nd
      · have hm := rsMain_spec k a.nd a.d h.nd h.digits (a.nd + 1) r 0 n a.d (by omega) (by omega) hrn h.size
          (fun _ _ _ => rfl) (fun i hi => absurd hi (by omega)) hn2
          (by rw [Nat.min_eq_left hrn, Nat.sub_self] at hnv; simp [val]; omega)
          (fun hh => absurd hh (by omega)) (fun _ => hn1)
        simp only [] at hm
        obtain ⟨m1, m2, m3, m4, m5, m6, m7⟩ := hm
        refine ⟨(rsMain k (2 ^ k - 1) a.nd (a.nd + 1) r 0 n a.d).1, (rsMain k (2 ^ k - 1) a.nd (a.nd + 1) r 0 n a.d).2.1,
          (rsMain k (2 ^ k - 1) a.nd (a.nd + 1) r 0 n a.d).2.2, rfl, m2, by rw [m1]; have := h.nd; omega, m3, m4, m6, m7, 0, ?_, by rw [m1]; omega⟩
        simp only [Nat.pow_zero, Nat.mul_one]; exact m5
      · -- fewer digits than the shift needs: nothing is written by the main loop
        have hgt : a.nd < r := by omega
        have hm : rsMain k (2 ^ k - 1) a.nd (a.nd + 1) r 0 n a.d = (0, n, a.d) := by
          simp only [rsMain]
          rw [if_neg (by omega)]
        refine ⟨0, n, a.d, hm, h.size, by omega, fun i hi => absurd hi (by omega), hn2, fun hh => absurd hh (by omega), fun _ => hn1, r - a.nd, ?_, by omega⟩
        rw [Nat.min_eq_right (by omega)] at hnv
        simp [val]; exact hnv
    obtain ⟨w, n1, d1, hmeq, hsz1, hw1, hd1, hn1', hj1, hj2, j0, hinv1, hpos1⟩ := hmain
    rw [hmeq]
    simp only []
    -- the extra digits
    have hext := rsExtra_spec k (val a.d a.nd) r a.nd 2000 w 0 n1 j0 0 d1 a.trunc hsz1 hw1 hd1 hn1' hinv1 hpos1
      (fun hh => absurd hh (by omega)) (by
        by_cases hz : n1 = 0
        · exact .inl hz
        · exact .inr ⟨by simp, by omega, by omega⟩)
    simp only [] at hext
    have hnzx := rsExtra_nz k 2000 w n1 d1 a.trunc hsz1 hn1' hj1 hj2
    generalize hre : rsExtra k (2 ^ k - 1) 2000 w n1 d1 a.trunc = re at hext hnzx
    obtain ⟨w2, d2, tr2⟩ := re
    simp only [] at hext ⊢
    obtain ⟨e1, e2, e3, e4⟩ := hext
    have hwf2 : WF { a with d := d2, nd := w2, dp := a.dp - ((r : ℤ) - 1), trunc := tr2 } := ⟨e1, e2, e3⟩
    obtain ⟨t1, t2, t3, t4⟩ := trim_spec _ hwf2
    have hnz2 : NZ { a with d := d2, nd := w2, dp := a.dp - ((r : ℤ) - 1), trunc := tr2 } := fun hh => hnzx hh
    have hw2pos : 0 < w2 := by
      have := rsExtra_pos k (2 ^ k - 1) 2000 w n1 d1 a.trunc hsz1 (by
        by_cases hw0 : 0 < w
        · exact .inl hw0
        · refine .inr ⟨?_, by norm_num⟩
          have := hj2 (by omega)
          omega)
      rw [hre] at this; exact this
    refine ⟨t1, trim_nz _ hnz2, trim_trimmed _, fun _ _ => trim_pos _ hnz2 hw2pos, t3, fun htr => ?_⟩
    rw [t4] at htr
    obtain ⟨f1, z', j', f2, f3⟩ := e4 htr
    refine ⟨f1, ?_⟩
    rw [t2]
    -- the value
    simp only [aval]
    have hq : (val d2 w2 : ℚ) * 10 ^ z' * 2 ^ k * 10 = (val a.d a.nd : ℚ) * 10 ^ j' := by exact_mod_cast f2
    have hpk : (0 : ℚ) < 2 ^ k := by positivity
    have hv : (val d2 w2 : ℚ) = (val a.d a.nd : ℚ) * 10 ^ j' / (10 ^ z' * 2 ^ k * 10) := by
      rw [eq_div_iff (by positivity)]
      rw [← hq]; ring
    rw [hv]
    have hexp : a.dp - ((r : ℤ) - 1) - (w2 : ℤ) = (a.dp - (a.nd : ℤ)) + ((z' : ℤ) + 1 - (j' : ℤ)) := by omega
    have hz1 : (10 : ℚ) ^ ((z' : ℤ) + 1 - (j' : ℤ)) = 10 ^ z' * 10 / 10 ^ j' := by
      rw [zpow_sub₀ (by norm_num), zpow_add₀ (by norm_num), zpow_natCast, zpow_natCast, zpow_one]
    rw [hexp, zpow_add₀ (by norm_num), hz1]
    have h10j : (10 : ℚ) ^ j' ≠ 0 := by positivity
    have h10z : (10 : ℚ) ^ z' ≠ 0 := by positivity
    field_simp

end RJson.Dec
