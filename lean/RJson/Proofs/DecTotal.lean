import RJson.Proofs.DecApprox
/-!
# `floatBits` never panics and its loops terminate, for every decimal

From the any-run shift bounds (`DecApprox`): a shift multiplies by `2^±k` up to a relative error of `10^-799` per
60-bit step. That is enough to bound the number of iterations of the two scaling loops (the model gives them a budget
of 2000 rounds) and the size of the binary exponent (the model's `Shift` handles `|k| ≤ 3840`).
-/
namespace RJson.Dec
open RJson.FP

/-- relative error of one truncation to 800 digits -/
def eps : ℚ := 1 / 10 ^ 799

theorem eps_pos : 0 < eps := by unfold eps; positivity

/-- `y` is `Y` cut off at most `s` times -/
def Near (s : ℕ) (y Y : ℚ) : Prop := y ≤ Y ∧ Y ≤ y * (1 + eps) ^ s

theorem one_le_one_add_eps_pow (s : ℕ) : (1 : ℚ) ≤ (1 + eps) ^ s :=
  one_le_pow₀ (by have := eps_pos; linarith)

theorem Near.mono {s t : ℕ} {y Y : ℚ} (h : Near s y Y) (hy : 0 ≤ y) (hst : s ≤ t) : Near t y Y :=
  ⟨h.1, le_trans h.2 (mul_le_mul_of_nonneg_left (pow_le_pow_right₀ (by have := eps_pos; linarith) hst) hy)⟩

theorem Near.refl (y : ℚ) (hy : 0 ≤ y) : Near 0 y y := ⟨le_refl _, by simp⟩

/-- one more truncated step after scaling by `c > 0` -/
theorem Near.step {s : ℕ} {y Y y' c : ℚ} (h : Near s y Y) (hc : 0 < c) (h' : Near 1 y' (y * c)) (hy' : 0 ≤ y') : Near (s + 1) y' (Y * c) := by
  obtain ⟨a1, a2⟩ := h
  obtain ⟨b1, b2⟩ := h'
  have h1e : (0 : ℚ) ≤ (1 + eps) ^ s := le_trans zero_le_one (one_le_one_add_eps_pow s)
  constructor
  · -- y' ≤ y c ≤ Y c
    exact le_trans b1 (mul_le_mul_of_nonneg_right a1 hc.le)
  · calc Y * c ≤ y * (1 + eps) ^ s * c := mul_le_mul_of_nonneg_right a2 hc.le
      _ = (y * c) * (1 + eps) ^ s := by ring
      _ ≤ (y' * (1 + eps) ^ 1) * (1 + eps) ^ s := mul_le_mul_of_nonneg_right b2 h1e
      _ = y' * (1 + eps) ^ (s + 1) := by rw [pow_succ]; ring

/-- a truncation error below one unit of the 800th digit is a relative error below `eps` -/
theorem near_of_delta (b : Decimal) (hnz : NZ b) (hnd : 1 ≤ b.nd) (Y δ : ℚ) (h0 : 0 ≤ δ) (h1 : δ < 10 ^ (b.dp - 800))
    (hY : Y = aval b + δ) : Near 1 (aval b) Y := by
  have hge := aval_ge_of_nz b hnz hnd
  have he : (10 : ℚ) ^ (b.dp - 800) = 10 ^ (b.dp - 1) * eps := by
    unfold eps
    rw [one_div, ← zpow_natCast, ← zpow_neg, ← zpow_add₀ (by norm_num)]
    congr 1; push_cast; ring
  constructor
  · rw [hY]; linarith
  · rw [hY, pow_one]
    have : δ ≤ aval b * eps := by
      calc δ ≤ 10 ^ (b.dp - 1) * eps := by rw [← he]; exact h1.le
        _ ≤ aval b * eps := mul_le_mul_of_nonneg_right hge eps_pos.le
    linarith

theorem goL_near : ∀ (fuel : Nat) (a : Decimal) (k : Nat), Good0 a → 1 ≤ a.nd → 1 ≤ k → k ≤ 60 * fuel →
    ∃ b, Decimal.shift.goL 60 fuel a k = some b ∧ Near fuel (aval b) (aval a * 2 ^ k) := by
  intro fuel
  induction fuel with
  | zero => intro a k _ _ h1 h2; omega
  | succ fuel ih =>
    intro a k hg hnd hk1 hk
    simp only [Decimal.shift.goL]
    by_cases hbig : k > 60
    · rw [if_pos hbig]
      obtain ⟨b, hb, hwf, hnz, htm, hbnd, hneg, _⟩ := leftShift_spec a hg.wf hg.nz hnd 60 (by norm_num) (by norm_num)
      obtain ⟨b', hb', δ, d0, d1, dY, _⟩ := leftShift_approx a hg.wf hg.nz hnd 60 (by norm_num) (by norm_num)
      rw [hb] at hb'; injection hb' with hb'; subst hb'
      rw [hb]
      simp only []
      obtain ⟨c, hc, hcn⟩ := ih b (k - 60) ⟨hwf, hnz⟩ hbnd (by omega) (by omega)
      refine ⟨c, hc, ?_⟩
      have hn1 : Near 1 (aval b) (aval a * 2 ^ 60) := near_of_delta b hnz hbnd _ δ d0 d1 dY
      -- first step then the rest: aval a·2^k = (aval a·2^60)·2^(k-60)
      have hsplit : aval a * 2 ^ k = (aval a * 2 ^ 60) * 2 ^ (k - 60) := by
        rw [mul_assoc, ← pow_add]; congr 2; omega
      rw [hsplit]
      obtain ⟨c1, c2⟩ := hcn
      obtain ⟨n1, n2⟩ := hn1
      have hp : (0 : ℚ) < 2 ^ (k - 60) := by positivity
      have h1e : (0 : ℚ) ≤ (1 + eps) ^ fuel := le_trans zero_le_one (one_le_one_add_eps_pow fuel)
      constructor
      · exact le_trans c1 (mul_le_mul_of_nonneg_right n1 hp.le)
      · calc aval a * 2 ^ 60 * 2 ^ (k - 60) ≤ aval b * (1 + eps) ^ 1 * 2 ^ (k - 60) := mul_le_mul_of_nonneg_right n2 hp.le
          _ = (aval b * 2 ^ (k - 60)) * (1 + eps) := by ring
          _ ≤ (aval c * (1 + eps) ^ fuel) * (1 + eps) := mul_le_mul_of_nonneg_right c2 (by have := eps_pos; linarith)
          _ = aval c * (1 + eps) ^ (fuel + 1) := by rw [pow_succ]; ring
    · rw [if_neg hbig]
      obtain ⟨b, hb, hwf, hnz, htm, hbnd, hneg, _⟩ := leftShift_spec a hg.wf hg.nz hnd k hk1 (by omega)
      obtain ⟨b', hb', δ, d0, d1, dY, _⟩ := leftShift_approx a hg.wf hg.nz hnd k hk1 (by omega)
      rw [hb] at hb'; injection hb' with hb'; subst hb'
      exact ⟨b, hb, (near_of_delta b hnz hbnd _ δ d0 d1 dY).mono (aval_nonneg b) (by omega)⟩

theorem goR_near : ∀ (fuel : Nat) (a : Decimal) (k : Nat), Good0 a → 1 ≤ a.nd → 1 ≤ k → k ≤ 60 * fuel →
    Near fuel (aval (Decimal.shift.goR 60 fuel a k)) (aval a / 2 ^ k) := by
  intro fuel
  induction fuel with
  | zero => intro a k _ _ h1 h2; omega
  | succ fuel ih =>
    intro a k hg hnd hk1 hk
    simp only [Decimal.shift.goR]
    by_cases hbig : k > 60
    · rw [if_pos hbig]
      obtain ⟨hwf, hnz, htm, hpos, hneg, _⟩ := rightShift_spec a hg.wf 60 (by norm_num) (by norm_num)
      obtain ⟨δ, d0, d1, dY, _⟩ := rightShift_approx a hg.wf hg.nz hnd 60 (by norm_num) (by norm_num)
      have hbnd := hpos hg.nz hnd
      have hcn := ih (rightShift a 60) (k - 60) ⟨hwf, hnz⟩ hbnd (by omega) (by omega)
      have hn1 : Near 1 (aval (rightShift a 60)) (aval a / 2 ^ 60) := near_of_delta _ hnz hbnd _ δ d0 d1 dY
      have hsplit : aval a / 2 ^ k = (aval a / 2 ^ 60) / 2 ^ (k - 60) := by
        rw [div_div, ← pow_add]; congr 2; omega
      rw [hsplit]
      obtain ⟨c1, c2⟩ := hcn
      obtain ⟨n1, n2⟩ := hn1
      have hp : (0 : ℚ) < 2 ^ (k - 60) := by positivity
      constructor
      · exact le_trans c1 (div_le_div_of_nonneg_right n1 hp.le)
      · calc aval a / 2 ^ 60 / 2 ^ (k - 60) ≤ aval (rightShift a 60) * (1 + eps) ^ 1 / 2 ^ (k - 60) := div_le_div_of_nonneg_right n2 hp.le
          _ = (aval (rightShift a 60) / 2 ^ (k - 60)) * (1 + eps) := by ring
          _ ≤ (aval (Decimal.shift.goR 60 fuel (rightShift a 60) (k - 60)) * (1 + eps) ^ fuel) * (1 + eps) :=
              mul_le_mul_of_nonneg_right c2 (by have := eps_pos; linarith)
          _ = aval (Decimal.shift.goR 60 fuel (rightShift a 60) (k - 60)) * (1 + eps) ^ (fuel + 1) := by rw [pow_succ]; ring
    · rw [if_neg hbig]
      obtain ⟨hwf, hnz, htm, hpos, hneg, _⟩ := rightShift_spec a hg.wf k hk1 (by omega)
      obtain ⟨δ, d0, d1, dY, _⟩ := rightShift_approx a hg.wf hg.nz hnd k hk1 (by omega)
      exact (near_of_delta _ hnz (hpos hg.nz hnd) _ δ d0 d1 dY).mono (aval_nonneg _) (by omega)

/-- **`Shift(k)`, any run**, `|k| ≤ 3840`: the result is `a · 2^k` up to at most 64 truncations -/
theorem shift_near (a : Decimal) (hg : Good0 a) (hnd : 1 ≤ a.nd) (k : ℤ) (hk1 : -3840 ≤ k) (hk2 : k ≤ 3840) :
    ∃ b, a.shift k = some b ∧ Good0 b ∧ 1 ≤ b.nd ∧ b.neg = a.neg ∧ Near 64 (aval b) (aval a * 2 ^ k) := by
  obtain ⟨b, hb, hgb, _, hbnd, _, hneg, _⟩ := shift_spec a hg k hk1 hk2
  refine ⟨b, hb, hgb, hbnd hnd, hneg, ?_⟩
  have hms : Gen.fpMaxShift = 60 := rfl
  simp only [Decimal.shift, hms] at hb
  have hb0 : ¬ ((a.nd == 0) = true) := by simp; omega
  rw [if_neg hb0] at hb
  by_cases hpos : k > 0
  · rw [if_pos hpos] at hb
    obtain ⟨b', hb', hn⟩ := goL_near 64 a k.toNat hg hnd (by omega) (by omega)
    rw [hb] at hb'; injection hb' with hb'; subst hb'
    rw [← zpow_natCast, Int.toNat_of_nonneg (by omega)] at hn
    exact hn
  · rw [if_neg hpos] at hb
    by_cases hneg' : k < 0
    · rw [if_pos hneg'] at hb
      injection hb with hb; subst hb
      have hn := goR_near 64 a (-k).toNat hg hnd (by omega) (by omega)
      have : (2 : ℚ) ^ k = (2 ^ (-k).toNat)⁻¹ := by
        rw [← zpow_natCast, Int.toNat_of_nonneg (by omega), zpow_neg, inv_inv]
      rw [this, ← div_eq_mul_inv]
      exact hn
    · rw [if_neg hneg'] at hb
      injection hb with hb; subst hb
      have hk0 : k = 0 := by omega
      subst hk0
      simp only [zpow_zero, mul_one]
      exact (Near.refl _ (aval_nonneg _)).mono (aval_nonneg _) (by omega)

/-! ## accumulated truncations stay negligible -/

theorem pow_eps_le : ∀ s : ℕ, 2 * (s : ℚ) * eps ≤ 1 → (1 + eps) ^ s ≤ 1 + 2 * (s : ℚ) * eps := by
  intro s
  induction s with
  | zero => intro _; simp
  | succ s ih =>
    intro h
    have he := eps_pos
    have hs : 2 * (s : ℚ) * eps ≤ 1 := by
      have : (s : ℚ) ≤ ((s + 1 : ℕ) : ℚ) := by push_cast; linarith
      nlinarith
    have := ih hs
    rw [pow_succ]
    push_cast at h ⊢
    have h2 : (1 + eps) ^ s * (1 + eps) ≤ (1 + 2 * (s : ℚ) * eps) * (1 + eps) :=
      mul_le_mul_of_nonneg_right this (by linarith)
    have hsq : 2 * (s : ℚ) * eps * eps ≤ eps := by nlinarith
    nlinarith

/-- up to 200 000 truncations change the value by less than a factor 2 -/
theorem pow_eps_le_two (s : ℕ) (hs : s ≤ 200000) : (1 + eps) ^ s ≤ 2 := by
  have hsq : (s : ℚ) ≤ 200000 := by exact_mod_cast hs
  have he : 2 * (200000 : ℚ) * eps ≤ 1 := by
    unfold eps
    rw [mul_one_div, div_le_one (by positivity)]
    calc (2 * 200000 : ℚ) ≤ 10 ^ 6 := by norm_num
      _ ≤ 10 ^ 799 := pow_le_pow_right₀ (by norm_num) (by norm_num)
  have h1 : 2 * (s : ℚ) * eps ≤ 1 := by
    have := eps_pos
    nlinarith
  have := pow_eps_le s h1
  linarith

/-- what `Near` says with the accumulated error bounded by 2 -/
theorem Near.half {s : ℕ} {y Y : ℚ} (h : Near s y Y) (hy : 0 ≤ y) (hs : s ≤ 200000) : y ≤ Y ∧ Y ≤ y * 2 :=
  ⟨h.1, le_trans h.2 (mul_le_mul_of_nonneg_left (pow_eps_le_two s hs) hy)⟩

/-! ## the scaling loops -/

theorem two_zpow_split (x y : ℤ) : (2 : ℚ) ^ (x + y) = 2 ^ x * 2 ^ y := zpow_add₀ (by norm_num) x y

/-- **`for a.dp > 0 { a.Shift(-n); exp += n }`** terminates within the model's budget for every decimal below `2^m`,
    `m < fuel`; the exponent stays bounded -/
theorem scaleDown_total : ∀ (fuel : ℕ) (a : Decimal) (exp : ℤ) (m : ℕ), Good0 a → 1 ≤ a.nd → aval a < 2 ^ m → m < fuel →
    ∃ a' exp', scaleDown fuel a exp = some (a', exp') ∧ Good0 a' ∧ 1 ≤ a'.nd ∧ a'.neg = a.neg ∧ a'.dp ≤ 0 ∧
      ((a' = a ∧ exp' = exp) ∨ ((2 : ℚ) ^ (-28 : ℤ) ≤ aval a' ∧ exp < exp' ∧ aval a' * 2 ^ (exp' - exp) ≤ aval a)) := by
  intro fuel
  induction fuel with
  | zero => intro a exp m _ _ _ h; omega
  | succ fuel ih =>
    intro a exp m hg hnd hm hf
    simp only [scaleDown]
    by_cases hdp : a.dp > 0
    · rw [if_pos hdp]
      obtain ⟨n1, n2⟩ := powtabAt_bounds a.dp.toNat
      generalize powtabAt a.dp.toNat = n at n1 n2
      obtain ⟨b, hb, hgb, hbnd, hbneg, hnear⟩ := shift_near a hg hnd (-(n : ℤ)) (by omega) (by omega)
      rw [hb]
      simp only []
      obtain ⟨u1, u2⟩ := hnear.half (aval_nonneg b) (by norm_num)
      -- a ≥ 1
      have ha1 : (1 : ℚ) ≤ aval a := by
        have := aval_ge_of_nz a hg.nz hnd
        have h1 : (1 : ℚ) ≤ 10 ^ (a.dp - 1) := one_le_zpow₀ (by norm_num) (by omega)
        linarith
      have hm1 : 1 ≤ m := by
        by_contra hcon
        have : m = 0 := by omega
        subst this
        simp at hm; linarith
      have hpn : (2 : ℚ) ^ (-(n : ℤ)) ≤ 2 ^ (-1 : ℤ) := zpow_le_zpow_right₀ (by norm_num) (by omega)
      have hpn' : (2 : ℚ) ^ (-27 : ℤ) ≤ 2 ^ (-(n : ℤ)) := zpow_le_zpow_right₀ (by norm_num) (by omega)
      have hpos : (0 : ℚ) < 2 ^ (-(n : ℤ)) := by positivity
      have hbm : aval b < 2 ^ (m - 1) := by
        have h2 : aval a * 2 ^ (-(n : ℤ)) ≤ aval a * 2 ^ (-1 : ℤ) := mul_le_mul_of_nonneg_left hpn (by linarith)
        have h3 : aval a * 2 ^ (-1 : ℤ) < 2 ^ m * 2 ^ (-1 : ℤ) := mul_lt_mul_of_pos_right hm (by positivity)
        have h4 : (2 : ℚ) ^ m * 2 ^ (-1 : ℤ) = 2 ^ (m - 1) := by
          rw [← zpow_natCast, ← zpow_natCast, ← zpow_add₀ (by norm_num)]
          congr 1; omega
        linarith
      have hblo : (2 : ℚ) ^ (-28 : ℤ) ≤ aval b := by
        have h2 : (1 : ℚ) * 2 ^ (-27 : ℤ) ≤ aval a * 2 ^ (-(n : ℤ)) := mul_le_mul ha1 hpn' (by positivity) (by linarith)
        have h3 : (2 : ℚ) ^ (-28 : ℤ) * 2 = 2 ^ (-27 : ℤ) := by
          rw [show (-27 : ℤ) = -28 + 1 by norm_num, two_zpow_split, zpow_one]
        linarith
      have hbn : aval b * 2 ^ (n : ℤ) ≤ aval a := by
        have h2 : aval b * 2 ^ (n : ℤ) ≤ aval a * 2 ^ (-(n : ℤ)) * 2 ^ (n : ℤ) := mul_le_mul_of_nonneg_right u1 (by positivity)
        have h3 : aval a * 2 ^ (-(n : ℤ)) * 2 ^ (n : ℤ) = aval a := by
          rw [mul_assoc, ← two_zpow_split]; simp
        linarith
      obtain ⟨a', exp', hs, hg', hnd', hneg', hdp', hcase⟩ := ih b (exp + n) (m - 1) hgb hbnd hbm (by omega)
      refine ⟨a', exp', hs, hg', hnd', by rw [hneg', hbneg], hdp', .inr ?_⟩
      rcases hcase with ⟨rfl, rfl⟩ | ⟨c1, c2, c3⟩
      · refine ⟨hblo, by omega, ?_⟩
        have : exp + (n : ℤ) - exp = (n : ℤ) := by ring
        rw [this]; exact hbn
      · refine ⟨c1, by omega, ?_⟩
        have : exp' - exp = (exp' - (exp + n)) + (n : ℤ) := by ring
        rw [this, two_zpow_split, ← mul_assoc]
        have h2 : aval a' * 2 ^ (exp' - (exp + ↑n)) * 2 ^ (n : ℤ) ≤ aval b * 2 ^ (n : ℤ) := mul_le_mul_of_nonneg_right c3 (by positivity)
        linarith
    · rw [if_neg hdp]
      exact ⟨a, exp, rfl, hg, hnd, rfl, by omega, .inl ⟨rfl, rfl⟩⟩

/-- **`for a.dp < 0 || a.dp == 0 && a.d[0] < '5' { a.Shift(n); exp -= n }`** terminates within the model's budget for every
    decimal of value at least `2^-L`, `L ≤ 2000`; the exponent stays bounded -/
theorem scaleUp_total (y0 : ℚ) (exp0 : ℤ) (L : ℕ) (hy0 : (2 : ℚ) ^ (-(L : ℤ)) ≤ y0) (hL : L ≤ 2000) :
    ∀ (fuel : ℕ) (a : Decimal) (exp : ℤ) (i : ℕ), Good0 a → 1 ≤ a.nd → a.dp ≤ 0 → i ≤ L → L < i + fuel →
      (i : ℤ) ≤ exp0 - exp → exp0 - exp ≤ L + 27 → y0 * 2 ^ (exp0 - exp) ≤ aval a * (1 + eps) ^ (64 * i) →
      ∃ a' exp', scaleUp fuel a exp = some (a', exp') ∧ Good0 a' ∧ 1 ≤ a'.nd ∧ a'.neg = a.neg ∧ a'.dp = 0 ∧ ¬ a'.d[0]! < 53 ∧
        exp' ≤ exp ∧ exp0 - exp' ≤ L + 27 := by
  have hy0pos : 0 < y0 := lt_of_lt_of_le (by positivity) hy0
  intro fuel
  induction fuel with
  | zero => intro a exp i _ _ _ h1 h2; omega
  | succ fuel ih =>
    intro a exp i hg hnd hdp hiL hfuel hi hexp hinv
    simp only [scaleUp]
    by_cases hc : (decide (a.dp < 0) || (a.dp == 0 && decide (a.d[0]! < 53))) = true
    · rw [if_pos hc]
      -- the value is below one half
      have hhalf : aval a < 1 / 2 := by
        simp only [Bool.or_eq_true, Bool.and_eq_true, decide_eq_true_eq, beq_iff_eq] at hc
        rcases hc with h | ⟨h1, h2⟩
        · have hlt := aval_lt_pow a hg.wf
          have h10 : (10 : ℚ) ^ a.dp ≤ 10 ^ (-1 : ℤ) := zpow_le_zpow_right₀ (by norm_num) (by omega)
          have h12 : (10 : ℚ) ^ (-1 : ℤ) < 1 / 2 := by norm_num
          exact lt_trans (lt_of_lt_of_le hlt h10) h12
        · exact aval_lt_half a hg.wf hnd h1 h2
      -- so the exponent has not moved far yet
      have h64 : (1 + eps) ^ (64 * i) ≤ 2 := pow_eps_le_two _ (by omega)
      have hlt : (2 : ℚ) ^ (exp0 - exp) < 2 ^ (L : ℤ) := by
        have h1 : y0 * 2 ^ (exp0 - exp) < y0 * 2 ^ (L : ℤ) := by
          calc y0 * 2 ^ (exp0 - exp) ≤ aval a * (1 + eps) ^ (64 * i) := hinv
            _ ≤ aval a * 2 := mul_le_mul_of_nonneg_left h64 (aval_nonneg a)
            _ < 1 := by linarith
            _ = 2 ^ (-(L : ℤ)) * 2 ^ (L : ℤ) := by rw [← two_zpow_split]; simp
            _ ≤ y0 * 2 ^ (L : ℤ) := mul_le_mul_of_nonneg_right hy0 (by positivity)
        exact lt_of_mul_lt_mul_left h1 hy0pos.le
      have hexpL : exp0 - exp < L := by
        by_contra hcon
        have : (2 : ℚ) ^ (L : ℤ) ≤ 2 ^ (exp0 - exp) := zpow_le_zpow_right₀ (by norm_num) (by omega)
        linarith
      obtain ⟨n1, n2⟩ := powtabAt_bounds (-a.dp).toNat
      have hprod : ((2 : ℚ) ^ (powtabAt (-a.dp).toNat : ℤ)) * aval a < 1 := by
        by_cases hd0 : a.dp = 0
        · rw [hd0]
          simp only [neg_zero, Int.toNat_zero, powtabAt_zero]
          norm_num; linarith
        · have hi1 : 1 ≤ (-a.dp).toNat := by omega
          have hpt := pow_powtab (-a.dp).toNat hi1
          have hptq : ((2 : ℚ) ^ (powtabAt (-a.dp).toNat : ℤ)) < 10 ^ ((-a.dp).toNat : ℤ) := by
            rw [zpow_natCast, zpow_natCast]; exact_mod_cast hpt
          have hav := aval_lt_pow a hg.wf
          have h10 : (10 : ℚ) ^ ((-a.dp).toNat : ℤ) * 10 ^ a.dp = 1 := by
            rw [← zpow_add₀ (by norm_num)]
            have : ((-a.dp).toNat : ℤ) + a.dp = 0 := by omega
            rw [this]; simp
          calc ((2 : ℚ) ^ (powtabAt (-a.dp).toNat : ℤ)) * aval a
              ≤ 10 ^ ((-a.dp).toNat : ℤ) * aval a := mul_le_mul_of_nonneg_right hptq.le (aval_nonneg a)
            _ < 10 ^ ((-a.dp).toNat : ℤ) * 10 ^ a.dp := mul_lt_mul_of_pos_left hav (by positivity)
            _ = 1 := h10
      generalize powtabAt (-a.dp).toNat = n at n1 n2 hprod
      obtain ⟨b, hb, hgb, hbnd, hbneg, hnear⟩ := shift_near a hg hnd ((n : ℕ) : ℤ) (by omega) (by omega)
      rw [hb]
      simp only []
      obtain ⟨v1, v2⟩ := hnear
      have hbdp : b.dp ≤ 0 := by
        have hlo := aval_ge_of_nz b hgb.nz hbnd
        have : aval b < 1 := by
          have : aval a * 2 ^ (n : ℤ) < 1 := by rw [mul_comm]; exact hprod
          linarith
        by_contra hcon
        have : (1 : ℚ) ≤ 10 ^ (b.dp - 1) := one_le_zpow₀ (by norm_num) (by omega)
        linarith
      have hinv' : y0 * 2 ^ (exp0 - (exp - n)) ≤ aval b * (1 + eps) ^ (64 * (i + 1)) := by
        have e1 : exp0 - (exp - (n : ℤ)) = (exp0 - exp) + (n : ℤ) := by ring
        have e2 : 64 * (i + 1) = 64 * i + 64 := by ring
        rw [e1, two_zpow_split, e2, pow_add, ← mul_assoc]
        have h1e : (0 : ℚ) ≤ (1 + eps) ^ (64 * i) := le_trans zero_le_one (one_le_one_add_eps_pow _)
        calc y0 * 2 ^ (exp0 - exp) * 2 ^ (n : ℤ) ≤ aval a * (1 + eps) ^ (64 * i) * 2 ^ (n : ℤ) :=
              mul_le_mul_of_nonneg_right hinv (by positivity)
          _ = (aval a * 2 ^ (n : ℤ)) * (1 + eps) ^ (64 * i) := by ring
          _ ≤ (aval b * (1 + eps) ^ 64) * (1 + eps) ^ (64 * i) := mul_le_mul_of_nonneg_right v2 h1e
          _ = aval b * ((1 + eps) ^ (64 * i) * (1 + eps) ^ 64) := by ring
      obtain ⟨a', exp', hs, hg', hnd', hneg', hdp', hd', hle, hbound⟩ := ih b (exp - n) (i + 1) hgb hbnd hbdp (by omega) (by omega)
        (by push_cast; omega) (by omega) hinv'
      exact ⟨a', exp', hs, hg', hnd', by rw [hneg', hbneg], hdp', hd', by omega, hbound⟩
    · rw [if_neg hc]
      simp only [Bool.or_eq_true, Bool.and_eq_true, decide_eq_true_eq, beq_iff_eq, not_or, not_and] at hc
      obtain ⟨c1, c2⟩ := hc
      have hd0 : a.dp = 0 := by omega
      exact ⟨a, exp, rfl, hg, hnd, rfl, hd0, c2 hd0, le_refl _, hexp⟩

/-! ## `floatBits` -/

set_option exponentiation.threshold 2000 in
theorem ten310 : (10 : ℚ) ^ (310 : ℤ) ≤ 2 ^ (1030 : ℕ) := by norm_num

/-- **the scaling part of `floatBits` never panics and stays within the model's budgets**, for every well-formed
    decimal in normal form (exact or truncated) -/
theorem prepare_total (a : Decimal) (hg : Good0 a) : ∃ res, a.prepare = some res := by
  have hm : Gen.fpMantBits = 52 := rfl
  have he : Gen.fpExpBits = 11 := rfl
  have hbi : Gen.fpBias = -1023 := rfl
  simp only [Decimal.prepare, hm, he, hbi]
  by_cases hnd0 : (a.nd == 0) = true
  · rw [if_pos hnd0]; exact ⟨_, rfl⟩
  rw [if_neg hnd0]
  by_cases hhi : a.dp > 310
  · rw [if_pos hhi]; exact ⟨_, rfl⟩
  rw [if_neg hhi]
  by_cases hlo : a.dp < -330
  · rw [if_pos hlo]; exact ⟨_, rfl⟩
  rw [if_neg hlo]
  have hnd : 1 ≤ a.nd := by
    have : a.nd ≠ 0 := by simpa using hnd0
    omega
  -- scale down
  have hlt : aval a < 2 ^ (1030 : ℕ) := by
    have h1 := aval_lt_pow a hg.wf
    have h2 : (10 : ℚ) ^ a.dp ≤ 10 ^ (310 : ℤ) := zpow_le_zpow_right₀ (by norm_num) (by omega)
    exact lt_of_lt_of_le h1 (le_trans h2 ten310)
  have halo : (2 : ℚ) ^ (-(1100 : ℕ) : ℤ) ≤ aval a := by
    have h1 := aval_ge_of_nz a hg.nz hnd
    have h2 : (10 : ℚ) ^ (-331 : ℤ) ≤ 10 ^ (a.dp - 1) := zpow_le_zpow_right₀ (by norm_num) (by omega)
    have h3 := small_pow
    have : ((-(1100 : ℕ) : ℤ)) = (-1100 : ℤ) := by norm_num
    rw [this]; linarith
  obtain ⟨a1, e1, h1, g1, n1, _, dp1, case1⟩ := scaleDown_total 2000 a 0 1030 hg hnd hlt (by norm_num)
  rw [h1]
  simp only []
  have he1 : 0 ≤ e1 ∧ e1 < 1058 ∧ (2 : ℚ) ^ (-(1100 : ℕ) : ℤ) ≤ aval a1 := by
    rcases case1 with ⟨rfl, rfl⟩ | ⟨c1, c2, c3⟩
    · exact ⟨le_refl _, by norm_num, halo⟩
    · refine ⟨by omega, ?_, ?_⟩
      · by_contra hcon
        have hp : (2 : ℚ) ^ (1058 : ℤ) ≤ 2 ^ (e1 - 0) := zpow_le_zpow_right₀ (by norm_num) (by omega)
        have h2 : (2 : ℚ) ^ (-28 : ℤ) * 2 ^ (1058 : ℤ) ≤ aval a1 * 2 ^ (e1 - 0) := mul_le_mul c1 hp (by positivity) (aval_nonneg a1)
        have h3 : (2 : ℚ) ^ (-28 : ℤ) * 2 ^ (1058 : ℤ) = 2 ^ (1030 : ℕ) := by
          rw [← two_zpow_split, ← zpow_natCast]; norm_num
        linarith
      · have : (2 : ℚ) ^ (-(1100 : ℕ) : ℤ) ≤ 2 ^ (-28 : ℤ) := zpow_le_zpow_right₀ (by norm_num) (by norm_num)
        linarith
  obtain ⟨e1lo, e1hi, y1lo⟩ := he1
  -- scale up
  obtain ⟨a2, e2, h2, g2, n2, _, dp2, d2, e2le, e2lo⟩ := scaleUp_total (aval a1) e1 1100 y1lo (by norm_num) 2000 a1 e1 0 g1 n1 dp1
    (by norm_num) (by norm_num) (by simp) (by simp) (by simp)
  rw [h2]
  simp only []
  -- the denormal adjustment
  generalize hr : (if e2 - 1 < -1023 + 1 then
        (match a2.shift (-(-1023 + 1 - (e2 - 1))) with
          | none => none
          | some a => some (a, e2 - 1 + (-1023 + 1 - (e2 - 1))))
      else some (a2, e2 - 1)) = r
  have hr' : ∃ a3 exp3, r = some (a3, exp3) ∧ Good0 a3 := by
    rw [← hr]
    by_cases hden : e2 - 1 < -1023 + 1
    · rw [if_pos hden]
      obtain ⟨b, hb, hgb, _⟩ := shift_spec a2 g2 (-(-1023 + 1 - (e2 - 1))) (by push_cast at e2lo; omega) (by omega)
      rw [hb]
      exact ⟨b, _, rfl, hgb⟩
    · rw [if_neg hden]
      exact ⟨a2, _, rfl, g2⟩
  obtain ⟨a3, exp3, hr3, g3⟩ := hr'
  rw [hr3]
  simp only []
  by_cases hov : exp3 - -1023 ≥ ((2 ^ 11 : ℕ) : ℤ) - 1
  · rw [if_pos hov]; exact ⟨_, rfl⟩
  · rw [if_neg hov]
    obtain ⟨b, hb, _⟩ := shift_spec a3 g3 ((1 + 52 : ℕ) : ℤ) (by norm_num) (by norm_num)
    rw [hb]
    exact ⟨_, rfl⟩

/-- **`floatBits` returns for every well-formed decimal in normal form** -/
theorem floatBits_total (a : Decimal) (hg : Good0 a) : ∃ r, a.floatBits = some r := by
  obtain ⟨res, h⟩ := prepare_total a hg
  simp only [Decimal.floatBits, h]
  cases res <;> exact ⟨_, rfl⟩

end RJson.Dec
