import RJson.Proofs.ScannerChars
import RJson.Proofs.SkipValue
/-!
# What the reference scanner leaves over is a suffix, and containers / strings end with their closing byte
-/
namespace RJson.Spec
open RJson.Abs RJson.HelpersSpec

theorem Pre.suffix {P : UInt8 → Bool} {l r : List UInt8} (h : Pre P l r) : r <:+ l := by
  obtain ⟨pre, rfl, _⟩ := h
  exact List.suffix_append pre r

/-- a recognised string body ends with the closing quote -/
theorem strScanT_closing : ∀ (l : List UInt8) (t : Tok) (r : List UInt8), strScanT t l = some r → (34 :: r) <:+ l := by
  intro l
  induction l with
  | nil => intro t r h; cases t <;> simp [strScanT] at h
  | cons x rest ih =>
    intro t r h
    have step : ∀ t', strScanT t' rest = some r → (34 :: r) <:+ (x :: rest) :=
      fun t' h' => List.IsSuffix.trans (ih t' r h') (List.suffix_cons x rest)
    cases t with
    | str =>
      simp only [strScanT] at h
      split at h
      · next hx =>
        injection h with h; subst h
        have : x = 34 := by simpa using hx
        subst this
        exact List.suffix_refl _
      · split at h
        · exact step _ h
        · split at h
          · cases h
          · exact step _ h
    | esc =>
      simp only [strScanT] at h
      split at h
      · exact step _ h
      · split at h
        · exact step _ h
        · cases h
    | u n =>
      simp only [strScanT] at h
      split at h
      · exact step _ h
      · cases h
    | lit _ _ => simp [strScanT] at h
    | minus => simp [strScanT] at h
    | zero => simp [strScanT] at h
    | int => simp [strScanT] at h
    | fracStart => simp [strScanT] at h
    | frac => simp [strScanT] at h
    | expStart => simp [strScanT] at h
    | expSign => simp [strScanT] at h
    | exp => simp [strScanT] at h

theorem scanStringBody_closing (l r : List UInt8) (h : scanStringBody l = some r) : (34 :: r) <:+ l := by
  rw [← strScanT_str] at h
  exact strScanT_closing l .str r h

theorem suffix_of_cons_suffix {a : UInt8} {r l : List UInt8} (h : (a :: r) <:+ l) : r <:+ l :=
  List.IsSuffix.trans (List.suffix_cons a r) h

theorem scanLit_suffix (lit l r : List UInt8) (h : scanLit lit l = some r) : r <:+ l :=
  (scanLit_pre lit l r h).suffix

theorem skipWs_suffix (l : List UInt8) : skipWs l <:+ l := (skipWs_pre l).suffix

/-- suffix / closing-byte facts for the three mutually recursive scanners -/
theorem scan_suffix (md : Option Nat) : ∀ (fuel : Nat),
    (∀ d l r, scanValue md fuel d l = some r → r <:+ l) ∧
    (∀ d first l r, scanArr md fuel d first l = some r → (93 :: r) <:+ l) ∧
    (∀ d first l r, scanObj md fuel d first l = some r → (125 :: r) <:+ l) := by
  intro fuel
  induction fuel with
  | zero =>
    refine ⟨?_, ?_, ?_⟩
    · intro d l r h; simp [scanValue] at h
    · intro d first l r h; simp [scanArr] at h
    · intro d first l r h; simp [scanObj] at h
  | succ fuel ih =>
    obtain ⟨ihV, ihA, ihO⟩ := ih
    refine ⟨?_, ?_, ?_⟩
    · intro d l r h
      cases l with
      | nil => simp [scanValue] at h
      | cons b rest =>
        simp only [scanValue] at h
        have up : ∀ {x : List UInt8}, x <:+ rest → x <:+ (b :: rest) := fun hx => List.IsSuffix.trans hx (List.suffix_cons b rest)
        split at h
        · exact up (suffix_of_cons_suffix (scanStringBody_closing rest r h))
        · split at h
          · exact up (scanLit_suffix _ rest r h)
          · split at h
            · exact up (scanLit_suffix _ rest r h)
            · split at h
              · exact up (scanLit_suffix _ rest r h)
              · split at h
                · split at h
                  · cases h
                  · exact up (suffix_of_cons_suffix (ihA _ _ rest r h))
                · split at h
                  · split at h
                    · cases h
                    · exact up (suffix_of_cons_suffix (ihO _ _ rest r h))
                  · exact (scanNumber_pre _ r h).suffix
    · intro d first l r h
      simp only [scanArr] at h
      have hws := skipWs_suffix l
      cases hsk : skipWs l with
      | nil => rw [hsk] at h; simp at h
      | cons b rest =>
        rw [hsk] at h hws
        simp only [] at h
        split at h
        · next hb =>
          injection h with h; subst h
          have : b = 93 := by simpa using hb
          subst this
          exact hws
        · split at h
          · cases hv : scanValue md fuel d (b :: rest) with
            | none => rw [hv] at h; simp at h
            | some r1 =>
              rw [hv] at h
              simp only [] at h
              exact List.IsSuffix.trans (ihA _ _ _ _ h) (List.IsSuffix.trans (ihV _ _ _ hv) hws)
          · split at h
            · cases hv : scanValue md fuel d (skipWs rest) with
              | none => rw [hv] at h; simp at h
              | some r1 =>
                rw [hv] at h
                simp only [] at h
                exact List.IsSuffix.trans (ihA _ _ _ _ h) (List.IsSuffix.trans (ihV _ _ _ hv)
                  (List.IsSuffix.trans (skipWs_suffix rest) (List.IsSuffix.trans (List.suffix_cons b rest) hws)))
            · cases h
    · intro d first l r h
      rw [scanObj_succ] at h
      have hws := skipWs_suffix l
      cases hsk : skipWs l with
      | nil => rw [hsk] at h; simp at h
      | cons b rest =>
        rw [hsk] at h hws
        simp only [] at h
        have key : ∀ x, x <:+ (b :: rest) → objKey md fuel d x = some r → (125 :: r) <:+ l := by
          intro x hx hk
          cases x with
          | nil => rw [objKey_nil] at hk; cases hk
          | cons q krest =>
            by_cases hq : q = 34
            · subst hq
              rw [objKey_34] at hk
              simp only [memberThen] at hk
              cases hs1 : scanStringBody krest with
              | none => rw [hs1] at hk; cases hk
              | some r1 =>
                rw [hs1] at hk
                simp only [] at hk
                have s1 := suffix_of_cons_suffix (scanStringBody_closing _ _ hs1)
                have sw1 := skipWs_suffix r1
                cases hsk1 : skipWs r1 with
                | nil => rw [hsk1, colonThen_nil] at hk; cases hk
                | cons b2 r2 =>
                  rw [hsk1] at hk sw1
                  by_cases h58 : b2 = 58
                  · subst h58
                    rw [colonThen_58] at hk
                    cases hv : scanValue md fuel d (skipWs r2) with
                    | none => rw [hv] at hk; cases hk
                    | some r3 =>
                      rw [hv] at hk
                      simp only [] at hk
                      have c1 := ihO _ _ _ _ hk
                      have c2 := ihV _ _ _ hv
                      have c3 := skipWs_suffix r2
                      exact List.IsSuffix.trans c1 (List.IsSuffix.trans c2 (List.IsSuffix.trans c3
                        (List.IsSuffix.trans (List.suffix_cons 58 r2) (List.IsSuffix.trans sw1 (List.IsSuffix.trans s1
                          (List.IsSuffix.trans (List.suffix_cons 34 krest) (List.IsSuffix.trans hx hws)))))))
                  · rw [colonThen_other _ _ _ b2 r2 h58] at hk; cases hk
            · rw [objKey_other _ _ _ q krest hq] at hk; cases hk
        split at h
        · next hb =>
          injection h with h; subst h
          have : b = 125 := by simpa using hb
          subst this
          exact hws
        · split at h
          · exact key _ (List.suffix_refl _) h
          · split at h
            · exact key _ (List.IsSuffix.trans (skipWs_suffix rest) (List.suffix_cons b rest)) h
            · cases h

end RJson.Spec
