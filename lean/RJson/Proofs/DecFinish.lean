import RJson.Proofs.DecRound
/-!
# The rounding part of `floatBits` (`RoundedInteger`, mantissa carry, denormal flag, assembly) is `Spec.roundRat`
-/
namespace RJson.Dec
open RJson.FP RJson.Spec RJson.RoundRat

theorem assemble_eq (mant biased : ℕ) (neg : Bool) (hb : biased ≤ 2047) :
    assemble mant ((biased : ℤ) - 1023) neg = signBit neg + biased * 2 ^ 52 + mant % 2 ^ 52 := by
  have hm : Gen.fpMantBits = 52 := rfl
  have he : Gen.fpExpBits = 11 := rfl
  have hbi : Gen.fpBias = -1023 := rfl
  simp only [assemble, hm, he, hbi]
  have he2 : (((biased : ℤ) - 1023 - -1023) % ((2 ^ 11 : ℕ) : ℤ)).toNat = biased := by
    have : ((2 ^ 11 : ℕ) : ℤ) = 2048 := by norm_num
    rw [this]; omega
  rw [he2]
  have hlt : mant % 2 ^ 52 < 2 ^ 52 := Nat.mod_lt _ (by positivity)
  have h1 : mant % 2 ^ 52 ||| biased <<< 52 = biased * 2 ^ 52 + mant % 2 ^ 52 := by
    rw [Nat.or_comm, ← Nat.shiftLeft_add_eq_or_of_lt hlt, Nat.shiftLeft_eq]
  rw [h1]
  cases neg with
  | false => simp [signBit]
  | true =>
    have h63 : (1 <<< 52 <<< 11 : ℕ) = 1 <<< 63 := by norm_num [Nat.shiftLeft_eq]
    have hlt2 : biased * 2 ^ 52 + mant % 2 ^ 52 < 2 ^ 63 := by
      have : biased * 2 ^ 52 ≤ 2047 * 2 ^ 52 := Nat.mul_le_mul_right _ hb
      have h2 : (2047 * 2 ^ 52 + 2 ^ 52 : ℕ) = 2 ^ 63 := by norm_num
      omega
    simp only [if_true, h63]
    rw [Nat.or_comm, ← Nat.shiftLeft_add_eq_or_of_lt hlt2]
    simp [signBit, Nat.shiftLeft_eq]
    omega

theorem rhe_bounds' (q c : ℕ) : q ≤ roundHalfEven q c ∧ roundHalfEven q c ≤ q + 1 := by
  simp only [roundHalfEven]
  split
  · omega
  · split
    · split <;> omega
    · omega

theorem and_pow52 (m : Nat) (h : m < 2 ^ 53) : (m &&& 2 ^ 52 = 0) ↔ m < 2 ^ 52 := by
  constructor
  · intro h0
    by_contra hge
    have hb : m.testBit 52 = true := Nat.testBit_of_two_pow_le_and_two_pow_add_one_gt (by omega) h
    have : (m &&& 2 ^ 52).testBit 52 = true := by
      rw [Nat.testBit_and, hb, Nat.testBit_two_pow]; simp
    rw [h0] at this
    simp at this
  · intro hlt
    apply Nat.eq_of_testBit_eq
    intro i
    rw [Nat.testBit_and, Nat.testBit_two_pow, Nat.zero_testBit]
    by_cases hi : 52 = i
    · subst hi
      rw [Nat.testBit_lt_two_pow hlt]; rfl
    · simp [hi]

theorem aval_ge_of_nz (a : Decimal) (hnz : NZ a) (hnd : 1 ≤ a.nd) : (10 : ℚ) ^ (a.dp - 1) ≤ aval a := by
  have h1 := val_ge_of_lead' a.d (hnz hnd) a.nd hnd
  have h1q : ((10 ^ (a.nd - 1) : ℕ) : ℚ) ≤ (val a.d a.nd : ℚ) := by exact_mod_cast h1
  push_cast at h1q
  simp only [aval]
  have hp : (0 : ℚ) < 10 ^ (a.dp - (a.nd : ℤ)) := by positivity
  calc (10 : ℚ) ^ (a.dp - 1) = 10 ^ (a.nd - 1) * 10 ^ (a.dp - (a.nd : ℤ)) := by
        rw [← zpow_natCast, ← zpow_add₀ (by norm_num)]
        congr 1
        have : ((a.nd - 1 : ℕ) : ℤ) = (a.nd : ℤ) - 1 := by omega
        rw [this]; ring
    _ ≤ (val a.d a.nd : ℚ) * 10 ^ (a.dp - (a.nd : ℤ)) := mul_le_mul_of_nonneg_right h1q hp.le

set_option maxRecDepth 100000 in
/-- the rounding part of `floatBits`, from what `RoundedInteger` returned: if that is the round-half-even of the value's
    quotient and remainder class at `2^(exp-52)`, `finish` returns what `Spec.roundRat` returns -/
theorem finish_core (a : Decimal) (exp : ℤ) (n d : ℕ) (hn : n ≠ 0) (hd : d ≠ 0) (q c : ℕ)
    (hri : a.roundedInteger = roundHalfEven q c)
    (hqx : IsQ ((n : ℚ) / d) (exp - 52) q) (hcx : IsC ((n : ℚ) / d) (exp - 52) q c)
    (hq53 : q < 2 ^ 53) (hq52 : -1022 < exp → 2 ^ 52 ≤ q) (hexp1 : -1022 ≤ exp) (hexp2 : exp ≤ 1023) :
    roundRat a.neg n d = a.finish exp := by
  obtain ⟨r1, r2⟩ := rhe_bounds' q c
  -- unfold the code
  have hm : Gen.fpMantBits = 52 := rfl
  have he : Gen.fpExpBits = 11 := rfl
  have hbi : Gen.fpBias = -1023 := rfl
  simp only [Decimal.finish, hm, he, hbi, hri]
  have h253 : (2 <<< 52 : ℕ) = 2 ^ 53 := by norm_num [Nat.shiftLeft_eq]
  have h152 : (1 <<< 52 : ℕ) = 2 ^ 52 := by norm_num [Nat.shiftLeft_eq]
  rw [h253, h152]
  generalize hM : roundHalfEven q c = M at r1 r2
  by_cases hnormal : 2 ^ 52 ≤ q
  · -- a normal number
    rw [roundRat_of_isQ a.neg n d hn hd (exp - 52) (by omega) q c hqx hcx hnormal hq53]
    simp only [roundAt, hM]
    by_cases hcarry : M = 2 ^ 53
    · rw [if_pos (beq_iff_eq.mpr hcarry), if_pos (beq_iff_eq.mpr hcarry)]
      simp only []
      rw [if_neg (Nat.lt_irrefl _)]
      by_cases hov : exp - 52 + 1 + 1075 ≥ 2047
      · rw [if_pos hov]
        have : decide (exp + 1 - -1023 ≥ ((2 ^ 11 : ℕ) : ℤ) - 1) = true := by
          apply decide_eq_true; norm_num; omega
        rw [this]
        simp only [if_true]
        have := assemble_eq 0 2047 a.neg (by norm_num)
        have he2 : ((2047 : ℕ) : ℤ) - 1023 = ((2 ^ 11 : ℕ) : ℤ) - 1 + -1023 := by norm_num
        rw [he2] at this
        rw [this]; simp
      · rw [if_neg hov]
        have : decide (exp + 1 - -1023 ≥ ((2 ^ 11 : ℕ) : ℤ) - 1) = false := by
          apply decide_eq_false; norm_num; omega
        rw [this]
        simp only [Bool.false_eq_true, if_false]
        rw [hcarry]
        have hsh : (2 ^ 53 >>> 1 : ℕ) = 2 ^ 52 := by norm_num [Nat.shiftRight_eq_div_pow]
        rw [hsh]
        have hand : ¬ ((2 ^ 52 &&& 2 ^ 52 == 0) = true) := by norm_num
        rw [if_neg hand]
        obtain ⟨b, hb1, hb2⟩ : ∃ b : ℕ, (b : ℤ) = exp + 1 + 1023 ∧ b ≤ 2046 := ⟨(exp + 1 + 1023).toNat, by omega, by omega⟩
        have hexpb : exp + 1 = (b : ℤ) - 1023 := by omega
        rw [hexpb, assemble_eq (2 ^ 52) b a.neg (by omega)]
        have hbb : (exp - 52 + 1 + 1075).toNat = b := by omega
        rw [hbb]
        norm_num
    · have hcb : ¬ ((M == 2 ^ 53) = true) := by simpa using hcarry
      rw [if_neg hcb, if_neg hcb]
      simp only [Bool.false_eq_true, if_false]
      have hM52 : 2 ^ 52 ≤ M := by omega
      have hM53 : M < 2 ^ 53 := by omega
      rw [if_neg (Nat.not_lt.mpr hM52)]
      have hov : ¬ (exp - 52 + 1075 ≥ 2047) := by omega
      rw [if_neg hov]
      have hand : ¬ ((M &&& 2 ^ 52 == 0) = true) := by
        intro hh
        have := (and_pow52 M hM53).mp (by simpa using hh)
        omega
      rw [if_neg hand]
      obtain ⟨b, hb1, hb2⟩ : ∃ b : ℕ, (b : ℤ) = exp + 1023 ∧ b ≤ 2046 := ⟨(exp + 1023).toNat, by omega, by omega⟩
      have hexpb : exp = (b : ℤ) - 1023 := by omega
      rw [hexpb, assemble_eq M b a.neg (by omega)]
      have hbb : ((b : ℤ) - 1023 - 52 + 1075).toNat = b := by omega
      rw [hbb]
      have : M % 2 ^ 52 = M - 2 ^ 52 := by omega
      rw [this]
  · -- a subnormal number (or one that rounds up to the smallest normal)
    have hexp : exp = -1022 := by
      by_contra hcon
      exact hnormal (hq52 (by omega))
    subst hexp
    have hqlt : q < 2 ^ 52 := by omega
    have he74 : (-1022 : ℤ) - 52 = -1074 := by norm_num
    rw [he74] at hqx hcx
    rw [roundRat_sub a.neg n d hn hd q c hqx hcx hqlt]
    simp only [roundAt, hM]
    have hM52 : M ≤ 2 ^ 52 := by omega
    have hcb : ¬ ((M == 2 ^ 53) = true) := by
      have : M ≠ 2 ^ 53 := by omega
      simpa using this
    rw [if_neg hcb, if_neg hcb]
    simp only [Bool.false_eq_true, if_false]
    by_cases hsub : M < 2 ^ 52
    · rw [if_pos hsub]
      have hand : (M &&& 2 ^ 52 == 0) = true := by
        have := (and_pow52 M (by omega)).mpr hsub
        simpa using this
      rw [if_pos hand]
      have := assemble_eq M 0 a.neg (by norm_num)
      simp only [Nat.cast_zero, Int.zero_sub, Nat.zero_mul, Nat.add_zero] at this
      rw [this, Nat.mod_eq_of_lt hsub]
    · rw [if_neg hsub]
      have hMeq : M = 2 ^ 52 := by omega
      rw [hMeq]
      have hand : ¬ ((2 ^ 52 &&& 2 ^ 52 == 0) = true) := by norm_num
      rw [if_neg hand]
      have hov : ¬ ((-1074 : ℤ) + 1075 ≥ 2047) := by norm_num
      rw [if_neg hov]
      have := assemble_eq (2 ^ 52) 1 a.neg (by norm_num)
      have he1 : ((1 : ℕ) : ℤ) - 1023 = -1022 := by norm_num
      rw [he1] at this
      rw [this]
      norm_num

/-- **the rounding part of `floatBits`**: for an exact decimal `a` holding the value scaled by `2^(52 - exp)`, with the
    exponent in range and the mantissa below `2^53` (at least `2^52` unless the exponent is the smallest one),
    `finish` returns what `Spec.roundRat` returns -/
theorem finish_spec (a : Decimal) (exp : ℤ) (hg : Good a) (hnd : 1 ≤ a.nd) (htr : a.trunc = false) (n d : ℕ) (hn : n ≠ 0) (hd : d ≠ 0)
    (hx : (n : ℚ) / d = aval a * 2 ^ (exp - 52)) (hexp1 : -1022 ≤ exp) (hexp2 : exp ≤ 1023)
    (hlt : aval a < 2 ^ 53) (hnorm : -1022 < exp → 2 ^ 52 ≤ aval a) :
    roundRat a.neg n d = a.finish exp := by
  -- the decimal point is within the first 16 digits
  have hdp : a.dp ≤ 19 := by
    by_contra hcon
    have h1 := aval_ge_of_nz a hg.nz hnd
    have h2 : (10 : ℚ) ^ (19 : ℤ) ≤ 10 ^ (a.dp - 1) := zpow_le_zpow_right₀ (by norm_num) (by omega)
    have h3 : (2 : ℚ) ^ 53 < 10 ^ (19 : ℤ) := by norm_num
    linarith
  obtain ⟨q, c, hq, hc, hri⟩ := roundedInteger_spec a hg.wf hg.tm htr hdp
  have hpe := two_zpow_pos (exp - 52)
  simp only [IsQ, zpow_zero, mul_one] at hq
  -- quotient and remainder class of the value itself
  have hqx : IsQ ((n : ℚ) / d) (exp - 52) q := by
    rw [hx]
    exact ⟨mul_le_mul_of_nonneg_right hq.1 hpe.le, mul_lt_mul_of_pos_right hq.2 hpe⟩
  have hcx : IsC ((n : ℚ) / d) (exp - 52) q c := by
    rw [hx]
    rcases hc with ⟨rfl, h1⟩ | ⟨rfl, h1, h2⟩ | ⟨rfl, h1⟩ | ⟨rfl, h1⟩
    · left; simp only [zpow_zero, mul_one] at h1; exact ⟨rfl, by rw [h1]⟩
    · right; left; simp only [zpow_zero, mul_one] at h1 h2
      exact ⟨rfl, mul_lt_mul_of_pos_right h1 hpe, mul_lt_mul_of_pos_right h2 hpe⟩
    · right; right; left; simp only [zpow_zero, mul_one] at h1; exact ⟨rfl, by rw [h1]⟩
    · right; right; right; simp only [zpow_zero, mul_one] at h1
      exact ⟨rfl, mul_lt_mul_of_pos_right h1 hpe⟩
  have hq53 : q < 2 ^ 53 := by
    have : (q : ℚ) < 2 ^ 53 := lt_of_le_of_lt hq.1 hlt
    exact_mod_cast this
  have hq52 : -1022 < exp → 2 ^ 52 ≤ q := by
    intro hh
    have h1 := hnorm hh
    have : (2 : ℚ) ^ 52 < (q : ℚ) + 1 := lt_of_le_of_lt h1 hq.2
    have h2 : (2 ^ 52 : ℕ) < q + 1 := by exact_mod_cast this
    omega
  exact finish_core a exp n d hn hd q c hri hqx hcx hq53 hq52 hexp1 hexp2

end RJson.Dec
