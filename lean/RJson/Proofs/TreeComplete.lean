import RJson.Proofs.TreeRead
import RJson.Props.C10Float
/-!
# Completeness of the generic decoder: every value that has a tree is accepted

The converse of `Proofs/TreeRead.lean`. `Tree.treeOf f text = some v` says: the first value of `text` is well-formed,
nested at most `f` deep, and every number in it converts without overflow. Then a reader at depth `depth` with
`depth + f ≤ valueReaderMaxDepth + 1` succeeds (no error, no panic) — with `TreeRead` the value it returns is `v`.
-/
namespace RJson.Tree
open RJson.Spec RJson.Model RJson.Ragel RJson.Abs RJson.VR

/-- success of a reader call -/
def OKR (r : R Model.JVal) : Prop := r.err = none ∧ r.panicked = false

/-- a number starts with `-` or a digit -/
theorem scanNumber_head (b : UInt8) (k rest : List UInt8) (h : scanNumber (b :: k) = some rest) : (b == 45 || isDigit b) = true := by
  obtain ⟨neg, ip, fp, ec, sg, eds, hs⟩ := NumShape.shape_of_scan _ _ h
  have heq := hs.eq
  cases neg with
  | true =>
    simp only [if_true, List.cons_append, List.nil_append] at heq
    injection heq with h1 _
    simp [h1]
  | false =>
    simp only [Bool.false_eq_true, if_false, List.nil_append] at heq
    cases hip : ip with
    | nil => exact absurd hip hs.ipNe
    | cons d ds =>
      rw [hip] at heq
      simp only [List.cons_append] at heq
      injection heq with h1 _
      have := hs.ipDigits d (by rw [hip]; simp)
      rw [h1, this]; simp

/-- a scalar member that has a tree is read without error -/
theorem readSimpleValue_complete (f : Nat) (sub : Bytes) (hsm : Small sub) (b : UInt8) (k : List UInt8)
    (hsk : skipWs sub.toList = b :: k) (h91 : (b == 91) = false) (h123 : (b == 123) = false)
    (v : Model.JVal) (ht : treeOf f sub.toList = some v) :
    OKR (Model.readSimpleValue sub (Spec.tokenType b)) := by
  rw [treeOf_scalar f _ b k hsk h91 h123] at ht
  simp only [Model.readSimpleValue, OKR]
  by_cases h34 : (b == 34) = true
  · have hb : b = 34 := by simpa using h34
    subst hb
    have htt : Spec.tokenType 34 = 2 := by decide
    simp only [htt]
    simp only [beq_self_eq_true, if_true] at ht
    have key := C06.readStringBytes_spec sub hsm #[]
    rw [StrRead.readString_34 _ k hsk] at key
    cases hsp : splitString k with
    | none => rw [hsp] at ht; cases ht
    | some pr =>
      obtain ⟨body, rest⟩ := pr
      rw [hsp] at key
      simp only [] at key
      exact ⟨key.1, key.2.1⟩
  · simp only [h34, Bool.false_eq_true, if_false] at ht
    by_cases h116 : (b == 116) = true
    · have hb : b = 116 := by simpa using h116
      subst hb
      have htt : Spec.tokenType 116 = 4 := by decide
      simp only [htt]
      simp only [beq_self_eq_true, if_true] at ht
      have key := C13.readBool_spec sub hsm
      rw [hsk, scanLit_cons_cons, scanLit_cons_cons] at key
      simp only [beq_self_eq_true, if_true] at key
      cases hs : scanLit [114, 117, 101] k with
      | none => rw [hs] at ht; cases ht
      | some rest => rw [hs] at key; exact ⟨key.1, key.2.2.2⟩
    · simp only [h116, Bool.false_eq_true, if_false] at ht
      by_cases h102 : (b == 102) = true
      · have hb : b = 102 := by simpa using h102
        subst hb
        have htt : Spec.tokenType 102 = 5 := by decide
        simp only [htt]
        simp only [beq_self_eq_true, if_true] at ht
        have key := C13.readBool_spec sub hsm
        rw [hsk, scanLit_cons_cons, scanLit_cons_cons] at key
        have hx2 : ((102 : UInt8) == 116) = false := by decide
        simp only [hx2, Bool.false_eq_true, if_false, beq_self_eq_true, if_true] at key
        cases hs : scanLit [97, 108, 115, 101] k with
        | none => rw [hs] at ht; cases ht
        | some rest => rw [hs] at key; exact ⟨key.1, key.2.2.2⟩
      · simp only [h102, Bool.false_eq_true, if_false] at ht
        by_cases h110 : (b == 110) = true
        · have hb : b = 110 := by simpa using h110
          subst hb
          have htt : Spec.tokenType 110 = 1 := by decide
          simp only [htt]
          simp only [beq_self_eq_true, if_true] at ht
          have key := C13.readNull_spec sub hsm
          rw [hsk, scanLit_cons_cons] at key
          simp only [beq_self_eq_true, if_true] at key
          cases hs : scanLit [117, 108, 108] k with
          | none => rw [hs] at ht; cases ht
          | some rest => rw [hs] at key; exact ⟨key.1, key.2.2⟩
        · simp only [h110, Bool.false_eq_true, if_false, h91, h123] at ht
          -- a number: `numOf` answered, so the byte is a number start and the parser reports no error
          cases hno : numOf (b :: k) with
          | none => rw [hno] at ht; cases ht
          | some bits =>
            have hperr : (FP.parse (b :: k).toArray).err = false := by
              simp only [numOf] at hno
              cases hh : (FP.parse (b :: k).toArray).err with
              | false => rfl
              | true => simp [hh] at hno
            -- no error means the head is a JSON number, so `b` is `-` or a digit
            obtain ⟨rest, hscan, _⟩ := FloatSyntax.parse_ok_syntax (b :: k).toArray hperr
            have hb3 : Spec.tokenType b = 3 := by
              have hnum : (b == 45 || isDigit b) = true := by
                simp only [List.toList_toArray] at hscan
                exact scanNumber_head b k rest hscan
              simp only [Spec.tokenType, h110, h34, hnum, Bool.false_eq_true, if_false, if_true]
            simp only [hb3]
            have hcw := countWhitespace_spec sub
            have hwl := skipWs_length_le' sub.toList
            simp only [Array.length_toList] at hwl
            have hend : (sub.size - (skipWs sub.toList).length == sub.size) = false := by
              rw [hsk] at hwl ⊢
              simp only [List.length_cons] at hwl ⊢
              simp; omega
            have hl : (sub.extract (sub.size - (skipWs sub.toList).length) sub.size) = (b :: k).toArray := by
              apply Array.ext'
              rw [extract_toList, List.take_of_length_le (by simp)]
              have := C13Aux.drop_skipWs sub.toList
              simp only [Array.length_toList] at this
              rw [this, hsk]
            have hnp := (C10.parse_total (b :: k).toArray).1
            simp only [Model.readFloat64, hcw, hend, Bool.false_eq_true, if_false, hl, hperr]
            refine ⟨by simp, ?_⟩
            cases hpp : (FP.parse (b :: k).toArray).path <;> first | rfl | exact absurd hpp hnp

/-- a level of readers accepts every container that has a tree within the depth budget -/
def CompLevel (rd : Readers) (F : Nat) : Prop :=
  ∀ (f : Nat), f ≤ F → ∀ (depth : Nat) (data : Bytes), Small data → depth + f ≤ Gen.valueReaderMaxDepth + 1 →
    ∀ v, treeOf f data.toList = some v →
      (∀ k, skipWs data.toList = 123 :: k → OKR (rd.1 depth data)) ∧ (∀ k, skipWs data.toList = 91 :: k → OKR (rd.2 depth data))

theorem treeOf_zero_arr (data k : List UInt8) (hsk : skipWs data = 91 :: k) : treeOf 0 data = none := by
  simp only [treeOf, hsk]; rfl

theorem treeOf_zero_obj (data k : List UInt8) (hsk : skipWs data = 123 :: k) : treeOf 0 data = none := by
  simp only [treeOf, hsk]; rfl

theorem tokenType_123 : Spec.tokenType 123 = 6 := by decide
theorem tokenType_91 : Spec.tokenType 91 = 8 := by decide

/-- `handleMember` on a member that has a tree -/
theorem handleMember_complete (prev : Readers) (F : Nat) (hc : CompLevel prev F) (f : Nat) (hf : f ≤ F) (depth : Nat)
    (suffix : Bytes) (hsm : Small suffix) (b : UInt8) (t : List UInt8) (hsuf : suffix.toList = b :: t) (hws : isWs b = false)
    (hd : depth + 1 + f ≤ Gen.valueReaderMaxDepth + 1) (v : Model.JVal) (ht : treeOf f suffix.toList = some v) :
    OKR (Model.handleMember prev depth suffix) := by
  have hnt := C13.nextTokenType_spec suffix
  have hsk : skipWs suffix.toList = b :: t := by rw [hsuf]; exact C05.skipWs_of_not_ws b t hws
  simp only [Model.handleMember, OKR]
  rw [hnt]
  simp only [Spec.nextTokenType, hsk]
  have hlen : suffix.toList.length - t.length - 1 = 0 := by rw [hsuf]; simp
  rw [hlen]
  have hsub : Array.extract suffix 0 = suffix := by simp
  rw [hsub]
  obtain ⟨_, _, _, _, i6, i8⟩ := tokenType_inv b
  by_cases h6 : (Spec.tokenType b == 6) = true
  · have hb := i6 h6
    subst hb
    have hf1 : 1 ≤ f := by
      by_contra hcon
      have : f = 0 := by omega
      subst this
      rw [treeOf_zero_obj _ t hsk] at ht; cases ht
    have hdd : ¬ depth + 1 > Gen.valueReaderMaxDepth := by omega
    simp only [h6, if_true, hdd, if_false]
    exact ((hc f hf (depth + 1) suffix hsm (by omega) v ht).1 t hsk)
  · simp only [h6, Bool.false_eq_true, if_false]
    by_cases h8 : (Spec.tokenType b == 8) = true
    · have hb := i8 h8
      subst hb
      have hf1 : 1 ≤ f := by
        by_contra hcon
        have : f = 0 := by omega
        subst this
        rw [treeOf_zero_arr _ t hsk] at ht; cases ht
      have hdd : ¬ depth + 1 > Gen.valueReaderMaxDepth := by omega
      simp only [h8, if_true, hdd, if_false]
      exact ((hc f hf (depth + 1) suffix hsm (by omega) v ht).2 t hsk)
    · simp only [h8, Bool.false_eq_true, if_false]
      have h91 : (b == 91) = false := by
        by_contra hcon
        have : b = 91 := by simpa using hcon
        subst this
        rw [tokenType_91] at h8; exact h8 rfl
      have h123 : (b == 123) = false := by
        by_contra hcon
        have : b = 123 := by simpa using hcon
        subst this
        rw [tokenType_123] at h6; exact h6 rfl
      exact readSimpleValue_complete f suffix hsm b t hsk h91 h123 v ht

/-- replaying the array handler over members that all have trees never stops with an error -/
theorem replay_arr_complete (prev : Readers) (F : Nat) (hc : CompLevel prev F) (f : Nat) (hf : f ≤ F) (depth : Nat)
    (hd : depth + 1 + f ≤ Gen.valueReaderMaxDepth + 1) (data : List UInt8) (hdl : data.length < 4611686018427387904) :
    ∀ (ms : List Member) (hs : ArrHS) (n : Nat), (∀ m ∈ ms, MOK data m) →
      (∀ m ∈ ms, ∃ v, treeOf f (data.drop m.off) = some v) →
      (replay (Model.arrHandler prev depth) data ms hs n).2.2 = none := by
  intro ms
  induction ms with
  | nil => intro hs n _ _; rfl
  | cons m ms ih =>
    intro hs n hmok htr
    simp only [replay]
    obtain ⟨⟨b, t, hbt, hvs⟩, _⟩ := hmok m (by simp)
    obtain ⟨v, hv⟩ := htr m (by simp)
    have hok := handleMember_complete prev F hc f hf depth (data.drop m.off).toArray (drop_small data hdl _) b t
      (by simpa using hbt) (C08.not_ws_of_valueStart b hvs) hd v (by simpa using hv)
    have hnone : (Model.arrHandler prev depth hs m.field.toArray (data.drop m.off).toArray).2.2 = none := by
      simp only [Model.arrHandler, hok.2, Bool.false_eq_true, if_false, hok.1]
    rw [hnone]
    exact ih _ (n + 1) (fun m' hm' => hmok m' (by simp [hm'])) (fun m' hm' => htr m' (by simp [hm']))

/-- the same for objects (the key is a well-formed string body, so unescaping it cannot fail) -/
theorem replay_obj_complete (prev : Readers) (F : Nat) (hc : CompLevel prev F) (f : Nat) (hf : f ≤ F) (depth : Nat)
    (hd : depth + 1 + f ≤ Gen.valueReaderMaxDepth + 1) (data : List UInt8) (hdl : data.length < 4611686018427387904) :
    ∀ (ms : List Member) (hs : ObjHS) (n : Nat), (∀ m ∈ ms, MOK data m) →
      (∀ m ∈ ms, ∃ v, treeOf f (data.drop m.off) = some v) →
      (replay (Model.objHandler prev depth) data ms hs n).2.2 = none := by
  intro ms
  induction ms with
  | nil => intro hs n _ _; rfl
  | cons m ms ih =>
    intro hs n hmok htr
    simp only [replay]
    obtain ⟨⟨b, t, hbt, hvs⟩, hwf, hfl0⟩ := hmok m (by simp)
    have hfl : m.field.length < 4611686018427387904 := by omega
    obtain ⟨v, hv⟩ := htr m (by simp)
    have hok := handleMember_complete prev F hc f hf depth (data.drop m.off).toArray (drop_small data hdl _) b t
      (by simpa using hbt) (C08.not_ws_of_valueStart b hvs) hd v (by simpa using hv)
    obtain ⟨k1, k2, _⟩ := objKey_spec m.field hwf hfl
    have k1' : (Model.objKeyOf m.field.toArray).err = none := k1
    have k2' : (Model.objKeyOf m.field.toArray).panicked = false := k2
    have hnone : (Model.objHandler prev depth hs m.field.toArray (data.drop m.off).toArray).2.2 = none := by
      simp only [Model.objHandler, k2', Bool.false_eq_true, if_false, k1', hok.2, hok.1]
    rw [hnone]
    exact ih _ (n + 1) (fun m' hm' => hmok m' (by simp [hm'])) (fun m' hm' => htr m' (by simp [hm']))

theorem mapM_some_all {α β} (g : α → Option β) : ∀ (ms : List α) (xs : List β), ms.mapM g = some xs → ∀ m ∈ ms, ∃ v, g m = some v := by
  intro ms
  induction ms with
  | nil => intro xs _ m hm; cases hm
  | cons a ms ih =>
    intro xs h m hm
    rw [List.mapM_cons] at h
    cases ha : g a with
    | none => rw [ha] at h; simp at h
    | some va =>
      rw [ha] at h
      cases hr : ms.mapM g with
      | none => rw [hr] at h; simp at h
      | some r =>
        rcases List.mem_cons.mp hm with h1 | h1
        · subst h1; exact ⟨va, ha⟩
        · exact ih r hr m h1

theorem foldlM_some_all {α β γ} (g : α → Option γ) (c : β → α → γ → β) : ∀ (ms : List α) (init r : β),
    ms.foldlM (fun acc m => (g m).map (fun v => c acc m v)) init = some r → ∀ m ∈ ms, ∃ v, g m = some v := by
  intro ms
  induction ms with
  | nil => intro init r _ m hm; cases hm
  | cons a ms ih =>
    intro init r h m hm
    rw [List.foldlM_cons] at h
    cases ha : g a with
    | none => rw [ha] at h; simp at h
    | some va =>
      rw [ha] at h
      simp only [Option.map_some, Option.bind_eq_bind, Option.bind_some] at h
      rcases List.mem_cons.mp hm with h1 | h1
      · subst h1; exact ⟨va, ha⟩
      · exact ih _ r h m h1

theorem firstIsNull_other (data : Bytes) (b : UInt8) (k : List UInt8) (h : skipWs data.toList = b :: k) (hb : Spec.tokenType b ≠ 1) :
    Model.firstIsNull data = false := by
  simp only [Model.firstIsNull, C13.nextTokenType_spec, Spec.nextTokenType, h]
  simp [hb]

/-- one level of arrays -/
theorem arrReader_complete (prev : Readers) (hprev : LevelOK prev) (F : Nat) (hc : CompLevel prev F) (f : Nat) (hf : f ≤ F + 1)
    (depth : Nat) (data : Bytes) (hsm : Small data) (hd : depth + f ≤ Gen.valueReaderMaxDepth + 1)
    (v : Model.JVal) (ht : treeOf f data.toList = some v) (k : List UInt8) (hsk : skipWs data.toList = 91 :: k) :
    OKR (Model.arrReader prev depth data) := by
  obtain ⟨f', rfl⟩ : ∃ f', f = f' + 1 := by
    cases f with
    | zero => rw [treeOf_zero_arr _ k hsk] at ht; cases ht
    | succ f' => exact ⟨f', rfl⟩
  rw [treeOf_arr f' _ k hsk] at ht
  cases htr : traverseArray data.toList with
  | none => rw [htr] at ht; cases ht
  | some pr =>
    obtain ⟨ms, n⟩ := pr
    rw [htr] at ht
    simp only [] at ht
    cases hmm : ms.mapM (fun m => treeOf f' (data.toList.drop m.off)) with
    | none => rw [hmm] at ht; cases ht
    | some xs =>
      have hall := mapM_some_all _ ms xs hmm
      have hrp := replay_arr_complete prev F hc f' (by omega) depth (by omega) data.toList (small_len data hsm) ms {} 0
        (traverseArray_mok data.toList ms n htr) hall
      have hwb := arrHandler_WB prev hprev depth
      have hag := C07.abs_array_spec _ hwb data hsm #[] ({} : ArrHS)
      rw [← Certs.HandleArrayValues.run_eq, htr] at hag
      simp only [C07.Agrees, hrp] at hag
      obtain ⟨hk, _, _, _⟩ := hag
      have hfn := firstIsNull_other data 91 k hsk (by decide)
      simp only [Model.arrReader, hk, hfn, Bool.and_false, Bool.false_eq_true, if_false, OKR]
      exact ⟨trivial, trivial⟩

/-- one level of objects -/
theorem objReader_complete (prev : Readers) (hprev : LevelOK prev) (F : Nat) (hc : CompLevel prev F) (f : Nat) (hf : f ≤ F + 1)
    (depth : Nat) (data : Bytes) (hsm : Small data) (hd : depth + f ≤ Gen.valueReaderMaxDepth + 1)
    (v : Model.JVal) (ht : treeOf f data.toList = some v) (k : List UInt8) (hsk : skipWs data.toList = 123 :: k) :
    OKR (Model.objReader prev depth data) := by
  obtain ⟨f', rfl⟩ : ∃ f', f = f' + 1 := by
    cases f with
    | zero => rw [treeOf_zero_obj _ k hsk] at ht; cases ht
    | succ f' => exact ⟨f', rfl⟩
  rw [treeOf_obj f' _ k hsk] at ht
  cases htr : traverseObject data.toList with
  | none => rw [htr] at ht; cases ht
  | some pr =>
    obtain ⟨ms, n⟩ := pr
    rw [htr] at ht
    simp only [] at ht
    cases hmm : ms.foldlM (fun acc m => (treeOf f' (data.toList.drop m.off)).map (fun v => Model.mapSet acc (keyOf m) v)) #[] with
    | none => rw [hmm] at ht; cases ht
    | some r =>
      have hall := foldlM_some_all (fun m => treeOf f' (data.toList.drop m.off)) (fun acc m v => Model.mapSet acc (keyOf m) v) ms #[] r hmm
      have hrp := replay_obj_complete prev F hc f' (by omega) depth (by omega) data.toList (small_len data hsm) ms {} 0
        (traverseObject_mok data.toList ms n htr) hall
      have hwb := objHandler_WB prev hprev depth
      have hag := C07.abs_object_spec _ hwb data hsm #[] ({} : ObjHS)
      rw [← Certs.HandleObjectValues.run_eq, htr] at hag
      simp only [C07.Agrees, hrp] at hag
      obtain ⟨hk, _, _, _⟩ := hag
      have hfn := firstIsNull_other data 123 k hsk (by decide)
      simp only [Model.objReader, hk, hfn, Bool.and_false, Bool.false_eq_true, if_false, OKR]
      exact ⟨trivial, trivial⟩

/-- every level of readers is complete for the nesting it has fuel for -/
theorem readers_complete : ∀ (F : Nat), CompLevel (Model.readers F) F := by
  intro F
  induction F with
  | zero =>
    intro f hf depth data _ _ v ht
    have : f = 0 := by omega
    subst this
    exact ⟨fun k hsk => (by rw [treeOf_zero_obj _ k hsk] at ht; cases ht), fun k hsk => (by rw [treeOf_zero_arr _ k hsk] at ht; cases ht)⟩
  | succ F ih =>
    intro f hf depth data hsm hd v ht
    exact ⟨fun k hsk => objReader_complete _ (readers_levelOK F) F ih f hf depth data hsm hd v ht k hsk,
      fun k hsk => arrReader_complete _ (readers_levelOK F) F ih f hf depth data hsm hd v ht k hsk⟩

/-! ## member offsets are positive, hence the nesting is bounded by the length -/

theorem arrMembers_off (total : Nat) : ∀ (fuel : Nat) (first : Bool) (l : List UInt8) (acc ms : List Member) (rest : List UInt8),
    l.length < total → (∀ m ∈ acc, 1 ≤ m.off) → arrMembers total fuel first l acc = some (ms, rest) → ∀ m ∈ ms, 1 ≤ m.off := by
  intro fuel
  induction fuel with
  | zero => intro first l acc ms rest _ _ h; simp [arrMembers] at h
  | succ fuel ih =>
    intro first l acc ms rest hl hacc h
    simp only [arrMembers] at h
    have hwl := skipWs_length_le' l
    cases hsk : skipWs l with
    | nil => rw [hsk] at h; simp at h
    | cons b t =>
      rw [hsk] at h hwl
      simp only [List.length_cons] at hwl
      simp only [] at h
      by_cases h93 : (b == 93) = true
      · simp only [h93, if_true] at h
        injection h with h; injection h with h1 _
        intro m hm
        rw [← h1] at hm
        exact hacc m (List.mem_reverse.mp hm)
      · have h93' : (b == 93) = false := by simpa using h93
        simp only [h93', Bool.false_eq_true, if_false] at h
        have core : ∀ (v : List UInt8), v.length < total →
            (match scanValue none (2 * v.length + 2) 0 v with
              | none => none
              | some r => arrMembers total fuel false r ({ field := [], off := total - v.length } :: acc)) = some (ms, rest) →
            ∀ m ∈ ms, 1 ≤ m.off := by
          intro v hv hm
          cases hsv : scanValue none (2 * v.length + 2) 0 v with
          | none => rw [hsv] at hm; cases hm
          | some r =>
            rw [hsv] at hm
            simp only [] at hm
            have hr := ((scan_suffix none _).1 _ _ _ hsv).length_le
            refine ih false r _ ms rest (by omega) ?_ hm
            intro m hmem
            rcases List.mem_cons.mp hmem with hmm | hmm
            · rw [hmm]; show 1 ≤ total - v.length; omega
            · exact hacc m hmm
        cases first with
        | true => simp only [if_true] at h; exact core (b :: t) (by simp only [List.length_cons]; omega) h
        | false =>
          simp only [Bool.false_eq_true, if_false] at h
          by_cases h44 : (b == 44) = true
          · simp only [h44, if_true] at h
            have := skipWs_length_le' t
            exact core (skipWs t) (by omega) h
          · have h44' : (b == 44) = false := by simpa using h44
            simp [h44'] at h

theorem objMembers_off (total : Nat) : ∀ (fuel : Nat) (first : Bool) (l : List UInt8) (acc ms : List Member) (rest : List UInt8),
    l.length < total → (∀ m ∈ acc, 1 ≤ m.off) → objMembers total fuel first l acc = some (ms, rest) → ∀ m ∈ ms, 1 ≤ m.off := by
  intro fuel
  induction fuel with
  | zero => intro first l acc ms rest _ _ h; simp [objMembers] at h
  | succ fuel ih =>
    intro first l acc ms rest hl hacc h
    rw [objMembers_succ] at h
    have hwl := skipWs_length_le' l
    cases hsk : skipWs l with
    | nil => rw [hsk] at h; simp at h
    | cons b t =>
      rw [hsk] at h hwl
      simp only [List.length_cons] at hwl
      simp only [] at h
      by_cases h125 : (b == 125) = true
      · simp only [h125, if_true] at h
        injection h with h; injection h with h1 _
        intro m hm
        rw [← h1] at hm
        exact hacc m (List.mem_reverse.mp hm)
      · have h125' : (b == 125) = false := by simpa using h125
        simp only [h125', Bool.false_eq_true, if_false] at h
        have core : ∀ (kl : List UInt8), kl.length < total → objMemberAt total fuel acc kl = some (ms, rest) → ∀ m ∈ ms, 1 ≤ m.off := by
          intro kl hkl hm
          cases kl with
          | nil => simp [objMemberAt] at hm
          | cons q k =>
            by_cases hq : q = 34
            · subst hq
              simp only [objMemberAt] at hm
              cases hsp : splitString k with
              | none => rw [hsp] at hm; cases hm
              | some pr =>
                obtain ⟨body, r1⟩ := pr
                rw [hsp] at hm
                simp only [] at hm
                obtain ⟨_, hkb⟩ := C06.wfBody_of_split k body r1 hsp
                have hr1 : r1.length < k.length := by rw [hkb]; simp only [List.length_append, List.length_cons]; omega
                have hw1 := skipWs_length_le' r1
                cases hsk1 : skipWs r1 with
                | nil => rw [hsk1] at hm; simp [colonAt] at hm
                | cons b2 r2 =>
                  rw [hsk1] at hm hw1
                  simp only [List.length_cons] at hw1 hkl
                  by_cases h58 : b2 = 58
                  · subst h58
                    simp only [colonAt] at hm
                    have hv := skipWs_length_le' r2
                    cases hsv : scanValue none (2 * (skipWs r2).length + 2) 0 (skipWs r2) with
                    | none => rw [hsv] at hm; cases hm
                    | some r =>
                      rw [hsv] at hm
                      simp only [] at hm
                      have hr := ((scan_suffix none _).1 _ _ _ hsv).length_le
                      refine ih false r _ ms rest (by omega) ?_ hm
                      intro m hmem
                      rcases List.mem_cons.mp hmem with hmm | hmm
                      · rw [hmm]; show 1 ≤ total - (skipWs r2).length; omega
                      · exact hacc m hmm
                  · rw [colonAt_other _ _ _ _ b2 r2 h58] at hm; cases hm
            · rw [objMemberAt_other _ _ _ q k hq] at hm; cases hm
        cases first with
        | true => simp only [if_true] at h; exact core (b :: t) (by simp only [List.length_cons]; omega) h
        | false =>
          simp only [Bool.false_eq_true, if_false] at h
          by_cases h44 : (b == 44) = true
          · simp only [h44, if_true] at h
            have := skipWs_length_le' t
            exact core (skipWs t) (by omega) h
          · have h44' : (b == 44) = false := by simpa using h44
            simp [h44'] at h

theorem traverseArray_off (data k : List UInt8) (hsk : skipWs data = 91 :: k) (ms : List Member) (n : Nat)
    (h : traverseArray data = some (ms, n)) : ∀ m ∈ ms, 1 ≤ m.off := by
  rw [C07.traverseArray_91 k data hsk] at h
  cases hm : arrMembers data.length (data.length + 1) true k [] with
  | none => rw [hm] at h; cases h
  | some pr =>
    obtain ⟨ms', r⟩ := pr
    rw [hm] at h
    injection h with h; injection h with h1 _
    subst h1
    have hl := skipWs_length_le' data
    rw [hsk] at hl
    simp only [List.length_cons] at hl
    exact arrMembers_off data.length _ true k [] ms' r (by omega) (by simp) hm

theorem traverseObject_off (data k : List UInt8) (hsk : skipWs data = 123 :: k) (ms : List Member) (n : Nat)
    (h : traverseObject data = some (ms, n)) : ∀ m ∈ ms, 1 ≤ m.off := by
  rw [C07.traverseObject_123 k data hsk] at h
  cases hm : objMembers data.length (data.length + 1) true k [] with
  | none => rw [hm] at h; cases h
  | some pr =>
    obtain ⟨ms', r⟩ := pr
    rw [hm] at h
    injection h with h; injection h with h1 _
    subst h1
    have hl := skipWs_length_le' data
    rw [hsk] at hl
    simp only [List.length_cons] at hl
    exact objMembers_off data.length _ true k [] ms' r (by omega) (by simp) hm

/-- a text cannot be nested deeper than it is long: the nesting budget can be lowered to the length -/
theorem treeOf_shrink : ∀ (f : Nat) (data : List UInt8) (v : Model.JVal), data.length ≤ f → treeOf (f + 1) data = some v →
    treeOf f data = some v := by
  intro f
  induction f with
  | zero =>
    intro data v hl h
    have : data = [] := List.eq_nil_of_length_eq_zero (by omega)
    subst this
    simp [treeOf, skipWs] at h
  | succ f ih =>
    intro data v hl h
    cases hsk : skipWs data with
    | nil => simp [treeOf, hsk] at h
    | cons b k =>
      by_cases h91 : (b == 91) = true
      · have hb : b = 91 := by simpa using h91
        subst hb
        rw [treeOf_arr (f + 1) _ k hsk] at h
        rw [treeOf_arr f _ k hsk]
        cases htr : traverseArray data with
        | none => rw [htr] at h; cases h
        | some pr =>
          obtain ⟨ms, n⟩ := pr
          rw [htr] at h
          simp only [] at h ⊢
          have hoff := traverseArray_off data k hsk ms n htr
          cases hmm : ms.mapM (fun m => treeOf (f + 1) (data.drop m.off)) with
          | none => rw [hmm] at h; cases h
          | some xs =>
            rw [hmm] at h
            have := mapM_mono (fun m => treeOf (f + 1) (data.drop m.off)) (fun m => treeOf f (data.drop m.off)) ms xs
              (fun m hm w hw => ih (data.drop m.off) w (by
                have := hoff m hm
                simp only [List.length_drop]; omega) hw) hmm
            rw [this]; exact h
      · have h91' : (b == 91) = false := by simpa using h91
        by_cases h123 : (b == 123) = true
        · have hb : b = 123 := by simpa using h123
          subst hb
          rw [treeOf_obj (f + 1) _ k hsk] at h
          rw [treeOf_obj f _ k hsk]
          cases htr : traverseObject data with
          | none => rw [htr] at h; cases h
          | some pr =>
            obtain ⟨ms, n⟩ := pr
            rw [htr] at h
            simp only [] at h ⊢
            have hoff := traverseObject_off data k hsk ms n htr
            cases hmm : ms.foldlM (fun acc m => (treeOf (f + 1) (data.drop m.off)).map (fun v => Model.mapSet acc (keyOf m) v)) #[] with
            | none => rw [hmm] at h; cases h
            | some r =>
              rw [hmm] at h
              have := foldlM_mono (fun acc m => (treeOf (f + 1) (data.drop m.off)).map (fun v => Model.mapSet acc (keyOf m) v))
                (fun acc m => (treeOf f (data.drop m.off)).map (fun v => Model.mapSet acc (keyOf m) v)) ms #[] r
                (fun m hm acc w hw => by
                  cases ht : treeOf (f + 1) (data.drop m.off) with
                  | none => rw [ht] at hw; cases hw
                  | some tv =>
                    rw [ht] at hw
                    have := ih (data.drop m.off) tv (by
                      have := hoff m hm
                      simp only [List.length_drop]; omega) ht
                    rw [this]; exact hw) hmm
              rw [this]; exact h
        · have h123' : (b == 123) = false := by simpa using h123
          rw [treeOf_scalar (f + 2) _ b k hsk h91' h123'] at h
          rw [treeOf_scalar (f + 1) _ b k hsk h91' h123']
          exact h

/-- the nesting budget can be lowered to anything not below the length -/
theorem treeOf_shrink_to (f g : Nat) (hgf : g ≤ f) (data : List UInt8) (v : Model.JVal) (hl : data.length ≤ g)
    (h : treeOf f data = some v) : treeOf g data = some v := by
  obtain ⟨d, rfl⟩ : ∃ d, f = g + d := ⟨f - g, by omega⟩
  induction d with
  | zero => exact h
  | succ d ih => exact ih (by omega) (treeOf_shrink (g + d) data v (by omega) h)

end RJson.Tree
