import RJson.Proofs.Stack
/-!
# How the stack slice grows (C19, C20): `prepush` appends only up to the height the run reaches

`heightL` is the largest number of live return states during the list-stack run of a machine on an input.  The Go
slice handed to the same run ends with length `max (initial length) heightL`: `prepush` appends exactly when the
live height is about to exceed the slice.  Hence a `Buffer` that has been used on a document reaching at least the
same height is never grown again (no allocation for the stack), and the stack memory of a run is bounded by the
nesting the document actually has.
-/
namespace RJson.Ragel

/-- highest live stack while executing an action list (`m` = highest so far) -/
def hActsL {σ τ} (M : PDM σ) (data : Bytes) (h : Handler τ) : List (Act σ) → List σ → Regs τ → Nat → Nat
  | [], _, _, m => m
  | .s a :: rest, st, r, m =>
    if a.isHandler && !st.isEmpty then m
    else
      match execSimple data M.hasField h a r with
      | .stop _ => m
      | .cont r' => hActsL M data h rest st r' m
  | .call limit rs _ :: rest, st, r, m =>
    if limit && st.length == M.maxDepth then m
    else hActsL M data h rest (rs :: st) r (max m (st.length + 1))
  | .ret :: rest, st, r, m =>
    match st with
    | [] => m
    | _ :: st' => hActsL M data h rest st' r m

def hLoopL {σ τ} (M : PDM σ) (data : Bytes) (h : Handler τ) : Nat → σ → List σ → Regs τ → Nat → Nat
  | 0, _, _, _, m => m
  | fuel+1, cs, st, r, m =>
    match getByte data r.p with
    | none => m
    | some b =>
      let m' := hActsL M data h (M.step cs b).1 st r m
      match execActsL M data h (M.step cs b).1 (M.step cs b).2 st r with
      | .stop _ => m'
      | .next none _ _ => m'
      | .next (some n) st' r' =>
        let r'' := { r' with p := wrap64 (r'.p + 1) }
        if r''.p == (data.size : Int) then m'
        else hLoopL M data h fuel n st' r'' m'

/-- the height a run reaches -/
def heightL {σ τ} (M : PDM σ) (data : Bytes) (h : Handler τ) (dst : Bytes) (hs : τ) : Nat :=
  if data.size == 0 then 0 else hLoopL M data h (fuelFor data) M.start [] (initRegs dst hs) 0

theorem pushA_size {σ} [Inhabited σ] (stack stack' : Array σ) (top : Nat) (v : σ) (h : pushA stack top v = some stack') :
    stack'.size = max stack.size (top + 1) := by
  unfold pushA at h
  by_cases hg : top + 1 ≥ stack.size
  · simp only [hg, if_true] at h
    split at h
    · injection h with h
      rw [← h]
      simp
      omega
    · cases h
  · simp only [hg, if_false] at h
    split at h
    · injection h with h
      rw [← h]; simp; omega
    · cases h

theorem applyHavoc_size {σ} (hv : Havoc σ) (k : Nat) (stack : Array σ) : (applyHavoc hv k stack).size = stack.size := by
  simp [applyHavoc]

def stackOf {σ τ} : ActsRA σ τ → Array σ
  | .stop _ s => s
  | .next _ s _ _ => s

/-- sizes after an action list: the slice is as long as the initial slice or the highest live stack so far -/
theorem execActs_size {σ τ} [Inhabited σ] (M : PDM σ) (data : Bytes) (h : Handler τ) (hv : Havoc σ) (c : Nat) :
    ∀ (acts : List (Act σ)) (tgt : Option σ) (stack : Array σ) (st : List σ) (r : Regs τ) (m : Nat),
      SR stack st.length st → stack.size = max c m →
      (match execActsL M data h acts tgt st r with | .stop res => res.kind ≠ .badDepth | .next _ _ _ => True) →
      (stackOf (execActsA M data h hv acts tgt stack st.length r)).size = max c (hActsL M data h acts st r m) := by
  intro acts
  induction acts with
  | nil =>
    intro tgt stack st r m _ hsz _
    simp only [execActsA, stackOf, hActsL]
    exact hsz
  | cons a rest ih =>
    intro tgt stack st r m hsr hsz hk
    cases a with
    | s a =>
      simp only [execActsL, execActsA, hActsL] at hk ⊢
      by_cases hh : a.isHandler = true
      · cases st with
        | nil =>
          simp only [hh, List.isEmpty_nil, Bool.not_true, Bool.and_false, Bool.false_eq_true, if_false, if_true] at hk ⊢
          cases hex : execSimple data M.hasField h a r with
          | stop res =>
            simp only [stackOf, applyHavoc_size]; exact hsz
          | cont r' =>
            rw [hex] at hk
            exact ih tgt (applyHavoc hv r.ncalls stack) [] r' m .nil (by rw [applyHavoc_size]; exact hsz) hk
        | cons v st' =>
          simp only [hh, List.isEmpty_cons, Bool.not_false, Bool.and_true, if_true] at hk
          exact absurd rfl hk
      · have hh' : a.isHandler = false := by simpa using hh
        simp only [hh', Bool.false_and, Bool.false_eq_true, if_false] at hk ⊢
        cases hex : execSimple data M.hasField h a r with
        | stop res => simp only [stackOf]; exact hsz
        | cont r' =>
          rw [hex] at hk
          exact ih tgt stack st r' m hsr hsz hk
    | call lim rs en =>
      simp only [execActsL, execActsA, hActsL] at hk ⊢
      by_cases hl : (lim && st.length == M.maxDepth) = true
      · simp only [hl, if_true, stackOf]; exact hsz
      · simp only [hl, Bool.false_eq_true, if_false] at hk ⊢
        obtain ⟨stack', hp, htop, hlow⟩ := pushA_spec stack st.length rs
        have hsz' := pushA_size stack stack' st.length rs hp
        simp only [hp]
        have hsr' : SR stack' (st.length + 1) (rs :: st) :=
          .cons (hsr.mono (fun i hi => hlow i hi (by have := hsr.top_le; omega))) htop
        exact ih (some en) stack' (rs :: st) r (max m (st.length + 1)) hsr' (by rw [hsz', hsz]; omega) hk
    | ret =>
      simp only [execActsL, execActsA, hActsL] at hk ⊢
      cases st with
      | nil => simp only [List.length_nil, stackOf]; exact hsz
      | cons v st' =>
        simp only [List.length_cons]
        cases hsr with
        | cons h1 h2 =>
          simp only [h2]
          exact ih (some v) stack st' r m h1 hsz hk

theorem loop_size {σ τ} [Inhabited σ] (M : PDM σ) (data : Bytes) (h : Handler τ) (hv : Havoc σ) (c : Nat) :
    ∀ (fuel : Nat) (cs : σ) (stack : Array σ) (st : List σ) (r : Regs τ) (m : Nat),
      SR stack st.length st → stack.size = max c m → (loopL M data h fuel cs st r).kind ≠ .badDepth →
      (loopA M data h hv fuel cs stack st.length r).2.size = max c (hLoopL M data h fuel cs st r m) := by
  intro fuel
  induction fuel with
  | zero => intro cs stack st r m _ hsz _; exact hsz
  | succ fuel ih =>
    intro cs stack st r m hsr hsz hk
    simp only [loopL, loopA, hLoopL] at hk ⊢
    cases hgb : getByte data r.p with
    | none => exact hsz
    | some b =>
      simp only [hgb] at hk ⊢
      have hok := execActs_stack M data h hv (M.step cs b).1 (M.step cs b).2 stack st r hsr
      have hsize := execActs_size M data h hv c (M.step cs b).1 (M.step cs b).2 stack st r m hsr hsz
      generalize hActsL M data h (M.step cs b).1 st r m = m' at hsize ⊢
      generalize execActsL M data h (M.step cs b).1 (M.step cs b).2 st r = rl at hok hk hsize ⊢
      generalize execActsA M data h hv (M.step cs b).1 (M.step cs b).2 stack st.length r = ra at hok hsize ⊢
      cases rl with
      | stop res =>
        obtain ⟨stack', hra⟩ := hok hk
        have := hsize hk
        rw [hra] at this ⊢
        exact this
      | next tgt st' r' =>
        obtain ⟨stack', hra, hsr'⟩ := hok
        have hs' := hsize trivial
        rw [hra] at hs' ⊢
        simp only [stackOf] at hs'
        cases tgt with
        | none => exact hs'
        | some n =>
          simp only [] at hk ⊢
          split
          · exact hs'
          · next hne =>
            simp only [hne, Bool.false_eq_true, if_false] at hk
            exact ih _ _ _ _ m' hsr' hs' hk

/-- **the slice after a run is as long as the longer of the slice handed in and the height the run reached** -/
theorem runA_size {σ τ} [Inhabited σ] (M : PDM σ) (data : Bytes) (h : Handler τ) (hv : Havoc σ)
    (stack0 : Array σ) (dst : Bytes) (hs : τ) (hk : (runL M data h dst hs).kind ≠ .badDepth) :
    (runA M data h hv stack0 dst hs).2.size = max stack0.size (heightL M data h dst hs) := by
  simp only [runL, runA, heightL] at hk ⊢
  split
  · simp
  · next hne =>
    simp only [hne, Bool.false_eq_true, if_false] at hk
    exact loop_size M data h hv stack0.size _ _ stack0 [] _ 0 .nil (by simp) hk

/-- a slice at least as long as the height of the run is never grown (`prepush` appends nothing) -/
theorem runA_no_growth {σ τ} [Inhabited σ] (M : PDM σ) (data : Bytes) (h : Handler τ) (hv : Havoc σ)
    (stack0 : Array σ) (dst : Bytes) (hs : τ) (hk : (runL M data h dst hs).kind ≠ .badDepth)
    (hbig : heightL M data h dst hs ≤ stack0.size) :
    (runA M data h hv stack0 dst hs).2.size = stack0.size := by
  rw [runA_size M data h hv stack0 dst hs hk]; omega

/-- **a buffer already used on a document that reached at least the same height is not grown again** -/
theorem warm_no_growth {σ τ} [Inhabited σ] (M : PDM σ) (data1 data2 : Bytes) (h1 h2 : Handler τ) (hv1 hv2 : Havoc σ)
    (stack0 : Array σ) (dst1 dst2 : Bytes) (hs1 hs2 : τ)
    (hk1 : (runL M data1 h1 dst1 hs1).kind ≠ .badDepth) (hk2 : (runL M data2 h2 dst2 hs2).kind ≠ .badDepth)
    (hle : heightL M data2 h2 dst2 hs2 ≤ heightL M data1 h1 dst1 hs1) :
    (runA M data2 h2 hv2 (runA M data1 h1 hv1 stack0 dst1 hs1).2 dst2 hs2).2.size = (runA M data1 h1 hv1 stack0 dst1 hs1).2.size := by
  apply runA_no_growth M data2 h2 hv2 _ dst2 hs2 hk2
  rw [runA_size M data1 h1 hv1 stack0 dst1 hs1 hk1]
  omega

end RJson.Ragel
