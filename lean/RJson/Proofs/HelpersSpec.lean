import RJson.Proofs.Step
import RJson.Spec.Scanner
/-!
# The hand-written number-tail scanners against the specification

`skipFloatDec` / `skipFloatExp` (models of machine_helpers.go) on the array at a position, against
`Spec.scanExp` / the fraction branch of `Spec.scanFrac` on the list view. They never panic; on success they
return the index of the *last* byte of the number (the machine's `p++` then lands after the token).
-/
namespace RJson.HelpersSpec
open RJson.Ragel RJson.Spec

theorem skipDigits_length_le (l : List UInt8) : (skipDigits l).length ≤ l.length := by
  induction l with
  | nil => simp [skipDigits]
  | cons b rest ih => simp only [skipDigits]; split <;> simp <;> omega

/-- the digit loop of `skipFloatDec` -/
theorem skipDigitsLoop_spec (data : Bytes) : ∀ (t : List UInt8) (fuel p : Nat), At data p t → t.length ≤ fuel →
    skipDigitsLoop data (data.size : Int) fuel (p : Int) = some (((data.size - (skipDigits t).length : Nat) : Int)) := by
  intro t
  induction t with
  | nil =>
    intro fuel p hat _
    have := hat.nil_inv
    subst this
    cases fuel with
    | zero => simp [skipDigitsLoop, skipDigits]
    | succ f => simp [skipDigitsLoop, skipDigits]
  | cons b rest ih =>
    intro fuel p hat hf
    obtain ⟨fuel, rfl⟩ : ∃ f, fuel = f + 1 := ⟨fuel - 1, by simp at hf; omega⟩
    obtain ⟨hb, hlt, hat'⟩ := hat.cons_inv
    have hlen := hat'.length
    have hsl := skipDigits_length_le rest
    simp only [skipDigitsLoop]
    have hplt : (p : Int) < (data.size : Int) := by omega
    simp only [hplt, if_true, hb, digits_table_exact, skipDigits]
    by_cases hd : isDigit b = true
    · simp only [hd, Bool.not_true, Bool.false_eq_true, if_false, if_true]
      have := ih fuel (p + 1) hat' (by simp at hf; omega)
      simpa using this
    · have hd' : isDigit b = false := by simpa using hd
      simp only [hd', Bool.not_false, if_true, Bool.false_eq_true, if_false, List.length_cons]
      congr 1
      omega

/-- the loop of `skipFloatExp`: an optional sign at the start, then digits -/
theorem skipFloatExpLoop_digits (data : Bytes) (startP : Int) : ∀ (t : List UInt8) (fuel p : Nat) (signed : Bool),
    At data p t → t.length ≤ fuel → startP < (p : Int) →
    skipFloatExpLoop data startP (data.size : Int) fuel (p : Int) signed =
      some (((data.size - (skipDigits t).length : Nat) : Int), signed) := by
  intro t
  induction t with
  | nil =>
    intro fuel p signed hat _ _
    have := hat.nil_inv
    subst this
    cases fuel with
    | zero => simp [skipFloatExpLoop, skipDigits]
    | succ f => simp [skipFloatExpLoop, skipDigits]
  | cons b rest ih =>
    intro fuel p signed hat hf hne
    obtain ⟨fuel, rfl⟩ : ∃ f, fuel = f + 1 := ⟨fuel - 1, by simp at hf; omega⟩
    obtain ⟨hb, hlt, hat'⟩ := hat.cons_inv
    have hlen := hat'.length
    have hsl := skipDigits_length_le rest
    simp only [skipFloatExpLoop]
    have hplt : (p : Int) < (data.size : Int) := by omega
    have hnes : ((p : Int) == startP) = false := by simp; omega
    simp only [hplt, if_true, hb, digits_table_exact, skipDigits, hnes, Bool.false_and]
    by_cases hd : isDigit b = true
    · simp only [hd, if_true]
      have := ih fuel (p + 1) signed hat' (by simp at hf; omega) (by omega)
      simpa using this
    · have hd' : isDigit b = false := by simpa using hd
      simp only [hd', Bool.false_eq_true, if_false, List.length_cons]
      congr 2
      omega

/-- the part of `Spec.scanExp` after the `e` -/
def expTail (t : List UInt8) : Option (List UInt8) :=
  let t1 := match t with
    | s :: t' => if s == 43 || s == 45 then t' else s :: t'
    | [] => []
  match t1 with
  | d :: t2 => if isDigit d then some (skipDigits t2) else none
  | [] => none

theorem scanExp_e (e : UInt8) (t : List UInt8) (he : (e == 101 || e == 69) = true) : scanExp (e :: t) = expTail t := by
  simp only [scanExp, he, if_true]
  rfl

theorem scanExp_other (e : UInt8) (t : List UInt8) (he : (e == 101 || e == 69) = false) : scanExp (e :: t) = some (e :: t) := by
  simp only [scanExp, he, Bool.false_eq_true, if_false]

theorem digit_not_sign (b : UInt8) (h : isDigit b = true) : (b == 43 || b == 45) = false := by
  have hall : allBelow (fun n => !(isDigit (UInt8.ofNat n)) || !(UInt8.ofNat n == 43 || UInt8.ofNat n == 45)) 256 = true := by decide +kernel
  have := forall_byte (P := fun b => !(isDigit b) || !(b == 43 || b == 45)) hall b
  simpa [h] using this

theorem skipDigits_cons_digit (d : UInt8) (t : List UInt8) (h : isDigit d = true) : skipDigits (d :: t) = skipDigits t := by
  simp [skipDigits, h]

theorem skipDigits_cons_nondigit (d : UInt8) (t : List UInt8) (h : isDigit d = false) : skipDigits (d :: t) = d :: t := by
  simp [skipDigits, h]

/-- `skipFloatExp(data, q, len)` with `q` the position after the `e` -/
theorem skipFloatExp_spec (data : Bytes) (q : Nat) (t : List UInt8) (hat : At data q t) :
    ∃ pr, skipFloatExp data (q : Int) (data.size : Int) = some pr ∧
      match expTail t with
      | some rest' => pr = (((data.size - rest'.length - 1 : Nat) : Int), none) ∧ rest'.length < t.length
      | none => pr.2 = some .invalidNumber := by
  cases t with
  | nil =>
    have := hat.nil_inv
    subst this
    exact ⟨((data.size : Int) - 1, some .invalidNumber), by simp [skipFloatExp], by simp [expTail]⟩
  | cons s t' =>
    obtain ⟨hb, hlt, hat'⟩ := hat.cons_inv
    have hlen := hat'.length
    have hsl := skipDigits_length_le t'
    have hne : ((q : Int) == (data.size : Int)) = false := by simp; omega
    simp only [skipFloatExp, hne, Bool.false_eq_true, if_false]
    have hfuel : ((data.size : Int) - (q : Int)).toNat = (data.size - q - 1) + 1 := by omega
    rw [hfuel]
    simp only [skipFloatExpLoop]
    have hqlt : (q : Int) < (data.size : Int) := by omega
    simp only [hqlt, if_true, hb, digits_table_exact, sign_table_exact, beq_self_eq_true, Bool.true_and]
    by_cases hd : isDigit s = true
    · -- digits right away
      have hns := digit_not_sign s hd
      have hloop := skipFloatExpLoop_digits data (q : Int) t' (data.size - q - 1) (q + 1) false hat' (by omega) (by omega)
      have hcast : ((q : Int) + 1) = ((q + 1 : Nat) : Int) := by omega
      simp only [hd, if_true, hcast, hloop]
      refine ⟨_, rfl, ?_⟩
      simp only [expTail, hns, Bool.false_eq_true, if_false, hd, if_true]
      have h1 : ¬ (((data.size - (skipDigits t').length : Nat) : Int) - (q : Int) == 0) = true := by simp; omega
      simp only [h1, if_false]
      refine ⟨?_, by simp; omega⟩
      congr 1
      · omega
      · simp
    · have hd' : isDigit s = false := by simpa using hd
      simp only [hd', Bool.false_eq_true, if_false]
      by_cases hs : (s == 43 || s == 45) = true
      · -- a sign, then digits are required
        have hloop := skipFloatExpLoop_digits data (q : Int) t' (data.size - q - 1) (q + 1) true hat' (by omega) (by omega)
        have hcast : ((q : Int) + 1) = ((q + 1 : Nat) : Int) := by omega
        simp only [hs, if_true, hcast, hloop]
        refine ⟨_, rfl, ?_⟩
        simp only [expTail, hs, if_true]
        cases t' with
        | nil =>
          simp only [List.length_nil] at hlen
          have h1 : ¬ (((data.size - ([] : List UInt8).length : Nat) : Int) - (q : Int) == 0) = true := by simp; omega
          have h2 : (((data.size - ([] : List UInt8).length : Nat) : Int) - (q : Int) == 1) = true := by simp; omega
          simp only [skipDigits, h1, h2, if_false, if_true]
          simp
        | cons d t2 =>
          by_cases hdd : isDigit d = true
          · simp only [hdd, if_true, skipDigits_cons_digit d t2 hdd]
            have hsl2 := skipDigits_length_le t2
            simp only [List.length_cons] at hlen
            have h1 : ¬ (((data.size - (skipDigits t2).length : Nat) : Int) - (q : Int) == 0) = true := by simp; omega
            have h2 : ¬ (((data.size - (skipDigits t2).length : Nat) : Int) - (q : Int) == 1) = true := by simp; omega
            simp only [h1, h2, if_false]
            refine ⟨?_, by simp; omega⟩
            congr 1
            omega
          · have hdd' : isDigit d = false := by simpa using hdd
            simp only [hdd', Bool.false_eq_true, if_false, skipDigits_cons_nondigit d t2 hdd']
            simp only [List.length_cons] at hlen ⊢
            have h1 : ¬ (((data.size - (t2.length + 1) : Nat) : Int) - (q : Int) == 0) = true := by simp; omega
            have h2 : (((data.size - (t2.length + 1) : Nat) : Int) - (q : Int) == 1) = true := by simp; omega
            simp [h1, h2]
      · have hs' : (s == 43 || s == 45) = false := by simpa using hs
        simp only [hs', Bool.false_eq_true, if_false]
        refine ⟨_, rfl, ?_⟩
        simp [expTail, hs', hd']

/-- a suffix of the view is the view at the later position -/
theorem at_suffix {data : Bytes} {p : Nat} {l : List UInt8} (h : At data p l) (k : Nat) (hk : k ≤ l.length) :
    At data (p + k) (l.drop k) := by
  have hlen := h.length
  have hle := h.le
  refine ⟨by omega, ?_⟩
  rw [← h.eq, List.drop_drop]

theorem drop_skipDigits (l : List UInt8) : l.drop (l.length - (skipDigits l).length) = skipDigits l := by
  induction l with
  | nil => simp [skipDigits]
  | cons b rest ih =>
    simp only [skipDigits]
    split
    · have := skipDigits_length_le rest
      have h : (b :: rest).length - (skipDigits rest).length = (rest.length - (skipDigits rest).length) + 1 := by
        simp only [List.length_cons]; omega
      rw [h, List.drop_succ_cons, ih]
    · simp

theorem at_skipDigits {data : Bytes} {p : Nat} {l : List UInt8} (h : At data p l) :
    At data (data.size - (skipDigits l).length) (skipDigits l) := by
  have hlen := h.length
  have hle := h.le
  have hsl := skipDigits_length_le l
  have := at_suffix h (l.length - (Spec.skipDigits l).length) (by omega)
  rw [drop_skipDigits] at this
  have hp : p + (l.length - (Spec.skipDigits l).length) = data.size - (Spec.skipDigits l).length := by omega
  rwa [hp] at this

/-- the part of `Spec.scanFrac` after the `.` -/
def fracTail (t : List UInt8) : Option (List UInt8) :=
  match t with
  | d :: t' => if isDigit d then scanExp (Spec.skipDigits t') else none
  | [] => none

theorem scanFrac_dot (t : List UInt8) : scanFrac (46 :: t) = fracTail t := by
  simp only [scanFrac]
  rfl

theorem scanExp_length_le (l : List UInt8) : ∀ r, scanExp l = some r → r.length ≤ l.length := by
  intro r h
  cases l with
  | nil => simp [scanExp] at h; subst h; simp
  | cons e t =>
    by_cases he : (e == 101 || e == 69) = true
    · rw [scanExp_e e t he] at h
      simp only [expTail] at h
      cases t with
      | nil => simp at h
      | cons s t' =>
        simp only [] at h
        by_cases hs : (s == 43 || s == 45) = true
        · simp only [hs, if_true] at h
          cases t' with
          | nil => simp at h
          | cons d t2 =>
            simp only [] at h
            split at h
            · injection h with h; subst h
              have := skipDigits_length_le t2
              simp only [List.length_cons]; omega
            · cases h
        · have hs' : (s == 43 || s == 45) = false := by simpa using hs
          simp only [hs', Bool.false_eq_true, if_false] at h
          split at h
          · injection h with h; subst h
            have := skipDigits_length_le t'
            simp only [List.length_cons]; omega
          · cases h
    · have he' : (e == 101 || e == 69) = false := by simpa using he
      rw [scanExp_other e t he'] at h
      injection h with h; subst h; simp

/-- `skipFloatDec(data, q, len)` with `q` the position after the `.` -/
theorem skipFloatDec_spec (data : Bytes) (q : Nat) (t : List UInt8) (hat : At data q t) :
    ∃ pr, skipFloatDec data (q : Int) (data.size : Int) = some pr ∧
      match fracTail t with
      | some rest' => pr = (((data.size - rest'.length - 1 : Nat) : Int), none) ∧ rest'.length < t.length
      | none => pr.2 = some .invalidNumber := by
  cases t with
  | nil =>
    have := hat.nil_inv
    subst this
    exact ⟨((data.size : Int) - 1, some .invalidNumber), by simp [skipFloatDec], by simp [fracTail]⟩
  | cons d t' =>
    obtain ⟨hb, hlt, hat'⟩ := hat.cons_inv
    have hlen := hat'.length
    have hsl := skipDigits_length_le t'
    have hne : ((q : Int) == (data.size : Int)) = false := by simp; omega
    simp only [skipFloatDec, hne, Bool.false_eq_true, if_false, hb, digits_table_exact]
    by_cases hd : isDigit d = true
    · simp only [hd, Bool.not_true, Bool.false_eq_true, if_false, fracTail, if_true]
      have hcast : ((q : Int) + 1) = ((q + 1 : Nat) : Int) := by omega
      have hloop := skipDigitsLoop_spec data t' ((data.size : Int) - ((q : Int) + 1)).toNat (q + 1) hat' (by omega)
      rw [hcast] at hloop ⊢
      simp only [hloop]
      have hsd := at_skipDigits hat'
      cases hsk : Spec.skipDigits t' with
      | nil =>
        rw [hsk] at hsd
        simp only [List.length_nil, Nat.sub_zero, beq_self_eq_true, if_true]
        refine ⟨_, rfl, ?_⟩
        simp only [scanExp]
        refine ⟨?_, by simp⟩
        congr 1
        simp only [List.length_nil, Nat.sub_zero]
        omega
      | cons c u =>
        rw [hsk] at hsd hsl
        obtain ⟨hc, hclt, hatu⟩ := hsd.cons_inv
        simp only [List.length_cons] at hsl hclt hc hatu ⊢
        have hne2 : (((data.size - (u.length + 1) : Nat) : Int) == (data.size : Int)) = false := by simp; omega
        simp only [hne2, Bool.false_eq_true, if_false, hc, exp_table_exact]
        by_cases he : (c == 101 || c == 69) = true
        · simp only [he, if_true, scanExp_e c u he]
          have hcast2 : ((data.size - (u.length + 1) : Nat) : Int) + 1 = ((data.size - (u.length + 1) + 1 : Nat) : Int) := by omega
          rw [hcast2]
          obtain ⟨pr, hpr, hm⟩ := skipFloatExp_spec data _ u hatu
          refine ⟨pr, hpr, ?_⟩
          cases hx : expTail u with
          | none => rw [hx] at hm; exact hm
          | some r =>
            rw [hx] at hm
            simp only [] at hm ⊢
            exact ⟨hm.1, by have := hm.2; omega⟩
        · have he' : (c == 101 || c == 69) = false := by simpa using he
          simp only [he', Bool.false_eq_true, if_false, scanExp_other c u he']
          refine ⟨_, rfl, ?_⟩
          refine ⟨?_, by simp only [List.length_cons]; omega⟩
          congr 1
          simp only [List.length_cons]
          omega
    · have hd' : isDigit d = false := by simpa using hd
      simp only [hd', Bool.not_false, if_true, fracTail, Bool.false_eq_true, if_false]
      exact ⟨_, rfl, rfl⟩

end RJson.HelpersSpec
