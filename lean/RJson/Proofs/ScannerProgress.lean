import RJson.Proofs.SkipScalars
/-!
# The reference scanner consumes input: every recognised value is a non-empty prefix

Pure facts about `Spec.Scanner` (no machine involved). Used to show that the fuel `2 * length + 2` of
`Spec.valueEnd` / `Spec.validDoc` never runs out, and by the container induction of `Proofs/SkipValue.lean`.
-/
namespace RJson.Spec
open RJson.Abs RJson.HelpersSpec

theorem strScanT_length_lt : ∀ (l : List UInt8) (t : Tok) (r : List UInt8), strScanT t l = some r → r.length < l.length := by
  intro l
  induction l with
  | nil => intro t r h; cases t <;> simp [strScanT] at h
  | cons x rest ih =>
    intro t r h
    have step : ∀ t', strScanT t' rest = some r → r.length < (x :: rest).length := by
      intro t' h'
      have := ih t' r h'
      simp only [List.length_cons]; omega
    cases t with
    | str =>
      simp only [strScanT] at h
      split at h
      · injection h with h; subst h; simp
      · split at h
        · exact step _ h
        · split at h
          · cases h
          · exact step _ h
    | esc =>
      simp only [strScanT] at h
      split at h
      · exact step _ h
      · split at h
        · exact step _ h
        · cases h
    | u n =>
      simp only [strScanT] at h
      split at h
      · exact step _ h
      · cases h
    | lit _ _ => simp [strScanT] at h
    | minus => simp [strScanT] at h
    | zero => simp [strScanT] at h
    | int => simp [strScanT] at h
    | fracStart => simp [strScanT] at h
    | frac => simp [strScanT] at h
    | expStart => simp [strScanT] at h
    | expSign => simp [strScanT] at h
    | exp => simp [strScanT] at h

theorem scanStringBody_length_lt (l r : List UInt8) (h : scanStringBody l = some r) : r.length < l.length := by
  rw [← strScanT_str] at h
  exact strScanT_length_lt l .str r h

theorem scanLit_length_le (lit l r : List UInt8) (h : scanLit lit l = some r) : r.length ≤ l.length := by
  simp only [scanLit] at h
  split at h
  · injection h with h; subst h; simp
  · cases h

theorem scanFrac_suffix (l r : List UInt8) (h : scanFrac l = some r) : r <:+ l := by
  cases l with
  | nil => rw [scanFrac_nil] at h; injection h with h; subst h; exact List.suffix_refl _
  | cons b t =>
    by_cases hb : b = 46
    · subst hb
      rw [scanFrac_dot] at h
      exact List.IsSuffix.trans (fracTail_suffix t r h) (List.suffix_cons _ t)
    · rw [scanFrac_other b t hb] at h
      exact scanExp_suffix _ r h

theorem scanNumber_minus (t : List UInt8) : scanNumber (45 :: t) = scanNum1 t := rfl

theorem scanNumber_other (b : UInt8) (t : List UInt8) (hb : b ≠ 45) : scanNumber (b :: t) = scanNum1 (b :: t) := by
  simp only [scanNumber]
  split
  · next heq => injection heq with h1 _; exact absurd h1 hb
  · rfl

theorem scanNum1_zero (t : List UInt8) : scanNum1 (48 :: t) = scanFrac t := rfl

theorem scanNum1_other (d : UInt8) (t : List UInt8) (hd : d ≠ 48) :
    scanNum1 (d :: t) = if 49 ≤ d && d ≤ 57 then scanFrac (skipDigits t) else none := by
  simp only [scanNum1]

theorem scanNum1_length_lt (l r : List UInt8) (h : scanNum1 l = some r) : r.length < l.length := by
  cases l with
  | nil => simp [scanNum1] at h
  | cons d t =>
    by_cases hd : d = 48
    · subst hd
      rw [scanNum1_zero] at h
      have := (scanFrac_suffix t r h).length_le
      simp only [List.length_cons]; omega
    · rw [scanNum1_other d t hd] at h
      split at h
      · have h1 := (scanFrac_suffix _ r h).length_le
        have h2 := skipDigits_length_le t
        simp only [List.length_cons]; omega
      · cases h

theorem scanNumber_length_lt (l r : List UInt8) (h : scanNumber l = some r) : r.length < l.length := by
  cases l with
  | nil => simp [scanNumber, scanNum1] at h
  | cons b t =>
    by_cases hb : b = 45
    · subst hb
      rw [scanNumber_minus] at h
      have := scanNum1_length_lt t r h
      simp only [List.length_cons]; omega
    · rw [scanNumber_other b t hb] at h
      exact scanNum1_length_lt _ r h

theorem skipWs_cons_of (l : List UInt8) (b : UInt8) (rest : List UInt8) (h : skipWs l = b :: rest) : isWs b = false := by
  induction l with
  | nil => simp [skipWs] at h
  | cons x t ih =>
    simp only [skipWs] at h
    split at h
    · exact ih h
    · next hx => injection h with h1 _; subst h1; simpa using hx

theorem skipWs_length_le' (l : List UInt8) : (skipWs l).length ≤ l.length := by
  induction l with
  | nil => simp [skipWs]
  | cons b rest ih => simp only [skipWs]; split <;> simp <;> omega

/-- progress of the three mutually recursive scanners -/
theorem scan_progress (md : Option Nat) : ∀ (fuel : Nat),
    (∀ d l r, scanValue md fuel d l = some r → r.length < l.length) ∧
    (∀ d first l r, scanArr md fuel d first l = some r → r.length < l.length) ∧
    (∀ d first l r, scanObj md fuel d first l = some r → r.length < l.length) := by
  intro fuel
  induction fuel with
  | zero =>
    refine ⟨?_, ?_, ?_⟩
    · intro d l r h; simp [scanValue] at h
    · intro d first l r h; simp [scanArr] at h
    · intro d first l r h; simp [scanObj] at h
  | succ fuel ih =>
    obtain ⟨ihV, ihA, ihO⟩ := ih
    refine ⟨?_, ?_, ?_⟩
    · intro d l r h
      cases l with
      | nil => simp [scanValue] at h
      | cons b rest =>
        simp only [scanValue] at h
        have lt_of : ∀ {x : List UInt8}, x.length ≤ rest.length → x.length < (b :: rest).length := by
          intro x hx; simp only [List.length_cons]; omega
        split at h
        · exact lt_of (Nat.le_of_lt (scanStringBody_length_lt rest r h))
        · split at h
          · exact lt_of (scanLit_length_le _ rest r h)
          · split at h
            · exact lt_of (scanLit_length_le _ rest r h)
            · split at h
              · exact lt_of (scanLit_length_le _ rest r h)
              · split at h
                · split at h
                  · cases h
                  · exact lt_of (Nat.le_of_lt (ihA _ _ rest r h))
                · split at h
                  · split at h
                    · cases h
                    · exact lt_of (Nat.le_of_lt (ihO _ _ rest r h))
                  · exact scanNumber_length_lt _ r h
    · intro d first l r h
      simp only [scanArr] at h
      have hws := skipWs_length_le' l
      cases hsk : skipWs l with
      | nil => rw [hsk] at h; simp at h
      | cons b rest =>
        rw [hsk] at h hws
        simp only [List.length_cons] at hws
        simp only [] at h
        split at h
        · injection h with h; subst h; omega
        · split at h
          · cases hv : scanValue md fuel d (b :: rest) with
            | none => rw [hv] at h; simp at h
            | some r1 =>
              rw [hv] at h
              simp only [] at h
              have h1 := ihV _ _ _ hv
              have h2 := ihA _ _ _ _ h
              simp only [List.length_cons] at h1
              omega
          · split at h
            · cases hv : scanValue md fuel d (skipWs rest) with
              | none => rw [hv] at h; simp at h
              | some r1 =>
                rw [hv] at h
                simp only [] at h
                have h1 := ihV _ _ _ hv
                have h2 := ihA _ _ _ _ h
                have h3 := skipWs_length_le' rest
                omega
            · cases h
    · intro d first l r h
      simp only [scanObj] at h
      have hws := skipWs_length_le' l
      cases hsk : skipWs l with
      | nil => rw [hsk] at h; simp at h
      | cons b rest =>
        rw [hsk] at h hws
        simp only [List.length_cons] at hws
        simp only [] at h
        split at h
        · injection h with h; subst h; omega
        · generalize hsep : (if first = true then some (b :: rest) else if (b == 44) = true then some (skipWs rest) else none) = sep at h
          have hseplen : ∀ x, sep = some x → x.length ≤ rest.length + 1 := by
            intro x hx
            rw [← hsep] at hx
            split at hx
            · injection hx with hx; subst hx; simp
            · split at hx
              · injection hx with hx; subst hx
                have := skipWs_length_le' rest
                omega
              · cases hx
          split at h
          · next krest =>
            have hk := hseplen _ rfl
            simp only [List.length_cons] at hk
            cases hs1 : scanStringBody krest with
            | none => rw [hs1] at h; simp at h
            | some r1 =>
              rw [hs1] at h
              simp only [] at h
              have h1 := scanStringBody_length_lt _ _ hs1
              have hw1 := skipWs_length_le' r1
              split at h
              · next r2 heq2 =>
                rw [heq2] at hw1
                simp only [List.length_cons] at hw1
                cases hv : scanValue md fuel d (skipWs r2) with
                | none => rw [hv] at h; simp at h
                | some r3 =>
                  rw [hv] at h
                  simp only [] at h
                  have h3 := ihV _ _ _ hv
                  have h4 := ihO _ _ _ _ h
                  have h5 := skipWs_length_le' r2
                  omega
              · cases h
          · cases h

end RJson.Spec
