import RJson.Proofs.DecRight
import RJson.Props.C04Tables
/-!
# `leftShift` of the multiprecision decimal: multiplication of the digit string by `2^k`

`leftShift` predicts how many digits the product gains from the cheat table (`leftcheats[k]` = number of digits of
`2^k` and the digits of `5^k`; one digit fewer when the digit string is lexicographically below `5^k`) and then writes
the product from the right.  Here: the prediction is right, so the write index ends exactly at 0 (no
index-out-of-range), and when the `trunc` flag stays off the digits written are exactly the product.
-/
namespace RJson.Dec
open RJson.FP

/-! ## lexicographic comparison of digit strings -/

theorem val_eq_of_digits (b s : Array UInt8) : ∀ m, (∀ j, j < m → dig b j = dig s j) → val b m = val s m := by
  intro m
  induction m with
  | zero => intro _; rfl
  | succ m ih =>
    intro h
    simp only [val]
    rw [ih (fun j hj => h j (by omega)), h m (Nat.lt_succ_self m)]

/-- equal up to `i`, smaller at `i`: smaller as numbers, whatever follows -/
theorem val_lex (b s : Array UInt8) (nb ns i : Nat) (hb : DigitsOK b nb) (hs : DigitsOK s ns)
    (heq : ∀ j, j < i → dig b j = dig s j) (hlt : dig b i < dig s i) :
    ∀ m, i < m → m ≤ nb → m ≤ ns → val b m < val s m := by
  intro m
  induction m with
  | zero => intro h; omega
  | succ m ih =>
    intro him hmb hms
    simp only [val]
    by_cases hmi : m = i
    · subst hmi
      rw [val_eq_of_digits b s m heq]
      omega
    · have := ih (by omega) (by omega) (by omega)
      have h9 := dig_le9 hb (show m < nb by omega)
      omega

/-- what `prefixIsLessThan` decides, in terms of the numbers written by the common prefix -/
theorem prefixLess_go (b s : Array UInt8) (hb : DigitsOK b b.size) (hs : DigitsOK s s.size) :
    ∀ (fuel i : Nat), s.size + 1 - i ≤ fuel → i ≤ min b.size s.size → (∀ j, j < i → dig b j = dig s j) →
      (prefixIsLessThan.go b s fuel i = true ↔
        (val b (min b.size s.size) < val s (min b.size s.size) ∨
          (val b (min b.size s.size) = val s (min b.size s.size) ∧ b.size < s.size))) := by
  intro fuel
  induction fuel with
  | zero => intro i hf hi _; omega
  | succ fuel ih =>
    intro i hf hi heq
    simp only [prefixIsLessThan.go]
    by_cases his : i < s.size
    · rw [if_pos his]
      by_cases hib : i ≥ b.size
      · rw [if_pos hib]
        -- `b` is a proper prefix of `s`
        have hm : min b.size s.size = b.size := by omega
        have hii : i = b.size := by omega
        rw [hm]
        simp only [true_iff]
        right
        exact ⟨val_eq_of_digits b s b.size (fun j hj => heq j (by omega)), by omega⟩
      · rw [if_neg hib]
        have hib' : i < b.size := by omega
        by_cases hne : (b[i]! != s[i]!) = true
        · rw [if_pos hne]
          have hbi := hb i hib'
          have hsi := hs i his
          have hne' : b[i]! ≠ s[i]! := by simpa using hne
          have hnat : b[i]!.toNat ≠ s[i]!.toNat := fun hh => hne' (UInt8.toNat_inj.mp hh)
          have hmpos : i < min b.size s.size := by omega
          constructor
          · intro hlt
            have hlt' : b[i]! < s[i]! := by simpa using hlt
            have : b[i]!.toNat < s[i]!.toNat := UInt8.lt_iff_toNat_lt.mp hlt'
            left
            exact val_lex b s b.size s.size i hb hs heq (by unfold dig; omega) _ hmpos (by omega) (by omega)
          · intro hor
            have hgt_or : b[i]!.toNat < s[i]!.toNat ∨ s[i]!.toNat < b[i]!.toNat := by omega
            rcases hgt_or with h | h
            · simpa using UInt8.lt_iff_toNat_lt.mpr h
            · -- then `s` is the smaller number: contradiction
              have := val_lex s b s.size b.size i hs hb (fun j hj => (heq j hj).symm) (by unfold dig; omega) _ hmpos (by omega) (by omega)
              rcases hor with h1 | ⟨h1, _⟩ <;> omega
        · rw [if_neg hne]
          have heq' : b[i]! = s[i]! := by simpa using hne
          exact ih (i + 1) (by omega) (by omega) (fun j hj => by
            by_cases hji : j = i
            · subst hji; unfold dig; rw [heq']
            · exact heq j (by omega))
    · rw [if_neg his]
      -- all of `s` matched
      have hm : min b.size s.size = s.size := by omega
      have hii : i = s.size := by omega
      rw [hm]
      simp only [Bool.false_eq_true, false_iff, not_or, not_and, Nat.not_lt]
      have := val_eq_of_digits b s s.size (fun j hj => heq j (by omega))
      exact ⟨by omega, fun _ => by omega⟩

theorem prefixLess_spec (b s : Array UInt8) (hb : DigitsOK b b.size) (hs : DigitsOK s s.size) :
    prefixIsLessThan b s = true ↔
      (val b (min b.size s.size) < val s (min b.size s.size) ∨
        (val b (min b.size s.size) = val s (min b.size s.size) ∧ b.size < s.size)) :=
  prefixLess_go b s hb hs (s.size + 1) 0 (by omega) (by omega) (fun j hj => absurd hj (by omega))

/-! ## how many digits a multiplication by `2^k` adds -/

theorem pow10_split (k : Nat) : (10 : ℕ) ^ k = 2 ^ k * 5 ^ k := by
  rw [← Nat.mul_pow]

/-- the prediction of the cheat table: `D2` digits of `2^k`, `L5 = k + 1 - D2` digits of `5^k`; the product `P · 2^k`
    of an `nd`-digit number has `nd + D2` digits, or one fewer exactly when `P`'s digit string is below that of `5^k` -/
theorem shift_digits (P nd k D2 L5 : ℕ) (hnd : 1 ≤ nd) (hP1 : 10 ^ (nd - 1) ≤ P) (hP2 : P < 10 ^ nd)
    (hD1 : 1 ≤ D2) (hD2a : 10 ^ (D2 - 1) ≤ 2 ^ k) (hD2b : 2 ^ k < 10 ^ D2) (hL5 : L5 + D2 = k + 1) (hL1 : 1 ≤ L5)
    (less : Prop) [Decidable less]
    (hless : less ↔ (if L5 ≤ nd then P / 10 ^ (nd - L5) < 5 ^ k else P ≤ 5 ^ k / 10 ^ (L5 - nd))) :
    10 ^ (nd + (D2 - (if less then 1 else 0)) - 1) ≤ P * 2 ^ k ∧ P * 2 ^ k < 10 ^ (nd + (D2 - (if less then 1 else 0))) := by
  have h2pos : 0 < 2 ^ k := by positivity
  have hup : P * 2 ^ k < 10 ^ (nd + D2) := by
    rw [Nat.pow_add]; exact Nat.mul_lt_mul'' hP2 hD2b
  have hlow : 10 ^ (nd + D2 - 2) ≤ P * 2 ^ k := by
    have : nd + D2 - 2 = (nd - 1) + (D2 - 1) := by omega
    rw [this, Nat.pow_add]; exact Nat.mul_le_mul hP1 hD2a
  -- the threshold 10^(nd + D2 - 1), compared with P · 2^k
  have key : P * 2 ^ k < 10 ^ (nd + D2 - 1) ↔ (if L5 ≤ nd then P / 10 ^ (nd - L5) < 5 ^ k else P ≤ 5 ^ k / 10 ^ (L5 - nd)) := by
    by_cases hc : L5 ≤ nd
    · rw [if_pos hc]
      have he : nd + D2 - 1 = k + (nd - L5) := by omega
      rw [he, Nat.pow_add, pow10_split k]
      have h10 : 0 < 10 ^ (nd - L5) := by positivity
      rw [Nat.div_lt_iff_lt_mul h10]
      constructor
      · intro h
        have : 2 ^ k * P < 2 ^ k * (5 ^ k * 10 ^ (nd - L5)) := by
          calc 2 ^ k * P = P * 2 ^ k := Nat.mul_comm _ _
            _ < 2 ^ k * 5 ^ k * 10 ^ (nd - L5) := h
            _ = 2 ^ k * (5 ^ k * 10 ^ (nd - L5)) := Nat.mul_assoc _ _ _
        exact Nat.lt_of_mul_lt_mul_left this
      · intro h
        calc P * 2 ^ k = 2 ^ k * P := Nat.mul_comm _ _
          _ < 2 ^ k * (5 ^ k * 10 ^ (nd - L5)) := Nat.mul_lt_mul_of_pos_left h h2pos
          _ = 2 ^ k * 5 ^ k * 10 ^ (nd - L5) := (Nat.mul_assoc _ _ _).symm
    · rw [if_neg hc]
      have hm1 : 1 ≤ L5 - nd := by omega
      have h10 : 0 < 10 ^ (L5 - nd) := by positivity
      -- multiply both sides by 10^(L5 - nd): 10^(nd+D2-1) · 10^(L5-nd) = 10^k
      have he : (nd + D2 - 1) + (L5 - nd) = k := by omega
      have hscale : P * 2 ^ k < 10 ^ (nd + D2 - 1) ↔ P * 10 ^ (L5 - nd) < 5 ^ k := by
        constructor
        · intro h
          have h1 : P * 2 ^ k * 10 ^ (L5 - nd) < 10 ^ (nd + D2 - 1) * 10 ^ (L5 - nd) := Nat.mul_lt_mul_of_pos_right h h10
          rw [← Nat.pow_add, he, pow10_split k] at h1
          have h2 : 2 ^ k * (P * 10 ^ (L5 - nd)) < 2 ^ k * 5 ^ k := by
            calc 2 ^ k * (P * 10 ^ (L5 - nd)) = P * 2 ^ k * 10 ^ (L5 - nd) := by ring
              _ < 2 ^ k * 5 ^ k := h1
          exact Nat.lt_of_mul_lt_mul_left h2
        · intro h
          have h1 : 2 ^ k * (P * 10 ^ (L5 - nd)) < 2 ^ k * 5 ^ k := Nat.mul_lt_mul_of_pos_left h h2pos
          have h2 : P * 2 ^ k * 10 ^ (L5 - nd) < 10 ^ (nd + D2 - 1) * 10 ^ (L5 - nd) := by
            rw [← Nat.pow_add, he, pow10_split k]
            calc P * 2 ^ k * 10 ^ (L5 - nd) = 2 ^ k * (P * 10 ^ (L5 - nd)) := by ring
              _ < 2 ^ k * 5 ^ k := h1
          exact Nat.lt_of_mul_lt_mul_right h2
      rw [hscale]
      -- 10^m does not divide 5^k (m ≥ 1)
      have hodd : 5 ^ k % 2 = 1 := by
        rw [Nat.pow_mod]; simp
      have heven : (5 ^ k / 10 ^ (L5 - nd) * 10 ^ (L5 - nd)) % 2 = 0 := by
        have : 10 ^ (L5 - nd) = 10 ^ (L5 - nd - 1) * 10 := by
          rw [← Nat.pow_succ]; congr 1; omega
        rw [this, ← Nat.mul_assoc, Nat.mul_mod]; simp
      have hdm := Nat.div_add_mod (5 ^ k) (10 ^ (L5 - nd))
      have hTlt : 5 ^ k / 10 ^ (L5 - nd) * 10 ^ (L5 - nd) < 5 ^ k := by
        have hle : 5 ^ k / 10 ^ (L5 - nd) * 10 ^ (L5 - nd) ≤ 5 ^ k := Nat.div_mul_le_self _ _
        rcases Nat.lt_or_eq_of_le hle with h | h
        · exact h
        · rw [h] at heven; omega
      constructor
      · intro h
        by_contra hcon
        have hge : 5 ^ k / 10 ^ (L5 - nd) + 1 ≤ P := by omega
        have : (5 ^ k / 10 ^ (L5 - nd) + 1) * 10 ^ (L5 - nd) ≤ P * 10 ^ (L5 - nd) := Nat.mul_le_mul_right _ hge
        have hlt5 : 5 ^ k < (5 ^ k / 10 ^ (L5 - nd) + 1) * 10 ^ (L5 - nd) := by
          have := Nat.lt_div_mul_add h10 (a := 5 ^ k)
          rw [Nat.add_mul, Nat.one_mul]
          omega
        omega
      · intro h
        calc P * 10 ^ (L5 - nd) ≤ 5 ^ k / 10 ^ (L5 - nd) * 10 ^ (L5 - nd) := Nat.mul_le_mul_right _ h
          _ < 5 ^ k := hTlt
  by_cases hl : less
  · rw [if_pos hl]
    have hlt := key.mpr (hless.mp hl)
    have e1 : nd + (D2 - 1) - 1 = nd + D2 - 2 := by omega
    have e2 : nd + (D2 - 1) = nd + D2 - 1 := by omega
    rw [e1, e2]
    exact ⟨hlow, hlt⟩
  · rw [if_neg hl]
    have hge : ¬ P * 2 ^ k < 10 ^ (nd + D2 - 1) := fun hh => hl (hless.mpr (key.mp hh))
    have e1 : nd + (D2 - 0) - 1 = nd + D2 - 1 := by omega
    have e2 : nd + (D2 - 0) = nd + D2 := by omega
    rw [e1, e2]
    exact ⟨by omega, hup⟩

/-! ## writing the product from the right -/

/-- the number written by `n` digits starting at `lo` -/
def seg (d : Array UInt8) (lo : Nat) : Nat → Nat
  | 0 => 0
  | n+1 => seg d lo n * 10 + dig d (lo + n)

theorem seg_zero (d : Array UInt8) : ∀ n, seg d 0 n = val d n := by
  intro n
  induction n with
  | zero => rfl
  | succ n ih => simp only [seg, val, ih, Nat.zero_add]

theorem seg_cons (d : Array UInt8) : ∀ (n lo : Nat), seg d lo (n + 1) = dig d lo * 10 ^ n + seg d (lo + 1) n := by
  intro n
  induction n with
  | zero => intro lo; simp [seg]
  | succ n ih =>
    intro lo
    have h1 : seg d lo (n + 1 + 1) = seg d lo (n + 1) * 10 + dig d (lo + (n + 1)) := rfl
    have h2 : seg d (lo + 1) (n + 1) = seg d (lo + 1) n * 10 + dig d (lo + 1 + n) := rfl
    rw [h1, ih lo, h2, Nat.pow_succ]
    have : lo + (n + 1) = lo + 1 + n := by omega
    rw [this]; ring

theorem seg_set_out (d : Array UInt8) (i : Nat) (v : UInt8) (hi : i < d.size) :
    ∀ (n lo : Nat), (i < lo ∨ lo + n ≤ i) → seg (d.set! i v) lo n = seg d lo n := by
  intro n
  induction n with
  | zero => intro lo _; rfl
  | succ n ih =>
    intro lo h
    simp only [seg]
    rw [ih lo (by omega), dig_set_ne d i (lo + n) v hi (by omega)]

theorem seg_lt (d : Array UInt8) (lo : Nat) : ∀ n, (∀ i, lo ≤ i → i < lo + n → dig d i ≤ 9) → seg d lo n < 10 ^ n := by
  intro n
  induction n with
  | zero => intro _; simp [seg]
  | succ n ih =>
    intro h
    have := ih (fun i h1 h2 => h i h1 (by omega))
    have h9 := h (lo + n) (by omega) (by omega)
    simp only [seg, Nat.pow_succ]
    omega

theorem lsPut_nat (d : Array UInt8) (w rem : Nat) (tr : Bool) (hw : 1 ≤ w) :
    lsPut d ((w : ℤ) - 1) rem tr =
      if w - 1 < d.size then some (d.set! (w - 1) (UInt8.ofNat (rem + 48)), tr) else some (d, tr || rem != 0) := by
  have h1 : ¬ ((w : ℤ) - 1 < 0) := by omega
  have h2 : ((w : ℤ) - 1).toNat = w - 1 := by omega
  simp only [lsPut, h1, if_false, h2]

theorem lsPut_sticky (d d' : Array UInt8) (w : ℤ) (rem : Nat) (tr' : Bool) (h : lsPut d w rem true = some (d', tr')) : tr' = true := by
  simp only [lsPut] at h
  split at h
  · cases h
  · split at h
    · injection h with h; injection h with _ h2; exact h2.symm
    · injection h with h; injection h with _ h2; rw [← h2]; rfl

theorem lsMain_sticky (k : Nat) : ∀ (r : Nat) (w : ℤ) (n : Nat) (d : Array UInt8) (w' : ℤ) (n' : Nat) (d' : Array UInt8) (tr' : Bool),
    lsMain k r w n d true = some (w', n', d', tr') → tr' = true := by
  intro r
  induction r with
  | zero => intro w n d w' n' d' tr' h; simp only [lsMain] at h; injection h with h; injection h with _ h; injection h with _ h; injection h with _ h; exact h.symm
  | succ r ih =>
    intro w n d w' n' d' tr' h
    simp only [lsMain] at h
    cases hp : lsPut d (w - 1) (n + (d[r]!.toNat - 48) <<< k - 10 * ((n + (d[r]!.toNat - 48) <<< k) / 10)) true with
    | none => rw [hp] at h; cases h
    | some pr =>
      obtain ⟨d1, tr1⟩ := pr
      rw [hp] at h
      have := lsPut_sticky _ _ _ _ _ hp
      subst this
      exact ih _ _ _ _ _ _ _ h

theorem lsExtra_sticky : ∀ (fuel : Nat) (w : ℤ) (n : Nat) (d d' : Array UInt8) (tr' : Bool),
    lsExtra fuel w n d true = some (d', tr') → tr' = true := by
  intro fuel
  induction fuel with
  | zero => intro w n d d' tr' h; simp only [lsExtra] at h; injection h with h; injection h with _ h; exact h.symm
  | succ fuel ih =>
    intro w n d d' tr' h
    simp only [lsExtra] at h
    split at h
    · cases hp : lsPut d (w - 1) (n - 10 * (n / 10)) true with
      | none => rw [hp] at h; cases h
      | some pr =>
        obtain ⟨d1, tr1⟩ := pr
        rw [hp] at h
        have := lsPut_sticky _ _ _ _ _ hp
        subst this
        exact ih _ _ _ _ _ h
    · injection h with h; injection h with _ h; exact h.symm

/-- digits stored between `w` and the capacity are ASCII digits -/
def OkFrom (d : Array UInt8) (w c : Nat) : Prop := ∀ i, w ≤ i → i < c → 48 ≤ d[i]!.toNat ∧ d[i]!.toNat ≤ 57

/-- putting one digit down at `w - 1` (`W = w + e` is the full width, digits at 800 and beyond are dropped) -/
theorem put_spec (d : Array UInt8) (w e W rem : Nat) (tr : Bool) (hsz : d.size = 800) (hw1 : 1 ≤ w) (hwe : w + e = W)
    (hrem : rem ≤ 9) (hok : OkFrom d w (min W 800)) :
    ∃ d' tr', lsPut d ((w : ℤ) - 1) rem tr = some (d', tr') ∧ d'.size = 800 ∧ (∀ i, i < w - 1 → d'[i]! = d[i]!) ∧
      OkFrom d' (w - 1) (min W 800) ∧ (tr = true → tr' = true) ∧
      (tr' = false → tr = false ∧
        seg d' (w - 1) (min W 800 - (w - 1)) * 10 ^ (W - min W 800) = rem * 10 ^ e + seg d w (min W 800 - w) * 10 ^ (W - min W 800)) := by
  rw [lsPut_nat d w rem tr hw1]
  by_cases hfit : w - 1 < d.size
  · rw [if_pos hfit]
    have hw800 : w - 1 < 800 := by omega
    have hc : min W 800 - (w - 1) = (min W 800 - w) + 1 := by omega
    refine ⟨_, _, rfl, by rw [size_set!]; exact hsz, ?_, ?_, fun h => h, fun htr => ⟨htr, ?_⟩⟩
    · intro i hi
      rw [getElem!_set! d (w - 1) i _ hfit, if_neg (by omega)]
    · intro i h1 h2
      by_cases hiw : i = w - 1
      · subst hiw; exact byte_set_self d _ _ hfit hrem
      · rw [getElem!_set! d (w - 1) i _ hfit, if_neg hiw]; exact hok i (by omega) h2
    · rw [hc, seg_cons, dig_set_self d (w - 1) rem hfit hrem]
      have hw' : w - 1 + 1 = w := by omega
      rw [hw', seg_set_out d (w - 1) _ hfit _ w (by omega)]
      have hexp : (min W 800 - w) + (W - min W 800) = e := by omega
      rw [Nat.add_mul, Nat.mul_assoc, ← Nat.pow_add, hexp]
  · rw [if_neg hfit]
    have hw800 : 800 ≤ w - 1 := by omega
    have hc1 : min W 800 - (w - 1) = 0 := by omega
    have hc2 : min W 800 - w = 0 := by omega
    refine ⟨_, _, rfl, hsz, fun _ _ => rfl, ?_, fun h => by simp [h], fun htr => ?_⟩
    · intro i h1 h2; omega
    · -- nothing was dropped that matters: the digit is 0
      have htr' : tr = false ∧ (rem != 0) = false := by
        simpa [Bool.or_eq_false_iff] using htr
      have hr0 : rem = 0 := by simpa using htr'.2
      refine ⟨htr'.1, ?_⟩
      rw [hc1, hc2, hr0]; simp [seg]

/-- the first loop of `leftShift`: from the last digit to the first; `W = nd + delta` is the predicted width -/
theorem lsMain_spec (k nd delta : Nat) (d0 : Array UInt8) (h0 : DigitsOK d0 nd) :
    ∀ (r n : Nat) (d : Array UInt8) (tr : Bool), r ≤ nd → d.size = 800 → (∀ i, i < r → d[i]! = d0[i]!) → n < 2 ^ k →
      OkFrom d (delta + r) (min (nd + delta) 800) →
      (tr = false → (val d0 r * 2 ^ k + n) * 10 ^ (nd - r) +
          seg d (delta + r) (min (nd + delta) 800 - (delta + r)) * 10 ^ (nd + delta - min (nd + delta) 800) = val d0 nd * 2 ^ k) →
      ∃ n' d' tr', lsMain k r ((delta + r : ℕ) : ℤ) n d tr = some (((delta : ℕ) : ℤ), n', d', tr') ∧ d'.size = 800 ∧ n' < 2 ^ k ∧
        OkFrom d' delta (min (nd + delta) 800) ∧ (tr = true → tr' = true) ∧
        (tr' = false → tr = false ∧ n' * 10 ^ nd +
          seg d' delta (min (nd + delta) 800 - delta) * 10 ^ (nd + delta - min (nd + delta) 800) = val d0 nd * 2 ^ k) := by
  intro r
  induction r with
  | zero =>
    intro n d tr _ hsz _ hn hok hval
    refine ⟨n, d, tr, by simp [lsMain], hsz, hn, by simpa using hok, fun h => h, fun htr => ⟨htr, ?_⟩⟩
    have := hval htr
    simpa [val] using this
  | succ r ih =>
    intro n d tr hr hsz hsame hn hok hval
    simp only [lsMain]
    have hp : 0 < 2 ^ k := by positivity
    have hx9 : dig d0 r ≤ 9 := dig_le9 h0 (by omega)
    have hdr : d[r]! = d0[r]! := hsame r (Nat.lt_succ_self r)
    rw [hdr, Nat.shiftLeft_eq]
    have hxdef : d0[r]!.toNat - 48 = dig d0 r := rfl
    rw [hxdef]
    generalize hn1 : n + dig d0 r * 2 ^ k = n1
    have hn1lt : n1 < 10 * 2 ^ k := by
      have : dig d0 r * 2 ^ k ≤ 9 * 2 ^ k := Nat.mul_le_mul_right _ hx9
      omega
    have hrem : n1 - 10 * (n1 / 10) = n1 % 10 := by omega
    have hrem9 : n1 % 10 ≤ 9 := by omega
    rw [hrem]
    have hwcast : (((delta + (r + 1) : ℕ) : ℤ) - 1) = (((delta + (r + 1)) : ℕ) : ℤ) - 1 := rfl
    obtain ⟨d1, tr1, hput, hsz1, hlow1, hok1, hst1, hval1⟩ := put_spec d (delta + (r + 1)) (nd - (r + 1)) (nd + delta) (n1 % 10) tr hsz
      (by omega) (by omega) hrem9 hok
    rw [hput]
    simp only []
    have hw' : delta + (r + 1) - 1 = delta + r := by omega
    rw [hw'] at hlow1 hok1 hval1
    have hcast : (((delta + (r + 1) : ℕ) : ℤ) - 1) = ((delta + r : ℕ) : ℤ) := by omega
    rw [hcast]
    have hquo : n1 / 10 < 2 ^ k := by
      rw [Nat.div_lt_iff_lt_mul (by norm_num)]; omega
    obtain ⟨n', d', tr', hres, hsz', hn', hok', hst', hval'⟩ := ih (n1 / 10) d1 tr1 (by omega) hsz1
      (fun i hi => by rw [hlow1 i (by omega)]; exact hsame i (by omega)) hquo hok1
      (by
        intro htr1
        obtain ⟨htr, hv⟩ := hval1 htr1
        have hv0 := hval htr
        rw [hv]
        -- (val d0 r·2^k + quo)·10^(nd-r) + rem·10^(nd-r-1) + L = (val d0 (r+1)·2^k + n)·10^(nd-r-1) + L
        have he : nd - r = (nd - (r + 1)) + 1 := by omega
        rw [he, Nat.pow_succ]
        have hdm := Nat.div_add_mod n1 10
        simp only [val] at hv0
        have : (val d0 r * 2 ^ k + n1 / 10) * (10 ^ (nd - (r + 1)) * 10) + (n1 % 10 * 10 ^ (nd - (r + 1)) +
            seg d (delta + (r + 1)) (min (nd + delta) 800 - (delta + (r + 1))) * 10 ^ (nd + delta - min (nd + delta) 800)) =
            ((val d0 r * 10 + dig d0 r) * 2 ^ k + n) * 10 ^ (nd - (r + 1)) +
              seg d (delta + (r + 1)) (min (nd + delta) 800 - (delta + (r + 1))) * 10 ^ (nd + delta - min (nd + delta) 800) := by
          have e1 : (val d0 r * 2 ^ k + n1 / 10) * (10 ^ (nd - (r + 1)) * 10) + n1 % 10 * 10 ^ (nd - (r + 1)) =
              (val d0 r * 2 ^ k * 10 + (10 * (n1 / 10) + n1 % 10)) * 10 ^ (nd - (r + 1)) := by ring
          rw [← Nat.add_assoc, e1, hdm, ← hn1]; ring
        rw [this, hv0])
    exact ⟨n', d', tr', hres, hsz', hn', hok', fun h => hst' (hst1 h), fun h => by
      obtain ⟨a, b⟩ := hval' h
      exact ⟨(hval1 a).1, b⟩⟩

/-- the carry that leaves the first loop is the high part of the product (whatever the `trunc` flag says) -/
theorem lsMain_carry (k nd delta : Nat) (d0 : Array UInt8) (h0 : DigitsOK d0 nd) :
    ∀ (r n : Nat) (d : Array UInt8) (tr : Bool) (w' : ℤ) (n' : Nat) (d' : Array UInt8) (tr' : Bool), r ≤ nd → d.size = 800 →
      (∀ i, i < r → d[i]! = d0[i]!) →
      lsMain k r ((delta + r : ℕ) : ℤ) n d tr = some (w', n', d', tr') →
      n' * 10 ^ r ≤ val d0 r * 2 ^ k + n ∧ val d0 r * 2 ^ k + n < (n' + 1) * 10 ^ r := by
  intro r
  induction r with
  | zero =>
    intro n d tr w' n' d' tr' _ _ _ h
    simp only [lsMain] at h
    injection h with h; injection h with _ h; injection h with h _
    subst h
    simp [val]
  | succ r ih =>
    intro n d tr w' n' d' tr' hr hsz hsame h
    simp only [lsMain] at h
    have hdr : d[r]! = d0[r]! := hsame r (Nat.lt_succ_self r)
    rw [hdr, Nat.shiftLeft_eq] at h
    have hxdef : d0[r]!.toNat - 48 = dig d0 r := rfl
    rw [hxdef] at h
    generalize hn1 : n + dig d0 r * 2 ^ k = n1 at h
    have hcast : (((delta + (r + 1) : ℕ) : ℤ) - 1) = ((delta + r : ℕ) : ℤ) := by omega
    have hw1 : 1 ≤ delta + (r + 1) := by omega
    rw [lsPut_nat d (delta + (r + 1)) _ tr hw1] at h
    have hw' : delta + (r + 1) - 1 = delta + r := by omega
    rw [hw', hcast] at h
    have hdm := Nat.div_add_mod n1 10
    have hmod : n1 % 10 < 10 := Nat.mod_lt _ (by norm_num)
    have fin : ∀ (d1 : Array UInt8) (tr1 : Bool), d1.size = 800 → (∀ i, i < r → d1[i]! = d0[i]!) →
        lsMain k r ((delta + r : ℕ) : ℤ) (n1 / 10) d1 tr1 = some (w', n', d', tr') →
        n' * 10 ^ (r + 1) ≤ val d0 (r + 1) * 2 ^ k + n ∧ val d0 (r + 1) * 2 ^ k + n < (n' + 1) * 10 ^ (r + 1) := by
      intro d1 tr1 hs1 hsm1 hh
      obtain ⟨a, b⟩ := ih (n1 / 10) d1 tr1 w' n' d' tr' (by omega) hs1 hsm1 hh
      simp only [val, Nat.pow_succ]
      have e : (val d0 r * 10 + dig d0 r) * 2 ^ k + n = (val d0 r * 2 ^ k + n1 / 10) * 10 + n1 % 10 := by
        have : (val d0 r * 10 + dig d0 r) * 2 ^ k + n = val d0 r * 2 ^ k * 10 + (n + dig d0 r * 2 ^ k) := by ring
        rw [this, hn1]; omega
      rw [e]
      constructor
      · calc n' * (10 ^ r * 10) = (n' * 10 ^ r) * 10 := by ring
          _ ≤ (val d0 r * 2 ^ k + n1 / 10) * 10 := Nat.mul_le_mul_right _ a
          _ ≤ _ := by omega
      · have : (val d0 r * 2 ^ k + n1 / 10) + 1 ≤ (n' + 1) * 10 ^ r := b
        calc (val d0 r * 2 ^ k + n1 / 10) * 10 + n1 % 10 < ((val d0 r * 2 ^ k + n1 / 10) + 1) * 10 := by omega
          _ ≤ ((n' + 1) * 10 ^ r) * 10 := Nat.mul_le_mul_right _ this
          _ = (n' + 1) * (10 ^ r * 10) := by ring
    by_cases hfit : delta + r < d.size
    · rw [if_pos hfit] at h
      simp only [] at h
      exact fin _ tr (by rw [size_set!]; exact hsz)
        (fun i hi => by rw [getElem!_set! d (delta + r) i _ hfit, if_neg (by omega)]; exact hsame i (by omega)) h
    · rw [if_neg hfit] at h
      simp only [] at h
      exact fin d _ hsz (fun i hi => hsame i (by omega)) h

/-- the second loop of `leftShift`: the carry `n` has exactly `w` digits, so the write index ends at 0 -/
theorem lsExtra_spec (W : Nat) :
    ∀ (fuel w n e : Nat) (d : Array UInt8) (tr : Bool), w ≤ fuel → w + e = W → d.size = 800 → n < 10 ^ w → (1 ≤ w → 10 ^ (w - 1) ≤ n) →
      OkFrom d w (min W 800) →
      ∃ d' tr', lsExtra fuel (w : ℤ) n d tr = some (d', tr') ∧ d'.size = 800 ∧ OkFrom d' 0 (min W 800) ∧ (tr = true → tr' = true) ∧
        (tr' = false → tr = false ∧
          seg d' 0 (min W 800) * 10 ^ (W - min W 800) = n * 10 ^ e + seg d w (min W 800 - w) * 10 ^ (W - min W 800)) := by
  intro fuel
  induction fuel with
  | zero =>
    intro w n e d tr hf hwe hsz hn _ hok
    have hw0 : w = 0 := by omega
    subst hw0
    have hn0 : n = 0 := by simpa using hn
    subst hn0
    refine ⟨d, tr, by simp [lsExtra], hsz, hok, fun h => h, fun h => ⟨h, by simp⟩⟩
  | succ fuel ih =>
    intro w n e d tr hf hwe hsz hn hnlo hok
    simp only [lsExtra]
    by_cases hn0 : n > 0
    · rw [if_pos hn0]
      have hw1 : 1 ≤ w := by
        by_contra hc
        have : w = 0 := by omega
        subst this
        simp at hn; omega
      have hrem : n - 10 * (n / 10) = n % 10 := by omega
      have hrem9 : n % 10 ≤ 9 := by omega
      rw [hrem]
      obtain ⟨d1, tr1, hput, hsz1, _, hok1, hst1, hval1⟩ := put_spec d w e W (n % 10) tr hsz hw1 hwe hrem9 hok
      rw [hput]
      simp only []
      have hcast : ((w : ℤ) - 1) = ((w - 1 : ℕ) : ℤ) := by omega
      rw [hcast]
      have hpw : 10 ^ w = 10 ^ (w - 1) * 10 := by
        rw [← Nat.pow_succ]; congr 1; omega
      obtain ⟨d', tr', hres, hsz', hok', hst', hval'⟩ := ih (w - 1) (n / 10) (e + 1) d1 tr1 (by omega) (by omega) hsz1
        (by rw [Nat.div_lt_iff_lt_mul (by norm_num), ← hpw]; exact hn)
        (by
          intro hw2
          have := hnlo hw1
          have hp2 : 10 ^ (w - 1) = 10 ^ (w - 1 - 1) * 10 := by
            rw [← Nat.pow_succ]; congr 1; omega
          rw [Nat.le_div_iff_mul_le (by norm_num), ← hp2]; exact this)
        hok1
      refine ⟨d', tr', hres, hsz', hok', fun h => hst' (hst1 h), fun h => ?_⟩
      obtain ⟨a, b⟩ := hval' h
      obtain ⟨a2, b2⟩ := hval1 a
      refine ⟨a2, ?_⟩
      rw [b, b2, Nat.pow_succ]
      have hdm := Nat.div_add_mod n 10
      have : n / 10 * (10 ^ e * 10) + (n % 10 * 10 ^ e + seg d w (min W 800 - w) * 10 ^ (W - min W 800)) =
          (10 * (n / 10) + n % 10) * 10 ^ e + seg d w (min W 800 - w) * 10 ^ (W - min W 800) := by ring
      rw [this, hdm]
    · rw [if_neg hn0]
      have hn00 : n = 0 := by omega
      subst hn00
      have hw0 : w = 0 := by
        by_contra hc
        have := hnlo (by omega)
        have : 0 < 10 ^ (w - 1) := by positivity
        omega
      subst hw0
      refine ⟨d, tr, rfl, hsz, hok, fun h => h, fun h => ⟨h, by simp⟩⟩

/-! ## the leading digit -/

theorem val_ge_of_lead (d : Array UInt8) (h1 : 1 ≤ dig d 0) : ∀ n, 1 ≤ n → 10 ^ (n - 1) ≤ val d n := by
  intro n
  induction n with
  | zero => intro h; omega
  | succ n ih =>
    intro _
    by_cases hn : n = 0
    · subst hn; simp [val]; exact h1
    · have := ih (by omega)
      simp only [val, Nat.add_sub_cancel]
      have hp : 10 ^ n = 10 ^ (n - 1) * 10 := by
        rw [← Nat.pow_succ]; congr 1; omega
      rw [hp]; omega

/-- when no carry leaves the first loop, the digit it put down last (at index `delta`) is the leading digit of the product -/
theorem lsMain_lead (k delta : Nat) (hk : 1 ≤ k) (d0 : Array UInt8) (hlead : 1 ≤ dig d0 0) :
    ∀ (r n : Nat) (d : Array UInt8) (tr : Bool) (w' : ℤ) (d' : Array UInt8) (tr' : Bool), 1 ≤ r → d.size = 800 → delta < 800 →
      (∀ i, i < r → d[i]! = d0[i]!) →
      lsMain k r ((delta + r : ℕ) : ℤ) n d tr = some (w', 0, d', tr') → 1 ≤ dig d' delta := by
  intro r
  induction r with
  | zero => intro n d tr w' d' tr' h; omega
  | succ r ih =>
    intro n d tr w' d' tr' _ hsz hdl hsame h
    simp only [lsMain] at h
    have hdr : d[r]! = d0[r]! := hsame r (Nat.lt_succ_self r)
    rw [hdr, Nat.shiftLeft_eq] at h
    have hxdef : d0[r]!.toNat - 48 = dig d0 r := rfl
    rw [hxdef] at h
    generalize hn1 : n + dig d0 r * 2 ^ k = n1 at h
    have hcast : (((delta + (r + 1) : ℕ) : ℤ) - 1) = ((delta + r : ℕ) : ℤ) := by omega
    rw [lsPut_nat d (delta + (r + 1)) _ tr (by omega)] at h
    have hw' : delta + (r + 1) - 1 = delta + r := by omega
    rw [hw', hcast] at h
    by_cases hr0 : r = 0
    · subst hr0
      -- the last step: the whole sum is the digit
      simp only [Nat.add_zero] at h
      have hfit : delta < d.size := by omega
      rw [if_pos hfit] at h
      simp only [lsMain] at h
      injection h with h; injection h with _ h; injection h with hq h; injection h with hd _
      have hlt10 : n1 < 10 := by omega
      have hge : 1 ≤ n1 := by
        rw [← hn1]
        have : 1 ≤ 2 ^ k := Nat.one_le_two_pow
        have : 1 * 1 ≤ dig d0 0 * 2 ^ k := Nat.mul_le_mul hlead this
        omega
      rw [← hd]
      have hrem : n1 - 10 * (n1 / 10) = n1 := by omega
      rw [hrem, dig_set_self d delta n1 hfit (by omega)]
      exact hge
    · by_cases hfit : delta + r < d.size
      · rw [if_pos hfit] at h
        simp only [] at h
        exact ih _ _ tr w' d' tr' (by omega) (by rw [size_set!]; exact hsz) hdl
          (fun i hi => by rw [getElem!_set! d (delta + r) i _ hfit, if_neg (by omega)]; exact hsame i (by omega)) h
      · rw [if_neg hfit] at h
        simp only [] at h
        exact ih _ d _ w' d' tr' (by omega) hsz hdl (fun i hi => hsame i (by omega)) h

theorem lsExtra_zero (fuel : Nat) (w : ℤ) (d : Array UInt8) (tr : Bool) : lsExtra fuel w 0 d tr = some (d, tr) := by
  cases fuel <;> simp [lsExtra]

/-- the second loop puts the leading digit of the carry at index 0 -/
theorem lsExtra_lead : ∀ (fuel w n : Nat) (d : Array UInt8) (tr : Bool) (d' : Array UInt8) (tr' : Bool), 1 ≤ w → w ≤ fuel → d.size = 800 →
    w ≤ 800 → n < 10 ^ w → 10 ^ (w - 1) ≤ n → lsExtra fuel (w : ℤ) n d tr = some (d', tr') → 1 ≤ dig d' 0 := by
  intro fuel
  induction fuel with
  | zero => intro w n d tr d' tr' hw hf; omega
  | succ fuel ih =>
    intro w n d tr d' tr' hw hf hsz hw8 hn hlo h
    have hnpos : 0 < n := by
      have : 0 < 10 ^ (w - 1) := by positivity
      omega
    simp only [lsExtra] at h
    rw [if_pos hnpos] at h
    rw [lsPut_nat d w _ tr hw] at h
    have hfit : w - 1 < d.size := by omega
    rw [if_pos hfit] at h
    simp only [] at h
    have hcast : ((w : ℤ) - 1) = ((w - 1 : ℕ) : ℤ) := by omega
    rw [hcast] at h
    by_cases hw1 : w = 1
    · subst hw1
      have hlt : n < 10 := by simpa using hn
      have hq : n / 10 = 0 := by omega
      rw [hq, lsExtra_zero] at h
      injection h with h; injection h with hd _
      rw [← hd]
      have hrem : n - 10 * 0 = n := by omega
      rw [hrem]
      simp only [Nat.sub_self]
      rw [dig_set_self d 0 n (by omega) (by omega)]
      exact hnpos
    · have hpw : 10 ^ w = 10 ^ (w - 1) * 10 := by
        rw [← Nat.pow_succ]; congr 1; omega
      have hp2 : 10 ^ (w - 1) = 10 ^ (w - 1 - 1) * 10 := by
        rw [← Nat.pow_succ]; congr 1; omega
      exact ih (w - 1) (n / 10) _ tr d' tr' (by omega) (by omega) (by rw [size_set!]; exact hsz) (by omega)
        (by rw [Nat.div_lt_iff_lt_mul (by norm_num), ← hpw]; exact hn)
        (by rw [Nat.le_div_iff_mul_le (by norm_num), ← hp2]; exact hlo) h

/-! ## the cheat table, decided by the kernel -/

def digitsOKb (cs : Array UInt8) : Bool :=
  (List.range cs.size).all (fun i => decide (48 ≤ cs[i]!.toNat) && decide (cs[i]!.toNat ≤ 57))

theorem digitsOKb_spec (cs : Array UInt8) (h : digitsOKb cs = true) : DigitsOK cs cs.size := by
  intro i hi
  simp only [digitsOKb, List.all_eq_true, List.mem_range, Bool.and_eq_true, decide_eq_true_eq] at h
  exact h i hi

def cheatOK (k : Nat) : Bool :=
  k == 0 ||
    match Gen.leftCheats[k]? with
    | none => false
    | some (D2, s) =>
      digitsOKb s.toUTF8.data && val s.toUTF8.data s.toUTF8.data.size == 5 ^ k && s.toUTF8.data.size + D2 == k + 1 &&
        decide (1 ≤ D2) && decide (10 ^ (D2 - 1) ≤ 2 ^ k) && decide (2 ^ k < 10 ^ D2) && decide (1 ≤ s.toUTF8.data.size)

set_option maxRecDepth 100000 in
theorem cheat_all : allBelow cheatOK 61 = true := by decide +kernel

theorem cheat_facts (k : Nat) (hk1 : 1 ≤ k) (hk : k ≤ 60) :
    ∃ (D2 : Nat) (s : String), Gen.leftCheats[k]? = some (D2, s) ∧ DigitsOK s.toUTF8.data s.toUTF8.data.size ∧
      val s.toUTF8.data s.toUTF8.data.size = 5 ^ k ∧ s.toUTF8.data.size + D2 = k + 1 ∧ 1 ≤ D2 ∧ 10 ^ (D2 - 1) ≤ 2 ^ k ∧
      2 ^ k < 10 ^ D2 ∧ 1 ≤ s.toUTF8.data.size := by
  have h := allBelow_spec cheat_all k (by omega)
  have hk0 : (k == 0) = false := by
    apply beq_eq_false_iff_ne.mpr; omega
  simp only [cheatOK, hk0, Bool.false_or] at h
  cases hc : Gen.leftCheats[k]? with
  | none => rw [hc] at h; cases h
  | some pr =>
    obtain ⟨D2, s⟩ := pr
    rw [hc] at h
    simp only [Bool.and_eq_true, beq_iff_eq, decide_eq_true_eq] at h
    obtain ⟨⟨⟨⟨⟨⟨h1, h2⟩, h3⟩, h4⟩, h5⟩, h6⟩, h7⟩ := h
    exact ⟨D2, s, rfl, digitsOKb_spec _ h1, h2, h3, h4, h5, h6, h7⟩

/-! ## prefixes -/

theorem val_split (d : Array UInt8) (m : Nat) : ∀ j, val d (m + j) = val d m * 10 ^ j + seg d m j := by
  intro j
  induction j with
  | zero => simp [seg]
  | succ j ih =>
    have h1 : val d (m + (j + 1)) = val d (m + j) * 10 + dig d (m + j) := rfl
    rw [h1, ih]
    simp only [seg, Nat.pow_succ]; ring

theorem val_prefix (d : Array UInt8) (n m : Nat) (hm : m ≤ n) (hd : DigitsOK d n) : val d m = val d n / 10 ^ (n - m) := by
  have h := val_split d m (n - m)
  have hnm : m + (n - m) = n := by omega
  rw [hnm] at h
  have hs := seg_lt d m (n - m) (fun i h1 h2 => dig_le9 hd (by omega))
  rw [h]
  have hp : 0 < 10 ^ (n - m) := by positivity
  rw [Nat.mul_comm, Nat.mul_add_div hp, Nat.div_eq_of_lt hs, Nat.add_zero]

theorem extract_get (d : Array UInt8) (n i : Nat) (hn : n ≤ d.size) (hi : i < n) : (d.extract 0 n)[i]! = d[i]! := by
  have h1 : i < (d.extract 0 n).size := by simp; omega
  have h2 : i < d.size := by omega
  rw [getElem!_pos _ i h1, getElem!_pos d i h2]
  simp

theorem val_extract (d : Array UInt8) (n : Nat) (hn : n ≤ d.size) : ∀ m, m ≤ n → val (d.extract 0 n) m = val d m := by
  intro m
  induction m with
  | zero => intro _; rfl
  | succ m ih =>
    intro hm
    simp only [val, dig]
    rw [ih (by omega), extract_get d n m hn (by omega)]

/-! ## `leftShift` -/

set_option maxRecDepth 10000 in
/-- **`leftShift(a, k)`** never indexes out of range (the cheat table predicts the width exactly), returns a decimal
    in normal form, and when the `trunc` flag is off afterwards it was off before and the value is exactly `a · 2^k` -/
theorem leftShift_spec (a : Decimal) (h : WF a) (hnz : NZ a) (hnd : 1 ≤ a.nd) (k : Nat) (hk1 : 1 ≤ k) (hk : k ≤ 60) :
    ∃ b, leftShift a k = some b ∧ WF b ∧ NZ b ∧ Trimmed b ∧ 1 ≤ b.nd ∧ b.neg = a.neg ∧
      (b.trunc = false → a.trunc = false ∧ aval b = aval a * 2 ^ k) := by
  obtain ⟨D2, s, hc, hcd, hcv, hcl, hD1, hD2a, hD2b, hL1⟩ := cheat_facts k hk1 hk
  have hlead : 1 ≤ dig a.d 0 := hnz hnd
  have hP1 : 10 ^ (a.nd - 1) ≤ val a.d a.nd := val_ge_of_lead a.d hlead a.nd hnd
  have hP2 : val a.d a.nd < 10 ^ a.nd := val_lt a.d a.nd h.digits
  generalize hcs : s.toUTF8.data = cs at hcd hcv hcl hL1
  -- the comparison with the cutoff
  have hbsz : (a.d.extract 0 a.nd).size = a.nd := by simp [h.size]; exact h.nd
  have hbok : DigitsOK (a.d.extract 0 a.nd) (a.d.extract 0 a.nd).size := by
    rw [hbsz]; intro i hi
    rw [extract_get a.d a.nd i (by rw [h.size]; exact h.nd) hi]; exact h.digits i hi
  have hless := prefixLess_spec (a.d.extract 0 a.nd) cs hbok hcd
  rw [hbsz] at hless
  have hless' : (prefixIsLessThan (a.d.extract 0 a.nd) cs = true) ↔
      (if cs.size ≤ a.nd then val a.d a.nd / 10 ^ (a.nd - cs.size) < 5 ^ k else val a.d a.nd ≤ 5 ^ k / 10 ^ (cs.size - a.nd)) := by
    rw [hless]
    by_cases hle : cs.size ≤ a.nd
    · rw [if_pos hle, Nat.min_eq_right hle, val_extract a.d a.nd (by rw [h.size]; exact h.nd) cs.size hle,
        val_prefix a.d a.nd cs.size hle h.digits, hcv]
      constructor
      · rintro (h1 | ⟨_, h2⟩)
        · exact h1
        · omega
      · intro h1; exact .inl h1
    · rw [if_neg hle, Nat.min_eq_left (by omega), val_extract a.d a.nd (by rw [h.size]; exact h.nd) a.nd (Nat.le_refl _),
        val_prefix cs cs.size a.nd (by omega) hcd, hcv]
      constructor
      · rintro (h1 | ⟨h1, _⟩) <;> omega
      · intro h1
        rcases Nat.lt_or_eq_of_le h1 with h2 | h2
        · exact .inl h2
        · exact .inr ⟨h2, by omega⟩
  -- the predicted width
  obtain ⟨hT1, hT2⟩ := shift_digits (val a.d a.nd) a.nd k D2 cs.size hnd hP1 hP2 hD1 hD2a hD2b hcl hL1
    (prefixIsLessThan (a.d.extract 0 a.nd) cs = true) hless'
  generalize hdelta : D2 - (if prefixIsLessThan (a.d.extract 0 a.nd) cs = true then 1 else 0) = delta at hT1 hT2
  have hD19 : D2 ≤ 19 := by
    by_contra hcon
    have h1 : (10 : ℕ) ^ 19 ≤ 10 ^ (D2 - 1) := Nat.pow_le_pow_right (by norm_num) (by omega)
    have h2 : (2 : ℕ) ^ k ≤ 2 ^ 60 := Nat.pow_le_pow_right (by norm_num) hk
    have h3 : (2 : ℕ) ^ 60 < 10 ^ 19 := by norm_num
    omega
  have hdl : delta ≤ 19 := by omega
  -- unfold the code
  have hdigits : a.digits = a.d.extract 0 a.nd := rfl
  simp only [leftShift, hc, hdigits, hcs]
  have hwidth : ((a.nd : ℤ) + ((D2 : ℤ) - (if prefixIsLessThan (a.d.extract 0 a.nd) cs = true then 1 else 0))) = ((delta + a.nd : ℕ) : ℤ) := by
    by_cases hl : prefixIsLessThan (a.d.extract 0 a.nd) cs = true
    · have hd : delta = D2 - 1 := by rw [← hdelta, if_pos hl]
      rw [if_pos hl]; omega
    · have hd : delta = D2 := by rw [← hdelta, if_neg hl]; omega
      rw [if_neg hl]; omega
  have hdz : ((D2 : ℤ) - (if prefixIsLessThan (a.d.extract 0 a.nd) cs = true then 1 else 0)) = (delta : ℤ) := by omega
  rw [hwidth]
  -- the first loop
  obtain ⟨n1, d1, tr1, hm, hsz1, hn1, hok1, hst1, hval1⟩ := lsMain_spec k a.nd delta a.d h.digits a.nd 0 a.d a.trunc (Nat.le_refl _)
    h.size (fun _ _ => rfl) (by positivity) (fun i h1 h2 => by omega) (by
      intro _
      have : min (a.nd + delta) 800 - (delta + a.nd) = 0 := by omega
      rw [this]; simp [seg])
  rw [hm]
  simp only []
  obtain ⟨c1, c2⟩ := lsMain_carry k a.nd delta a.d h.digits a.nd 0 a.d a.trunc _ n1 d1 tr1 (Nat.le_refl _) h.size (fun _ _ => rfl) hm
  simp only [Nat.add_zero] at c1 c2
  have hn1hi : n1 < 10 ^ delta := by
    have : n1 * 10 ^ a.nd < 10 ^ delta * 10 ^ a.nd := by
      rw [← Nat.pow_add, Nat.add_comm delta a.nd]; omega
    exact Nat.lt_of_mul_lt_mul_right this
  have hn1lo : 1 ≤ delta → 10 ^ (delta - 1) ≤ n1 := by
    intro hd1
    have h1 : 10 ^ (delta - 1) * 10 ^ a.nd < (n1 + 1) * 10 ^ a.nd := by
      rw [← Nat.pow_add]
      have : delta - 1 + a.nd = a.nd + delta - 1 := by omega
      rw [this]; omega
    have := Nat.lt_of_mul_lt_mul_right h1
    omega
  -- the second loop
  obtain ⟨d2, tr2, he, hsz2, hok2, hst2, hval2⟩ := lsExtra_spec (a.nd + delta) 64 delta n1 a.nd d1 tr1 (by omega) (by omega) hsz1
    hn1hi hn1lo hok1
  rw [he]
  simp only []
  -- the result before trimming
  have hnd' : (if ((delta + a.nd : ℕ) : ℤ) ≥ (d2.size : ℤ) then d2.size
      else (((delta + a.nd : ℕ) : ℤ)).toNat) = min (a.nd + delta) 800 := by
    rw [hsz2]
    split <;> omega
  rw [hnd', hdz]
  have hwf : WF { a with d := d2, nd := min (a.nd + delta) 800, dp := a.dp + (delta : ℤ), trunc := tr2 } :=
    ⟨hsz2, by show min (a.nd + delta) 800 ≤ 800; omega, fun i hi => hok2 i (by omega) hi⟩
  have hnz2 : NZ { a with d := d2, nd := min (a.nd + delta) 800, dp := a.dp + (delta : ℤ), trunc := tr2 } := by
    intro _
    show 1 ≤ dig d2 0
    by_cases hd0 : delta = 0
    · subst hd0
      have hn0 : n1 = 0 := by simpa using hn1hi
      subst hn0
      rw [lsExtra_zero] at he
      injection he with he; injection he with he _
      rw [← he]
      have := lsMain_lead k 0 hk1 a.d hlead a.nd 0 a.d a.trunc _ d1 tr1 hnd h.size (by norm_num) (fun _ _ => rfl) hm
      exact this
    · exact lsExtra_lead 64 delta n1 d1 tr1 d2 tr2 (by omega) (by omega) hsz1 (by omega) hn1hi (hn1lo (by omega)) he
  obtain ⟨t1, t2, t3, t4⟩ := trim_spec _ hwf
  refine ⟨_, rfl, t1, trim_nz _ hnz2, trim_trimmed _, trim_pos _ hnz2 (by show 1 ≤ min (a.nd + delta) 800; omega), t3, fun htr => ?_⟩
  rw [t4] at htr
  obtain ⟨e1, e2⟩ := hval2 htr
  obtain ⟨f1, f2⟩ := hval1 e1
  refine ⟨f1, ?_⟩
  rw [t2]
  -- the value
  have hT : seg d2 0 (min (a.nd + delta) 800) * 10 ^ (a.nd + delta - min (a.nd + delta) 800) = val a.d a.nd * 2 ^ k := by
    rw [e2, f2]
  rw [seg_zero] at hT
  simp only [aval]
  have hTq : (val d2 (min (a.nd + delta) 800) : ℚ) * 10 ^ (a.nd + delta - min (a.nd + delta) 800) = (val a.d a.nd : ℚ) * 2 ^ k := by exact_mod_cast hT
  have hv : (val d2 (min (a.nd + delta) 800) : ℚ) = (val a.d a.nd : ℚ) * 2 ^ k / 10 ^ (a.nd + delta - min (a.nd + delta) 800) := by
    rw [eq_div_iff (by positivity)]; exact hTq
  rw [hv]
  have hexp : a.dp + (delta : ℤ) - ((min (a.nd + delta) 800 : ℕ) : ℤ) = (a.dp - (a.nd : ℤ)) + (((a.nd + delta - min (a.nd + delta) 800 : ℕ) : ℤ)) := by omega
  rw [hexp, zpow_add₀ (by norm_num), zpow_natCast]
  have h10 : (10 : ℚ) ^ (a.nd + delta - min (a.nd + delta) 800) ≠ 0 := by positivity
  field_simp

end RJson.Dec
