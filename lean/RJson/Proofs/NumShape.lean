import RJson.Proofs.Resume
/-!
# The shape of a JSON number literal

`scanNumber l = some rest` exactly when `l` is `sign? ip frac? exp? ++ rest` with the pieces described by `NumShape`
(maximal munch).  Both the float specification (`Spec.numberValue`) and the model of `readFloat` are evaluated on
that shape.
-/
namespace RJson.NumShape
open RJson.Spec RJson.HelpersSpec RJson.Abs

def allDigits (ds : List UInt8) : Prop := ∀ b ∈ ds, isDigit b = true
def noDigitHead (r : List UInt8) : Prop := ∀ b t, r = b :: t → isDigit b = false

theorem allDigits_nil : allDigits [] := by intro b hb; cases hb

theorem allDigits_cons {d : UInt8} {ds : List UInt8} (hd : isDigit d = true) (h : allDigits ds) : allDigits (d :: ds) := by
  intro b hb
  rcases List.mem_cons.mp hb with h1 | h1
  · rw [h1]; exact hd
  · exact h b h1

theorem allDigits_takeDigits (l : List UInt8) : allDigits (takeDigits l) := by
  induction l with
  | nil => exact allDigits_nil
  | cons b rest ih =>
    simp only [takeDigits]
    split
    · next hd => exact allDigits_cons hd ih
    · exact allDigits_nil

theorem noDigitHead_skipDigits (l : List UInt8) : noDigitHead (skipDigits l) := by
  induction l with
  | nil => intro b t h; cases h
  | cons x rest ih =>
    by_cases hd : isDigit x = true
    · rw [skipDigits_cons_digit x rest hd]; exact ih
    · have hd' : isDigit x = false := by simpa using hd
      rw [skipDigits_cons_nondigit x rest hd']
      intro b t h
      injection h with h1 _
      rw [← h1]; exact hd'

theorem takeDigits_eq_take : ∀ (l : List UInt8), takeDigits l = l.take (takeDigits l).length := by
  intro l
  induction l with
  | nil => rfl
  | cons b rest ih =>
    simp only [takeDigits]
    split
    · simp only [List.length_cons, List.take_succ_cons]
      rw [← ih]
    · rfl

theorem take_append_skip (l : List UInt8) : takeDigits l ++ skipDigits l = l := by
  rw [← drop_takeDigits l]
  conv => lhs; lhs; rw [takeDigits_eq_take l]
  exact List.take_append_drop _ _

theorem takeDigits_append (ds r : List UInt8) (hds : allDigits ds) (hr : noDigitHead r) :
    takeDigits (ds ++ r) = ds ∧ skipDigits (ds ++ r) = r := by
  induction ds with
  | nil =>
    simp only [List.nil_append]
    cases r with
    | nil => exact ⟨rfl, rfl⟩
    | cons b t =>
      have := hr b t rfl
      exact ⟨by simp [takeDigits, this], skipDigits_cons_nondigit b t this⟩
  | cons d ds ih =>
    have hd := hds d (by simp)
    obtain ⟨h1, h2⟩ := ih (fun b hb => hds b (by simp [hb]))
    simp only [List.cons_append]
    exact ⟨by simp only [takeDigits, hd, if_true]; rw [h1], by rw [skipDigits_cons_digit d _ hd]; exact h2⟩

/-- the fraction part: nothing, or `.` and digits -/
def fracL : List UInt8 → List UInt8
  | [] => []
  | d :: ds => 46 :: d :: ds

/-- the exponent part: nothing, or `e`/`E`, an optional sign, digits -/
def expL (ec : UInt8) (sg : List UInt8) : List UInt8 → List UInt8
  | [] => []
  | d :: ds => ec :: (sg ++ d :: ds)

structure Shape (l : List UInt8) (neg : Bool) (ip fp : List UInt8) (ec : UInt8) (sg eds rest : List UInt8) : Prop where
  eq : l = (if neg then [45] else []) ++ (ip ++ (fracL fp ++ (expL ec sg eds ++ rest)))
  ipDigits : allDigits ip
  ipNe : ip ≠ []
  ipLead : ip = [48] ∨ ∀ t, ip ≠ 48 :: t
  fpDigits : allDigits fp
  edsDigits : allDigits eds
  ecE : (ec == 101 || ec == 69) = true
  sgS : sg = [] ∨ sg = [43] ∨ sg = [45]
  ipStop : ip ≠ [48] → noDigitHead (fracL fp ++ (expL ec sg eds ++ rest))
  noDot : fp = [] → ∀ t, expL ec sg eds ++ rest ≠ 46 :: t
  fpStop : fp ≠ [] → noDigitHead (expL ec sg eds ++ rest)
  noE : eds = [] → ∀ c t, rest = c :: t → (c == 101 || c == 69) = false
  edsStop : eds ≠ [] → noDigitHead rest

/-- shape of the optional exponent -/
theorem exp_shape (r rest : List UInt8) (h : scanExp r = some rest) :
    ∃ ec sg eds, r = expL ec sg eds ++ rest ∧ allDigits eds ∧ (ec == 101 || ec == 69) = true ∧
      (sg = [] ∨ sg = [43] ∨ sg = [45]) ∧ (eds = [] → ∀ c t, rest = c :: t → (c == 101 || c == 69) = false) ∧
      (eds ≠ [] → noDigitHead rest) := by
  cases r with
  | nil =>
    simp only [scanExp] at h
    injection h with h; subst h
    exact ⟨101, [], [], rfl, allDigits_nil, by decide, .inl rfl, fun _ c t hh => (by cases hh), fun hh => absurd rfl hh⟩
  | cons e t =>
    by_cases he : (e == 101 || e == 69) = true
    · rw [scanExp_e e t he] at h
      -- sign?
      have digits_case : ∀ (sg : List UInt8) (t1 : List UInt8), (sg = [] ∨ sg = [43] ∨ sg = [45]) → t = sg ++ t1 →
          digitsTail t1 = some rest → ∃ ec sg eds, e :: t = expL ec sg eds ++ rest ∧ allDigits eds ∧ (ec == 101 || ec == 69) = true ∧
            (sg = [] ∨ sg = [43] ∨ sg = [45]) ∧ (eds = [] → ∀ c t, rest = c :: t → (c == 101 || c == 69) = false) ∧
            (eds ≠ [] → noDigitHead rest) := by
        intro sg t1 hsg ht hd
        cases t1 with
        | nil => simp [digitsTail] at hd
        | cons d t2 =>
          simp only [digitsTail] at hd
          by_cases hdd : isDigit d = true
          · simp only [hdd, if_true] at hd
            injection hd with hd
            refine ⟨e, sg, d :: takeDigits t2, ?_, allDigits_cons hdd (allDigits_takeDigits t2), he, hsg, fun hh => (by cases hh), fun _ => ?_⟩
            · simp only [expL]
              rw [ht, ← hd]
              simp only [List.cons_append, List.append_assoc]
              rw [take_append_skip]
            · rw [← hd]; exact noDigitHead_skipDigits t2
          · simp [hdd] at hd
      cases t with
      | nil => rw [expTail_nil] at h; cases h
      | cons s t' =>
        by_cases hs : (s == 43 || s == 45) = true
        · rw [expTail_sign s t' hs] at h
          have hs' : s = 43 ∨ s = 45 := by simpa using hs
          refine digits_case [s] t' ?_ rfl h
          rcases hs' with rfl | rfl
          · exact .inr (.inl rfl)
          · exact .inr (.inr rfl)
        · have hs' : (s == 43 || s == 45) = false := by simpa using hs
          rw [expTail_nosign s t' hs'] at h
          exact digits_case [] (s :: t') (.inl rfl) rfl h
    · have he' : (e == 101 || e == 69) = false := by simpa using he
      rw [scanExp_other e t he'] at h
      injection h with h; subst h
      refine ⟨101, [], [], rfl, allDigits_nil, by decide, .inl rfl, ?_, fun hh => absurd rfl hh⟩
      intro _ c t' hh
      injection hh with h1 _
      rw [← h1]; exact he'

theorem expL_not_dot (ec : UInt8) (sg eds rest : List UInt8) (hec : (ec == 101 || ec == 69) = true)
    (hnoE : eds = [] → ∀ c t, rest = c :: t → (c == 101 || c == 69) = false) (b : UInt8) (t : List UInt8)
    (hb : (b == 101 || b == 69) = false) (hne : ∀ t', b :: t ≠ 46 :: t') (heq : b :: t = expL ec sg eds ++ rest) :
    ∀ t', expL ec sg eds ++ rest ≠ 46 :: t' := by
  intro t' hh
  rw [← heq] at hh
  exact hne t' hh

/-- shape of the optional fraction and exponent -/
theorem frac_shape (r rest : List UInt8) (h : scanFrac r = some rest) :
    ∃ fp ec sg eds, r = fracL fp ++ (expL ec sg eds ++ rest) ∧ allDigits fp ∧ allDigits eds ∧ (ec == 101 || ec == 69) = true ∧
      (sg = [] ∨ sg = [43] ∨ sg = [45]) ∧ (fp = [] → ∀ t, expL ec sg eds ++ rest ≠ 46 :: t) ∧
      (fp ≠ [] → noDigitHead (expL ec sg eds ++ rest)) ∧
      (eds = [] → ∀ c t, rest = c :: t → (c == 101 || c == 69) = false) ∧ (eds ≠ [] → noDigitHead rest) := by
  cases r with
  | nil =>
    rw [scanFrac_nil] at h
    injection h with h; subst h
    exact ⟨[], 101, [], [], rfl, allDigits_nil, allDigits_nil, by decide, .inl rfl, fun _ t hh => (by cases hh),
      fun hh => absurd rfl hh, fun _ c t hh => (by cases hh), fun hh => absurd rfl hh⟩
  | cons b t =>
    by_cases hb : b = 46
    · subst hb
      rw [scanFrac_dot] at h
      cases t with
      | nil => simp [fracTail] at h
      | cons d t' =>
        simp only [fracTail] at h
        by_cases hd : isDigit d = true
        · simp only [hd, if_true] at h
          obtain ⟨ec, sg, eds, hr, hed, hec, hsg, hnoE, hstop⟩ := exp_shape _ rest h
          refine ⟨d :: takeDigits t', ec, sg, eds, ?_, allDigits_cons hd (allDigits_takeDigits t'), hed, hec, hsg,
            fun hh => (by cases hh), fun _ => ?_, hnoE, hstop⟩
          · simp only [fracL, List.cons_append]
            rw [← hr, take_append_skip]
          · rw [← hr]; exact noDigitHead_skipDigits t'
        · simp [hd] at h
    · rw [scanFrac_other b t hb] at h
      obtain ⟨ec, sg, eds, hr, hed, hec, hsg, hnoE, hstop⟩ := exp_shape _ rest h
      refine ⟨[], ec, sg, eds, by simpa [fracL] using hr, allDigits_nil, hed, hec, hsg, fun _ => ?_, fun hh => absurd rfl hh, hnoE, hstop⟩
      intro t' hh
      rw [← hr] at hh
      injection hh with h1 _
      exact hb h1

theorem digit_49_57 (d : UInt8) (h : (49 ≤ d && d ≤ 57) = true) : isDigit d = true ∧ d ≠ 48 := by
  have hall : allBelow (fun n => !(decide (49 ≤ UInt8.ofNat n) && decide (UInt8.ofNat n ≤ 57)) ||
      (isDigit (UInt8.ofNat n) && !(UInt8.ofNat n == 48))) 256 = true := by decide +kernel
  have := forall_byte (P := fun b => !(decide (49 ≤ b) && decide (b ≤ 57)) || (isDigit b && !(b == 48))) hall d
  simp only [h, Bool.not_true, Bool.false_or, Bool.and_eq_true, Bool.not_eq_true', beq_eq_false_iff_ne, ne_eq] at this
  exact this

/-- **every number the reference scanner recognises has the shape** -/
theorem shape_of_scan (l rest : List UInt8) (h : scanNumber l = some rest) :
    ∃ neg ip fp ec sg eds, Shape l neg ip fp ec sg eds rest := by
  have core : ∀ (neg : Bool) (l1 : List UInt8), scanNum1 l1 = some rest →
      ∃ ip fp ec sg eds, Shape ((if neg then [45] else []) ++ l1) neg ip fp ec sg eds rest := by
    intro neg l1 h1
    cases l1 with
    | nil => simp [scanNum1] at h1
    | cons d t =>
      by_cases h48 : d = 48
      · subst h48
        rw [scanNum1_zero] at h1
        obtain ⟨fp, ec, sg, eds, hr, hfd, hed, hec, hsg, hnd, hfs, hnoE, hstop⟩ := frac_shape t rest h1
        exact ⟨[48], fp, ec, sg, eds,
          { eq := by rw [hr]; rfl, ipDigits := allDigits_cons (by decide) allDigits_nil, ipNe := by simp, ipLead := .inl rfl,
            fpDigits := hfd, edsDigits := hed, ecE := hec, sgS := hsg, ipStop := fun hh => absurd rfl hh, noDot := hnd,
            fpStop := hfs, noE := hnoE, edsStop := hstop }⟩
      · rw [scanNum1_other d t h48] at h1
        by_cases hr19 : (49 ≤ d && d ≤ 57) = true
        · simp only [hr19, if_true] at h1
          obtain ⟨hdd, _⟩ := digit_49_57 d hr19
          obtain ⟨fp, ec, sg, eds, hr, hfd, hed, hec, hsg, hnd, hfs, hnoE, hstop⟩ := frac_shape _ rest h1
          refine ⟨d :: takeDigits t, fp, ec, sg, eds,
            { eq := ?_, ipDigits := allDigits_cons hdd (allDigits_takeDigits t), ipNe := by simp,
              ipLead := .inr (fun t' hh => by injection hh with h1 _; exact h48 h1),
              fpDigits := hfd, edsDigits := hed, ecE := hec, sgS := hsg, ipStop := fun _ => ?_, noDot := hnd,
              fpStop := hfs, noE := hnoE, edsStop := hstop }⟩
          · rw [← hr]
            simp only [List.cons_append]
            rw [take_append_skip]
          · rw [← hr]; exact noDigitHead_skipDigits t
        · simp [hr19] at h1
  cases l with
  | nil => simp [scanNumber, scanNum1] at h
  | cons b t =>
    by_cases hb : b = 45
    · subst hb
      rw [scanNumber_minus] at h
      obtain ⟨ip, fp, ec, sg, eds, hs⟩ := core true t h
      exact ⟨true, ip, fp, ec, sg, eds, hs⟩
    · rw [scanNumber_other b t hb] at h
      obtain ⟨ip, fp, ec, sg, eds, hs⟩ := core false (b :: t) h
      exact ⟨false, ip, fp, ec, sg, eds, hs⟩

/-! ## the value of the literal, from the shape -/

def sgnOf (sg : List UInt8) : Int := if sg = [45] then -1 else 1

theorem noDigitHead_nil : noDigitHead [] := by intro b t h; cases h

theorem noDigitHead_cons (b : UInt8) (t : List UInt8) (h : isDigit b = false) : noDigitHead (b :: t) := by
  intro b' t' hh
  injection hh with h1 _
  rw [← h1]; exact h

theorem noDigitHead_expL (ec : UInt8) (sg eds r : List UInt8) (hec : (ec == 101 || ec == 69) = true) (hr : noDigitHead r) :
    noDigitHead (expL ec sg eds ++ r) := by
  cases eds with
  | nil => exact hr
  | cons d ds => exact noDigitHead_cons ec _ (not_digit_e ec hec)

theorem noDigitHead_fracL (fp r : List UInt8) (hr : noDigitHead r) : noDigitHead (fracL fp ++ r) := by
  cases fp with
  | nil => exact hr
  | cons d ds => exact noDigitHead_cons 46 _ (by decide)

theorem expValue_expL (ec : UInt8) (sg eds : List UInt8) (hsg : sg = [] ∨ sg = [43] ∨ sg = [45]) (hed : allDigits eds) :
    expValue (expL ec sg eds) = sgnOf sg * (digitsVal eds 0 : Int) := by
  cases eds with
  | nil => simp [expL, expValue, digitsVal]
  | cons d ds =>
    have htd : takeDigits (d :: ds) = d :: ds := by
      have := (takeDigits_append (d :: ds) [] hed noDigitHead_nil).1
      simpa using this
    have hd : isDigit d = true := hed d (by simp)
    simp only [expL, expValue]
    rcases hsg with rfl | rfl | rfl
    · simp only [List.nil_append]
      have h43 : d ≠ 43 := by intro hh; subst hh; exact absurd hd (by decide)
      have h45 : d ≠ 45 := by intro hh; subst hh; exact absurd hd (by decide)
      have : expSigned (d :: ds) = (digitsVal (takeDigits (d :: ds)) 0 : Int) := by
        simp only [expSigned]
        split
        · next heq => injection heq with h1 _; exact absurd h1 h43
        · next heq => injection heq with h1 _; exact absurd h1 h45
        · rfl
      rw [this, htd]
      simp [sgnOf]
    · simp only [List.cons_append, List.nil_append, expSigned]
      rw [htd]; simp [sgnOf]
    · simp only [List.cons_append, List.nil_append, expSigned]
      rw [htd]; simp [sgnOf]

theorem fracSplit_shape (fp X : List UInt8) (hfd : allDigits fp) (hstop : fp ≠ [] → noDigitHead X) (hnd : fp = [] → ∀ t, X ≠ 46 :: t) :
    fracSplit (fracL fp ++ X) = (fp, X) := by
  cases fp with
  | nil =>
    simp only [fracL, List.nil_append]
    have := hnd rfl
    simp only [fracSplit]
  | cons d ds =>
    obtain ⟨h1, _⟩ := takeDigits_append (d :: ds) X hfd (hstop (by simp))
    simp only [fracL, List.cons_append, fracSplit]
    have h1' : takeDigits (d :: (ds ++ X)) = d :: ds := by simpa using h1
    rw [h1']
    simp

theorem numberValue1_shape (ip fp : List UInt8) (ec : UInt8) (sg eds : List UInt8)
    (hid : allDigits ip) (hfd : allDigits fp) (hed : allDigits eds) (hec : (ec == 101 || ec == 69) = true)
    (hsg : sg = [] ∨ sg = [43] ∨ sg = [45]) :
    numberValue1 (ip ++ (fracL fp ++ expL ec sg eds)) = (digitsVal (ip ++ fp) 0, sgnOf sg * (digitsVal eds 0 : Int) - fp.length) := by
  have hX : noDigitHead (fracL fp ++ expL ec sg eds) := by
    have := noDigitHead_fracL fp (expL ec sg eds ++ []) (noDigitHead_expL ec sg eds [] hec noDigitHead_nil)
    simpa using this
  obtain ⟨h1, _⟩ := takeDigits_append ip _ hid hX
  simp only [numberValue1, h1, List.drop_left]
  have hE : noDigitHead (expL ec sg eds) := by
    have := noDigitHead_expL ec sg eds [] hec noDigitHead_nil
    simpa using this
  have hnd : fp = [] → ∀ t, expL ec sg eds ≠ 46 :: t := by
    intro _ t hh
    cases eds with
    | nil => cases hh
    | cons d ds =>
      simp only [expL] at hh
      injection hh with h1 _
      exact ne46_of_e ec hec h1
  rw [fracSplit_shape fp _ hfd (fun _ => hE) hnd, expValue_expL ec sg eds hsg hed]

theorem take_lit (A rest : List UInt8) : (A ++ rest).take ((A ++ rest).length - rest.length) = A := by
  have : (A ++ rest).length - rest.length = A.length := by simp
  rw [this]; simp

/-- **the exact value of a literal of the given shape** -/
theorem numberValue_shape {l : List UInt8} {neg : Bool} {ip fp : List UInt8} {ec : UInt8} {sg eds rest : List UInt8}
    (h : Shape l neg ip fp ec sg eds rest) :
    numberValue (l.take (l.length - rest.length)) =
      (neg, digitsVal (ip ++ fp) 0, sgnOf sg * (digitsVal eds 0 : Int) - fp.length) := by
  have hlit : l.take (l.length - rest.length) = (if neg then [45] else []) ++ (ip ++ (fracL fp ++ expL ec sg eds)) := by
    have := take_lit ((if neg then [45] else []) ++ (ip ++ (fracL fp ++ expL ec sg eds))) rest
    rw [h.eq]
    simpa [List.append_assoc] using this
  rw [hlit]
  have hv := numberValue1_shape ip fp ec sg eds h.ipDigits h.fpDigits h.edsDigits h.ecE h.sgS
  cases neg with
  | true =>
    simp only [if_true, List.cons_append, List.nil_append, numberValue]
    rw [hv]
  | false =>
    simp only [Bool.false_eq_true, if_false, List.nil_append]
    -- the literal starts with a digit
    cases hip : ip with
    | nil => exact absurd hip h.ipNe
    | cons d ds =>
      have hd : isDigit d = true := h.ipDigits d (by rw [hip]; simp)
      have h45 : d ≠ 45 := by intro hh; subst hh; exact absurd hd (by decide)
      rw [hip] at hv
      simp only [List.cons_append] at hv ⊢
      simp only [numberValue]
      split
      · next heq => injection heq with h1 _; exact absurd h1 h45
      · rw [hv]

end RJson.NumShape
