import RJson.Proofs.FloatSyntax
import RJson.Props.C08
import RJson.Model.ValueReader
import RJson.Proofs.HerrState
/-!
# `ValueReader` (hand model of complex_readers.go): success only on well-formed values, offset just after the value

By induction over the reader levels: a reader of one level is its own handler for the handler machines; if the
readers of the previous level stop at the end of the value they read, the handler is well-behaved (C08), hence the
traversal is exact (C07) and this level's readers stop at the end of the container.
-/
namespace RJson.VR
open RJson.Ragel RJson.Spec RJson.Abs RJson.Model

/-- a successful read stops at the end of the first value of its input -/
def ResumeOK {α} (data : Bytes) (r : R α) : Prop :=
  r.err = none → r.panicked = false → ∃ n : Nat, valueEnd none data.toList = some n ∧ r.p = (n : Int)

theorem readFloat64_resume (data : Bytes) : ResumeOK data (Model.readFloat64 data) := by
  intro he hpk
  have hcw := countWhitespace_spec data
  have hwl := skipWs_length_le' data.toList
  simp only [Array.length_toList] at hwl
  simp only [Model.readFloat64, hcw] at he hpk ⊢
  by_cases hend : (data.size - (skipWs data.toList).length == data.size) = true
  · simp [hend] at he
  · simp only [hend, Bool.false_eq_true, if_false] at he hpk ⊢
    have hperr : (FP.parse (data.extract (data.size - (skipWs data.toList).length) data.size)).err = false := by
      cases hh : (FP.parse (data.extract (data.size - (skipWs data.toList).length) data.size)).err with
      | false => rfl
      | true => simp [hh] at he
    obtain ⟨rest, hs, hn⟩ := FloatSyntax.parse_ok_syntax _ hperr
    have hl : (data.extract (data.size - (skipWs data.toList).length) data.size).toList = skipWs data.toList := by
      rw [extract_toList, List.take_of_length_le (by simp)]
      have := C13Aux.drop_skipWs data.toList
      simpa using this
    rw [hl] at hs
    have hsz : (data.extract (data.size - (skipWs data.toList).length) data.size).size = (skipWs data.toList).length := by
      simp; omega
    rw [hsz] at hn
    have hsuf := (scanNumber_pre _ rest hs).suffix.length_le
    cases hsk : skipWs data.toList with
    | nil => rw [hsk] at hs; simp [scanNumber, scanNum1] at hs
    | cons b t =>
      rw [hsk] at hs hsuf hn hwl
      have hvs := value_start_number b t rest hs
      refine ⟨data.toList.length - rest.length, ?_, ?_⟩
      · exact valueEnd_of_scalar data.toList b t rest hsk hvs.1 hvs.2.1
          (by simp [scanScalar, hvs.2.2.1, hvs.2.2.2.1, hvs.2.2.2.2.1, hvs.2.2.2.2.2, hs])
      · rw [hn]
        simp only [Array.length_toList, List.length_cons] at hsuf hwl ⊢
        omega

theorem readNull_resume (data : Bytes) (hsm : Small data) : ResumeOK data (Model.readNull data) := by
  intro he _
  have key := C13.readNull_spec data hsm
  cases hs : scanLit [110, 117, 108, 108] (skipWs data.toList) with
  | none => rw [hs] at key; rw [key.1] at he; cases he
  | some rest =>
    rw [hs] at key
    exact ⟨data.toList.length - rest.length, lit_resume _ 110 _ rest (.inr (.inr ⟨rfl, rfl⟩)) hs, by simpa using key.2.1⟩

theorem readBool_resume (data : Bytes) (hsm : Small data) : ResumeOK data (Model.readBool data) := by
  intro he _
  have key := C13.readBool_spec data hsm
  cases hs : scanLit [116, 114, 117, 101] (skipWs data.toList) with
  | some rest =>
    rw [hs] at key
    exact ⟨data.toList.length - rest.length, lit_resume _ 116 _ rest (.inl ⟨rfl, rfl⟩) hs, by simpa using key.2.2.1⟩
  | none =>
    rw [hs] at key
    cases hs2 : scanLit [102, 97, 108, 115, 101] (skipWs data.toList) with
    | some rest =>
      rw [hs2] at key
      exact ⟨data.toList.length - rest.length, lit_resume _ 102 _ rest (.inr (.inl ⟨rfl, rfl⟩)) hs2, by simpa using key.2.2.1⟩
    | none =>
      rw [hs2] at key
      rw [key.1] at he; cases he

theorem readStringBytes_resume (data : Bytes) (hsm : Small data) (buf : Bytes) : ResumeOK data (Model.readStringBytes data buf) := by
  intro he _
  have key := C06.readStringBytes_spec data hsm buf
  cases hr : Spec.readString data.toList with
  | none => rw [hr] at key; exact absurd he key.1
  | some pr =>
    obtain ⟨c, n⟩ := pr
    rw [hr] at key
    exact ⟨n, readString_resume _ c n hr, key.2.2.1⟩

theorem readSimpleValue_resume (data : Bytes) (hsm : Small data) (tp : Nat) : ResumeOK data (Model.readSimpleValue data tp) := by
  intro he hpk
  simp only [Model.readSimpleValue] at he hpk ⊢
  by_cases h1 : (tp == 1) = true
  · simp only [h1, if_true] at he hpk ⊢
    exact readNull_resume data hsm he hpk
  · simp only [h1, Bool.false_eq_true, if_false] at he hpk ⊢
    by_cases h2 : (tp == 2) = true
    · simp only [h2, if_true] at he hpk ⊢
      exact readStringBytes_resume data hsm #[] he hpk
    · simp only [h2, Bool.false_eq_true, if_false] at he hpk ⊢
      by_cases h3 : (tp == 3) = true
      · simp only [h3, if_true] at he hpk ⊢
        exact readFloat64_resume data he hpk
      · simp only [h3, Bool.false_eq_true, if_false] at he hpk ⊢
        by_cases h4 : (tp == 4 || tp == 5) = true
        · simp only [h4, if_true] at he hpk ⊢
          exact readBool_resume data hsm he hpk
        · simp [h4] at he

/-- skipping leading whitespace first does not change where the value ends -/
theorem valueEnd_skipWs (L : List UInt8) (n' : Nat) (h : valueEnd none (skipWs L) = some n') :
    valueEnd none L = some (L.length - (skipWs L).length + n') := by
  have hwl := skipWs_length_le' L
  have hidem : skipWs (skipWs L) = skipWs L := by
    cases hsk : skipWs L with
    | nil => rfl
    | cons b t =>
      have := skipWs_cons_of L b t hsk
      simp [skipWs, this]
  simp only [valueEnd, hidem] at h ⊢
  cases hs : scanValue none (2 * (skipWs L).length + 2) 0 (skipWs L) with
  | none => rw [hs] at h; cases h
  | some rest =>
    rw [hs] at h
    injection h with h
    have hp := (scan_progress none _).1 _ _ _ hs
    rw [(scan_fuel_adequate none _).1 _ _ _ hs (2 * L.length + 2) (by omega)]
    simp only []
    congr 1
    omega

/-- the readers of one level stop at the end of the container they read -/
def LevelOK (rd : Readers) : Prop :=
  ∀ (depth : Nat) (data : Bytes), Small data → ResumeOK data (rd.1 depth data) ∧ ResumeOK data (rd.2 depth data)

theorem small_extract (data : Bytes) (hsm : Small data) (a b : Nat) : Small (data.extract a b) := by
  unfold Small at hsm ⊢
  simp only [Array.size_extract]
  omega

/-- `handleMember`: whatever kind of value the member is -/
theorem handleMember_resume (prev : Readers) (hprev : LevelOK prev) (depth : Nat) (suffix : Bytes) (hsm : Small suffix) :
    ResumeOK suffix (Model.handleMember prev depth suffix) := by
  intro he hpk
  have hnt := C13.nextTokenType_spec suffix
  simp only [Model.handleMember] at he hpk ⊢
  rw [hnt] at he hpk ⊢
  cases hs : Spec.nextTokenType suffix.toList with
  | none => rw [hs] at he; simp at he
  | some pr =>
    obtain ⟨tp, p⟩ := pr
    rw [hs] at he hpk
    simp only [] at he hpk ⊢
    -- `p - 1` is the number of leading whitespace bytes
    simp only [Spec.nextTokenType] at hs
    have hwl := skipWs_length_le' suffix.toList
    cases hsk : skipWs suffix.toList with
    | nil => rw [hsk] at hs; cases hs
    | cons b t =>
      rw [hsk] at hs hwl
      injection hs with hs; injection hs with htp hp
      simp only [Array.length_toList, List.length_cons] at hp hwl
      have hk : p - 1 = suffix.size - (skipWs suffix.toList).length := by rw [hsk]; simp only [List.length_cons]; omega
      have hsub : (suffix.extract (p - 1) suffix.size).toList = skipWs suffix.toList := by
        rw [extract_toList, List.take_of_length_le (by simp), hk]
        have := C13Aux.drop_skipWs suffix.toList
        simpa using this
      have hsmS := small_extract suffix hsm (p - 1) suffix.size
      -- a successful read of the sub-slice, shifted by the whitespace
      have shift : ∀ (r : R Model.JVal), ResumeOK (suffix.extract (p - 1) suffix.size) r → r.err = none → r.panicked = false →
          ∃ n : Nat, valueEnd none suffix.toList = some n ∧ ((p - 1 : Nat) : Int) + r.p = (n : Int) := by
        intro r hr hre hrp
        obtain ⟨n', hn', hp'⟩ := hr hre hrp
        rw [hsub] at hn'
        refine ⟨suffix.toList.length - (skipWs suffix.toList).length + n', valueEnd_skipWs _ n' hn', ?_⟩
        rw [hp', hk]
        simp only [Array.length_toList]
        omega
      by_cases h6 : (tp == 6) = true
      · simp only [h6, if_true] at he hpk ⊢
        by_cases hd : depth + 1 > Gen.valueReaderMaxDepth
        · simp [hd] at he
        · simp only [hd, if_false] at he hpk ⊢
          exact shift _ (hprev (depth + 1) _ hsmS).1 he hpk
      · simp only [h6, Bool.false_eq_true, if_false] at he hpk ⊢
        by_cases h8 : (tp == 8) = true
        · simp only [h8, if_true] at he hpk ⊢
          by_cases hd : depth + 1 > Gen.valueReaderMaxDepth
          · simp [hd] at he
          · simp only [hd, if_false] at he hpk ⊢
            exact shift _ (hprev (depth + 1) _ hsmS).2 he hpk
        · simp only [h8, Bool.false_eq_true, if_false] at he hpk ⊢
          exact shift _ (readSimpleValue_resume _ hsmS tp) he hpk

theorem toArray_toList_small (v : List UInt8) (h : v.length < 4611686018427387904) : Small v.toArray := by
  unfold Small; simpa using h

theorem arrHandler_WB (prev : Readers) (hprev : LevelOK prev) (depth : Nat) : WB (Model.arrHandler prev depth) := by
  apply C08.WB_of_valueEnd
  intro hs field v _ hlen he
  right
  have key := handleMember_resume prev hprev depth v.toArray (toArray_toList_small v hlen)
  simp only [Model.arrHandler] at he ⊢
  by_cases hpk : (Model.handleMember prev depth v.toArray).panicked = true
  · simp [hpk] at he
  · have hpk' : (Model.handleMember prev depth v.toArray).panicked = false := by simpa using hpk
    simp only [hpk', Bool.false_eq_true, if_false] at he ⊢
    cases herr : (Model.handleMember prev depth v.toArray).err with
    | some e => simp [herr] at he
    | none =>
      simp only [herr]
      obtain ⟨n, hn, hp⟩ := key herr hpk'
      exact ⟨n, by simpa using hn, hp⟩

theorem arrHandler_err_state (prev : Readers) (depth : Nat) (hs0 : ArrHS) (f s : Bytes) (id : Nat)
    (h : (Model.arrHandler prev depth hs0 f s).2.2 = some id) :
    (Model.arrHandler prev depth hs0 f s).1.err ≠ none ∨ (Model.arrHandler prev depth hs0 f s).1.panicked = true := by
  simp only [Model.arrHandler] at h ⊢
  by_cases hpk : (Model.handleMember prev depth s).panicked = true
  · simp [hpk]
  · have hpk' : (Model.handleMember prev depth s).panicked = false := by simpa using hpk
    simp only [hpk', Bool.false_eq_true, if_false] at h ⊢
    cases herr : (Model.handleMember prev depth s).err with
    | some e => simp [herr]
    | none => simp [herr] at h

/-- the part of `objHandler` after the key has been unescaped -/
theorem objBody_cases (prev : Readers) (depth : Nat) (hs0 : ObjHS) (kr : R Bytes) (s : Bytes) :
    let res : ObjHS × Int × Option Nat :=
      if kr.panicked then ({ hs0 with panicked := true, err := some .other }, 0, some 1)
      else match kr.err with
      | some e => ({ hs0 with err := some e }, 0, some 1)
      | none =>
        let r := Model.handleMember prev depth s
        if r.panicked then ({ hs0 with panicked := true, err := some .other }, r.p, some 1)
        else match r.err with
        | some e => ({ hs0 with err := some e }, r.p, some 1)
        | none => ({ hs0 with kvs := Model.mapSet hs0.kvs kr.val r.val }, r.p, none)
    (res.2.2 ≠ none ∧ (res.1.err ≠ none ∨ res.1.panicked = true)) ∨
    (res.2.2 = none ∧ (Model.handleMember prev depth s).err = none ∧ (Model.handleMember prev depth s).panicked = false ∧
      res.2.1 = (Model.handleMember prev depth s).p) := by
  simp only []
  by_cases hkp : kr.panicked = true
  · left; simp [hkp]
  · have hkp' : kr.panicked = false := by simpa using hkp
    simp only [hkp', Bool.false_eq_true, if_false]
    cases hke : kr.err with
    | some e => left; simp
    | none =>
      simp only []
      by_cases hpk : (Model.handleMember prev depth s).panicked = true
      · left; simp [hpk]
      · have hpk' : (Model.handleMember prev depth s).panicked = false := by simpa using hpk
        simp only [hpk', Bool.false_eq_true, if_false]
        cases herr : (Model.handleMember prev depth s).err with
        | some e => left; simp
        | none => right; simp

theorem objHandler_cases (prev : Readers) (depth : Nat) (hs0 : ObjHS) (f s : Bytes) :
    ((Model.objHandler prev depth hs0 f s).2.2 ≠ none ∧
      ((Model.objHandler prev depth hs0 f s).1.err ≠ none ∨ (Model.objHandler prev depth hs0 f s).1.panicked = true)) ∨
    ((Model.objHandler prev depth hs0 f s).2.2 = none ∧ (Model.handleMember prev depth s).err = none ∧
      (Model.handleMember prev depth s).panicked = false ∧
      (Model.objHandler prev depth hs0 f s).2.1 = (Model.handleMember prev depth s).p) :=
  objBody_cases prev depth hs0
    (match Model.findBackslash f with
      | some i => Model.unescapeStringContent (f.extract i f.size) (f.extract 0 i)
      | none => { val := f, p := 0, err := none }) s

theorem objHandler_WB (prev : Readers) (hprev : LevelOK prev) (depth : Nat) : WB (Model.objHandler prev depth) := by
  apply C08.WB_of_valueEnd
  intro hs field v _ hlen he
  right
  have key := handleMember_resume prev hprev depth v.toArray (toArray_toList_small v hlen)
  rcases objHandler_cases prev depth hs field v.toArray with ⟨hne, _⟩ | ⟨_, herr, hpk, hp⟩
  · exact absurd he hne
  · obtain ⟨n, hn, hpn⟩ := key herr hpk
    exact ⟨n, by simpa using hn, by rw [hp, hpn]⟩

/-- a successful traversal (list-stack form) ends where the container ends -/
theorem runL_array_resume {τ} (h : Handler τ) (hwb : WB h) (data : Bytes) (hsm : Small data) (hs : τ)
    (hk : (runL Gen.HandleArrayValues.machine data h #[] hs).kind = .ok) :
    ∃ n : Nat, valueEnd none data.toList = some n ∧ (runL Gen.HandleArrayValues.machine data h #[] hs).p = (n : Int) := by
  rw [Certs.HandleArrayValues.run_eq] at hk ⊢
  obtain ⟨ms, n, ho, hp⟩ := C08.agrees_ok h _ hs _ _ (C07.abs_array_spec h hwb data hsm #[] hs) hk
  exact ⟨n, traverseArray_resume _ ms n ho, hp⟩

theorem runL_object_resume {τ} (h : Handler τ) (hwb : WB h) (data : Bytes) (hsm : Small data) (hs : τ)
    (hk : (runL Gen.HandleObjectValues.machine data h #[] hs).kind = .ok) :
    ∃ n : Nat, valueEnd none data.toList = some n ∧ (runL Gen.HandleObjectValues.machine data h #[] hs).p = (n : Int) := by
  rw [Certs.HandleObjectValues.run_eq] at hk ⊢
  obtain ⟨ms, n, ho, hp⟩ := C08.agrees_ok h _ hs _ _ (C07.abs_object_spec h hwb data hsm #[] hs) hk
  exact ⟨n, traverseObject_resume _ ms n ho, hp⟩

theorem arrReader_resume (prev : Readers) (hprev : LevelOK prev) (depth : Nat) (data : Bytes) (hsm : Small data) :
    ResumeOK data (Model.arrReader prev depth data) := by
  intro he hpk
  simp only [Model.arrReader] at he hpk ⊢
  have hst := run_herr_state Gen.HandleArrayValues.machine data (Model.arrHandler prev depth) #[] {}
  cases hk : (runL Gen.HandleArrayValues.machine data (Model.arrHandler prev depth) #[] {}).kind with
  | ok =>
    rw [hk] at he hpk
    simp only [] at he hpk ⊢
    obtain ⟨n, hn, hp⟩ := runL_array_resume _ (arrHandler_WB prev hprev depth) data hsm {} hk
    refine ⟨n, hn, ?_⟩
    split <;> exact hp
  | err e => rw [hk] at he; simp at he
  | herr id =>
    rw [hk] at he hpk
    simp only [] at he hpk
    obtain ⟨hs0, f, s0, hid, hhs⟩ := hst id hk
    rcases arrHandler_err_state prev depth hs0 f s0 id hid with h1 | h1
    · rw [hhs] at he; exact absurd he h1
    · rw [hhs, h1] at hpk; cases hpk
  | panic => rw [hk] at hpk; simp at hpk
  | fuel => rw [hk] at hpk; simp at hpk
  | badDepth => rw [hk] at hpk; simp at hpk

theorem objReader_resume (prev : Readers) (hprev : LevelOK prev) (depth : Nat) (data : Bytes) (hsm : Small data) :
    ResumeOK data (Model.objReader prev depth data) := by
  intro he hpk
  simp only [Model.objReader] at he hpk ⊢
  have hst := run_herr_state Gen.HandleObjectValues.machine data (Model.objHandler prev depth) #[] {}
  cases hk : (runL Gen.HandleObjectValues.machine data (Model.objHandler prev depth) #[] {}).kind with
  | ok =>
    rw [hk] at he hpk
    simp only [] at he hpk ⊢
    obtain ⟨n, hn, hp⟩ := runL_object_resume _ (objHandler_WB prev hprev depth) data hsm {} hk
    refine ⟨n, hn, ?_⟩
    split <;> exact hp
  | err e => rw [hk] at he; simp at he
  | herr id =>
    rw [hk] at he hpk
    simp only [] at he hpk
    obtain ⟨hs0, f, s0, hid, hhs⟩ := hst id hk
    rcases objHandler_cases prev depth hs0 f s0 with ⟨_, h1⟩ | ⟨h2, _⟩
    · rcases h1 with h1 | h1
      · rw [hhs] at he; exact absurd he h1
      · rw [hhs, h1] at hpk; cases hpk
    · rw [h2] at hid; cases hid
  | panic => rw [hk] at hpk; simp at hpk
  | fuel => rw [hk] at hpk; simp at hpk
  | badDepth => rw [hk] at hpk; simp at hpk

/-- every level of readers stops at the end of the container it reads -/
theorem readers_levelOK : ∀ (fuel : Nat), LevelOK (Model.readers fuel) := by
  intro fuel
  induction fuel with
  | zero =>
    intro depth data _
    constructor <;> (intro he hpk; simp [Model.readers] at hpk)
  | succ fuel ih =>
    intro depth data hsm
    exact ⟨objReader_resume _ ih depth data hsm, arrReader_resume _ ih depth data hsm⟩

/-- **ReadObject / ReadArray / ReadValue** (models): success only when the first value is well-formed, with the offset
    just after it -/
theorem readObject_resume (data : Bytes) (hsm : Small data) : ResumeOK data (Model.readObject data) :=
  (readers_levelOK _ 1 data hsm).1

theorem readArray_resume (data : Bytes) (hsm : Small data) : ResumeOK data (Model.readArray data) :=
  (readers_levelOK _ 1 data hsm).2

theorem readValue_resume (data : Bytes) (hsm : Small data) : ResumeOK data (Model.readValue data) := by
  intro he hpk
  have hnt := C13.nextTokenType_spec data
  simp only [Model.readValue] at he hpk ⊢
  rw [hnt] at he hpk ⊢
  cases hs : Spec.nextTokenType data.toList with
  | none => rw [hs] at he; simp at he
  | some pr =>
    obtain ⟨tp, p⟩ := pr
    rw [hs] at he hpk
    simp only [] at he hpk ⊢
    simp only [Spec.nextTokenType] at hs
    have hwl := skipWs_length_le' data.toList
    cases hsk : skipWs data.toList with
    | nil => rw [hsk] at hs; cases hs
    | cons b t =>
      rw [hsk] at hs hwl
      injection hs with hs; injection hs with htp hp
      simp only [Array.length_toList, List.length_cons] at hp hwl
      have hk : p - 1 = data.size - (skipWs data.toList).length := by rw [hsk]; simp only [List.length_cons]; omega
      have hsub : (data.extract (p - 1) data.size).toList = skipWs data.toList := by
        rw [extract_toList, List.take_of_length_le (by simp), hk]
        have := C13Aux.drop_skipWs data.toList
        simpa using this
      have hsmS := small_extract data hsm (p - 1) data.size
      have shift : ∀ (r : R Model.JVal), ResumeOK (data.extract (p - 1) data.size) r → r.err = none → r.panicked = false →
          ∃ n : Nat, valueEnd none data.toList = some n ∧ ((p - 1 : Nat) : Int) + r.p = (n : Int) := by
        intro r hr hre hrp
        obtain ⟨n', hn', hp'⟩ := hr hre hrp
        rw [hsub] at hn'
        refine ⟨data.toList.length - (skipWs data.toList).length + n', valueEnd_skipWs _ n' hn', ?_⟩
        rw [hp', hk]
        simp only [Array.length_toList]
        omega
      by_cases h6 : (tp == 6) = true
      · simp only [h6, if_true] at he hpk ⊢
        exact shift _ (readers_levelOK _ 1 _ hsmS).1 he hpk
      · simp only [h6, Bool.false_eq_true, if_false] at he hpk ⊢
        by_cases h8 : (tp == 8) = true
        · simp only [h8, if_true] at he hpk ⊢
          exact shift _ (readers_levelOK _ 1 _ hsmS).2 he hpk
        · simp only [h8, Bool.false_eq_true, if_false] at he hpk ⊢
          exact shift _ (readSimpleValue_resume _ hsmS tp) he hpk

end RJson.VR
