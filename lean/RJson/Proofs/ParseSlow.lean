import RJson.Proofs.DecSet
/-!
# The slow path of `ParseJSONFloatPrefix` (`decimal.set` + `floatBits`) on literals with at most 800 digits

When the multiprecision run is exact (`Decimal.exactRun`: the sticky truncation flag never comes on — it cannot be
set by `set` for at most 800 mantissa digits, so only by a right shift that would need more than 800 digits), the
answer is `Spec.roundDec` of the literal's exact value, overflow flag included.
-/
namespace RJson.ParseSlow
open RJson.FP RJson.Spec RJson.NumShape RJson.FloatValue RJson.FloatSyntax RJson.Ragel RJson.Abs RJson.HelpersSpec RJson.Dec
open RJson.ParseFast RJson.RoundRat RJson.EL

theorem digitsVal_mono (ds : List UInt8) (e e' : ℕ) (h : e ≤ e') : digitsVal ds e ≤ digitsVal ds e' := by
  rw [digitsVal_acc ds e, digitsVal_acc ds e']
  exact Nat.add_le_add_right (Nat.mul_le_mul_right _ h) _

theorem clip_le (C : ℕ) : ∀ (ds : List UInt8) (e : ℕ), clipAcc C ds e ≤ digitsVal ds e := by
  intro ds
  induction ds with
  | nil => intro e; exact Nat.le_refl _
  | cons b ds ih =>
    intro e
    simp only [clipAcc, digitsVal]
    by_cases he : e < C
    · rw [if_pos he]; exact ih _
    · rw [if_neg he]
      exact Nat.le_trans (ih e) (digitsVal_mono ds _ _ (by omega))

/-- `roundDec` is `roundRat` of any fraction with the value `man · 10^q` -/
theorem roundDec_rat (neg : Bool) (man : ℕ) (q : ℤ) (n d : ℕ) (hd : d ≠ 0) (hv : (n : ℚ) / d = (man : ℚ) * 10 ^ q) :
    roundDec neg man q = roundRat neg n d := by
  have hdQ : (0 : ℚ) < d := by exact_mod_cast Nat.pos_of_ne_zero hd
  have hpq : (0 : ℚ) < 10 ^ q := by positivity
  by_cases hm : man = 0
  · subst hm
    have hn : n = 0 := by
      have : (n : ℚ) / d = 0 := by rw [hv]; simp
      have := (div_eq_zero_iff.mp this).resolve_right (ne_of_gt hdQ)
      exact_mod_cast this
    subst hn
    simp [roundDec, roundRat]
  · have hmQ : (1 : ℚ) ≤ man := by exact_mod_cast Nat.pos_of_ne_zero hm
    have hn : n ≠ 0 := by
      intro h0; subst h0
      have : (0 : ℚ) < (man : ℚ) * 10 ^ q := by positivity
      rw [← hv] at this; simp at this
    have hm0 : (man == 0) = false := by simpa using hm
    by_cases h1 : q > 400
    · -- overflow shortcut
      have hx : (2 : ℚ) ^ (1024 : ℤ) ≤ (n : ℚ) / d := by
        rw [hv]
        calc (2 : ℚ) ^ (1024 : ℤ) ≤ 10 ^ (310 : ℤ) := Dec.big_pow
          _ ≤ 10 ^ q := zpow_le_zpow_right₀ (by norm_num) (by omega)
          _ = 1 * 10 ^ q := (one_mul _).symm
          _ ≤ (man : ℚ) * 10 ^ q := mul_le_mul_of_nonneg_right hmQ (le_of_lt hpq)
      rw [roundRat_overflow neg n d hn hd hx]
      simp only [roundDec, hm0, Bool.false_eq_true, if_false, h1, if_true]
    · by_cases h2 : q + (Nat.log2 man : ℤ) + 1 < -400
      · -- underflow shortcut
        have hlt : (man : ℚ) < 2 ^ (Nat.log2 man + 1) := by
          have := Nat.lt_log2_self (n := man)
          exact_mod_cast this
        have hx : (n : ℚ) / d < 2 ^ (-1075 : ℤ) := by
          rw [hv]
          calc (man : ℚ) * 10 ^ q < 2 ^ (Nat.log2 man + 1) * 10 ^ q := mul_lt_mul_of_pos_right hlt hpq
            _ ≤ 10 ^ (Nat.log2 man + 1) * 10 ^ q := by
                apply mul_le_mul_of_nonneg_right _ (le_of_lt hpq)
                exact pow_le_pow_left₀ (by norm_num) (by norm_num) _
            _ = 10 ^ (((Nat.log2 man + 1 : ℕ) : ℤ) + q) := by
                rw [zpow_add₀ (by norm_num), zpow_natCast]
            _ ≤ 10 ^ (-331 : ℤ) := zpow_le_zpow_right₀ (by norm_num) (by push_cast; omega)
            _ < 2 ^ (-1075 : ℤ) := Dec.tiny_pow
        rw [roundRat_zero neg n d hn hd hx]
        simp only [roundDec, hm0, Bool.false_eq_true, if_false, h1, h2, if_true]
      · obtain ⟨n', d', hn', hd', hrd, hval⟩ := roundDec_eq neg man q hm (by omega) (by omega)
        rw [hrd]
        exact roundRat_congr neg n' d' n d hn' hd' hn hd (by rw [hval, hv])

/-- the clipped exponent of `readFloat`/`set` (clipped only beyond `10000 +` the number of digits) gives the same
    rounded value as the true exponent -/
theorem roundRat_clip (neg : Bool) (D L F C : ℕ) (eds : List UInt8) (s : ℤ) (hs : s = 1 ∨ s = -1)
    (hD : D < 10 ^ L) (hF : F ≤ L) (hC : 10000 + L ≤ C) (n d : ℕ) (hd : d ≠ 0)
    (hv : (n : ℚ) / d = (D : ℚ) * 10 ^ ((clipAcc C eds 0 : ℤ) * s - (F : ℤ))) :
    roundRat neg n d = roundDec neg D (s * (digitsVal eds 0 : ℤ) - F) := by
  by_cases hc : clipAcc C eds 0 < C
  · rw [clip_exact C eds 0 hc] at hv
    rw [roundDec_rat neg D _ n d hd (by rw [hv, mul_comm s])]
  · have hcC : C ≤ clipAcc C eds 0 := by omega
    have heC : C ≤ digitsVal eds 0 := Nat.le_trans hcC (clip_le C eds 0)
    have hdQ : (0 : ℚ) < d := by exact_mod_cast Nat.pos_of_ne_zero hd
    by_cases hm : D = 0
    · subst hm
      have hn : n = 0 := by
        have : (n : ℚ) / d = 0 := by rw [hv]; simp
        have := (div_eq_zero_iff.mp this).resolve_right (ne_of_gt hdQ)
        exact_mod_cast this
      subst hn
      simp [roundDec, roundRat]
    · have hmQ : (1 : ℚ) ≤ D := by exact_mod_cast Nat.pos_of_ne_zero hm
      have hDQ : (D : ℚ) < 10 ^ (L : ℤ) := by rw [zpow_natCast]; exact_mod_cast hD
      have hn : n ≠ 0 := by
        intro h0; subst h0
        have : (0 : ℚ) < (D : ℚ) * 10 ^ ((clipAcc C eds 0 : ℤ) * s - (F : ℤ)) := by positivity
        rw [← hv] at this; simp at this
      have big : ∀ z : ℤ, 310 ≤ z → (2 : ℚ) ^ (1024 : ℤ) ≤ (D : ℚ) * 10 ^ z := by
        intro z hz
        have hpz : (0 : ℚ) < 10 ^ z := by positivity
        calc (2 : ℚ) ^ (1024 : ℤ) ≤ 10 ^ (310 : ℤ) := Dec.big_pow
          _ ≤ 10 ^ z := zpow_le_zpow_right₀ (by norm_num) hz
          _ = 1 * 10 ^ z := (one_mul _).symm
          _ ≤ (D : ℚ) * 10 ^ z := mul_le_mul_of_nonneg_right hmQ (le_of_lt hpz)
      have tiny : ∀ z : ℤ, z + L ≤ -331 → (D : ℚ) * 10 ^ z < 2 ^ (-1075 : ℤ) := by
        intro z hz
        have hpz : (0 : ℚ) < 10 ^ z := by positivity
        calc (D : ℚ) * 10 ^ z < 10 ^ (L : ℤ) * 10 ^ z := mul_lt_mul_of_pos_right hDQ hpz
          _ = 10 ^ ((L : ℤ) + z) := by rw [zpow_add₀ (by norm_num)]
          _ ≤ 10 ^ (-331 : ℤ) := zpow_le_zpow_right₀ (by norm_num) (by omega)
          _ < 2 ^ (-1075 : ℤ) := Dec.tiny_pow
      -- the true value as a fraction
      have hz : ∃ n' d' : ℕ, d' ≠ 0 ∧ n' ≠ 0 ∧ (n' : ℚ) / d' = (D : ℚ) * 10 ^ (s * (digitsVal eds 0 : ℤ) - F) := by
        generalize s * (digitsVal eds 0 : ℤ) - F = z
        by_cases hz : z ≥ 0
        · refine ⟨D * 10 ^ z.toNat, 1, by omega, Nat.mul_ne_zero hm (by positivity), ?_⟩
          push_cast
          rw [zpow_split 10 (by norm_num) z]; simp [hz]
        · refine ⟨D, 10 ^ (-z).toNat, by positivity, hm, ?_⟩
          push_cast
          rw [zpow_split 10 (by norm_num) z]; simp [hz]; ring
      obtain ⟨n', d', hd', hn', hv'⟩ := hz
      rw [roundDec_rat neg D _ n' d' hd' hv']
      rcases hs with rfl | rfl
      · rw [roundRat_overflow neg n d hn hd (by rw [hv]; exact big _ (by omega)),
          roundRat_overflow neg n' d' hn' hd' (by rw [hv']; exact big _ (by omega))]
      · rw [roundRat_zero neg n d hn hd (by rw [hv]; exact tiny _ (by omega)),
          roundRat_zero neg n' d' hn' hd' (by rw [hv']; exact tiny _ (by omega))]

/-- the literal itself (the input cut at its end) has the same shape, with nothing after it -/
theorem shape_lit {l : List UInt8} {neg : Bool} {ip fp : List UInt8} {ec : UInt8} {sg eds rest : List UInt8}
    (h : Shape l neg ip fp ec sg eds rest) : Shape (l.take (l.length - rest.length)) neg ip fp ec sg eds [] := by
  have hlit : l.take (l.length - rest.length) = (if neg then [45] else []) ++ (ip ++ (fracL fp ++ (expL ec sg eds ++ []))) := by
    have := take_lit ((if neg then [45] else []) ++ (ip ++ (fracL fp ++ expL ec sg eds))) rest
    rw [h.eq]
    simpa [List.append_assoc] using this
  have hfs : noDigitHead (expL ec sg eds ++ []) := by
    have := noDigitHead_tail [] ec sg eds h.ecE
    simpa [fracL] using this
  exact ⟨hlit, h.ipDigits, h.ipNe, h.ipLead, h.fpDigits, h.edsDigits, h.ecE, h.sgS,
    fun _ => noDigitHead_tail fp ec sg eds h.ecE, fun _ => expL_no_dot ec sg eds h.ecE, fun _ => hfs,
    fun _ c t hh => (by cases hh), fun _ => noDigitHead_nil⟩

/-- **the slow path on a literal with at most 800 digits, when its run is exact** -/
theorem slow_correct (lit : Bytes) (neg : Bool) (ip fp : List UInt8) (ec : UInt8) (sg eds : List UInt8)
    (h : Shape lit.toList neg ip fp ec sg eds []) (hlen : ip.length + fp.length ≤ 800) :
    ∃ a, Decimal.set lit = some a ∧
      (a.exactRun = true → a.floatBits = some (roundDec neg (digitsVal (ip ++ fp) 0) (sgnOf sg * (digitsVal eds 0 : ℤ) - fp.length))) := by
  obtain ⟨a, hset, hg, hneg, _, hval⟩ := set_spec lit neg ip fp ec sg eds h hlen
  refine ⟨a, hset, fun hex => ?_⟩
  have hds : allDigits (ip ++ fp) := by
    intro b hb
    rcases List.mem_append.mp hb with h1 | h1
    · exact h.ipDigits b h1
    · exact h.fpDigits b h1
  have hD := digitsVal_lt _ hds
  have hL : (ip ++ fp).length ≤ lit.size := by
    have := congrArg List.length h.eq
    have hfl : fp.length ≤ (fracL fp).length := by cases fp <;> simp [fracL]
    simp only [Array.length_toList, List.length_append] at this ⊢
    omega
  have hsgn : sgnOf sg = 1 ∨ sgnOf sg = -1 := by
    unfold sgnOf; split
    · right; rfl
    · left; rfl
  -- the decimal's value as a fraction
  obtain ⟨n, d, hd, hv⟩ : ∃ n d : ℕ, d ≠ 0 ∧ (n : ℚ) / d = aval a := by
    rw [hval]
    generalize (clipAcc (10000 + lit.size) eds 0 : ℤ) * sgnOf sg - (fp.length : ℤ) = z
    by_cases hz : z ≥ 0
    · refine ⟨digitsVal (ip ++ fp) 0 * 10 ^ z.toNat, 1, by omega, ?_⟩
      push_cast
      rw [zpow_split 10 (by norm_num) z]; simp [hz]
    · refine ⟨digitsVal (ip ++ fp) 0, 10 ^ (-z).toNat, by positivity, ?_⟩
      push_cast
      rw [zpow_split 10 (by norm_num) z]; simp [hz]; ring
  rw [floatBits_spec a hg n d hd hv hex, hneg]
  congr 1
  exact roundRat_clip neg _ (ip ++ fp).length fp.length (10000 + lit.size) eds (sgnOf sg) hsgn hD (by simp) (by omega) n d hd
    (by rw [hv, hval])

end RJson.ParseSlow
