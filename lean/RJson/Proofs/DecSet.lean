import RJson.Proofs.DecFloat
import RJson.Proofs.ParseFast
/-!
# `decimal.set` on a number literal with at most 800 mantissa digits

The decimal it builds is well-formed, in normal form, not truncated, and stands for the literal's exact value
(with the exponent `readFloat` would also use: clipped only beyond `10000 + len`).
-/
namespace RJson.Dec
open RJson.FP RJson.Spec RJson.NumShape RJson.FloatValue RJson.FloatSyntax RJson.Ragel RJson.Abs RJson.HelpersSpec

/-- the digit part of `set`, one digit -/
def push1 (a : Decimal) (b : UInt8) : Decimal :=
  if b == 48 && a.nd == 0 then { a with dp := a.dp - 1 } else { a with d := a.d.set! a.nd b, nd := a.nd + 1 }

def pushDigits : List UInt8 → Decimal → Decimal
  | [], a => a
  | b :: ds, a => pushDigits ds (push1 a b)

/-- what pushing a run of digits does: value, position of the decimal point relative to the digits, shape -/
theorem pushDigits_spec : ∀ (ds : List UInt8) (a : Decimal), allDigits ds → a.d.size = 800 → a.nd + ds.length ≤ 800 →
    DigitsOK a.d a.nd → (0 < a.nd → 1 ≤ dig a.d 0) →
    let a' := pushDigits ds a
    a'.d.size = 800 ∧ a'.nd ≤ a.nd + ds.length ∧ DigitsOK a'.d a'.nd ∧ (0 < a'.nd → 1 ≤ dig a'.d 0) ∧
      val a'.d a'.nd = val a.d a.nd * 10 ^ ds.length + digitsVal ds 0 ∧
      a'.dp - (a'.nd : ℤ) = a.dp - (a.nd : ℤ) - (ds.length : ℤ) ∧ a'.neg = a.neg ∧ a'.trunc = a.trunc ∧ (0 < a.nd → a'.dp = a.dp) := by
  intro ds
  induction ds with
  | nil => intro a _ hsz _ hok hnz; simp [pushDigits, digitsVal]; exact ⟨hsz, hok, hnz⟩
  | cons b ds ih =>
    intro a hds hsz hle hok hnz
    have hb : isDigit b = true := hds b (by simp)
    have hbr : 48 ≤ b.toNat ∧ b.toNat ≤ 57 := by
      have : (decide (48 ≤ b) && decide (b ≤ 57)) = true := hb
      simp only [Bool.and_eq_true, decide_eq_true_eq, UInt8.le_iff_toNat_le] at this
      exact this
    have hds' : allDigits ds := fun x hx => hds x (by simp [hx])
    simp only [List.length_cons] at hle
    simp only [pushDigits]
    by_cases hz : (b == 48 && a.nd == 0) = true
    · -- a leading zero
      have hp : push1 a b = { a with dp := a.dp - 1 } := by simp only [push1, hz, if_true]
      rw [hp]
      simp only [Bool.and_eq_true, beq_iff_eq] at hz
      obtain ⟨hb48, hnd0⟩ := hz
      have := ih { a with dp := a.dp - 1 } hds' hsz (by simp only []; omega) hok hnz
      simp only [] at this ⊢
      obtain ⟨c1, c2, c3, c4, c5, c6, c7, c8, c9⟩ := this
      refine ⟨c1, by simp only [List.length_cons]; omega, c3, c4, ?_, ?_, c7, c8, fun h => by omega⟩
      · rw [c5, hnd0]
        simp only [val, Nat.zero_mul, Nat.zero_add, digitsVal, List.length_cons]
        rw [hb48]
        have : ((48 : UInt8).toNat - 48) = 0 := rfl
        rw [this, ParseFast.digitsVal_acc ds (0 * 10 + 0)]
      · rw [c6]; simp only [List.length_cons]; push_cast; ring
    · have hp : push1 a b = { a with d := a.d.set! a.nd b, nd := a.nd + 1 } := by
        simp only [push1]; rw [if_neg hz]
      rw [hp]
      have hfit : a.nd < a.d.size := by omega
      have hd9 : b.toNat - 48 ≤ 9 := by omega
      have hbyte : (UInt8.ofNat (b.toNat - 48 + 48)) = b := by
        have : b.toNat - 48 + 48 = b.toNat := by omega
        rw [this]; simp
      have hok' : DigitsOK (a.d.set! a.nd b) (a.nd + 1) := by
        intro i hi
        by_cases hia : i = a.nd
        · rw [hia, getElem!_set! a.d a.nd a.nd b hfit, if_pos rfl]; exact hbr
        · rw [getElem!_set! a.d a.nd i b hfit, if_neg hia]; exact hok i (by omega)
      have hnz' : 0 < a.nd + 1 → 1 ≤ dig (a.d.set! a.nd b) 0 := by
        intro _
        by_cases hnd0 : a.nd = 0
        · -- the first stored digit is not `0`
          have hb48 : b ≠ 48 := by
            intro h48
            apply hz; simp [h48, hnd0]
          unfold dig
          rw [hnd0, getElem!_set! a.d 0 0 b (by omega), if_pos rfl]
          have : b.toNat ≠ 48 := fun hh => hb48 (UInt8.toNat_inj.mp (by simpa using hh))
          omega
        · rw [dig_set_ne a.d a.nd 0 b hfit (by omega)]; exact hnz (by omega)
      have := ih { a with d := a.d.set! a.nd b, nd := a.nd + 1 } hds' (by simp only []; rw [size_set!]; exact hsz)
        (by simp only []; omega) hok' hnz'
      simp only [] at this ⊢
      obtain ⟨c1, c2, c3, c4, c5, c6, c7, c8, c9⟩ := this
      refine ⟨c1, by simp only [List.length_cons]; omega, c3, c4, ?_, ?_, c7, c8, fun h => c9 (by omega)⟩
      · rw [c5]
        simp only [val, List.length_cons, digitsVal]
        rw [val_set_ge a.d a.nd b hfit a.nd (Nat.le_refl _)]
        have hdg : dig (a.d.set! a.nd b) a.nd = b.toNat - 48 := by
          unfold dig; rw [getElem!_set! a.d a.nd a.nd b hfit, if_pos rfl]
        rw [hdg, ParseFast.digitsVal_acc ds (0 * 10 + (b.toNat - 48)), Nat.pow_succ]
        ring
      · rw [c6]; simp only [List.length_cons]; push_cast; ring

/-- a run of digits in `setLoop` (no capacity overflow: at most 800 digits in all) -/
theorem setLoop_digits (data : Bytes) : ∀ (ds r : List UInt8) (fuel i : Nat) (a : Decimal) (sawdot sd : Bool),
    allDigits ds → At data i (ds ++ r) → ds.length ≤ fuel → a.d.size = 800 → a.nd + ds.length ≤ 800 →
    setLoop data fuel i a sawdot sd 0 = setLoop data (fuel - ds.length) (i + ds.length) (pushDigits ds a) sawdot (sd || !ds.isEmpty) 0 := by
  intro ds
  induction ds with
  | nil => intro r fuel i a sawdot sd _ _ _ _ _; simp [pushDigits]
  | cons b ds ih =>
    intro r fuel i a sawdot sd hds hat hf hsz hle
    obtain ⟨fuel, rfl⟩ : ∃ f, fuel = f + 1 := ⟨fuel - 1, by simp only [List.length_cons] at hf; omega⟩
    have hat0 : At data i (b :: (ds ++ r)) := by simpa using hat
    obtain ⟨_, _, hat'⟩ := hat0.cons_inv
    have hg : data[i]? = some b := by rw [at_get hat0]; rfl
    have hb : isDigit b = true := hds b (by simp)
    have hb46 : (b == 46) = false := by
      by_cases hh : (b == 46) = true
      · have : b = 46 := by simpa using hh
        subst this; exact absurd hb (by decide)
      · simpa using hh
    have hbd : (decide (48 ≤ b) && decide (b ≤ 57)) = true := hb
    simp only [List.length_cons] at hle hf
    simp only [setLoop, hg, hb46, Bool.false_eq_true, if_false, hbd, if_true, pushDigits, List.length_cons]
    have hds' : allDigits ds := fun x hx => hds x (by simp [hx])
    have e1 : fuel + 1 - (ds.length + 1) = fuel - ds.length := by omega
    have e2 : i + (ds.length + 1) = i + 1 + ds.length := by omega
    rw [e1, e2]
    by_cases hz : (b == 48 && a.nd == 0) = true
    · rw [if_pos hz]
      have hp : push1 a b = { a with dp := a.dp - 1 } := by simp only [push1, hz, if_true]
      rw [hp]
      have := ih r fuel (i + 1) { a with dp := a.dp - 1 } sawdot true hds' hat' (by omega) hsz (by simp only []; omega)
      rw [this]; simp
    · rw [if_neg hz]
      have hfit : a.nd < a.d.size := by omega
      rw [if_pos hfit]
      have hp : push1 a b = { a with d := a.d.set! a.nd b, nd := a.nd + 1 } := by
        simp only [push1]; rw [if_neg hz]
      rw [hp]
      have := ih r fuel (i + 1) { a with d := a.d.set! a.nd b, nd := a.nd + 1 } sawdot true hds' hat'
        (by omega) (by simp only []; rw [size_set!]; exact hsz) (by simp only []; omega)
      rw [this]; simp

theorem setLoop_stop (data : Bytes) (r : List UInt8) (fuel i : Nat) (a : Decimal) (sawdot sd : Bool) (dropped : Nat)
    (hat : At data i r) (hnd : noDigitHead r) (hdot : ∀ t, r ≠ 46 :: t) :
    setLoop data fuel i a sawdot sd dropped = some (a, sawdot, sd, dropped, i) := by
  cases fuel with
  | zero => rfl
  | succ fuel =>
    cases r with
    | nil =>
      have hg : data[i]? = none := by rw [at_get hat]; rfl
      simp [setLoop, hg]
    | cons b t =>
      have hg : data[i]? = some b := by rw [at_get hat]; rfl
      have hb := hnd b t rfl
      have hbd : (decide (48 ≤ b) && decide (b ≤ 57)) = false := hb
      have hb46 : (b == 46) = false := by
        by_cases hh : (b == 46) = true
        · have : b = 46 := by simpa using hh
          subst this; exact absurd rfl (hdot t)
        · simpa using hh
      simp [setLoop, hg, hb46, hbd]

theorem setLoop_dot (data : Bytes) (t : List UInt8) (fuel i : Nat) (a : Decimal) (sd : Bool) (dropped : Nat)
    (hat : At data i (46 :: t)) :
    setLoop data (fuel + 1) i a false sd dropped = setLoop data fuel (i + 1) { a with dp := ((a.nd + dropped : Nat) : ℤ) } true sd dropped := by
  have hg : data[i]? = some 46 := by rw [at_get hat]; rfl
  simp [setLoop, hg]

theorem at_drop_append {data : Bytes} {p : Nat} {a b : List UInt8} (h : At data p (a ++ b)) : At data (p + a.length) b := by
  have := at_suffix h a.length (by simp)
  simpa using this

/-- the decimal after the mantissa of a literal -/
def mantDec (neg : Bool) (ip fp : List UInt8) : Decimal :=
  let a1 := pushDigits ip { Decimal.zero with neg := neg }
  pushDigits fp { a1 with dp := ((a1.nd + 0 : Nat) : ℤ) }

theorem zero_size : Decimal.zero.d.size = 800 := by simp [Decimal.zero, Gen.fpDecimalDigits]

theorem noDigitHead_tail (fp : List UInt8) (ec : UInt8) (sg eds : List UInt8) (hec : (ec == 101 || ec == 69) = true) :
    noDigitHead (fracL fp ++ (expL ec sg eds ++ [])) := by
  intro b t hbt
  cases fp with
  | cons d ds =>
    simp only [fracL, List.cons_append] at hbt
    injection hbt with h1 _; subst h1; decide
  | nil =>
    cases eds with
    | nil => simp [fracL, expL] at hbt
    | cons d ds =>
      simp only [fracL, expL, List.nil_append, List.append_nil, List.cons_append] at hbt
      injection hbt with h1 _; subst h1
      by_cases h101 : ec = 101
      · subst h101; decide
      · have : ec = 69 := by simpa [h101] using hec
        subst this; decide

theorem expL_no_dot (ec : UInt8) (sg eds : List UInt8) (hec : (ec == 101 || ec == 69) = true) :
    ∀ t, expL ec sg eds ++ [] ≠ 46 :: t := by
  intro t ht
  cases eds with
  | nil => simp [expL] at ht
  | cons d ds =>
    simp only [expL, List.append_nil] at ht
    injection ht with h1 _; subst h1
    exact absurd hec (by decide)

/-- the mantissa loop of `set` on a literal with at most 800 mantissa digits -/
theorem setLoop_mant (data : Bytes) (neg : Bool) (ip fp : List UInt8) (ec : UInt8) (sg eds : List UInt8) (p0 : Nat)
    (hat : At data p0 (ip ++ (fracL fp ++ (expL ec sg eds ++ []))))
    (hip : allDigits ip) (hipne : ip ≠ []) (hfp : allDigits fp) (hec : (ec == 101 || ec == 69) = true)
    (hnoDot : fp = [] → ∀ t, expL ec sg eds ++ [] ≠ 46 :: t) (hfpStop : fp ≠ [] → noDigitHead (expL ec sg eds ++ []))
    (hlen : ip.length + fp.length ≤ 800) :
    ∃ aL, setLoop data data.size p0 { Decimal.zero with neg := neg } false false 0 =
      some (aL, !fp.isEmpty, true, 0, p0 + ip.length + (fracL fp).length) ∧
      (if !(!fp.isEmpty) then { aL with dp := ((aL.nd + 0 : Nat) : ℤ) } else aL) = mantDec neg ip fp := by
  have hl := hat.length
  simp only [List.length_append] at hl
  have hsz0 := zero_size
  have h1 := setLoop_digits data ip (fracL fp ++ (expL ec sg eds ++ [])) data.size p0 { Decimal.zero with neg := neg } false false
    hip hat (by omega) hsz0 (by simp only [Decimal.zero]; omega)
  rw [h1]
  have hipe : (false || !ip.isEmpty) = true := by
    cases ip with
    | nil => exact absurd rfl hipne
    | cons _ _ => rfl
  rw [hipe]
  have hat1 : At data (p0 + ip.length) (fracL fp ++ (expL ec sg eds ++ [])) := at_drop_append hat
  have hs1 := pushDigits_spec ip { Decimal.zero with neg := neg } hip hsz0 (by simp only [Decimal.zero]; omega)
    (fun i hi => absurd hi (by simp [Decimal.zero])) (fun h => absurd h (by simp [Decimal.zero]))
  simp only [] at hs1
  obtain ⟨s1, s2, -⟩ := hs1
  cases fp with
  | nil =>
    simp only [fracL, List.nil_append, List.length_nil, Nat.add_zero, List.isEmpty_nil, Bool.not_true] at hat1 ⊢
    rw [setLoop_stop data _ _ _ _ false true 0 hat1 (by simpa [fracL] using noDigitHead_tail [] ec sg eds hec) (hnoDot rfl)]
    exact ⟨_, rfl, by simp only [mantDec, pushDigits, Bool.not_false, if_true]; rfl⟩
  | cons d ds =>
    have hat1' : At data (p0 + ip.length) (46 :: ((d :: ds) ++ (expL ec sg eds ++ []))) := by simpa [fracL] using hat1
    obtain ⟨_, _, hat2⟩ := hat1'.cons_inv
    obtain ⟨f, hf⟩ : ∃ f, data.size - ip.length = f + 1 := ⟨data.size - ip.length - 1, by simp [fracL] at hl; omega⟩
    rw [hf, setLoop_dot data _ f _ _ true 0 hat1']
    simp only [fracL, List.length_cons] at hl hlen
    have h2 := setLoop_digits data (d :: ds) (expL ec sg eds ++ []) f (p0 + ip.length + 1)
      { pushDigits ip { Decimal.zero with neg := neg } with dp := (((pushDigits ip { Decimal.zero with neg := neg }).nd + 0 : Nat) : ℤ) } true true
      hfp hat2 (by simp only [List.length_cons]; omega) s1 (by simp only [Decimal.zero, List.length_cons] at s2 ⊢; omega)
    rw [h2]
    have hat3 : At data (p0 + ip.length + 1 + (d :: ds).length) (expL ec sg eds ++ []) := at_drop_append hat2
    rw [setLoop_stop data _ _ _ _ true _ 0 hat3 (hfpStop (by simp)) (expL_no_dot ec sg eds hec)]
    refine ⟨mantDec neg ip (d :: ds), ?_, by simp only [List.isEmpty_cons, Bool.not_false, Bool.not_true, Bool.false_eq_true, if_false]⟩
    simp only [mantDec, fracL, List.length_cons, List.isEmpty_cons, Bool.not_false, Bool.true_or]
    congr 5
    omega

/-- the optional exponent in `set` -/
theorem setExp_val (data : Bytes) (a : Decimal) (p : Nat) (ec : UInt8) (sg eds : List UInt8)
    (hat : At data p (expL ec sg eds ++ [])) (hed : allDigits eds) (hec : (ec == 101 || ec == 69) = true)
    (hsg : sg = [] ∨ sg = [43] ∨ sg = [45]) :
    setExp data a p = some { a with dp := a.dp + (clipAcc (10000 + data.size) eds 0 : ℤ) * sgnOf sg } := by
  have hlen := hat.length
  cases eds with
  | nil =>
    simp only [expL, List.nil_append] at hat
    have hg : data[p]? = none := by rw [at_get hat]; rfl
    simp [setExp, hg, clipAcc]
  | cons d ds =>
    have hd : isDigit d = true := hed d (by simp)
    have hdn : (d < 48 || d > 57) = false := by
      have : (decide (48 ≤ d) && decide (d ≤ 57)) = true := hd
      simp only [Bool.and_eq_true, decide_eq_true_eq] at this
      simp only [Bool.or_eq_false_iff, decide_eq_false_iff_not, UInt8.not_lt]
      exact ⟨this.1, this.2⟩
    have hd43 : (d == 43) = false := by
      have := digit_not_sign d hd
      simp only [Bool.or_eq_false_iff] at this; exact this.1
    have hd45 : (d == 45) = false := by
      have := digit_not_sign d hd
      simp only [Bool.or_eq_false_iff] at this; exact this.2
    have hat0 : At data p (ec :: (sg ++ d :: ds ++ [])) := by simpa [expL] using hat
    obtain ⟨_, _, hat1⟩ := hat0.cons_inv
    have hg : data[p]? = some ec := by rw [at_get hat0]; rfl
    simp only [setExp, hg, hec, if_true]
    rcases hsg with rfl | rfl | rfl
    · have hat1' : At data (p + 1) ((d :: ds) ++ []) := by simpa using hat1
      have hg1 : data[p + 1]? = some d := by rw [at_get hat1']; rfl
      have hl1 := hat1'.length
      simp only [hg1, hd43, hd45, Bool.false_eq_true, if_false, hdn]
      rw [expDigits_val data (d :: ds) [] _ (p + 1) 0 hed noDigitHead_nil hat1' (by simp only [List.length_append] at hl1; omega)]
      simp only [List.length_append, List.length_nil, Nat.add_zero] at hl1
      have hle := hat1'.le
      have : (p + 1 + (d :: ds).length != data.size) = false := by simp only [bne_eq_false_iff_eq]; omega
      simp only [this, Bool.false_eq_true, if_false, sgnOf]
      have : ([] : List UInt8) = [45] ↔ False := by simp
      simp only [this, if_false]
    · have hat1' : At data (p + 1) (43 :: ((d :: ds) ++ [])) := by simpa using hat1
      obtain ⟨_, _, hat2⟩ := hat1'.cons_inv
      have hg1 : data[p + 1]? = some 43 := by rw [at_get hat1']; rfl
      have hg2 : data[p + 1 + 1]? = some d := by rw [at_get hat2]; rfl
      have hl2 := hat2.length
      simp only [hg1, beq_self_eq_true, if_true, hg2, hdn, Bool.false_eq_true, if_false]
      rw [expDigits_val data (d :: ds) [] _ (p + 1 + 1) 0 hed noDigitHead_nil hat2 (by simp only [List.length_append] at hl2; omega)]
      simp only [List.length_append, List.length_nil, Nat.add_zero] at hl2
      have hle := hat2.le
      have : (p + 1 + 1 + (d :: ds).length != data.size) = false := by simp only [bne_eq_false_iff_eq]; omega
      simp only [this, Bool.false_eq_true, if_false, sgnOf]
      have : ([43] : List UInt8) = [45] ↔ False := by decide
      simp only [this, if_false]
    · have hat1' : At data (p + 1) (45 :: ((d :: ds) ++ [])) := by simpa using hat1
      obtain ⟨_, _, hat2⟩ := hat1'.cons_inv
      have hg1 : data[p + 1]? = some 45 := by rw [at_get hat1']; rfl
      have hg2 : data[p + 1 + 1]? = some d := by rw [at_get hat2]; rfl
      have hl2 := hat2.length
      have h4543 : ((45 : UInt8) == 43) = false := by decide
      simp only [hg1, h4543, beq_self_eq_true, if_true, hg2, hdn, Bool.false_eq_true, if_false]
      rw [expDigits_val data (d :: ds) [] _ (p + 1 + 1) 0 hed noDigitHead_nil hat2 (by simp only [List.length_append] at hl2; omega)]
      simp only [List.length_append, List.length_nil, Nat.add_zero] at hl2
      have hle := hat2.le
      have : (p + 1 + 1 + (d :: ds).length != data.size) = false := by simp only [bne_eq_false_iff_eq]; omega
      simp only [this, Bool.false_eq_true, if_false, sgnOf, if_true]

theorem mantDec_aux (a0 : Decimal) (ip fp : List UInt8) (hip : allDigits ip) (hfp : allDigits fp) (hlen : ip.length + fp.length ≤ 800)
    (hsz : a0.d.size = 800) (hnd : a0.nd = 0) (htr : a0.trunc = false) :
    let a1 := pushDigits ip a0
    let a := pushDigits fp { a1 with dp := ((a1.nd + 0 : Nat) : ℤ) }
    WF a ∧ NZ a ∧ val a.d a.nd = digitsVal (ip ++ fp) 0 ∧ a.dp - (a.nd : ℤ) = -(fp.length : ℤ) ∧ a.neg = a0.neg ∧ a.trunc = false := by
  have hs1 := pushDigits_spec ip a0 hip hsz (by omega) (fun i hi => absurd hi (by omega)) (fun h => absurd h (by omega))
  simp only [] at hs1
  obtain ⟨s1, s2, s3, s4, s5, s6, s7, s8, -⟩ := hs1
  rw [hnd] at s2 s5
  have hs2 := pushDigits_spec fp { pushDigits ip a0 with dp := (((pushDigits ip a0).nd + 0 : Nat) : ℤ) } hfp s1 (by simp only []; omega) s3 s4
  simp only [] at hs2
  obtain ⟨t1, t2, t3, t4, t5, t6, t7, t8, -⟩ := hs2
  simp only []
  refine ⟨⟨t1, by omega, t3⟩, t4, ?_, ?_, by rw [t7, s7], by rw [t8, s8, htr]⟩
  · rw [t5, s5, ParseFast.digitsVal_append, ParseFast.digitsVal_acc fp (digitsVal ip 0)]
    simp [val]
  · rw [t6]; push_cast; ring

/-- the decimal after the mantissa: shape and value -/
theorem mantDec_spec (neg : Bool) (ip fp : List UInt8) (hip : allDigits ip) (hfp : allDigits fp) (hlen : ip.length + fp.length ≤ 800) :
    let a := mantDec neg ip fp
    WF a ∧ NZ a ∧ val a.d a.nd = digitsVal (ip ++ fp) 0 ∧ a.dp - (a.nd : ℤ) = -(fp.length : ℤ) ∧ a.neg = neg ∧ a.trunc = false :=
  mantDec_aux { Decimal.zero with neg := neg } ip fp hip hfp hlen zero_size rfl rfl

/-- **`decimal.set`** on a complete number literal with at most 800 mantissa digits -/
theorem set_spec (data : Bytes) (neg : Bool) (ip fp : List UInt8) (ec : UInt8) (sg eds : List UInt8)
    (h : Shape data.toList neg ip fp ec sg eds []) (hlen : ip.length + fp.length ≤ 800) :
    ∃ a, Decimal.set data = some a ∧ Good0 a ∧ a.neg = neg ∧ a.trunc = false ∧
      aval a = (digitsVal (ip ++ fp) 0 : ℚ) * 10 ^ ((clipAcc (10000 + data.size) eds 0 : ℤ) * sgnOf sg - (fp.length : ℤ)) := by
  have hat0 := At.start data
  have hsize : data.size = data.toList.length := by simp
  obtain ⟨b, ds, hipc⟩ : ∃ b ds, ip = b :: ds := by
    cases hip : ip with
    | nil => exact absurd hip h.ipNe
    | cons b ds => exact ⟨b, ds, rfl⟩
  have hb : isDigit b = true := h.ipDigits b (by rw [hipc]; simp)
  have hb45 : (b == 45) = false := by
    by_cases hh : (b == 45) = true
    · have : b = 45 := by simpa using hh
      subst this; exact absurd hb (by decide)
    · simpa using hh
  have hsz0 : (data.size == 0) = false := by
    rw [hsize, h.eq, hipc]; cases neg <;> simp
  -- the sign byte and the start of the digits
  have hstart : (data[0]! == 45) = neg ∧ At data (if neg then 1 else 0) (ip ++ (fracL fp ++ (expL ec sg eds ++ []))) := by
    have heq := h.eq
    cases hneg : neg with
    | true =>
      rw [hneg] at heq
      simp only [if_true, List.cons_append, List.nil_append] at heq
      rw [heq] at hat0
      obtain ⟨_, _, hat1⟩ := hat0.cons_inv
      exact ⟨by rw [at_getBang hat0]; rfl, by simpa using hat1⟩
    | false =>
      rw [hneg] at heq
      simp only [Bool.false_eq_true, if_false, List.nil_append] at heq
      rw [heq] at hat0
      have hat0c : At data 0 (b :: (ds ++ (fracL fp ++ (expL ec sg eds ++ [])))) := by simpa [hipc] using hat0
      exact ⟨by rw [at_getBang hat0c]; exact hb45, by simpa using hat0⟩
  obtain ⟨hneg0, hatp⟩ := hstart
  obtain ⟨aL, hloop, hadj⟩ := setLoop_mant data neg ip fp ec sg eds _ hatp h.ipDigits h.ipNe h.fpDigits h.ecE h.noDot h.fpStop hlen
  have hatE : At data ((if neg then 1 else 0) + ip.length + (fracL fp).length) (expL ec sg eds ++ []) := by
    have := at_drop_append (at_drop_append hatp)
    exact this
  obtain ⟨m1, m2, m3, m4, m5, m6⟩ := mantDec_spec neg ip fp h.ipDigits h.fpDigits hlen
  refine ⟨{ mantDec neg ip fp with dp := (mantDec neg ip fp).dp + (clipAcc (10000 + data.size) eds 0 : ℤ) * sgnOf sg }, ?_,
    ⟨⟨m1.size, m1.nd, m1.digits⟩, m2⟩, m5, m6, ?_⟩
  · simp only [Decimal.set, hsz0, Bool.false_eq_true, if_false, hneg0, hloop, Bool.not_true]
    rw [hadj]
    exact setExp_val data _ _ ec sg eds hatE h.edsDigits h.ecE h.sgS
  · simp only [aval]
    rw [m3]
    congr 2
    omega

/-! ## any number of digits: `set` always succeeds and builds a well-formed decimal in normal form -/

/-- one digit of the mantissa loop, all three branches (`dropped` counts integer digits that did not fit) -/
def pushAny (sawdot : Bool) (st : Decimal × Nat) (b : UInt8) : Decimal × Nat :=
  if b == 48 && st.1.nd == 0 then ({ st.1 with dp := st.1.dp - 1 }, st.2)
  else if st.1.nd < st.1.d.size then ({ st.1 with d := st.1.d.set! st.1.nd b, nd := st.1.nd + 1 }, st.2)
  else (if b != 48 then { st.1 with trunc := true } else st.1, if !sawdot then st.2 + 1 else st.2)

def pushAnyL (sawdot : Bool) : List UInt8 → Decimal × Nat → Decimal × Nat
  | [], st => st
  | b :: ds, st => pushAnyL sawdot ds (pushAny sawdot st b)

theorem pushAny_good (sawdot : Bool) (st : Decimal × Nat) (b : UInt8) (hb : isDigit b = true) (hw : WF st.1) (hnz : NZ st.1) :
    WF (pushAny sawdot st b).1 ∧ NZ (pushAny sawdot st b).1 ∧ (pushAny sawdot st b).1.neg = st.1.neg := by
  have hbr : 48 ≤ b.toNat ∧ b.toNat ≤ 57 := by
    have : (decide (48 ≤ b) && decide (b ≤ 57)) = true := hb
    simp only [Bool.and_eq_true, decide_eq_true_eq, UInt8.le_iff_toNat_le] at this
    exact this
  simp only [pushAny]
  by_cases hz : (b == 48 && st.1.nd == 0) = true
  · rw [if_pos hz]; exact ⟨⟨hw.size, hw.nd, hw.digits⟩, hnz, rfl⟩
  · rw [if_neg hz]
    by_cases hfit : st.1.nd < st.1.d.size
    · rw [if_pos hfit]
      refine ⟨⟨by simp only []; rw [size_set!]; exact hw.size, by have := hw.size; simp only []; omega, ?_⟩, ?_, rfl⟩
      · intro i hi
        simp only [] at hi ⊢
        by_cases hia : i = st.1.nd
        · rw [hia, getElem!_set! st.1.d st.1.nd st.1.nd b hfit, if_pos rfl]; exact hbr
        · rw [getElem!_set! st.1.d st.1.nd i b hfit, if_neg hia]; exact hw.digits i (by omega)
      · intro _
        show 1 ≤ dig (st.1.d.set! st.1.nd b) 0
        by_cases hnd0 : st.1.nd = 0
        · have hb48 : b ≠ 48 := by
            intro h48
            apply hz; simp [h48, hnd0]
          unfold dig
          rw [hnd0, getElem!_set! st.1.d 0 0 b (by omega), if_pos rfl]
          have : b.toNat ≠ 48 := fun hh => hb48 (UInt8.toNat_inj.mp (by simpa using hh))
          omega
        · rw [dig_set_ne st.1.d st.1.nd 0 b hfit (by omega)]; exact hnz (by omega)
    · rw [if_neg hfit]
      split
      · exact ⟨⟨hw.size, hw.nd, hw.digits⟩, hnz, rfl⟩
      · exact ⟨hw, hnz, rfl⟩

theorem pushAnyL_good (sawdot : Bool) : ∀ (ds : List UInt8) (st : Decimal × Nat), allDigits ds → WF st.1 → NZ st.1 →
    WF (pushAnyL sawdot ds st).1 ∧ NZ (pushAnyL sawdot ds st).1 ∧ (pushAnyL sawdot ds st).1.neg = st.1.neg := by
  intro ds
  induction ds with
  | nil => intro st _ hw hnz; exact ⟨hw, hnz, rfl⟩
  | cons b ds ih =>
    intro st hds hw hnz
    obtain ⟨w1, z1, n1⟩ := pushAny_good sawdot st b (hds b (by simp)) hw hnz
    obtain ⟨w2, z2, n2⟩ := ih (pushAny sawdot st b) (fun x hx => hds x (by simp [hx])) w1 z1
    exact ⟨w2, z2, by rw [show pushAnyL sawdot (b :: ds) st = pushAnyL sawdot ds (pushAny sawdot st b) from rfl, n2, n1]⟩

/-- a run of digits in `setLoop`, any length -/
theorem setLoop_digitsAny (data : Bytes) : ∀ (ds r : List UInt8) (fuel i : Nat) (a : Decimal) (sawdot sd : Bool) (dropped : Nat),
    allDigits ds → At data i (ds ++ r) → ds.length ≤ fuel →
    setLoop data fuel i a sawdot sd dropped =
      setLoop data (fuel - ds.length) (i + ds.length) (pushAnyL sawdot ds (a, dropped)).1 sawdot (sd || !ds.isEmpty) (pushAnyL sawdot ds (a, dropped)).2 := by
  intro ds
  induction ds with
  | nil => intro r fuel i a sawdot sd dropped _ _ _; simp [pushAnyL]
  | cons b ds ih =>
    intro r fuel i a sawdot sd dropped hds hat hf
    obtain ⟨fuel, rfl⟩ : ∃ f, fuel = f + 1 := ⟨fuel - 1, by simp only [List.length_cons] at hf; omega⟩
    have hat0 : At data i (b :: (ds ++ r)) := by simpa using hat
    obtain ⟨_, _, hat'⟩ := hat0.cons_inv
    have hg : data[i]? = some b := by rw [at_get hat0]; rfl
    have hb : isDigit b = true := hds b (by simp)
    have hb46 : (b == 46) = false := by
      by_cases hh : (b == 46) = true
      · have : b = 46 := by simpa using hh
        subst this; exact absurd hb (by decide)
      · simpa using hh
    have hbd : (decide (48 ≤ b) && decide (b ≤ 57)) = true := hb
    simp only [List.length_cons] at hf
    simp only [setLoop, hg, hb46, Bool.false_eq_true, if_false, hbd, if_true, pushAnyL, List.length_cons]
    have hds' : allDigits ds := fun x hx => hds x (by simp [hx])
    have e1 : fuel + 1 - (ds.length + 1) = fuel - ds.length := by omega
    have e2 : i + (ds.length + 1) = i + 1 + ds.length := by omega
    rw [e1, e2]
    have hsd : (sd || !(b :: ds).isEmpty) = (true || !ds.isEmpty) := by simp
    rw [hsd]
    simp only [pushAny]
    by_cases hz : (b == 48 && a.nd == 0) = true
    · rw [if_pos hz, if_pos hz]
      exact ih r fuel (i + 1) _ sawdot true dropped hds' hat' (by omega)
    · rw [if_neg hz, if_neg hz]
      by_cases hfit : a.nd < a.d.size
      · rw [if_pos hfit, if_pos hfit]
        exact ih r fuel (i + 1) _ sawdot true dropped hds' hat' (by omega)
      · rw [if_neg hfit, if_neg hfit]
        exact ih r fuel (i + 1) _ sawdot true _ hds' hat' (by omega)

theorem setExp_good (data : Bytes) (a : Decimal) (p : Nat) (ec : UInt8) (sg eds : List UInt8)
    (hat : At data p (expL ec sg eds ++ [])) (hed : allDigits eds) (hec : (ec == 101 || ec == 69) = true)
    (hsg : sg = [] ∨ sg = [43] ∨ sg = [45]) (hg : Good0 a) :
    ∃ b, setExp data a p = some b ∧ Good0 b ∧ b.neg = a.neg := by
  rw [setExp_val data a p ec sg eds hat hed hec hsg]
  exact ⟨_, rfl, ⟨⟨hg.wf.size, hg.wf.nd, hg.wf.digits⟩, hg.nz⟩, rfl⟩

/-- **`decimal.set` on any complete number literal** succeeds and builds a well-formed decimal in normal form -/
theorem set_total (data : Bytes) (neg : Bool) (ip fp : List UInt8) (ec : UInt8) (sg eds : List UInt8)
    (h : Shape data.toList neg ip fp ec sg eds []) :
    ∃ a, Decimal.set data = some a ∧ Good0 a ∧ a.neg = neg := by
  have hat0 := At.start data
  have hsize : data.size = data.toList.length := by simp
  obtain ⟨b, ds, hipc⟩ : ∃ b ds, ip = b :: ds := by
    cases hip : ip with
    | nil => exact absurd hip h.ipNe
    | cons b ds => exact ⟨b, ds, rfl⟩
  have hb : isDigit b = true := h.ipDigits b (by rw [hipc]; simp)
  have hb45 : (b == 45) = false := by
    by_cases hh : (b == 45) = true
    · have : b = 45 := by simpa using hh
      subst this; exact absurd hb (by decide)
    · simpa using hh
  have hsz0 : (data.size == 0) = false := by
    rw [hsize, h.eq, hipc]; cases neg <;> simp
  have hstart : (data[0]! == 45) = neg ∧ At data (if neg then 1 else 0) (ip ++ (fracL fp ++ (expL ec sg eds ++ []))) := by
    have heq := h.eq
    cases hneg : neg with
    | true =>
      rw [hneg] at heq
      simp only [if_true, List.cons_append, List.nil_append] at heq
      rw [heq] at hat0
      obtain ⟨_, _, hat1⟩ := hat0.cons_inv
      exact ⟨by rw [at_getBang hat0]; rfl, by simpa using hat1⟩
    | false =>
      rw [hneg] at heq
      simp only [Bool.false_eq_true, if_false, List.nil_append] at heq
      rw [heq] at hat0
      have hat0c : At data 0 (b :: (ds ++ (fracL fp ++ (expL ec sg eds ++ [])))) := by simpa [hipc] using hat0
      exact ⟨by rw [at_getBang hat0c]; exact hb45, by simpa using hat0⟩
  obtain ⟨hneg0, hatp⟩ := hstart
  generalize hp0 : (if neg then 1 else 0) = p0 at hatp
  have hl := hatp.length
  simp only [List.length_append] at hl
  -- the start state
  have hw0 : WF ({ Decimal.zero with neg := neg } : Decimal) := ⟨zero_size, by simp [Decimal.zero], fun i hi => absurd hi (by simp [Decimal.zero])⟩
  have hz0 : NZ ({ Decimal.zero with neg := neg } : Decimal) := fun hh => absurd hh (by simp [Decimal.zero])
  -- integer digits
  have h1 := setLoop_digitsAny data ip (fracL fp ++ (expL ec sg eds ++ [])) data.size p0 { Decimal.zero with neg := neg } false false 0
    h.ipDigits hatp (by omega)
  obtain ⟨w1, z1, n1⟩ := pushAnyL_good false ip ({ Decimal.zero with neg := neg }, 0) h.ipDigits hw0 hz0
  generalize pushAnyL false ip ({ Decimal.zero with neg := neg }, 0) = st1 at h1 w1 z1 n1
  have hipe : (false || !ip.isEmpty) = true := by rw [hipc]; rfl
  rw [hipe] at h1
  have hat1 : At data (p0 + ip.length) (fracL fp ++ (expL ec sg eds ++ [])) := at_drop_append hatp
  -- the loop result and the state handed to the exponent part
  have hloop : ∃ aL sawdot dr, setLoop data data.size p0 { Decimal.zero with neg := neg } false false 0 =
      some (aL, sawdot, true, dr, p0 + ip.length + (fracL fp).length) ∧ Good0 aL ∧ aL.neg = neg := by
    rw [h1]
    cases hfp : fp with
    | nil =>
      rw [hfp] at hat1
      simp only [fracL, List.nil_append, List.length_nil, Nat.add_zero] at hat1 ⊢
      rw [setLoop_stop data _ _ _ _ false true _ hat1 (by simpa [fracL] using noDigitHead_tail [] ec sg eds h.ecE) (h.noDot hfp)]
      exact ⟨st1.1, false, st1.2, rfl, ⟨w1, z1⟩, n1⟩
    | cons d ds' =>
      rw [hfp] at hat1 hl
      have hat1' : At data (p0 + ip.length) (46 :: ((d :: ds') ++ (expL ec sg eds ++ []))) := by simpa [fracL] using hat1
      obtain ⟨_, _, hat2⟩ := hat1'.cons_inv
      obtain ⟨f, hf⟩ : ∃ f, data.size - ip.length = f + 1 := ⟨data.size - ip.length - 1, by simp [fracL] at hl; omega⟩
      rw [hf, setLoop_dot data _ f _ _ true _ hat1']
      simp only [fracL, List.length_cons] at hl
      have hfpd : allDigits (d :: ds') := by rw [← hfp]; exact h.fpDigits
      have h2 := setLoop_digitsAny data (d :: ds') (expL ec sg eds ++ []) f (p0 + ip.length + 1)
        { st1.1 with dp := ((st1.1.nd + st1.2 : Nat) : ℤ) } true true st1.2 hfpd hat2 (by simp only [List.length_cons]; omega)
      rw [h2]
      obtain ⟨w2, z2, n2⟩ := pushAnyL_good true (d :: ds') ({ st1.1 with dp := ((st1.1.nd + st1.2 : Nat) : ℤ) }, st1.2) hfpd
        ⟨w1.size, w1.nd, w1.digits⟩ z1
      have hat3 : At data (p0 + ip.length + 1 + (d :: ds').length) (expL ec sg eds ++ []) := at_drop_append hat2
      rw [setLoop_stop data _ _ _ _ true _ _ hat3 (h.fpStop (by rw [hfp]; simp)) (expL_no_dot ec sg eds h.ecE)]
      refine ⟨(pushAnyL true (d :: ds') ({ st1.1 with dp := ((st1.1.nd + st1.2 : Nat) : ℤ) }, st1.2)).1, true,
        (pushAnyL true (d :: ds') ({ st1.1 with dp := ((st1.1.nd + st1.2 : Nat) : ℤ) }, st1.2)).2, ?_, ⟨w2, z2⟩, by rw [n2]; exact n1⟩
      simp only [fracL, List.length_cons, List.isEmpty_cons, Bool.not_false, Bool.true_or]
      congr 5
      omega
  obtain ⟨aL, sawdot, dr, hloop, gL, nL⟩ := hloop
  have hatE : At data (p0 + ip.length + (fracL fp).length) (expL ec sg eds ++ []) := at_drop_append (at_drop_append hatp)
  have gadj : Good0 (if !sawdot then { aL with dp := ((aL.nd + dr : Nat) : ℤ) } else aL) ∧
      (if !sawdot then { aL with dp := ((aL.nd + dr : Nat) : ℤ) } else aL).neg = neg := by
    split
    · exact ⟨⟨⟨gL.wf.size, gL.wf.nd, gL.wf.digits⟩, gL.nz⟩, nL⟩
    · exact ⟨gL, nL⟩
  obtain ⟨bE, hE, gE, nE⟩ := setExp_good data _ _ ec sg eds hatE h.edsDigits h.ecE h.sgS gadj.1
  refine ⟨bE, ?_, gE, by rw [nE]; exact gadj.2⟩
  simp only [Decimal.set, hsz0, Bool.false_eq_true, if_false, hneg0, hp0, hloop, Bool.not_true]
  exact hE

end RJson.Dec
