import RJson.Proofs.ScannerSuffix
/-!
# The reference scanner does not depend on its fuel (once adequate), nor — without a limit — on its depth argument
-/
namespace RJson.Spec
open RJson.Abs

/-- without a depth limit the depth argument is irrelevant -/
theorem scan_depth_irrel : ∀ (fuel : Nat),
    (∀ d d' l, scanValue none fuel d l = scanValue none fuel d' l) ∧
    (∀ d d' first l, scanArr none fuel d first l = scanArr none fuel d' first l) ∧
    (∀ d d' first l, scanObj none fuel d first l = scanObj none fuel d' first l) := by
  intro fuel
  induction fuel with
  | zero => exact ⟨fun _ _ _ => rfl, fun _ _ _ _ => rfl, fun _ _ _ _ => rfl⟩
  | succ fuel ih =>
    obtain ⟨ihV, ihA, ihO⟩ := ih
    refine ⟨?_, ?_, ?_⟩
    · intro d d' l
      cases l with
      | nil => rfl
      | cons b rest =>
        simp only [scanValue]
        have h1 : ((none : Option Nat) == some d) = false := rfl
        have h2 : ((none : Option Nat) == some d') = false := rfl
        simp only [h1, h2, Bool.false_eq_true, if_false]
        rw [ihA (d + 1) (d' + 1), ihO (d + 1) (d' + 1)]
    · intro d d' first l
      simp only [scanArr]
      cases skipWs l with
      | nil => rfl
      | cons b rest =>
        simp only []
        rw [ihV d d' (b :: rest), ihV d d' (skipWs rest)]
        split
        · rfl
        · split
          · cases scanValue none fuel d' (b :: rest) with
            | none => rfl
            | some r => simp only []; rw [ihA d d']
          · split
            · cases scanValue none fuel d' (skipWs rest) with
              | none => rfl
              | some r => simp only []; rw [ihA d d']
            · rfl
    · intro d d' first l
      rw [scanObj_succ, scanObj_succ]
      have hk : ∀ x, objKey none fuel d x = objKey none fuel d' x := by
        intro x
        cases x with
        | nil => rfl
        | cons q k =>
          by_cases hq : q = 34
          · subst hq
            simp only [objKey_34, memberThen]
            cases scanStringBody k with
            | none => rfl
            | some r1 =>
              simp only []
              cases skipWs r1 with
              | nil => rfl
              | cons b2 r2 =>
                by_cases h58 : b2 = 58
                · subst h58
                  simp only [colonThen_58]
                  rw [ihV d d']
                  cases scanValue none fuel d' (skipWs r2) with
                  | none => rfl
                  | some r3 => simp only []; rw [ihO d d']
                · rw [colonThen_other _ _ _ b2 r2 h58, colonThen_other _ _ _ b2 r2 h58]
          · rw [objKey_other _ _ _ q k hq, objKey_other _ _ _ q k hq]
      cases skipWs l with
      | nil => rfl
      | cons b rest =>
        simp only []
        rw [hk (b :: rest), hk (skipWs rest)]

/-- a limit only removes results -/
theorem scan_limit_mono (m : Nat) : ∀ (fuel : Nat),
    (∀ d l r, scanValue (some m) fuel d l = some r → scanValue none fuel d l = some r) ∧
    (∀ d first l r, scanArr (some m) fuel d first l = some r → scanArr none fuel d first l = some r) ∧
    (∀ d first l r, scanObj (some m) fuel d first l = some r → scanObj none fuel d first l = some r) := by
  intro fuel
  induction fuel with
  | zero =>
    refine ⟨?_, ?_, ?_⟩
    · intro d l r h; simp [scanValue] at h
    · intro d first l r h; simp [scanArr] at h
    · intro d first l r h; simp [scanObj] at h
  | succ fuel ih =>
    obtain ⟨ihV, ihA, ihO⟩ := ih
    refine ⟨?_, ?_, ?_⟩
    · intro d l r h
      cases l with
      | nil => simp [scanValue] at h
      | cons b rest =>
        simp only [scanValue] at h ⊢
        have h2 : ((none : Option Nat) == some d) = false := rfl
        simp only [h2, Bool.false_eq_true, if_false]
        split at h
        · next hb => simp only [hb, if_true]; exact h
        · next hb =>
          simp only [hb, Bool.false_eq_true, if_false]
          split at h
          · next hb => simp only [hb, if_true]; exact h
          · next hb =>
            simp only [hb, Bool.false_eq_true, if_false]
            split at h
            · next hb => simp only [hb, if_true]; exact h
            · next hb =>
              simp only [hb, Bool.false_eq_true, if_false]
              split at h
              · next hb => simp only [hb, if_true]; exact h
              · next hb =>
                simp only [hb, Bool.false_eq_true, if_false]
                split at h
                · next hb =>
                  simp only [hb, if_true]
                  split at h
                  · cases h
                  · exact ihA _ _ _ _ h
                · next hb =>
                  simp only [hb, Bool.false_eq_true, if_false]
                  split at h
                  · next hb =>
                    simp only [hb, if_true]
                    split at h
                    · cases h
                    · exact ihO _ _ _ _ h
                  · next hb =>
                    simp only [hb, Bool.false_eq_true, if_false]
                    exact h
    · intro d first l r h
      simp only [scanArr] at h ⊢
      cases hsk : skipWs l with
      | nil => rw [hsk] at h; simp at h
      | cons b rest =>
        rw [hsk] at h
        simp only [] at h ⊢
        split at h
        · next hb => simp only [hb, if_true]; exact h
        · next hb =>
          simp only [hb, Bool.false_eq_true, if_false]
          split at h
          · next hf =>
            simp only [hf, if_true]
            cases hv : scanValue (some m) fuel d (b :: rest) with
            | none => rw [hv] at h; cases h
            | some r1 =>
              rw [hv] at h
              simp only [] at h
              rw [ihV _ _ _ hv]
              exact ihA _ _ _ _ h
          · next hf =>
            simp only [hf, Bool.false_eq_true, if_false]
            split at h
            · next hc =>
              simp only [hc, if_true]
              cases hv : scanValue (some m) fuel d (skipWs rest) with
              | none => rw [hv] at h; cases h
              | some r1 =>
                rw [hv] at h
                simp only [] at h
                rw [ihV _ _ _ hv]
                exact ihA _ _ _ _ h
            · cases h
    · intro d first l r h
      rw [scanObj_succ] at h ⊢
      have hk : ∀ x, objKey (some m) fuel d x = some r → objKey none fuel d x = some r := by
        intro x hx
        cases x with
        | nil => rw [objKey_nil] at hx; cases hx
        | cons q k =>
          by_cases hq : q = 34
          · subst hq
            simp only [objKey_34, memberThen] at hx ⊢
            cases hs : scanStringBody k with
            | none => rw [hs] at hx; cases hx
            | some r1 =>
              rw [hs] at hx
              simp only [] at hx ⊢
              cases hsk : skipWs r1 with
              | nil => rw [hsk, colonThen_nil] at hx; cases hx
              | cons b2 r2 =>
                rw [hsk] at hx
                by_cases h58 : b2 = 58
                · subst h58
                  simp only [colonThen_58] at hx ⊢
                  cases hv : scanValue (some m) fuel d (skipWs r2) with
                  | none => rw [hv] at hx; cases hx
                  | some r3 =>
                    rw [hv] at hx
                    simp only [] at hx
                    rw [ihV _ _ _ hv]
                    exact ihO _ _ _ _ hx
                · rw [colonThen_other _ _ _ b2 r2 h58] at hx; cases hx
          · rw [objKey_other _ _ _ q k hq] at hx; cases hx
      cases hsk : skipWs l with
      | nil => rw [hsk] at h; simp at h
      | cons b rest =>
        rw [hsk] at h
        simp only [] at h ⊢
        split at h
        · next hb => simp only [hb, if_true]; exact h
        · next hb =>
          simp only [hb, Bool.false_eq_true, if_false]
          split at h
          · next hf => simp only [hf, if_true]; exact hk _ h
          · next hf =>
            simp only [hf, Bool.false_eq_true, if_false]
            split at h
            · next hc => simp only [hc, if_true]; exact hk _ h
            · cases h

/-- a result obtained with some fuel is obtained with every adequate fuel -/
theorem scan_fuel_adequate (md : Option Nat) : ∀ (fuel : Nat),
    (∀ d l r, scanValue md fuel d l = some r → ∀ f', 2 * l.length ≤ f' → scanValue md f' d l = some r) ∧
    (∀ d first l r, scanArr md fuel d first l = some r → ∀ f', 2 * l.length + 1 ≤ f' → scanArr md f' d first l = some r) ∧
    (∀ d first l r, scanObj md fuel d first l = some r → ∀ f', 2 * l.length + 1 ≤ f' → scanObj md f' d first l = some r) := by
  intro fuel
  induction fuel with
  | zero =>
    refine ⟨?_, ?_, ?_⟩
    · intro d l r h; simp [scanValue] at h
    · intro d first l r h; simp [scanArr] at h
    · intro d first l r h; simp [scanObj] at h
  | succ fuel ih =>
    obtain ⟨ihV, ihA, ihO⟩ := ih
    refine ⟨?_, ?_, ?_⟩
    · intro d l r h f' hf'
      cases l with
      | nil => simp [scanValue] at h
      | cons b rest =>
        obtain ⟨f', rfl⟩ : ∃ g, f' = g + 1 := ⟨f' - 1, by simp only [List.length_cons] at hf'; omega⟩
        simp only [List.length_cons] at hf'
        simp only [scanValue] at h ⊢
        split at h
        · next hb => simp only [hb, if_true]; exact h
        · next hb =>
          simp only [hb, Bool.false_eq_true, if_false]
          split at h
          · next hb => simp only [hb, if_true]; exact h
          · next hb =>
            simp only [hb, Bool.false_eq_true, if_false]
            split at h
            · next hb => simp only [hb, if_true]; exact h
            · next hb =>
              simp only [hb, Bool.false_eq_true, if_false]
              split at h
              · next hb => simp only [hb, if_true]; exact h
              · next hb =>
                simp only [hb, Bool.false_eq_true, if_false]
                split at h
                · next hb =>
                  simp only [hb, if_true]
                  split at h
                  · cases h
                  · next hl => simp only [hl, if_false]; exact ihA _ _ _ _ h f' (by omega)
                · next hb =>
                  simp only [hb, Bool.false_eq_true, if_false]
                  split at h
                  · next hb =>
                    simp only [hb, if_true]
                    split at h
                    · cases h
                    · next hl => simp only [hl, if_false]; exact ihO _ _ _ _ h f' (by omega)
                  · next hb =>
                    simp only [hb, Bool.false_eq_true, if_false]
                    exact h
    · intro d first l r h f' hf'
      obtain ⟨f', rfl⟩ : ∃ g, f' = g + 1 := ⟨f' - 1, by omega⟩
      simp only [scanArr] at h ⊢
      have hwl := skipWs_length_le' l
      cases hsk : skipWs l with
      | nil => rw [hsk] at h; simp at h
      | cons b rest =>
        rw [hsk] at h hwl
        simp only [List.length_cons] at hwl
        simp only [] at h ⊢
        split at h
        · next hb => simp only [hb, if_true]; exact h
        · next hb =>
          simp only [hb, Bool.false_eq_true, if_false]
          split at h
          · next hf =>
            simp only [hf, if_true]
            cases hv : scanValue md fuel d (b :: rest) with
            | none => rw [hv] at h; cases h
            | some r1 =>
              rw [hv] at h
              simp only [] at h
              have hp := (scan_progress md fuel).1 _ _ _ hv
              simp only [List.length_cons] at hp
              rw [ihV _ _ _ hv f' (by simp only [List.length_cons]; omega)]
              exact ihA _ _ _ _ h f' (by omega)
          · next hf =>
            simp only [hf, Bool.false_eq_true, if_false]
            split at h
            · next hc =>
              simp only [hc, if_true]
              cases hv : scanValue md fuel d (skipWs rest) with
              | none => rw [hv] at h; cases h
              | some r1 =>
                rw [hv] at h
                simp only [] at h
                have hp := (scan_progress md fuel).1 _ _ _ hv
                have hw2 := skipWs_length_le' rest
                rw [ihV _ _ _ hv f' (by omega)]
                exact ihA _ _ _ _ h f' (by omega)
            · cases h
    · intro d first l r h f' hf'
      obtain ⟨f', rfl⟩ : ∃ g, f' = g + 1 := ⟨f' - 1, by omega⟩
      rw [scanObj_succ] at h ⊢
      have hwl := skipWs_length_le' l
      have hk : ∀ x, x.length ≤ l.length → objKey md fuel d x = some r → objKey md f' d x = some r := by
        intro x hxl hx
        cases x with
        | nil => rw [objKey_nil] at hx; cases hx
        | cons q k =>
          by_cases hq : q = 34
          · subst hq
            simp only [objKey_34, memberThen] at hx ⊢
            simp only [List.length_cons] at hxl
            cases hs : scanStringBody k with
            | none => rw [hs] at hx; cases hx
            | some r1 =>
              rw [hs] at hx
              simp only [] at hx ⊢
              have hp1 := scanStringBody_length_lt _ _ hs
              have hw1 := skipWs_length_le' r1
              cases hsk : skipWs r1 with
              | nil => rw [hsk, colonThen_nil] at hx; cases hx
              | cons b2 r2 =>
                rw [hsk] at hx hw1
                simp only [List.length_cons] at hw1
                by_cases h58 : b2 = 58
                · subst h58
                  simp only [colonThen_58] at hx ⊢
                  cases hv : scanValue md fuel d (skipWs r2) with
                  | none => rw [hv] at hx; cases hx
                  | some r3 =>
                    rw [hv] at hx
                    simp only [] at hx
                    have hp3 := (scan_progress md fuel).1 _ _ _ hv
                    have hw2 := skipWs_length_le' r2
                    rw [ihV _ _ _ hv f' (by omega)]
                    exact ihO _ _ _ _ hx f' (by omega)
                · rw [colonThen_other _ _ _ b2 r2 h58] at hx; cases hx
          · rw [objKey_other _ _ _ q k hq] at hx; cases hx
      cases hsk : skipWs l with
      | nil => rw [hsk] at h; simp at h
      | cons b rest =>
        rw [hsk] at h hwl
        simp only [List.length_cons] at hwl
        simp only [] at h ⊢
        split at h
        · next hb => simp only [hb, if_true]; exact h
        · next hb =>
          simp only [hb, Bool.false_eq_true, if_false]
          split at h
          · next hf => simp only [hf, if_true]; exact hk _ (by simp only [List.length_cons]; omega) h
          · next hf =>
            simp only [hf, Bool.false_eq_true, if_false]
            split at h
            · next hc =>
              simp only [hc, if_true]
              have hw2 := skipWs_length_le' rest
              exact hk _ (by omega) h
            · cases h

end RJson.Spec
