import RJson.Model.ReaderState
import RJson.Proofs.HandlerSim
/-!
# The state a `ValueReader` keeps never reaches a result

For every oracle (whatever `sync.Pool` hands out), every state of the size hints and every nesting level: the
stateful model of `ReadObject` / `ReadArray` / `ReadValue` returns what the stateless model returns, and leaves the
reader's `depth` as it found it (0 at rest).
-/
namespace RJson.ReaderState
open RJson.Ragel RJson.Model RJson.HandlerSim

/-- the depth at which a reader in state `h` works during `ReadObject` / `ReadArray` -/
def workDepth (h : VRState) : Nat := if h.depth == 0 then 1 else h.depth

/-- one level of stateful readers agrees with one level of stateless readers -/
def SLevel (sp : SReaders) (p : Readers) : Prop :=
  ∀ (h : VRState) (tick : Nat) (data : Bytes),
    ((sp.1 h tick data).1 = p.1 (workDepth h) data ∧ (sp.1 h tick data).2.1.depth = h.depth) ∧
    ((sp.2 h tick data).1 = p.2 (workDepth h) data ∧ (sp.2 h tick data).2.1.depth = h.depth)

theorem workDepth_succ (h : VRState) : workDepth { h with depth := h.depth + 1 } = h.depth + 1 := by
  simp [workDepth]

/-- the member-reading part: same result, depth untouched -/
theorem sHandleMember_eq (orc : Oracle) (sp : SReaders) (p : Readers) (hl : SLevel sp p) (h : VRState) (tick : Nat) (suffix : Bytes) :
    (sHandleMember orc sp h tick suffix).1 = handleMember p h.depth suffix ∧
      (sHandleMember orc sp h tick suffix).2.1.depth = h.depth := by
  simp only [sHandleMember, handleMember]
  generalize nextTokenType suffix = nt
  obtain ⟨tp, pp, terr⟩ := nt
  cases terr with
  | some e => (constructor <;> first | rfl | trivial)
  | none =>
    simp only []
    by_cases h6 : (tp == 6) = true
    · simp only [h6, if_true, borrow]
      by_cases hd : h.depth + 1 > Gen.valueReaderMaxDepth
      · simp only [hd, if_true]; (constructor <;> first | rfl | trivial)
      · simp only [hd, if_false]
        have key := (hl { orc tick with newMapSize := h.maxMapSize, depth := h.depth + 1 } (tick + 1) (suffix.extract (pp - 1) suffix.size)).1.1
        have hw : workDepth { orc tick with newMapSize := h.maxMapSize, depth := h.depth + 1 } = h.depth + 1 := by simp [workDepth]
        rw [hw] at key
        constructor
        · first | (rw [← key]) | (simp only []; rw [← key])
        · first | rfl | trivial
    · simp only [h6, Bool.false_eq_true, if_false]
      by_cases h8 : (tp == 8) = true
      · simp only [h8, if_true, borrow]
        by_cases hd : h.depth + 1 > Gen.valueReaderMaxDepth
        · simp only [hd, if_true]; (constructor <;> first | rfl | trivial)
        · simp only [hd, if_false]
          have key := (hl { orc tick with newMapSize := 0, depth := h.depth + 1 } (tick + 1) (suffix.extract (pp - 1) suffix.size)).2.1
          have hw : workDepth { orc tick with newMapSize := 0, depth := h.depth + 1 } = h.depth + 1 := by simp [workDepth]
          rw [hw] at key
          constructor
          · first | (rw [← key]) | (simp only []; rw [← key])
          · first | rfl | trivial
      · simp only [h8, Bool.false_eq_true, if_false]
        (constructor <;> first | rfl | trivial)

/-- the array handler of a stateful reader, against the stateless one at the reader's depth -/
theorem sArrHandler_rel (orc : Oracle) (sp : SReaders) (p : Readers) (hl : SLevel sp p) (s : SArr) (fld x : Bytes) :
    (sArrHandler orc sp s fld x).1.hs = (arrHandler p s.st.depth s.hs fld x).1 ∧
    (sArrHandler orc sp s fld x).2 = (arrHandler p s.st.depth s.hs fld x).2 ∧
    (sArrHandler orc sp s fld x).1.st.depth = s.st.depth := by
  obtain ⟨e1, e2⟩ := sHandleMember_eq orc sp p hl s.st s.tick x
  simp only [sArrHandler, arrHandler]
  generalize sHandleMember orc sp s.st s.tick x = t at e1 e2
  obtain ⟨r, st, tick, late⟩ := t
  simp only [] at e1 e2 ⊢
  subst e1
  by_cases hp : (handleMember p s.st.depth x).panicked = true
  · simp only [hp, if_true]; (refine ⟨?_, ?_, e2⟩ <;> first | rfl | trivial)
  · simp only [hp, Bool.false_eq_true, if_false]
    cases (handleMember p s.st.depth x).err with
    | some e => (refine ⟨?_, ?_, e2⟩ <;> first | rfl | trivial)
    | none => (refine ⟨?_, ?_, e2⟩ <;> first | rfl | trivial)

theorem sObjHandler_rel (orc : Oracle) (sp : SReaders) (p : Readers) (hl : SLevel sp p) (s : SObj) (fld x : Bytes) :
    (sObjHandler orc sp s fld x).1.hs = (objHandler p s.st.depth s.hs fld x).1 ∧
    (sObjHandler orc sp s fld x).2 = (objHandler p s.st.depth s.hs fld x).2 ∧
    (sObjHandler orc sp s fld x).1.st.depth = s.st.depth := by
  obtain ⟨e1, e2⟩ := sHandleMember_eq orc sp p hl s.st s.tick x
  simp only [sObjHandler, objHandler]
  generalize objKeyOf fld = key
  by_cases hkp : key.panicked = true
  · simp only [hkp, if_true]; (refine ⟨?_, ?_, ?_⟩ <;> first | rfl | trivial)
  · simp only [hkp, Bool.false_eq_true, if_false]
    cases key.err with
    | some e => (refine ⟨?_, ?_, ?_⟩ <;> first | rfl | trivial)
    | none =>
      simp only []
      generalize sHandleMember orc sp s.st s.tick x = t at e1 e2
      obtain ⟨r, st, tick, late⟩ := t
      simp only [] at e1 e2 ⊢
      subst e1
      by_cases hp : (handleMember p s.st.depth x).panicked = true
      · simp only [hp, if_true]; (refine ⟨?_, ?_, e2⟩ <;> first | rfl | trivial)
      · simp only [hp, Bool.false_eq_true, if_false]
        cases (handleMember p s.st.depth x).err with
        | some e => (refine ⟨?_, ?_, e2⟩ <;> first | rfl | trivial)
        | none => (refine ⟨?_, ?_, e2⟩ <;> first | rfl | trivial)

/-- runs of the two handlers from a state at depth `d` -/
theorem runL_obj_eq {σ} (orc : Oracle) (sp : SReaders) (p : Readers) (hl : SLevel sp p) (M : PDM σ) (data : Bytes) (s0 : SObj) :
    runL M data (objHandler p s0.st.depth) #[] s0.hs = mapRes (·.hs) (runL M data (sObjHandler orc sp) #[] s0) ∧
    (runL M data (sObjHandler orc sp) #[] s0).hs.st.depth = s0.st.depth := by
  -- restrict the stateful handler to states at depth `d`
  let d := s0.st.depth
  let hsub : Handler { s : SObj // s.st.depth = d } := fun s fld x =>
    (⟨(sObjHandler orc sp s.val fld x).1, by rw [(sObjHandler_rel orc sp p hl s.val fld x).2.2]; exact s.property⟩,
      (sObjHandler orc sp s.val fld x).2)
  have sim1 : HSim (fun s : { s : SObj // s.st.depth = d } => s.val) hsub (sObjHandler orc sp) := fun s fld x => ⟨rfl, rfl⟩
  have sim2 : HSim (fun s : { s : SObj // s.st.depth = d } => s.val.hs) hsub (objHandler p d) := by
    intro s fld x
    obtain ⟨a, b, _⟩ := sObjHandler_rel orc sp p hl s.val fld x
    have hd : s.val.st.depth = d := s.property
    rw [hd] at a b
    exact ⟨a, b⟩
  have r1 := runL_sim _ hsub (sObjHandler orc sp) sim1 M data #[] ⟨s0, rfl⟩
  have r2 := runL_sim _ hsub (objHandler p d) sim2 M data #[] ⟨s0, rfl⟩
  simp only [] at r1 r2
  constructor
  · rw [r2, r1]; rfl
  · rw [r1]
    exact (runL M data hsub #[] ⟨s0, rfl⟩).hs.property

theorem runL_arr_eq {σ} (orc : Oracle) (sp : SReaders) (p : Readers) (hl : SLevel sp p) (M : PDM σ) (data : Bytes) (s0 : SArr) :
    runL M data (arrHandler p s0.st.depth) #[] s0.hs = mapRes (·.hs) (runL M data (sArrHandler orc sp) #[] s0) ∧
    (runL M data (sArrHandler orc sp) #[] s0).hs.st.depth = s0.st.depth := by
  let d := s0.st.depth
  let hsub : Handler { s : SArr // s.st.depth = d } := fun s fld x =>
    (⟨(sArrHandler orc sp s.val fld x).1, by rw [(sArrHandler_rel orc sp p hl s.val fld x).2.2]; exact s.property⟩,
      (sArrHandler orc sp s.val fld x).2)
  have sim1 : HSim (fun s : { s : SArr // s.st.depth = d } => s.val) hsub (sArrHandler orc sp) := fun s fld x => ⟨rfl, rfl⟩
  have sim2 : HSim (fun s : { s : SArr // s.st.depth = d } => s.val.hs) hsub (arrHandler p d) := by
    intro s fld x
    obtain ⟨a, b, _⟩ := sArrHandler_rel orc sp p hl s.val fld x
    have hd : s.val.st.depth = d := s.property
    rw [hd] at a b
    exact ⟨a, b⟩
  have r1 := runL_sim _ hsub (sArrHandler orc sp) sim1 M data #[] ⟨s0, rfl⟩
  have r2 := runL_sim _ hsub (arrHandler p d) sim2 M data #[] ⟨s0, rfl⟩
  simp only [] at r1 r2
  constructor
  · rw [r2, r1]; rfl
  · rw [r1]
    exact (runL M data hsub #[] ⟨s0, rfl⟩).hs.property

theorem workDepth_ne (h : VRState) : workDepth h ≠ 0 := by
  unfold workDepth
  split
  · omega
  · next hh => simpa using hh

/-- `ReadObject` on a reader in any state: the stateless result; the depth is left as it was -/
theorem sObjReader_eq (orc : Oracle) (sp : SReaders) (p : Readers) (hl : SLevel sp p) (h0 : VRState) (tick : Nat) (data : Bytes) :
    (sObjReader orc sp h0 tick data).1 = objReader p (workDepth h0) data ∧ (sObjReader orc sp h0 tick data).2.1.depth = h0.depth := by
  simp only [sObjReader, objReader]
  generalize hs0 : (if (h0.depth == 0) = true then { h0 with depth := 1 } else h0) = hw
  have hwd : hw.depth = workDepth h0 := by
    rw [← hs0]; unfold workDepth
    split <;> rfl
  obtain ⟨r1, r2⟩ := runL_obj_eq orc sp p hl Gen.HandleObjectValues.machine data { hs := {}, st := hw, tick := tick }
  simp only [] at r1 r2
  rw [hwd] at r1 r2
  rw [r1]
  generalize runL Gen.HandleObjectValues.machine data (sObjHandler orc sp) #[] { hs := {}, st := hw, tick := tick } = res at r2 ⊢
  constructor
  · simp only [mapRes]
    cases res.kind <;> rfl
  · by_cases ht : (h0.depth == 0) = true
    · simp only [ht, if_true]
      have : h0.depth = 0 := by simpa using ht
      exact this.symm
    · simp only [ht, Bool.false_eq_true, if_false]
      rw [r2]; unfold workDepth; simp [ht]

theorem sArrReader_eq (orc : Oracle) (sp : SReaders) (p : Readers) (hl : SLevel sp p) (h0 : VRState) (tick : Nat) (data : Bytes) :
    (sArrReader orc sp h0 tick data).1 = arrReader p (workDepth h0) data ∧ (sArrReader orc sp h0 tick data).2.1.depth = h0.depth := by
  simp only [sArrReader, arrReader]
  generalize hs0 : (if (h0.depth == 0) = true then { h0 with depth := 1 } else h0) = hw
  have hwd : hw.depth = workDepth h0 := by
    rw [← hs0]; unfold workDepth
    split <;> rfl
  obtain ⟨r1, r2⟩ := runL_arr_eq orc sp p hl Gen.HandleArrayValues.machine data { hs := {}, st := hw, tick := tick }
  simp only [] at r1 r2
  rw [hwd] at r1 r2
  rw [r1]
  generalize runL Gen.HandleArrayValues.machine data (sArrHandler orc sp) #[] { hs := {}, st := hw, tick := tick } = res at r2 ⊢
  constructor
  · simp only [mapRes]
    cases res.kind <;> rfl
  · by_cases ht : (h0.depth == 0) = true
    · simp only [ht, if_true]
      have : h0.depth = 0 := by simpa using ht
      exact this.symm
    · simp only [ht, Bool.false_eq_true, if_false]
      rw [r2]; unfold workDepth; simp [ht]

/-- every level of stateful readers agrees with the stateless level -/
theorem sReaders_level (orc : Oracle) : ∀ (fuel : Nat), SLevel (sReaders orc fuel) (readers fuel) := by
  intro fuel
  induction fuel with
  | zero => intro h tick data; exact ⟨⟨rfl, rfl⟩, ⟨rfl, rfl⟩⟩
  | succ fuel ih =>
    intro h tick data
    exact ⟨sObjReader_eq orc _ _ ih h tick data, sArrReader_eq orc _ _ ih h tick data⟩

/-- **`ReadObject` / `ReadArray` / `ReadValue` on a reader at rest**: whatever the size hints and the pool hold, the
    result is the stateless one and the reader is at rest again afterwards -/
theorem sReadObject_eq (orc : Oracle) (h : VRState) (hd : h.depth = 0) (tick : Nat) (data : Bytes) :
    (sReadObject orc h tick data).1 = readObject data ∧ (sReadObject orc h tick data).2.1.depth = 0 := by
  obtain ⟨a, b⟩ := (sReaders_level orc (readerFuel data) h tick data).1
  have hw : workDepth h = 1 := by simp [workDepth, hd]
  rw [hw] at a
  exact ⟨a, by rw [← hd]; exact b⟩

theorem sReadArray_eq (orc : Oracle) (h : VRState) (hd : h.depth = 0) (tick : Nat) (data : Bytes) :
    (sReadArray orc h tick data).1 = readArray data ∧ (sReadArray orc h tick data).2.1.depth = 0 := by
  obtain ⟨a, b⟩ := (sReaders_level orc (readerFuel data) h tick data).2
  have hw : workDepth h = 1 := by simp [workDepth, hd]
  rw [hw] at a
  exact ⟨a, by rw [← hd]; exact b⟩

theorem sReadValue_eq (orc : Oracle) (h : VRState) (hd : h.depth = 0) (tick : Nat) (data : Bytes) :
    (sReadValue orc h tick data).1 = readValue data ∧ (sReadValue orc h tick data).2.1 = h := by
  simp only [sReadValue, readValue]
  generalize nextTokenType data = nt
  obtain ⟨tp, pp, terr⟩ := nt
  cases terr with
  | some e => (constructor <;> first | rfl | trivial)
  | none =>
    simp only []
    by_cases h6 : (tp == 6) = true
    · simp only [h6, if_true, borrow]
      have key := (sReaders_level orc (readerFuel data) { orc tick with newMapSize := 0, depth := h.depth + 1 } (tick + 1)
        (data.extract (pp - 1) data.size)).1.1
      have hw : workDepth { orc tick with newMapSize := 0, depth := h.depth + 1 } = 1 := by simp [workDepth, hd]
      rw [hw] at key
      constructor
      · rw [← key]
      · first | rfl | trivial
    · simp only [h6, Bool.false_eq_true, if_false]
      by_cases h8 : (tp == 8) = true
      · simp only [h8, if_true, borrow]
        have key := (sReaders_level orc (readerFuel data) { orc tick with newMapSize := 0, depth := h.depth + 1 } (tick + 1)
          (data.extract (pp - 1) data.size)).2.1
        have hw : workDepth { orc tick with newMapSize := 0, depth := h.depth + 1 } = 1 := by simp [workDepth, hd]
        rw [hw] at key
        constructor
        · rw [← key]
        · first | rfl | trivial
      · simp only [h8, Bool.false_eq_true, if_false]
        (constructor <;> first | rfl | trivial)

end RJson.ReaderState
