/-! Exhaustive checks over an initial segment of `Nat` / over all bytes (no dependencies). -/
namespace RJson

def allBelow (f : Nat → Bool) : Nat → Bool
  | 0 => true
  | n+1 => f n && allBelow f n

theorem allBelow_spec {f : Nat → Bool} : ∀ {n}, allBelow f n = true → ∀ i, i < n → f i = true
  | 0, _, i, hi => absurd hi (Nat.not_lt_zero i)
  | n+1, h, i, hi => by
    simp only [allBelow, Bool.and_eq_true] at h
    by_cases hin : i = n
    · subst hin; exact h.1
    · exact allBelow_spec h.2 i (by omega)

/-- a Boolean predicate on bytes that holds for the 256 values holds for every byte -/
theorem forall_byte {P : UInt8 → Bool} (h : allBelow (fun n => P (UInt8.ofNat n)) 256 = true) (b : UInt8) : P b = true := by
  have := allBelow_spec h b.toNat b.toNat_lt
  simpa using this

end RJson
