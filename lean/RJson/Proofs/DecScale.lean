import RJson.Proofs.DecFinish
/-!
# The scaling part of `floatBits`: by powers of two into `[1/2, 1)`, then to a 53-bit integer part

Everything here is conditional on the result (the scaling returned something and the final `trunc` flag is off): then no
digit was ever dropped and every step was an exact multiplication or division by a power of two.
-/
namespace RJson.Dec
open RJson.FP RJson.Spec RJson.RoundRat

theorem powtabAt_bounds (i : Nat) : 1 ≤ powtabAt i ∧ powtabAt i ≤ 27 := by
  simp only [powtabAt]
  by_cases h : i ≥ Gen.powtab.size
  · rw [if_pos h]; omega
  · rw [if_neg h]
    have hsz : Gen.powtab.size = 9 := rfl
    have hi : i < 9 := by omega
    have hall : ∀ j : Fin 9, 1 ≤ Gen.powtab[j.val]! ∧ Gen.powtab[j.val]! ≤ 27 := by decide
    exact hall ⟨i, hi⟩

/-- shifting left by `powtab[i]` bits multiplies by less than `10^i` -/
theorem pow_powtab (i : Nat) (hi : 1 ≤ i) : 2 ^ powtabAt i < 10 ^ i := by
  simp only [powtabAt]
  by_cases h : i ≥ Gen.powtab.size
  · rw [if_pos h]
    have hsz : Gen.powtab.size = 9 := rfl
    have h9 : (2 : ℕ) ^ 27 < 10 ^ 9 := by norm_num
    have : 10 ^ 9 ≤ 10 ^ i := Nat.pow_le_pow_right (by norm_num) (by omega)
    omega
  · rw [if_neg h]
    have hsz : Gen.powtab.size = 9 := rfl
    have hi9 : i < 9 := by omega
    have hall : ∀ j : Fin 9, 1 ≤ j.val → 2 ^ Gen.powtab[j.val]! < 10 ^ j.val := by decide
    exact hall ⟨i, hi9⟩ hi

theorem powtabAt_zero : powtabAt 0 = 1 := by decide

theorem aval_lt_pow (a : Decimal) (h : WF a) : aval a < 10 ^ a.dp := by
  have h1 := val_lt a.d a.nd h.digits
  have h1q : (val a.d a.nd : ℚ) < 10 ^ a.nd := by exact_mod_cast h1
  simp only [aval]
  have hp : (0 : ℚ) < 10 ^ (a.dp - (a.nd : ℤ)) := by positivity
  calc (val a.d a.nd : ℚ) * 10 ^ (a.dp - (a.nd : ℤ)) < 10 ^ a.nd * 10 ^ (a.dp - (a.nd : ℤ)) := mul_lt_mul_of_pos_right h1q hp
    _ = 10 ^ a.dp := by
        rw [← zpow_natCast, ← zpow_add₀ (by norm_num)]; congr 1; ring

theorem aval_nonneg (a : Decimal) : 0 ≤ aval a := by simp only [aval]; positivity

/-- the first digit decides on which side of one half a number with `dp = 0` lies -/
theorem val_lead_le4 (d : Array UInt8) (h : dig d 0 ≤ 4) : ∀ n, 1 ≤ n → DigitsOK d n → val d n < 5 * 10 ^ (n - 1) := by
  intro n
  induction n with
  | zero => intro h1; omega
  | succ n ih =>
    intro _ hok
    by_cases hn : n = 0
    · subst hn; simp [val]; omega
    · have := ih (by omega) (fun i hi => hok i (by omega))
      have h9 := dig_le9 hok (Nat.lt_succ_self n)
      simp only [val, Nat.add_sub_cancel]
      have hp : 10 ^ n = 10 ^ (n - 1) * 10 := by
        rw [← Nat.pow_succ]; congr 1; omega
      rw [hp]; omega

theorem val_lead_ge5 (d : Array UInt8) (h : 5 ≤ dig d 0) : ∀ n, 1 ≤ n → 5 * 10 ^ (n - 1) ≤ val d n := by
  intro n
  induction n with
  | zero => intro h1; omega
  | succ n ih =>
    intro _
    by_cases hn : n = 0
    · subst hn; simp [val]; omega
    · have := ih (by omega)
      simp only [val, Nat.add_sub_cancel]
      have hp : 10 ^ n = 10 ^ (n - 1) * 10 := by
        rw [← Nat.pow_succ]; congr 1; omega
      rw [hp]; omega

theorem aval_dp0 (a : Decimal) (hnd : 1 ≤ a.nd) (hdp : a.dp = 0) :
    aval a = (val a.d a.nd : ℚ) / 10 ^ a.nd := by
  simp only [aval, hdp, zero_sub, zpow_neg, zpow_natCast]
  rfl

theorem aval_lt_half (a : Decimal) (h : WF a) (hnd : 1 ≤ a.nd) (hdp : a.dp = 0) (hd : a.d[0]! < 53) : aval a < 1 / 2 := by
  have hb := h.digits 0 (by omega)
  have h4 : dig a.d 0 ≤ 4 := by
    have : a.d[0]!.toNat < 53 := UInt8.lt_iff_toNat_lt.mp hd
    unfold dig; omega
  have hv := val_lead_le4 a.d h4 a.nd hnd h.digits
  rw [aval_dp0 a hnd hdp]
  have h10 : (0 : ℚ) < 10 ^ a.nd := by positivity
  rw [div_lt_iff₀ h10]
  have hvq : (val a.d a.nd : ℚ) < 5 * 10 ^ (a.nd - 1) := by exact_mod_cast hv
  have hp : (10 : ℚ) ^ a.nd = 10 ^ (a.nd - 1) * 10 := by
    rw [← pow_succ]; congr 1; omega
  rw [hp]; linarith

theorem aval_ge_half (a : Decimal) (h : WF a) (hnd : 1 ≤ a.nd) (hdp : a.dp = 0) (hd : ¬ a.d[0]! < 53) : 1 / 2 ≤ aval a := by
  have hb := h.digits 0 (by omega)
  have h5 : 5 ≤ dig a.d 0 := by
    have : ¬ a.d[0]!.toNat < 53 := fun hh => hd (UInt8.lt_iff_toNat_lt.mpr hh)
    unfold dig; omega
  have hv := val_lead_ge5 a.d h5 a.nd hnd
  rw [aval_dp0 a hnd hdp]
  have h10 : (0 : ℚ) < 10 ^ a.nd := by positivity
  rw [le_div_iff₀ h10]
  have hvq : (5 * 10 ^ (a.nd - 1) : ℚ) ≤ (val a.d a.nd : ℚ) := by exact_mod_cast hv
  have hp : (10 : ℚ) ^ a.nd = 10 ^ (a.nd - 1) * 10 := by
    rw [← pow_succ]; congr 1; omega
  rw [hp]; linarith

/-- `for a.dp > 0 { a.Shift(-n); exp += n }` -/
theorem scaleDown_spec : ∀ (fuel : Nat) (a : Decimal) (exp : ℤ) (a' : Decimal) (exp' : ℤ), Good0 a → 1 ≤ a.nd →
    scaleDown fuel a exp = some (a', exp') →
    Good0 a' ∧ 1 ≤ a'.nd ∧ a'.neg = a.neg ∧ a'.dp ≤ 0 ∧
      (a'.trunc = false → a.trunc = false ∧ aval a = aval a' * 2 ^ (exp' - exp)) := by
  intro fuel
  induction fuel with
  | zero => intro a exp a' exp' _ _ h; simp [scaleDown] at h
  | succ fuel ih =>
    intro a exp a' exp' hg hnd h
    simp only [scaleDown] at h
    by_cases hdp : a.dp > 0
    · rw [if_pos hdp] at h
      obtain ⟨n1, n2⟩ := powtabAt_bounds a.dp.toNat
      obtain ⟨b, hb, hgb, _, hbnd, _, hbneg, hbval⟩ := shift_spec a hg (-(powtabAt a.dp.toNat : ℤ)) (by omega) (by omega)
      rw [hb] at h
      simp only [] at h
      obtain ⟨c1, c2, c3, c4, c5⟩ := ih b _ a' exp' hgb (hbnd hnd) h
      refine ⟨c1, c2, by rw [c3, hbneg], c4, fun htr => ?_⟩
      obtain ⟨t1, v1⟩ := c5 htr
      obtain ⟨t2, v2⟩ := hbval t1
      refine ⟨t2, ?_⟩
      -- aval b = aval a · 2^(-n), aval b = aval a' · 2^(exp' - (exp + n))
      have hp : (0 : ℚ) < 2 ^ (-(powtabAt a.dp.toNat : ℤ)) := by positivity
      have : aval a = aval b * 2 ^ ((powtabAt a.dp.toNat : ℤ)) := by
        rw [v2, mul_assoc, ← zpow_add₀ (by norm_num)]; simp
      rw [this, v1, mul_assoc, ← zpow_add₀ (by norm_num)]
      congr 2; ring
    · rw [if_neg hdp] at h
      injection h with h; injection h with h1 h2
      subst h1 h2
      exact ⟨hg, hnd, rfl, by omega, fun htr => ⟨htr, by simp⟩⟩

/-- `for a.dp < 0 || a.dp == 0 && a.d[0] < '5' { a.Shift(n); exp -= n }` -/
theorem scaleUp_spec : ∀ (fuel : Nat) (a : Decimal) (exp : ℤ) (a' : Decimal) (exp' : ℤ), Good0 a → 1 ≤ a.nd →
    scaleUp fuel a exp = some (a', exp') →
    Good0 a' ∧ 1 ≤ a'.nd ∧ a'.neg = a.neg ∧ 0 ≤ a'.dp ∧ (a'.dp = 0 → ¬ a'.d[0]! < 53) ∧
      (a'.trunc = false → a.trunc = false ∧ aval a = aval a' * 2 ^ (exp' - exp) ∧ (aval a < 1 → aval a' < 1)) := by
  intro fuel
  induction fuel with
  | zero => intro a exp a' exp' _ _ h; simp [scaleUp] at h
  | succ fuel ih =>
    intro a exp a' exp' hg hnd h
    simp only [scaleUp] at h
    by_cases hc : (decide (a.dp < 0) || (a.dp == 0 && decide (a.d[0]! < 53))) = true
    · rw [if_pos hc] at h
      obtain ⟨n1, n2⟩ := powtabAt_bounds (-a.dp).toNat
      obtain ⟨b, hb, hgb, _, hbnd, _, hbneg, hbval⟩ := shift_spec a hg ((powtabAt (-a.dp).toNat : ℕ) : ℤ) (by omega) (by omega)
      rw [hb] at h
      simp only [] at h
      obtain ⟨c1, c2, c3, c4, c5, c6⟩ := ih b _ a' exp' hgb (hbnd hnd) h
      refine ⟨c1, c2, by rw [c3, hbneg], c4, c5, fun htr => ?_⟩
      obtain ⟨t1, v1, w1⟩ := c6 htr
      obtain ⟨t2, v2⟩ := hbval t1
      refine ⟨t2, ?_, ?_⟩
      · have : aval a = aval b * 2 ^ (-((powtabAt (-a.dp).toNat : ℕ) : ℤ)) := by
          rw [v2, mul_assoc, ← zpow_add₀ (by norm_num)]; simp
        rw [this, v1, mul_assoc, ← zpow_add₀ (by norm_num)]
        congr 2; ring
      · intro _
        apply w1
        -- one step keeps the value below 1
        rw [v2, zpow_natCast]
        have hlt := aval_lt_pow a hg.wf
        have h0 := aval_nonneg a
        simp only [Bool.or_eq_true, decide_eq_true_eq, Bool.and_eq_true, beq_iff_eq] at hc
        rcases hc with hneg | ⟨hz, hd⟩
        · obtain ⟨i, hi, hi1⟩ : ∃ i : ℕ, (-a.dp).toNat = i ∧ 1 ≤ i := ⟨(-a.dp).toNat, rfl, by omega⟩
          rw [hi]
          have hpw := pow_powtab i hi1
          have hpwq : ((2 : ℚ) ^ powtabAt i) < 10 ^ i := by exact_mod_cast hpw
          have hdpi : a.dp = -(i : ℤ) := by omega
          rw [hdpi, zpow_neg, zpow_natCast] at hlt
          have h10 : (0 : ℚ) < 10 ^ i := by positivity
          calc aval a * 2 ^ powtabAt i < (10 ^ i)⁻¹ * 10 ^ i := by
                apply mul_lt_mul'' hlt hpwq h0 (by positivity)
            _ = 1 := inv_mul_cancel₀ h10.ne'
        · have hi : (-a.dp).toNat = 0 := by omega
          rw [hi, powtabAt_zero]
          have := aval_lt_half a hg.wf hnd hz hd
          linarith
    · rw [if_neg hc] at h
      injection h with h; injection h with h1 h2
      subst h1 h2
      simp only [Bool.or_eq_true, decide_eq_true_eq, Bool.and_eq_true, beq_iff_eq, not_or, not_and] at hc
      exact ⟨hg, hnd, rfl, by omega, hc.2, fun htr => ⟨htr, by simp, fun hh => hh⟩⟩

/-- what the scaling hands on: the decimal `a3` in `[1/2·2^-n', 2^-n')`, the exponent `exp3`, with `aval a = aval a3 · 2^(exp3 + 1)` -/
structure Scaled (a a3 : Decimal) (exp3 : ℤ) : Prop where
  good : Good0 a3
  nd : 1 ≤ a3.nd
  neg : a3.neg = a.neg
  lo : -1022 ≤ exp3
  exact : a3.trunc = false → a.trunc = false ∧ aval a = aval a3 * 2 ^ (exp3 + 1) ∧ aval a3 < 1 ∧ (-1022 < exp3 → 1 / 2 ≤ aval a3)

set_option exponentiation.threshold 2000 in
theorem small_pow : (2 : ℚ) ^ (-1100 : ℤ) < 10 ^ (-331 : ℤ) := by
  rw [zpow_neg, zpow_neg]
  apply inv_strictAnti₀ (by positivity)
  norm_num

set_option maxRecDepth 10000 in
/-- the scaling loops and the denormal adjustment -/
theorem scaled_spec (a : Decimal) (hg : Good0 a) (hnd : 1 ≤ a.nd) (hdp : -330 ≤ a.dp)
    (a1 : Decimal) (e1 : ℤ) (h1 : scaleDown 2000 a 0 = some (a1, e1))
    (a2 : Decimal) (e2 : ℤ) (h2 : scaleUp 2000 a1 e1 = some (a2, e2))
    (a3 : Decimal) (exp3 : ℤ)
    (h3 : (if e2 - 1 < -1023 + 1 then
        (match a2.shift (-(-1023 + 1 - (e2 - 1))) with
          | none => none
          | some a => some (a, e2 - 1 + (-1023 + 1 - (e2 - 1))))
      else some (a2, e2 - 1)) = some (a3, exp3)) :
    Scaled a a3 exp3 := by
  obtain ⟨g1, n1, ng1, dp1, x1⟩ := scaleDown_spec 2000 a 0 a1 e1 hg hnd h1
  obtain ⟨g2, n2, ng2, dp2, d2, x2⟩ := scaleUp_spec 2000 a1 e1 a2 e2 g1 n1 h2
  -- what exactness of `a2` gives
  have core : a2.trunc = false → a.trunc = false ∧ aval a = aval a2 * 2 ^ e2 ∧ aval a2 < 1 ∧ 1 / 2 ≤ aval a2 := by
    intro htr
    obtain ⟨t1, v1, w1⟩ := x2 htr
    obtain ⟨t0, v0⟩ := x1 t1
    have hlt1 : aval a1 < 1 := by
      have := aval_lt_pow a1 g1.wf
      have hle : (10 : ℚ) ^ a1.dp ≤ 10 ^ (0 : ℤ) := zpow_le_zpow_right₀ (by norm_num) dp1
      rw [zpow_zero] at hle; linarith
    have hlt2 := w1 hlt1
    have hdp0 : a2.dp = 0 := by
      by_contra hne
      have hpos : 1 ≤ a2.dp := by omega
      have hge := aval_ge_of_nz a2 g2.nz n2
      have hle : (10 : ℚ) ^ (0 : ℤ) ≤ 10 ^ (a2.dp - 1) := zpow_le_zpow_right₀ (by norm_num) (by omega)
      rw [zpow_zero] at hle; linarith
    refine ⟨t0, ?_, hlt2, aval_ge_half a2 g2.wf n2 hdp0 (d2 hdp0)⟩
    rw [v0, v1, mul_assoc, ← zpow_add₀ (by norm_num)]
    congr 2; ring
  by_cases hsub : e2 - 1 < -1023 + 1
  · rw [if_pos hsub] at h3
    -- the denormal adjustment: shift right by n = -1022 - (e2 - 1)
    by_cases hbig : -(-1023 + 1 - (e2 - 1)) < -3840
    · -- a shift this large cannot happen for an exact value of at least 10^-331; the structure survives anyway
      have hms : Gen.fpMaxShift = 60 := rfl
      have hnz2 : ¬ ((a2.nd == 0) = true) := by
        have : a2.nd ≠ 0 := by omega
        simpa using this
      have hsh : a2.shift (-(-1023 + 1 - (e2 - 1))) = some (Decimal.shift.goR 60 64 a2 (-(-(-1023 + 1 - (e2 - 1)))).toNat) := by
        simp only [Decimal.shift, hms]
        rw [if_neg hnz2, if_neg (by omega), if_pos (by omega)]
      rw [hsh] at h3
      injection h3 with h3; injection h3 with h3a h3b
      obtain ⟨gg, gn, gneg, gtr⟩ := goR_any 64 a2 (-(-(-1023 + 1 - (e2 - 1)))).toNat g2 n2 (by omega)
      rw [h3a] at gg gn gneg gtr
      refine ⟨gg, gn, by rw [gneg, ng2, ng1], by omega, fun htr => ?_⟩
      exfalso
      obtain ⟨t0, v0, lt2, _⟩ := core (gtr htr)
      -- 10^-331 ≤ aval a < 2^e2
      have hge := aval_ge_of_nz a hg.nz hnd
      have hle : (10 : ℚ) ^ (-331 : ℤ) ≤ 10 ^ (a.dp - 1) := zpow_le_zpow_right₀ (by norm_num) (by omega)
      have hp2 := two_zpow_pos' e2
      have hlt : aval a < 2 ^ e2 := by
        rw [v0]
        calc aval a2 * 2 ^ e2 < 1 * 2 ^ e2 := mul_lt_mul_of_pos_right lt2 hp2
          _ = 2 ^ e2 := one_mul _
      have : (2 : ℚ) ^ (-1100 : ℤ) < 2 ^ e2 := lt_trans small_pow (lt_of_le_of_lt (le_trans hle hge) hlt)
      have := zpow_two_lt this
      omega
    · obtain ⟨b, hb, hgb, _, hbnd, _, hbneg, hbval⟩ := shift_spec a2 g2 (-(-1023 + 1 - (e2 - 1))) (by omega) (by omega)
      rw [hb] at h3
      injection h3 with h3; injection h3 with h3a h3b
      subst h3a
      have hexp : exp3 = -1022 := by omega
      refine ⟨hgb, hbnd n2, by rw [hbneg, ng2, ng1], by omega, fun htr => ?_⟩
      obtain ⟨t2, v2⟩ := hbval htr
      obtain ⟨t0, v0, lt2, _⟩ := core t2
      refine ⟨t0, ?_, ?_, fun hh => by omega⟩
      · rw [v0, v2, mul_assoc, ← zpow_add₀ (by norm_num)]
        congr 2; omega
      · rw [v2]
        have hp : (2 : ℚ) ^ (-(-1023 + 1 - (e2 - 1))) ≤ 1 := by
          have : (2 : ℚ) ^ (-(-1023 + 1 - (e2 - 1))) ≤ 2 ^ (0 : ℤ) := zpow_le_zpow_right₀ (by norm_num) (by omega)
          simpa using this
        have h0 := aval_nonneg a2
        calc aval a2 * 2 ^ (-(-1023 + 1 - (e2 - 1))) ≤ aval a2 * 1 := mul_le_mul_of_nonneg_left hp h0
          _ < 1 := by linarith
  · rw [if_neg hsub] at h3
    injection h3 with h3; injection h3 with h3a h3b
    subst h3a h3b
    refine ⟨g2, n2, by rw [ng2, ng1], by omega, fun htr => ?_⟩
    obtain ⟨t0, v0, lt2, ge2⟩ := core htr
    refine ⟨t0, ?_, lt2, fun _ => ge2⟩
    rw [v0]; congr 2; ring

/-- the three ways `prepare` ends after the obvious cases, made explicit -/
theorem prepare_cases (a : Decimal) (hnd : ¬ ((a.nd == 0) = true)) (hhi : ¬ a.dp > 310) (hlo : ¬ a.dp < -330) (res : Prep)
    (h : a.prepare = some res) :
    ∃ a1 e1 a2 e2 a3 exp3, scaleDown 2000 a 0 = some (a1, e1) ∧ scaleUp 2000 a1 e1 = some (a2, e2) ∧
      (if e2 - 1 < -1023 + 1 then
        (match a2.shift (-(-1023 + 1 - (e2 - 1))) with
          | none => none
          | some a => some (a, e2 - 1 + (-1023 + 1 - (e2 - 1))))
      else some (a2, e2 - 1)) = some (a3, exp3) ∧
      ((exp3 - -1023 ≥ ((2 ^ 11 : ℕ) : ℤ) - 1 ∧ res = .expOverflow a3) ∨
        (¬ exp3 - -1023 ≥ ((2 ^ 11 : ℕ) : ℤ) - 1 ∧ ∃ a4, a3.shift ((1 + 52 : ℕ) : ℤ) = some a4 ∧ res = .ready a4 exp3)) := by
  have hm : Gen.fpMantBits = 52 := rfl
  have he : Gen.fpExpBits = 11 := rfl
  have hbi : Gen.fpBias = -1023 := rfl
  simp only [Decimal.prepare, hm, he, hbi] at h
  rw [if_neg hnd, if_neg hhi, if_neg hlo] at h
  cases h1 : scaleDown 2000 a 0 with
  | none => rw [h1] at h; cases h
  | some p1 =>
    obtain ⟨a1, e1⟩ := p1
    rw [h1] at h
    simp only [] at h
    cases h2 : scaleUp 2000 a1 e1 with
    | none => rw [h2] at h; cases h
    | some p2 =>
      obtain ⟨a2, e2⟩ := p2
      rw [h2] at h
      simp only [] at h
      generalize hr : (if e2 - 1 < -1023 + 1 then
        (match a2.shift (-(-1023 + 1 - (e2 - 1))) with
          | none => none
          | some a => some (a, e2 - 1 + (-1023 + 1 - (e2 - 1))))
        else some (a2, e2 - 1)) = r at h
      cases r with
      | none => simp only [] at h; cases h
      | some p3 =>
        obtain ⟨a3, exp3⟩ := p3
        simp only [] at h
        refine ⟨a1, e1, a2, e2, a3, exp3, rfl, h2, hr, ?_⟩
        by_cases hov : exp3 - -1023 ≥ ((2 ^ 11 : ℕ) : ℤ) - 1
        · rw [if_pos hov] at h
          injection h with h
          exact .inl ⟨hov, h.symm⟩
        · rw [if_neg hov] at h
          cases h4 : a3.shift ((1 + 52 : ℕ) : ℤ) with
          | none => rw [h4] at h; cases h
          | some a4 =>
            rw [h4] at h
            injection h with h
            exact .inr ⟨hov, a4, rfl, h.symm⟩

end RJson.Dec
