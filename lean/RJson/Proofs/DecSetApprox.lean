import RJson.Proofs.DecSetAny
/-!
# `decimal.set` on a literal of any length: what was cut off

`set_spec_any` gives the value when no non-zero digit was dropped. Here the general statement: the decimal holds the
literal's value cut off after 800 significant digits — `value = aval a + δ` with `0 ≤ δ < 10^(a.dp - 800)` — and the
`trunc` flag says exactly whether `δ ≠ 0`. This is what `floatBits_all` starts from.
-/
namespace RJson.Dec
open RJson.FP RJson.Spec RJson.NumShape RJson.FloatValue RJson.FloatSyntax RJson.Ragel RJson.Abs RJson.HelpersSpec
open RJson.ParseFast

theorem digit_range (b : UInt8) (hb : isDigit b = true) : 48 ≤ b.toNat ∧ b.toNat ≤ 57 := by
  have : (decide (48 ≤ b) && decide (b ≤ 57)) = true := hb
  simp only [Bool.and_eq_true, decide_eq_true_eq, UInt8.le_iff_toNat_le] at this
  exact this

theorem beq48 (b : UInt8) : (b == 48) = true ↔ b.toNat = 48 := by
  rw [beq_iff_eq]
  constructor
  · intro h; subst h; rfl
  · intro h; exact UInt8.toNat_inj.mp (by simpa using h)

/-! ## the integer digits -/

/-- one integer digit: the digits kept, `dropped` places further left, plus the dropped tail `R`, are the number read -/
theorem pushAny_int_step (st : Decimal × Nat) (b : UInt8) (R : ℕ) (hb : isDigit b = true) (hw : WF st.1)
    (hdr : 0 < st.2 → st.1.nd = 800) (hR : R < 10 ^ st.2) (htr : st.1.trunc = decide (R ≠ 0)) :
    ∃ R' : ℕ, R' < 10 ^ (pushAny false st b).2 ∧ (pushAny false st b).1.trunc = decide (R' ≠ 0) ∧
      (0 < (pushAny false st b).2 → (pushAny false st b).1.nd = 800) ∧
      val (pushAny false st b).1.d (pushAny false st b).1.nd * 10 ^ (pushAny false st b).2 + R' =
        (val st.1.d st.1.nd * 10 ^ st.2 + R) * 10 + (b.toNat - 48) := by
  obtain ⟨hb1, hb2⟩ := digit_range b hb
  by_cases hz : (b == 48 && st.1.nd == 0) = true
  · have hstep : pushAny false st b = ({ st.1 with dp := st.1.dp - 1 }, st.2) := by simp only [pushAny]; rw [if_pos hz]
    simp only [Bool.and_eq_true, beq_iff_eq] at hz
    obtain ⟨hb48, hnd0⟩ := hz
    have hd0 : st.2 = 0 := by
      by_contra hcon
      have := hdr (by omega); omega
    rw [hd0] at hR
    have hR0 : R = 0 := by simpa using hR
    rw [hstep]
    refine ⟨0, by positivity, ?_, fun hh => by simp only [] at hh; omega, ?_⟩
    · show st.1.trunc = _
      rw [htr, hR0]
    · have h48 : ((48 : UInt8).toNat - 48) = 0 := rfl
      simp only [hnd0, val, hb48, hR0, h48]
      omega
  · by_cases hfit : st.1.nd < st.1.d.size
    · have hstep : pushAny false st b = ({ st.1 with d := st.1.d.set! st.1.nd b, nd := st.1.nd + 1 }, st.2) := by
        simp only [pushAny]; rw [if_neg hz, if_pos hfit]
      have hd0 : st.2 = 0 := by
        by_contra hcon
        have := hdr (by omega)
        rw [hw.size] at hfit; omega
      rw [hd0] at hR
      have hR0 : R = 0 := by simpa using hR
      rw [hstep]
      refine ⟨0, by positivity, ?_, fun hh => by simp only [] at hh; omega, ?_⟩
      · show st.1.trunc = _
        rw [htr, hR0]
      · simp only [hd0, hR0, val, Nat.pow_zero, Nat.mul_one, Nat.add_zero]
        rw [val_set_ge st.1.d st.1.nd b hfit st.1.nd (Nat.le_refl _)]
        have hdg : dig (st.1.d.set! st.1.nd b) st.1.nd = b.toNat - 48 := by
          unfold dig; rw [getElem!_set! st.1.d st.1.nd st.1.nd b hfit, if_pos rfl]
        rw [hdg]
    · have hnd8 : st.1.nd = 800 := by
        have := hw.nd; rw [hw.size] at hfit; omega
      have hstep : pushAny false st b = (if b != 48 then { st.1 with trunc := true } else st.1, st.2 + 1) := by
        simp only [pushAny]; rw [if_neg hz, if_neg hfit]; simp
      rw [hstep]
      refine ⟨R * 10 + (b.toNat - 48), ?_, ?_, ?_, ?_⟩
      · simp only [Nat.pow_succ]; omega
      · by_cases h48 : (b == 48) = true
        · have hv : b.toNat = 48 := (beq48 b).mp h48
          have hne : (b != 48) = false := by simp [bne, h48]
          simp only [hne, Bool.false_eq_true, if_false]
          rw [htr, hv]
          by_cases hR0 : R = 0
          · simp [hR0]
          · have : R * 10 + (48 - 48) ≠ 0 := by omega
            simp [hR0, this]
        · have hv : b.toNat ≠ 48 := fun hh => h48 ((beq48 b).mpr hh)
          have hne : (b != 48) = true := by simp [bne, h48]
          simp only [hne, if_true]
          have : R * 10 + (b.toNat - 48) ≠ 0 := by omega
          exact (decide_eq_true this).symm
      · intro _
        by_cases h48 : (b != 48) = true
        · simp only [h48, if_true]; exact hnd8
        · simp only [h48, Bool.false_eq_true, if_false]; exact hnd8
      · have hd : (if (b != 48) = true then { st.1 with trunc := true } else st.1).d = st.1.d := by
          by_cases h48 : (b != 48) = true <;> simp [h48]
        have hn : (if (b != 48) = true then { st.1 with trunc := true } else st.1).nd = st.1.nd := by
          by_cases h48 : (b != 48) = true <;> simp [h48]
        simp only [hd, hn, Nat.pow_succ]
        ring

/-- the integer digits, any run -/
theorem pushIntA : ∀ (ds : List UInt8) (st : Decimal × Nat) (R : ℕ), allDigits ds → WF st.1 → (0 < st.2 → st.1.nd = 800) →
    R < 10 ^ st.2 → st.1.trunc = decide (R ≠ 0) →
    ∃ R' : ℕ, R' < 10 ^ (pushAnyL false ds st).2 ∧ (pushAnyL false ds st).1.trunc = decide (R' ≠ 0) ∧
      (0 < (pushAnyL false ds st).2 → (pushAnyL false ds st).1.nd = 800) ∧
      val (pushAnyL false ds st).1.d (pushAnyL false ds st).1.nd * 10 ^ (pushAnyL false ds st).2 + R' =
        (val st.1.d st.1.nd * 10 ^ st.2 + R) * 10 ^ ds.length + digitsVal ds 0 := by
  intro ds
  induction ds with
  | nil => intro st R _ _ hdr hR htr; exact ⟨R, hR, htr, hdr, by simp [pushAnyL, digitsVal]⟩
  | cons b ds ih =>
    intro st R hds hw hdr hR htr
    have hb : isDigit b = true := hds b (by simp)
    have hds' : allDigits ds := fun x hx => hds x (by simp [hx])
    obtain ⟨R1, a1, a2, a3, a4⟩ := pushAny_int_step st b R hb hw hdr hR htr
    obtain ⟨R2, b1, b2, b3, b4⟩ := ih (pushAny false st b) R1 hds' (pushAny_wf false st b hb hw) a3 a1 a2
    refine ⟨R2, b1, b2, b3, ?_⟩
    simp only [pushAnyL]
    rw [b4, a4]
    simp only [List.length_cons, digitsVal]
    rw [digitsVal_acc ds (0 * 10 + (b.toNat - 48)), Nat.pow_succ]
    ring

/-! ## the fraction digits -/

/-- the state of the fraction loop after `j` fraction digits: `ρ` is what was dropped so far -/
structure FI (a : Decimal) (j : ℕ) (ρ : ℚ) : Prop where
  nonneg : 0 ≤ ρ
  flag : a.trunc = decide (ρ ≠ 0)
  small : a.nd < 800 → ρ = 0 ∧ a.dp - (a.nd : ℤ) = -(j : ℤ)
  full : a.nd = 800 → ρ + 10 ^ (-(j : ℤ)) ≤ 10 ^ (a.dp - 800)

theorem pushAny_frac_step (st : Decimal × Nat) (b : UInt8) (j : ℕ) (ρ : ℚ) (hb : isDigit b = true) (hw : WF st.1) (hI : FI st.1 j ρ) :
    ∃ ρ' : ℚ, FI (pushAny true st b).1 (j + 1) ρ' ∧
      aval (pushAny true st b).1 + ρ' = aval st.1 + ρ + ((b.toNat - 48 : ℕ) : ℚ) * 10 ^ (-((j : ℤ) + 1)) := by
  obtain ⟨hb1, hb2⟩ := digit_range b hb
  by_cases hz : (b == 48 && st.1.nd == 0) = true
  · have hstep : pushAny true st b = ({ st.1 with dp := st.1.dp - 1 }, st.2) := by simp only [pushAny]; rw [if_pos hz]
    simp only [Bool.and_eq_true, beq_iff_eq] at hz
    obtain ⟨hb48, hnd0⟩ := hz
    obtain ⟨hρ, hdp⟩ := hI.small (by omega)
    rw [hstep]
    refine ⟨0, ⟨le_refl _, ?_, fun _ => ⟨rfl, ?_⟩, fun hh => ?_⟩, ?_⟩
    · show st.1.trunc = _
      rw [hI.flag, hρ]
    · show st.1.dp - 1 - (st.1.nd : ℤ) = -((j + 1 : ℕ) : ℤ)
      push_cast; omega
    · exfalso
      have : st.1.nd = 800 := hh
      omega
    · simp only [aval, hnd0, val, hb48, hρ]
      simp
  · by_cases hfit : st.1.nd < st.1.d.size
    · have hstep : pushAny true st b = ({ st.1 with d := st.1.d.set! st.1.nd b, nd := st.1.nd + 1 }, st.2) := by
        simp only [pushAny]; rw [if_neg hz, if_pos hfit]
      have hlt : st.1.nd < 800 := by rw [hw.size] at hfit; exact hfit
      obtain ⟨hρ, hdp⟩ := hI.small hlt
      rw [hstep]
      have hexp : st.1.dp - ((st.1.nd + 1 : ℕ) : ℤ) = -((j : ℤ) + 1) := by push_cast; omega
      refine ⟨0, ⟨le_refl _, ?_, fun _ => ⟨rfl, ?_⟩, fun hh => ?_⟩, ?_⟩
      · show st.1.trunc = _
        rw [hI.flag, hρ]
      · show st.1.dp - ((st.1.nd + 1 : ℕ) : ℤ) = -((j + 1 : ℕ) : ℤ)
        rw [hexp]; push_cast; ring
      · show (0 : ℚ) + 10 ^ (-((j + 1 : ℕ) : ℤ)) ≤ 10 ^ (st.1.dp - 800)
        have h8 : st.1.nd + 1 = 800 := hh
        have : st.1.dp - 800 = -((j + 1 : ℕ) : ℤ) := by push_cast; omega
        rw [this, zero_add]
      · simp only [aval, val]
        rw [val_set_ge st.1.d st.1.nd b hfit st.1.nd (Nat.le_refl _)]
        have hdg : dig (st.1.d.set! st.1.nd b) st.1.nd = b.toNat - 48 := by
          unfold dig; rw [getElem!_set! st.1.d st.1.nd st.1.nd b hfit, if_pos rfl]
        rw [hdg, hexp, hρ]
        have h2 : st.1.dp - (st.1.nd : ℤ) = -((j : ℤ) + 1) + 1 := by omega
        rw [h2, zpow_add₀ (by norm_num : (10 : ℚ) ≠ 0), zpow_one]
        push_cast
        ring
    · have hnd8 : st.1.nd = 800 := by
        have := hw.nd; rw [hw.size] at hfit; omega
      have hstep : pushAny true st b = (if b != 48 then { st.1 with trunc := true } else st.1, st.2) := by
        simp only [pushAny]; rw [if_neg hz, if_neg hfit]; simp
      have hfull := hI.full hnd8
      rw [hstep]
      have hd : (if (b != 48) = true then { st.1 with trunc := true } else st.1).d = st.1.d := by
        by_cases h48 : (b != 48) = true <;> simp [h48]
      have hn : (if (b != 48) = true then { st.1 with trunc := true } else st.1).nd = st.1.nd := by
        by_cases h48 : (b != 48) = true <;> simp [h48]
      have hp : (if (b != 48) = true then { st.1 with trunc := true } else st.1).dp = st.1.dp := by
        by_cases h48 : (b != 48) = true <;> simp [h48]
      have hw10 : (0 : ℚ) < 10 ^ (-((j : ℤ) + 1)) := by positivity
      have hten : (10 : ℚ) ^ (-(j : ℤ)) = 10 * 10 ^ (-((j : ℤ) + 1)) := by
        have : -(j : ℤ) = 1 + -((j : ℤ) + 1) := by ring
        rw [this, zpow_add₀ (by norm_num), zpow_one]
      have hv9 : ((b.toNat - 48 : ℕ) : ℚ) ≤ 9 := by
        have : b.toNat - 48 ≤ 9 := by omega
        exact_mod_cast this
      have hv0 : (0 : ℚ) ≤ ((b.toNat - 48 : ℕ) : ℚ) := Nat.cast_nonneg _
      refine ⟨ρ + ((b.toNat - 48 : ℕ) : ℚ) * 10 ^ (-((j : ℤ) + 1)), ⟨?_, ?_, fun hh => ?_, fun _ => ?_⟩, ?_⟩
      · have := hI.nonneg
        positivity
      · by_cases h48 : (b == 48) = true
        · have hv : b.toNat = 48 := (beq48 b).mp h48
          have hne : (b != 48) = false := by simp [bne, h48]
          simp only [hne, Bool.false_eq_true, if_false]
          rw [hI.flag, hv]
          simp
        · have hv : b.toNat ≠ 48 := fun hh => h48 ((beq48 b).mpr hh)
          have hne : (b != 48) = true := by simp [bne, h48]
          simp only [hne, if_true]
          have h1 : (1 : ℚ) ≤ ((b.toNat - 48 : ℕ) : ℚ) := by
            have : 1 ≤ b.toNat - 48 := by omega
            exact_mod_cast this
          have hpos : 0 < ρ + ((b.toNat - 48 : ℕ) : ℚ) * 10 ^ (-((j : ℤ) + 1)) := by
            have := hI.nonneg
            have : 0 < ((b.toNat - 48 : ℕ) : ℚ) * 10 ^ (-((j : ℤ) + 1)) := by positivity
            linarith
          exact (decide_eq_true hpos.ne').symm
      · exfalso
        rw [hn] at hh; omega
      · rw [hp]
        have e : -((j + 1 : ℕ) : ℤ) = -((j : ℤ) + 1) := by push_cast; ring
        rw [e]
        rw [hten] at hfull
        nlinarith
      · simp only [aval, hd, hn, hp]
        ring

theorem pushFracA : ∀ (ds : List UInt8) (st : Decimal × Nat) (j : ℕ) (ρ : ℚ), allDigits ds → WF st.1 → FI st.1 j ρ →
    ∃ ρ' : ℚ, FI (pushAnyL true ds st).1 (j + ds.length) ρ' ∧
      aval (pushAnyL true ds st).1 + ρ' = aval st.1 + ρ + (digitsVal ds 0 : ℚ) * 10 ^ (-((j : ℤ) + (ds.length : ℤ))) := by
  intro ds
  induction ds with
  | nil => intro st j ρ _ _ hI; exact ⟨ρ, hI, by simp [pushAnyL, digitsVal]⟩
  | cons b ds ih =>
    intro st j ρ hds hw hI
    have hb : isDigit b = true := hds b (by simp)
    have hds' : allDigits ds := fun x hx => hds x (by simp [hx])
    obtain ⟨ρ1, a1, a2⟩ := pushAny_frac_step st b j ρ hb hw hI
    obtain ⟨ρ2, b1, b2⟩ := ih (pushAny true st b) (j + 1) ρ1 hds' (pushAny_wf true st b hb hw) a1
    refine ⟨ρ2, ?_, ?_⟩
    · simp only [pushAnyL, List.length_cons]
      have : j + (ds.length + 1) = j + 1 + ds.length := by ring
      rw [this]; exact b1
    · simp only [pushAnyL]
      rw [b2, a2]
      simp only [List.length_cons, digitsVal]
      rw [digitsVal_acc ds (0 * 10 + (b.toNat - 48))]
      push_cast
      have e1 : -((j : ℤ) + 1) = -((j : ℤ) + ((ds.length : ℤ) + 1)) + (ds.length : ℤ) := by ring
      have e2 : -(((j : ℤ) + 1) + (ds.length : ℤ)) = -((j : ℤ) + ((ds.length : ℤ) + 1)) := by ring
      rw [e2, e1, zpow_add₀ (by norm_num : (10 : ℚ) ≠ 0), zpow_natCast]
      ring

/-! ## the mantissa -/

/-- **the decimal after the mantissa of a literal of any length**: the literal's digits cut off after 800 significant
    ones -/
theorem mantAny_approx (neg : Bool) (ip fp : List UInt8) (hip : allDigits ip) (hfp : allDigits fp) :
    ∃ ρ : ℚ, 0 ≤ ρ ∧ ρ < 10 ^ ((mantAny neg ip fp).dp - 800) ∧
      (digitsVal (ip ++ fp) 0 : ℚ) * 10 ^ (-(fp.length : ℤ)) = aval (mantAny neg ip fp) + ρ ∧
      (mantAny neg ip fp).trunc = decide (ρ ≠ 0) ∧ ((mantAny neg ip fp).nd < 800 → ρ = 0) := by
  have hw0 : WF ({ Decimal.zero with neg := neg } : Decimal) := ⟨zero_size, by simp [Decimal.zero], fun i hi => absurd hi (by simp [Decimal.zero])⟩
  obtain ⟨R1, r1, r2, r3, r4⟩ := pushIntA ip ({ Decimal.zero with neg := neg }, 0) 0 hip hw0 (fun hh => absurd hh (by simp)) (by simp)
    (by simp [Decimal.zero])
  obtain ⟨hwI, hzI, _⟩ := pushAnyL_good false ip ({ Decimal.zero with neg := neg }, 0) hip hw0 (fun hh => absurd hh (by simp [Decimal.zero]))
  have hmant : mantAny neg ip fp =
      (pushAnyL true fp ({ (pushAnyL false ip ({ Decimal.zero with neg := neg }, 0)).1 with
        dp := (((pushAnyL false ip ({ Decimal.zero with neg := neg }, 0)).1.nd + (pushAnyL false ip ({ Decimal.zero with neg := neg }, 0)).2 : Nat) : ℤ) },
        (pushAnyL false ip ({ Decimal.zero with neg := neg }, 0)).2)).1 := rfl
  have r4' : val (pushAnyL false ip ({ Decimal.zero with neg := neg }, 0)).1.d (pushAnyL false ip ({ Decimal.zero with neg := neg }, 0)).1.nd *
      10 ^ (pushAnyL false ip ({ Decimal.zero with neg := neg }, 0)).2 + R1 = digitsVal ip 0 := by
    rw [r4]; simp [val, Decimal.zero]
  clear r4
  generalize pushAnyL false ip ({ Decimal.zero with neg := neg }, 0) = st1 at r1 r2 r3 r4' hwI hzI hmant
  -- the decimal at the dot
  have hwd : WF ({ st1.1 with dp := ((st1.1.nd + st1.2 : Nat) : ℤ) } : Decimal) := ⟨hwI.size, hwI.nd, hwI.digits⟩
  have hdot : aval ({ st1.1 with dp := ((st1.1.nd + st1.2 : Nat) : ℤ) } : Decimal) + (R1 : ℚ) = (digitsVal ip 0 : ℚ) := by
    simp only [aval]
    have : ((st1.1.nd + st1.2 : Nat) : ℤ) - (st1.1.nd : ℤ) = (st1.2 : ℤ) := by push_cast; ring
    rw [this, zpow_natCast]
    exact_mod_cast r4'
  have hFI : FI ({ st1.1 with dp := ((st1.1.nd + st1.2 : Nat) : ℤ) } : Decimal) 0 (R1 : ℚ) := by
    refine ⟨Nat.cast_nonneg _, ?_, fun hlt => ?_, fun h8 => ?_⟩
    · show st1.1.trunc = _
      rw [r2]
      by_cases h0 : R1 = 0
      · simp [h0]
      · have : (R1 : ℚ) ≠ 0 := by exact_mod_cast h0
        simp [h0, this]
    · have hnd : st1.1.nd < 800 := hlt
      have hd0 : st1.2 = 0 := by
        by_contra hcon
        have := r3 (by omega); omega
      rw [hd0] at r1
      have hR0 : R1 = 0 := by simpa using r1
      refine ⟨by rw [hR0]; simp, ?_⟩
      show ((st1.1.nd + st1.2 : Nat) : ℤ) - (st1.1.nd : ℤ) = -((0 : ℕ) : ℤ)
      rw [hd0]; simp
    · have hnd : st1.1.nd = 800 := h8
      show (R1 : ℚ) + 10 ^ (-((0 : ℕ) : ℤ)) ≤ 10 ^ (((st1.1.nd + st1.2 : Nat) : ℤ) - 800)
      have : ((st1.1.nd + st1.2 : Nat) : ℤ) - 800 = (st1.2 : ℤ) := by push_cast; omega
      rw [this, zpow_natCast]
      simp only [Nat.cast_zero, neg_zero, zpow_zero]
      have : R1 + 1 ≤ 10 ^ st1.2 := r1
      exact_mod_cast this
  obtain ⟨ρ, hF, hval⟩ := pushFracA fp ({ st1.1 with dp := ((st1.1.nd + st1.2 : Nat) : ℤ) }, st1.2) 0 (R1 : ℚ) hfp hwd hFI
  rw [← hmant] at hF hval
  have hwM : WF (mantAny neg ip fp) := by
    rw [hmant]
    exact (pushAnyL_good true fp ({ st1.1 with dp := ((st1.1.nd + st1.2 : Nat) : ℤ) }, st1.2) hfp hwd hzI).1
  refine ⟨ρ, hF.nonneg, ?_, ?_, hF.flag, fun hlt => (hF.small hlt).1⟩
  · by_cases h8 : (mantAny neg ip fp).nd = 800
    · have := hF.full h8
      have hp : (0 : ℚ) < 10 ^ (-(((0 + fp.length : ℕ)) : ℤ)) := by positivity
      linarith
    · have hlt : (mantAny neg ip fp).nd < 800 := by have := hwM.nd; omega
      rw [(hF.small hlt).1]
      positivity
  · have hsplit : (digitsVal (ip ++ fp) 0 : ℚ) = (digitsVal ip 0 : ℚ) * 10 ^ fp.length + (digitsVal fp 0 : ℚ) := by
      rw [digitsVal_append, digitsVal_acc fp (digitsVal ip 0)]; push_cast; ring
    simp only [] at hval
    rw [hval, hsplit, ← hdot]
    simp only [Nat.cast_zero, zero_add]
    rw [add_mul, mul_assoc, ← zpow_natCast, ← zpow_add₀ (by norm_num)]
    simp

/-! ## `decimal.set` -/

/-- **what `decimal.set` returns on a complete number literal**: the mantissa decimal with the exponent added to the
    decimal point -/
theorem set_form (data : Bytes) (neg : Bool) (ip fp : List UInt8) (ec : UInt8) (sg eds : List UInt8)
    (h : Shape data.toList neg ip fp ec sg eds []) :
    Decimal.set data = some { mantAny neg ip fp with
      dp := (mantAny neg ip fp).dp + (clipAcc (10000 + data.size) eds 0 : ℤ) * sgnOf sg } := by
  have hat0 := At.start data
  have hsize : data.size = data.toList.length := by simp
  obtain ⟨b, ds, hipc⟩ : ∃ b ds, ip = b :: ds := by
    cases hip : ip with
    | nil => exact absurd hip h.ipNe
    | cons b ds => exact ⟨b, ds, rfl⟩
  have hb : isDigit b = true := h.ipDigits b (by rw [hipc]; simp)
  have hb45 : (b == 45) = false := by
    by_cases hh : (b == 45) = true
    · have : b = 45 := by simpa using hh
      subst this; exact absurd hb (by decide)
    · simpa using hh
  have hsz0 : (data.size == 0) = false := by
    rw [hsize, h.eq, hipc]; cases neg <;> simp
  have hstart : (data[0]! == 45) = neg ∧ At data (if neg then 1 else 0) (ip ++ (fracL fp ++ (expL ec sg eds ++ []))) := by
    have heq := h.eq
    cases hneg : neg with
    | true =>
      rw [hneg] at heq
      simp only [if_true, List.cons_append, List.nil_append] at heq
      rw [heq] at hat0
      obtain ⟨_, _, hat1⟩ := hat0.cons_inv
      exact ⟨by rw [at_getBang hat0]; rfl, by simpa using hat1⟩
    | false =>
      rw [hneg] at heq
      simp only [Bool.false_eq_true, if_false, List.nil_append] at heq
      rw [heq] at hat0
      have hat0c : At data 0 (b :: (ds ++ (fracL fp ++ (expL ec sg eds ++ [])))) := by simpa [hipc] using hat0
      exact ⟨by rw [at_getBang hat0c]; exact hb45, by simpa using hat0⟩
  obtain ⟨hneg0, hatp⟩ := hstart
  generalize hp0 : (if neg then 1 else 0) = p0 at hatp
  have hl := hatp.length
  simp only [List.length_append] at hl
  have hw0 : WF ({ Decimal.zero with neg := neg } : Decimal) := ⟨zero_size, by simp [Decimal.zero], fun i hi => absurd hi (by simp [Decimal.zero])⟩
  have hz0 : NZ ({ Decimal.zero with neg := neg } : Decimal) := fun hh => absurd hh (by simp [Decimal.zero])
  -- integer digits
  have h1 := setLoop_digitsAny data ip (fracL fp ++ (expL ec sg eds ++ [])) data.size p0 { Decimal.zero with neg := neg } false false 0
    h.ipDigits hatp (by omega)
  obtain ⟨w1, z1, n1⟩ := pushAnyL_good false ip ({ Decimal.zero with neg := neg }, 0) h.ipDigits hw0 hz0
  have hint := pushInt_spec ip ({ Decimal.zero with neg := neg }, 0) h.ipDigits hw0 (fun hh => absurd hh (by simp))
  simp only [] at hint
  have hmant : mantAny neg ip fp =
      (pushAnyL true fp ({ (pushAnyL false ip ({ Decimal.zero with neg := neg }, 0)).1 with
        dp := (((pushAnyL false ip ({ Decimal.zero with neg := neg }, 0)).1.nd + (pushAnyL false ip ({ Decimal.zero with neg := neg }, 0)).2 : Nat) : ℤ) },
        (pushAnyL false ip ({ Decimal.zero with neg := neg }, 0)).2)).1 := rfl
  generalize pushAnyL false ip ({ Decimal.zero with neg := neg }, 0) = st1 at h1 w1 z1 n1 hint hmant
  have hipe : (false || !ip.isEmpty) = true := by rw [hipc]; rfl
  rw [hipe] at h1
  have hat1 : At data (p0 + ip.length) (fracL fp ++ (expL ec sg eds ++ [])) := at_drop_append hatp
  have hfpgood := pushAnyL_good true fp ({ st1.1 with dp := ((st1.1.nd + st1.2 : Nat) : ℤ) }, st1.2) h.fpDigits ⟨w1.size, w1.nd, w1.digits⟩ z1
  -- the loop, then the `!sawdot` adjustment: in both cases the decimal handed on is `mantAny`
  have hloop : ∃ aL sawdot dr, setLoop data data.size p0 { Decimal.zero with neg := neg } false false 0 =
      some (aL, sawdot, true, dr, p0 + ip.length + (fracL fp).length) ∧
      (if !sawdot then { aL with dp := ((aL.nd + dr : Nat) : ℤ) } else aL) = mantAny neg ip fp := by
    rw [h1]
    cases hfp : fp with
    | nil =>
      rw [hfp] at hat1 hmant
      simp only [fracL, List.nil_append, List.length_nil, Nat.add_zero] at hat1 ⊢
      rw [setLoop_stop data _ _ _ _ false true _ hat1 (by simpa [fracL] using noDigitHead_tail [] ec sg eds h.ecE) (h.noDot hfp)]
      refine ⟨st1.1, false, st1.2, rfl, ?_⟩
      rw [hmant]; rfl
    | cons d ds' =>
      rw [hfp] at hat1 hl
      have hat1' : At data (p0 + ip.length) (46 :: ((d :: ds') ++ (expL ec sg eds ++ []))) := by simpa [fracL] using hat1
      obtain ⟨_, _, hat2⟩ := hat1'.cons_inv
      obtain ⟨f, hf⟩ : ∃ f, data.size - ip.length = f + 1 := ⟨data.size - ip.length - 1, by simp [fracL] at hl; omega⟩
      rw [hf, setLoop_dot data _ f _ _ true _ hat1']
      simp only [fracL, List.length_cons] at hl
      have hfpd : allDigits (d :: ds') := by rw [← hfp]; exact h.fpDigits
      have h2 := setLoop_digitsAny data (d :: ds') (expL ec sg eds ++ []) f (p0 + ip.length + 1)
        { st1.1 with dp := ((st1.1.nd + st1.2 : Nat) : ℤ) } true true st1.2 hfpd hat2 (by simp only [List.length_cons]; omega)
      rw [h2]
      have hat3 : At data (p0 + ip.length + 1 + (d :: ds').length) (expL ec sg eds ++ []) := at_drop_append hat2
      rw [setLoop_stop data _ _ _ _ true _ _ hat3 (h.fpStop (by rw [hfp]; simp)) (expL_no_dot ec sg eds h.ecE)]
      refine ⟨(pushAnyL true (d :: ds') ({ st1.1 with dp := ((st1.1.nd + st1.2 : Nat) : ℤ) }, st1.2)).1, true,
        (pushAnyL true (d :: ds') ({ st1.1 with dp := ((st1.1.nd + st1.2 : Nat) : ℤ) }, st1.2)).2, ?_, ?_⟩
      · simp only [fracL, List.length_cons, List.isEmpty_cons, Bool.not_false, Bool.true_or]
        congr 5
        omega
      · rw [hfp] at hmant
        rw [hmant]; rfl
  obtain ⟨aL, sawdot, dr, hloop, hadj⟩ := hloop
  rw [hmant] at hadj
  have hatE : At data (p0 + ip.length + (fracL fp).length) (expL ec sg eds ++ []) := at_drop_append (at_drop_append hatp)
  obtain ⟨wM, zM, nM⟩ := hfpgood
  generalize hM : (pushAnyL true fp ({ st1.1 with dp := ((st1.1.nd + st1.2 : Nat) : ℤ) }, st1.2)).1 = aM at hadj wM zM nM
  simp only [Decimal.set, hsz0, Bool.false_eq_true, if_false, hneg0, hp0, hloop, Bool.not_true]
  rw [hadj, hmant, hM]
  exact setExp_val data _ _ ec sg eds hatE h.edsDigits h.ecE h.sgS

/-- **`decimal.set` on a complete number literal of any length**: the decimal holds the literal's value cut off after
    800 significant digits, and the `trunc` flag says whether anything but zeros was cut off -/
theorem set_approx (data : Bytes) (neg : Bool) (ip fp : List UInt8) (ec : UInt8) (sg eds : List UInt8)
    (h : Shape data.toList neg ip fp ec sg eds []) :
    ∃ a δ, Decimal.set data = some a ∧ Good0 a ∧ a.neg = neg ∧ 0 ≤ δ ∧ δ < 10 ^ (a.dp - 800) ∧
      (digitsVal (ip ++ fp) 0 : ℚ) * 10 ^ ((clipAcc (10000 + data.size) eds 0 : ℤ) * sgnOf sg - (fp.length : ℤ)) = aval a + δ ∧
      a.trunc = decide (δ ≠ 0) ∧ (a.nd = 0 → δ = 0) := by
  obtain ⟨a, hset, hg, hneg, _⟩ := set_spec_any data neg ip fp ec sg eds h
  have hform := set_form data neg ip fp ec sg eds h
  rw [hset] at hform
  injection hform with hform
  obtain ⟨ρ, r0, r1, r2, r3, r4⟩ := mantAny_approx neg ip fp h.ipDigits h.fpDigits
  generalize hE : (clipAcc (10000 + data.size) eds 0 : ℤ) * sgnOf sg = E at hform ⊢
  generalize mantAny neg ip fp = aM at hform r1 r2 r3 r4
  have hpE : (0 : ℚ) < 10 ^ E := by positivity
  have haval : aval a = aval aM * 10 ^ E := by
    rw [hform]
    simp only [aval]
    rw [mul_assoc, ← zpow_add₀ (by norm_num)]
    congr 2; ring
  refine ⟨a, ρ * 10 ^ E, hset, hg, hneg, by positivity, ?_, ?_, ?_, ?_⟩
  · have : a.dp - 800 = (aM.dp - 800) + E := by rw [hform]; ring
    rw [this, zpow_add₀ (by norm_num)]
    exact mul_lt_mul_of_pos_right r1 hpE
  · rw [haval, ← add_mul, ← r2, mul_assoc, ← zpow_add₀ (by norm_num)]
    congr 2; ring
  · have : a.trunc = aM.trunc := by rw [hform]
    rw [this, r3]
    by_cases h0 : ρ = 0
    · simp [h0]
    · have : ρ * 10 ^ E ≠ 0 := mul_ne_zero h0 hpE.ne'
      simp [h0, this]
  · intro hnd
    have : aM.nd = 0 := by rw [hform] at hnd; exact hnd
    rw [r4 (by omega)]; simp

end RJson.Dec
