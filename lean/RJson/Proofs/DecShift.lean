import RJson.Proofs.DecLeft
/-!
# `decimal.Shift(k)`: multiplication by `2^k` in chunks of at most 60 bits
-/
namespace RJson.Dec
open RJson.FP

/-- a decimal the shifts accept: well-formed, normal form -/
structure Good (a : Decimal) : Prop where
  wf : WF a
  nz : NZ a
  tm : Trimmed a

/-- what the shifts need from their argument (no trimming required) -/
structure Good0 (a : Decimal) : Prop where
  wf : WF a
  nz : NZ a

theorem Good.toGood0 {a : Decimal} (h : Good a) : Good0 a := ⟨h.wf, h.nz⟩

theorem two_zpow_pos' (e : ℤ) : (0 : ℚ) < 2 ^ e := by positivity

theorem goL_spec : ∀ (fuel : Nat) (a : Decimal) (k : Nat), Good0 a → 1 ≤ a.nd → 1 ≤ k → k ≤ 60 * fuel →
    ∃ b, Decimal.shift.goL 60 fuel a k = some b ∧ Good b ∧ 1 ≤ b.nd ∧ b.neg = a.neg ∧
      (b.trunc = false → a.trunc = false ∧ aval b = aval a * 2 ^ k) := by
  intro fuel
  induction fuel with
  | zero => intro a k _ _ h1 h2; omega
  | succ fuel ih =>
    intro a k hg hnd hk1 hk
    simp only [Decimal.shift.goL]
    by_cases hbig : k > 60
    · rw [if_pos hbig]
      obtain ⟨b, hb, hwf, hnz, htm, hbnd, hneg, hval⟩ := leftShift_spec a hg.wf hg.nz hnd 60 (by norm_num) (by norm_num)
      rw [hb]
      simp only []
      obtain ⟨c, hc, hgc, hcnd, hcneg, hcval⟩ := ih b (k - 60) ⟨hwf, hnz⟩ hbnd (by omega) (by omega)
      refine ⟨c, hc, hgc, hcnd, by rw [hcneg, hneg], fun htr => ?_⟩
      obtain ⟨t1, v1⟩ := hcval htr
      obtain ⟨t2, v2⟩ := hval t1
      refine ⟨t2, ?_⟩
      rw [v1, v2, mul_assoc, ← pow_add]
      congr 2; omega
    · rw [if_neg hbig]
      obtain ⟨b, hb, hwf, hnz, htm, hbnd, hneg, hval⟩ := leftShift_spec a hg.wf hg.nz hnd k hk1 (by omega)
      exact ⟨b, hb, ⟨hwf, hnz, htm⟩, hbnd, hneg, hval⟩

theorem goR_spec : ∀ (fuel : Nat) (a : Decimal) (k : Nat), Good0 a → 1 ≤ a.nd → 1 ≤ k → k ≤ 60 * fuel →
    Good (Decimal.shift.goR 60 fuel a k) ∧ 1 ≤ (Decimal.shift.goR 60 fuel a k).nd ∧ (Decimal.shift.goR 60 fuel a k).neg = a.neg ∧
      ((Decimal.shift.goR 60 fuel a k).trunc = false → a.trunc = false ∧ aval (Decimal.shift.goR 60 fuel a k) = aval a / 2 ^ k) := by
  intro fuel
  induction fuel with
  | zero => intro a k _ _ h1 h2; omega
  | succ fuel ih =>
    intro a k hg hnd hk1 hk
    simp only [Decimal.shift.goR]
    by_cases hbig : k > 60
    · rw [if_pos hbig]
      obtain ⟨hwf, hnz, htm, hpos, hneg, hval⟩ := rightShift_spec a hg.wf 60 (by norm_num) (by norm_num)
      obtain ⟨g2, nd2, neg2, val2⟩ := ih (rightShift a 60) (k - 60) ⟨hwf, hnz⟩ (hpos hg.nz hnd) (by omega) (by omega)
      refine ⟨g2, nd2, by rw [neg2, hneg], fun htr => ?_⟩
      obtain ⟨t1, v1⟩ := val2 htr
      obtain ⟨t2, v2⟩ := hval t1
      refine ⟨t2, ?_⟩
      rw [v1, v2, div_div, ← pow_add]
      congr 2; omega
    · rw [if_neg hbig]
      obtain ⟨hwf, hnz, htm, hpos, hneg, hval⟩ := rightShift_spec a hg.wf k hk1 (by omega)
      exact ⟨⟨hwf, hnz, htm⟩, hpos hg.nz hnd, hneg, hval⟩

/-- right shifts of any size: the structure survives and the `trunc` flag only ever goes up -/
theorem goR_any : ∀ (fuel : Nat) (a : Decimal) (k : Nat), Good0 a → 1 ≤ a.nd → 1 ≤ k →
    Good0 (Decimal.shift.goR 60 fuel a k) ∧ 1 ≤ (Decimal.shift.goR 60 fuel a k).nd ∧ (Decimal.shift.goR 60 fuel a k).neg = a.neg ∧
      ((Decimal.shift.goR 60 fuel a k).trunc = false → a.trunc = false) := by
  intro fuel
  induction fuel with
  | zero => intro a k hg hnd _; exact ⟨hg, hnd, rfl, fun h => h⟩
  | succ fuel ih =>
    intro a k hg hnd hk1
    simp only [Decimal.shift.goR]
    by_cases hbig : k > 60
    · rw [if_pos hbig]
      obtain ⟨hwf, hnz, htm, hpos, hneg, hval⟩ := rightShift_spec a hg.wf 60 (by norm_num) (by norm_num)
      obtain ⟨g2, nd2, neg2, tr2⟩ := ih (rightShift a 60) (k - 60) ⟨hwf, hnz⟩ (hpos hg.nz hnd) (by omega)
      exact ⟨g2, nd2, by rw [neg2, hneg], fun h => (hval (tr2 h)).1⟩
    · rw [if_neg hbig]
      obtain ⟨hwf, hnz, htm, hpos, hneg, hval⟩ := rightShift_spec a hg.wf k hk1 (by omega)
      exact ⟨⟨hwf, hnz⟩, hpos hg.nz hnd, hneg, fun h => (hval h).1⟩

/-- **`Shift(k)`** for `|k| ≤ 3840`: never panics, keeps the normal form (and trims when it really shifts), and when the
    `trunc` flag is off afterwards it was off before and the value is exactly `a · 2^k` -/
theorem shift_spec (a : Decimal) (hg : Good0 a) (k : ℤ) (hk1 : -3840 ≤ k) (hk2 : k ≤ 3840) :
    ∃ b, a.shift k = some b ∧ Good0 b ∧ (k ≠ 0 → 1 ≤ a.nd → Trimmed b) ∧ (1 ≤ a.nd → 1 ≤ b.nd) ∧ (a.nd = 0 → b = a) ∧ b.neg = a.neg ∧
      (b.trunc = false → a.trunc = false ∧ aval b = aval a * 2 ^ k) := by
  have hms : Gen.fpMaxShift = 60 := rfl
  simp only [Decimal.shift, hms]
  by_cases hz : a.nd = 0
  · have hb : (a.nd == 0) = true := by simpa using hz
    rw [if_pos hb]
    refine ⟨a, rfl, hg, fun _ h => by omega, fun h => by omega, fun _ => rfl, rfl, fun htr => ⟨htr, ?_⟩⟩
    simp [aval, hz, val]
  · have hb : ¬ ((a.nd == 0) = true) := by simpa using hz
    have hnd : 1 ≤ a.nd := by omega
    rw [if_neg hb]
    by_cases hpos : k > 0
    · rw [if_pos hpos]
      obtain ⟨b, hbe, hgb, hbnd, hneg, hval⟩ := goL_spec 64 a k.toNat hg hnd (by omega) (by omega)
      refine ⟨b, hbe, hgb.toGood0, fun _ _ => hgb.tm, fun _ => hbnd, fun h => absurd h hz, hneg, fun htr => ?_⟩
      obtain ⟨t, v⟩ := hval htr
      refine ⟨t, ?_⟩
      rw [v, ← zpow_natCast, Int.toNat_of_nonneg (by omega)]
    · rw [if_neg hpos]
      by_cases hneg : k < 0
      · rw [if_pos hneg]
        obtain ⟨hgb, hbnd, hn, hval⟩ := goR_spec 64 a (-k).toNat hg hnd (by omega) (by omega)
        refine ⟨_, rfl, hgb.toGood0, fun _ _ => hgb.tm, fun _ => hbnd, fun h => absurd h hz, hn, fun htr => ?_⟩
        obtain ⟨t, v⟩ := hval htr
        refine ⟨t, ?_⟩
        rw [v]
        have : (2 : ℚ) ^ k = (2 ^ (-k).toNat)⁻¹ := by
          rw [← zpow_natCast, Int.toNat_of_nonneg (by omega), zpow_neg, inv_inv]
        rw [this, div_eq_mul_inv]
      · rw [if_neg hneg]
        have hk0 : k = 0 := by omega
        subst hk0
        refine ⟨a, rfl, hg, fun h => absurd rfl h, fun h => h, fun _ => rfl, rfl, fun htr => ⟨htr, by simp⟩⟩

end RJson.Dec
