import RJson.Proofs.RoundRat
import RJson.Props.C04Tables
/-!
# The Eisel-Lemire step of `ParseJSONFloatPrefix` is correctly rounded whenever it answers

`eiselLemire64 man q neg = some bits` (hand model of `eisel_lemire.go` over the *regenerated* 128-bit table) implies
`bits` is the binary64 nearest to `man · 10^q` (ties to even): `Spec.roundDec neg man q`.  The argument is the
interval argument of the algorithm's authors, made exact with the kernel-checked fact that every table row is the
floor of the scaled power of ten (`C04.el_row_exact`).
-/
namespace RJson.EL
open RJson.Spec RJson.FP RJson.RoundRat

/-! ## linear arithmetic of the 128-bit approximation (`B = 2^64`) -/

theorem wide_core (hi lo yLo w : ℕ) (hlo : lo < 18446744073709551616) (hyLo : yLo < 18446744073709551616)
    (hw : w < 18446744073709551616)
    (hfail : ¬ (hi % 512 = 511 ∧ lo + 1 = 18446744073709551616 ∧ yLo + w ≥ 18446744073709551616)) :
    (hi * 18446744073709551616 + lo) * 18446744073709551616 + yLo + w ≤ (hi / 512 + 1) * 174224571863520493293247799005065324265472 := by
  omega

theorem narrow_core (hi lo Y w : ℕ) (hlo : lo < 18446744073709551616) (hY : Y + w ≤ w * 18446744073709551616)
    (hw : w < 18446744073709551616) (hn : ¬ (hi % 512 = 511 ∧ lo + w ≥ 18446744073709551616)) :
    (hi * 18446744073709551616 + lo) * 18446744073709551616 + Y + w ≤ (hi / 512 + 1) * 174224571863520493293247799005065324265472 := by
  omega

theorem merge_carry (X Y xHi xLo yHi yLo hi lo : ℕ) (hx : X = xHi * 18446744073709551616 + xLo)
    (hy : Y = yHi * 18446744073709551616 + yLo) (hxlo : xLo < 18446744073709551616) (hyH : yHi < 18446744073709551616)
    (hc : (xLo + yHi) % 18446744073709551616 < xLo)
    (hT : X * 18446744073709551616 + Y < 18446744073709551616 * 340282366920938463463374607431768211456)
    (h1 : (xHi + 1) % 18446744073709551616 = hi) (h2 : (xLo + yHi) % 18446744073709551616 = lo) :
    hi = xHi + 1 ∧ (hi * 18446744073709551616 + lo) * 18446744073709551616 + yLo = X * 18446744073709551616 + Y := by
  omega

theorem merge_nocarry (X Y xHi xLo yHi yLo lo : ℕ) (hx : X = xHi * 18446744073709551616 + xLo)
    (hy : Y = yHi * 18446744073709551616 + yLo) (hxlo : xLo < 18446744073709551616) (hyH : yHi < 18446744073709551616)
    (hc : ¬ (xLo + yHi) % 18446744073709551616 < xLo) (h2 : (xLo + yHi) % 18446744073709551616 = lo) :
    (xHi * 18446744073709551616 + lo) * 18446744073709551616 + yLo = X * 18446744073709551616 + Y := by
  omega

theorem hi_bounds (hi lo R xHi : ℕ) (hle : xHi ≤ hi) (h62 : 4611686018427387904 ≤ xHi)
    (hZ : (hi * 18446744073709551616 + lo) * 18446744073709551616 ≤ R)
    (hR : R < 18446744073709551616 * 340282366920938463463374607431768211456) :
    hi < 18446744073709551616 ∧ 4611686018427387904 ≤ hi := by
  omega

theorem finish_core (hi lo yL X Y w xHi : ℕ) (hle : xHi ≤ hi) (h62 : 4611686018427387904 ≤ xHi)
    (hl : lo < 18446744073709551616)
    (hT : X * 18446744073709551616 + Y < 18446744073709551616 * 340282366920938463463374607431768211456)
    (hZ : (hi * 18446744073709551616 + lo) * 18446744073709551616 + yL = X * 18446744073709551616 + Y)
    (hU : (hi * 18446744073709551616 + lo) * 18446744073709551616 + yL + w ≤ (hi / 512 + 1) * 174224571863520493293247799005065324265472) :
    hi < 18446744073709551616 ∧ lo < 18446744073709551616 ∧ 4611686018427387904 ≤ hi ∧
      (hi * 18446744073709551616 + lo) * 18446744073709551616 ≤ X * 18446744073709551616 + Y ∧
      X * 18446744073709551616 + Y + w ≤ (hi / 512 + 1) * 174224571863520493293247799005065324265472 := by
  have h1 : (hi * 18446744073709551616 + lo) * 18446744073709551616 ≤ X * 18446744073709551616 + Y := Nat.le.intro hZ
  obtain ⟨b1, b2⟩ := hi_bounds hi lo (X * 18446744073709551616 + Y) xHi hle h62 h1 hT
  have h2 : X * 18446744073709551616 + Y + w ≤ (hi / 512 + 1) * 174224571863520493293247799005065324265472 := by
    rw [← hZ]; exact hU
  exact ⟨b1, hl, b2, h1, h2⟩

/-- what the merged approximation guarantees (`T = rowHi·2^64 + rowLo`, the full product is `w·T`) -/
theorem elMerged_spec (w rowLo rowHi hi lo : ℕ) (hw : 2^63 ≤ w) (hw' : w < 2^64) (hlo : rowLo < 2^64) (hhi : rowHi < 2^64)
    (hhi63 : 2^63 ≤ rowHi) (h : elMerged w rowLo rowHi = some (hi, lo)) :
    hi < 2^64 ∧ lo < 2^64 ∧ 2^62 ≤ hi ∧ (hi * 2^64 + lo) * 2^64 ≤ w * (rowHi * 2^64 + rowLo) ∧
      w * (rowHi * 2^64 + rowLo) + w ≤ (hi / 512 + 1) * 2^137 := by
  simp only [Nat.reducePow] at hw hw' hlo hhi hhi63 ⊢
  have h64 : two64 = 18446744073709551616 := rfl
  have hx : w * rowHi = (w * rowHi / 18446744073709551616) * 18446744073709551616 + (w * rowHi) % 18446744073709551616 := by
    have := Nat.div_add_mod (w * rowHi) 18446744073709551616; rw [Nat.mul_comm] at this; exact this.symm
  have hy : w * rowLo = (w * rowLo / 18446744073709551616) * 18446744073709551616 + (w * rowLo) % 18446744073709551616 := by
    have := Nat.div_add_mod (w * rowLo) 18446744073709551616; rw [Nat.mul_comm] at this; exact this.symm
  have hxlo : (w * rowHi) % 18446744073709551616 < 18446744073709551616 := Nat.mod_lt _ (by omega)
  have hylo : (w * rowLo) % 18446744073709551616 < 18446744073709551616 := Nat.mod_lt _ (by omega)
  have hxlb : 9223372036854775808 * 9223372036854775808 ≤ w * rowHi := Nat.mul_le_mul hw hhi63
  have hyub : w * rowLo + w ≤ w * 18446744073709551616 := by
    have : w * rowLo + w = w * (rowLo + 1) := by ring
    rw [this]; exact Nat.mul_le_mul_left w (by omega)
  have hfull : w * (rowHi * 18446744073709551616 + rowLo) = (w * rowHi) * 18446744073709551616 + w * rowLo := by ring
  have hTub : (w * rowHi) * 18446744073709551616 + w * rowLo < 18446744073709551616 * 340282366920938463463374607431768211456 := by
    rw [← hfull]; exact Nat.mul_lt_mul'' hw' (by omega)
  simp only [elMerged, h64] at h
  rw [hfull]
  generalize hX : w * rowHi = X at *
  generalize hY : w * rowLo = Y at *
  generalize hxh : X / 18446744073709551616 = xHi at *
  generalize hxl : X % 18446744073709551616 = xLo at *
  generalize hyh : Y / 18446744073709551616 = yHi at *
  generalize hyl : Y % 18446744073709551616 = yLo at *
  have hxHi62 : 4611686018427387904 ≤ xHi := by omega
  have hyH : yHi < 18446744073709551616 := by omega
  have finish : ∀ (yL : ℕ), xHi ≤ hi → lo < 18446744073709551616 →
      (hi * 18446744073709551616 + lo) * 18446744073709551616 + yL = X * 18446744073709551616 + Y →
      (hi * 18446744073709551616 + lo) * 18446744073709551616 + yL + w ≤ (hi / 512 + 1) * 174224571863520493293247799005065324265472 →
      hi < 18446744073709551616 ∧ lo < 18446744073709551616 ∧ 4611686018427387904 ≤ hi ∧
        (hi * 18446744073709551616 + lo) * 18446744073709551616 ≤ X * 18446744073709551616 + Y ∧
        X * 18446744073709551616 + Y + w ≤ (hi / 512 + 1) * 174224571863520493293247799005065324265472 :=
    fun yL hle hl hZ hU => finish_core hi lo yL X Y w xHi hle hxHi62 hl hTub hZ hU
  by_cases h511 : xHi % 512 = 511
  · by_cases hov : (xLo + w) % 18446744073709551616 < w
    · -- wide
      have hwide : (xHi % 512 == 511 && decide ((xLo + w) % 18446744073709551616 < w)) = true := by
        rw [beq_iff_eq.mpr h511, decide_eq_true hov]; rfl
      simp only [hwide, if_true] at h
      by_cases hc : (xLo + yHi) % 18446744073709551616 < xLo
      · simp only [hc, if_true] at h
        by_cases hf : ((xHi + 1) % 18446744073709551616 % 512 == 511 && ((xLo + yHi) % 18446744073709551616 + 1) % 18446744073709551616 == 0 &&
            decide ((yLo + w) % 18446744073709551616 < w)) = true
        · rw [hf] at h; simp only [if_true] at h; cases h
        · simp only [hf, Bool.false_eq_true, if_false] at h
          injection h with h; injection h with h1 h2
          obtain ⟨e1, e2⟩ := merge_carry X Y xHi xLo yHi yLo hi lo hx hy hxlo hyH hc hTub h1 h2
          have hl : lo < 18446744073709551616 := by rw [← h2]; exact Nat.mod_lt _ (by omega)
          refine finish yLo (by omega) hl e2 (wide_core hi lo yLo w hl hylo hw' ?_)
          rintro ⟨a, b, c⟩
          apply hf
          rw [h1, h2, beq_iff_eq.mpr a]
          have : (lo + 1) % 18446744073709551616 = 0 := by omega
          rw [beq_iff_eq.mpr this]
          have : (yLo + w) % 18446744073709551616 < w := by omega
          rw [decide_eq_true this]; rfl
      · simp only [hc, if_false] at h
        by_cases hf : (xHi % 512 == 511 && ((xLo + yHi) % 18446744073709551616 + 1) % 18446744073709551616 == 0 &&
            decide ((yLo + w) % 18446744073709551616 < w)) = true
        · rw [hf] at h; simp only [if_true] at h; cases h
        · simp only [hf, Bool.false_eq_true, if_false] at h
          injection h with h; injection h with h1 h2
          have e2 := merge_nocarry X Y xHi xLo yHi yLo lo hx hy hxlo hyH hc h2
          have hl : lo < 18446744073709551616 := by rw [← h2]; exact Nat.mod_lt _ (by omega)
          subst h1
          refine finish yLo (Nat.le_refl _) hl e2 (wide_core xHi lo yLo w hl hylo hw' ?_)
          rintro ⟨a, b, c⟩
          apply hf
          rw [h2, beq_iff_eq.mpr a]
          have : (lo + 1) % 18446744073709551616 = 0 := by omega
          rw [beq_iff_eq.mpr this]
          have : (yLo + w) % 18446744073709551616 < w := by omega
          rw [decide_eq_true this]; rfl
    · have hwide : (xHi % 512 == 511 && decide ((xLo + w) % 18446744073709551616 < w)) = false := by
        rw [decide_eq_false hov, Bool.and_false]
      simp only [hwide, Bool.false_eq_true, if_false] at h
      injection h with h; injection h with h1 h2
      subst h1 h2
      have hU := narrow_core xHi xLo Y w hxlo hyub hw' (by rintro ⟨_, b⟩; apply hov; omega)
      refine finish Y (Nat.le_refl _) hxlo (by omega) hU
  · have hwide : (xHi % 512 == 511 && decide ((xLo + w) % 18446744073709551616 < w)) = false := by
      rw [beq_eq_false_iff_ne.mpr h511, Bool.false_and]
    simp only [hwide, Bool.false_eq_true, if_false] at h
    injection h with h; injection h with h1 h2
    subst h1 h2
    have hU := narrow_core xHi xLo Y w hxlo hyub hw' (by rintro ⟨a, _⟩; exact h511 a)
    refine finish Y (Nat.le_refl _) hxlo (by omega) hU

/-! ## from the 128-bit approximation to the rounded result -/

theorem pack_bits (E m : ℕ) (neg : Bool) (hE : E < 2047) (hm : 2 ^ 52 ≤ m) (hm' : m < 2 ^ 53) :
    ((E * 2 ^ 52) % 18446744073709551616 ||| (m % 2 ^ 52) ||| signBit neg) = signBit neg + E * 2 ^ 52 + (m - 2 ^ 52) := by
  have h1 : (E * 2 ^ 52) % 18446744073709551616 = E * 2 ^ 52 := by
    apply Nat.mod_eq_of_lt; omega
  have h2 : m % 2 ^ 52 = m - 2 ^ 52 := by omega
  have h3 : m - 2 ^ 52 < 2 ^ 52 := by omega
  rw [h1, h2]
  have h4 : E * 2 ^ 52 ||| (m - 2 ^ 52) = E * 2 ^ 52 + (m - 2 ^ 52) := by
    rw [← Nat.shiftLeft_eq, ← Nat.shiftLeft_add_eq_or_of_lt h3]
  rw [h4]
  cases neg with
  | false => simp [signBit]
  | true =>
    have h5 : E * 2 ^ 52 + (m - 2 ^ 52) < 2 ^ 63 := by omega
    have : signBit true = 1 <<< 63 := by simp [signBit, Nat.shiftLeft_eq]
    rw [this, Nat.or_comm, ← Nat.shiftLeft_add_eq_or_of_lt h5]
    omega

/-- the biased exponent the code ends up with, as an integer -/
theorem exp_arith (t : ℤ) (msb carry r : ℕ) (hm : msb = 0 ∨ msb = 1) (hc : carry = 0 ∨ carry = 1)
    (ht : -1099511627776 < t) (ht' : t < 1099511627776)
    (hr : r = if carry = 1 then ((((t % 18446744073709551616).toNat + 18446744073709551616 - (1 - msb)) % 18446744073709551616) + 1) % 18446744073709551616
              else ((t % 18446744073709551616).toNat + 18446744073709551616 - (1 - msb)) % 18446744073709551616)
    (hchk : ¬ (r + 18446744073709551616 - 1) % 18446744073709551616 ≥ 2046) :
    (r : ℤ) = t - 1 + msb + carry ∧ 1 ≤ r ∧ r ≤ 2046 := by
  rcases hm with rfl | rfl <;> rcases hc with rfl | rfl <;> simp only [if_true, if_false, Nat.one_ne_zero, Nat.zero_ne_one] at hr <;> omega

theorem xor_msb (msb : ℕ) (h : msb = 0 ∨ msb = 1) : 1 ^^^ msb = 1 - msb := by
  rcases h with rfl | rfl <;> rfl

/-- the 54-bit quotient `R` of the value at exponent `E1` -/
theorem el_R (n d : ℕ) (hi lo : ℕ) (t : ℤ) (hhi : 4611686018427387904 ≤ hi) (hhi' : hi < 18446744073709551616)
    (hmsb : hi / 2 ^ 63 = 0 ∨ hi / 2 ^ 63 = 1)
    (hQ : IsQ ((n : ℚ) / d) (t - 1077) (hi / 512))
    (hTie : (n : ℚ) / d = ((hi / 512 : ℕ) : ℚ) * 2 ^ (t - 1077) → lo = 0 ∧ hi % 512 = 0) :
    ∃ (R : ℕ) (E1 : ℤ), hi >>> (hi / 2 ^ 63 + 9) = R ∧ 2 ^ 53 ≤ R ∧ R < 2 ^ 54 ∧
      E1 = t - 1077 + (hi / 2 ^ 63 : ℕ) ∧ IsQ ((n : ℚ) / d) E1 R ∧
      ((n : ℚ) / d = (R : ℚ) * 2 ^ E1 → lo = 0 ∧ hi % 512 = 0) := by
    rcases hmsb with h0 | h1
    · refine ⟨hi / 512, t - 1077, ?_, ?_, ?_, ?_, hQ, hTie⟩
      · rw [h0, Nat.shiftRight_eq_div_pow]
      · simp only [Nat.reducePow] at h0 ⊢; omega
      · simp only [Nat.reducePow] at h0 ⊢; omega
      · rw [h0]; simp
    · have hq2 : IsQ ((n : ℚ) / d) (t - 1077 + 1) (hi / 512 / 2) := isQ_halve hQ
      have hdiv : hi / 512 / 2 = hi / 1024 := by omega
      refine ⟨hi / 1024, t - 1077 + 1, ?_, ?_, ?_, ?_, by rw [← hdiv]; exact hq2, ?_⟩
      · rw [h1, Nat.shiftRight_eq_div_pow]
      · simp only [Nat.reducePow] at h1 ⊢; omega
      · simp only [Nat.reducePow] at h1 ⊢; omega
      · rw [h1]; simp
      · intro hex
        apply hTie
        -- hi / 512 = 2 * (hi / 1024) + b, and the value is at least (hi/512)·2^E0
        have hp := two_zpow_pos (t - 1077)
        have hc2 := cast_div_two (hi / 512)
        rw [hdiv] at hc2
        have hb0 : (0 : ℚ) ≤ ((hi / 512 % 2 : ℕ) : ℚ) := by positivity
        rw [two_zpow_succ] at hex
        have hle : ((hi / 512 : ℕ) : ℚ) * 2 ^ (t - 1077) ≤ ((hi / 1024 : ℕ) : ℚ) * (2 * 2 ^ (t - 1077)) := by
          rw [← hex]; exact hQ.1
        have hb : ((hi / 512 % 2 : ℕ) : ℚ) * 2 ^ (t - 1077) ≤ 0 := by
          have : ((hi / 512 : ℕ) : ℚ) * 2 ^ (t - 1077) =
              ((hi / 1024 : ℕ) : ℚ) * (2 * 2 ^ (t - 1077)) + ((hi / 512 % 2 : ℕ) : ℚ) * 2 ^ (t - 1077) := by
            rw [hc2]; ring
          linarith
        have hb' : ((hi / 512 % 2 : ℕ) : ℚ) = 0 := by
          have := mul_nonneg hb0 hp.le
          have h0 : ((hi / 512 % 2 : ℕ) : ℚ) * 2 ^ (t - 1077) = 0 := le_antisymm hb this
          rcases mul_eq_zero.mp h0 with h | h
          · exact h
          · exact absurd h hp.ne'
        rw [hex, hc2, hb']; ring

set_option maxRecDepth 100000 in
/-- rounding `R` to 53 bits and packing -/
theorem el_round (neg : Bool) (n d : ℕ) (hn : n ≠ 0) (hd : d ≠ 0) (hi lo : ℕ) (t : ℤ) (bits : ℕ)
    (ht : -1099511627776 < t) (ht' : t < 1099511627776)
    (hmsb : hi / 2 ^ 63 = 0 ∨ hi / 2 ^ 63 = 1)
    (R : ℕ) (E1 : ℤ) (hR : hi >>> (hi / 2 ^ 63 + 9) = R) (hRlo : 2 ^ 53 ≤ R) (hRhi : R < 2 ^ 54)
    (hE1 : E1 = t - 1077 + (hi / 2 ^ 63 : ℕ)) (hQR : IsQ ((n : ℚ) / d) E1 R)
    (hexR : (n : ℚ) / d = (R : ℚ) * 2 ^ E1 → lo = 0 ∧ hi % 512 = 0)
    (h : elFinish hi lo (t % (two64 : ℤ)).toNat neg = some bits) :
    roundRat neg n d = (bits, false) := by
  -- 53 bits and the comparison with one half
  have hQM : IsQ ((n : ℚ) / d) (E1 + 1) (R / 2) := isQ_halve hQR
  have hCM := isC_halve hQR
  have hM52 : 2 ^ 52 ≤ R / 2 := by simp only [Nat.reducePow] at hRlo ⊢; omega
  have hM53 : R / 2 < 2 ^ 53 := by simp only [Nat.reducePow] at hRhi ⊢; omega
  -- unfold the code
  simp only [elFinish, hR, xor_msb _ hmsb] at h
  by_cases hbail : (lo == 0 && hi % 512 == 0 && R % 4 == 1) = true
  · rw [hbail] at h; simp only [if_true] at h; cases h
  · simp only [hbail, Bool.false_eq_true, if_false] at h
    have hnb : ¬ (lo = 0 ∧ hi % 512 = 0 ∧ R % 4 = 1) := by
      rintro ⟨a, b, c⟩
      apply hbail
      rw [beq_iff_eq.mpr a, beq_iff_eq.mpr b, beq_iff_eq.mpr c]; rfl
    -- the rounded mantissa
    have hround : roundHalfEven (R / 2)
        (if R % 2 = 0 then (if (n : ℚ) / d = (R : ℚ) * 2 ^ E1 then 0 else 1) else (if (n : ℚ) / d = (R : ℚ) * 2 ^ E1 then 2 else 3)) =
        (R + R % 2) / 2 := by
      by_cases hb : R % 2 = 0
      · simp only [hb, if_true]
        have : (R + 0) / 2 = R / 2 := by simp
        rw [this]
        by_cases hex : (n : ℚ) / d = (R : ℚ) * 2 ^ E1 <;> simp [hex, roundHalfEven]
      · have hb1 : R % 2 = 1 := by omega
        simp only [hb, if_false, hb1]
        have hM1 : (R + 1) / 2 = R / 2 + 1 := by omega
        rw [hM1]
        by_cases hex : (n : ℚ) / d = (R : ℚ) * 2 ^ E1
        · simp only [hex, if_true]
          obtain ⟨a, b⟩ := hexR hex
          have h4 : R % 4 = 3 := by
            have : R % 4 ≠ 1 := fun c => hnb ⟨a, b, c⟩
            omega
          have hodd : R / 2 % 2 = 1 := by omega
          simp [roundHalfEven, hodd]
        · simp [hex, roundHalfEven]
    generalize hM' : (R + R % 2) / 2 = M' at h hround
    have hM'lo : 2 ^ 52 ≤ M' := by simp only [Nat.reducePow] at hRlo ⊢; omega
    have hM'hi : M' ≤ 2 ^ 53 := by simp only [Nat.reducePow] at hRhi ⊢; omega
    -- the exponent check
    by_cases hcarry : M' / 2 ^ 53 > 0
    · have hMeq : M' = 2 ^ 53 := by simp only [Nat.reducePow] at hcarry hM'hi ⊢; omega
      simp only [hcarry, if_true] at h
      split at h
      · cases h
      · next hchk =>
        injection h with h
        simp only [two64, Nat.cast_ofNat] at h hchk
        generalize hr : ((((t % 18446744073709551616).toNat + 18446744073709551616 - (1 - hi / 2 ^ 63)) % 18446744073709551616 + 1) % 18446744073709551616 : ℕ) = r at h hchk
        obtain ⟨hb1, hb2, hb3⟩ := exp_arith t (hi / 2 ^ 63) 1 r hmsb (.inr rfl) ht ht'
          (by simp only [if_true]; exact hr.symm) hchk
        clear hr hchk
        have hbiased : E1 + 1 + 1 + 1075 = (r : ℤ) := by rw [hb1, hE1]; push_cast; ring
        by_cases hsub : E1 + 1 = -1075
        · -- just below the smallest normal number
          have hr1 : r = 1 := by
            have : (r : ℤ) = 1 := by rw [← hbiased, hsub]; norm_num
            exact_mod_cast this
          have hRv : R = 18014398509481983 := by simp only [Nat.reducePow] at hM' hMeq hRhi; omega
          have hMv : R / 2 = 2 ^ 53 - 1 := by rw [hRv]; norm_num
          rw [hMv, hsub] at hQM
          have hne : (n : ℚ) / d ≠ ((2 ^ 53 - 1 : ℕ) : ℚ) * 2 ^ (-1075 : ℤ) := by
            -- the value is at least R·2^E1 = (2M+1)·2^(e-1) > M·2^e
            have hp := two_zpow_pos E1
            have h1 := hQR.1
            have hE : (2 : ℚ) ^ (-1075 : ℤ) = 2 * 2 ^ E1 := by rw [← hsub, two_zpow_succ]
            rw [hE]
            have hRq : (R : ℚ) = 18014398509481983 := by rw [hRv]; norm_num
            have hMq : ((2 ^ 53 - 1 : ℕ) : ℚ) = 9007199254740991 := by norm_num
            rw [hRq] at h1
            rw [hMq]
            intro hcontra
            rw [hcontra] at h1
            linarith
          rw [roundRat_min_normal neg n d hn hd hQM hne, ← h, hr1, hMeq,
            pack_bits 1 (2 ^ 53 / 2) neg (by norm_num) (by norm_num) (by norm_num)]
          norm_num
        · have he : -1074 ≤ E1 + 1 := by
            have : (1 : ℤ) ≤ (r : ℤ) := by exact_mod_cast hb2
            omega
          rw [roundRat_of_isQ neg n d hn hd (E1 + 1) he _ _ hQM hCM hM52 hM53]
          simp only [roundAt, hround, hMeq, beq_self_eq_true, if_true]
          rw [← h, hbiased]
          have hlt : ¬ ((r : ℤ) ≥ 2047) := by
            have : (r : ℤ) ≤ 2046 := by exact_mod_cast hb3
            linarith
          have hnl : ¬ (2 ^ 52 < 2 ^ 52) := Nat.lt_irrefl _
          rw [if_neg hnl, if_neg hlt, Int.toNat_natCast]
          rw [hMeq, pack_bits r (2 ^ 53 / 2) neg (by omega) (by norm_num) (by norm_num)]
          norm_num
    · have hMlt : M' < 2 ^ 53 := by simp only [Nat.reducePow] at hcarry hM'hi ⊢; omega
      simp only [hcarry, if_false] at h
      split at h
      · cases h
      · next hchk =>
        injection h with h
        simp only [two64, Nat.cast_ofNat] at h hchk
        generalize hr : (((t % 18446744073709551616).toNat + 18446744073709551616 - (1 - hi / 2 ^ 63)) % 18446744073709551616 : ℕ) = r at h hchk
        obtain ⟨hb1, hb2, hb3⟩ := exp_arith t (hi / 2 ^ 63) 0 r hmsb (.inl rfl) ht ht'
          (by simp only [Nat.zero_ne_one, if_false]; exact hr.symm) hchk
        clear hr hchk
        have hbiased : E1 + 1 + 1075 = (r : ℤ) := by rw [hb1, hE1]; push_cast; ring
        have he : -1074 ≤ E1 + 1 := by
          have : (1 : ℤ) ≤ (r : ℤ) := by exact_mod_cast hb2
          linarith
        rw [roundRat_of_isQ neg n d hn hd (E1 + 1) he _ _ hQM hCM hM52 hM53]
        have hne53 : (M' == 2 ^ 53) = false := beq_eq_false_iff_ne.mpr (Nat.ne_of_lt hMlt)
        simp only [roundAt, hround, hne53, Bool.false_eq_true, if_false]
        rw [← h, hbiased]
        have hlt : ¬ ((r : ℤ) ≥ 2047) := by
          have : (r : ℤ) ≤ 2046 := by exact_mod_cast hb3
          linarith
        have hnl : ¬ (M' < 2 ^ 52) := Nat.not_lt.mpr hM'lo
        rw [if_neg hnl, if_neg hlt, Int.toNat_natCast]
        rw [pack_bits r M' neg (by omega) hM'lo hMlt]

/-- **rounding of the 128-bit approximation**: `t` is the integer `⌊217706·q / 65536⌋ + 1087 - clz`; the quotient
    `hi / 512` is exact at exponent `t - 1077`, and an exactly representable value shows in the low bits -/
theorem elFinish_correct (neg : Bool) (n d : ℕ) (hn : n ≠ 0) (hd : d ≠ 0) (hi lo : ℕ) (t : ℤ) (bits : ℕ)
    (hhi : 2 ^ 62 ≤ hi) (hhi' : hi < 2 ^ 64)
    (ht : -1099511627776 < t) (ht' : t < 1099511627776)
    (hQ : IsQ ((n : ℚ) / d) (t - 1077) (hi / 512))
    (hTie : (n : ℚ) / d = ((hi / 512 : ℕ) : ℚ) * 2 ^ (t - 1077) → lo = 0 ∧ hi % 512 = 0)
    (h : elFinish hi lo (t % (two64 : ℤ)).toNat neg = some bits) :
    roundRat neg n d = (bits, false) := by
  simp only [Nat.reducePow] at hhi hhi'
  have hmsb : hi / 2 ^ 63 = 0 ∨ hi / 2 ^ 63 = 1 := by
    simp only [Nat.reducePow]; omega
  obtain ⟨R, E1, hR, hRlo, hRhi, hE1, hQR, hexR⟩ := el_R n d hi lo t hhi hhi' hmsb hQ hTie
  exact el_round neg n d hn hd hi lo t bits ht ht' hmsb R E1 hR hRlo hRhi hE1 hQR hexR h

/-! ## the table row and the value, as rationals -/

theorem zpow_split (a : ℚ) (ha : 0 < a) (z : ℤ) :
    a ^ z = ((if z ≥ 0 then a ^ z.toNat else 1) : ℚ) / (if z ≥ 0 then 1 else a ^ (-z).toNat) := by
  by_cases hz : z ≥ 0
  · simp only [hz, if_true, div_one]
    rw [← zpow_natCast, Int.toNat_of_nonneg hz]
  · simp only [hz, if_false]
    obtain ⟨m, rfl⟩ : ∃ m : ℕ, z = -(m : ℤ) := ⟨(-z).toNat, by rw [Int.toNat_of_nonneg (by omega)]; ring⟩
    rw [zpow_neg, zpow_natCast]
    simp

/-- the scaled power of ten a table row is the floor of -/
theorem scaledPow10_spec (q e : ℤ) :
    ((C04.scaledPow10 q e : ℕ) : ℚ) ≤ (10 : ℚ) ^ q * 2 ^ e ∧ (10 : ℚ) ^ q * 2 ^ e < ((C04.scaledPow10 q e : ℕ) : ℚ) + 1 := by
  simp only [C04.scaledPow10]
  generalize hnum : ((if q ≥ 0 then 10 ^ q.toNat else 1) * (if e ≥ 0 then 2 ^ e.toNat else 1) : ℕ) = num
  generalize hden : ((if q ≥ 0 then 1 else 10 ^ (-q).toNat) * (if e ≥ 0 then 1 else 2 ^ (-e).toNat) : ℕ) = den
  have hdpos : 0 < den := by
    rw [← hden]
    apply Nat.mul_pos <;> split <;> positivity
  have hval : (10 : ℚ) ^ q * 2 ^ e = (num : ℚ) / den := by
    rw [zpow_split 10 (by norm_num) q, zpow_split 2 (by norm_num) e, ← hnum, ← hden]
    push_cast
    by_cases hq : q ≥ 0 <;> by_cases he : e ≥ 0 <;> simp only [hq, he, if_true, if_false] <;> field_simp
  have hdQ : (0 : ℚ) < den := by exact_mod_cast hdpos
  rw [hval]
  have hdm := Nat.div_add_mod num den
  have hr := Nat.mod_lt num hdpos
  have hdmQ : (num : ℚ) = den * ((num / den : ℕ) : ℚ) + ((num % den : ℕ) : ℚ) := by
    have h2 : ((den * (num / den) + num % den : ℕ) : ℚ) = (num : ℚ) := by exact_mod_cast congrArg (Nat.cast (R := ℚ)) hdm
    push_cast at h2; linarith
  have hrQ : ((num % den : ℕ) : ℚ) < den := by exact_mod_cast hr
  have hr0 : (0 : ℚ) ≤ ((num % den : ℕ) : ℚ) := by positivity
  constructor
  · rw [le_div_iff₀ hdQ]; nlinarith
  · rw [div_lt_iff₀ hdQ]; nlinarith

/-- normalising the mantissa -/
theorem normalize_man (man : ℕ) (h0 : man ≠ 0) (h64 : man < 2 ^ 64) :
    clz64 man = 63 - Nat.log2 man ∧ Nat.log2 man ≤ 63 ∧ (man <<< clz64 man) % two64 = man * 2 ^ (63 - Nat.log2 man) ∧
      2 ^ 63 ≤ man * 2 ^ (63 - Nat.log2 man) ∧ man * 2 ^ (63 - Nat.log2 man) < 2 ^ 64 := by
  have hL : Nat.log2 man ≤ 63 := by
    have := (Nat.log2_lt h0 (k := 64)).mpr h64
    omega
  have hc : clz64 man = 63 - Nat.log2 man := by
    have : (man == 0) = false := by simpa using h0
    simp [clz64, this]
  have h1 := Nat.log2_self_le h0
  have h2 := Nat.lt_log2_self (n := man)
  have hp : 2 ^ Nat.log2 man * 2 ^ (63 - Nat.log2 man) = 2 ^ 63 := by
    rw [← Nat.pow_add]; congr 1; omega
  have hp2 : 2 ^ (Nat.log2 man + 1) * 2 ^ (63 - Nat.log2 man) = 2 ^ 64 := by
    rw [← Nat.pow_add]; congr 1; omega
  have hlo : 2 ^ 63 ≤ man * 2 ^ (63 - Nat.log2 man) := by
    rw [← hp]; exact Nat.mul_le_mul_right _ h1
  have hhi : man * 2 ^ (63 - Nat.log2 man) < 2 ^ 64 := by
    rw [← hp2]; exact Nat.mul_lt_mul_of_pos_right h2 (by positivity)
  refine ⟨hc, hL, ?_, hlo, hhi⟩
  rw [hc, Nat.shiftLeft_eq]
  exact Nat.mod_eq_of_lt hhi

/-- `roundDec` away from its two shortcuts is `roundRat` of `man · 10^q` -/
theorem roundDec_eq (neg : Bool) (man : ℕ) (q : ℤ) (h0 : man ≠ 0) (hq1 : q ≤ 400) (hq2 : -400 ≤ q + (Nat.log2 man : ℤ) + 1) :
    ∃ n d : ℕ, n ≠ 0 ∧ d ≠ 0 ∧ roundDec neg man q = roundRat neg n d ∧ (n : ℚ) / d = (man : ℚ) * 10 ^ q := by
  have hm0 : (man == 0) = false := by simpa using h0
  have c1 : ¬ q > 400 := by omega
  have c2 : ¬ q + (Nat.log2 man : ℤ) + 1 < -400 := by omega
  by_cases hq : q ≥ 0
  · refine ⟨man * 10 ^ q.toNat, 1, ?_, by omega, ?_, ?_⟩
    · exact Nat.mul_ne_zero h0 (by positivity)
    · simp only [roundDec, hm0, Bool.false_eq_true, if_false, c1, c2, pow10Rat, hq, if_true]
    · push_cast
      rw [zpow_split 10 (by norm_num) q]
      simp [hq]
  · refine ⟨man * 1, 10 ^ (-q).toNat, ?_, by positivity, ?_, ?_⟩
    · simpa using h0
    · simp only [roundDec, hm0, Bool.false_eq_true, if_false, c1, c2, pow10Rat, hq]
    · push_cast
      rw [zpow_split 10 (by norm_num) q]
      simp [hq]
      ring

theorem pow10Row_bounds (i : ℕ) : (pow10Row i).1 < 2 ^ 64 ∧ (pow10Row i).2 < 2 ^ 64 ∧
    C04.rowValue i = (pow10Row i).2 * 2 ^ 64 + (pow10Row i).1 := by
  simp only [pow10Row, C04.rowValue, two64]
  refine ⟨Nat.mod_lt _ (by norm_num), ?_, by norm_num⟩
  have : (Gen.pow10Tab >>> (128 * i)) % 2 ^ 128 < 2 ^ 128 := Nat.mod_lt _ (by positivity)
  omega

set_option maxRecDepth 100000 in
/-- **Eisel-Lemire is correctly rounded whenever it answers** -/
theorem eisel_correct (man : ℕ) (q : ℤ) (neg : Bool) (bits : ℕ) (hman : man < 2 ^ 64)
    (h : eiselLemire64 man q neg = some bits) : roundDec neg man q = (bits, false) := by
  by_cases h0 : man = 0
  · subst h0
    simp only [eiselLemire64, beq_self_eq_true, if_true] at h
    injection h with h
    simp [roundDec, h]
  · have hm0 : (man == 0) = false := by simpa using h0
    obtain ⟨_, hmin, hmax⟩ := C04.el_table_rows
    simp only [eiselLemire64, hm0, Bool.false_eq_true, if_false, hmin, hmax] at h
    by_cases hrange : (decide (q < -348) || decide (347 < q)) = true
    · rw [hrange] at h; simp only [if_true] at h; cases h
    · simp only [hrange, Bool.false_eq_true, if_false] at h
      have hq1 : -348 ≤ q := by
        by_contra hh
        apply hrange
        have : q < -348 := by omega
        simp [this]
      have hq2 : q ≤ 347 := by
        by_contra hh
        apply hrange
        have : 347 < q := by omega
        simp [this]
      obtain ⟨hclz, hL, hw, hw63, hw64⟩ := normalize_man man h0 hman
      -- the table row
      obtain ⟨idx, hidx, hidxlt, hqi⟩ : ∃ idx : ℕ, (q - -348).toNat = idx ∧ idx < 696 ∧ (idx : ℤ) - 348 = q :=
        ⟨(q - -348).toNat, rfl, by omega, by omega⟩
      rw [hidx, hw] at h
      obtain ⟨hT127, hT128, hTval⟩ := C04.el_row_exact idx hidxlt
      obtain ⟨hlo, hhi, hrow⟩ := pow10Row_bounds idx
      rw [hqi] at hTval
      generalize hrl : (pow10Row idx).1 = rowLo at h hlo hrow
      generalize hrh : (pow10Row idx).2 = rowHi at h hhi hrow
      have hhi63 : 2 ^ 63 ≤ rowHi := by
        rw [hrow] at hT127
        simp only [Nat.reducePow] at hT127 hlo ⊢
        omega
      generalize hwdef : man * 2 ^ (63 - Nat.log2 man) = w at h hw63 hw64
      cases hm : elMerged w rowLo rowHi with
      | none => rw [hm] at h; cases h
      | some pr =>
        obtain ⟨hi, lo⟩ := pr
        rw [hm] at h
        simp only [] at h
        obtain ⟨hhi64, hlo64, hhi62, hZ, hU⟩ := elMerged_spec w rowLo rowHi hi lo hw63 hw64 hlo hhi hhi63 hm
        rw [← hrow] at hZ hU
        -- the value
        obtain ⟨n, d, hn, hd, hrd, hval⟩ := roundDec_eq neg man q h0 (by omega) (by omega)
        rw [hrd]
        -- the exponent arithmetic
        have hk : (217706 * q) >>> 16 = C04.k2 q := by
          rw [Int.shiftRight_eq_div_pow]; simp [C04.k2]
        rw [hk, hclz] at h
        generalize hkk : C04.k2 q = k at h hTval
        have hkb : -1200 ≤ k ∧ k ≤ 1200 := by
          rw [← hkk]; simp only [C04.k2]; omega
        have ht : k + 64 + 1023 - ((63 - Nat.log2 man : ℕ) : ℤ) = k + 1087 - (63 - Nat.log2 man : ℕ) := by ring
        rw [ht] at h
        apply elFinish_correct neg n d hn hd hi lo (k + 1087 - ((63 - Nat.log2 man : ℕ) : ℤ)) bits hhi62 hhi64 (by omega) (by omega) ?_ ?_ h
        all_goals
          -- common facts: P = w · 10^q · 2^(127-k), V = P · 2^(k - 127 - clz)
          have hc := scaledPow10_spec q (127 - k)
          rw [← hTval] at hc
          obtain ⟨hc1, hc2⟩ := hc
          have hwQ : (0 : ℚ) < w := by
            have : 0 < w := by simp only [Nat.reducePow] at hw63; omega
            exact_mod_cast this
          have hZq : (((hi * 2 ^ 64 + lo) * 2 ^ 64 : ℕ) : ℚ) ≤ ((w * C04.rowValue idx : ℕ) : ℚ) := by exact_mod_cast hZ
          have hUq : ((w * C04.rowValue idx + w : ℕ) : ℚ) ≤ (((hi / 512 + 1) * 2 ^ 137 : ℕ) : ℚ) := by exact_mod_cast hU
          push_cast at hZq hUq
          have hmanw : (man : ℚ) = (w : ℚ) * 2 ^ (-((63 - Nat.log2 man : ℕ) : ℤ)) := by
            rw [← hwdef]; push_cast
            rw [zpow_neg, zpow_natCast]
            field_simp
          have hE : (2 : ℚ) ^ (k + 1087 - ((63 - Nat.log2 man : ℕ) : ℤ) - 1077) =
              2 ^ (137 : ℤ) * (2 ^ (-(127 - k)) * 2 ^ (-((63 - Nat.log2 man : ℕ) : ℤ))) := by
            rw [← zpow_add₀ (by norm_num), ← zpow_add₀ (by norm_num)]
            congr 1; ring
          have hV : (n : ℚ) / d = ((w : ℚ) * ((10 : ℚ) ^ q * 2 ^ (127 - k))) * (2 ^ (-(127 - k)) * 2 ^ (-((63 - Nat.log2 man : ℕ) : ℤ))) := by
            rw [hval, hmanw]
            have : (2 : ℚ) ^ (127 - k) * 2 ^ (-(127 - k)) = 1 := by
              rw [← zpow_add₀ (by norm_num)]; simp
            calc (w : ℚ) * 2 ^ (-((63 - Nat.log2 man : ℕ) : ℤ)) * 10 ^ q
                = (w : ℚ) * 10 ^ q * ((2 : ℚ) ^ (127 - k) * 2 ^ (-(127 - k))) * 2 ^ (-((63 - Nat.log2 man : ℕ) : ℤ)) := by
                  rw [this]; ring
              _ = _ := by ring
          have hSpos : (0 : ℚ) < 2 ^ (-(127 - k)) * 2 ^ (-((63 - Nat.log2 man : ℕ) : ℤ)) := by positivity
          generalize hS : (2 : ℚ) ^ (-(127 - k)) * 2 ^ (-((63 - Nat.log2 man : ℕ) : ℤ)) = S at hE hV hSpos
          generalize hcc : (10 : ℚ) ^ q * 2 ^ (127 - k) = c at hc1 hc2 hV
          have hP1 : ((hi / 512 : ℕ) : ℚ) * 2 ^ (137 : ℤ) ≤ (w : ℚ) * c := by
            have h512 : ((hi / 512 : ℕ) : ℚ) * 512 ≤ (hi : ℚ) := by
              have : hi / 512 * 512 ≤ hi := Nat.div_mul_le_self hi 512
              exact_mod_cast this
            have hlo0 : (0 : ℚ) ≤ (lo : ℚ) := by positivity
            have : (w : ℚ) * (C04.rowValue idx : ℚ) ≤ (w : ℚ) * c := mul_le_mul_of_nonneg_left hc1 hwQ.le
            have e137 : (2 : ℚ) ^ (137 : ℤ) = 512 * (2 ^ 64 * 2 ^ 64) := by norm_num
            rw [e137]
            nlinarith
          have hP2 : (w : ℚ) * c < (((hi / 512 : ℕ) : ℚ) + 1) * 2 ^ (137 : ℤ) := by
            have : (w : ℚ) * c < (w : ℚ) * ((C04.rowValue idx : ℚ) + 1) := mul_lt_mul_of_pos_left hc2 hwQ
            have e137 : (2 : ℚ) ^ (137 : ℤ) = 2 ^ 137 := by norm_num
            rw [e137]
            linarith
        · -- the quotient
          constructor
          · rw [hE, hV]
            calc ((hi / 512 : ℕ) : ℚ) * (2 ^ (137 : ℤ) * S) = (((hi / 512 : ℕ) : ℚ) * 2 ^ (137 : ℤ)) * S := by ring
              _ ≤ ((w : ℚ) * c) * S := mul_le_mul_of_nonneg_right hP1 hSpos.le
          · rw [hE, hV]
            calc ((w : ℚ) * c) * S < ((((hi / 512 : ℕ) : ℚ) + 1) * 2 ^ (137 : ℤ)) * S := mul_lt_mul_of_pos_right hP2 hSpos
              _ = (((hi / 512 : ℕ) : ℚ) + 1) * (2 ^ (137 : ℤ) * S) := by ring
        · -- an exactly representable value shows in the low bits
          intro hex
          rw [hE, hV] at hex
          have hPe : (w : ℚ) * c = ((hi / 512 : ℕ) : ℚ) * 2 ^ (137 : ℤ) := by
            have : ((w : ℚ) * c) * S = (((hi / 512 : ℕ) : ℚ) * 2 ^ (137 : ℤ)) * S := by rw [hex]; ring
            exact mul_right_cancel₀ hSpos.ne' this
          -- (hi·2^64 + lo)·2^64 ≤ w·T ≤ P = (hi/512)·2^137
          have hchain : (((hi * 2 ^ 64 + lo) * 2 ^ 64 : ℕ) : ℚ) ≤ (((hi / 512) * 2 ^ 137 : ℕ) : ℚ) := by
            have : (w : ℚ) * (C04.rowValue idx : ℚ) ≤ (w : ℚ) * c := mul_le_mul_of_nonneg_left hc1 hwQ.le
            have e137 : (2 : ℚ) ^ (137 : ℤ) = 2 ^ 137 := by norm_num
            rw [e137] at hPe
            push_cast
            linarith
          have hchainN : (hi * 2 ^ 64 + lo) * 2 ^ 64 ≤ (hi / 512) * 2 ^ 137 := by exact_mod_cast hchain
          simp only [Nat.reducePow] at hchainN
          omega

end RJson.EL
