import RJson.Proofs.RoundRat
import RJson.Props.C04Tables
/-!
# The Eisel-Lemire step of `ParseJSONFloatPrefix` is correctly rounded whenever it answers

`eiselLemire64 man q neg = some bits` (hand model of `eisel_lemire.go` over the *regenerated* 128-bit table) implies
`bits` is the binary64 nearest to `man · 10^q` (ties to even): `Spec.roundDec neg man q`.  The argument is the
interval argument of the algorithm's authors, made exact with the kernel-checked fact that every table row is the
floor of the scaled power of ten (`C04.el_row_exact`).
-/
namespace RJson.EL
open RJson.Spec RJson.FP RJson.RoundRat

/-! ## linear arithmetic of the 128-bit approximation (`B = 2^64`) -/

theorem wide_core (hi lo yLo w : ℕ) (hlo : lo < 18446744073709551616) (hyLo : yLo < 18446744073709551616)
    (hw : w < 18446744073709551616)
    (hfail : ¬ (hi % 512 = 511 ∧ lo + 1 = 18446744073709551616 ∧ yLo + w ≥ 18446744073709551616)) :
    (hi * 18446744073709551616 + lo) * 18446744073709551616 + yLo + w ≤ (hi / 512 + 1) * 174224571863520493293247799005065324265472 := by
  omega

theorem narrow_core (hi lo Y w : ℕ) (hlo : lo < 18446744073709551616) (hY : Y + w ≤ w * 18446744073709551616)
    (hw : w < 18446744073709551616) (hn : ¬ (hi % 512 = 511 ∧ lo + w ≥ 18446744073709551616)) :
    (hi * 18446744073709551616 + lo) * 18446744073709551616 + Y + w ≤ (hi / 512 + 1) * 174224571863520493293247799005065324265472 := by
  omega

theorem merge_carry (X Y xHi xLo yHi yLo hi lo : ℕ) (hx : X = xHi * 18446744073709551616 + xLo)
    (hy : Y = yHi * 18446744073709551616 + yLo) (hxlo : xLo < 18446744073709551616) (hyH : yHi < 18446744073709551616)
    (hc : (xLo + yHi) % 18446744073709551616 < xLo)
    (hT : X * 18446744073709551616 + Y < 18446744073709551616 * 340282366920938463463374607431768211456)
    (h1 : (xHi + 1) % 18446744073709551616 = hi) (h2 : (xLo + yHi) % 18446744073709551616 = lo) :
    hi = xHi + 1 ∧ (hi * 18446744073709551616 + lo) * 18446744073709551616 + yLo = X * 18446744073709551616 + Y := by
  omega

theorem merge_nocarry (X Y xHi xLo yHi yLo lo : ℕ) (hx : X = xHi * 18446744073709551616 + xLo)
    (hy : Y = yHi * 18446744073709551616 + yLo) (hxlo : xLo < 18446744073709551616) (hyH : yHi < 18446744073709551616)
    (hc : ¬ (xLo + yHi) % 18446744073709551616 < xLo) (h2 : (xLo + yHi) % 18446744073709551616 = lo) :
    (xHi * 18446744073709551616 + lo) * 18446744073709551616 + yLo = X * 18446744073709551616 + Y := by
  omega

theorem hi_bounds (hi lo R xHi : ℕ) (hle : xHi ≤ hi) (h62 : 4611686018427387904 ≤ xHi)
    (hZ : (hi * 18446744073709551616 + lo) * 18446744073709551616 ≤ R)
    (hR : R < 18446744073709551616 * 340282366920938463463374607431768211456) :
    hi < 18446744073709551616 ∧ 4611686018427387904 ≤ hi := by
  omega

theorem finish_core (hi lo yL X Y w xHi : ℕ) (hle : xHi ≤ hi) (h62 : 4611686018427387904 ≤ xHi)
    (hl : lo < 18446744073709551616)
    (hT : X * 18446744073709551616 + Y < 18446744073709551616 * 340282366920938463463374607431768211456)
    (hZ : (hi * 18446744073709551616 + lo) * 18446744073709551616 + yL = X * 18446744073709551616 + Y)
    (hU : (hi * 18446744073709551616 + lo) * 18446744073709551616 + yL + w ≤ (hi / 512 + 1) * 174224571863520493293247799005065324265472) :
    hi < 18446744073709551616 ∧ lo < 18446744073709551616 ∧ 4611686018427387904 ≤ hi ∧
      (hi * 18446744073709551616 + lo) * 18446744073709551616 ≤ X * 18446744073709551616 + Y ∧
      X * 18446744073709551616 + Y + w ≤ (hi / 512 + 1) * 174224571863520493293247799005065324265472 := by
  have h1 : (hi * 18446744073709551616 + lo) * 18446744073709551616 ≤ X * 18446744073709551616 + Y := Nat.le.intro hZ
  obtain ⟨b1, b2⟩ := hi_bounds hi lo (X * 18446744073709551616 + Y) xHi hle h62 h1 hT
  have h2 : X * 18446744073709551616 + Y + w ≤ (hi / 512 + 1) * 174224571863520493293247799005065324265472 := by
    rw [← hZ]; exact hU
  exact ⟨b1, hl, b2, h1, h2⟩

/-- what the merged approximation guarantees (`T = rowHi·2^64 + rowLo`, the full product is `w·T`) -/
theorem elMerged_spec (w rowLo rowHi hi lo : ℕ) (hw : 2^63 ≤ w) (hw' : w < 2^64) (hlo : rowLo < 2^64) (hhi : rowHi < 2^64)
    (hhi63 : 2^63 ≤ rowHi) (h : elMerged w rowLo rowHi = some (hi, lo)) :
    hi < 2^64 ∧ lo < 2^64 ∧ 2^62 ≤ hi ∧ (hi * 2^64 + lo) * 2^64 ≤ w * (rowHi * 2^64 + rowLo) ∧
      w * (rowHi * 2^64 + rowLo) + w ≤ (hi / 512 + 1) * 2^137 := by
  simp only [Nat.reducePow] at hw hw' hlo hhi hhi63 ⊢
  have h64 : two64 = 18446744073709551616 := rfl
  have hx : w * rowHi = (w * rowHi / 18446744073709551616) * 18446744073709551616 + (w * rowHi) % 18446744073709551616 := by
    have := Nat.div_add_mod (w * rowHi) 18446744073709551616; rw [Nat.mul_comm] at this; exact this.symm
  have hy : w * rowLo = (w * rowLo / 18446744073709551616) * 18446744073709551616 + (w * rowLo) % 18446744073709551616 := by
    have := Nat.div_add_mod (w * rowLo) 18446744073709551616; rw [Nat.mul_comm] at this; exact this.symm
  have hxlo : (w * rowHi) % 18446744073709551616 < 18446744073709551616 := Nat.mod_lt _ (by omega)
  have hylo : (w * rowLo) % 18446744073709551616 < 18446744073709551616 := Nat.mod_lt _ (by omega)
  have hxlb : 9223372036854775808 * 9223372036854775808 ≤ w * rowHi := Nat.mul_le_mul hw hhi63
  have hyub : w * rowLo + w ≤ w * 18446744073709551616 := by
    have : w * rowLo + w = w * (rowLo + 1) := by ring
    rw [this]; exact Nat.mul_le_mul_left w (by omega)
  have hfull : w * (rowHi * 18446744073709551616 + rowLo) = (w * rowHi) * 18446744073709551616 + w * rowLo := by ring
  have hTub : (w * rowHi) * 18446744073709551616 + w * rowLo < 18446744073709551616 * 340282366920938463463374607431768211456 := by
    rw [← hfull]; exact Nat.mul_lt_mul'' hw' (by omega)
  simp only [elMerged, h64] at h
  rw [hfull]
  generalize hX : w * rowHi = X at *
  generalize hY : w * rowLo = Y at *
  generalize hxh : X / 18446744073709551616 = xHi at *
  generalize hxl : X % 18446744073709551616 = xLo at *
  generalize hyh : Y / 18446744073709551616 = yHi at *
  generalize hyl : Y % 18446744073709551616 = yLo at *
  have hxHi62 : 4611686018427387904 ≤ xHi := by omega
  have hyH : yHi < 18446744073709551616 := by omega
  have finish : ∀ (yL : ℕ), xHi ≤ hi → lo < 18446744073709551616 →
      (hi * 18446744073709551616 + lo) * 18446744073709551616 + yL = X * 18446744073709551616 + Y →
      (hi * 18446744073709551616 + lo) * 18446744073709551616 + yL + w ≤ (hi / 512 + 1) * 174224571863520493293247799005065324265472 →
      hi < 18446744073709551616 ∧ lo < 18446744073709551616 ∧ 4611686018427387904 ≤ hi ∧
        (hi * 18446744073709551616 + lo) * 18446744073709551616 ≤ X * 18446744073709551616 + Y ∧
        X * 18446744073709551616 + Y + w ≤ (hi / 512 + 1) * 174224571863520493293247799005065324265472 :=
    fun yL hle hl hZ hU => finish_core hi lo yL X Y w xHi hle hxHi62 hl hTub hZ hU
  by_cases h511 : xHi % 512 = 511
  · by_cases hov : (xLo + w) % 18446744073709551616 < w
    · -- wide
      have hwide : (xHi % 512 == 511 && decide ((xLo + w) % 18446744073709551616 < w)) = true := by
        rw [beq_iff_eq.mpr h511, decide_eq_true hov]; rfl
      simp only [hwide, if_true] at h
      by_cases hc : (xLo + yHi) % 18446744073709551616 < xLo
      · simp only [hc, if_true] at h
        by_cases hf : ((xHi + 1) % 18446744073709551616 % 512 == 511 && ((xLo + yHi) % 18446744073709551616 + 1) % 18446744073709551616 == 0 &&
            decide ((yLo + w) % 18446744073709551616 < w)) = true
        · rw [hf] at h; simp only [if_true] at h; cases h
        · simp only [hf, Bool.false_eq_true, if_false] at h
          injection h with h; injection h with h1 h2
          obtain ⟨e1, e2⟩ := merge_carry X Y xHi xLo yHi yLo hi lo hx hy hxlo hyH hc hTub h1 h2
          have hl : lo < 18446744073709551616 := by rw [← h2]; exact Nat.mod_lt _ (by omega)
          refine finish yLo (by omega) hl e2 (wide_core hi lo yLo w hl hylo hw' ?_)
          rintro ⟨a, b, c⟩
          apply hf
          rw [h1, h2, beq_iff_eq.mpr a]
          have : (lo + 1) % 18446744073709551616 = 0 := by omega
          rw [beq_iff_eq.mpr this]
          have : (yLo + w) % 18446744073709551616 < w := by omega
          rw [decide_eq_true this]; rfl
      · simp only [hc, if_false] at h
        by_cases hf : (xHi % 512 == 511 && ((xLo + yHi) % 18446744073709551616 + 1) % 18446744073709551616 == 0 &&
            decide ((yLo + w) % 18446744073709551616 < w)) = true
        · rw [hf] at h; simp only [if_true] at h; cases h
        · simp only [hf, Bool.false_eq_true, if_false] at h
          injection h with h; injection h with h1 h2
          have e2 := merge_nocarry X Y xHi xLo yHi yLo lo hx hy hxlo hyH hc h2
          have hl : lo < 18446744073709551616 := by rw [← h2]; exact Nat.mod_lt _ (by omega)
          subst h1
          refine finish yLo (Nat.le_refl _) hl e2 (wide_core xHi lo yLo w hl hylo hw' ?_)
          rintro ⟨a, b, c⟩
          apply hf
          rw [h2, beq_iff_eq.mpr a]
          have : (lo + 1) % 18446744073709551616 = 0 := by omega
          rw [beq_iff_eq.mpr this]
          have : (yLo + w) % 18446744073709551616 < w := by omega
          rw [decide_eq_true this]; rfl
    · have hwide : (xHi % 512 == 511 && decide ((xLo + w) % 18446744073709551616 < w)) = false := by
        rw [decide_eq_false hov, Bool.and_false]
      simp only [hwide, Bool.false_eq_true, if_false] at h
      injection h with h; injection h with h1 h2
      subst h1 h2
      have hU := narrow_core xHi xLo Y w hxlo hyub hw' (by rintro ⟨_, b⟩; apply hov; omega)
      refine finish Y (Nat.le_refl _) hxlo (by omega) hU
  · have hwide : (xHi % 512 == 511 && decide ((xLo + w) % 18446744073709551616 < w)) = false := by
      rw [beq_eq_false_iff_ne.mpr h511, Bool.false_and]
    simp only [hwide, Bool.false_eq_true, if_false] at h
    injection h with h; injection h with h1 h2
    subst h1 h2
    have hU := narrow_core xHi xLo Y w hxlo hyub hw' (by rintro ⟨a, _⟩; exact h511 a)
    refine finish Y (Nat.le_refl _) hxlo (by omega) hU

end RJson.EL
