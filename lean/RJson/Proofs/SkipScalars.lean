import RJson.Proofs.SkipTokens
import RJson.Proofs.HelpersSpec
/-!
# Literals and numbers of the abstract machines against the scanner
-/
namespace RJson.Abs
open RJson.Ragel RJson.Spec RJson.HelpersSpec

theorem scanLit_nil (l : List UInt8) : scanLit [] l = some l := by
  simp [scanLit]

theorem scanLit_cons_nil (x : UInt8) (rem : List UInt8) : scanLit (x :: rem) [] = none := by
  simp [scanLit, List.isPrefixOf]

theorem scanLit_cons_cons (x : UInt8) (rem : List UInt8) (b : UInt8) (rest : List UInt8) :
    scanLit (x :: rem) (b :: rest) = if b == x then scanLit rem rest else none := by
  simp only [scanLit, List.isPrefixOf, List.length_cons, List.drop_succ_cons]
  by_cases hbx : b = x
  · subst hbx; simp
  · have h1 : (b == x) = false := by simpa using hbx
    have h2 : (x == b) = false := by simpa using (fun h => hbx h.symm)
    simp [h1, h2]

theorem lit_not_final (c : Ctx) (lt : Lit) (i : Nat) : isFinal ⟨c, .tok (.lit lt i)⟩ = false := by
  cases c <;> rfl

/-- a literal's remaining bytes -/
theorem lit_run {τ} (k : Kind) (c : Ctx) (lt : Lit) (data : Bytes) (h : Handler τ) (hsm : Small data) :
    ∀ (rem : List UInt8) (i : Nat), lt.tail.drop i = rem → rem ≠ [] →
      ∀ (l : List UInt8) (fuel p : Nat) (st : List AS) (r : Regs τ), At data p l → r.p = p → l.length + 1 ≤ fuel →
      match scanLit rem l with
      | some rest => Reach (machine k) data h fuel ⟨c, .tok (.lit lt i)⟩ st r rest ⟨c, .after⟩ st
      | none => IsErr (contL (machine k) data h fuel ⟨c, .tok (.lit lt i)⟩ st r) := by
  intro rem
  induction rem with
  | nil => intro i _ hne; exact absurd rfl hne
  | cons x rem' ih =>
    intro i hdrop _ l fuel p st r hat hp hf
    have hi : i < lt.tail.length := by
      apply Nat.lt_of_not_le
      intro hle
      rw [List.drop_eq_nil_of_le hle] at hdrop
      cases hdrop
    rw [List.drop_eq_getElem_cons hi] at hdrop
    injection hdrop with hx hrem
    have hget : lt.tail[i]? = some x := by rw [List.getElem?_eq_getElem hi, hx]
    cases l with
    | nil =>
      rw [scanLit_cons_nil, contL_nil (machine k) data h _ _ _ r p hp hat]
      exact eof_stops k _ data h r (lit_not_final c lt i)
    | cons b rest =>
      rw [scanLit_cons_cons]
      unfold Reach
      rw [contL_cons (machine k) data h _ _ _ r p b rest hp hat]
      obtain ⟨fuel, rfl⟩ : ∃ f, fuel = f + 1 := ⟨fuel - 1, by omega⟩
      obtain ⟨hb, hlt, hat'⟩ := hat.cons_inv
      have hb' : getByte data r.p = some b := by rw [hp]; exact hb
      have hf' : rest.length + 1 ≤ fuel := by simp only [List.length_cons] at hf; omega
      have hstep : (machine k).step ⟨c, .tok (.lit lt i)⟩ b =
          if b == x then (if i + 1 == lt.tail.length then ([], some ⟨c, .after⟩) else ([], some ⟨c, .tok (.lit lt (i + 1))⟩))
          else errTr k c := by
        simp only [machine, step, hget]
      by_cases hbx : (b == x) = true
      · simp only [hbx, if_true] at hstep ⊢
        cases rem' with
        | nil =>
          have hlast : (i + 1 == lt.tail.length) = true := by
            have : (lt.tail.drop (i + 1)).length = 0 := by rw [hrem]; rfl
            simp only [List.length_drop] at this
            simp; omega
          simp only [hlast, if_true] at hstep
          rw [scanLit_nil]
          refine ⟨fuel, p + 1, hat', hf', ?_⟩
          rw [loopL_goto (machine k) data h fuel _ _ st r p b rest hsm hp hat hstep]
        | cons y rem'' =>
          have hlast : (i + 1 == lt.tail.length) = false := by
            have : (lt.tail.drop (i + 1)).length = rem''.length + 1 := by rw [hrem]; rfl
            simp only [List.length_drop] at this
            simp; omega
          simp only [hlast, Bool.false_eq_true, if_false] at hstep
          rw [loopL_goto (machine k) data h fuel _ _ st r p b rest hsm hp hat hstep]
          exact ih (i + 1) hrem (by simp) rest fuel (p + 1) st { r with p := ((p + 1 : Nat) : Int) } hat' rfl hf'
      · have hbx' : (b == x) = false := by simpa using hbx
        simp only [hbx', Bool.false_eq_true, if_false] at hstep ⊢
        exact errTr_stops k c data h fuel _ st r b hb' hstep

/-! ## numbers -/

theorem skipDigits_suffix (l : List UInt8) : skipDigits l <:+ l := by
  induction l with
  | nil => simp [skipDigits]
  | cons b rest ih =>
    simp only [skipDigits]
    split
    · exact List.IsSuffix.trans ih (List.suffix_cons b rest)
    · exact List.suffix_refl _

theorem expTail_suffix (t r : List UInt8) (h : expTail t = some r) : r <:+ t := by
  simp only [expTail] at h
  cases t with
  | nil => simp at h
  | cons s t' =>
    simp only [] at h
    by_cases hs : (s == 43 || s == 45) = true
    · simp only [hs, if_true] at h
      cases t' with
      | nil => simp at h
      | cons d t2 =>
        simp only [] at h
        split at h
        · injection h with h; subst h
          exact List.IsSuffix.trans (skipDigits_suffix t2) (List.IsSuffix.trans (List.suffix_cons d t2) (List.suffix_cons s _))
        · cases h
    · have hs' : (s == 43 || s == 45) = false := by simpa using hs
      simp only [hs', Bool.false_eq_true, if_false] at h
      split at h
      · injection h with h; subst h
        exact List.IsSuffix.trans (skipDigits_suffix t') (List.suffix_cons s t')
      · cases h

theorem scanExp_suffix (l r : List UInt8) (h : scanExp l = some r) : r <:+ l := by
  cases l with
  | nil => simp [scanExp] at h; subst h; exact List.suffix_refl _
  | cons e t =>
    by_cases he : (e == 101 || e == 69) = true
    · rw [scanExp_e e t he] at h
      exact List.IsSuffix.trans (expTail_suffix t r h) (List.suffix_cons e t)
    · have he' : (e == 101 || e == 69) = false := by simpa using he
      rw [scanExp_other e t he'] at h
      injection h with h; subst h; exact List.suffix_refl _

theorem fracTail_suffix (t r : List UInt8) (h : fracTail t = some r) : r <:+ t := by
  simp only [fracTail] at h
  cases t with
  | nil => simp at h
  | cons d t' =>
    simp only [] at h
    split at h
    · exact List.IsSuffix.trans (scanExp_suffix _ r h)
        (List.IsSuffix.trans (skipDigits_suffix t') (List.suffix_cons d t'))
    · cases h

theorem scanFrac_other (b : UInt8) (t : List UInt8) (hb : b ≠ 46) : scanFrac (b :: t) = scanExp (b :: t) := by
  simp only [scanFrac]
  split
  · next heq => injection heq with h1 _; exact absurd h1 hb
  · rfl

theorem scanFrac_nil : scanFrac [] = some [] := by
  simp [scanFrac, scanExp]

/-- two states with the same eof actions and the same transition on the next byte continue alike -/
theorem contL_state_congr {σ τ} (M : PDM σ) (data : Bytes) (h : Handler τ) (fuel : Nat) (s s' : σ) (st : List σ) (r : Regs τ)
    (p : Nat) (l : List UInt8) (hat : At data p l) (hp : r.p = p) (heof : M.eof s = M.eof s')
    (hstep : ∀ b rest, l = b :: rest → M.step s b = M.step s' b) :
    contL M data h fuel s st r = contL M data h fuel s' st r := by
  cases l with
  | nil => rw [contL_nil M data h _ _ _ r p hp hat, contL_nil M data h _ _ _ r p hp hat, heof]
  | cons b rest =>
    rw [contL_cons M data h _ _ _ r p b rest hp hat, contL_cons M data h _ _ _ r p b rest hp hat]
    obtain ⟨hb, _, _⟩ := hat.cons_inv
    cases fuel with
    | zero => simp [loopL]
    | succ fuel =>
      rw [loopL_succ M data h fuel s st r b (by rw [hp]; exact hb), loopL_succ M data h fuel s' st r b (by rw [hp]; exact hb),
        hstep b rest rfl]

theorem num_eof (k : Kind) (c : Ctx) (hc : c ≠ .hTop) (t : Tok) (ht : t = .zero ∨ t = .int) :
    (machine k).eof ⟨c, .tok t⟩ = (machine k).eof ⟨c, .after⟩ := by
  rcases ht with rfl | rfl <;> cases c <;> first | rfl | exact absurd rfl hc

/-- the two helper-scanner actions, uniformly -/
theorem helper_act_run {τ} (k : Kind) (c : Ctx) (data : Bytes) (h : Handler τ) (hsm : Small data)
    (a : SAct) (f : Bytes → Int → Int → Option (Int × Option Err))
    (hexec : ∀ (r : Regs τ), execSimple data (machine k).hasField h a r =
      match f data (wrap64 (r.p + 1)) (data.size : Int) with
      | none => .stop (r.stop .panic r.p)
      | some (p', none) => .cont { r with p := p', err := none }
      | some (p', some e) => .stop ({ r with p := wrap64 (p' + 1), err := some e }).finish)
    (hnh : a.isHandler = false)
    (s : AS) (b : UInt8) (hstep : (machine k).step s b = ([.s a], some ⟨c, .after⟩))
    (rest : List UInt8) (tail : Option (List UInt8))
    (fuel p : Nat) (st : List AS) (r : Regs τ) (hat : At data p (b :: rest)) (hp : r.p = p) (herr : r.err = none)
    (hf : (b :: rest).length + 1 ≤ fuel + 1)
    (hspec : ∃ pr, f data ((p + 1 : Nat) : Int) (data.size : Int) = some pr ∧
      match tail with
      | some rest' => pr = (((data.size - rest'.length - 1 : Nat) : Int), none) ∧ rest'.length < rest.length ∧ rest' <:+ rest
      | none => pr.2 = some .invalidNumber) :
    (∀ rest', tail = some rest' → ∃ (fuel' p' : Nat), At data p' rest' ∧ rest'.length + 1 ≤ fuel' ∧
        loopL (machine k) data h (fuel + 1) s st r = contL (machine k) data h fuel' ⟨c, .after⟩ st { r with p := (p' : Int) }) ∧
    (tail = none → IsErr (loopL (machine k) data h (fuel + 1) s st r)) := by
  obtain ⟨hb, hlt, hat'⟩ := hat.cons_inv
  have hlen := hat'.length
  have hb' : getByte data r.p = some b := by rw [hp]; exact hb
  have hw : wrap64 (r.p + 1) = ((p + 1 : Nat) : Int) := by
    rw [hp, wrap64_id] <;> (unfold Small at hsm; omega)
  obtain ⟨pr, hpr, hm⟩ := hspec
  rw [loopL_succ (machine k) data h fuel s st r b hb', hstep]
  simp only [execActsL, hnh, Bool.false_and, Bool.false_eq_true, if_false, hexec, hw, hpr]
  cases tail with
  | some rest' =>
    refine ⟨?_, (by intro hh; cases hh)⟩
    intro rest'' hh
    injection hh with hh
    subst hh
    simp only [] at hm ⊢
    obtain ⟨rfl, hlt', hsuf⟩ := hm
    simp only [execActsL]
    have hw2 : wrap64 (((data.size - rest'.length - 1 : Nat) : Int) + 1) = ((data.size - rest'.length : Nat) : Int) := by
      rw [wrap64_id] <;> (unfold Small at hsm; omega)
    refine ⟨fuel, data.size - rest'.length, at_of_suffix hat' hsuf, by simp only [List.length_cons] at hf; omega, ?_⟩
    simp only [hw2, contL]
    obtain ⟨rp, rerr, rfs, rfe, rval, rseg, rdst, rhs, rnc⟩ := r
    simp only at herr
    subst herr
    rfl
  | none =>
    refine ⟨(by intro _ hh; cases hh), ?_⟩
    intro _
    simp only [] at hm ⊢
    obtain ⟨pp, pe⟩ := pr
    simp only at hm
    subst hm
    simp only []
    exact finish_err _ _ rfl

theorem not_digit_46 : isDigit 46 = false := by decide
theorem not_digit_e (b : UInt8) (h : (b == 101 || b == 69) = true) : isDigit b = false := by
  have : b = 101 ∨ b = 69 := by simpa using h
  rcases this with rfl | rfl <;> decide
theorem ne46_of_e (b : UInt8) (h : (b == 101 || b == 69) = true) : b ≠ 46 := by
  have : b = 101 ∨ b = 69 := by simpa using h
  rcases this with rfl | rfl <;> decide

/-- in a number state whose integer part is complete: fraction / exponent by the helper scanners, then `after` -/
theorem num_tail_run {τ} (k : Kind) (c : Ctx) (hu : usesHelpers k c = true) (hc : c ≠ .hTop)
    (t : Tok) (ht : t = .zero ∨ t = .int) (data : Bytes) (h : Handler τ) (hsm : Small data)
    (l : List UInt8) (fuel p : Nat) (st : List AS) (r : Regs τ) (hat : At data p l) (hp : r.p = p) (herr : r.err = none)
    (hf : l.length + 1 ≤ fuel) (hnd : t = .int → ∀ b rest, l = b :: rest → isDigit b = false) :
    match scanFrac l with
    | some rest => Reach (machine k) data h fuel ⟨c, .tok t⟩ st r rest ⟨c, .after⟩ st
    | none => IsErr (contL (machine k) data h fuel ⟨c, .tok t⟩ st r) := by
  have hstepgen : ∀ b, (machine k).step ⟨c, .tok t⟩ b =
      if t == .int && isDigit b then ([], some ⟨c, .tok .int⟩)
      else if b == 46 then ([.s .floatDec], some ⟨c, .after⟩)
      else if b == 101 || b == 69 then ([.s .floatExp], some ⟨c, .after⟩)
      else afterTr k c b := by
    intro b
    rcases ht with rfl | rfl <;> simp only [machine, step, hu, if_true]
  cases l with
  | nil =>
    rw [scanFrac_nil]
    refine ⟨fuel, p, hat, hf, ?_⟩
    rw [setp_self r _ hp]
    exact contL_state_congr (machine k) data h fuel _ _ st r p [] hat hp (num_eof k c hc t ht) (by intro b rest hh; cases hh)
  | cons b rest =>
    obtain ⟨hb, hlt, hat'⟩ := hat.cons_inv
    obtain ⟨fuel, rfl⟩ : ∃ f, fuel = f + 1 := ⟨fuel - 1, by omega⟩
    have hnotd : (t == .int && isDigit b) = false := by
      rcases ht with rfl | rfl
      · rfl
      · simp [hnd rfl b rest rfl]
    by_cases h46 : b = 46
    · subst h46
      rw [scanFrac_dot]
      unfold Reach
      rw [contL_cons (machine k) data h _ _ _ r p _ rest hp hat]
      have hstep : (machine k).step ⟨c, .tok t⟩ 46 = ([.s .floatDec], some ⟨c, .after⟩) := by
        rw [hstepgen]; simp [not_digit_46]
      obtain ⟨pr, hpr, hm⟩ := skipFloatDec_spec data (p + 1) rest hat'
      have key := helper_act_run k c data h hsm .floatDec skipFloatDec (fun _ => rfl) rfl _ 46 hstep rest (fracTail rest)
        fuel p st r hat hp herr hf
      cases hft : fracTail rest with
      | none =>
        rw [hft] at hm key
        exact (key ⟨pr, hpr, hm⟩).2 rfl
      | some rest' =>
        rw [hft] at hm key
        exact (key ⟨pr, hpr, hm.1, hm.2, fracTail_suffix rest rest' hft⟩).1 rest' rfl
    · rw [scanFrac_other b rest h46]
      have h46' : (b == 46) = false := by simpa using h46
      by_cases he : (b == 101 || b == 69) = true
      · rw [scanExp_e b rest he]
        unfold Reach
        rw [contL_cons (machine k) data h _ _ _ r p _ rest hp hat]
        have hstep : (machine k).step ⟨c, .tok t⟩ b = ([.s .floatExp], some ⟨c, .after⟩) := by
          rw [hstepgen]; simp only [hnotd, h46', he, Bool.false_eq_true, if_false, if_true]
        obtain ⟨pr, hpr, hm⟩ := skipFloatExp_spec data (p + 1) rest hat'
        have key := helper_act_run k c data h hsm .floatExp skipFloatExp (fun _ => rfl) rfl _ b hstep rest (expTail rest)
          fuel p st r hat hp herr hf
        cases hft : expTail rest with
        | none =>
          rw [hft] at hm key
          exact (key ⟨pr, hpr, hm⟩).2 rfl
        | some rest' =>
          rw [hft] at hm key
          exact (key ⟨pr, hpr, hm.1, hm.2, expTail_suffix rest rest' hft⟩).1 rest' rfl
      · have he' : (b == 101 || b == 69) = false := by simpa using he
        rw [scanExp_other b rest he']
        refine ⟨fuel + 1, p, hat, hf, ?_⟩
        rw [setp_self r _ hp]
        apply contL_state_congr (machine k) data h (fuel + 1) _ _ st r p (b :: rest) hat hp (num_eof k c hc t ht)
        intro b' rest' hh
        injection hh with hh1 _
        subst hh1
        rw [hstepgen]
        simp only [hnotd, h46', he', Bool.false_eq_true, if_false]
        simp only [machine, step]

/-- the digit loop of the integer part, then the tail -/
theorem int_run {τ} (k : Kind) (c : Ctx) (hu : usesHelpers k c = true) (hc : c ≠ .hTop)
    (data : Bytes) (h : Handler τ) (hsm : Small data) :
    ∀ (l : List UInt8) (fuel p : Nat) (st : List AS) (r : Regs τ), At data p l → r.p = p → r.err = none → l.length + 1 ≤ fuel →
    match scanFrac (skipDigits l) with
    | some rest => Reach (machine k) data h fuel ⟨c, .tok .int⟩ st r rest ⟨c, .after⟩ st
    | none => IsErr (contL (machine k) data h fuel ⟨c, .tok .int⟩ st r) := by
  intro l
  induction l with
  | nil =>
    intro fuel p st r hat hp herr hf
    exact num_tail_run k c hu hc .int (.inr rfl) data h hsm [] fuel p st r hat hp herr hf (by intro _ b rest hh; cases hh)
  | cons b rest ih =>
    intro fuel p st r hat hp herr hf
    by_cases hd : isDigit b = true
    · rw [skipDigits_cons_digit b rest hd]
      obtain ⟨hb, hlt, hat'⟩ := hat.cons_inv
      obtain ⟨fuel, rfl⟩ : ∃ f, fuel = f + 1 := ⟨fuel - 1, by omega⟩
      have hstep : (machine k).step ⟨c, .tok .int⟩ b = ([], some ⟨c, .tok .int⟩) := by
        simp [machine, step, hd]
      unfold Reach
      rw [contL_cons (machine k) data h _ _ _ r p _ rest hp hat,
        loopL_goto (machine k) data h fuel _ _ st r p b rest hsm hp hat hstep]
      exact ih fuel (p + 1) st { r with p := ((p + 1 : Nat) : Int) } hat' rfl herr (by simp only [List.length_cons] at hf; omega)
    · have hd' : isDigit b = false := by simpa using hd
      rw [skipDigits_cons_nondigit b rest hd']
      exact num_tail_run k c hu hc .int (.inr rfl) data h hsm (b :: rest) fuel p st r hat hp herr hf
        (by intro _ b' rest' hh; injection hh with h1 _; subst h1; exact hd')

/-! ## numbers in the machines without helper scanners (fraction and exponent states of the DFA) -/

theorem dfa_eof (k : Kind) (c : Ctx) (hc : c ≠ .hTop) (t : Tok) (ht : t = .zero ∨ t = .int ∨ t = .frac ∨ t = .exp) :
    (machine k).eof ⟨c, .tok t⟩ = (machine k).eof ⟨c, .after⟩ := by
  rcases ht with rfl | rfl | rfl | rfl <;> cases c <;> first | rfl | exact absurd rfl hc

/-- exponent digits, then `after` -/
theorem exp_digits_run {τ} (k : Kind) (c : Ctx) (hc : c ≠ .hTop) (data : Bytes) (h : Handler τ) (hsm : Small data) :
    ∀ (l : List UInt8) (fuel p : Nat) (st : List AS) (r : Regs τ), At data p l → r.p = p → l.length + 1 ≤ fuel →
      Reach (machine k) data h fuel ⟨c, .tok .exp⟩ st r (skipDigits l) ⟨c, .after⟩ st := by
  intro l
  induction l with
  | nil =>
    intro fuel p st r hat hp hf
    refine ⟨fuel, p, hat, hf, ?_⟩
    rw [setp_self r _ hp]
    exact contL_state_congr (machine k) data h fuel _ _ st r p [] hat hp (dfa_eof k c hc .exp (by simp)) (by intro b rest hh; cases hh)
  | cons b rest ih =>
    intro fuel p st r hat hp hf
    by_cases hd : isDigit b = true
    · rw [skipDigits_cons_digit b rest hd]
      obtain ⟨hb, hlt, hat'⟩ := hat.cons_inv
      obtain ⟨fuel, rfl⟩ : ∃ f, fuel = f + 1 := ⟨fuel - 1, by omega⟩
      have hstep : (machine k).step ⟨c, .tok .exp⟩ b = ([], some ⟨c, .tok .exp⟩) := by simp [machine, step, hd]
      unfold Reach
      rw [contL_cons (machine k) data h _ _ _ r p _ rest hp hat,
        loopL_goto (machine k) data h fuel _ _ st r p b rest hsm hp hat hstep]
      exact ih fuel (p + 1) st { r with p := ((p + 1 : Nat) : Int) } hat' rfl (by simp only [List.length_cons] at hf; omega)
    · have hd' : isDigit b = false := by simpa using hd
      rw [skipDigits_cons_nondigit b rest hd']
      refine ⟨fuel, p, hat, hf, ?_⟩
      rw [setp_self r _ hp]
      apply contL_state_congr (machine k) data h fuel _ _ st r p (b :: rest) hat hp (dfa_eof k c hc .exp (by simp))
      intro b' rest' hh
      injection hh with h1 _
      subst h1
      simp [machine, step, hd']

theorem expStart_not_final (c : Ctx) : isFinal ⟨c, .tok .expStart⟩ = false := by cases c <;> rfl
theorem expSign_not_final (c : Ctx) : isFinal ⟨c, .tok .expSign⟩ = false := by cases c <;> rfl
theorem fracStart_not_final (c : Ctx) : isFinal ⟨c, .tok .fracStart⟩ = false := by cases c <;> rfl

/-- a digit, then more digits -/
def digitsTail : List UInt8 → Option (List UInt8)
  | d :: t2 => if isDigit d then some (skipDigits t2) else none
  | [] => none

theorem expTail_nil : expTail [] = none := rfl

theorem expTail_sign (s0 : UInt8) (t' : List UInt8) (hs : (s0 == 43 || s0 == 45) = true) :
    expTail (s0 :: t') = digitsTail t' := by
  simp only [expTail, hs, if_true]
  rfl

theorem expTail_nosign (s0 : UInt8) (t' : List UInt8) (hs : (s0 == 43 || s0 == 45) = false) :
    expTail (s0 :: t') = digitsTail (s0 :: t') := by
  simp only [expTail, hs, Bool.false_eq_true, if_false]
  rfl

/-- a digit is required, then exponent digits -/
theorem exp_first_digit_run {τ} (k : Kind) (c : Ctx) (hc : c ≠ .hTop) (data : Bytes) (h : Handler τ) (hsm : Small data)
    (s : AS) (hnf : isFinal s = false)
    (l : List UInt8) (hs : ∀ d t2, l = d :: t2 → (machine k).step s d = if isDigit d then ([], some ⟨c, .tok .exp⟩) else errTr k c)
    (fuel p : Nat) (st : List AS) (r : Regs τ) (hat : At data p l) (hp : r.p = p) (hf : l.length + 1 ≤ fuel) :
    match digitsTail l with
    | some rest => Reach (machine k) data h fuel s st r rest ⟨c, .after⟩ st
    | none => IsErr (contL (machine k) data h fuel s st r) := by
  cases l with
  | nil =>
    simp only [digitsTail]
    rw [contL_nil (machine k) data h _ _ _ r p hp hat]
    exact eof_stops k _ data h r hnf
  | cons d t2 =>
    obtain ⟨hb, hlt, hat'⟩ := hat.cons_inv
    obtain ⟨fuel, rfl⟩ : ∃ f, fuel = f + 1 := ⟨fuel - 1, by omega⟩
    have hs' := hs d t2 rfl
    simp only [digitsTail]
    by_cases hd : isDigit d = true
    · simp only [hd, if_true] at hs' ⊢
      unfold Reach
      rw [contL_cons (machine k) data h _ _ _ r p _ t2 hp hat,
        loopL_goto (machine k) data h fuel _ _ st r p d t2 hsm hp hat hs']
      exact exp_digits_run k c hc data h hsm t2 fuel (p + 1) st _ hat' rfl (by simp only [List.length_cons] at hf; omega)
    · have hd' : isDigit d = false := by simpa using hd
      simp only [hd', Bool.false_eq_true, if_false] at hs' ⊢
      rw [contL_cons (machine k) data h _ _ _ r p _ t2 hp hat]
      exact errTr_stops k c data h fuel _ st r d (by rw [hp]; exact hb) hs'

/-- after `e`: optional sign, digits -/
theorem expStart_run {τ} (k : Kind) (c : Ctx) (hc : c ≠ .hTop) (data : Bytes) (h : Handler τ) (hsm : Small data)
    (l : List UInt8) (fuel p : Nat) (st : List AS) (r : Regs τ) (hat : At data p l) (hp : r.p = p) (hf : l.length + 1 ≤ fuel) :
    match expTail l with
    | some rest => Reach (machine k) data h fuel ⟨c, .tok .expStart⟩ st r rest ⟨c, .after⟩ st
    | none => IsErr (contL (machine k) data h fuel ⟨c, .tok .expStart⟩ st r) := by
  cases l with
  | nil =>
    rw [expTail_nil]
    simp only []
    rw [contL_nil (machine k) data h _ _ _ r p hp hat]
    exact eof_stops k _ data h r (expStart_not_final c)
  | cons s0 t' =>
    obtain ⟨hb, hlt, hat'⟩ := hat.cons_inv
    by_cases hs : (s0 == 43 || s0 == 45) = true
    · obtain ⟨fuel, rfl⟩ : ∃ f, fuel = f + 1 := ⟨fuel - 1, by omega⟩
      have hstep : (machine k).step ⟨c, .tok .expStart⟩ s0 = ([], some ⟨c, .tok .expSign⟩) := by
        simp only [machine, step, hs, if_true]
      have key := exp_first_digit_run k c hc data h hsm ⟨c, .tok .expSign⟩ (expSign_not_final c) t'
        (by intro d t2 _; simp only [machine, step]) fuel (p + 1) st { r with p := ((p + 1 : Nat) : Int) } hat' rfl
        (by simp only [List.length_cons] at hf; omega)
      rw [expTail_sign s0 t' hs]
      unfold Reach at key ⊢
      rw [contL_cons (machine k) data h _ _ _ r p _ t' hp hat,
        loopL_goto (machine k) data h fuel _ _ st r p s0 t' hsm hp hat hstep]
      exact key
    · have hs' : (s0 == 43 || s0 == 45) = false := by simpa using hs
      rw [expTail_nosign s0 t' hs']
      exact exp_first_digit_run k c hc data h hsm ⟨c, .tok .expStart⟩ (expStart_not_final c) (s0 :: t')
        (by intro d t2 hh; injection hh with h1 _; subst h1; simp only [machine, step, hs', Bool.false_eq_true, if_false])
        fuel p st r hat hp hf

/-- fraction digits, optional exponent, then `after` -/
theorem frac_digits_run {τ} (k : Kind) (c : Ctx) (hc : c ≠ .hTop) (data : Bytes) (h : Handler τ) (hsm : Small data) :
    ∀ (l : List UInt8) (fuel p : Nat) (st : List AS) (r : Regs τ), At data p l → r.p = p → l.length + 1 ≤ fuel →
      match scanExp (skipDigits l) with
      | some rest => Reach (machine k) data h fuel ⟨c, .tok .frac⟩ st r rest ⟨c, .after⟩ st
      | none => IsErr (contL (machine k) data h fuel ⟨c, .tok .frac⟩ st r) := by
  intro l
  induction l with
  | nil =>
    intro fuel p st r hat hp hf
    have : scanExp (skipDigits []) = some [] := rfl
    rw [this]
    refine ⟨fuel, p, hat, hf, ?_⟩
    rw [setp_self r _ hp]
    exact contL_state_congr (machine k) data h fuel _ _ st r p [] hat hp (dfa_eof k c hc .frac (by simp)) (by intro b rest hh; cases hh)
  | cons b rest ih =>
    intro fuel p st r hat hp hf
    obtain ⟨hb, hlt, hat'⟩ := hat.cons_inv
    by_cases hd : isDigit b = true
    · rw [skipDigits_cons_digit b rest hd]
      obtain ⟨fuel, rfl⟩ : ∃ f, fuel = f + 1 := ⟨fuel - 1, by omega⟩
      have hstep : (machine k).step ⟨c, .tok .frac⟩ b = ([], some ⟨c, .tok .frac⟩) := by simp [machine, step, hd]
      unfold Reach
      rw [contL_cons (machine k) data h _ _ _ r p _ rest hp hat,
        loopL_goto (machine k) data h fuel _ _ st r p b rest hsm hp hat hstep]
      exact ih fuel (p + 1) st { r with p := ((p + 1 : Nat) : Int) } hat' rfl (by simp only [List.length_cons] at hf; omega)
    · have hd' : isDigit b = false := by simpa using hd
      rw [skipDigits_cons_nondigit b rest hd']
      by_cases he : (b == 101 || b == 69) = true
      · rw [scanExp_e b rest he]
        obtain ⟨fuel, rfl⟩ : ∃ f, fuel = f + 1 := ⟨fuel - 1, by omega⟩
        have hstep : (machine k).step ⟨c, .tok .frac⟩ b = ([], some ⟨c, .tok .expStart⟩) := by
          simp only [machine, step, hd', Bool.false_eq_true, if_false, he, if_true]
        have key := expStart_run k c hc data h hsm rest fuel (p + 1) st { r with p := ((p + 1 : Nat) : Int) } hat' rfl
          (by simp only [List.length_cons] at hf; omega)
        unfold Reach at key ⊢
        rw [contL_cons (machine k) data h _ _ _ r p _ rest hp hat,
          loopL_goto (machine k) data h fuel _ _ st r p b rest hsm hp hat hstep]
        exact key
      · have he' : (b == 101 || b == 69) = false := by simpa using he
        rw [scanExp_other b rest he']
        refine ⟨fuel, p, hat, hf, ?_⟩
        rw [setp_self r _ hp]
        apply contL_state_congr (machine k) data h fuel _ _ st r p (b :: rest) hat hp (dfa_eof k c hc .frac (by simp))
        intro b' rest' hh
        injection hh with h1 _
        subst h1
        simp only [machine, step, hd', Bool.false_eq_true, if_false, he']

/-- the number tail in the machines without helper scanners -/
theorem num_tail_dfa {τ} (k : Kind) (c : Ctx) (hu : usesHelpers k c = false) (hc : c ≠ .hTop)
    (t : Tok) (ht : t = .zero ∨ t = .int) (data : Bytes) (h : Handler τ) (hsm : Small data)
    (l : List UInt8) (fuel p : Nat) (st : List AS) (r : Regs τ) (hat : At data p l) (hp : r.p = p)
    (hf : l.length + 1 ≤ fuel) (hnd : t = .int → ∀ b rest, l = b :: rest → isDigit b = false) :
    match scanFrac l with
    | some rest => Reach (machine k) data h fuel ⟨c, .tok t⟩ st r rest ⟨c, .after⟩ st
    | none => IsErr (contL (machine k) data h fuel ⟨c, .tok t⟩ st r) := by
  have hstepgen : ∀ b, (machine k).step ⟨c, .tok t⟩ b =
      if t == .int && isDigit b then ([], some ⟨c, .tok .int⟩)
      else if b == 46 then ([], some ⟨c, .tok .fracStart⟩)
      else if b == 101 || b == 69 then ([], some ⟨c, .tok .expStart⟩)
      else afterTr k c b := by
    intro b
    rcases ht with rfl | rfl <;> simp only [machine, step, hu, Bool.false_eq_true, if_false]
  have heof : (machine k).eof ⟨c, .tok t⟩ = (machine k).eof ⟨c, .after⟩ :=
    dfa_eof k c hc t (by rcases ht with rfl | rfl <;> simp)
  cases l with
  | nil =>
    rw [scanFrac_nil]
    refine ⟨fuel, p, hat, hf, ?_⟩
    rw [setp_self r _ hp]
    exact contL_state_congr (machine k) data h fuel _ _ st r p [] hat hp heof (by intro b rest hh; cases hh)
  | cons b rest =>
    obtain ⟨hb, hlt, hat'⟩ := hat.cons_inv
    obtain ⟨fuel, rfl⟩ : ∃ f, fuel = f + 1 := ⟨fuel - 1, by omega⟩
    have hf' : rest.length + 1 ≤ fuel := by simp only [List.length_cons] at hf; omega
    have hnotd : (t == .int && isDigit b) = false := by
      rcases ht with rfl | rfl
      · rfl
      · simp [hnd rfl b rest rfl]
    by_cases h46 : b = 46
    · subst h46
      rw [scanFrac_dot]
      have hstep : (machine k).step ⟨c, .tok t⟩ 46 = ([], some ⟨c, .tok .fracStart⟩) := by
        rw [hstepgen]; simp [not_digit_46]
      unfold Reach
      rw [contL_cons (machine k) data h _ _ _ r p _ rest hp hat,
        loopL_goto (machine k) data h fuel _ _ st r p 46 rest hsm hp hat hstep]
      -- fracStart: a digit is required
      cases rest with
      | nil =>
        simp only [fracTail]
        rw [contL_nil (machine k) data h _ _ _ _ (p + 1) rfl hat']
        exact eof_stops k _ data h _ (fracStart_not_final c)
      | cons d t' =>
        obtain ⟨hb2, _, hat''⟩ := hat'.cons_inv
        obtain ⟨fuel, rfl⟩ : ∃ f, fuel = f + 1 := ⟨fuel - 1, by simp only [List.length_cons] at hf'; omega⟩
        simp only [fracTail]
        rw [contL_cons (machine k) data h _ _ _ _ (p + 1) d t' rfl hat']
        by_cases hd : isDigit d = true
        · simp only [hd, if_true]
          have hstep2 : (machine k).step ⟨c, .tok .fracStart⟩ d = ([], some ⟨c, .tok .frac⟩) := by simp [machine, step, hd]
          rw [loopL_goto (machine k) data h fuel _ _ st _ (p + 1) d t' hsm rfl hat' hstep2]
          exact frac_digits_run k c hc data h hsm t' fuel (p + 1 + 1) st _ hat'' rfl (by simp only [List.length_cons] at hf'; omega)
        · have hd' : isDigit d = false := by simpa using hd
          simp only [hd', Bool.false_eq_true, if_false]
          have hstep2 : (machine k).step ⟨c, .tok .fracStart⟩ d = errTr k c := by simp [machine, step, hd']
          exact errTr_stops k c data h fuel _ st _ d hb2 hstep2
    · rw [scanFrac_other b rest h46]
      have h46' : (b == 46) = false := by simpa using h46
      by_cases he : (b == 101 || b == 69) = true
      · rw [scanExp_e b rest he]
        have hstep : (machine k).step ⟨c, .tok t⟩ b = ([], some ⟨c, .tok .expStart⟩) := by
          rw [hstepgen]; simp only [hnotd, h46', he, Bool.false_eq_true, if_false, if_true]
        have key := expStart_run k c hc data h hsm rest fuel (p + 1) st { r with p := ((p + 1 : Nat) : Int) } hat' rfl hf'
        unfold Reach at key ⊢
        rw [contL_cons (machine k) data h _ _ _ r p _ rest hp hat,
          loopL_goto (machine k) data h fuel _ _ st r p b rest hsm hp hat hstep]
        exact key
      · have he' : (b == 101 || b == 69) = false := by simpa using he
        rw [scanExp_other b rest he']
        refine ⟨fuel + 1, p, hat, hf, ?_⟩
        rw [setp_self r _ hp]
        apply contL_state_congr (machine k) data h (fuel + 1) _ _ st r p (b :: rest) hat hp heof
        intro b' rest' hh
        injection hh with hh1 _
        subst hh1
        rw [hstepgen]
        simp only [hnotd, h46', he', Bool.false_eq_true, if_false]
        simp only [machine, step]

/-- the digit loop of the integer part, then the tail (machines without helper scanners) -/
theorem int_run_dfa {τ} (k : Kind) (c : Ctx) (hu : usesHelpers k c = false) (hc : c ≠ .hTop)
    (data : Bytes) (h : Handler τ) (hsm : Small data) :
    ∀ (l : List UInt8) (fuel p : Nat) (st : List AS) (r : Regs τ), At data p l → r.p = p → l.length + 1 ≤ fuel →
    match scanFrac (skipDigits l) with
    | some rest => Reach (machine k) data h fuel ⟨c, .tok .int⟩ st r rest ⟨c, .after⟩ st
    | none => IsErr (contL (machine k) data h fuel ⟨c, .tok .int⟩ st r) := by
  intro l
  induction l with
  | nil =>
    intro fuel p st r hat hp hf
    exact num_tail_dfa k c hu hc .int (.inr rfl) data h hsm [] fuel p st r hat hp hf (by intro _ b rest hh; cases hh)
  | cons b rest ih =>
    intro fuel p st r hat hp hf
    by_cases hd : isDigit b = true
    · rw [skipDigits_cons_digit b rest hd]
      obtain ⟨hb, hlt, hat'⟩ := hat.cons_inv
      obtain ⟨fuel, rfl⟩ : ∃ f, fuel = f + 1 := ⟨fuel - 1, by omega⟩
      have hstep : (machine k).step ⟨c, .tok .int⟩ b = ([], some ⟨c, .tok .int⟩) := by
        simp [machine, step, hd]
      unfold Reach
      rw [contL_cons (machine k) data h _ _ _ r p _ rest hp hat,
        loopL_goto (machine k) data h fuel _ _ st r p b rest hsm hp hat hstep]
      exact ih fuel (p + 1) st { r with p := ((p + 1 : Nat) : Int) } hat' rfl (by simp only [List.length_cons] at hf; omega)
    · have hd' : isDigit b = false := by simpa using hd
      rw [skipDigits_cons_nondigit b rest hd']
      exact num_tail_dfa k c hu hc .int (.inr rfl) data h hsm (b :: rest) fuel p st r hat hp hf
        (by intro _ b' rest' hh; injection hh with h1 _; subst h1; exact hd')

end RJson.Abs
