import RJson.Proofs.ScannerProgress
/-!
# Which bytes the scalar scanners consume

`Pre P l r`: `r` is what is left of `l` after a prefix all of whose bytes satisfy `P`. Numbers consume only
`0-9 + - . e E`, literals only their own letters. Used for the fast skip machine, which steps over everything
that is not a quote or one of its own brackets.
-/
namespace RJson.Spec
open RJson.Abs RJson.HelpersSpec

def Pre (P : UInt8 → Bool) (l r : List UInt8) : Prop := ∃ pre, l = pre ++ r ∧ ∀ b ∈ pre, P b = true

theorem Pre.refl (P : UInt8 → Bool) (l : List UInt8) : Pre P l l := ⟨[], rfl, by simp⟩

theorem Pre.cons {P : UInt8 → Bool} {l r : List UInt8} (b : UInt8) (hb : P b = true) (h : Pre P l r) : Pre P (b :: l) r := by
  obtain ⟨pre, rfl, hp⟩ := h
  exact ⟨b :: pre, rfl, by intro x hx; simp at hx; rcases hx with rfl | hx; exact hb; exact hp x hx⟩

theorem Pre.trans {P : UInt8 → Bool} {l m r : List UInt8} (h1 : Pre P l m) (h2 : Pre P m r) : Pre P l r := by
  obtain ⟨p1, rfl, hp1⟩ := h1
  obtain ⟨p2, rfl, hp2⟩ := h2
  exact ⟨p1 ++ p2, by simp, by intro x hx; simp at hx; rcases hx with hx | hx; exact hp1 x hx; exact hp2 x hx⟩

theorem Pre.mono {P Q : UInt8 → Bool} {l r : List UInt8} (hpq : ∀ b, P b = true → Q b = true) (h : Pre P l r) : Pre Q l r := by
  obtain ⟨pre, rfl, hp⟩ := h
  exact ⟨pre, rfl, fun b hb => hpq b (hp b hb)⟩

def numChar (b : UInt8) : Bool := isDigit b || b == 43 || b == 45 || b == 46 || b == 69 || b == 101

theorem skipWs_pre (l : List UInt8) : Pre isWs l (skipWs l) := by
  induction l with
  | nil => exact Pre.refl _ _
  | cons b rest ih =>
    simp only [skipWs]
    split
    · next hb => exact Pre.cons b hb ih
    · exact Pre.refl _ _

theorem skipDigits_pre (l : List UInt8) : Pre numChar l (skipDigits l) := by
  induction l with
  | nil => exact Pre.refl _ _
  | cons b rest ih =>
    simp only [skipDigits]
    split
    · next hb => exact Pre.cons b (by simp [numChar, hb]) ih
    · exact Pre.refl _ _

theorem digitsTail_pre (l r : List UInt8) (h : digitsTail l = some r) : Pre numChar l r := by
  cases l with
  | nil => simp [digitsTail] at h
  | cons d t =>
    simp only [digitsTail] at h
    split at h
    · next hd => injection h with h; subst h; exact Pre.cons d (by simp [numChar, hd]) (skipDigits_pre t)
    · cases h

theorem expTail_pre (t r : List UInt8) (h : expTail t = some r) : Pre numChar t r := by
  cases t with
  | nil => simp [expTail] at h
  | cons s t' =>
    by_cases hs : (s == 43 || s == 45) = true
    · rw [expTail_sign s t' hs] at h
      have : numChar s = true := by
        have : s = 43 ∨ s = 45 := by simpa using hs
        rcases this with rfl | rfl <;> decide
      exact Pre.cons s this (digitsTail_pre t' r h)
    · rw [expTail_nosign s t' (by simpa using hs)] at h
      exact digitsTail_pre _ r h

theorem scanExp_pre (l r : List UInt8) (h : scanExp l = some r) : Pre numChar l r := by
  cases l with
  | nil => simp [scanExp] at h; subst h; exact Pre.refl _ _
  | cons e t =>
    by_cases he : (e == 101 || e == 69) = true
    · rw [scanExp_e e t he] at h
      have : numChar e = true := by
        have : e = 101 ∨ e = 69 := by simpa using he
        rcases this with rfl | rfl <;> decide
      exact Pre.cons e this (expTail_pre t r h)
    · rw [scanExp_other e t (by simpa using he)] at h
      injection h with h; subst h; exact Pre.refl _ _

theorem fracTail_pre (t r : List UInt8) (h : fracTail t = some r) : Pre numChar t r := by
  cases t with
  | nil => simp [fracTail] at h
  | cons d t' =>
    simp only [fracTail] at h
    split at h
    · next hd => exact Pre.cons d (by simp [numChar, hd]) (Pre.trans (skipDigits_pre t') (scanExp_pre _ r h))
    · cases h

theorem scanFrac_pre (l r : List UInt8) (h : scanFrac l = some r) : Pre numChar l r := by
  cases l with
  | nil => rw [scanFrac_nil] at h; injection h with h; subst h; exact Pre.refl _ _
  | cons b t =>
    by_cases hb : b = 46
    · subst hb
      rw [scanFrac_dot] at h
      exact Pre.cons 46 (by decide) (fracTail_pre t r h)
    · rw [scanFrac_other b t hb] at h
      exact scanExp_pre _ r h

theorem dig19_numChar (d : UInt8) (h : (49 ≤ d && d ≤ 57) = true) : numChar d = true := by
  have hall : allBelow (fun n => !(49 ≤ UInt8.ofNat n && UInt8.ofNat n ≤ 57) || numChar (UInt8.ofNat n)) 256 = true := by decide +kernel
  have := forall_byte (P := fun d => !(49 ≤ d && d ≤ 57) || numChar d) hall d
  simpa [h] using this

theorem scanNum1_pre (l r : List UInt8) (h : scanNum1 l = some r) : Pre numChar l r := by
  cases l with
  | nil => simp [scanNum1] at h
  | cons d t =>
    by_cases hd : d = 48
    · subst hd
      rw [scanNum1_zero] at h
      exact Pre.cons 48 (by decide) (scanFrac_pre t r h)
    · rw [scanNum1_other d t hd] at h
      split at h
      · next h19 => exact Pre.cons d (dig19_numChar d h19) (Pre.trans (skipDigits_pre t) (scanFrac_pre _ r h))
      · cases h

theorem scanNumber_pre (l r : List UInt8) (h : scanNumber l = some r) : Pre numChar l r := by
  cases l with
  | nil => simp [scanNumber, scanNum1] at h
  | cons b t =>
    by_cases hb : b = 45
    · subst hb
      rw [scanNumber_minus] at h
      exact Pre.cons 45 (by decide) (scanNum1_pre t r h)
    · rw [scanNumber_other b t hb] at h
      exact scanNum1_pre _ r h

theorem scanLit_pre (lit l r : List UInt8) (h : scanLit lit l = some r) : Pre (fun b => lit.contains b) l r := by
  induction lit generalizing l with
  | nil => rw [scanLit_nil] at h; injection h with h; subst h; exact Pre.refl _ _
  | cons x rem ih =>
    cases l with
    | nil => rw [scanLit_cons_nil] at h; cases h
    | cons b rest =>
      rw [scanLit_cons_cons] at h
      split at h
      · next hbx =>
        have hbx' : b = x := by simpa using hbx
        subst hbx'
        have := ih rest h
        exact Pre.cons b (by simp) (Pre.mono (by intro c hc; simp only [List.contains_cons, hc, Bool.or_true]) this)
      · cases h

end RJson.Spec
