import RJson.Proofs.SafetyStates
import RJson.Proofs.AllBelow
/-!
# Totality and memory safety of the abstract machines for *arbitrary* handlers — the decidable part

`trOK k s tr` is a syntactic condition on one transition (its action list and target) of machine `k` in state `s`;
`allOK k` says that every transition of every reachable state satisfies it. `allOK k` is decided by the kernel.
`Proofs/SafetyRun.lean` shows that `allOK k` implies: no panic, termination within the fuel, offsets in range.
-/
namespace RJson.Abs
open RJson.Ragel

def statesOf : Kind → List AS
  | .skip => statesSkip
  | .fast => statesFast
  | .harr => statesHarr
  | .hobj => statesHobj

/-- is the state inside a called sub-machine (return-state stack not empty)? -/
def isSub (s : AS) : Bool :=
  match s.ctx with
  | .arr | .obj | .farr | .fobj => true
  | _ => false

/-- class of a state with respect to the key-slice registers `fs`, `fe` of the object handler machine -/
def fcls (s : AS) : Nat :=
  match s.ctx, s.pos with
  | .hObj, .key _ => 1
  | .hObj, .keyClosed => 2
  | .hObj, .afterKey => 3
  | .hObj, .want _ => 3
  | _, _ => 0

/-- states from which a handler may be called -/
def hcap (s : AS) : Bool :=
  s.ctx.handled && (match s.pos with | .want _ => true | _ => false)

def fieldStep (c c' : Nat) : Bool := c' == 0 || (c == 1 && c' == 1) || (c == 1 && c' == 2) || (c == 3 && c' == 3)

def tgtOK (k : Kind) (s n : AS) : Bool := (statesOf k).contains n && (isSub n == isSub s)

def trOK (k : Kind) (s : AS) (tr : Tr) : Bool :=
  match tr.1, tr.2 with
  | [], none => true
  | [], some n => tgtOK k s n && fieldStep (fcls s) (fcls n)
  | [.s (.errReturn _)], _ => true
  | [.s (.setErr _), .s .brk], _ => true
  | [.s .floatDec], some n => tgtOK k s n && fcls n == 0
  | [.s .floatExp], some n => tgtOK k s n && fcls n == 0
  | [.s .fieldStart], some n => tgtOK k s n && fcls n == 1
  | [.s .fieldEnd], some n => tgtOK k s n && fcls s == 2 && fcls n == 3
  | [.s a], some n =>
    (a == handlerSimpleAct k || a == handlerAct k) && !isSub s && hcap s && tgtOK k s n && fcls n == 0 && !hcap n &&
      (k != .hobj || fcls s == 3)
  | [.s a, .call false rs en], _ =>
    a == handlerAct k && !isSub s && hcap s && !isSub rs && isSub en && (statesOf k).contains rs && (statesOf k).contains en &&
      fcls rs == 0 && fcls en == 0 && !hcap en && (k != .hobj || fcls s == 3)
  | [.call _ rs en], _ =>
    (isSub rs == isSub s) && isSub en && (statesOf k).contains rs && (statesOf k).contains en && fcls rs == 0 && fcls en == 0
  | [.ret], _ => isSub s
  | _, _ => false

def stateOK (k : Kind) (s : AS) : Bool := allBelow (fun n => trOK k s (step k s (UInt8.ofNat n))) 256

def allOK (k : Kind) : Bool := (statesOf k).all (stateOK k) && (statesOf k).contains (start k) && !isSub (start k) && fcls (start k) == 0

theorem allOK_skip : allOK .skip = true := by decide +kernel
theorem allOK_fast : allOK .fast = true := by decide +kernel
theorem allOK_harr : allOK .harr = true := by decide +kernel
theorem allOK_hobj : allOK .hobj = true := by decide +kernel

theorem allOK_all (k : Kind) : allOK k = true := by
  cases k
  · exact allOK_skip
  · exact allOK_fast
  · exact allOK_harr
  · exact allOK_hobj

end RJson.Abs
