import RJson.Proofs.TreeSpec
import RJson.Props.C03
/-!
# `ReadValue` / `ReadObject` / `ReadArray` return the value tree of the text (C03)

`Tree.treeOf` (in `TreeSpec.lean`) is the value denoted by the first JSON value of a text, written over the reference
scanner only.  This file proves that whenever the model of the value reader (regenerated `HandleArrayValues` /
`HandleObjectValues` tables driving the hand model of `complex_readers.go`) succeeds, what it returns is that tree.
-/
namespace RJson.Tree
open RJson.Spec RJson.Model RJson.Ragel RJson.Abs RJson.VR

/-- a level of readers returns the tree of what it reads -/
def TreeLevel (rd : Readers) (f : Nat) : Prop :=
  ∀ (depth : Nat) (data : Bytes), Small data →
    ((rd.1 depth data).err = none → (rd.1 depth data).panicked = false → treeOf f data.toList = some (rd.1 depth data).val) ∧
    ((rd.2 depth data).err = none → (rd.2 depth data).panicked = false → treeOf f data.toList = some (rd.2 depth data).val)

/-- `handleMember` on a suffix that starts at the member's first byte -/
theorem handleMember_tree (prev : Readers) (f : Nat) (ht : TreeLevel prev f) (depth : Nat) (suffix : Bytes) (hsm : Small suffix)
    (b : UInt8) (t : List UInt8) (hsuf : suffix.toList = b :: t) (hws : isWs b = false)
    (he : (Model.handleMember prev depth suffix).err = none) (hpk : (Model.handleMember prev depth suffix).panicked = false) :
    treeOf f suffix.toList = some (Model.handleMember prev depth suffix).val := by
  have hnt := C13.nextTokenType_spec suffix
  have hsk : skipWs suffix.toList = b :: t := by rw [hsuf]; exact C05.skipWs_of_not_ws b t hws
  simp only [Model.handleMember] at he hpk ⊢
  rw [hnt] at he hpk ⊢
  simp only [Spec.nextTokenType, hsk] at he hpk ⊢
  have hlen : suffix.toList.length - t.length - 1 = 0 := by rw [hsuf]; simp
  rw [hlen] at he hpk ⊢
  have hsub : Array.extract suffix 0 = suffix := by simp
  rw [hsub] at he hpk ⊢
  by_cases h6 : (Spec.tokenType b == 6) = true
  · simp only [h6, if_true] at he hpk ⊢
    by_cases hd : depth + 1 > Gen.valueReaderMaxDepth
    · simp [hd] at he
    · simp only [hd, if_false] at he hpk ⊢
      exact (ht (depth + 1) suffix hsm).1 he hpk
  · simp only [h6, Bool.false_eq_true, if_false] at he hpk ⊢
    by_cases h8 : (Spec.tokenType b == 8) = true
    · simp only [h8, if_true] at he hpk ⊢
      by_cases hd : depth + 1 > Gen.valueReaderMaxDepth
      · simp [hd] at he
      · simp only [hd, if_false] at he hpk ⊢
        exact (ht (depth + 1) suffix hsm).2 he hpk
    · simp only [h8, Bool.false_eq_true, if_false] at he hpk ⊢
      exact readSimpleValue_tree f suffix hsm b t hsk he hpk

/-! ## what the specification's member lists look like -/

/-- a member: its value text starts (at a value-start byte) where `off` says, and its key is a well-formed string body -/
def MOK (data : List UInt8) (m : Member) : Prop :=
  (∃ b t, data.drop m.off = b :: t ∧ isValueStart b = true) ∧ StrMachine.WFBody m.field ∧ m.field.length ≤ data.length

theorem wfBody_nil : StrMachine.WFBody [] := ⟨[], rfl⟩

theorem mok_of_scan (data v r : List UInt8) (field : List UInt8) (hv : v <:+ data) (hwf : StrMachine.WFBody field)
    (hfl : field.length ≤ data.length) (hsv : scanValue none (2 * v.length + 2) 0 v = some r) :
    MOK data { field := field, off := data.length - v.length } := by
  refine ⟨?_, hwf, hfl⟩
  simp only [drop_of_suffix hv]
  cases v with
  | nil => rw [scanValue_nil] at hsv; cases hsv
  | cons b t => exact ⟨b, t, rfl, value_start_of_scan _ _ _ b t r hsv⟩

theorem arrMembers_mok (data : List UInt8) : ∀ (fuel : Nat) (first : Bool) (l : List UInt8) (acc ms : List Member) (rest : List UInt8),
    l <:+ data → (∀ m ∈ acc, MOK data m) → arrMembers data.length fuel first l acc = some (ms, rest) → ∀ m ∈ ms, MOK data m := by
  intro fuel
  induction fuel with
  | zero => intro first l acc ms rest _ _ h; simp [arrMembers] at h
  | succ fuel ih =>
    intro first l acc ms rest hl hacc h
    simp only [arrMembers] at h
    have hws := List.IsSuffix.trans (skipWs_suffix l) hl
    cases hsk : skipWs l with
    | nil => rw [hsk] at h; simp at h
    | cons b t =>
      rw [hsk] at h hws
      simp only [] at h
      by_cases h93 : (b == 93) = true
      · simp only [h93, if_true] at h
        injection h with h; injection h with h1 _
        intro m hm
        rw [← h1] at hm
        exact hacc m (List.mem_reverse.mp hm)
      · have h93' : (b == 93) = false := by simpa using h93
        simp only [h93', Bool.false_eq_true, if_false] at h
        have core : ∀ (v : List UInt8), v <:+ data →
            (match scanValue none (2 * v.length + 2) 0 v with
              | none => none
              | some r => arrMembers data.length fuel false r ({ field := [], off := data.length - v.length } :: acc)) = some (ms, rest) →
            ∀ m ∈ ms, MOK data m := by
          intro v hv hm
          cases hsv : scanValue none (2 * v.length + 2) 0 v with
          | none => rw [hsv] at hm; cases hm
          | some r =>
            rw [hsv] at hm
            simp only [] at hm
            have hr : r <:+ data := List.IsSuffix.trans ((scan_suffix none _).1 _ _ _ hsv) hv
            refine ih false r _ ms rest hr ?_ hm
            intro m hmem
            rcases List.mem_cons.mp hmem with hmm | hmm
            · rw [hmm]; exact mok_of_scan data v r [] hv wfBody_nil (Nat.zero_le _) hsv
            · exact hacc m hmm
        cases first with
        | true => simp only [if_true] at h; exact core (b :: t) hws h
        | false =>
          simp only [Bool.false_eq_true, if_false] at h
          by_cases h44 : (b == 44) = true
          · simp only [h44, if_true] at h
            exact core (skipWs t) (List.IsSuffix.trans (skipWs_suffix t) (suffix_of_cons_suffix hws)) h
          · have h44' : (b == 44) = false := by simpa using h44
            simp [h44'] at h

theorem objMembers_mok (data : List UInt8) : ∀ (fuel : Nat) (first : Bool) (l : List UInt8) (acc ms : List Member) (rest : List UInt8),
    l <:+ data → (∀ m ∈ acc, MOK data m) → objMembers data.length fuel first l acc = some (ms, rest) → ∀ m ∈ ms, MOK data m := by
  intro fuel
  induction fuel with
  | zero => intro first l acc ms rest _ _ h; simp [objMembers] at h
  | succ fuel ih =>
    intro first l acc ms rest hl hacc h
    rw [objMembers_succ] at h
    have hws := List.IsSuffix.trans (skipWs_suffix l) hl
    cases hsk : skipWs l with
    | nil => rw [hsk] at h; simp at h
    | cons b t =>
      rw [hsk] at h hws
      simp only [] at h
      by_cases h125 : (b == 125) = true
      · simp only [h125, if_true] at h
        injection h with h; injection h with h1 _
        intro m hm
        rw [← h1] at hm
        exact hacc m (List.mem_reverse.mp hm)
      · have h125' : (b == 125) = false := by simpa using h125
        simp only [h125', Bool.false_eq_true, if_false] at h
        have core : ∀ (kl : List UInt8), kl <:+ data → objMemberAt data.length fuel acc kl = some (ms, rest) → ∀ m ∈ ms, MOK data m := by
          intro kl hkl hm
          cases kl with
          | nil => simp [objMemberAt] at hm
          | cons q k =>
            by_cases hq : q = 34
            · subst hq
              simp only [objMemberAt] at hm
              cases hsp : splitString k with
              | none => rw [hsp] at hm; cases hm
              | some pr =>
                obtain ⟨body, r1⟩ := pr
                rw [hsp] at hm
                simp only [] at hm
                obtain ⟨hwf, hkb⟩ := C06.wfBody_of_split k body r1 hsp
                have hr1 : r1 <:+ data := by
                  refine List.IsSuffix.trans ?_ (suffix_of_cons_suffix hkl)
                  rw [hkb]
                  exact ⟨body ++ [34], by simp⟩
                have hw1 := List.IsSuffix.trans (skipWs_suffix r1) hr1
                cases hsk1 : skipWs r1 with
                | nil => rw [hsk1] at hm; simp [colonAt] at hm
                | cons b2 r2 =>
                  rw [hsk1] at hm hw1
                  by_cases h58 : b2 = 58
                  · subst h58
                    simp only [colonAt] at hm
                    have hv : skipWs r2 <:+ data := List.IsSuffix.trans (skipWs_suffix r2) (suffix_of_cons_suffix hw1)
                    cases hsv : scanValue none (2 * (skipWs r2).length + 2) 0 (skipWs r2) with
                    | none => rw [hsv] at hm; cases hm
                    | some r =>
                      rw [hsv] at hm
                      simp only [] at hm
                      have hr : r <:+ data := List.IsSuffix.trans ((scan_suffix none _).1 _ _ _ hsv) hv
                      refine ih false r _ ms rest hr ?_ hm
                      intro m hmem
                      rcases List.mem_cons.mp hmem with hmm | hmm
                      · rw [hmm]; refine mok_of_scan data _ r body hv hwf ?_ hsv
                        have h1 := (suffix_of_cons_suffix hkl).length_le
                        rw [hkb] at h1
                        simp only [List.length_append] at h1
                        omega
                      · exact hacc m hmm
                  · rw [colonAt_other _ _ _ _ b2 r2 h58] at hm; cases hm
            · rw [objMemberAt_other _ _ _ q k hq] at hm; cases hm
        cases first with
        | true => simp only [if_true] at h; exact core (b :: t) hws h
        | false =>
          simp only [Bool.false_eq_true, if_false] at h
          by_cases h44 : (b == 44) = true
          · simp only [h44, if_true] at h
            exact core (skipWs t) (List.IsSuffix.trans (skipWs_suffix t) (suffix_of_cons_suffix hws)) h
          · have h44' : (b == 44) = false := by simpa using h44
            simp [h44'] at h

theorem traverseArray_mok (data : List UInt8) (ms : List Member) (n : Nat) (h : traverseArray data = some (ms, n)) :
    ∀ m ∈ ms, MOK data m := by
  by_cases h91 : ∃ rest, skipWs data = 91 :: rest
  · obtain ⟨rest, hsk⟩ := h91
    rw [C07.traverseArray_91 rest data hsk] at h
    cases hm : arrMembers data.length (data.length + 1) true rest [] with
    | none => rw [hm] at h; cases h
    | some pr =>
      obtain ⟨ms', r⟩ := pr
      rw [hm] at h
      injection h with h; injection h with h1 _
      subst h1
      have hs : rest <:+ data := suffix_of_cons_suffix (by rw [← hsk]; exact skipWs_suffix data)
      exact arrMembers_mok data _ true rest [] ms' r hs (by simp) hm
  · rw [C07.traverseArray_other data (fun rest hh => h91 ⟨rest, hh⟩)] at h
    cases hl : scanLit [110, 117, 108, 108] (skipWs data) with
    | none => rw [hl] at h; cases h
    | some r => rw [hl] at h; injection h with h; injection h with h1 _; subst h1; simp

theorem traverseObject_mok (data : List UInt8) (ms : List Member) (n : Nat) (h : traverseObject data = some (ms, n)) :
    ∀ m ∈ ms, MOK data m := by
  by_cases h123 : ∃ rest, skipWs data = 123 :: rest
  · obtain ⟨rest, hsk⟩ := h123
    rw [C07.traverseObject_123 rest data hsk] at h
    cases hm : objMembers data.length (data.length + 1) true rest [] with
    | none => rw [hm] at h; cases h
    | some pr =>
      obtain ⟨ms', r⟩ := pr
      rw [hm] at h
      injection h with h; injection h with h1 _
      subst h1
      have hs : rest <:+ data := suffix_of_cons_suffix (by rw [← hsk]; exact skipWs_suffix data)
      exact objMembers_mok data _ true rest [] ms' r hs (by simp) hm
  · rw [C07.traverseObject_other data (fun rest hh => h123 ⟨rest, hh⟩)] at h
    cases hl : scanLit [110, 117, 108, 108] (skipWs data) with
    | none => rw [hl] at h; cases h
    | some r => rw [hl] at h; injection h with h; injection h with h1 _; subst h1; simp

/-! ## the key of an object member -/

/-- where the first backslash of a list is -/
theorem findIdx_bs : ∀ (l : List UInt8),
    match l.findIdx? (· == 92) with
    | some i => (∀ b ∈ l.take i, b ≠ 92) ∧ ∃ t, l.drop i = 92 :: t
    | none => ∀ b ∈ l, b ≠ 92 := by
  intro l
  induction l with
  | nil => simp
  | cons x l ih =>
    rw [List.findIdx?_cons]
    by_cases hx : (x == 92) = true
    · simp only [hx, if_true]
      have : x = 92 := by simpa using hx
      subst this
      exact ⟨by simp, l, rfl⟩
    · simp only [hx, Bool.false_eq_true, if_false]
      have hx' : x ≠ 92 := by simpa using hx
      cases hf : l.findIdx? (· == 92) with
      | none =>
        rw [hf] at ih
        simp only [Option.map_none]
        intro b hb
        rcases List.mem_cons.mp hb with h | h
        · rw [h]; exact hx'
        · exact ih b h
      | some i =>
        rw [hf] at ih
        simp only [Option.map_some]
        obtain ⟨h1, t, h2⟩ := ih
        refine ⟨?_, t, by simpa using h2⟩
        intro b hb
        simp only [List.take_succ_cons] at hb
        rcases List.mem_cons.mp hb with h | h
        · rw [h]; exact hx'
        · exact h1 b h

/-- in a well-formed body, what comes before the first backslash is plain and what follows is well-formed -/
theorem wf_plain_prefix : ∀ (pre suf : List UInt8), (∀ b ∈ pre, b ≠ 92) → StrMachine.WFBody (pre ++ suf) →
    (∀ b ∈ pre, StrRead.isPlainB b = true) ∧ StrMachine.WFBody suf := by
  intro pre
  induction pre with
  | nil => intro suf _ h; exact ⟨by simp, h⟩
  | cons x pre ih =>
    intro suf hne hwf
    obtain ⟨X, hX⟩ := hwf
    simp only [List.cons_append, List.append_assoc] at hX
    have h92 : x ≠ 92 := hne x (by simp)
    have h34 : x ≠ 34 := by
      intro hh; subst hh
      simp only [scanStringBody] at hX
      injection hX with hX
      have := congrArg List.length hX
      simp at this
      omega
    rw [scanStringBody_plain x _ h34 h92] at hX
    by_cases hc : x < 32
    · simp [hc] at hX
    · simp only [hc, if_false] at hX
      obtain ⟨h1, h2⟩ := ih suf (fun b hb => hne b (by simp [hb])) ⟨X, by simpa using hX⟩
      refine ⟨?_, h2⟩
      intro b hb
      rcases List.mem_cons.mp hb with h | h
      · rw [h]
        have hle : ¬ x ≤ 0x1f := fun hh => hc ((StrRead.le31_iff_lt32 x).mp hh)
        simp [StrRead.isPlainB, hle, h34, h92]
      · exact h1 b h

/-- **the key `HandleObjectValue` computes** from the raw bytes between a key's quotes is their decoding -/
theorem objKey_spec (field : List UInt8) (hwf : StrMachine.WFBody field) (hlen : field.length < 4611686018427387904) :
    let key : R Bytes :=
      match Model.findBackslash field.toArray with
      | some i => Model.unescapeStringContent (field.toArray.extract i field.toArray.size) (field.toArray.extract 0 i)
      | none => { val := field.toArray, p := 0, err := none }
    key.err = none ∧ key.panicked = false ∧ key.val = (decodeString (field.length + 1) field).toArray := by
  have hf := findIdx_bs field
  simp only [Model.findBackslash, List.findIdx?_toArray]
  cases hi : field.findIdx? (· == 92) with
  | none =>
    rw [hi] at hf
    simp only []
    refine ⟨trivial, trivial, ?_⟩
    have hp := (wf_plain_prefix field [] hf (by simpa using hwf)).1
    have := StrRead.decode_plain_prefix field [] 1 hp
    rw [List.append_nil, Nat.add_comm] at this
    rw [this, StrDecode.decodeString_nil]
    simp
  | some i =>
    rw [hi] at hf
    simp only []
    obtain ⟨hpre, t, hdrop⟩ := hf
    have hsplit : field = field.take i ++ field.drop i := (List.take_append_drop i field).symm
    obtain ⟨hp, hwfs⟩ := wf_plain_prefix (field.take i) (field.drop i) hpre (by rw [← hsplit]; exact hwf)
    have e1 : field.toArray.extract i field.toArray.size = (field.drop i).toArray := by
      apply Array.ext'
      simp only [List.size_toArray, extract_toList, List.toList_toArray]
      exact List.take_of_length_le (by simp)
    have e2 : field.toArray.extract 0 i = (field.take i).toArray := by simp
    rw [e1, e2]
    have hsm : Small (field.drop i).toArray := by
      unfold Small
      simp only [List.size_toArray, List.length_drop]
      omega
    obtain ⟨k1, k2, _, k4⟩ := C06.unescapeStringContent_spec (field.drop i).toArray hsm (field.take i).toArray (by simpa using hwfs)
    refine ⟨k1, k2, ?_⟩
    rw [k4]
    have hd := StrRead.decode_plain_prefix (field.take i) (field.drop i) ((field.drop i).length + 1) hp
    rw [← hsplit] at hd
    have hl : (field.drop i).length + 1 + (field.take i).length = field.length + 1 := by
      have := congrArg List.length hsplit
      simp only [List.length_append] at this
      omega
    rw [hl] at hd
    rw [hd]
    simp

/-! ## the handlers of the value reader, replayed over a member list -/

theorem arrHandler_ok (prev : Readers) (depth : Nat) (hs : ArrHS) (fld s : Bytes)
    (h : (Model.arrHandler prev depth hs fld s).2.2 = none) :
    (Model.handleMember prev depth s).err = none ∧ (Model.handleMember prev depth s).panicked = false ∧
      (Model.arrHandler prev depth hs fld s).1.vals = hs.vals.push (Model.handleMember prev depth s).val := by
  simp only [Model.arrHandler] at h ⊢
  by_cases hpk : (Model.handleMember prev depth s).panicked = true
  · simp [hpk] at h
  · have hpk' : (Model.handleMember prev depth s).panicked = false := by simpa using hpk
    simp only [hpk', Bool.false_eq_true, if_false] at h ⊢
    cases herr : (Model.handleMember prev depth s).err with
    | some e => simp [herr] at h
    | none => simp

theorem objBody_ok (prev : Readers) (depth : Nat) (hs0 : ObjHS) (kr : R Bytes) (s : Bytes)
    (hke : kr.err = none) (hkp : kr.panicked = false)
    (h : (if kr.panicked then (({ hs0 with panicked := true, err := some .other } : ObjHS), (0 : Int), some 1)
      else match kr.err with
      | some e => ({ hs0 with err := some e }, 0, some 1)
      | none =>
        let r := Model.handleMember prev depth s
        if r.panicked then ({ hs0 with panicked := true, err := some .other }, r.p, some 1)
        else match r.err with
        | some e => ({ hs0 with err := some e }, r.p, some 1)
        | none => ({ hs0 with kvs := Model.mapSet hs0.kvs kr.val r.val }, r.p, none)).2.2 = none) :
    (Model.handleMember prev depth s).err = none ∧ (Model.handleMember prev depth s).panicked = false ∧
    (if kr.panicked then (({ hs0 with panicked := true, err := some .other } : ObjHS), (0 : Int), some 1)
      else match kr.err with
      | some e => ({ hs0 with err := some e }, 0, some 1)
      | none =>
        let r := Model.handleMember prev depth s
        if r.panicked then ({ hs0 with panicked := true, err := some .other }, r.p, some 1)
        else match r.err with
        | some e => ({ hs0 with err := some e }, r.p, some 1)
        | none => ({ hs0 with kvs := Model.mapSet hs0.kvs kr.val r.val }, r.p, none)).1.kvs =
      Model.mapSet hs0.kvs kr.val (Model.handleMember prev depth s).val := by
  simp only [hkp, hke, Bool.false_eq_true, if_false] at h ⊢
  by_cases hpk : (Model.handleMember prev depth s).panicked = true
  · simp [hpk] at h
  · have hpk' : (Model.handleMember prev depth s).panicked = false := by simpa using hpk
    simp only [hpk', Bool.false_eq_true, if_false] at h ⊢
    cases herr : (Model.handleMember prev depth s).err with
    | some e => simp [herr] at h
    | none => simp

theorem objHandler_ok (prev : Readers) (depth : Nat) (hs : ObjHS) (field : List UInt8) (s : Bytes)
    (hwf : StrMachine.WFBody field) (hlen : field.length < 4611686018427387904)
    (h : (Model.objHandler prev depth hs field.toArray s).2.2 = none) :
    (Model.handleMember prev depth s).err = none ∧ (Model.handleMember prev depth s).panicked = false ∧
      (Model.objHandler prev depth hs field.toArray s).1.kvs =
        Model.mapSet hs.kvs (decodeString (field.length + 1) field).toArray (Model.handleMember prev depth s).val := by
  obtain ⟨k1, k2, k3⟩ := objKey_spec field hwf hlen
  obtain ⟨a, b, c⟩ := objBody_ok prev depth hs _ s k1 k2 h
  exact ⟨a, b, c.trans (congrArg (fun k => Model.mapSet hs.kvs k (Model.handleMember prev depth s).val) k3)⟩

theorem drop_small (data : List UInt8) (hdl : data.length < 4611686018427387904) (n : Nat) : Small (data.drop n).toArray := by
  unfold Small
  simp only [List.size_toArray, List.length_drop]
  omega

theorem replay_arr (prev : Readers) (f : Nat) (ht : TreeLevel prev f) (depth : Nat) (data : List UInt8)
    (hdl : data.length < 4611686018427387904) :
    ∀ (ms : List Member) (hs : ArrHS) (n : Nat), (∀ m ∈ ms, MOK data m) →
      (replay (Model.arrHandler prev depth) data ms hs n).2.2 = none →
      ∃ vals, ms.mapM (fun m => treeOf f (data.drop m.off)) = some vals ∧
        (replay (Model.arrHandler prev depth) data ms hs n).1.vals = hs.vals ++ vals.toArray := by
  intro ms
  induction ms with
  | nil => intro hs n _ _; exact ⟨[], rfl, by simp [replay]⟩
  | cons m ms ih =>
    intro hs n hmok hr
    simp only [replay] at hr ⊢
    cases hc : (Model.arrHandler prev depth hs m.field.toArray (data.drop m.off).toArray).2.2 with
    | some id => rw [hc] at hr; simp at hr
    | none =>
      rw [hc] at hr
      simp only [] at hr ⊢
      obtain ⟨he, hpk, hv⟩ := arrHandler_ok prev depth hs _ _ hc
      obtain ⟨⟨b, t, hbt, hvs⟩, _⟩ := hmok m (by simp)
      have htree := handleMember_tree prev f ht depth (data.drop m.off).toArray (drop_small data hdl _) b t
        (by simpa using hbt) (C08.not_ws_of_valueStart b hvs) he hpk
      obtain ⟨vals, hvals, hres⟩ := ih _ (n + 1) (fun m' hm' => hmok m' (by simp [hm'])) hr
      refine ⟨(Model.handleMember prev depth (data.drop m.off).toArray).val :: vals, ?_, ?_⟩
      · rw [List.mapM_cons]
        simp only [List.toList_toArray] at htree
        rw [htree, hvals]
        rfl
      · rw [hres, hv]
        simp

theorem replay_obj (prev : Readers) (f : Nat) (ht : TreeLevel prev f) (depth : Nat) (data : List UInt8)
    (hdl : data.length < 4611686018427387904) :
    ∀ (ms : List Member) (hs : ObjHS) (n : Nat), (∀ m ∈ ms, MOK data m) →
      (replay (Model.objHandler prev depth) data ms hs n).2.2 = none →
      ms.foldlM (fun acc m => (treeOf f (data.drop m.off)).map (fun v => Model.mapSet acc (keyOf m) v)) hs.kvs =
        some (replay (Model.objHandler prev depth) data ms hs n).1.kvs := by
  intro ms
  induction ms with
  | nil => intro hs n _ _; simp [replay]
  | cons m ms ih =>
    intro hs n hmok hr
    simp only [replay] at hr ⊢
    cases hc : (Model.objHandler prev depth hs m.field.toArray (data.drop m.off).toArray).2.2 with
    | some id => rw [hc] at hr; simp at hr
    | none =>
      rw [hc] at hr
      simp only [] at hr ⊢
      obtain ⟨⟨b, t, hbt, hvs⟩, hwf, hfl0⟩ := hmok m (by simp)
      have hfl : m.field.length < 4611686018427387904 := by omega
      obtain ⟨he, hpk, hv⟩ := objHandler_ok prev depth hs m.field _ hwf hfl hc
      have htree := handleMember_tree prev f ht depth (data.drop m.off).toArray (drop_small data hdl _) b t
        (by simpa using hbt) (C08.not_ws_of_valueStart b hvs) he hpk
      have := ih _ (n + 1) (fun m' hm' => hmok m' (by simp [hm'])) hr
      rw [List.foldlM_cons]
      simp only [List.toList_toArray] at htree
      rw [htree]
      simp only [Option.map_some, keyOf]
      rw [hv] at this
      exact this

/-! ## one level of containers -/

theorem small_len (data : Bytes) (hsm : Small data) : data.toList.length < 4611686018427387904 := by
  unfold Small at hsm; simpa using hsm

theorem arrReader_tree (prev : Readers) (hprev : LevelOK prev) (f : Nat) (ht : TreeLevel prev f) (depth : Nat) (data : Bytes)
    (hsm : Small data) (he : (Model.arrReader prev depth data).err = none) (hpk : (Model.arrReader prev depth data).panicked = false) :
    treeOf (f + 1) data.toList = some (Model.arrReader prev depth data).val := by
  obtain ⟨rest, hsk⟩ := C03.arrReader_type prev hprev depth data hsm he hpk
  rw [treeOf_arr f _ rest hsk]
  simp only [Model.arrReader] at he hpk ⊢
  have hwb := arrHandler_WB prev hprev depth
  have hag := C07.abs_array_spec _ hwb data hsm #[] ({} : ArrHS)
  rw [← Certs.HandleArrayValues.run_eq] at hag
  have hst := run_herr_state Gen.HandleArrayValues.machine data (Model.arrHandler prev depth) #[] {}
  cases hk : (runL Gen.HandleArrayValues.machine data (Model.arrHandler prev depth) #[] {}).kind with
  | ok =>
    rw [hk] at he
    simp only [] at he ⊢
    cases htr : traverseArray data.toList with
    | none => rw [htr] at hag; exact absurd hk hag
    | some pr =>
      obtain ⟨ms, n⟩ := pr
      rw [htr] at hag
      simp only [C07.Agrees] at hag
      cases hrp : (replay (Model.arrHandler prev depth) data.toList ms {} 0).2.2 with
      | some id => rw [hrp] at hag; rw [hag.1] at hk; cases hk
      | none =>
        rw [hrp] at hag
        obtain ⟨_, _, hhs, _⟩ := hag
        obtain ⟨vals, hvals, hres⟩ := replay_arr prev f ht depth data.toList (small_len data hsm) ms {} 0
          (traverseArray_mok data.toList ms n htr) hrp
        rw [← hhs] at hres
        simp only [hvals, Option.map_some]
        have hv : (runL Gen.HandleArrayValues.machine data (Model.arrHandler prev depth) #[] {}).hs.vals = vals.toArray := by
          rw [hres]; simp
        split
        · next hc => simp [hc] at he
        · rw [hv]
  | err e => rw [hk] at he; simp at he
  | herr id =>
    rw [hk] at he hpk
    simp only [] at he hpk
    obtain ⟨hs0, fl, s0, hid, hhs⟩ := hst id hk
    rcases arrHandler_err_state prev depth hs0 fl s0 id hid with h1 | h1
    · rw [hhs] at he; exact absurd he h1
    · rw [hhs, h1] at hpk; cases hpk
  | panic => rw [hk] at hpk; simp at hpk
  | fuel => rw [hk] at hpk; simp at hpk
  | badDepth => rw [hk] at hpk; simp at hpk

theorem objReader_tree (prev : Readers) (hprev : LevelOK prev) (f : Nat) (ht : TreeLevel prev f) (depth : Nat) (data : Bytes)
    (hsm : Small data) (he : (Model.objReader prev depth data).err = none) (hpk : (Model.objReader prev depth data).panicked = false) :
    treeOf (f + 1) data.toList = some (Model.objReader prev depth data).val := by
  obtain ⟨rest, hsk⟩ := C03.objReader_type prev hprev depth data hsm he hpk
  rw [treeOf_obj f _ rest hsk]
  simp only [Model.objReader] at he hpk ⊢
  have hwb := objHandler_WB prev hprev depth
  have hag := C07.abs_object_spec _ hwb data hsm #[] ({} : ObjHS)
  rw [← Certs.HandleObjectValues.run_eq] at hag
  have hst := run_herr_state Gen.HandleObjectValues.machine data (Model.objHandler prev depth) #[] {}
  cases hk : (runL Gen.HandleObjectValues.machine data (Model.objHandler prev depth) #[] {}).kind with
  | ok =>
    rw [hk] at he
    simp only [] at he ⊢
    cases htr : traverseObject data.toList with
    | none => rw [htr] at hag; exact absurd hk hag
    | some pr =>
      obtain ⟨ms, n⟩ := pr
      rw [htr] at hag
      simp only [C07.Agrees] at hag
      cases hrp : (replay (Model.objHandler prev depth) data.toList ms {} 0).2.2 with
      | some id => rw [hrp] at hag; rw [hag.1] at hk; cases hk
      | none =>
        rw [hrp] at hag
        obtain ⟨_, _, hhs, _⟩ := hag
        have hres := replay_obj prev f ht depth data.toList (small_len data hsm) ms {} 0
          (traverseObject_mok data.toList ms n htr) hrp
        rw [← hhs] at hres
        have h0 : ({} : ObjHS).kvs = #[] := rfl
        rw [h0] at hres
        simp only [hres, Option.map_some]
        split
        · next hc => simp [hc] at he
        · rfl
  | err e => rw [hk] at he; simp at he
  | herr id =>
    rw [hk] at he hpk
    simp only [] at he hpk
    obtain ⟨hs0, fl, s0, hid, hhs⟩ := hst id hk
    rcases objHandler_cases prev depth hs0 fl s0 with ⟨_, h1⟩ | ⟨h2, _⟩
    · rcases h1 with h1 | h1
      · rw [hhs] at he; exact absurd he h1
      · rw [hhs, h1] at hpk; cases hpk
    · rw [h2] at hid; cases hid
  | panic => rw [hk] at hpk; simp at hpk
  | fuel => rw [hk] at hpk; simp at hpk
  | badDepth => rw [hk] at hpk; simp at hpk

/-- every level of readers returns the tree of what it reads -/
theorem readers_tree : ∀ (f : Nat), TreeLevel (Model.readers f) f := by
  intro f
  induction f with
  | zero =>
    intro depth data _
    constructor <;> (intro he hpk; simp [Model.readers] at hpk)
  | succ f ih =>
    intro depth data hsm
    exact ⟨objReader_tree _ (readers_levelOK f) f ih depth data hsm, arrReader_tree _ (readers_levelOK f) f ih depth data hsm⟩

/-! ## the nesting bound of `treeOf` only has to be large enough -/

theorem mapM_mono {α β} (g g' : α → Option β) : ∀ (ms : List α) (xs : List β), (∀ m ∈ ms, ∀ v, g m = some v → g' m = some v) →
    ms.mapM g = some xs → ms.mapM g' = some xs := by
  intro ms
  induction ms with
  | nil => intro xs _ h; simpa using h
  | cons m ms ih =>
    intro xs hg h
    rw [List.mapM_cons] at h ⊢
    cases hm : g m with
    | none => rw [hm] at h; simp at h
    | some v =>
      rw [hm] at h
      rw [hg m (by simp) v hm]
      cases hms : ms.mapM g with
      | none => rw [hms] at h; simp at h
      | some ys =>
        rw [hms] at h
        rw [ih ys (fun m' hm' => hg m' (by simp [hm'])) hms]
        exact h

theorem foldlM_mono {α β} (g g' : β → α → Option β) : ∀ (ms : List α) (init r : β),
    (∀ m ∈ ms, ∀ acc v, g acc m = some v → g' acc m = some v) → ms.foldlM g init = some r → ms.foldlM g' init = some r := by
  intro ms
  induction ms with
  | nil => intro init r _ h; simpa using h
  | cons m ms ih =>
    intro init r hg h
    rw [List.foldlM_cons] at h ⊢
    cases hm : g init m with
    | none => rw [hm] at h; simp at h
    | some v =>
      rw [hm] at h
      rw [hg m (by simp) init v hm]
      exact ih v r (fun m' hm' => hg m' (by simp [hm'])) h

theorem treeOf_mono : ∀ (f : Nat) (data : List UInt8) (v : Model.JVal), treeOf f data = some v → treeOf (f + 1) data = some v := by
  intro f
  induction f with
  | zero =>
    intro data v h
    cases hsk : skipWs data with
    | nil => simp [treeOf, hsk] at h
    | cons b k =>
      by_cases h91 : (b == 91) = true
      · have : b = 91 := by simpa using h91
        subst this
        simp [treeOf, hsk] at h
      · by_cases h123 : (b == 123) = true
        · have : b = 123 := by simpa using h123
          subst this
          simp [treeOf, hsk] at h
        · have h91' : (b == 91) = false := by simpa using h91
          have h123' : (b == 123) = false := by simpa using h123
          rw [treeOf_scalar _ data b k hsk h91' h123'] at h ⊢
          exact h
  | succ f ih =>
    intro data v h
    cases hsk : skipWs data with
    | nil => simp [treeOf, hsk] at h
    | cons b k =>
      by_cases h91 : (b == 91) = true
      · have : b = 91 := by simpa using h91
        subst this
        rw [treeOf_arr f data k hsk] at h
        rw [treeOf_arr (f + 1) data k hsk]
        cases htr : traverseArray data with
        | none => rw [htr] at h; cases h
        | some pr =>
          obtain ⟨ms, n⟩ := pr
          rw [htr] at h
          simp only [] at h ⊢
          cases hm : ms.mapM (fun m => treeOf f (data.drop m.off)) with
          | none => rw [hm] at h; simp at h
          | some xs =>
            rw [hm] at h
            rw [mapM_mono _ (fun m => treeOf (f + 1) (data.drop m.off)) ms xs (fun m _ v hv => ih _ v hv) hm]
            exact h
      · by_cases h123 : (b == 123) = true
        · have : b = 123 := by simpa using h123
          subst this
          rw [treeOf_obj f data k hsk] at h
          rw [treeOf_obj (f + 1) data k hsk]
          cases htr : traverseObject data with
          | none => rw [htr] at h; cases h
          | some pr =>
            obtain ⟨ms, n⟩ := pr
            rw [htr] at h
            simp only [] at h ⊢
            cases hm : ms.foldlM (fun acc m => (treeOf f (data.drop m.off)).map (fun v => Model.mapSet acc (keyOf m) v)) #[] with
            | none => rw [hm] at h; simp at h
            | some kvs =>
              rw [hm] at h
              rw [foldlM_mono _ (fun acc m => (treeOf (f + 1) (data.drop m.off)).map (fun v => Model.mapSet acc (keyOf m) v)) ms #[] kvs ?_ hm]
              · exact h
              · intro m _ acc r hr
                cases ht : treeOf f (data.drop m.off) with
                | none => rw [ht] at hr; simp at hr
                | some tv =>
                  rw [ht] at hr
                  rw [ih _ tv ht]
                  exact hr
        · have h91' : (b == 91) = false := by simpa using h91
          have h123' : (b == 123) = false := by simpa using h123
          rw [treeOf_scalar _ data b k hsk h91' h123'] at h ⊢
          exact h

theorem treeOf_mono_le (f F : Nat) (hle : f ≤ F) (data : List UInt8) (v : Model.JVal) (h : treeOf f data = some v) :
    treeOf F data = some v := by
  induction F with
  | zero => have : f = 0 := by omega
            subst this; exact h
  | succ F ih =>
    by_cases hf : f = F + 1
    · subst hf; exact h
    · exact treeOf_mono F data v (ih (by omega))

/-- leading whitespace of a scalar or of the text of a container does not matter -/
theorem treeOf_ws_scalar (f : Nat) (data : List UInt8) (b : UInt8) (k : List UInt8) (hsk : skipWs data = b :: k)
    (h91 : (b == 91) = false) (h123 : (b == 123) = false) : treeOf f data = treeOf f (skipWs data) := by
  rw [treeOf_scalar f data b k hsk h91 h123, treeOf_scalar f (skipWs data) b k (by rw [C05.skipWs_idem, hsk]) h91 h123]

end RJson.Tree
