import RJson.Model.Ragel
/-!
# Append semantics of the destination register (generic, valid for every machine table)

Running a machine with destination `pre ++ dst` does exactly what running it with `dst` does, with `pre` in
front of the produced bytes: no action reads the destination, every action that writes it appends.
(C16: `ReadStringBytes`, `UnescapeStringContent` return the destination's existing contents followed by
exactly the bytes they produce with an empty destination.)
-/
namespace RJson.Ragel

/-- the second run's registers are the first run's with `pre` in front of the destination -/
def withPre {τ} (pre : Bytes) (r : Regs τ) : Regs τ := { r with dst := pre ++ r.dst }

/-- results: same kind, offset, flag and handler state; destination prefixed (or both reset by an error return) -/
def ResRel {τ} (pre : Bytes) (a b : Result τ) : Prop :=
  b.kind = a.kind ∧ b.p = a.p ∧ b.val = a.val ∧ b.hs = a.hs ∧ b.ncalls = a.ncalls ∧
    (b.dst = pre ++ a.dst ∨ (a.kind ≠ .ok ∧ a.dst = #[] ∧ b.dst = #[]))

def ActRRel {τ} (pre : Bytes) : ActR τ → ActR τ → Prop
  | .cont r, .cont r' => r' = withPre pre r
  | .stop a, .stop b => ResRel pre a b
  | _, _ => False

theorem resRel_stop {τ} (pre : Bytes) (r : Regs τ) (k : Kind) (p : Int) :
    ResRel pre (r.stop k p) ((withPre pre r).stop k p) :=
  ⟨rfl, rfl, rfl, rfl, rfl, .inl rfl⟩

theorem resRel_stop_nil {τ} (pre : Bytes) (r : Regs τ) (e : Err) (p : Int) :
    ResRel pre (r.stop (.err e) p #[]) ((withPre pre r).stop (.err e) p #[]) :=
  ⟨rfl, rfl, rfl, rfl, rfl, .inr ⟨by simp [Regs.stop], rfl, rfl⟩⟩

theorem resRel_finish {τ} (pre : Bytes) (r : Regs τ) : ResRel pre r.finish (withPre pre r).finish :=
  ⟨rfl, rfl, rfl, rfl, rfl, .inl rfl⟩

theorem handlerArgs_withPre {τ} (data : Bytes) (hf : Bool) (flo fhi : GExpr) (pre : Bytes) (r : Regs τ) :
    handlerArgs data hf flo fhi (withPre pre r) = handlerArgs data hf flo fhi r := rfl

theorem execSimple_dst {τ} (data : Bytes) (hf : Bool) (h : Handler τ) (pre : Bytes) (a : SAct) (r : Regs τ) :
    ActRRel pre (execSimple data hf h a r) (execSimple data hf h a (withPre pre r)) := by
  cases a with
  | errReturn e => exact ⟨rfl, rfl, rfl, rfl, rfl, .inr ⟨by simp [Regs.stop], rfl, rfl⟩⟩
  | errReturnByte =>
    simp only [execSimple, withPre]
    split
    · exact resRel_stop pre r _ _
    · exact resRel_stop_nil pre r _ _
  | setErr e => rfl
  | brk => exact resRel_finish pre { r with p := _ }
  | floatDec =>
    simp only [execSimple, withPre]
    split
    · exact resRel_stop pre r _ _
    · rfl
    · exact resRel_finish pre { r with p := _, err := _ }
  | floatExp =>
    simp only [execSimple, withPre]
    split
    · exact resRel_stop pre r _ _
    · rfl
    · exact resRel_finish pre { r with p := _, err := _ }
  | fieldStart => rfl
  | fieldEnd => rfl
  | setBool b => rfl
  | segStart => rfl
  | appendSeg =>
    simp only [execSimple, withPre]
    split
    · exact resRel_stop pre r _ _
    · simp only [ActRRel, withPre, Array.append_assoc]
  | appendByte c =>
    simp only [execSimple, ActRRel, withPre, Array.append_push]
  | unescapeU =>
    simp only [execSimple, withPre]
    by_cases hseg : 0 ≤ r.seg ∧ r.seg ≤ (data.size : Int)
    · simp only [hseg, and_self, if_true]
      have hu : ∀ (d : Bytes), unescapeUnicodeChar data r.seg.toNat (pre ++ d) =
          (pre ++ (unescapeUnicodeChar data r.seg.toNat d).1, (unescapeUnicodeChar data r.seg.toNat d).2.1, (unescapeUnicodeChar data r.seg.toNat d).2.2) := by
        intro d
        simp only [unescapeUnicodeChar]
        split
        · rfl
        · split
          · split <;> simp [Array.append_assoc]
          · simp [Array.append_assoc]
      simp only [hu r.dst]
      generalize unescapeUnicodeChar data r.seg.toNat r.dst = res
      obtain ⟨d', n, ok⟩ := res
      simp only []
      split
      · split
        · exact resRel_stop pre r _ _
        · exact resRel_stop_nil pre r _ _
      · split <;> rfl
    · simp only [hseg, if_false]
      exact resRel_stop pre r _ _
  | handler retP gNeg gNz gRange newP flo fhi =>
    simp only [execSimple, handlerArgs_withPre]
    split
    · exact resRel_stop pre r _ _
    · next f suffix _ =>
      have : (withPre pre r).hs = r.hs := rfl
      rw [this]
      generalize h r.hs f suffix = res
      obtain ⟨hs', pp, e⟩ := res
      simp only []
      cases e with
      | some id => exact ⟨rfl, rfl, rfl, rfl, rfl, .inl rfl⟩
      | none =>
        simp only []
        have henv : ∀ (q : Int), ({ withPre pre r with hs := hs', ncalls := (withPre pre r).ncalls + 1 } : Regs τ).env pp q =
            ({ r with hs := hs', ncalls := r.ncalls + 1 } : Regs τ).env pp q := fun _ => rfl
        simp only [henv]
        split
        · exact ⟨rfl, rfl, rfl, rfl, rfl, .inl rfl⟩
        · split
          · split
            · exact ⟨rfl, rfl, rfl, rfl, rfl, .inl rfl⟩
            · rfl
          · rfl
  | handlerSimple retP flo fhi =>
    simp only [execSimple, handlerArgs_withPre]
    split
    · exact resRel_stop pre r _ _
    · next f suffix _ =>
      have : (withPre pre r).hs = r.hs := rfl
      rw [this]
      generalize h r.hs f suffix = res
      obtain ⟨hs', pp, e⟩ := res
      cases e with
      | some id => exact ⟨rfl, rfl, rfl, rfl, rfl, .inl rfl⟩
      | none => rfl

theorem runEof_dst {τ} (data : Bytes) (hf : Bool) (h : Handler τ) (pre : Bytes) :
    ∀ (acts : List SAct) (r : Regs τ), ResRel pre (runEof data hf h acts r) (runEof data hf h acts (withPre pre r)) := by
  intro acts
  induction acts with
  | nil => intro r; exact resRel_finish pre r
  | cons a rest ih =>
    intro r
    have := execSimple_dst data hf h pre a r
    simp only [runEof]
    generalize execSimple data hf h a r = k1 at this
    generalize execSimple data hf h a (withPre pre r) = k2 at this
    cases k1 <;> cases k2 <;> simp only [ActRRel] at this
    · subst this; exact ih _
    · exact this

def ActsRRel {σ τ} (pre : Bytes) : ActsR σ τ → ActsR σ τ → Prop
  | .stop a, .stop b => ResRel pre a b
  | .next t st r, .next t' st' r' => t' = t ∧ st' = st ∧ r' = withPre pre r
  | _, _ => False

theorem execActsL_dst {σ τ} (M : PDM σ) (data : Bytes) (h : Handler τ) (pre : Bytes) :
    ∀ (acts : List (Act σ)) (tgt : Option σ) (st : List σ) (r : Regs τ),
      ActsRRel pre (execActsL M data h acts tgt st r) (execActsL M data h acts tgt st (withPre pre r)) := by
  intro acts
  induction acts with
  | nil => intro tgt st r; exact ⟨rfl, rfl, rfl⟩
  | cons a rest ih =>
    intro tgt st r
    cases a with
    | s a =>
      simp only [execActsL]
      split
      · exact resRel_stop pre r _ _
      · have := execSimple_dst data M.hasField h pre a r
        generalize execSimple data M.hasField h a r = k1 at this
        generalize execSimple data M.hasField h a (withPre pre r) = k2 at this
        cases k1 <;> cases k2 <;> simp only [ActRRel] at this
        · subst this; exact ih _ _ _
        · exact this
    | call lim rs en =>
      simp only [execActsL]
      split
      · exact resRel_finish pre { r with p := _, err := _ }
      · exact ih _ _ _
    | ret =>
      simp only [execActsL]
      cases st with
      | nil => exact resRel_stop pre r _ _
      | cons top st' => exact ih _ _ _

theorem loopL_dst {σ τ} (M : PDM σ) (data : Bytes) (h : Handler τ) (pre : Bytes) :
    ∀ (fuel : Nat) (cs : σ) (st : List σ) (r : Regs τ),
      ResRel pre (loopL M data h fuel cs st r) (loopL M data h fuel cs st (withPre pre r)) := by
  intro fuel
  induction fuel with
  | zero => intro cs st r; exact resRel_stop pre r _ _
  | succ fuel ih =>
    intro cs st r
    simp only [loopL]
    have hp : (withPre pre r).p = r.p := rfl
    rw [hp]
    cases hgb : getByte data r.p with
    | none => exact resRel_stop pre r _ _
    | some b =>
      simp only []
      have := execActsL_dst M data h pre (M.step cs b).1 (M.step cs b).2 st r
      generalize execActsL M data h (M.step cs b).1 (M.step cs b).2 st r = k1 at this
      generalize execActsL M data h (M.step cs b).1 (M.step cs b).2 st (withPre pre r) = k2 at this
      cases k1 with
      | stop a =>
        cases k2 with
        | stop b => exact this
        | next _ _ _ => exact this.elim
      | next t1 st1 r1 =>
        cases k2 with
        | stop b => exact this.elim
        | next t2 st2 r2 =>
          obtain ⟨rfl, rfl, rfl⟩ := this
          cases t2 with
          | none => exact resRel_finish pre r1
          | some n =>
            simp only []
            have hp2 : (withPre pre r1).p = r1.p := rfl
            rw [hp2]
            split
            · exact runEof_dst data M.hasField h pre _ { r1 with p := _ }
            · exact ih _ _ { r1 with p := _ }

/-- append semantics of every machine: a non-empty destination only puts its contents in front -/
theorem run_dst_prefix {σ τ} (M : PDM σ) (data : Bytes) (h : Handler τ) (pre dst : Bytes) (hs : τ) :
    ResRel pre (runL M data h dst hs) (runL M data h (pre ++ dst) hs) := by
  simp only [runL]
  split
  · exact runEof_dst data M.hasField h pre _ (initRegs dst hs)
  · exact loopL_dst M data h pre _ _ _ (initRegs dst hs)

end RJson.Ragel
