import RJson.Model.FP
/-!
# The multiprecision decimal of `internal/fp` (hand model): digits, value, well-formedness

`dig d i` is the `i`-th decimal digit stored in the byte array, `val d n` the natural number written by the first `n`
digits.  A decimal `a` stands for the rational `val a.d a.nd · 10^(a.dp - a.nd)`.
-/
namespace RJson.Dec
open RJson.FP

def dig (d : Array UInt8) (i : Nat) : Nat := d[i]!.toNat - 48

/-- the number written by the first `n` digits -/
def val (d : Array UInt8) : Nat → Nat
  | 0 => 0
  | n+1 => val d n * 10 + dig d n

/-- digits `0 … n-1` are ASCII digits -/
def DigitsOK (d : Array UInt8) (n : Nat) : Prop := ∀ i, i < n → 48 ≤ d[i]!.toNat ∧ d[i]!.toNat ≤ 57

structure WF (a : Decimal) : Prop where
  size : a.d.size = 800
  nd : a.nd ≤ 800
  digits : DigitsOK a.d a.nd

theorem dig_le9 {d : Array UInt8} {n i : Nat} (h : DigitsOK d n) (hi : i < n) : dig d i ≤ 9 := by
  have := h i hi; unfold dig; omega

theorem val_lt (d : Array UInt8) : ∀ n, DigitsOK d n → val d n < 10 ^ n := by
  intro n
  induction n with
  | zero => intro _; simp [val]
  | succ n ih =>
    intro h
    have h1 := ih (fun i hi => h i (by omega))
    have h2 := dig_le9 h (Nat.lt_succ_self n)
    simp only [val, Nat.pow_succ]
    omega

theorem getElem!_set! (d : Array UInt8) (i j : Nat) (v : UInt8) (hi : i < d.size) :
    (d.set! i v)[j]! = if j = i then v else d[j]! := by
  by_cases hj : j = i
  · subst hj
    simp only [if_true]
    rw [Array.set!_eq_setIfInBounds]
    simp [Array.getElem!_eq_getD, Array.getD_eq_getD_getElem?, Array.getElem?_setIfInBounds_self_of_lt hi]
  · simp only [hj, if_false]
    rw [Array.set!_eq_setIfInBounds]
    simp only [Array.getElem!_eq_getD, Array.getD_eq_getD_getElem?]
    rw [Array.getElem?_setIfInBounds_ne (Ne.symm hj)]

theorem size_set! (d : Array UInt8) (i : Nat) (v : UInt8) : (d.set! i v).size = d.size := by
  rw [Array.set!_eq_setIfInBounds]; simp

theorem dig_set_ne (d : Array UInt8) (i j : Nat) (v : UInt8) (hi : i < d.size) (hj : j ≠ i) : dig (d.set! i v) j = dig d j := by
  unfold dig; rw [getElem!_set! d i j v hi, if_neg hj]

theorem dig_set_self (d : Array UInt8) (i x : Nat) (hi : i < d.size) (hx : x ≤ 9) : dig (d.set! i (UInt8.ofNat (x + 48))) i = x := by
  unfold dig; rw [getElem!_set! d i i _ hi, if_pos rfl]
  have : (UInt8.ofNat (x + 48)).toNat = x + 48 := by
    rw [UInt8.toNat_ofNat']; omega
  omega

theorem byte_set_self (d : Array UInt8) (i x : Nat) (hi : i < d.size) (hx : x ≤ 9) :
    48 ≤ (d.set! i (UInt8.ofNat (x + 48)))[i]!.toNat ∧ (d.set! i (UInt8.ofNat (x + 48)))[i]!.toNat ≤ 57 := by
  rw [getElem!_set! d i i _ hi, if_pos rfl]
  have : (UInt8.ofNat (x + 48)).toNat = x + 48 := by
    rw [UInt8.toNat_ofNat']; omega
  omega

/-- the value of a prefix does not see writes at or beyond its end -/
theorem val_set_ge (d : Array UInt8) (i : Nat) (v : UInt8) (hi : i < d.size) : ∀ n, n ≤ i → val (d.set! i v) n = val d n := by
  intro n
  induction n with
  | zero => intro _; rfl
  | succ n ih =>
    intro hn
    simp only [val]
    rw [ih (by omega), dig_set_ne d i n v hi (by omega)]

end RJson.Dec
