import RJson.Proofs.DecTrack
import RJson.Proofs.DecFloat
/-!
# `floatBits` for every decimal, truncated or not

`floatBits_spec` (DecFloat) needs an exact run. Here the decimal may have lost digits — when the literal was read or in
any shift of the run: it then *stands for* a value `x` in the sense of `DecTrack.Rep`. The rounding step sees the same
integer part and the same side of one half as `x` does, and the `trunc` flag turns the one ambiguous case (the kept
digits say "exactly one half", something non-zero was dropped) into "above one half". So the result is
`Spec.roundRat` of the true value, whatever was dropped on the way.
-/
namespace RJson.Dec
open RJson.FP RJson.Spec RJson.RoundRat

/-- **`RoundedInteger` of a decimal that stands for `x`** on the grid of the half-integers: round-half-even of `x` -/
theorem roundedInteger_rep (a : Decimal) (h : WF a) (htm : Trimmed a) (hdp : a.dp ≤ 19) (x : ℚ) (hr : Rep (-1) x a) :
    ∃ q c, IsQ x 0 q ∧ IsC x 0 q c ∧ a.roundedInteger = roundHalfEven q c := by
  obtain ⟨q, c, hq, hc, hri⟩ := roundedInteger_gen a h htm hdp
  simp only [IsQ, zpow_zero, mul_one] at hq
  cases htr : a.trunc with
  | false =>
    have hfl := hr.flag
    rw [htr] at hfl
    have hnlt : ¬ aval a < x := by
      intro hh
      have : decide (aval a < x) = true := decide_eq_true hh
      rw [this] at hfl; cases hfl
    have hxa : aval a = x := le_antisymm hr.le (not_lt.mp hnlt)
    rw [← hxa]
    refine ⟨q, c, by simp only [IsQ, zpow_zero, mul_one]; exact hq, hc, ?_⟩
    rw [hri]; simp [htr]
  | true =>
    have hfl := hr.flag
    rw [htr] at hfl
    have hlt : aval a < x := by
      by_contra hh
      have : decide (aval a < x) = false := decide_eq_false hh
      rw [this] at hfl; cases hfl
    -- grid points
    have hB1 : Dy (-1) ((q : ℚ) + 1) := ⟨2 * (q + 1), by push_cast; rw [zpow_neg, zpow_one]; ring⟩
    have hBh : Dy (-1) ((q : ℚ) + 1 / 2) := ⟨2 * q + 1, by push_cast; rw [zpow_neg, zpow_one]; ring⟩
    have hx1 : x < (q : ℚ) + 1 := (hr.lt_iff hB1).mp hq.2
    have hqx : IsQ x 0 q := by
      simp only [IsQ, zpow_zero, mul_one]; exact ⟨by linarith, hx1⟩
    rcases hc with ⟨rfl, h1⟩ | ⟨rfl, h1, h2⟩ | ⟨rfl, h1⟩ | ⟨rfl, h1⟩
    · simp only [zpow_zero, mul_one] at h1
      have hxh : x < (q : ℚ) + 1 / 2 := (hr.lt_iff hBh).mp (by rw [h1]; linarith)
      refine ⟨q, 1, hqx, ?_, ?_⟩
      · right; left; simp only [zpow_zero, mul_one]; exact ⟨by first | rfl | trivial, by linarith, hxh⟩
      · rw [hri]; simp [roundHalfEven]
    · simp only [zpow_zero, mul_one] at h1 h2
      have hxh : x < (q : ℚ) + 1 / 2 := (hr.lt_iff hBh).mp h2
      refine ⟨q, 1, hqx, ?_, ?_⟩
      · right; left; simp only [zpow_zero, mul_one]; exact ⟨by first | rfl | trivial, by linarith, hxh⟩
      · rw [hri]; simp [roundHalfEven]
    · simp only [zpow_zero, mul_one] at h1
      refine ⟨q, 3, hqx, ?_, ?_⟩
      · right; right; right; simp only [zpow_zero, mul_one]; exact ⟨by first | rfl | trivial, by linarith⟩
      · rw [hri]; simp [roundHalfEven, htr]
    · simp only [zpow_zero, mul_one] at h1
      refine ⟨q, 3, hqx, ?_, ?_⟩
      · right; right; right; simp only [zpow_zero, mul_one]; exact ⟨by first | rfl | trivial, by linarith⟩
      · rw [hri]; simp [roundHalfEven]

/-- **the rounding part of `floatBits`**, for a decimal that stands for `x = n/d · 2^(52-exp)` -/
theorem finish_rep (a : Decimal) (exp : ℤ) (hg : Good a) (hnd : 1 ≤ a.nd) (x : ℚ) (hr : Rep (-1) x a) (n d : ℕ) (hn : n ≠ 0) (hd : d ≠ 0)
    (hx : (n : ℚ) / d = x * 2 ^ (exp - 52)) (hexp1 : -1022 ≤ exp) (hexp2 : exp ≤ 1023)
    (hlt : x < 2 ^ 53) (hnorm : -1022 < exp → 2 ^ 52 ≤ x) :
    roundRat a.neg n d = a.finish exp := by
  have hdp : a.dp ≤ 19 := by
    by_contra hcon
    have h1 := aval_ge_of_nz a hg.nz hnd
    have h2 : (10 : ℚ) ^ (19 : ℤ) ≤ 10 ^ (a.dp - 1) := zpow_le_zpow_right₀ (by norm_num) (by omega)
    have h3 : (2 : ℚ) ^ 53 < 10 ^ (19 : ℤ) := by norm_num
    have := hr.le
    linarith
  obtain ⟨q, c, hq, hc, hri⟩ := roundedInteger_rep a hg.wf hg.tm hdp x hr
  have hpe := two_zpow_pos (exp - 52)
  simp only [IsQ, zpow_zero, mul_one] at hq
  have hqx : IsQ ((n : ℚ) / d) (exp - 52) q := by
    rw [hx]
    exact ⟨mul_le_mul_of_nonneg_right hq.1 hpe.le, mul_lt_mul_of_pos_right hq.2 hpe⟩
  have hcx : IsC ((n : ℚ) / d) (exp - 52) q c := by
    rw [hx]
    rcases hc with ⟨rfl, h1⟩ | ⟨rfl, h1, h2⟩ | ⟨rfl, h1⟩ | ⟨rfl, h1⟩
    · left; simp only [zpow_zero, mul_one] at h1; exact ⟨rfl, by rw [h1]⟩
    · right; left; simp only [zpow_zero, mul_one] at h1 h2
      exact ⟨rfl, mul_lt_mul_of_pos_right h1 hpe, mul_lt_mul_of_pos_right h2 hpe⟩
    · right; right; left; simp only [zpow_zero, mul_one] at h1; exact ⟨rfl, by rw [h1]⟩
    · right; right; right; simp only [zpow_zero, mul_one] at h1
      exact ⟨rfl, mul_lt_mul_of_pos_right h1 hpe⟩
  have hq53 : q < 2 ^ 53 := by
    have : (q : ℚ) < 2 ^ 53 := lt_of_le_of_lt hq.1 hlt
    exact_mod_cast this
  have hq52 : -1022 < exp → 2 ^ 52 ≤ q := by
    intro hh
    have h1 := hnorm hh
    have : (2 : ℚ) ^ 52 < (q : ℚ) + 1 := lt_of_le_of_lt h1 hq.2
    have h2 : (2 ^ 52 : ℕ) < q + 1 := by exact_mod_cast this
    omega
  exact finish_core a exp n d hn hd q c hri hqx hcx hq53 hq52 hexp1 hexp2

set_option exponentiation.threshold 2000 in
theorem tiny_pow' : (10 : ℚ) ^ (-330 : ℤ) < 2 ^ (-1075 : ℤ) := by
  rw [zpow_neg, zpow_neg]
  apply inv_strictAnti₀ (by positivity)
  norm_num

set_option exponentiation.threshold 2000 in
theorem pow5_276 : (5 : ℚ) ^ (276 : ℕ) < 2 ^ (745 : ℕ) := by norm_num

/-- a decimal of at most 275 leading fraction zeros that is below `2^(e+1)` has `e` not far below `dp` -/
theorem mag_lemma (dp e : ℤ) (h1 : -275 ≤ dp) (h2 : dp ≤ 0) (h : (10 : ℚ) ^ (dp - 1) < 2 ^ (e + 1)) : dp - 746 ≤ e := by
  by_contra hcon
  have hle : (2 : ℚ) ^ (e + 1) ≤ 2 ^ (dp - 746) := zpow_le_zpow_right₀ (by norm_num) (by omega)
  have hlt : (10 : ℚ) ^ (dp - 1) < 2 ^ (dp - 746) := lt_of_lt_of_le h hle
  have hp : (0 : ℚ) < 10 ^ (1 - dp) := by positivity
  have h3 : (10 : ℚ) ^ (dp - 1) * 10 ^ (1 - dp) = 1 := by rw [← zpow_add₀ (by norm_num)]; simp
  have h4 : (1 : ℚ) < 2 ^ (dp - 746) * 10 ^ (1 - dp) := by
    have := mul_lt_mul_of_pos_right hlt hp
    rwa [h3] at this
  have h10 : (10 : ℚ) ^ (1 - dp) = 2 ^ (1 - dp) * 5 ^ (1 - dp) := by rw [← mul_zpow]; norm_num
  have h5 : (2 : ℚ) ^ (dp - 746) * 10 ^ (1 - dp) = 2 ^ (-745 : ℤ) * 5 ^ (1 - dp) := by
    rw [h10, ← mul_assoc, ← zpow_add₀ (by norm_num)]
    congr 2; ring
  have h6 : (5 : ℚ) ^ (1 - dp) ≤ 5 ^ ((276 : ℕ) : ℤ) := zpow_le_zpow_right₀ (by norm_num) (by push_cast; omega)
  rw [zpow_natCast] at h6
  have h7 : (2 : ℚ) ^ (-745 : ℤ) * 2 ^ (745 : ℕ) = 1 := by
    rw [← zpow_natCast, ← zpow_add₀ (by norm_num)]; norm_num
  have hp2 : (0 : ℚ) < 2 ^ (-745 : ℤ) := by positivity
  have : (2 : ℚ) ^ (-745 : ℤ) * 5 ^ (1 - dp) < 1 := by
    calc (2 : ℚ) ^ (-745 : ℤ) * 5 ^ (1 - dp) ≤ 2 ^ (-745 : ℤ) * 5 ^ (276 : ℕ) := mul_le_mul_of_nonneg_left h6 hp2.le
      _ < 2 ^ (-745 : ℤ) * 2 ^ (745 : ℕ) := mul_lt_mul_of_pos_left pow5_276 hp2
      _ = 1 := h7
  rw [h5] at h4
  linarith

theorem scaleDown_stop (fuel : ℕ) (a : Decimal) (exp : ℤ) (h : ¬ a.dp > 0) : scaleDown (fuel + 1) a exp = some (a, exp) := by
  simp only [scaleDown]; rw [if_neg h]

set_option maxRecDepth 10000 in
/-- **`floatBits` on any well-formed decimal in normal form**, exact or cut off after 800 digits (`δ` = what was cut
    off, less than one unit of the 800th digit, the `trunc` flag says whether it is zero): the correctly rounded
    value of `aval a + δ`, with the overflow flag -/
theorem floatBits_all (a : Decimal) (hg : Good0 a) (n d : ℕ) (hd : d ≠ 0) (δ : ℚ) (h0 : 0 ≤ δ) (h1 : δ < 10 ^ (a.dp - 800))
    (hx : (n : ℚ) / d = aval a + δ) (hfl : a.trunc = decide (δ ≠ 0)) (hz : a.nd = 0 → δ = 0) :
    a.floatBits = some (roundRat a.neg n d) := by
  have hdQ : (0 : ℚ) < d := by exact_mod_cast Nat.pos_of_ne_zero hd
  have hm : Gen.fpMantBits = 52 := rfl
  have he : Gen.fpExpBits = 11 := rfl
  have hbi : Gen.fpBias = -1023 := rfl
  have hzero := assemble_eq 0 0 a.neg (by norm_num)
  simp only [Nat.cast_zero, Int.zero_sub, Nat.zero_mul, Nat.add_zero, Nat.zero_mod] at hzero
  have hinf := assemble_eq 0 2047 a.neg (by norm_num)
  have hinfe : ((2047 : ℕ) : ℤ) - 1023 = ((2 ^ 11 : ℕ) : ℤ) - 1 + -1023 := by norm_num
  rw [hinfe] at hinf
  simp only [Nat.zero_mod, Nat.add_zero] at hinf
  by_cases hnd0 : a.nd = 0
  · -- zero
    have hb : (a.nd == 0) = true := by simpa using hnd0
    have hp : a.prepare = some (.early (assemble 0 (-1023) a.neg, false)) := by
      simp only [Decimal.prepare, hm, he, hbi]
      rw [if_pos hb]
    have hn0 : n = 0 := by
      have : aval a = 0 := by simp [aval, hnd0, val]
      rw [this, hz hnd0, add_zero] at hx
      have : (n : ℚ) = 0 := by
        rcases div_eq_zero_iff.mp hx with h | h
        · exact h
        · exact absurd h hdQ.ne'
      exact_mod_cast this
    simp only [Decimal.floatBits, hp, hzero]
    rw [hn0]
    simp [roundRat]
  · have hnd : 1 ≤ a.nd := by omega
    have hb : ¬ ((a.nd == 0) = true) := by simpa using hnd0
    have hage := aval_ge_of_nz a hg.nz hnd
    have hxpos : (0 : ℚ) < (n : ℚ) / d := by
      rw [hx]
      have : (0 : ℚ) < 10 ^ (a.dp - 1) := by positivity
      linarith
    have hn : n ≠ 0 := by
      intro h0; rw [h0] at hxpos; simp at hxpos
    by_cases hhi : a.dp > 310
    · -- obvious overflow
      have hp : a.prepare = some (.early (assemble 0 (((2 ^ 11 : ℕ) : ℤ) - 1 + -1023) a.neg, true)) := by
        simp only [Decimal.prepare, hm, he, hbi]
        rw [if_neg hb, if_pos hhi]
      simp only [Decimal.floatBits, hp, hinf]
      have hle : (10 : ℚ) ^ (310 : ℤ) ≤ 10 ^ (a.dp - 1) := zpow_le_zpow_right₀ (by norm_num) (by omega)
      rw [roundRat_overflow a.neg n d hn hd (by rw [hx]; exact le_trans big_pow (le_trans hle (le_trans hage (by linarith))))]
    · by_cases hlo : a.dp < -330
      · -- obvious underflow
        have hp : a.prepare = some (.early (assemble 0 (-1023) a.neg, false)) := by
          simp only [Decimal.prepare, hm, he, hbi]
          rw [if_neg hb, if_neg hhi, if_pos hlo]
        simp only [Decimal.floatBits, hp, hzero]
        have hlt := aval_lt_pow a hg.wf
        have hle : (10 : ℚ) ^ a.dp ≤ 10 ^ (-331 : ℤ) := zpow_le_zpow_right₀ (by norm_num) (by omega)
        have hle2 : (10 : ℚ) ^ (a.dp - 800) ≤ 10 ^ (-331 : ℤ) := zpow_le_zpow_right₀ (by norm_num) (by omega)
        have h330 : (10 : ℚ) ^ (-331 : ℤ) + 10 ^ (-331 : ℤ) ≤ 10 ^ (-330 : ℤ) := by
          have : (10 : ℚ) ^ (-330 : ℤ) = 10 ^ (-331 : ℤ) * 10 := by
            rw [show (-330 : ℤ) = -331 + 1 by norm_num, zpow_add₀ (by norm_num), zpow_one]
          rw [this]
          have : (0 : ℚ) < 10 ^ (-331 : ℤ) := by positivity
          linarith
        rw [roundRat_zero a.neg n d hn hd (by rw [hx]; have := tiny_pow'; linarith)]
      · -- the scaling ran
        obtain ⟨res, hpr⟩ := prepare_total a hg
        obtain ⟨a1, e1, a2, e2, a3, exp3, hs1, hs2, hs3, hcases⟩ := prepare_cases a hb hhi hlo res hpr
        have hsc := scaled_spec a hg hnd (by omega) a1 e1 hs1 a2 e2 hs2 a3 exp3 hs3
        -- what the totality proofs know about the loops
        have hlt1030 : aval a < 2 ^ (1030 : ℕ) := by
          have h1 := aval_lt_pow a hg.wf
          have h2 : (10 : ℚ) ^ a.dp ≤ 10 ^ (310 : ℤ) := zpow_le_zpow_right₀ (by norm_num) (by omega)
          exact lt_of_lt_of_le h1 (le_trans h2 ten310)
        have halo : (2 : ℚ) ^ (-(1100 : ℕ) : ℤ) ≤ aval a := by
          have h2 : (10 : ℚ) ^ (-331 : ℤ) ≤ 10 ^ (a.dp - 1) := zpow_le_zpow_right₀ (by norm_num) (by omega)
          have h3 := small_pow
          have : ((-(1100 : ℕ) : ℤ)) = (-1100 : ℤ) := by norm_num
          rw [this]; linarith
        obtain ⟨a1', e1', hs1', g1, n1, _, dp1, case1⟩ := scaleDown_total 2000 a 0 1030 hg hnd hlt1030 (by norm_num)
        rw [hs1] at hs1'; injection hs1' with hs1'; injection hs1' with ha1 he1
        subst ha1; subst he1
        have he1lo : 0 ≤ e1 := scaleDown_mono 2000 a 0 a1 e1 hs1
        -- how far the second loop can go
        have hup : ∃ L : ℕ, L ≤ 1100 ∧ (2 : ℚ) ^ (-(L : ℤ)) ≤ aval a1 ∧ ((a1 = a ∧ e1 = 0) ∨ (L = 28 ∧ 0 < a.dp)) := by
          rcases case1 with ⟨c1, c2⟩ | ⟨c1, c2, _⟩
          · exact ⟨1100, le_refl _, by rw [c1]; exact halo, .inl ⟨c1, c2⟩⟩
          · refine ⟨28, by norm_num, by exact_mod_cast c1, .inr ⟨rfl, ?_⟩⟩
            -- the first loop ran, so the decimal point was positive
            by_contra hcon
            have : scaleDown 2000 a 0 = some (a, 0) := scaleDown_stop 1999 a 0 hcon
            rw [hs1] at this; injection this with this; injection this with _ h0
            omega
        obtain ⟨L, hL, hLlo, hLcase⟩ := hup
        obtain ⟨a2', e2', hs2', g2, n2, _, dp2, d2, e2le, e2lo⟩ := scaleUp_total (aval a1) e1 L hLlo (by omega) 2000 a1 e1 0 g1 n1 dp1
          (by omega) (by omega) (by push_cast; omega) (by push_cast; omega)
          (by simp only [sub_self, zpow_zero, mul_one, Nat.mul_zero, pow_zero]; exact le_refl _)
        rw [hs2] at hs2'; injection hs2' with hs2'; injection hs2' with ha2 he2
        subst ha2; subst he2
        have ha2lt : aval a2 < 1 := by
          have := aval_lt_pow a2 g2.wf
          rw [dp2] at this; simpa using this
        have ha2ge : 1 / 2 ≤ aval a2 := aval_ge_half a2 g2.wf n2 dp2 d2
        -- the exponent and the third decimal
        have h3facts : -1022 ≤ exp3 ∧ e2 - 1 ≤ exp3 ∧ aval a3 < 1 ∧ (-1022 < exp3 → 1 / 2 ≤ aval a3) ∧
            ((e2 - 1 < -1022 ∧ exp3 = -1022 ∧ a2.shift (e2 + 1021) = some a3) ∨ (¬ e2 - 1 < -1022 ∧ exp3 = e2 - 1 ∧ a3 = a2)) := by
          by_cases hden : e2 - 1 < -1023 + 1
          · rw [if_pos hden] at hs3
            have hk : -(-1023 + 1 - (e2 - 1)) = e2 + 1021 := by ring
            rw [hk] at hs3
            obtain ⟨b, hb3, _, _, _, hnear⟩ := shift_near a2 g2 n2 (e2 + 1021) (by push_cast at e2lo; omega) (by omega)
            rw [hb3] at hs3
            injection hs3 with hs3; injection hs3 with h31 h32
            subst h31
            have hlt3 : aval b < 1 := by
              have hp : (2 : ℚ) ^ (e2 + 1021) ≤ 1 := by
                have : (2 : ℚ) ^ (e2 + 1021) ≤ 2 ^ (0 : ℤ) := zpow_le_zpow_right₀ (by norm_num) (by omega)
                simpa using this
              have h0 := aval_nonneg a2
              calc aval b ≤ aval a2 * 2 ^ (e2 + 1021) := hnear.1
                _ ≤ aval a2 * 1 := mul_le_mul_of_nonneg_left hp h0
                _ < 1 := by linarith
            exact ⟨by omega, by omega, hlt3, fun hh => by omega, .inl ⟨by omega, by omega, hb3⟩⟩
          · rw [if_neg hden] at hs3
            injection hs3 with hs3; injection hs3 with h31 h32
            subst h31
            exact ⟨by omega, by omega, ha2lt, fun _ => ha2ge, .inr ⟨by omega, by omega, rfl⟩⟩
        obtain ⟨hexp3lo, hexp3e2, ha3lt, ha3ge, h3case⟩ := h3facts
        -- the grid
        have hC1 : a.dp - 800 ≤ exp3 - 53 - e1 := by
          rcases hLcase with ⟨c1, c2⟩ | ⟨c1, c2⟩
          · -- the first loop did not run: the size of the value bounds the exponent
            subst c1
            by_cases hsmall : a1.dp ≤ -275
            · omega
            · have hnear := scaleUp_near 2000 a1 e1 a2 e2 g1 n1 hs2
              have hhalf := (hnear.half (aval_nonneg a2) (by push_cast at e2lo; omega)).2
              have hlt2 : aval a1 * 2 ^ (e1 - e2) < 2 := by linarith
              have hmag : (10 : ℚ) ^ (a1.dp - 1) < 2 ^ (e2 + 1) := by
                have hp : (0 : ℚ) < 2 ^ (e1 - e2) := by positivity
                have h2 : (2 : ℚ) ^ (e2 + 1) * 2 ^ (e1 - e2) = 2 := by
                  rw [← zpow_add₀ (by norm_num), c2]
                  have : e2 + 1 + (0 - e2) = 1 := by ring
                  rw [this, zpow_one]
                have h1 : (10 : ℚ) ^ (a1.dp - 1) * 2 ^ (e1 - e2) < 2 ^ (e2 + 1) * 2 ^ (e1 - e2) := by
                  rw [h2]
                  exact lt_of_le_of_lt (mul_le_mul_of_nonneg_right hage hp.le) hlt2
                exact lt_of_mul_lt_mul_right h1 hp.le
              have := mag_lemma a1.dp e2 (by omega) dp1 hmag
              omega
          · subst c1
            push_cast at e2lo
            omega
        -- the representation, stage by stage
        have hr0 : Rep (exp3 - 53) ((n : ℚ) / d) a := rep_of_delta (exp3 - 53) a hg.wf _ δ h0 h1 hx hfl (by omega) (by omega)
        have hr1 := scaleDown_rep 2000 (exp3 - 53) ((n : ℚ) / d) a 0 a1 e1 hg hnd hs1 hr0 (by omega) (by omega)
        have hdp1' : a1.dp - 800 ≤ exp3 - 53 - (e1 - 0) := by
          rcases hLcase with ⟨c1, _⟩ | ⟨_, c2⟩
          · rw [c1]; omega
          · omega
        have hr2 := scaleUp_rep 2000 _ _ a1 e1 a2 e2 g1 n1 hs2 hr1 hdp1'
        have hr3 : Rep (-54) ((n : ℚ) / d * 2 ^ (-(exp3 + 1))) a3 := by
          rcases h3case with ⟨c1, c2, c3⟩ | ⟨c1, c2, c3⟩
          · obtain ⟨b, hb3, hrb, _⟩ := shift_rep _ _ a2 g2 n2 (e2 + 1021) (by push_cast at e2lo; omega) (by omega) hr2 (by omega) (by omega)
              (by omega) (by omega)
            rw [c3] at hb3; injection hb3 with hb3; subst hb3
            have e1' : exp3 - 53 - (e1 - 0) + (e1 - e2) + (e2 + 1021) = -54 := by omega
            have e2' : (n : ℚ) / d * 2 ^ (-(e1 - 0)) * 2 ^ (e1 - e2) * 2 ^ (e2 + 1021) = (n : ℚ) / d * 2 ^ (-(exp3 + 1)) := by
              rw [mul_assoc, ← zpow_add₀ (by norm_num), mul_assoc, ← zpow_add₀ (by norm_num)]
              congr 2; omega
            rw [e1', e2'] at hrb
            exact hrb
          · subst c3
            have e1' : exp3 - 53 - (e1 - 0) + (e1 - e2) = -54 := by omega
            have e2' : (n : ℚ) / d * 2 ^ (-(e1 - 0)) * 2 ^ (e1 - e2) = (n : ℚ) / d * 2 ^ (-(exp3 + 1)) := by
              rw [mul_assoc, ← zpow_add₀ (by norm_num)]
              congr 2; omega
            rw [e1', e2'] at hr2
            exact hr2
        generalize hx3 : (n : ℚ) / d * 2 ^ (-(exp3 + 1)) = x3 at hr3
        have hXx3 : (n : ℚ) / d = x3 * 2 ^ (exp3 + 1) := by
          rw [← hx3, mul_assoc, ← zpow_add₀ (by norm_num)]; simp
        have hx3lt : x3 < 1 := by
          have hB : Dy (-54) 1 := ⟨2 ^ 54, by norm_num⟩
          exact (hr3.lt_iff hB).mp ha3lt
        have hx3ge : -1022 < exp3 → 1 / 2 ≤ x3 := fun hh => le_trans (ha3ge hh) hr3.le
        rcases hcases with ⟨hov, hres⟩ | ⟨hnov, a4, h4, hres⟩
        · -- the exponent is too large
          subst hres
          have hexp : (1024 : ℤ) ≤ exp3 := by
            have : ((2 ^ 11 : ℕ) : ℤ) = 2048 := by norm_num
            omega
          have hhalf := hx3ge (by omega)
          simp only [Decimal.floatBits, hpr, he, hbi]
          rw [hsc.neg, hinf]
          have hpow : (2 : ℚ) ^ (1024 : ℤ) ≤ 2 ^ exp3 := zpow_le_zpow_right₀ (by norm_num) hexp
          rw [roundRat_overflow a.neg n d hn hd (by
            rw [hXx3, two_zpow_succ]
            calc (2 : ℚ) ^ (1024 : ℤ) ≤ 2 ^ exp3 := hpow
              _ = 1 / 2 * (2 * 2 ^ exp3) := by ring
              _ ≤ x3 * (2 * 2 ^ exp3) := mul_le_mul_of_nonneg_right hhalf (by positivity))]
        · -- the rounding step
          subst hres
          obtain ⟨b, hb4, hgb, htm, hbnd, _, hbneg, _⟩ := shift_spec a3 hsc.good ((1 + 52 : ℕ) : ℤ) (by norm_num) (by norm_num)
          rw [h4] at hb4
          injection hb4 with hb4
          subst hb4
          have hgood4 : Good a4 := ⟨hgb.wf, hgb.nz, htm (by norm_num) hsc.nd⟩
          have hdp3 : a3.dp ≤ 0 := dp_le_of_lt a3 hsc.good.nz hsc.nd 0 (by simpa using ha3lt)
          have h53 : ((1 + 52 : ℕ) : ℤ) = 53 := by norm_num
          obtain ⟨b, hb4, hr4, _⟩ := shift_rep (-54) x3 a3 hsc.good hsc.nd ((1 + 52 : ℕ) : ℤ) (by norm_num) (by norm_num) hr3 (by omega)
            (by rw [h53]; omega) (by rw [h53]; omega) (by omega)
          rw [h4] at hb4; injection hb4 with hb4; subst hb4
          rw [h53] at hr4
          have e54 : (-54 : ℤ) + 53 = -1 := by norm_num
          rw [e54] at hr4
          have hexp2 : exp3 ≤ 1023 := by
            have : ((2 ^ 11 : ℕ) : ℤ) = 2048 := by norm_num
            omega
          have hp53 : (2 : ℚ) ^ (53 : ℤ) = 2 ^ 53 := by norm_num
          have hval4 : (n : ℚ) / d = x3 * 2 ^ (53 : ℤ) * 2 ^ (exp3 - 52) := by
            rw [hXx3, mul_assoc, ← zpow_add₀ (by norm_num)]
            congr 2; ring
          have hlt4 : x3 * 2 ^ (53 : ℤ) < 2 ^ 53 := by
            rw [hp53]
            have hp : (0 : ℚ) < 2 ^ 53 := by positivity
            calc x3 * 2 ^ 53 < 1 * 2 ^ 53 := mul_lt_mul_of_pos_right hx3lt hp
              _ = 2 ^ 53 := one_mul _
          have hge4 : -1022 < exp3 → (2 : ℚ) ^ 52 ≤ x3 * 2 ^ (53 : ℤ) := by
            intro hh
            rw [hp53]
            have := hx3ge hh
            calc (2 : ℚ) ^ 52 = 1 / 2 * 2 ^ 53 := by norm_num
              _ ≤ x3 * 2 ^ 53 := mul_le_mul_of_nonneg_right this (by positivity)
          have hfin := finish_rep a4 exp3 hgood4 (hbnd hsc.nd) _ hr4 n d hn hd hval4 hsc.lo hexp2 hlt4 hge4
          simp only [Decimal.floatBits, hpr]
          rw [← hfin, hbneg, hsc.neg]

end RJson.Dec
