import RJson.Proofs.ScannerFuel
import RJson.Proofs.TraverseMembers
import RJson.Proofs.StrRead
import RJson.Props.C07
import RJson.Props.C13Types
/-!
# Every offset a reader reports is the end of the first value (`Spec.valueEnd none`)

The specification functions of the typed readers (`Spec.readString`, `readInt`, literals, `traverseArray`,
`traverseObject`) all stop exactly where the reference scanner says the first value of the input ends.
-/
namespace RJson.Spec
open RJson.Abs

/-- the unlimited value end, unfolded one step -/
theorem valueEnd_none_cons (data : List UInt8) (b : UInt8) (rest : List UInt8) (hsk : skipWs data = b :: rest) :
    valueEnd none data =
      match scanValue none (2 * data.length + 1 + 1) 0 (b :: rest) with
      | some r => some (data.length - r.length)
      | none => none := by
  simp only [valueEnd, hsk]
  rfl

theorem valueEnd_of_scalar (data : List UInt8) (b : UInt8) (rest r : List UInt8) (hsk : skipWs data = b :: rest)
    (h91 : (b == 91) = false) (h123 : (b == 123) = false) (hs : scanScalar b rest = some r) :
    valueEnd none data = some (data.length - r.length) := by
  rw [valueEnd_none_cons data b rest hsk, scanValue_scalar none _ 0 b rest h91 h123, hs]

/-- strings -/
theorem readString_resume (data : List UInt8) (c : List UInt8) (n : Nat) (h : Spec.readString data = some (c, n)) :
    valueEnd none data = some n := by
  cases hsk : skipWs data with
  | nil => rw [StrRead.readString_other data (by intro l hh; rw [hsk] at hh; cases hh)] at h; cases h
  | cons b l =>
    by_cases hb : b = 34
    · subst hb
      rw [StrRead.readString_34 data l hsk] at h
      simp only [splitString] at h
      cases hs : scanStringBody l with
      | none => rw [hs] at h; cases h
      | some rest =>
        rw [hs] at h
        injection h with h; injection h with _ hn
        rw [valueEnd_of_scalar data 34 l rest hsk (by decide) (by decide) (by simp [scanScalar, hs])]
        rw [hn]
    · rw [StrRead.readString_other data (by intro l' hh; rw [hsk] at hh; injection hh with h1 _; exact hb h1)] at h
      cases h

/-- literals -/
theorem lit_resume (data : List UInt8) (c : UInt8) (lit rest : List UInt8)
    (hc : c = 116 ∧ lit = [114, 117, 101] ∨ c = 102 ∧ lit = [97, 108, 115, 101] ∨ c = 110 ∧ lit = [117, 108, 108])
    (h : scanLit (c :: lit) (skipWs data) = some rest) : valueEnd none data = some (data.length - rest.length) := by
  cases hsk : skipWs data with
  | nil => rw [hsk, scanLit_cons_nil] at h; cases h
  | cons b l =>
    rw [hsk, scanLit_cons_cons] at h
    by_cases hb : (b == c) = true
    · simp only [hb, if_true] at h
      have hbc : b = c := by simpa using hb
      subst hbc
      apply valueEnd_of_scalar data b l rest hsk
      · rcases hc with ⟨rfl, _⟩ | ⟨rfl, _⟩ | ⟨rfl, _⟩ <;> decide
      · rcases hc with ⟨rfl, _⟩ | ⟨rfl, _⟩ | ⟨rfl, _⟩ <;> decide
      · rcases hc with ⟨rfl, rfl⟩ | ⟨rfl, rfl⟩ | ⟨rfl, rfl⟩ <;> simpa [scanScalar] using h
    · simp [hb] at h

/-! ## containers: the member list and the scanner -/

theorem scanValue_none_any (sf d : Nat) (v r : List UInt8) (h : scanValue none (2 * v.length + 2) 0 v = some r)
    (hsf : 2 * v.length ≤ sf) : scanValue none sf d v = some r := by
  rw [(scan_depth_irrel sf).1 d 0]
  exact (scan_fuel_adequate none _).1 _ _ _ h sf hsf

theorem arrMembers_scan (total : Nat) : ∀ (fuel : Nat) (first : Bool) (l : List UInt8) (acc ms : List Member) (rest : List UInt8),
    arrMembers total fuel first l acc = some (ms, rest) → ∀ (sf d : Nat), 2 * l.length + 1 ≤ sf →
      scanArr none sf d first l = some rest := by
  intro fuel
  induction fuel with
  | zero => intro first l acc ms rest h; simp [arrMembers] at h
  | succ fuel ih =>
    intro first l acc ms rest h sf d hsf
    obtain ⟨sf, rfl⟩ : ∃ g, sf = g + 1 := ⟨sf - 1, by omega⟩
    simp only [arrMembers] at h
    simp only [scanArr]
    have hwl := skipWs_length_le' l
    cases hsk : skipWs l with
    | nil => rw [hsk] at h; simp at h
    | cons b t =>
      rw [hsk] at h hwl
      simp only [List.length_cons] at hwl
      simp only [] at h ⊢
      by_cases h93 : (b == 93) = true
      · simp only [h93, if_true] at h ⊢
        injection h with h; injection h with _ h2; rw [h2]
      · have h93' : (b == 93) = false := by simpa using h93
        simp only [h93', Bool.false_eq_true, if_false] at h ⊢
        have core : ∀ (v : List UInt8), v.length ≤ t.length + 1 →
            (match scanValue none (2 * v.length + 2) 0 v with
              | none => none
              | some r => arrMembers total fuel false r ({ field := [], off := total - v.length } :: acc)) = some (ms, rest) →
            (match scanValue none sf d v with
              | none => none
              | some r => scanArr none sf d false r) = some rest := by
          intro v hv hm
          cases hsv : scanValue none (2 * v.length + 2) 0 v with
          | none => rw [hsv] at hm; cases hm
          | some r =>
            rw [hsv] at hm
            simp only [] at hm
            have hp := (scan_progress none _).1 _ _ _ hsv
            rw [scanValue_none_any sf d v r hsv (by omega)]
            exact ih false r _ ms rest hm sf d (by omega)
        cases first with
        | true =>
          simp only [if_true] at h ⊢
          exact core (b :: t) (by simp) h
        | false =>
          simp only [Bool.false_eq_true, if_false] at h ⊢
          by_cases h44 : (b == 44) = true
          · simp only [h44, if_true] at h ⊢
            exact core (skipWs t) (by have := skipWs_length_le' t; omega) h
          · have h44' : (b == 44) = false := by simpa using h44
            simp [h44'] at h

theorem objMembers_scan (total : Nat) : ∀ (fuel : Nat) (first : Bool) (l : List UInt8) (acc ms : List Member) (rest : List UInt8),
    objMembers total fuel first l acc = some (ms, rest) → ∀ (sf d : Nat), 2 * l.length + 1 ≤ sf →
      scanObj none sf d first l = some rest := by
  intro fuel
  induction fuel with
  | zero => intro first l acc ms rest h; simp [objMembers] at h
  | succ fuel ih =>
    intro first l acc ms rest h sf d hsf
    obtain ⟨sf, rfl⟩ : ∃ g, sf = g + 1 := ⟨sf - 1, by omega⟩
    rw [objMembers_succ] at h
    rw [scanObj_succ]
    have hwl := skipWs_length_le' l
    cases hsk : skipWs l with
    | nil => rw [hsk] at h; simp at h
    | cons b t =>
      rw [hsk] at h hwl
      simp only [List.length_cons] at hwl
      simp only [] at h ⊢
      by_cases h125 : (b == 125) = true
      · simp only [h125, if_true] at h ⊢
        injection h with h; injection h with _ h2; rw [h2]
      · have h125' : (b == 125) = false := by simpa using h125
        simp only [h125', Bool.false_eq_true, if_false] at h ⊢
        have core : ∀ (kl : List UInt8), kl.length ≤ t.length + 1 →
            objMemberAt total fuel acc kl = some (ms, rest) → objKey none sf d kl = some rest := by
          intro kl hkl hm
          cases kl with
          | nil => simp [objMemberAt] at hm
          | cons q k =>
            by_cases hq : q = 34
            · subst hq
              simp only [objMemberAt] at hm
              rw [objKey_34]
              simp only [memberThen]
              simp only [List.length_cons] at hkl
              cases hsp : splitString k with
              | none => rw [hsp] at hm; cases hm
              | some pr =>
                obtain ⟨body, r1⟩ := pr
                rw [hsp] at hm
                simp only [] at hm
                have hs1 : scanStringBody k = some r1 := by
                  simp only [splitString] at hsp
                  cases hsb : scanStringBody k with
                  | none => rw [hsb] at hsp; cases hsp
                  | some rr => rw [hsb] at hsp; injection hsp with hsp; injection hsp with _ h2; rw [h2]
                rw [hs1]
                simp only []
                have hp1 := scanStringBody_length_lt _ _ hs1
                have hw1 := skipWs_length_le' r1
                cases hsk1 : skipWs r1 with
                | nil => rw [hsk1] at hm; simp [colonAt] at hm
                | cons b2 r2 =>
                  rw [hsk1] at hm hw1
                  simp only [List.length_cons] at hw1
                  by_cases h58 : b2 = 58
                  · subst h58
                    simp only [colonAt] at hm
                    rw [colonThen_58]
                    have hw2 := skipWs_length_le' r2
                    cases hsv : scanValue none (2 * (skipWs r2).length + 2) 0 (skipWs r2) with
                    | none => rw [hsv] at hm; cases hm
                    | some r =>
                      rw [hsv] at hm
                      simp only [] at hm
                      have hp := (scan_progress none _).1 _ _ _ hsv
                      rw [scanValue_none_any sf d _ r hsv (by omega)]
                      exact ih false r _ ms rest hm sf d (by omega)
                  · rw [colonAt_other _ _ _ _ b2 r2 h58] at hm; cases hm
            · rw [objMemberAt_other _ _ _ q k hq] at hm; cases hm
        cases first with
        | true =>
          simp only [if_true] at h ⊢
          exact core (b :: t) (by simp) h
        | false =>
          simp only [Bool.false_eq_true, if_false] at h ⊢
          by_cases h44 : (b == 44) = true
          · simp only [h44, if_true] at h ⊢
            exact core (skipWs t) (by have := skipWs_length_le' t; omega) h
          · have h44' : (b == 44) = false := by simpa using h44
            simp [h44'] at h

/-- array traversals end where the array (or `null`) ends -/
theorem traverseArray_resume (data : List UInt8) (ms : List Member) (n : Nat) (h : traverseArray data = some (ms, n)) :
    valueEnd none data = some n := by
  by_cases h91 : ∃ rest, skipWs data = 91 :: rest
  · obtain ⟨rest, hsk⟩ := h91
    rw [C07.traverseArray_91 rest data hsk] at h
    cases hm : arrMembers data.length (data.length + 1) true rest [] with
    | none => rw [hm] at h; cases h
    | some pr =>
      obtain ⟨ms', r⟩ := pr
      rw [hm] at h
      injection h with h; injection h with _ hn
      have hwl := skipWs_length_le' data
      rw [hsk] at hwl
      simp only [List.length_cons] at hwl
      have hs := arrMembers_scan _ _ _ _ _ _ _ hm (2 * data.length + 1) 1 (by omega)
      rw [valueEnd_none_cons data 91 rest hsk]
      have : scanValue none (2 * data.length + 1 + 1) 0 (91 :: rest) = some r := by
        simp [scanValue, hs]
      rw [this]
      simp only []
      rw [hn]
  · have hne : ∀ rest, skipWs data ≠ 91 :: rest := fun rest hh => h91 ⟨rest, hh⟩
    rw [C07.traverseArray_other _ hne] at h
    cases hs : scanLit [110, 117, 108, 108] (skipWs data) with
    | none => rw [hs] at h; cases h
    | some r =>
      rw [hs] at h
      injection h with h; injection h with _ hn
      rw [lit_resume data 110 [117, 108, 108] r (.inr (.inr ⟨rfl, rfl⟩)) hs, hn]

/-- object traversals end where the object (or `null`) ends -/
theorem traverseObject_resume (data : List UInt8) (ms : List Member) (n : Nat) (h : traverseObject data = some (ms, n)) :
    valueEnd none data = some n := by
  by_cases h123 : ∃ rest, skipWs data = 123 :: rest
  · obtain ⟨rest, hsk⟩ := h123
    rw [C07.traverseObject_123 rest data hsk] at h
    cases hm : objMembers data.length (data.length + 1) true rest [] with
    | none => rw [hm] at h; cases h
    | some pr =>
      obtain ⟨ms', r⟩ := pr
      rw [hm] at h
      injection h with h; injection h with _ hn
      have hwl := skipWs_length_le' data
      rw [hsk] at hwl
      simp only [List.length_cons] at hwl
      have hs := objMembers_scan _ _ _ _ _ _ _ hm (2 * data.length + 1) 1 (by omega)
      rw [valueEnd_none_cons data 123 rest hsk]
      have : scanValue none (2 * data.length + 1 + 1) 0 (123 :: rest) = some r := by
        simp [scanValue, hs]
      rw [this]
      simp only []
      rw [hn]
  · have hne : ∀ rest, skipWs data ≠ 123 :: rest := fun rest hh => h123 ⟨rest, hh⟩
    rw [C07.traverseObject_other _ hne] at h
    cases hs : scanLit [110, 117, 108, 108] (skipWs data) with
    | none => rw [hs] at h; cases h
    | some r =>
      rw [hs] at h
      injection h with h; injection h with _ hn
      rw [lit_resume data 110 [117, 108, 108] r (.inr (.inr ⟨rfl, rfl⟩)) hs, hn]

/-- a value recognised under the depth limit is recognised without it, at the same place -/
theorem valueEnd_limit (m : Nat) (data : List UInt8) (n : Nat) (h : valueEnd (some m) data = some n) :
    valueEnd none data = some n := by
  simp only [valueEnd] at h ⊢
  cases hs : scanValue (some m) (2 * data.length + 2) 0 (skipWs data) with
  | none => rw [hs] at h; cases h
  | some r => rw [hs] at h; rw [(scan_limit_mono m _).1 _ _ _ hs]; exact h

end RJson.Spec

namespace RJson.Spec
open RJson.Abs

/-! ## integers -/

/-- a number does not start with a quote, a bracket or a literal's first letter -/
theorem value_start_number (b : UInt8) (t rest : List UInt8) (h : scanNumber (b :: t) = some rest) :
    (b == 91) = false ∧ (b == 123) = false ∧
      ((b == 34) = false ∧ (b == 116) = false ∧ (b == 102) = false ∧ (b == 110) = false) := by
  have key : b = 45 ∨ isDigit b = true := by
    by_cases hb : b = 45
    · exact .inl hb
    · rw [scanNumber_other b t hb] at h
      by_cases h48 : b = 48
      · subst h48; exact .inr (by decide)
      · rw [scanNum1_other b t h48] at h
        split at h
        · next h19 =>
          right
          simp only [Bool.and_eq_true, decide_eq_true_eq] at h19
          simp only [isDigit, Bool.and_eq_true, decide_eq_true_eq]
          refine ⟨?_, h19.2⟩
          have := h19.1
          rw [UInt8.le_iff_toNat_le] at this ⊢
          have e1 : (49 : UInt8).toNat = 49 := rfl
          have e2 : (48 : UInt8).toNat = 48 := rfl
          omega
        · cases h
  have hall : allBelow (fun n => !(UInt8.ofNat n == 45 || isDigit (UInt8.ofNat n)) ||
      (!(UInt8.ofNat n == 91) && !(UInt8.ofNat n == 123) && !(UInt8.ofNat n == 34) && !(UInt8.ofNat n == 116) &&
        !(UInt8.ofNat n == 102) && !(UInt8.ofNat n == 110))) 256 = true := by decide +kernel
  have := forall_byte (P := fun b => !(b == 45 || isDigit b) ||
      (!(b == 91) && !(b == 123) && !(b == 34) && !(b == 116) && !(b == 102) && !(b == 110))) hall b
  have hk : (b == 45 || isDigit b) = true := by
    rcases key with rfl | hd
    · rfl
    · simp [hd]
  simp only [hk, Bool.not_true, Bool.false_or, Bool.and_eq_true, Bool.not_eq_true'] at this
  obtain ⟨⟨⟨⟨⟨h1, h2⟩, h3⟩, h4⟩, h5⟩, h6⟩ := this
  exact ⟨h1, h2, h3, h4, h5, h6⟩

theorem scanFrac_stop (r : List UInt8) (h : ∀ c t, r = c :: t → (c == 46 || c == 101 || c == 69) = false) :
    scanFrac r = some r := by
  cases r with
  | nil => exact scanFrac_nil
  | cons c t =>
    have hc := h c t rfl
    simp only [Bool.or_eq_false_iff] at hc
    have h46 : c ≠ 46 := by simpa using hc.1.1
    rw [scanFrac_other c t h46, HelpersSpec.scanExp_other c t (by simp [hc.1.2, hc.2])]

theorem drop_takeDigits (l : List UInt8) : l.drop (takeDigits l).length = skipDigits l := by
  induction l with
  | nil => rfl
  | cons b rest ih =>
    simp only [takeDigits, skipDigits]
    split
    · simpa using ih
    · rfl

theorem uintToken_scan (l : List UInt8) (v : Nat) (rest : List UInt8) (h : uintToken l = some (v, rest)) :
    scanNum1 l = some rest := by
  simp only [uintToken] at h
  split at h
  · cases h
  · next hne =>
    have hstop : ∀ c t, rest = c :: t → (c == 46 || c == 101 || c == 69) = false := by
      intro c t hr
      split at h
      · next c' tl heq =>
        split at h
        · cases h
        · next hc =>
          injection h with h; injection h with _ h2
          rw [← h2, heq] at hr
          injection hr with h1 _
          subst h1
          simpa using hc
      · next heq =>
        injection h with h; injection h with _ h2
        rw [← h2, heq] at hr
        cases hr
    have hrest : rest = l.drop (uintDigitsOf l).length := by
      split at h
      · split at h
        · cases h
        · injection h with h; injection h with _ h2; exact h2.symm
      · injection h with h; injection h with _ h2; exact h2.symm
    cases l with
    | nil => simp [uintDigitsOf] at hne
    | cons d t =>
      by_cases hd : d = 48
      · subst hd
        have hD : uintDigitsOf (48 :: t) = [48] := rfl
        rw [hD] at hrest
        simp only [List.length_singleton, List.drop_succ_cons, List.drop_zero] at hrest
        subst hrest
        rw [scanNum1_zero]
        exact scanFrac_stop _ hstop
      · have hD : uintDigitsOf (d :: t) = if 49 ≤ d && d ≤ 57 then takeDigits (d :: t) else [] := by
          simp only [uintDigitsOf]
        by_cases h19 : (49 ≤ d && d ≤ 57) = true
        · rw [hD] at hrest
          simp only [h19, if_true] at hrest
          have hdig : isDigit d = true := by
            simp only [Bool.and_eq_true, decide_eq_true_eq] at h19
            simp only [isDigit, Bool.and_eq_true, decide_eq_true_eq]
            refine ⟨?_, h19.2⟩
            have := h19.1
            rw [UInt8.le_iff_toNat_le] at this ⊢
            have e1 : (49 : UInt8).toNat = 49 := rfl
            have e2 : (48 : UInt8).toNat = 48 := rfl
            omega
          have : takeDigits (d :: t) = d :: takeDigits t := by simp [takeDigits, hdig]
          rw [this] at hrest
          simp only [List.length_cons, List.drop_succ_cons] at hrest
          rw [drop_takeDigits] at hrest
          subst hrest
          rw [scanNum1_other d t hd]
          simp only [h19, if_true]
          exact scanFrac_stop _ hstop
        · rw [hD] at hne
          simp [h19] at hne

/-- integer readers stop at the end of the number -/
theorem readInt_resume (lo hi : Int) (signed : Bool) (data : List UInt8) (v : Int) (n : Nat)
    (h : Spec.readInt lo hi signed data = some (v, n)) : valueEnd none data = some n := by
  simp only [Spec.readInt] at h
  cases hi' : intToken (skipWs data) with
  | none => rw [hi'] at h; cases h
  | some tr =>
    obtain ⟨v', neg, rest⟩ := tr
    rw [hi'] at h
    simp only [] at h
    split at h
    · cases h
    · injection h with h; injection h with _ hn
      have hscan : scanNumber (skipWs data) = some rest := by
        simp only [intToken] at hi'
        split at hi'
        · next t heq =>
          cases hu : uintToken t with
          | none => rw [hu] at hi'; cases hi'
          | some pr =>
            rw [hu] at hi'
            simp only [Option.map] at hi'
            injection hi' with hi'; injection hi' with _ h2; injection h2 with _ h3
            rw [heq, scanNumber_minus, uintToken_scan t pr.1 pr.2 hu, h3]
        · next hnm =>
          cases hu : uintToken (skipWs data) with
          | none => rw [hu] at hi'; cases hi'
          | some pr =>
            rw [hu] at hi'
            simp only [Option.map] at hi'
            injection hi' with hi'; injection hi' with _ h2; injection h2 with _ h3
            obtain ⟨b, t, hl, hd⟩ := C13Types.uintToken_head _ pr.1 pr.2 hu
            have hb45 : b ≠ 45 := by intro hh; subst hh; exact absurd hd (by decide)
            rw [hl, scanNumber_other b t hb45, ← hl, uintToken_scan _ pr.1 pr.2 hu, h3]
      cases hsk : skipWs data with
      | nil => rw [hsk] at hscan; simp [scanNumber, scanNum1] at hscan
      | cons b t =>
        rw [hsk] at hscan
        have hvs := value_start_number b t rest hscan
        rw [valueEnd_of_scalar data b t rest hsk hvs.1 hvs.2.1 (by simp [scanScalar, hvs.2.2.1, hvs.2.2.2.1, hvs.2.2.2.2.1, hvs.2.2.2.2.2, hscan]), hn]

end RJson.Spec
