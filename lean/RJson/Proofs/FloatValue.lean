import RJson.Proofs.NumShape
import RJson.Proofs.FloatSyntax
/-!
# `readFloat` (internal/fp, hand model) on a number literal of the reference scanner: what it returns

For every input that starts with a JSON number (`NumShape.Shape`), `readFloat` succeeds, reports the literal's
length, and its mantissa / exponent / truncation flag are the explicit functions below of the literal's digits.
-/
namespace RJson.FloatValue
open RJson.Ragel RJson.Spec RJson.FP RJson.HelpersSpec RJson.Abs RJson.NumShape RJson.FloatSyntax

/-- the 19-digit mantissa accumulator of `readFloat`: `(mantissa, ndMant, trunc)` -/
def accDigits : List UInt8 → Nat × Nat × Bool → Nat × Nat × Bool
  | [], s => s
  | b :: ds, (man, ndMant, trunc) =>
    if ndMant ≥ 19 then accDigits ds (man, ndMant, true)
    else accDigits ds ((man * 10 + (b.toNat - 48)) % two64, ndMant + 1, trunc)

theorem accDigits_append (a b : List UInt8) (s : Nat × Nat × Bool) : accDigits (a ++ b) s = accDigits b (accDigits a s) := by
  induction a generalizing s with
  | nil => rfl
  | cons x a ih =>
    obtain ⟨m, n, t⟩ := s
    simp only [List.cons_append, accDigits]
    split <;> exact ih _

/-- the clipped exponent accumulator -/
def clipAcc (C : Nat) : List UInt8 → Nat → Nat
  | [], e => e
  | b :: ds, e => clipAcc C ds (if e < C then e * 10 + (b.toNat - 48) else e)

/-- a run of digits -/
theorem loop_digits (data : Bytes) : ∀ (ds r : List UInt8) (fuel p man nd ndMant : Nat) (dp : Int) (sawdot trunc : Bool),
    allDigits ds → At data p (ds ++ r) → ds.length ≤ fuel →
    readFloatLoop data fuel p man nd ndMant dp sawdot trunc =
      readFloatLoop data (fuel - ds.length) (p + ds.length) (accDigits ds (man, ndMant, trunc)).1 (nd + ds.length)
        (accDigits ds (man, ndMant, trunc)).2.1 dp sawdot (accDigits ds (man, ndMant, trunc)).2.2 := by
  intro ds
  induction ds with
  | nil => intro r fuel p man nd ndMant dp sawdot trunc _ _ _; simp [accDigits]
  | cons b ds ih =>
    intro r fuel p man nd ndMant dp sawdot trunc hds hat hf
    obtain ⟨fuel, rfl⟩ : ∃ f, fuel = f + 1 := ⟨fuel - 1, by simp only [List.length_cons] at hf; omega⟩
    have hat0 : At data p (b :: (ds ++ r)) := by simpa using hat
    obtain ⟨_, _, hat'⟩ := hat0.cons_inv
    have hg : data[p]? = some b := by rw [at_get hat0]; rfl
    have hb : isDigit b = true := hds b (by simp)
    have hds' : allDigits ds := fun x hx => hds x (by simp [hx])
    have hf' : ds.length ≤ fuel := by simp only [List.length_cons] at hf; omega
    simp only [readFloatLoop, hg, fpIsDigit_eq, hb, if_true, accDigits, List.length_cons]
    have e1 : fuel + 1 - (ds.length + 1) = fuel - ds.length := by omega
    have e2 : p + (ds.length + 1) = p + 1 + ds.length := by omega
    have e3 : nd + (ds.length + 1) = nd + 1 + ds.length := by omega
    rw [e1, e2, e3]
    split
    · exact ih r fuel (p + 1) man (nd + 1) ndMant dp sawdot true hds' hat' hf'
    · exact ih r fuel (p + 1) _ (nd + 1) (ndMant + 1) dp sawdot trunc hds' hat' hf'

/-- the loop stops at anything that is neither a digit nor a first decimal point -/
theorem loop_stop (data : Bytes) (r : List UInt8) (fuel p man nd ndMant : Nat) (dp : Int) (sawdot trunc : Bool)
    (hat : At data p r) (hnd : noDigitHead r) (hdot : sawdot = true ∨ ∀ t, r ≠ 46 :: t) :
    readFloatLoop data fuel p man nd ndMant dp sawdot trunc = (man, nd, ndMant, dp, sawdot, trunc, p) := by
  cases fuel with
  | zero => rfl
  | succ fuel =>
    cases r with
    | nil =>
      have hg : data[p]? = none := by rw [at_get hat]; rfl
      simp [readFloatLoop, hg]
    | cons b t =>
      have hg : data[p]? = some b := by rw [at_get hat]; rfl
      have hb := hnd b t rfl
      simp only [readFloatLoop, hg, fpIsDigit_eq, hb, Bool.false_eq_true, if_false]
      by_cases h46 : (b == 46) = true
      · simp only [h46, if_true]
        rcases hdot with h | h
        · simp [h]
        · have : b = 46 := by simpa using h46
          subst this
          exact absurd rfl (h t)
      · simp [h46]

/-- the first decimal point -/
theorem loop_dot (data : Bytes) (t2 : List UInt8) (fuel p man nd ndMant : Nat) (dp : Int) (trunc : Bool)
    (hat : At data p (46 :: t2)) :
    readFloatLoop data (fuel + 1) p man nd ndMant dp false trunc = readFloatLoop data fuel (p + 1) man nd ndMant nd true trunc := by
  have hg : data[p]? = some 46 := by rw [at_get hat]; rfl
  have h46 : fpIsDigit 46 = false := by rw [fpIsDigit_eq]; decide
  simp [readFloatLoop, hg, h46]

/-- digits after the decimal point, up to whatever follows -/
theorem loop_frac_val (data : Bytes) (fp Y : List UInt8) (fuel p man nd ndMant : Nat) (dp : Int) (trunc : Bool)
    (hfd : allDigits fp) (hY : noDigitHead Y) (hat : At data p (fp ++ Y)) (hf : fp.length ≤ fuel) :
    readFloatLoop data fuel p man nd ndMant dp true trunc =
      ((accDigits fp (man, ndMant, trunc)).1, nd + fp.length, (accDigits fp (man, ndMant, trunc)).2.1, dp, true,
        (accDigits fp (man, ndMant, trunc)).2.2, p + fp.length) := by
  rw [loop_digits data fp Y fuel p man nd ndMant dp true trunc hfd hat hf]
  have hat' := at_suffix hat fp.length (by simp)
  rw [List.drop_left] at hat'
  exact loop_stop data Y _ _ _ _ _ dp true _ hat' hY (.inl rfl)

/-- remaining integer digits, then an optional fraction -/
theorem loop_int_val (data : Bytes) (A fp Y : List UInt8) (fuel p man nd ndMant : Nat) (dp : Int) (trunc : Bool)
    (hA : allDigits A) (hfd : allDigits fp) (hstopA : noDigitHead (fracL fp ++ Y))
    (hnd : fp = [] → ∀ t, Y ≠ 46 :: t) (hfs : fp ≠ [] → noDigitHead Y)
    (hat : At data p (A ++ (fracL fp ++ Y))) (hf : (A ++ (fracL fp ++ Y)).length ≤ fuel) :
    readFloatLoop data fuel p man nd ndMant dp false trunc =
      ((accDigits (A ++ fp) (man, ndMant, trunc)).1, nd + A.length + fp.length, (accDigits (A ++ fp) (man, ndMant, trunc)).2.1,
        (if fp = [] then dp else ((nd + A.length : Nat) : Int)), !(fp.isEmpty), (accDigits (A ++ fp) (man, ndMant, trunc)).2.2,
        p + A.length + (fracL fp).length) := by
  have hfl : A.length ≤ fuel := by simp only [List.length_append] at hf; omega
  rw [loop_digits data A _ fuel p man nd ndMant dp false trunc hA hat hfl]
  have hat' := at_suffix hat A.length (by simp)
  rw [List.drop_left] at hat'
  rw [accDigits_append]
  cases fp with
  | nil =>
    simp only [fracL, List.nil_append] at hat' hstopA ⊢
    rw [loop_stop data Y _ _ _ _ _ dp false _ hat' hstopA (.inr (hnd rfl))]
    simp [accDigits]
  | cons d ds =>
    simp only [fracL, List.cons_append] at hat' hf ⊢
    obtain ⟨f2, hf2⟩ : ∃ f2, fuel - A.length = f2 + 1 := ⟨fuel - A.length - 1, by simp only [List.length_append, List.length_cons] at hf; omega⟩
    rw [hf2, loop_dot data _ f2 _ _ _ _ dp _ hat']
    obtain ⟨_, _, hat2⟩ := hat'.cons_inv
    have hat2' : At data (p + A.length + 1) ((d :: ds) ++ Y) := by simpa using hat2
    rw [loop_frac_val data (d :: ds) Y f2 _ _ _ _ _ _ hfd (hfs (by simp)) hat2'
      (by simp only [List.length_append, List.length_cons] at hf ⊢; omega)]
    simp only [List.length_cons, List.isEmpty_cons, Bool.not_false]
    have : (d :: ds : List UInt8) = [] ↔ False := by simp
    simp only [this, if_false]
    refine Prod.ext rfl (Prod.ext (by first | rfl | omega | (simp only []; omega)) (Prod.ext rfl (Prod.ext rfl (Prod.ext rfl (Prod.ext rfl (by first | rfl | omega | (simp only []; omega)))))))

theorem isDigit_def (b : UInt8) : (decide (48 ≤ b) && decide (b ≤ 57)) = isDigit b := rfl

/-- exponent digits -/
theorem expDigits_val (data : Bytes) : ∀ (eds r : List UInt8) (fuel p e : Nat), allDigits eds → noDigitHead r →
    At data p (eds ++ r) → eds.length ≤ fuel → expDigits data fuel p e = (p + eds.length, clipAcc (10000 + data.size) eds e) := by
  intro eds
  induction eds with
  | nil =>
    intro r fuel p e _ hr hat _
    simp only [List.nil_append] at hat
    cases fuel with
    | zero => rfl
    | succ fuel =>
      cases r with
      | nil =>
        have hg : data[p]? = none := by rw [at_get hat]; rfl
        simp [expDigits, hg, clipAcc]
      | cons b t =>
        have hg : data[p]? = some b := by rw [at_get hat]; rfl
        have hb := hr b t rfl
        simp only [expDigits, hg, isDigit_def, hb, Bool.false_eq_true, if_false, List.length_nil, Nat.add_zero, clipAcc]
  | cons b ds ih =>
    intro r fuel p e hds hr hat hf
    obtain ⟨fuel, rfl⟩ : ∃ f, fuel = f + 1 := ⟨fuel - 1, by simp only [List.length_cons] at hf; omega⟩
    have hat0 : At data p (b :: (ds ++ r)) := by simpa using hat
    obtain ⟨_, _, hat'⟩ := hat0.cons_inv
    have hg : data[p]? = some b := by rw [at_get hat0]; rfl
    have hb : isDigit b = true := hds b (by simp)
    simp only [expDigits, hg, isDigit_def, hb, if_true, clipAcc, List.length_cons]
    rw [ih r fuel (p + 1) _ (fun x hx => hds x (by simp [hx])) hr hat' (by simp only [List.length_cons] at hf; omega)]
    have : p + 1 + ds.length = p + (ds.length + 1) := by omega
    rw [this]

theorem e_not_digit_bytes (ec : UInt8) (h : (ec == 101 || ec == 69) = true) : (ec == 101 || ec == 69) = true := h

/-- `finishUp` after the mantissa: the optional exponent -/
theorem finish_val (data : Bytes) (man nd ndMant : Nat) (dp : Int) (sawdot neg trunc : Bool) (p : Nat)
    (ec : UInt8) (sg eds rest : List UInt8) (hat : At data p (expL ec sg eds ++ rest))
    (hed : allDigits eds) (hec : (ec == 101 || ec == 69) = true) (hsg : sg = [] ∨ sg = [43] ∨ sg = [45])
    (hnoE : eds = [] → ∀ c t, rest = c :: t → (c == 101 || c == 69) = false) (hstop : eds ≠ [] → noDigitHead rest)
    (hprev : ¬ (p ≥ 1 ∧ data[p - 1]! = 46)) :
    readFloatFinish data man nd ndMant dp sawdot true neg trunc p =
      { mantissa := man,
        exp := if man != 0 then (if !sawdot then (nd : Int) else dp) + (clipAcc (10000 + data.size) eds 0 : Int) * sgnOf sg - ndMant else 0,
        neg := neg, trunc := trunc, p := p + (expL ec sg eds).length, ok := true } := by
  have hlen := hat.length
  cases eds with
  | nil =>
    simp only [expL, List.nil_append, List.length_nil, Nat.add_zero, clipAcc] at hat ⊢
    cases rest with
    | nil =>
      have hg : data[p]? = none := by rw [at_get hat]; rfl
      simp [readFloatFinish, hg]
    | cons c t =>
      have hg : data[p]? = some c := by rw [at_get hat]; rfl
      have hc := hnoE rfl c t rfl
      simp [readFloatFinish, hg, hc]
  | cons d ds =>
    have hd : isDigit d = true := hed d (by simp)
    have hdn : (d < 48 || d > 57) = false := by
      have : (decide (48 ≤ d) && decide (d ≤ 57)) = true := hd
      simp only [Bool.and_eq_true, decide_eq_true_eq] at this
      simp only [Bool.or_eq_false_iff, decide_eq_false_iff_not, UInt8.not_lt]
      exact ⟨this.1, this.2⟩
    have hd43 : (d == 43) = false := by
      have := digit_not_sign d hd
      simp only [Bool.or_eq_false_iff] at this; exact this.1
    have hd45 : (d == 45) = false := by
      have := digit_not_sign d hd
      simp only [Bool.or_eq_false_iff] at this; exact this.2
    have hat0 : At data p (ec :: (sg ++ d :: ds ++ rest)) := by simpa [expL] using hat
    obtain ⟨_, _, hat1⟩ := hat0.cons_inv
    have hg : data[p]? = some ec := by rw [at_get hat0]; rfl
    have hpv : (decide (p ≥ 1) && data[p - 1]! == 46) = false := by
      by_cases hh : (decide (p ≥ 1) && data[p - 1]! == 46) = true
      · exfalso; apply hprev
        simp only [Bool.and_eq_true, decide_eq_true_eq, beq_iff_eq] at hh
        exact hh
      · simpa using hh
    simp only [readFloatFinish, Bool.not_true, Bool.false_eq_true, if_false, hg, hec, if_true, hpv]
    rcases hsg with rfl | rfl | rfl
    · have hat1' : At data (p + 1) ((d :: ds) ++ rest) := by simpa using hat1
      have hg1 : data[p + 1]? = some d := by rw [at_get hat1']; rfl
      have hl1 := hat1'.length
      simp only [hg1, hd43, hd45, Bool.false_eq_true, if_false, hdn]
      rw [expDigits_val data (d :: ds) rest _ (p + 1) 0 hed (hstop (by simp)) hat1' (by simp only [List.length_append] at hl1; omega)]
      simp only [expL, List.nil_append, List.length_cons, sgnOf]
      have : ([] : List UInt8) = [45] ↔ False := by simp
      simp only [this, if_false]
      congr 1
      omega
    · have hat1' : At data (p + 1) (43 :: ((d :: ds) ++ rest)) := by simpa using hat1
      obtain ⟨_, _, hat2⟩ := hat1'.cons_inv
      have hg1 : data[p + 1]? = some 43 := by rw [at_get hat1']; rfl
      have hg2 : data[p + 1 + 1]? = some d := by rw [at_get hat2]; rfl
      have hl2 := hat2.length
      simp only [hg1, beq_self_eq_true, if_true, hg2, hdn, Bool.false_eq_true, if_false]
      rw [expDigits_val data (d :: ds) rest _ (p + 1 + 1) 0 hed (hstop (by simp)) hat2 (by simp only [List.length_append] at hl2; omega)]
      simp only [expL, List.length_cons, List.length_append, List.length_nil, sgnOf]
      have : ([43] : List UInt8) = [45] ↔ False := by decide
      simp only [this, if_false]
      congr 1
      omega
    · have hat1' : At data (p + 1) (45 :: ((d :: ds) ++ rest)) := by simpa using hat1
      obtain ⟨_, _, hat2⟩ := hat1'.cons_inv
      have hg1 : data[p + 1]? = some 45 := by rw [at_get hat1']; rfl
      have hg2 : data[p + 1 + 1]? = some d := by rw [at_get hat2]; rfl
      have hl2 := hat2.length
      have h4543 : ((45 : UInt8) == 43) = false := by decide
      simp only [hg1, h4543, beq_self_eq_true, if_true, hg2, hdn, Bool.false_eq_true, if_false]
      rw [expDigits_val data (d :: ds) rest _ (p + 1 + 1) 0 hed (hstop (by simp)) hat2 (by simp only [List.length_append] at hl2; omega)]
      simp only [expL, List.length_cons, List.length_append, List.length_nil, sgnOf, if_true]
      congr 1
      omega

theorem drop_len_succ (A : List UInt8) (x : UInt8) (X : List UInt8) : (A ++ x :: X).drop (A.length + 1) = X := by
  induction A with
  | nil => rfl
  | cons a A ih => simpa using ih

/-- the byte that ends a run of digits -/
theorem last_digit {data : Bytes} {q : Nat} {A Y : List UInt8} (hat : At data q (A ++ Y)) (hA : allDigits A) (hne : A ≠ []) :
    isDigit data[q + A.length - 1]! = true := by
  have hsplit : A = A.dropLast ++ [A.getLast hne] := (List.dropLast_concat_getLast hne).symm
  have hl : A.length = A.dropLast.length + 1 := by
    have := congrArg List.length hsplit
    simpa using this
  have hat2 := at_suffix hat A.dropLast.length (by simp only [List.length_append]; omega)
  have hdrop : (A ++ Y).drop A.dropLast.length = A.getLast hne :: Y := by
    conv => lhs; rw [hsplit]
    simp
  rw [hdrop] at hat2
  have hidx : q + A.length - 1 = q + A.dropLast.length := by omega
  rw [hidx, at_getBang hat2]
  exact hA _ (List.getLast_mem hne)

theorem finish_digits (data : Bytes) (man nd ndMant : Nat) (dp : Int) (sawdot neg trunc : Bool) (p : Nat)
    (ec : UInt8) (sg eds rest : List UInt8) (hat : At data p (expL ec sg eds ++ rest))
    (hed : allDigits eds) (hec : (ec == 101 || ec == 69) = true) (hsg : sg = [] ∨ sg = [43] ∨ sg = [45])
    (hnoE : eds = [] → ∀ c t, rest = c :: t → (c == 101 || c == 69) = false) (hstop : eds ≠ [] → noDigitHead rest)
    (hprev : isDigit data[p - 1]! = true) :
    readFloatFinish data man nd ndMant dp sawdot true neg trunc p =
      { mantissa := man,
        exp := if man != 0 then (if !sawdot then (nd : Int) else dp) + (clipAcc (10000 + data.size) eds 0 : Int) * sgnOf sg - ndMant else 0,
        neg := neg, trunc := trunc, p := p + (expL ec sg eds).length, ok := true } := by
  apply finish_val data man nd ndMant dp sawdot neg trunc p ec sg eds rest hat hed hec hsg hnoE hstop
  rintro ⟨_, h46⟩
  rw [h46] at hprev
  exact absurd hprev (by decide)

theorem digit_val_lt (b : UInt8) : b.toNat - 48 < two64 := by
  have := UInt8.toNat_lt b
  unfold two64; omega

/-- from the first digit of the integer part on -/
theorem digitsPart_val (data : Bytes) (neg : Bool) (q : Nat) (b : UInt8) (ds fp : List UInt8) (ec : UInt8) (sg eds rest : List UInt8)
    (hat : At data q ((b :: ds) ++ (fracL fp ++ (expL ec sg eds ++ rest))))
    (hid : allDigits (b :: ds)) (hlead : b :: ds = [48] ∨ ∀ t, b :: ds ≠ 48 :: t)
    (hfd : allDigits fp) (hed : allDigits eds) (hec : (ec == 101 || ec == 69) = true) (hsg : sg = [] ∨ sg = [43] ∨ sg = [45])
    (hipStop : b :: ds ≠ [48] → noDigitHead (fracL fp ++ (expL ec sg eds ++ rest)))
    (hnoDot : fp = [] → ∀ t, expL ec sg eds ++ rest ≠ 46 :: t)
    (hfpStop : fp ≠ [] → noDigitHead (expL ec sg eds ++ rest))
    (hnoE : eds = [] → ∀ c t, rest = c :: t → (c == 101 || c == 69) = false) (hstop : eds ≠ [] → noDigitHead rest) :
    digitsPart data neg q b =
      { mantissa := (accDigits ((b :: ds) ++ fp) (0, 0, false)).1,
        exp := if (accDigits ((b :: ds) ++ fp) (0, 0, false)).1 != 0 then
            (((b :: ds).length : Nat) : Int) + (clipAcc (10000 + data.size) eds 0 : Int) * sgnOf sg - (accDigits ((b :: ds) ++ fp) (0, 0, false)).2.1
          else 0,
        neg := neg, trunc := (accDigits ((b :: ds) ++ fp) (0, 0, false)).2.2,
        p := q + (b :: ds).length + (fracL fp).length + (expL ec sg eds).length, ok := true } := by
  have hb : isDigit b = true := hid b (by simp)
  have hat0 : At data q (b :: (ds ++ (fracL fp ++ (expL ec sg eds ++ rest)))) := by simpa using hat
  obtain ⟨_, _, hat1⟩ := hat0.cons_inv
  have hlen1 := hat1.length
  have hbq := at_getBang hat0
  -- the accumulator after the first digit
  have hacc1 : ∀ X, accDigits ((b :: ds) ++ X) (0, 0, false) = accDigits (ds ++ X) (if b == 48 then 0 else b.toNat - 48, 1, false) := by
    intro X
    simp only [List.cons_append, accDigits]
    have h19 : ¬ (0 ≥ 19) := by omega
    simp only [h19, if_false, Nat.zero_mul, Nat.zero_add]
    rw [Nat.mod_eq_of_lt (digit_val_lt b)]
    by_cases h48 : (b == 48) = true
    · have : b = 48 := by simpa using h48
      subst this; rfl
    · simp [h48]
  cases ds with
  | nil =>
    -- a single integer digit
    simp only [List.cons_append, List.nil_append] at hat1 hacc1 ⊢
    cases fp with
    | cons d fs =>
      -- `b . d fs`
      have hat1' : At data (q + 1) (46 :: ((d :: fs) ++ (expL ec sg eds ++ rest))) := by simpa [fracL] using hat1
      obtain ⟨_, _, hat2⟩ := hat1'.cons_inv
      have hlen2 := hat2.length
      have hl1' := hat1'.length
      have hpe : (q + 1 == data.size) = false := by
        simp only [List.length_cons] at hl1'; simp; omega
      have hcq := at_getBang hat1'
      have hloop := loop_frac_val data (d :: fs) (expL ec sg eds ++ rest) (data.size - (q + 1 + 1)) (q + 1 + 1)
        (if b == 48 then 0 else b.toNat - 48) 1 1 1 false hfd (hfpStop (by simp)) hat2
        (by simp only [List.length_append] at hlen2; omega)
      simp only [digitsPart, hpe, Bool.false_eq_true, if_false, hcq, beq_self_eq_true, if_true, hloop]
      have hat3 := at_suffix hat2 (d :: fs).length (by simp)
      rw [List.drop_left] at hat3
      have hprev := last_digit hat2 hfd (by simp)
      have hpp : q + 1 + 1 + (d :: fs).length - 1 = q + 1 + 1 + (d :: fs).length - 1 := rfl
      rw [finish_digits data _ _ _ 1 true neg _ _ ec sg eds rest hat3 hed hec hsg hnoE hstop hprev]
      rw [hacc1 (d :: fs)]
      simp only [List.nil_append, Bool.not_true, Bool.false_eq_true, if_false, fracL, List.length_cons, List.length_nil]
      congr 1
      omega
    | nil =>
      have hat1' : At data (q + 1) (expL ec sg eds ++ rest) := by simpa [fracL] using hat1
      have hprev : isDigit data[q + 1 - 1]! = true := by
        have : q + 1 - 1 = q := by omega
        rw [this, hbq]; exact hb
      have hfin := finish_digits data (if b == 48 then 0 else b.toNat - 48) 1 1 0 false neg false (q + 1) ec sg eds rest hat1' hed hec hsg hnoE hstop hprev
      have hgoal : digitsPart data neg q b = readFloatFinish data (if b == 48 then 0 else b.toNat - 48) 1 1 0 false true neg false (q + 1) := by
        cases hZ : expL ec sg eds ++ rest with
        | nil =>
          rw [hZ] at hat1'
          have hpe : (q + 1 == data.size) = true := by have := hat1'.nil_inv; simp; omega
          simp only [digitsPart, hpe, if_true]
        | cons c t =>
          rw [hZ] at hat1'
          have hl := hat1'.length
          have hpe : (q + 1 == data.size) = false := by simp only [List.length_cons] at hl; simp; omega
          have hcq := at_getBang hat1'
          have hc46 : (c == 46) = false := by
            by_cases hh : (c == 46) = true
            · have : c = 46 := by simpa using hh
              subst this
              exact absurd hZ (hnoDot rfl t)
            · simpa using hh
          simp only [digitsPart, hpe, Bool.false_eq_true, if_false, hcq, hc46, digit_cases]
          by_cases hcd : isDigit c = true
          · -- only possible after a single `0`
            have hip : [b] = [48] := by
              rcases hlead with h | h
              · exact h
              · exfalso
                have hnd := hipStop (by intro hh; injection hh with h1 _; exact h [] (by rw [h1]))
                have hnd' : noDigitHead (expL ec sg eds ++ rest) := by simpa [fracL] using hnd
                have := hnd' c t hZ
                rw [hcd] at this; cases this
            injection hip with hb48 _
            subst hb48
            simp [hcd]
          · simp [hcd]
      rw [hgoal, hfin, hacc1 []]
      simp only [List.append_nil, accDigits, Bool.not_false, if_true, fracL, List.length_cons, List.length_nil]
      rfl
  | cons c ds' =>
    -- at least two integer digits: the first is not `0`
    have hb48 : b ≠ 48 := by
      rcases hlead with h | h
      · injection h with _ h2; cases h2
      · intro hh; exact h (c :: ds') (by rw [hh])
    have hb48' : (b == 48) = false := by simpa using hb48
    have hc : isDigit c = true := hid c (by simp)
    have hat1' : At data (q + 1) (c :: (ds' ++ (fracL fp ++ (expL ec sg eds ++ rest)))) := by simpa using hat1
    obtain ⟨_, _, hat2⟩ := hat1'.cons_inv
    have hlen2 := hat2.length
    have hl1' := hat1'.length
    have hpe : (q + 1 == data.size) = false := by simp only [List.length_cons] at hl1'; simp; omega
    have hcq := at_getBang hat1'
    have hc46 : (c == 46) = false := by
      by_cases hh : (c == 46) = true
      · have : c = 46 := by simpa using hh
        subst this; exact absurd hc (by decide)
      · simpa using hh
    have hman0 : ((if b == 48 then 0 else b.toNat - 48) == 0) = false := by
      rw [man_zero_iff b hb]; exact hb48'
    have hnd := hipStop (by intro hh; injection hh with _ h2; cases h2)
    have hloop := loop_int_val data ds' fp (expL ec sg eds ++ rest) (data.size - (q + 1 + 1)) (q + 1 + 1)
      (((if b == 48 then 0 else b.toNat - 48) * 10 + (c.toNat - 48)) % two64) 2 2 0 false
      (fun x hx => hid x (by simp [hx])) hfd hnd hnoDot hfpStop hat2 (by omega)
    simp only [digitsPart, hpe, Bool.false_eq_true, if_false, hcq, hc46, digit_cases, hc, if_true, hman0, hloop]
    -- where the mantissa ends
    have hat3 := at_suffix hat2 (ds' ++ fracL fp).length (by simp)
    have hd3 : (ds' ++ (fracL fp ++ (expL ec sg eds ++ rest))).drop (ds' ++ fracL fp).length = expL ec sg eds ++ rest := by
      rw [← List.append_assoc, List.drop_left]
    rw [hd3] at hat3
    have hP : q + 1 + 1 + (ds' ++ fracL fp).length = q + 1 + 1 + ds'.length + (fracL fp).length := by
      simp only [List.length_append]; omega
    rw [hP] at hat3
    have hprev : isDigit data[q + 1 + 1 + ds'.length + (fracL fp).length - 1]! = true := by
      cases hfp : fp with
      | nil =>
        have hat1c : At data (q + 1) ((c :: ds') ++ (fracL fp ++ (expL ec sg eds ++ rest))) := by simpa using hat1'
        have := last_digit hat1c (fun x hx => hid x (by
          rcases List.mem_cons.mp hx with h | h
          · simp [h]
          · simp [h])) (by simp)
        simp only [fracL, List.length_nil, Nat.add_zero, List.length_cons] at this ⊢
        have e : q + 1 + (ds'.length + 1) - 1 = q + 1 + 1 + ds'.length - 1 := by omega
        rw [e] at this; exact this
      | cons d fs =>
        have hat4 := at_suffix hat2 (ds'.length + 1) (by simp only [hfp, fracL, List.length_append, List.length_cons]; omega)
        have hd4 : (ds' ++ (fracL fp ++ (expL ec sg eds ++ rest))).drop (ds'.length + 1) = (d :: fs) ++ (expL ec sg eds ++ rest) := by
          rw [hfp]
          simp only [fracL, List.cons_append]
          exact drop_len_succ ds' 46 _
        rw [hd4] at hat4
        have := last_digit hat4 (by rw [← hfp]; exact hfd) (by simp)
        simp only [fracL, List.length_cons] at this ⊢
        have e : q + 1 + 1 + (ds'.length + 1) + (fs.length + 1) - 1 = q + 1 + 1 + ds'.length + (fs.length + 1 + 1) - 1 := by omega
        rw [e] at this; exact this
    rw [finish_digits data _ _ _ _ _ neg _ _ ec sg eds rest hat3 hed hec hsg hnoE hstop hprev]
    rw [hacc1 fp]
    have hacc2 : accDigits (c :: ds' ++ (c :: ds' ++ fp).drop (c :: ds').length) (if b == 48 then 0 else b.toNat - 48, 1, false) =
        accDigits (ds' ++ fp) (((if b == 48 then 0 else b.toNat - 48) * 10 + (c.toNat - 48)) % two64, 2, false) := by
      simp only [List.cons_append, List.length_cons, List.drop_succ_cons, List.drop_left, accDigits]
      have h19 : ¬ (1 ≥ 19) := by omega
      simp only [h19, if_false]
    have hacc3 : accDigits (c :: ds' ++ (c :: ds' ++ fp)) (if b == 48 then 0 else b.toNat - 48, 1, false) = accDigits (c :: ds' ++ (c :: ds' ++ fp)) (if b == 48 then 0 else b.toNat - 48, 1, false) := rfl
    have hacc4 : accDigits (c :: ds' ++ fp) (if b == 48 then 0 else b.toNat - 48, 1, false) =
        accDigits (ds' ++ fp) (((if b == 48 then 0 else b.toNat - 48) * 10 + (c.toNat - 48)) % two64, 2, false) := by
      simp only [List.cons_append, accDigits]
      have h19 : ¬ (1 ≥ 19) := by omega
      simp only [h19, if_false]
    simp only [List.cons_append] at hacc4 ⊢
    rw [hacc4]
    cases hfp : fp with
    | nil =>
      simp only [List.isEmpty_nil, Bool.not_true, Bool.not_false, if_true, fracL, List.length_nil, List.length_cons, List.append_nil]
      congr 1
      · have : ((2 + ds'.length + 0 : Nat) : Int) = ((ds'.length + 1 + 1 : Nat) : Int) := by congr 1; omega
        rw [this]
      · omega
    | cons d fs =>
      have hne : (d :: fs : List UInt8) = [] ↔ False := by simp
      simp only [List.isEmpty_cons, Bool.not_false, Bool.not_true, Bool.false_eq_true, if_false, hne, fracL, List.length_cons]
      congr 1
      · have : ((2 + ds'.length : Nat) : Int) = ((ds'.length + 1 + 1 : Nat) : Int) := by congr 1; omega
        rw [this]
      · omega

/-- what `readFloat` returns on an input that starts with a number literal -/
def rfOf (size : Nat) (neg : Bool) (ip fp sg eds rest : List UInt8) : RF :=
  { mantissa := (accDigits (ip ++ fp) (0, 0, false)).1,
    exp := if (accDigits (ip ++ fp) (0, 0, false)).1 != 0 then
        ((ip.length : Nat) : Int) + (clipAcc (10000 + size) eds 0 : Int) * sgnOf sg - (accDigits (ip ++ fp) (0, 0, false)).2.1
      else 0,
    neg := neg, trunc := (accDigits (ip ++ fp) (0, 0, false)).2.2,
    p := size - rest.length, ok := true }

/-- **`readFloat` on every input that starts with a JSON number**: it succeeds and returns `rfOf` -/
theorem readFloat_shape (data : Bytes) (neg : Bool) (ip fp : List UInt8) (ec : UInt8) (sg eds rest : List UInt8)
    (h : Shape data.toList neg ip fp ec sg eds rest) :
    readFloat data = rfOf data.size neg ip fp sg eds rest := by
  have hat0 := At.start data
  have hsize : data.size = data.toList.length := by simp
  have hlenAll : data.toList.length = (if neg then 1 else 0) + ip.length + (fracL fp).length + (expL ec sg eds).length + rest.length := by
    rw [h.eq]
    cases neg <;> simp only [List.length_append, List.length_cons, List.length_nil, if_true, Bool.false_eq_true, if_false] <;> omega
  cases hip : ip with
  | nil => exact absurd hip h.ipNe
  | cons b ds =>
    have hb : isDigit b = true := h.ipDigits b (by rw [hip]; simp)
    have hb45 : (b == 45) = false := by
      by_cases hh : (b == 45) = true
      · have : b = 45 := by simpa using hh
        subst this; exact absurd hb (by decide)
      · simpa using hh
    have hb46 : (b == 46) = false := by
      by_cases hh : (b == 46) = true
      · have : b = 46 := by simpa using hh
        subst this; exact absurd hb (by decide)
      · simpa using hh
    have hsz0 : (data.size == 0) = false := by
      rw [hsize, hlenAll, hip]; simp only [List.length_cons]; simp
    have hshape := h
    rw [hip] at hshape
    cases hneg : neg with
    | true =>
      rw [hneg] at hshape hlenAll
      have heq := hshape.eq
      simp only [if_true, List.cons_append, List.nil_append] at heq
      rw [heq] at hat0
      obtain ⟨_, _, hat1⟩ := hat0.cons_inv
      have hb0 := at_getBang hat0
      have hat1' : At data 1 ((b :: ds) ++ (fracL fp ++ (expL ec sg eds ++ rest))) := by simpa using hat1
      have hat1c : At data 1 (b :: (ds ++ (fracL fp ++ (expL ec sg eds ++ rest)))) := by simpa using hat1
      have hb1 := at_getBang hat1c
      have hpe : (1 == data.size) = false := by
        rw [hsize, hlenAll, hip]; simp only [List.length_cons, if_true]; simp; omega
      have hrf : readFloat data = digitsPart data true 1 b := by
        simp only [FP.readFloat, hsz0, Bool.false_eq_true, if_false, hb0, beq_self_eq_true, if_true, hpe, hb1, hb46,
          digit_cases, hb, Bool.not_true, digitsPart]
      rw [hrf, digitsPart_val data true 1 b ds fp ec sg eds rest hat1' hshape.ipDigits hshape.ipLead hshape.fpDigits hshape.edsDigits
        hshape.ecE hshape.sgS hshape.ipStop hshape.noDot hshape.fpStop hshape.noE hshape.edsStop]
      simp only [rfOf]
      congr 1
      rw [hsize, hlenAll, hip]
      simp only [if_true, List.length_cons]
      omega
    | false =>
      rw [hneg] at hshape hlenAll
      have heq := hshape.eq
      simp only [Bool.false_eq_true, if_false, List.nil_append] at heq
      rw [heq] at hat0
      have hat0c : At data 0 (b :: (ds ++ (fracL fp ++ (expL ec sg eds ++ rest)))) := by simpa using hat0
      have hb0 := at_getBang hat0c
      have hpe : (0 == data.size) = false := by
        rw [hsize, hlenAll, hip]; simp only [List.length_cons]; simp; omega
      have hrf : readFloat data = digitsPart data false 0 b := by
        simp only [FP.readFloat, hsz0, Bool.false_eq_true, if_false, hb0, hb45, hpe, hb46,
          digit_cases, hb, Bool.not_true, digitsPart]
      rw [hrf, digitsPart_val data false 0 b ds fp ec sg eds rest hat0 hshape.ipDigits hshape.ipLead hshape.fpDigits hshape.edsDigits
        hshape.ecE hshape.sgS hshape.ipStop hshape.noDot hshape.fpStop hshape.noE hshape.edsStop]
      simp only [rfOf]
      congr 1
      rw [hsize, hlenAll, hip]
      simp only [Bool.false_eq_true, if_false, List.length_cons]
      omega

end RJson.FloatValue
