import RJson.Model.Ragel
/-!
# Two handlers related by a projection of their states give related runs

If `h1` over states `τ1` and `h2` over `τ2` satisfy `proj (h1 s f x).1 = (h2 (proj s) f x).1` with equal offsets and
error ids, every run of a machine with `h1` projects to the run with `h2`.  Used to show that the extra state a
`ValueReader` carries (size hints, depth, pooled children) never influences what it returns.
-/
namespace RJson.HandlerSim
open RJson.Ragel

variable {τ1 τ2 : Type}

def mapRegs (f : τ1 → τ2) (r : Regs τ1) : Regs τ2 :=
  { p := r.p, err := r.err, fs := r.fs, fe := r.fe, val := r.val, seg := r.seg, dst := r.dst, hs := f r.hs, ncalls := r.ncalls }

def mapRes (f : τ1 → τ2) (r : Result τ1) : Result τ2 :=
  { kind := r.kind, p := r.p, val := r.val, dst := r.dst, hs := f r.hs, ncalls := r.ncalls }

def mapActR (f : τ1 → τ2) : ActR τ1 → ActR τ2
  | .cont r => .cont (mapRegs f r)
  | .stop res => .stop (mapRes f res)

def mapActsR {σ} (f : τ1 → τ2) : ActsR σ τ1 → ActsR σ τ2
  | .stop res => .stop (mapRes f res)
  | .next tgt st r => .next tgt st (mapRegs f r)

/-- the two handlers agree up to the projection -/
def HSim (f : τ1 → τ2) (h1 : Handler τ1) (h2 : Handler τ2) : Prop :=
  ∀ s fld x, f (h1 s fld x).1 = (h2 (f s) fld x).1 ∧ (h1 s fld x).2 = (h2 (f s) fld x).2

theorem finish_map (f : τ1 → τ2) (r : Regs τ1) : (mapRegs f r).finish = mapRes f r.finish := rfl

theorem stop_map (f : τ1 → τ2) (r : Regs τ1) (k : Kind) (p : Int) (dst : Bytes) :
    (mapRegs f r).stop k p dst = mapRes f (r.stop k p dst) := rfl

theorem handlerArgs_map (f : τ1 → τ2) (data : Bytes) (hf : Bool) (flo fhi : GExpr) (r : Regs τ1) :
    handlerArgs data hf flo fhi (mapRegs f r) = handlerArgs data hf flo fhi r := rfl

/-- what happens after a guarded handler call returned `(pp, e)` -/
def afterHandler {τ} (retP : GExpr) (gNeg gNz gRange : Guard) (newP : GExpr) (data : Bytes) (r : Regs τ) (pp : Int) (e : Option Nat) : ActR τ :=
  let env := r.env pp data.size
  match e with
  | some id => .stop (r.stop (.herr id) (retP.eval env))
  | none =>
    if gNeg.eval env then .stop ({ r with p := wrap64 (r.p + 1), err := some .pOutOfRange }).finish
    else if gNz.eval env then
      if gRange.eval env then .stop ({ r with p := wrap64 (r.p + 1), err := some .pOutOfRange }).finish
      else .cont { r with p := newP.eval env, err := none }
    else .cont { r with err := none }

theorem afterHandler_map (f : τ1 → τ2) (retP : GExpr) (gNeg gNz gRange : Guard) (newP : GExpr) (data : Bytes) (r : Regs τ1) (pp : Int)
    (e : Option Nat) :
    afterHandler retP gNeg gNz gRange newP data (mapRegs f r) pp e = mapActR f (afterHandler retP gNeg gNz gRange newP data r pp e) := by
  have henv : (mapRegs f r).env pp data.size = r.env pp data.size := rfl
  cases e with
  | some id => rfl
  | none =>
    simp only [afterHandler, henv]
    by_cases g1 : gNeg.eval (r.env pp data.size) = true
    · rw [if_pos g1, if_pos g1]; rfl
    · rw [if_neg g1, if_neg g1]
      by_cases g2 : gNz.eval (r.env pp data.size) = true
      · rw [if_pos g2, if_pos g2]
        by_cases g3 : gRange.eval (r.env pp data.size) = true
        · rw [if_pos g3, if_pos g3]; rfl
        · rw [if_neg g3, if_neg g3]; rfl
      · rw [if_neg g2, if_neg g2]; rfl

theorem execSimple_sim (f : τ1 → τ2) (h1 : Handler τ1) (h2 : Handler τ2) (hs : HSim f h1 h2) (data : Bytes) (hf : Bool)
    (a : SAct) (r : Regs τ1) :
    execSimple data hf h2 a (mapRegs f r) = mapActR f (execSimple data hf h1 a r) := by
  cases a with
  | handler retP gNeg gNz gRange newP flo fhi =>
    simp only [execSimple, handlerArgs_map]
    cases handlerArgs data hf flo fhi r with
    | none => rfl
    | some fs =>
      obtain ⟨fld, suffix⟩ := fs
      obtain ⟨e1, e2⟩ := hs r.hs fld suffix
      simp only []
      have hhs : (mapRegs f r).hs = f r.hs := rfl
      rw [hhs]
      generalize hr1 : h1 r.hs fld suffix = r1 at e1 e2
      generalize hr2 : h2 (f r.hs) fld suffix = r2 at e1 e2
      obtain ⟨a1, b1, c1⟩ := r1
      obtain ⟨a2, b2, c2⟩ := r2
      simp only [Prod.mk.injEq] at e1 e2
      obtain ⟨rfl, rfl⟩ := e2
      subst e1
      simp only []
      exact afterHandler_map f retP gNeg gNz gRange newP data
        { r with hs := a1, ncalls := r.ncalls + 1 } b1 c1
  | handlerSimple retP flo fhi =>
    simp only [execSimple, handlerArgs_map]
    cases handlerArgs data hf flo fhi r with
    | none => rfl
    | some fs =>
      obtain ⟨fld, suffix⟩ := fs
      obtain ⟨e1, e2⟩ := hs r.hs fld suffix
      simp only []
      have hhs : (mapRegs f r).hs = f r.hs := rfl
      rw [hhs]
      generalize hr1 : h1 r.hs fld suffix = r1 at e1 e2
      generalize hr2 : h2 (f r.hs) fld suffix = r2 at e1 e2
      obtain ⟨a1, b1, c1⟩ := r1
      obtain ⟨a2, b2, c2⟩ := r2
      simp only [Prod.mk.injEq] at e1 e2
      obtain ⟨rfl, rfl⟩ := e2
      subst e1
      cases c1 <;> rfl
  | errReturn e => rfl
  | errReturnByte =>
    simp only [execSimple]
    have : (mapRegs f r).p = r.p := rfl
    rw [this]
    cases getByte data r.p <;> rfl
  | setErr e => rfl
  | brk => rfl
  | floatDec =>
    simp only [execSimple]
    have : (mapRegs f r).p = r.p := rfl
    rw [this]
    cases skipFloatDec data (wrap64 (r.p + 1)) data.size with
    | none => rfl
    | some pr => obtain ⟨p', e⟩ := pr; cases e <;> rfl
  | floatExp =>
    simp only [execSimple]
    have : (mapRegs f r).p = r.p := rfl
    rw [this]
    cases skipFloatExp data (wrap64 (r.p + 1)) data.size with
    | none => rfl
    | some pr => obtain ⟨p', e⟩ := pr; cases e <;> rfl
  | fieldStart => rfl
  | fieldEnd => rfl
  | setBool b => rfl
  | segStart => rfl
  | appendSeg =>
    simp only [execSimple]
    have h1 : (mapRegs f r).p = r.p := rfl
    have h2 : (mapRegs f r).seg = r.seg := rfl
    rw [h1, h2]
    cases sliceChecked data r.seg r.p <;> rfl
  | appendByte c => rfl
  | unescapeU =>
    simp only [execSimple]
    have h1 : (mapRegs f r).p = r.p := rfl
    have h2 : (mapRegs f r).seg = r.seg := rfl
    have h3 : (mapRegs f r).dst = r.dst := rfl
    rw [h1, h2, h3]
    split
    · split
      · cases getByte data r.p <;> rfl
      · split <;> rfl
    · rfl

theorem runEof_sim (f : τ1 → τ2) (h1 : Handler τ1) (h2 : Handler τ2) (hs : HSim f h1 h2) (data : Bytes) (hf : Bool) :
    ∀ (acts : List SAct) (r : Regs τ1), runEof data hf h2 acts (mapRegs f r) = mapRes f (runEof data hf h1 acts r) := by
  intro acts
  induction acts with
  | nil => intro r; rfl
  | cons a rest ih =>
    intro r
    simp only [runEof, execSimple_sim f h1 h2 hs]
    cases execSimple data hf h1 a r with
    | stop res => rfl
    | cont r' => exact ih r'

theorem execActsL_sim {σ} (f : τ1 → τ2) (h1 : Handler τ1) (h2 : Handler τ2) (hs : HSim f h1 h2) (M : PDM σ) (data : Bytes) :
    ∀ (acts : List (Act σ)) (tgt : Option σ) (st : List σ) (r : Regs τ1),
      execActsL M data h2 acts tgt st (mapRegs f r) = mapActsR f (execActsL M data h1 acts tgt st r) := by
  intro acts
  induction acts with
  | nil => intro tgt st r; rfl
  | cons a rest ih =>
    intro tgt st r
    cases a with
    | s sa =>
      simp only [execActsL]
      split
      · rfl
      · rw [execSimple_sim f h1 h2 hs]
        cases execSimple data M.hasField h1 sa r with
        | stop res => rfl
        | cont r' => exact ih tgt st r'
    | call limit rs en =>
      simp only [execActsL]
      split
      · rfl
      · exact ih (some en) (rs :: st) r
    | ret =>
      simp only [execActsL]
      cases st with
      | nil => rfl
      | cons top st' => exact ih (some top) st' r

theorem loopL_sim {σ} (f : τ1 → τ2) (h1 : Handler τ1) (h2 : Handler τ2) (hs : HSim f h1 h2) (M : PDM σ) (data : Bytes) :
    ∀ (fuel : Nat) (cs : σ) (st : List σ) (r : Regs τ1),
      loopL M data h2 fuel cs st (mapRegs f r) = mapRes f (loopL M data h1 fuel cs st r) := by
  intro fuel
  induction fuel with
  | zero => intro cs st r; rfl
  | succ fuel ih =>
    intro cs st r
    simp only [loopL]
    have hp : (mapRegs f r).p = r.p := rfl
    rw [hp]
    cases getByte data r.p with
    | none => rfl
    | some b =>
      simp only []
      rw [execActsL_sim f h1 h2 hs]
      cases execActsL M data h1 (M.step cs b).1 (M.step cs b).2 st r with
      | stop res => rfl
      | next tgt st' r' =>
        cases tgt with
        | none => rfl
        | some n =>
          simp only [mapActsR]
          have hreg : ({ mapRegs f r' with p := wrap64 ((mapRegs f r').p + 1) } : Regs τ2) =
              mapRegs f { r' with p := wrap64 (r'.p + 1) } := rfl
          by_cases hc : (wrap64 (r'.p + 1) == (data.size : Int)) = true
          · have e1 : (({ mapRegs f r' with p := wrap64 ((mapRegs f r').p + 1) } : Regs τ2).p == (data.size : Int)) = true := hc
            have e2 : (({ r' with p := wrap64 (r'.p + 1) } : Regs τ1).p == (data.size : Int)) = true := hc
            rw [if_pos e1, if_pos e2, hreg]
            exact runEof_sim f h1 h2 hs data M.hasField (M.eof n) { r' with p := wrap64 (r'.p + 1) }
          · have e1 : ¬ (({ mapRegs f r' with p := wrap64 ((mapRegs f r').p + 1) } : Regs τ2).p == (data.size : Int)) = true := hc
            have e2 : ¬ (({ r' with p := wrap64 (r'.p + 1) } : Regs τ1).p == (data.size : Int)) = true := hc
            rw [if_neg e1, if_neg e2, hreg]
            exact ih n st' { r' with p := wrap64 (r'.p + 1) }

/-- **runs with related handlers are related** -/
theorem runL_sim {σ} (f : τ1 → τ2) (h1 : Handler τ1) (h2 : Handler τ2) (hs : HSim f h1 h2) (M : PDM σ) (data : Bytes)
    (dst : Bytes) (s : τ1) : runL M data h2 dst (f s) = mapRes f (runL M data h1 dst s) := by
  simp only [runL]
  have hi : initRegs dst (f s) = mapRegs f (initRegs dst s) := rfl
  rw [hi]
  split
  · exact runEof_sim f h1 h2 hs data M.hasField (M.eof M.start) (initRegs dst s)
  · exact loopL_sim f h1 h2 hs M data (fuelFor data) M.start [] (initRegs dst s)

end RJson.HandlerSim
