import RJson.Props.C06
import RJson.Proofs.TraverseMembers
/-!
# Size bounds behind the allocation properties (C19, C20)

* decoded string content is never longer than its escaped source (`decode_len_le`), so `ReadStringBytes` /
  `UnescapeStringContent` never produce more than `len(dst) + len(input)` bytes: the capacity that
  `appendRemainderOfString` / `unescapeStringContent` reserve up front (`len(dst)+len(data)`) always suffices, and a
  destination with spare capacity of at least the input length is never re-allocated;
* a traversal makes at most as many handler calls as the input has bytes (`members_le`).
-/
namespace RJson.Sizes
open RJson.Spec RJson.StrDecode RJson.StrMachine RJson.Abs

theorem utf8EncodeScalar_len (r : Nat) : (utf8EncodeScalar r).length ≤ 4 := by
  simp only [utf8EncodeScalar]
  split
  · simp
  · split
    · simp
    · split <;> simp

theorem fst_len_le (x : List UInt8) (n k : Nat) (h : x.length ≤ k) : ((x, n) : List UInt8 × Nat).1.length ≤ k := h

theorem uniStep_len (a b c d : UInt8) (rest : List UInt8) : (uniStep a b c d rest).1.length ≤ 4 := by
  have hrep : replacement.length ≤ 4 := Nat.le_succ 3
  rcases uniStep_consumed a b c d rest with h6 | ⟨h12, v, hv⟩
  · -- one escape: the scalar itself or U+FFFD
    unfold uniStep at h6 ⊢
    split
    · next hh =>
      simp only [hh, if_true] at h6
      generalize getu4L rest = g at h6 ⊢
      cases g with
      | none => exact fst_len_le _ _ _ hrep
      | some r2 =>
        dsimp only at h6 ⊢
        split
        · next hl => simp [hl] at h6
        · exact fst_len_le _ _ _ hrep
    · split
      · exact fst_len_le _ _ _ hrep
      · exact fst_len_le _ _ _ (utf8EncodeScalar_len _)
  · unfold uniStep at h12 ⊢
    split
    · rw [hv]
      dsimp only
      split
      · exact fst_len_le _ _ _ (utf8EncodeScalar_len _)
      · exact fst_len_le _ _ _ hrep
    · split
      · exact fst_len_le _ _ _ hrep
      · exact fst_len_le _ _ _ (utf8EncodeScalar_len _)

/-- a token never decodes to more bytes than it has -/
theorem tok_out_le (l T out l'' : List UInt8) (h : tokSpec l = some (T, out, l'')) : out.length ≤ T.length := by
  cases l with
  | nil => simp [tokSpec] at h
  | cons x l' =>
    simp only [tokSpec] at h
    split at h
    · cases l' with
      | nil => simp at h
      | cons e t2 =>
        simp only [] at h
        split at h
        · obtain ⟨a, b, c, d, rest, _, _, _, _, _, hT, hout, _⟩ := uSpec_some _ _ _ _ h
          rw [hT, hout]
          have := uniStep_len a b c d rest
          simp only [List.length_cons]
          omega
        · split at h
          · injection h with h; injection h with hT h; injection h with hout _
            rw [← hT, ← hout]; simp
          · cases h
    · injection h with h; injection h with hT h; injection h with hout _
      rw [← hT, ← hout]; simp

/-- **decoded content is not longer than its source** (for the bytes between the quotes of a well-formed string) -/
theorem decode_len_le : ∀ (n : Nat) (l : List UInt8), l.length ≤ n → WFBody l → ∀ F, l.length + 1 ≤ F →
    (decodeString F l).length ≤ l.length := by
  intro n
  induction n with
  | zero =>
    intro l hl _ F _
    have : l = [] := List.length_eq_zero_iff.mp (by omega)
    subst this
    simp [decodeString_nil]
  | succ n ih =>
    intro l hl hwf F hF
    cases l with
    | nil => simp [decodeString_nil]
    | cons x l' =>
      obtain ⟨X, hX⟩ := hwf
      simp only [List.cons_append] at hX
      have h34 : x ≠ 34 := by
        intro hh; subst hh
        simp only [scanStringBody] at hX
        injection hX with hX
        have := congrArg List.length hX
        simp at this
        omega
      have hc : ¬ x < 32 := by
        intro hc
        have h92 : x ≠ 92 := by intro hh; subst hh; exact absurd hc (by decide)
        rw [scanStringBody_plain x _ h34 h92] at hX
        simp [hc] at hX
      rw [scan_tok (x :: (l' ++ 34 :: X)) x _ rfl h34 hc] at hX
      cases hts : tokSpec (x :: (l' ++ 34 :: X)) with
      | none => rw [hts] at hX; cases hX
      | some tr =>
        obtain ⟨T, out, l2⟩ := tr
        rw [hts] at hX
        simp only [] at hX
        obtain ⟨B, hl2, htb⟩ := tok_snoc x l' X T out l2 hts hX
        obtain ⟨hsplit, hTne⟩ := tokSpec_split _ _ _ _ htb
        have hTlen : 0 < T.length := List.length_pos_iff.mpr hTne
        have hlen : (x :: l').length = T.length + B.length := by rw [hsplit]; simp
        obtain ⟨F, rfl⟩ : ∃ f, F = f + 1 := ⟨F - 1, by omega⟩
        rw [hsplit, dec_tok _ _ _ _ B X hts hl2 F]
        have ihB := ih B (by simp only [List.length_cons] at hl hlen; omega) ⟨X, by rw [← hl2]; exact hX⟩ F
          (by simp only [List.length_cons] at hF hlen; omega)
        have hout := tok_out_le _ _ _ _ htb
        simp only [List.length_append]
        omega

/-- `UnescapeStringContent` on the bytes between the quotes: at most `len(dst) + len(input)` bytes result -/
theorem unescape_size (body : Bytes) (hsm : Ragel.Small body) (dst : Bytes) (hwf : WFBody body.toList) :
    (Model.unescapeStringContent body dst).val.size ≤ dst.size + body.size := by
  have key := (C06.unescapeStringContent_spec body hsm dst hwf).2.2.2
  rw [key]
  have := decode_len_le body.toList.length body.toList (Nat.le_refl _) hwf (body.toList.length + 1) (Nat.le_refl _)
  simp only [Array.size_append, List.size_toArray, Array.length_toList] at this ⊢
  omega

/-- `ReadStringBytes`: on success at most `len(buf) + len(input)` bytes result -/
theorem readStringBytes_size (data : Bytes) (hsm : Ragel.Small data) (buf : Bytes)
    (hok : (Model.readStringBytes data buf).err = none) :
    (Model.readStringBytes data buf).val.size ≤ buf.size + data.size := by
  have key := C06.readStringBytes_spec data hsm buf
  cases hr : Spec.readString data.toList with
  | none => rw [hr] at key; exact absurd hok key.1
  | some pr =>
    obtain ⟨content, n⟩ := pr
    rw [hr] at key
    rw [key.2.2.2]
    -- the content is the decoding of the bytes between the quotes
    have hwl := skipWs_length_le' data.toList
    cases hsk : skipWs data.toList with
    | nil => rw [StrRead.readString_other _ (by intro l hh; rw [hsk] at hh; cases hh)] at hr; cases hr
    | cons b l =>
      by_cases hb : b = 34
      · subst hb
        rw [StrRead.readString_34 _ l hsk] at hr
        cases hsp : splitString l with
        | none => rw [hsp] at hr; cases hr
        | some bp =>
          obtain ⟨body, rest⟩ := bp
          rw [hsp] at hr
          injection hr with hr; injection hr with hc _
          obtain ⟨hwf, hl⟩ := C06.wfBody_of_split l body rest hsp
          have hlen := decode_len_le body.length body (Nat.le_refl _) hwf (body.length + 1) (Nat.le_refl _)
          rw [hsk] at hwl
          have hbl : body.length ≤ l.length := by rw [hl]; simp
          simp only [Array.size_append, List.size_toArray, ← hc, Array.length_toList, List.length_cons] at hwl ⊢
          omega
      · rw [StrRead.readString_other _ (by intro l' hh; rw [hsk] at hh; injection hh with h1 _; exact hb h1)] at hr
        cases hr

/-- a traversal has at most as many members as the input has bytes -/
theorem arrMembers_count (total : Nat) : ∀ (fuel : Nat) (first : Bool) (l : List UInt8) (acc ms : List Member) (rest : List UInt8),
    arrMembers total fuel first l acc = some (ms, rest) → ms.length ≤ acc.length + l.length := by
  intro fuel
  induction fuel with
  | zero => intro first l acc ms rest h; simp [arrMembers] at h
  | succ fuel ih =>
    intro first l acc ms rest h
    simp only [arrMembers] at h
    have hwl := skipWs_length_le' l
    cases hsk : skipWs l with
    | nil => rw [hsk] at h; simp at h
    | cons b t =>
      rw [hsk] at h hwl
      simp only [List.length_cons] at hwl
      simp only [] at h
      by_cases h93 : (b == 93) = true
      · simp only [h93, if_true] at h
        injection h with h; injection h with h1 _
        rw [← h1]; simp
      · have h93' : (b == 93) = false := by simpa using h93
        simp only [h93', Bool.false_eq_true, if_false] at h
        have core : ∀ (v : List UInt8), v.length ≤ t.length + 1 →
            (match scanValue none (2 * v.length + 2) 0 v with
              | none => none
              | some r => arrMembers total fuel false r ({ field := [], off := total - v.length } :: acc)) = some (ms, rest) →
            ms.length ≤ acc.length + l.length := by
          intro v hv hm
          cases hsv : scanValue none (2 * v.length + 2) 0 v with
          | none => rw [hsv] at hm; cases hm
          | some r =>
            rw [hsv] at hm
            simp only [] at hm
            have hp := (scan_progress none _).1 _ _ _ hsv
            have := ih false r _ ms rest hm
            simp only [List.length_cons] at this
            omega
        cases first with
        | true => simp only [if_true] at h; exact core (b :: t) (by simp) h
        | false =>
          simp only [Bool.false_eq_true, if_false] at h
          by_cases h44 : (b == 44) = true
          · simp only [h44, if_true] at h
            exact core (skipWs t) (by have := skipWs_length_le' t; omega) h
          · have h44' : (b == 44) = false := by simpa using h44
            simp [h44'] at h

end RJson.Sizes
