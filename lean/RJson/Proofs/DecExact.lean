import RJson.Proofs.DecTotal
/-!
# When the multiprecision run is exact

A shift drops a non-zero digit exactly when the exact result needs more than 800 significant digits (`DecApprox`: the
flag is `old flag || dropped tail ≠ 0`). So if every value `X · 2^s` the run passes through has at most 800 significant
digits (`Fits`), the truncation flag never comes on: `Decimal.exactRun`. For a decimal with at most 60 digits,
`X = D · 10^E`, this holds for every shift amount the run can reach (`-1056 ≤ s ≤ 1200`): `D · 2^s` resp.
`D · 5^|s|` stay below `10^800`.
-/
namespace RJson.Dec
open RJson.FP

/-- at most 800 significant decimal digits -/
def Fits (x : ℚ) : Prop := ∃ (n : ℕ) (k : ℤ), n < 10 ^ 800 ∧ x = (n : ℚ) * 10 ^ k

/-- if the exact result has at most 800 significant digits, nothing but zeros was cut off -/
theorem fits_delta_zero (b : Decimal) (hwf : WF b) (hnz : NZ b) (hnd : 1 ≤ b.nd) (x δ : ℚ) (h0 : 0 ≤ δ)
    (h1 : δ < 10 ^ (b.dp - 800)) (hx : x = aval b + δ) (hfit : Fits x) : δ = 0 := by
  obtain ⟨n, k, hn, hxn⟩ := hfit
  have hlo := aval_ge_of_nz b hnz hnd
  have hp1 : (0 : ℚ) < 10 ^ (b.dp - 1) := by positivity
  -- `k ≥ dp - 800`
  have hk : b.dp - 800 ≤ k := by
    by_contra hcon
    have hk' : k ≤ b.dp - 801 := by omega
    have hnq : (n : ℚ) < 10 ^ (800 : ℕ) := by exact_mod_cast hn
    have : x < 10 ^ (b.dp - 1) := by
      rw [hxn]
      calc (n : ℚ) * 10 ^ k < 10 ^ (800 : ℕ) * 10 ^ k := mul_lt_mul_of_pos_right hnq (by positivity)
        _ = 10 ^ (((800 : ℕ) : ℤ) + k) := by rw [zpow_add₀ (by norm_num), zpow_natCast]
        _ ≤ 10 ^ (b.dp - 1) := zpow_le_zpow_right₀ (by norm_num) (by push_cast; omega)
    rw [hx] at this
    linarith
  -- scale by `10^(800 - dp)`: everything becomes an integer
  have hsc : δ * 10 ^ (800 - b.dp) = (n : ℚ) * 10 ^ (k + 800 - b.dp) - (val b.d b.nd : ℚ) * 10 ^ (800 - (b.nd : ℤ)) := by
    have hd : δ = (n : ℚ) * 10 ^ k - aval b := by rw [← hxn, hx]; ring
    rw [hd]
    simp only [aval]
    rw [sub_mul, mul_assoc, ← zpow_add₀ (by norm_num), mul_assoc, ← zpow_add₀ (by norm_num)]
    congr 2
    · ring
    · ring
  have hA : (n : ℚ) * 10 ^ (k + 800 - b.dp) = ((n * 10 ^ (k + 800 - b.dp).toNat : ℕ) : ℚ) := by
    push_cast
    rw [← zpow_natCast, Int.toNat_of_nonneg (by omega)]
  have hB : (val b.d b.nd : ℚ) * 10 ^ (800 - (b.nd : ℤ)) = ((val b.d b.nd * 10 ^ (800 - b.nd) : ℕ) : ℚ) := by
    push_cast
    rw [← zpow_natCast]
    congr 2
    have := hwf.nd
    omega
  rw [hA, hB] at hsc
  have hlt1 : δ * 10 ^ (800 - b.dp) < 1 := by
    calc δ * 10 ^ (800 - b.dp) < 10 ^ (b.dp - 800) * 10 ^ (800 - b.dp) := mul_lt_mul_of_pos_right h1 (by positivity)
      _ = 1 := by rw [← zpow_add₀ (by norm_num)]; simp
  have hge0 : 0 ≤ δ * 10 ^ (800 - b.dp) := mul_nonneg h0 (by positivity)
  -- a difference of naturals in `[0, 1)` is zero
  have hz : δ * 10 ^ (800 - b.dp) = 0 := by
    rw [hsc] at hlt1 hge0 ⊢
    have h2 : ((val b.d b.nd * 10 ^ (800 - b.nd) : ℕ) : ℚ) ≤ ((n * 10 ^ (k + 800 - b.dp).toNat : ℕ) : ℚ) := by linarith
    have h3 : ((n * 10 ^ (k + 800 - b.dp).toNat : ℕ) : ℚ) < ((val b.d b.nd * 10 ^ (800 - b.nd) : ℕ) : ℚ) + 1 := by linarith
    have h2' : val b.d b.nd * 10 ^ (800 - b.nd) ≤ n * 10 ^ (k + 800 - b.dp).toNat := by exact_mod_cast h2
    have h3' : n * 10 ^ (k + 800 - b.dp).toNat < val b.d b.nd * 10 ^ (800 - b.nd) + 1 := by exact_mod_cast h3
    have : n * 10 ^ (k + 800 - b.dp).toNat = val b.d b.nd * 10 ^ (800 - b.nd) := by omega
    rw [this]; simp
  have hp : (10 : ℚ) ^ (800 - b.dp) ≠ 0 := by positivity
  exact (mul_eq_zero.mp hz).resolve_right hp

/-- **`rightShift`, forward**: an untruncated decimal whose quotient fits stays untruncated and exact -/
theorem rightShift_exact (a : Decimal) (h : WF a) (hnz : NZ a) (hnd : 1 ≤ a.nd) (k : Nat) (hk1 : 1 ≤ k) (hk : k ≤ 60)
    (htr : a.trunc = false) (hfit : Fits (aval a / 2 ^ k)) :
    (rightShift a k).trunc = false ∧ aval (rightShift a k) = aval a / 2 ^ k := by
  obtain ⟨hwf, hnz', _, hpos, _, _⟩ := rightShift_spec a h k hk1 hk
  obtain ⟨δ, d0, d1, dY, dfl⟩ := rightShift_approx a h hnz hnd k hk1 hk
  have hz := fits_delta_zero _ hwf hnz' (hpos hnz hnd) _ δ d0 d1 dY hfit
  subst hz
  rw [dfl, htr]
  exact ⟨by simp, by rw [dY]; simp⟩

/-- **`leftShift`, forward** -/
theorem leftShift_exact (a : Decimal) (h : WF a) (hnz : NZ a) (hnd : 1 ≤ a.nd) (k : Nat) (hk1 : 1 ≤ k) (hk : k ≤ 60)
    (htr : a.trunc = false) (hfit : Fits (aval a * 2 ^ k)) :
    ∃ b, leftShift a k = some b ∧ b.trunc = false ∧ aval b = aval a * 2 ^ k := by
  obtain ⟨b, hb, hwf, hnz', _, hbnd, _, _⟩ := leftShift_spec a h hnz hnd k hk1 hk
  obtain ⟨b', hb', δ, d0, d1, dY, dfl⟩ := leftShift_approx a h hnz hnd k hk1 hk
  rw [hb] at hb'; injection hb' with hb'; subst hb'
  have hz := fits_delta_zero b hwf hnz' hbnd _ δ d0 d1 dY hfit
  subst hz
  refine ⟨b, hb, ?_, by rw [dY]; simp⟩
  rw [dfl, htr]; simp

theorem goL_exact : ∀ (fuel : Nat) (a : Decimal) (k : Nat), Good0 a → 1 ≤ a.nd → 1 ≤ k → k ≤ 60 * fuel → a.trunc = false →
    (∀ j : ℕ, 1 ≤ j → j ≤ k → Fits (aval a * 2 ^ j)) →
    ∃ b, Decimal.shift.goL 60 fuel a k = some b ∧ b.trunc = false ∧ aval b = aval a * 2 ^ k := by
  intro fuel
  induction fuel with
  | zero => intro a k _ _ h1 h2; omega
  | succ fuel ih =>
    intro a k hg hnd hk1 hk htr hfit
    simp only [Decimal.shift.goL]
    by_cases hbig : k > 60
    · rw [if_pos hbig]
      obtain ⟨b, hb, hbt, hbv⟩ := leftShift_exact a hg.wf hg.nz hnd 60 (by norm_num) (by norm_num) htr (hfit 60 (by norm_num) (by omega))
      obtain ⟨b', hb', hwf, hnz, _, hbnd, _, _⟩ := leftShift_spec a hg.wf hg.nz hnd 60 (by norm_num) (by norm_num)
      rw [hb] at hb'; injection hb' with hb'; subst hb'
      rw [hb]
      simp only []
      obtain ⟨c, hc, hct, hcv⟩ := ih b (k - 60) ⟨hwf, hnz⟩ hbnd (by omega) (by omega) hbt (by
        intro j hj1 hj2
        rw [hbv, mul_assoc, ← pow_add]
        exact hfit (60 + j) (by omega) (by omega))
      refine ⟨c, hc, hct, ?_⟩
      rw [hcv, hbv, mul_assoc, ← pow_add]
      congr 2; omega
    · rw [if_neg hbig]
      exact leftShift_exact a hg.wf hg.nz hnd k hk1 (by omega) htr (hfit k hk1 (le_refl _))

theorem goR_exact : ∀ (fuel : Nat) (a : Decimal) (k : Nat), Good0 a → 1 ≤ a.nd → 1 ≤ k → k ≤ 60 * fuel → a.trunc = false →
    (∀ j : ℕ, 1 ≤ j → j ≤ k → Fits (aval a / 2 ^ j)) →
    (Decimal.shift.goR 60 fuel a k).trunc = false ∧ aval (Decimal.shift.goR 60 fuel a k) = aval a / 2 ^ k := by
  intro fuel
  induction fuel with
  | zero => intro a k _ _ h1 h2; omega
  | succ fuel ih =>
    intro a k hg hnd hk1 hk htr hfit
    simp only [Decimal.shift.goR]
    by_cases hbig : k > 60
    · rw [if_pos hbig]
      obtain ⟨hbt, hbv⟩ := rightShift_exact a hg.wf hg.nz hnd 60 (by norm_num) (by norm_num) htr (hfit 60 (by norm_num) (by omega))
      obtain ⟨hwf, hnz, _, hpos, _, _⟩ := rightShift_spec a hg.wf 60 (by norm_num) (by norm_num)
      obtain ⟨hct, hcv⟩ := ih (rightShift a 60) (k - 60) ⟨hwf, hnz⟩ (hpos hg.nz hnd) (by omega) (by omega) hbt (by
        intro j hj1 hj2
        rw [hbv, div_div, ← pow_add]
        exact hfit (60 + j) (by omega) (by omega))
      refine ⟨hct, ?_⟩
      rw [hcv, hbv, div_div, ← pow_add]
      congr 2; omega
    · rw [if_neg hbig]
      exact rightShift_exact a hg.wf hg.nz hnd k hk1 (by omega) htr (hfit k hk1 (le_refl _))

/-- **`Shift(k)`, forward**: if every value between `a` and `a · 2^k` fits, the result is untruncated and exact -/
theorem shift_exact (a : Decimal) (hg : Good0 a) (hnd : 1 ≤ a.nd) (k : ℤ) (hk1 : -3840 ≤ k) (hk2 : k ≤ 3840) (htr : a.trunc = false)
    (hfit : ∀ j : ℤ, (0 ≤ j ∧ j ≤ k) ∨ (k ≤ j ∧ j ≤ 0) → Fits (aval a * 2 ^ j)) :
    ∃ b, a.shift k = some b ∧ Good0 b ∧ 1 ≤ b.nd ∧ b.neg = a.neg ∧ b.trunc = false ∧ aval b = aval a * 2 ^ k := by
  obtain ⟨b, hb, hgb, _, hbnd, _, hneg, _⟩ := shift_spec a hg k hk1 hk2
  refine ⟨b, hb, hgb, hbnd hnd, hneg, ?_⟩
  have hms : Gen.fpMaxShift = 60 := rfl
  simp only [Decimal.shift, hms] at hb
  have hb0 : ¬ ((a.nd == 0) = true) := by simp; omega
  rw [if_neg hb0] at hb
  by_cases hpos : k > 0
  · rw [if_pos hpos] at hb
    obtain ⟨b', hb', ht, hv⟩ := goL_exact 64 a k.toNat hg hnd (by omega) (by omega) htr (by
      intro j hj1 hj2
      have := hfit (j : ℤ) (.inl ⟨by omega, by omega⟩)
      rwa [zpow_natCast] at this)
    rw [hb] at hb'; injection hb' with hb'; subst hb'
    refine ⟨ht, ?_⟩
    rw [hv, ← zpow_natCast, Int.toNat_of_nonneg (by omega)]
  · rw [if_neg hpos] at hb
    by_cases hneg' : k < 0
    · rw [if_pos hneg'] at hb
      injection hb with hb; subst hb
      obtain ⟨ht, hv⟩ := goR_exact 64 a (-k).toNat hg hnd (by omega) (by omega) htr (by
        intro j hj1 hj2
        have := hfit (-(j : ℤ)) (.inr ⟨by omega, by omega⟩)
        rwa [zpow_neg, zpow_natCast, ← div_eq_mul_inv] at this)
      refine ⟨ht, ?_⟩
      rw [hv]
      have : (2 : ℚ) ^ k = (2 ^ (-k).toNat)⁻¹ := by
        rw [← zpow_natCast, Int.toNat_of_nonneg (by omega), zpow_neg, inv_inv]
      rw [this, div_eq_mul_inv]
    · rw [if_neg hneg'] at hb
      injection hb with hb; subst hb
      have hk0 : k = 0 := by omega
      subst hk0
      exact ⟨htr, by simp⟩

/-! ## the scaling loops, forward -/

/-- every value `X · 2^s` the run can pass through has at most 800 significant digits -/
def FitsAll (X : ℚ) : Prop := ∀ s : ℤ, -1056 ≤ s → s ≤ 1200 → Fits (X * 2 ^ s)

theorem two_zpow_lt_iff (a b : ℤ) (h : (2 : ℚ) ^ a < 2 ^ b) : a < b := by
  by_contra hcon
  have : (2 : ℚ) ^ b ≤ 2 ^ a := zpow_le_zpow_right₀ (by norm_num) (by omega)
  linarith

theorem scaleDown_exact (X : ℚ) (hX : X < 2 ^ (1030 : ℕ)) (HF : FitsAll X) :
    ∀ (fuel : ℕ) (a : Decimal) (exp : ℤ) (a' : Decimal) (exp' : ℤ), Good0 a → 1 ≤ a.nd → a.trunc = false →
      aval a = X * 2 ^ (-exp) → 0 ≤ exp → exp ≤ 1056 → scaleDown fuel a exp = some (a', exp') →
      a'.trunc = false ∧ aval a' = X * 2 ^ (-exp') ∧ 0 ≤ exp' ∧ exp' ≤ 1056 := by
  intro fuel
  induction fuel with
  | zero => intro a exp a' exp' _ _ _ _ _ _ h; simp [scaleDown] at h
  | succ fuel ih =>
    intro a exp a' exp' hg hnd htr hv he0 he1 h
    simp only [scaleDown] at h
    by_cases hdp : a.dp > 0
    · rw [if_pos hdp] at h
      obtain ⟨n1, n2⟩ := powtabAt_bounds a.dp.toNat
      generalize powtabAt a.dp.toNat = n at n1 n2 h
      -- the value is at least one, so little has been shifted so far
      have ha1 : (1 : ℚ) ≤ aval a := by
        have := aval_ge_of_nz a hg.nz hnd
        have h1 : (1 : ℚ) ≤ 10 ^ (a.dp - 1) := one_le_zpow₀ (by norm_num) (by omega)
        linarith
      have hexp : exp < 1030 := by
        have h1 : (2 : ℚ) ^ exp ≤ X := by
          have hp : (0 : ℚ) < 2 ^ exp := by positivity
          have : aval a * 2 ^ exp = X := by rw [hv, mul_assoc, ← zpow_add₀ (by norm_num)]; simp
          calc (2 : ℚ) ^ exp = 1 * 2 ^ exp := (one_mul _).symm
            _ ≤ aval a * 2 ^ exp := mul_le_mul_of_nonneg_right ha1 hp.le
            _ = X := this
        have h2 : (2 : ℚ) ^ exp < 2 ^ ((1030 : ℕ) : ℤ) := by rw [zpow_natCast]; linarith
        have := two_zpow_lt_iff _ _ h2
        omega
      obtain ⟨b, hb, hgb, hbnd, _, hbt, hbv⟩ := shift_exact a hg hnd (-(n : ℤ)) (by omega) (by omega) htr (by
        intro j hj
        rw [hv, mul_assoc, ← zpow_add₀ (by norm_num)]
        exact HF _ (by omega) (by omega))
      rw [hb] at h
      simp only [] at h
      exact ih b (exp + n) a' exp' hgb hbnd hbt (by
        rw [hbv, hv, mul_assoc, ← zpow_add₀ (by norm_num)]; congr 2; ring) (by omega) (by omega) h
    · rw [if_neg hdp] at h
      injection h with h; injection h with h1 h2
      subst h1; subst h2
      exact ⟨htr, hv, he0, he1⟩

theorem scaleUp_exact (X : ℚ) (hXlo : (2 : ℚ) ^ (-1100 : ℤ) ≤ X) (HF : FitsAll X) :
    ∀ (fuel : ℕ) (a : Decimal) (exp : ℤ) (a' : Decimal) (exp' : ℤ), Good0 a → 1 ≤ a.nd → a.trunc = false →
      aval a = X * 2 ^ (-exp) → -1126 ≤ exp → exp ≤ 1056 → scaleUp fuel a exp = some (a', exp') →
      a'.trunc = false ∧ aval a' = X * 2 ^ (-exp') ∧ -1126 ≤ exp' ∧ exp' ≤ 1056 := by
  have hXpos : 0 < X := lt_of_lt_of_le (by positivity) hXlo
  intro fuel
  induction fuel with
  | zero => intro a exp a' exp' _ _ _ _ _ _ h; simp [scaleUp] at h
  | succ fuel ih =>
    intro a exp a' exp' hg hnd htr hv he0 he1 h
    simp only [scaleUp] at h
    by_cases hc : (decide (a.dp < 0) || (a.dp == 0 && decide (a.d[0]! < 53))) = true
    · rw [if_pos hc] at h
      have hhalf : aval a < 1 / 2 := by
        simp only [Bool.or_eq_true, Bool.and_eq_true, decide_eq_true_eq, beq_iff_eq] at hc
        rcases hc with h | ⟨h1, h2⟩
        · have hlt := aval_lt_pow a hg.wf
          have h10 : (10 : ℚ) ^ a.dp ≤ 10 ^ (-1 : ℤ) := zpow_le_zpow_right₀ (by norm_num) (by omega)
          have h12 : (10 : ℚ) ^ (-1 : ℤ) < 1 / 2 := by norm_num
          exact lt_trans (lt_of_lt_of_le hlt h10) h12
        · exact aval_lt_half a hg.wf hnd h1 h2
      -- so the exponent is not far below zero yet
      have hexp : -1099 < exp := by
        have h1 : (2 : ℚ) ^ (-1100 : ℤ) * 2 ^ (-exp) < 2 ^ (-1 : ℤ) := by
          calc (2 : ℚ) ^ (-1100 : ℤ) * 2 ^ (-exp) ≤ X * 2 ^ (-exp) := mul_le_mul_of_nonneg_right hXlo (by positivity)
            _ = aval a := hv.symm
            _ < 1 / 2 := hhalf
            _ = 2 ^ (-1 : ℤ) := by norm_num
        rw [← zpow_add₀ (by norm_num)] at h1
        have := two_zpow_lt_iff _ _ h1
        omega
      obtain ⟨n1, n2⟩ := powtabAt_bounds (-a.dp).toNat
      generalize powtabAt (-a.dp).toNat = n at n1 n2 h
      obtain ⟨b, hb, hgb, hbnd, _, hbt, hbv⟩ := shift_exact a hg hnd ((n : ℕ) : ℤ) (by omega) (by omega) htr (by
        intro j hj
        rw [hv, mul_assoc, ← zpow_add₀ (by norm_num)]
        exact HF _ (by omega) (by omega))
      rw [hb] at h
      simp only [] at h
      exact ih b (exp - n) a' exp' hgb hbnd hbt (by
        rw [hbv, hv, mul_assoc, ← zpow_add₀ (by norm_num)]; congr 2; ring) (by omega) (by omega) h
    · rw [if_neg hc] at h
      injection h with h; injection h with h1 h2
      subst h1; subst h2
      exact ⟨htr, hv, he0, he1⟩

set_option maxRecDepth 10000 in
/-- **an untruncated decimal all of whose shifted values fit has an exact run** -/
theorem exactRun_of_fits (a : Decimal) (hg : Good0 a) (htr : a.trunc = false) (HF : FitsAll (aval a)) : a.exactRun = true := by
  have hm : Gen.fpMantBits = 52 := rfl
  have he : Gen.fpExpBits = 11 := rfl
  have hbi : Gen.fpBias = -1023 := rfl
  by_cases hnd0 : (a.nd == 0) = true
  · have hp : a.prepare = some (.early (assemble 0 (-1023) a.neg, false)) := by
      simp only [Decimal.prepare, hm, he, hbi]; rw [if_pos hnd0]
    simp [Decimal.exactRun, hp, htr]
  · by_cases hhi : a.dp > 310
    · have hp : a.prepare = some (.early (assemble 0 (((2 ^ 11 : ℕ) : ℤ) - 1 + -1023) a.neg, true)) := by
        simp only [Decimal.prepare, hm, he, hbi]; rw [if_neg hnd0, if_pos hhi]
      simp [Decimal.exactRun, hp, htr]
    · by_cases hlo : a.dp < -330
      · have hp : a.prepare = some (.early (assemble 0 (-1023) a.neg, false)) := by
          simp only [Decimal.prepare, hm, he, hbi]; rw [if_neg hnd0, if_neg hhi, if_pos hlo]
        simp [Decimal.exactRun, hp, htr]
      · have hnd : 1 ≤ a.nd := by
          have : a.nd ≠ 0 := by simpa using hnd0
          omega
        have hlt : aval a < 2 ^ (1030 : ℕ) := by
          have h1 := aval_lt_pow a hg.wf
          have h2 : (10 : ℚ) ^ a.dp ≤ 10 ^ (310 : ℤ) := zpow_le_zpow_right₀ (by norm_num) (by omega)
          exact lt_of_lt_of_le h1 (le_trans h2 ten310)
        have halo : (2 : ℚ) ^ (-1100 : ℤ) ≤ aval a := by
          have h1 := aval_ge_of_nz a hg.nz hnd
          have h2 : (10 : ℚ) ^ (-331 : ℤ) ≤ 10 ^ (a.dp - 1) := zpow_le_zpow_right₀ (by norm_num) (by omega)
          have h3 := small_pow
          linarith
        obtain ⟨res, hpr⟩ := prepare_total a hg
        obtain ⟨a1, e1, a2, e2, a3, exp3, h1, h2, h3, hcases⟩ := prepare_cases a hnd0 hhi hlo res hpr
        obtain ⟨g1, n1, _, _, _⟩ := scaleDown_spec 2000 a 0 a1 e1 hg hnd h1
        obtain ⟨t1, v1, e1lo, e1hi⟩ := scaleDown_exact (aval a) hlt HF 2000 a 0 a1 e1 hg hnd htr (by simp) (le_refl _) (by norm_num) h1
        obtain ⟨g2, n2, _, _, _, _⟩ := scaleUp_spec 2000 a1 e1 a2 e2 g1 n1 h2
        obtain ⟨t2, v2, e2lo, e2hi⟩ := scaleUp_exact (aval a) halo HF 2000 a1 e1 a2 e2 g1 n1 t1 v1 (by omega) e1hi h2
        -- the denormal adjustment
        have h3' : a3.trunc = false ∧ Good0 a3 ∧ 1 ≤ a3.nd ∧ ∃ s3 : ℤ, aval a3 = aval a * 2 ^ s3 ∧ -1056 ≤ s3 ∧ s3 ≤ 1126 := by
          by_cases hden : e2 - 1 < -1023 + 1
          · rw [if_pos hden] at h3
            obtain ⟨b, hb, hgb, hbnd, _, hbt, hbv⟩ := shift_exact a2 g2 n2 (-(-1023 + 1 - (e2 - 1))) (by omega) (by omega) t2 (by
              intro j hj
              rw [v2, mul_assoc, ← zpow_add₀ (by norm_num)]
              exact HF _ (by omega) (by omega))
            rw [hb] at h3
            injection h3 with h3; injection h3 with h31 _
            subst h31
            refine ⟨hbt, hgb, hbnd, -e2 + -(-1023 + 1 - (e2 - 1)), ?_, by omega, by omega⟩
            rw [hbv, v2, mul_assoc, ← zpow_add₀ (by norm_num)]
          · rw [if_neg hden] at h3
            injection h3 with h3; injection h3 with h31 _
            subst h31
            exact ⟨t2, g2, n2, -e2, v2, by omega, by omega⟩
        obtain ⟨t3, g3, n3, s3, v3, s3lo, s3hi⟩ := h3'
        rcases hcases with ⟨_, hres⟩ | ⟨_, a4, h4, hres⟩
        · subst hres
          simp [Decimal.exactRun, hpr, t3]
        · subst hres
          obtain ⟨b, hb, _, _, _, hbt, _⟩ := shift_exact a3 g3 n3 ((1 + 52 : ℕ) : ℤ) (by norm_num) (by norm_num) t3 (by
            intro j hj
            rw [v3, mul_assoc, ← zpow_add₀ (by norm_num)]
            have : ((1 + 52 : ℕ) : ℤ) = 53 := by norm_num
            exact HF _ (by omega) (by omega))
          rw [h4] at hb
          injection hb with hb
          subst hb
          simp [Decimal.exactRun, hpr, hbt]

/-! ## decimals with at most 60 digits -/

set_option exponentiation.threshold 3000 in
theorem pow2_1200 : (2 : ℕ) ^ 1200 ≤ 10 ^ 362 := by norm_num

set_option exponentiation.threshold 3000 in
theorem pow5_1056 : (5 : ℕ) ^ 1056 ≤ 10 ^ 739 := by norm_num

/-- a value `D · 10^E` with `D < 10^60` fits at every shift the run can reach -/
theorem fitsAll_of_digits (D : ℕ) (E : ℤ) (hD : D < 10 ^ 60) : FitsAll ((D : ℚ) * 10 ^ E) := by
  intro s hs1 hs2
  by_cases hs : 0 ≤ s
  · refine ⟨D * 2 ^ s.toNat, E, ?_, ?_⟩
    · have h1 : 2 ^ s.toNat ≤ 2 ^ 1200 := Nat.pow_le_pow_right (by norm_num) (by omega)
      have h2 := pow2_1200
      have h3 : D * 2 ^ s.toNat < 10 ^ 60 * 10 ^ 362 := by
        calc D * 2 ^ s.toNat ≤ D * 10 ^ 362 := Nat.mul_le_mul_left _ (le_trans h1 h2)
          _ < 10 ^ 60 * 10 ^ 362 := Nat.mul_lt_mul_of_pos_right hD (by positivity)
      have h4 : (10 : ℕ) ^ 60 * 10 ^ 362 ≤ 10 ^ 800 := by rw [← Nat.pow_add]; exact Nat.pow_le_pow_right (by norm_num) (by norm_num)
      omega
    · push_cast
      rw [← zpow_natCast (2 : ℚ), Int.toNat_of_nonneg hs]
      ring
  · have hq : (0 : ℤ) ≤ -s := by omega
    refine ⟨D * 5 ^ (-s).toNat, E - ((-s).toNat : ℤ), ?_, ?_⟩
    · have h1 : 5 ^ (-s).toNat ≤ 5 ^ 1056 := Nat.pow_le_pow_right (by norm_num) (by omega)
      have h2 := pow5_1056
      have h3 : D * 5 ^ (-s).toNat < 10 ^ 60 * 10 ^ 739 := by
        calc D * 5 ^ (-s).toNat ≤ D * 10 ^ 739 := Nat.mul_le_mul_left _ (le_trans h1 h2)
          _ < 10 ^ 60 * 10 ^ 739 := Nat.mul_lt_mul_of_pos_right hD (by positivity)
      have h4 : (10 : ℕ) ^ 60 * 10 ^ 739 ≤ 10 ^ 800 := by rw [← Nat.pow_add]; exact Nat.pow_le_pow_right (by norm_num) (by norm_num)
      omega
    · -- `2^s = 5^q · 10^-q` for `q = -s`
      generalize hqq : (-s).toNat = q
      have hsq : s = -(q : ℤ) := by omega
      subst hsq
      push_cast
      rw [zpow_sub₀ (by norm_num), zpow_neg, zpow_natCast, zpow_natCast]
      have h10 : (10 : ℚ) ^ q = 2 ^ q * 5 ^ q := by rw [← mul_pow]; norm_num
      rw [h10]
      have h2 : (2 : ℚ) ^ q ≠ 0 := by positivity
      have h5 : (5 : ℚ) ^ q ≠ 0 := by positivity
      field_simp

end RJson.Dec
