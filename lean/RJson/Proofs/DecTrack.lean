import RJson.Proofs.DecExact
/-!
# Truncated runs: what the decimal still knows about the value it stands for

When digits are dropped (in `decimal.set` because the literal has more than 800 significant digits, or in a shift
because the exact result has), the decimal `a` no longer holds the value `x` it stands for, only a lower bound. What it
keeps — and what is enough for the final rounding decision — is

* `aval a ≤ x`, with equality exactly when the `trunc` flag is off, and
* **no point of a dyadic grid `2^T · ℕ` lies in `(aval a, x]`** (`Rep T x a`),

as long as the decimal grid of the 800-digit buffer refines the dyadic one where the decimal is (`a.dp - 800 ≤ T`).
A shift by `k` moves `T` to `T + k`. The grid that matters is the one of the half-integers at the rounding step
(`T = -1` there), so the comparison of the decimal with every integer and every half-integer has the same outcome as
the comparison of the true value.
-/
namespace RJson.Dec
open RJson.FP

/-- the multiples of `2^T` -/
def Dy (T : ℤ) (B : ℚ) : Prop := ∃ z : ℕ, B = (z : ℚ) * 2 ^ T

/-- `a` stands for `x`: a lower bound, exact iff the flag is off, and no point of the grid `2^T · ℕ` in between -/
structure Rep (T : ℤ) (x : ℚ) (a : Decimal) : Prop where
  le : aval a ≤ x
  flag : a.trunc = decide (aval a < x)
  gap : ∀ B, Dy T B → aval a < B → B ≤ x → False

theorem Dy.scale {T : ℤ} {B : ℚ} (h : Dy T B) (k : ℤ) : Dy (T + k) (B * 2 ^ k) := by
  obtain ⟨z, rfl⟩ := h
  exact ⟨z, by rw [mul_assoc, ← zpow_add₀ (by norm_num)]⟩

theorem Dy.coarser {T T' : ℤ} {B : ℚ} (h : Dy T' B) (hT : T ≤ T') : Dy T B := by
  obtain ⟨z, rfl⟩ := h
  refine ⟨z * 2 ^ (T' - T).toNat, ?_⟩
  push_cast
  rw [← zpow_natCast (2 : ℚ), Int.toNat_of_nonneg (by omega), mul_assoc, ← zpow_add₀ (by norm_num)]
  congr 2; ring

theorem Rep.coarser {T T' : ℤ} {x : ℚ} {a : Decimal} (h : Rep T x a) (hT : T ≤ T') : Rep T' x a :=
  ⟨h.le, h.flag, fun B hB => h.gap B (hB.coarser hT)⟩

/-- a multiple of `2^T` is a multiple of `10^(dp-800)` when `dp - 800 ≤ T` -/
theorem dy_grid (T dp : ℤ) (hT : dp - 800 ≤ T) (hdp : dp ≤ 800) (z : ℕ) :
    ∃ w : ℕ, (z : ℚ) * 2 ^ T = (w : ℚ) * 10 ^ (dp - 800) := by
  refine ⟨z * 2 ^ (T + (800 - dp)).toNat * 5 ^ (800 - dp).toNat, ?_⟩
  push_cast
  rw [← zpow_natCast (2 : ℚ), Int.toNat_of_nonneg (by omega), ← zpow_natCast (5 : ℚ), Int.toNat_of_nonneg (by omega)]
  have h10 : (10 : ℚ) ^ (dp - 800) = 2 ^ (dp - 800) * 5 ^ (dp - 800) := by
    rw [← mul_zpow]; norm_num
  rw [h10]
  have h5 : (5 : ℚ) ^ (800 - dp) * 5 ^ (dp - 800) = 1 := by
    rw [← zpow_add₀ (by norm_num)]; simp
  have h2 : (2 : ℚ) ^ (T + (800 - dp)) * 2 ^ (dp - 800) = 2 ^ T := by
    rw [← zpow_add₀ (by norm_num)]; congr 1; ring
  calc (z : ℚ) * 2 ^ T = (z : ℚ) * (2 ^ (T + (800 - dp)) * 2 ^ (dp - 800)) * (5 ^ (800 - dp) * 5 ^ (dp - 800)) := by
        rw [h2, h5, mul_one]
    _ = (z : ℚ) * 2 ^ (T + (800 - dp)) * 5 ^ (800 - dp) * (2 ^ (dp - 800) * 5 ^ (dp - 800)) := by ring

/-- two multiples of the unit of the 800th digit are not less than one unit apart -/
theorem grid_delta_zero (b : Decimal) (hwf : WF b) (x δ : ℚ) (h0 : 0 ≤ δ) (h1 : δ < 10 ^ (b.dp - 800))
    (hx : x = aval b + δ) (w : ℕ) (hw : x = (w : ℚ) * 10 ^ (b.dp - 800)) : δ = 0 := by
  have hsc : δ * 10 ^ (800 - b.dp) = (w : ℚ) - (val b.d b.nd : ℚ) * 10 ^ (800 - (b.nd : ℤ)) := by
    have hd : δ = (w : ℚ) * 10 ^ (b.dp - 800) - aval b := by rw [← hw, hx]; ring
    rw [hd]
    simp only [aval]
    rw [sub_mul, mul_assoc, ← zpow_add₀ (by norm_num), mul_assoc, ← zpow_add₀ (by norm_num)]
    congr 1
    · have : b.dp - 800 + (800 - b.dp) = 0 := by ring
      rw [this]; simp
    · congr 2; ring
  have hB : (val b.d b.nd : ℚ) * 10 ^ (800 - (b.nd : ℤ)) = ((val b.d b.nd * 10 ^ (800 - b.nd) : ℕ) : ℚ) := by
    push_cast
    rw [← zpow_natCast]
    congr 2
    have := hwf.nd
    omega
  rw [hB] at hsc
  have hlt1 : δ * 10 ^ (800 - b.dp) < 1 := by
    calc δ * 10 ^ (800 - b.dp) < 10 ^ (b.dp - 800) * 10 ^ (800 - b.dp) := mul_lt_mul_of_pos_right h1 (by positivity)
      _ = 1 := by rw [← zpow_add₀ (by norm_num)]; simp
  have hge0 : 0 ≤ δ * 10 ^ (800 - b.dp) := mul_nonneg h0 (by positivity)
  have hz : δ * 10 ^ (800 - b.dp) = 0 := by
    rw [hsc] at hlt1 hge0 ⊢
    have h2 : ((val b.d b.nd * 10 ^ (800 - b.nd) : ℕ) : ℚ) ≤ (w : ℚ) := by linarith
    have h3 : (w : ℚ) < ((val b.d b.nd * 10 ^ (800 - b.nd) : ℕ) : ℚ) + 1 := by linarith
    have h2' : val b.d b.nd * 10 ^ (800 - b.nd) ≤ w := by exact_mod_cast h2
    have h3' : w < val b.d b.nd * 10 ^ (800 - b.nd) + 1 := by exact_mod_cast h3
    have : w = val b.d b.nd * 10 ^ (800 - b.nd) := by omega
    rw [this]; simp
  have hp : (10 : ℚ) ^ (800 - b.dp) ≠ 0 := by positivity
  exact (mul_eq_zero.mp hz).resolve_right hp

/-- the start: a value cut off after 800 digits -/
theorem rep_of_delta (T : ℤ) (a : Decimal) (hwf : WF a) (x δ : ℚ) (h0 : 0 ≤ δ) (h1 : δ < 10 ^ (a.dp - 800))
    (hx : x = aval a + δ) (hfl : a.trunc = decide (δ ≠ 0)) (hT : a.dp - 800 ≤ T) (hdp : a.dp ≤ 800) : Rep T x a := by
  refine ⟨by rw [hx]; linarith, ?_, ?_⟩
  · rw [hfl, hx]
    by_cases hd : δ = 0
    · simp [hd]
    · have : 0 < δ := lt_of_le_of_ne h0 (Ne.symm hd)
      simp [hd, this]
  · intro B hB hlo hhi
    obtain ⟨z, rfl⟩ := hB
    obtain ⟨w, hw⟩ := dy_grid T a.dp hT hdp z
    have hz := grid_delta_zero a hwf ((z : ℚ) * 2 ^ T) ((z : ℚ) * 2 ^ T - aval a) (by linarith) (by rw [hx] at hhi; linarith) (by ring) w hw
    linarith

/-- **one truncating step**: if `aval a · c` is `aval b` plus a dropped tail below one unit of `b`'s 800th digit, `b`
    stands for `x · c` on the grid moved by `k` (`c = 2^k`) -/
theorem rep_step (T : ℤ) (x : ℚ) (a b : Decimal) (k : ℤ) (hr : Rep T x a) (hwf : WF b) (δ : ℚ) (h0 : 0 ≤ δ)
    (h1 : δ < 10 ^ (b.dp - 800)) (hY : aval a * 2 ^ k = aval b + δ) (hfl : b.trunc = (a.trunc || decide (δ ≠ 0)))
    (hT : b.dp - 800 ≤ T + k) (hdp : b.dp ≤ 800) : Rep (T + k) (x * 2 ^ k) b := by
  have hp : (0 : ℚ) < 2 ^ k := by positivity
  have hle : aval a * 2 ^ k ≤ x * 2 ^ k := mul_le_mul_of_nonneg_right hr.le hp.le
  refine ⟨by linarith, ?_, ?_⟩
  · rw [hfl, hr.flag]
    by_cases hax : aval a < x
    · have : aval a * 2 ^ k < x * 2 ^ k := mul_lt_mul_of_pos_right hax hp
      have h2 : aval b < x * 2 ^ k := by linarith
      simp [hax, h2]
    · have hax' : aval a = x := le_antisymm hr.le (not_lt.mp hax)
      by_cases hd : δ = 0
      · have : ¬ aval b < x * 2 ^ k := by rw [← hax', hY, hd]; simp
        simp [hax, hd, this]
      · have hdpos : 0 < δ := lt_of_le_of_ne h0 (Ne.symm hd)
        have : aval b < x * 2 ^ k := by rw [← hax', hY]; linarith
        simp [hax, hd, this]
  · intro B hB hlo hhi
    by_cases hcase : B ≤ aval a * 2 ^ k
    · -- between the result and the exact product: both are multiples of the unit
      obtain ⟨z, rfl⟩ := hB
      obtain ⟨w, hw⟩ := dy_grid (T + k) b.dp hT hdp z
      have hz := grid_delta_zero b hwf ((z : ℚ) * 2 ^ (T + k)) ((z : ℚ) * 2 ^ (T + k) - aval b) (by linarith) (by linarith) (by ring) w hw
      linarith
    · -- beyond the exact product: a grid point of the old grid between `a` and `x`
      have hB' : Dy T (B * 2 ^ (-k)) := by
        have := hB.scale (-k)
        have e : T + k + -k = T := by ring
        rwa [e] at this
      have hq : (0 : ℚ) < 2 ^ (-k) := by positivity
      have hkk : (2 : ℚ) ^ k * 2 ^ (-k) = 1 := by rw [← zpow_add₀ (by norm_num)]; simp
      refine hr.gap _ hB' ?_ ?_
      · have : aval a * 2 ^ k * 2 ^ (-k) < B * 2 ^ (-k) := mul_lt_mul_of_pos_right (not_le.mp hcase) hq
        rwa [mul_assoc, hkk, mul_one] at this
      · have : B * 2 ^ (-k) ≤ x * 2 ^ k * 2 ^ (-k) := mul_le_mul_of_nonneg_right hhi hq.le
        rwa [mul_assoc, hkk, mul_one] at this

/-- comparing with a grid point: the decimal and the value it stands for agree -/
theorem Rep.lt_iff {T : ℤ} {x : ℚ} {a : Decimal} (h : Rep T x a) {B : ℚ} (hB : Dy T B) : aval a < B ↔ x < B := by
  constructor
  · intro hlt
    by_contra hcon
    exact h.gap B hB hlt (not_lt.mp hcon)
  · intro hlt
    exact lt_of_le_of_lt h.le hlt

/-- the position of the decimal point from the size of the value -/
theorem dp_le_of_lt (b : Decimal) (hnz : NZ b) (hnd : 1 ≤ b.nd) (e : ℤ) (h : aval b < 10 ^ e) : b.dp ≤ e := by
  have hlo := aval_ge_of_nz b hnz hnd
  by_contra hcon
  have : (10 : ℚ) ^ e ≤ 10 ^ (b.dp - 1) := zpow_le_zpow_right₀ (by norm_num) (by omega)
  linarith

theorem two_le_ten_zpow (k : ℕ) : (2 : ℚ) ^ k ≤ 10 ^ k := pow_le_pow_left₀ (by norm_num) (by norm_num) k

/-- **`leftShift` keeps the representation** -/
theorem leftShift_rep (T : ℤ) (x : ℚ) (a : Decimal) (h : WF a) (hnz : NZ a) (hnd : 1 ≤ a.nd) (k : Nat) (hk1 : 1 ≤ k) (hk : k ≤ 60)
    (hr : Rep T x a) (hT : a.dp - 800 ≤ T) (hdp : a.dp + k ≤ 800) :
    ∃ b, leftShift a k = some b ∧ Rep (T + k) (x * 2 ^ k) b ∧ b.dp ≤ a.dp + k := by
  obtain ⟨b, hb, hwf, hnz', _, hbnd, _, _⟩ := leftShift_spec a h hnz hnd k hk1 hk
  obtain ⟨b', hb', δ, d0, d1, dY, dfl⟩ := leftShift_approx a h hnz hnd k hk1 hk
  rw [hb] at hb'; injection hb' with hb'; subst hb'
  have hbdp : b.dp ≤ a.dp + k := by
    apply dp_le_of_lt b hnz' hbnd
    have h1 := aval_lt_pow a h
    have h2 := two_le_ten_zpow k
    have hp : (0 : ℚ) < 2 ^ k := by positivity
    calc aval b ≤ aval a * 2 ^ k := by linarith
      _ < 10 ^ a.dp * 2 ^ k := mul_lt_mul_of_pos_right h1 hp
      _ ≤ 10 ^ a.dp * 10 ^ k := mul_le_mul_of_nonneg_left h2 (by positivity)
      _ = 10 ^ (a.dp + k) := by rw [zpow_add₀ (by norm_num), zpow_natCast]
  refine ⟨b, hb, ?_, hbdp⟩
  have := rep_step T x a b (k : ℤ) hr hwf δ d0 d1 (by rw [zpow_natCast]; exact dY) dfl (by omega) (by omega)
  rwa [zpow_natCast] at this

/-- **`rightShift` keeps the representation** -/
theorem rightShift_rep (T : ℤ) (x : ℚ) (a : Decimal) (h : WF a) (hnz : NZ a) (hnd : 1 ≤ a.nd) (k : Nat) (hk1 : 1 ≤ k) (hk : k ≤ 60)
    (hr : Rep T x a) (hT : a.dp - 800 ≤ T - k) (hdp : a.dp ≤ 800) :
    Rep (T - k) (x / 2 ^ k) (rightShift a k) ∧ (rightShift a k).dp ≤ a.dp := by
  obtain ⟨hwf, hnz', _, hpos, _, _⟩ := rightShift_spec a h k hk1 hk
  obtain ⟨δ, d0, d1, dY, dfl⟩ := rightShift_approx a h hnz hnd k hk1 hk
  have hbdp : (rightShift a k).dp ≤ a.dp := by
    apply dp_le_of_lt _ hnz' (hpos hnz hnd)
    have h1 := aval_lt_pow a h
    have h0 := aval_nonneg a
    have hp : (1 : ℚ) ≤ 2 ^ k := one_le_pow₀ (by norm_num)
    calc aval (rightShift a k) ≤ aval a / 2 ^ k := by linarith
      _ ≤ aval a := div_le_self h0 hp
      _ < 10 ^ a.dp := h1
  refine ⟨?_, hbdp⟩
  have hinv : (2 : ℚ) ^ (-(k : ℤ)) = (2 ^ k)⁻¹ := by rw [zpow_neg, zpow_natCast]
  have := rep_step T x a (rightShift a k) (-(k : ℤ)) hr hwf δ d0 d1 (by rw [hinv, ← div_eq_mul_inv]; exact dY) dfl (by omega) (by omega)
  rw [hinv, ← div_eq_mul_inv] at this
  have e : T + -(k : ℤ) = T - k := by ring
  rwa [e] at this

theorem goL_rep : ∀ (fuel : Nat) (T : ℤ) (x : ℚ) (a : Decimal) (k : Nat), Good0 a → 1 ≤ a.nd → 1 ≤ k → k ≤ 60 * fuel →
    Rep T x a → a.dp - 800 ≤ T → a.dp + k ≤ 800 →
    ∃ b, Decimal.shift.goL 60 fuel a k = some b ∧ Rep (T + k) (x * 2 ^ k) b ∧ b.dp ≤ a.dp + k := by
  intro fuel
  induction fuel with
  | zero => intro T x a k _ _ h1 h2; omega
  | succ fuel ih =>
    intro T x a k hg hnd hk1 hk hr hT hdp
    simp only [Decimal.shift.goL]
    by_cases hbig : k > 60
    · rw [if_pos hbig]
      obtain ⟨b, hb, hrb, hbdp⟩ := leftShift_rep T x a hg.wf hg.nz hnd 60 (by norm_num) (by norm_num) hr hT (by omega)
      obtain ⟨b', hb', hwf, hnz, _, hbnd, _, _⟩ := leftShift_spec a hg.wf hg.nz hnd 60 (by norm_num) (by norm_num)
      rw [hb] at hb'; injection hb' with hb'; subst hb'
      rw [hb]
      simp only []
      obtain ⟨c, hc, hrc, hcdp⟩ := ih (T + (60 : ℕ)) (x * 2 ^ 60) b (k - 60) ⟨hwf, hnz⟩ hbnd (by omega) (by omega) hrb (by push_cast at hbdp ⊢; omega)
        (by push_cast at hbdp ⊢; omega)
      refine ⟨c, hc, ?_, by push_cast at hbdp hcdp ⊢; omega⟩
      have e1 : T + ((60 : ℕ) : ℤ) + ((k - 60 : ℕ) : ℤ) = T + (k : ℤ) := by omega
      have e2 : x * 2 ^ 60 * 2 ^ (k - 60) = x * 2 ^ k := by
        rw [mul_assoc, ← pow_add]; congr 2; omega
      rw [e1, e2] at hrc
      exact hrc
    · rw [if_neg hbig]
      exact leftShift_rep T x a hg.wf hg.nz hnd k hk1 (by omega) hr hT hdp

theorem goR_rep : ∀ (fuel : Nat) (T : ℤ) (x : ℚ) (a : Decimal) (k : Nat), Good0 a → 1 ≤ a.nd → 1 ≤ k → k ≤ 60 * fuel →
    Rep T x a → a.dp - 800 ≤ T - k → a.dp ≤ 800 →
    Rep (T - k) (x / 2 ^ k) (Decimal.shift.goR 60 fuel a k) ∧ (Decimal.shift.goR 60 fuel a k).dp ≤ a.dp := by
  intro fuel
  induction fuel with
  | zero => intro T x a k _ _ h1 h2; omega
  | succ fuel ih =>
    intro T x a k hg hnd hk1 hk hr hT hdp
    simp only [Decimal.shift.goR]
    by_cases hbig : k > 60
    · rw [if_pos hbig]
      obtain ⟨hrb, hbdp⟩ := rightShift_rep T x a hg.wf hg.nz hnd 60 (by norm_num) (by norm_num) hr (by push_cast; omega) hdp
      obtain ⟨hwf, hnz, _, hpos, _, _⟩ := rightShift_spec a hg.wf 60 (by norm_num) (by norm_num)
      obtain ⟨hrc, hcdp⟩ := ih (T - (60 : ℕ)) (x / 2 ^ 60) (rightShift a 60) (k - 60) ⟨hwf, hnz⟩ (hpos hg.nz hnd) (by omega) (by omega) hrb
        (by push_cast; omega) (by omega)
      refine ⟨?_, by omega⟩
      have e1 : T - ((60 : ℕ) : ℤ) - ((k - 60 : ℕ) : ℤ) = T - (k : ℤ) := by omega
      have e2 : x / 2 ^ 60 / 2 ^ (k - 60) = x / 2 ^ k := by
        rw [div_div, ← pow_add]; congr 2; omega
      rw [e1, e2] at hrc
      exact hrc
    · rw [if_neg hbig]
      exact rightShift_rep T x a hg.wf hg.nz hnd k hk1 (by omega) hr hT hdp

/-- **`Shift(k)` keeps the representation**, provided the decimal grid refines the dyadic one before and after -/
theorem shift_rep (T : ℤ) (x : ℚ) (a : Decimal) (hg : Good0 a) (hnd : 1 ≤ a.nd) (k : ℤ) (hk1 : -3840 ≤ k) (hk2 : k ≤ 3840)
    (hr : Rep T x a) (hT : a.dp - 800 ≤ T) (hT' : a.dp - 800 ≤ T + k) (hdp : a.dp + k ≤ 800) (hdp0 : a.dp ≤ 800) :
    ∃ b, a.shift k = some b ∧ Rep (T + k) (x * 2 ^ k) b ∧ b.dp ≤ a.dp + max k 0 := by
  have hms : Gen.fpMaxShift = 60 := rfl
  simp only [Decimal.shift, hms]
  have hb0 : ¬ ((a.nd == 0) = true) := by simp; omega
  rw [if_neg hb0]
  by_cases hpos : k > 0
  · rw [if_pos hpos]
    obtain ⟨b, hb, hrb, hbdp⟩ := goL_rep 64 T x a k.toNat hg hnd (by omega) (by omega) hr hT (by omega)
    refine ⟨b, hb, ?_, by omega⟩
    have e : ((k.toNat : ℕ) : ℤ) = k := Int.toNat_of_nonneg (by omega)
    rw [e, ← zpow_natCast, e] at hrb
    exact hrb
  · rw [if_neg hpos]
    by_cases hneg' : k < 0
    · rw [if_pos hneg']
      obtain ⟨hrb, hbdp⟩ := goR_rep 64 T x a (-k).toNat hg hnd (by omega) (by omega) hr (by omega) hdp0
      refine ⟨_, rfl, ?_, by omega⟩
      have e : (((-k).toNat : ℕ) : ℤ) = -k := Int.toNat_of_nonneg (by omega)
      have e2 : (2 : ℚ) ^ k = (2 ^ (-k).toNat)⁻¹ := by
        rw [← zpow_natCast, e, zpow_neg, inv_inv]
      rw [e2, ← div_eq_mul_inv]
      have e3 : T + k = T - (((-k).toNat : ℕ) : ℤ) := by omega
      rw [e3]
      exact hrb
    · rw [if_neg hneg']
      have hk0 : k = 0 := by omega
      subst hk0
      refine ⟨a, rfl, ?_, by simp⟩
      simpa using hr

/-! ## the scaling loops -/

theorem scaleDown_mono : ∀ (fuel : Nat) (a : Decimal) (exp : ℤ) (a' : Decimal) (exp' : ℤ),
    scaleDown fuel a exp = some (a', exp') → exp ≤ exp' := by
  intro fuel
  induction fuel with
  | zero => intro a exp a' exp' h; simp [scaleDown] at h
  | succ fuel ih =>
    intro a exp a' exp' h
    simp only [scaleDown] at h
    by_cases hdp : a.dp > 0
    · rw [if_pos hdp] at h
      cases hs : a.shift (-(powtabAt a.dp.toNat : ℤ)) with
      | none => rw [hs] at h; cases h
      | some b =>
        rw [hs] at h
        simp only [] at h
        have := ih b _ a' exp' h
        omega
    · rw [if_neg hdp] at h
      injection h with h; injection h with h1 h2
      omega

theorem scaleUp_mono : ∀ (fuel : Nat) (a : Decimal) (exp : ℤ) (a' : Decimal) (exp' : ℤ),
    scaleUp fuel a exp = some (a', exp') → exp' ≤ exp := by
  intro fuel
  induction fuel with
  | zero => intro a exp a' exp' h; simp [scaleUp] at h
  | succ fuel ih =>
    intro a exp a' exp' h
    simp only [scaleUp] at h
    by_cases hc : (decide (a.dp < 0) || (a.dp == 0 && decide (a.d[0]! < 53))) = true
    · rw [if_pos hc] at h
      cases hs : a.shift ((powtabAt (-a.dp).toNat : ℕ) : ℤ) with
      | none => rw [hs] at h; cases h
      | some b =>
        rw [hs] at h
        simp only [] at h
        have := ih b _ a' exp' h
        omega
    · rw [if_neg hc] at h
      injection h with h; injection h with h1 h2
      omega

/-- **`for a.dp > 0 { a.Shift(-n); exp += n }` keeps the representation** when the decimal grid refines the dyadic one
    at the end of the loop -/
theorem scaleDown_rep : ∀ (fuel : Nat) (T : ℤ) (x : ℚ) (a : Decimal) (exp : ℤ) (a' : Decimal) (exp' : ℤ), Good0 a → 1 ≤ a.nd →
    scaleDown fuel a exp = some (a', exp') → Rep T x a → a.dp - 800 ≤ T - (exp' - exp) → a.dp ≤ 800 →
    Rep (T - (exp' - exp)) (x * 2 ^ (-(exp' - exp))) a' := by
  intro fuel
  induction fuel with
  | zero => intro T x a exp a' exp' _ _ h; simp [scaleDown] at h
  | succ fuel ih =>
    intro T x a exp a' exp' hg hnd h hr hT hdp8
    have hmono := scaleDown_mono (fuel + 1) a exp a' exp' h
    simp only [scaleDown] at h
    by_cases hdp : a.dp > 0
    · rw [if_pos hdp] at h
      obtain ⟨n1, n2⟩ := powtabAt_bounds a.dp.toNat
      generalize powtabAt a.dp.toNat = n at n1 n2 h
      obtain ⟨b0, hb0, hgb, _, hbnd, _, _, _⟩ := shift_spec a hg (-(n : ℤ)) (by omega) (by omega)
      rw [hb0] at h
      simp only [] at h
      have hmono2 := scaleDown_mono fuel b0 (exp + n) a' exp' h
      obtain ⟨b, hb, hrb, hbdp⟩ := shift_rep T x a hg hnd (-(n : ℤ)) (by omega) (by omega) hr (by omega) (by omega) (by omega) hdp8
      rw [hb0] at hb; injection hb with hb; subst hb
      have hmax : max (-(n : ℤ)) 0 = 0 := by omega
      rw [hmax] at hbdp
      have := ih (T + -(n : ℤ)) (x * 2 ^ (-(n : ℤ))) b0 (exp + n) a' exp' hgb (hbnd hnd) h hrb (by omega) (by omega)
      have e1 : T + -(n : ℤ) - (exp' - (exp + n)) = T - (exp' - exp) := by ring
      have e2 : x * 2 ^ (-(n : ℤ)) * 2 ^ (-(exp' - (exp + n))) = x * 2 ^ (-(exp' - exp)) := by
        rw [mul_assoc, ← zpow_add₀ (by norm_num)]; congr 2; ring
      rw [e1, e2] at this
      exact this
    · rw [if_neg hdp] at h
      injection h with h; injection h with h1 h2
      subst h1; subst h2
      simpa using hr

/-- **`for a.dp < 0 || a.dp == 0 && a.d[0] < '5' { a.Shift(n); exp -= n }` keeps the representation** -/
theorem scaleUp_rep : ∀ (fuel : Nat) (T : ℤ) (x : ℚ) (a : Decimal) (exp : ℤ) (a' : Decimal) (exp' : ℤ), Good0 a → 1 ≤ a.nd →
    scaleUp fuel a exp = some (a', exp') → Rep T x a → a.dp - 800 ≤ T →
    Rep (T + (exp - exp')) (x * 2 ^ (exp - exp')) a' := by
  intro fuel
  induction fuel with
  | zero => intro T x a exp a' exp' _ _ h; simp [scaleUp] at h
  | succ fuel ih =>
    intro T x a exp a' exp' hg hnd h hr hT
    simp only [scaleUp] at h
    by_cases hc : (decide (a.dp < 0) || (a.dp == 0 && decide (a.d[0]! < 53))) = true
    · rw [if_pos hc] at h
      have hdp0 : a.dp ≤ 0 := by
        simp only [Bool.or_eq_true, Bool.and_eq_true, decide_eq_true_eq, beq_iff_eq] at hc
        rcases hc with h | ⟨h, _⟩ <;> omega
      obtain ⟨n1, n2⟩ := powtabAt_bounds (-a.dp).toNat
      generalize powtabAt (-a.dp).toNat = n at n1 n2 h
      obtain ⟨b0, hb0, hgb, _, hbnd, _, _, _⟩ := shift_spec a hg ((n : ℕ) : ℤ) (by omega) (by omega)
      rw [hb0] at h
      simp only [] at h
      obtain ⟨b, hb, hrb, hbdp⟩ := shift_rep T x a hg hnd ((n : ℕ) : ℤ) (by omega) (by omega) hr hT (by omega) (by omega) (by omega)
      rw [hb0] at hb; injection hb with hb; subst hb
      have hmax : max ((n : ℕ) : ℤ) 0 = n := by omega
      rw [hmax] at hbdp
      have := ih (T + (n : ℤ)) (x * 2 ^ ((n : ℕ) : ℤ)) b0 (exp - n) a' exp' hgb (hbnd hnd) h hrb (by omega)
      have e1 : T + (n : ℤ) + (exp - n - exp') = T + (exp - exp') := by ring
      have e2 : x * 2 ^ ((n : ℕ) : ℤ) * 2 ^ (exp - n - exp') = x * 2 ^ (exp - exp') := by
        rw [mul_assoc, ← zpow_add₀ (by norm_num)]; congr 2; ring
      rw [e1, e2] at this
      exact this
    · rw [if_neg hc] at h
      injection h with h; injection h with h1 h2
      subst h1; subst h2
      simpa using hr

/-! ## how far the scaling loop can move the value -/

theorem Near.comp {s t : ℕ} {y Y y' c : ℚ} (h : Near s y Y) (hc : 0 < c) (h' : Near t y' (y * c)) : Near (s + t) y' (Y * c) := by
  obtain ⟨a1, a2⟩ := h
  obtain ⟨b1, b2⟩ := h'
  have h1e : (0 : ℚ) ≤ (1 + eps) ^ s := le_trans zero_le_one (one_le_one_add_eps_pow s)
  constructor
  · exact le_trans b1 (mul_le_mul_of_nonneg_right a1 hc.le)
  · calc Y * c ≤ y * (1 + eps) ^ s * c := mul_le_mul_of_nonneg_right a2 hc.le
      _ = (y * c) * (1 + eps) ^ s := by ring
      _ ≤ (y' * (1 + eps) ^ t) * (1 + eps) ^ s := mul_le_mul_of_nonneg_right b2 h1e
      _ = y' * (1 + eps) ^ (s + t) := by rw [pow_add]; ring

theorem scaleUp_near : ∀ (fuel : Nat) (a : Decimal) (exp : ℤ) (a' : Decimal) (exp' : ℤ), Good0 a → 1 ≤ a.nd →
    scaleUp fuel a exp = some (a', exp') → Near (64 * (exp - exp').toNat) (aval a') (aval a * 2 ^ (exp - exp')) := by
  intro fuel
  induction fuel with
  | zero => intro a exp a' exp' _ _ h; simp [scaleUp] at h
  | succ fuel ih =>
    intro a exp a' exp' hg hnd h
    simp only [scaleUp] at h
    by_cases hc : (decide (a.dp < 0) || (a.dp == 0 && decide (a.d[0]! < 53))) = true
    · rw [if_pos hc] at h
      obtain ⟨n1, n2⟩ := powtabAt_bounds (-a.dp).toNat
      generalize powtabAt (-a.dp).toNat = n at n1 n2 h
      obtain ⟨b, hb, hgb, hbnd, _, hnear⟩ := shift_near a hg hnd ((n : ℕ) : ℤ) (by omega) (by omega)
      rw [hb] at h
      simp only [] at h
      have hmono := scaleUp_mono fuel b (exp - n) a' exp' h
      have hrest := ih b (exp - n) a' exp' hgb hbnd h
      have hcomp := Near.comp hnear (by positivity : (0 : ℚ) < 2 ^ (exp - n - exp')) hrest
      have e2 : aval a * 2 ^ ((n : ℕ) : ℤ) * 2 ^ (exp - n - exp') = aval a * 2 ^ (exp - exp') := by
        rw [mul_assoc, ← zpow_add₀ (by norm_num)]; congr 2; ring
      rw [e2] at hcomp
      exact hcomp.mono (aval_nonneg a') (by omega)
    · rw [if_neg hc] at h
      injection h with h; injection h with h1 h2
      subst h1; subst h2
      simp only [sub_self, Int.toNat_zero, Nat.mul_zero, zpow_zero, mul_one]
      exact Near.refl _ (aval_nonneg _)

end RJson.Dec
