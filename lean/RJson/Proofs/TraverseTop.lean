import RJson.Proofs.TraverseWalk
/-!
# The handler machines from the start of the input, and the member list of the specification
-/
namespace RJson.Abs
open RJson.Ragel RJson.Spec RJson.HelpersSpec

/-- specification of `HandleArrayValues` (`k = .harr`) / `HandleObjectValues` (`k = .hobj`) with the handler -/
def traverseH {τ} (k : Kind) (h : Handler τ) (data : List UInt8) (hs : τ) : TOut τ :=
  match skipWs data with
  | [] => .bad
  | b :: rest =>
    if b == 110 then
      (match scanLit [117, 108, 108] rest with
        | some r => .done hs 0 r
        | none => .bad)
    else if k == .harr && b == 91 then arrWalk h (data.length + 1) true rest hs 0
    else if k == .hobj && b == 123 then objWalk h (data.length + 1) true rest hs 0
    else .bad

/-- after `null`, at top level, the handler machines end at once -/
theorem htop_after_finish {τ} (k : Kind) (data : Bytes) (h : Handler τ) (fuel p : Nat) (r : Regs τ) (rest : List UInt8)
    (hat : At data p rest) (hp : r.p = p) (hf : rest.length + 1 ≤ fuel) :
    contL (machine k) data h fuel ⟨.hTop, .after⟩ [] r = r.finish := by
  cases rest with
  | nil =>
    rw [contL_nil (machine k) data h _ _ _ r p hp hat]
    rfl
  | cons b t =>
    rw [contL_cons (machine k) data h _ _ _ r p b t hp hat]
    obtain ⟨hb, _, _⟩ := hat.cons_inv
    obtain ⟨fuel, rfl⟩ : ∃ f, fuel = f + 1 := ⟨fuel - 1, by omega⟩
    exact loopL_exit (machine k) data h fuel _ [] r b (by rw [hp]; exact hb) rfl

/-- **the handler machines compute `traverseH`** for every well-behaved handler -/
theorem traverse_run {τ} (k : Kind) (hk : k = .harr ∨ k = .hobj) (h : Handler τ) (hwb : WB h) (data : Bytes) (hsm : Small data)
    (dst : Bytes) (hs : τ) :
    WalkRes data (runL (machine k) data h dst hs) (traverseH k h data.toList hs) := by
  rw [runL_eq_contL]
  have hstart : (machine k).start = ⟨.hTop, .want true⟩ := by rcases hk with rfl | rfl <;> rfl
  rw [hstart]
  have hws : ∀ b, isWs b = true → (machine k).step ⟨.hTop, .want true⟩ b = ([], some ⟨.hTop, .want true⟩) := by
    intro b hw; simp [machine, step, hw]
  apply WalkRes.after_reach (ws_loop (machine k) _ hws data h hsm data.toList (fuelFor data) 0 []
    (initRegs dst hs) (At.start data) rfl (by simp [fuelFor]; omega))
  intro f1 p1 hat1 hf1
  have hlen := skipWs_length_le' data.toList
  simp only [traverseH]
  cases hsk : skipWs data.toList with
  | nil =>
    rw [hsk] at hat1
    simp only [WalkRes]
    rw [contL_nil (machine k) data h _ _ _ _ p1 rfl hat1]
    exact eof_stops k _ data h _ rfl
  | cons b rest =>
    rw [hsk] at hat1 hf1 hlen
    have hnws := skipWs_cons_of _ b rest hsk
    simp only []
    obtain ⟨f1, rfl⟩ : ∃ f, f1 = f + 1 := ⟨f1 - 1, by omega⟩
    obtain ⟨hb, hlt, hat'⟩ := hat1.cons_inv
    have hf' : rest.length + 1 ≤ f1 := by simp only [List.length_cons] at hf1; omega
    have hcl := contL_cons (machine k) data h (f1 + 1) ⟨.hTop, .want true⟩ [] ({ initRegs dst hs with p := (p1 : Int) } : Regs τ) p1 b rest rfl hat1
    simp only [List.length_cons, Array.length_toList] at hlen
    by_cases h110 : (b == 110) = true
    · have hb110 : b = 110 := by simpa using h110
      subst hb110
      simp only [beq_self_eq_true, if_true]
      have hstep : (machine k).step ⟨.hTop, .want true⟩ 110 = ([], some ⟨.hTop, .tok (.lit .n 0)⟩) := by
        simp [machine, step, isWs]
      rw [hcl, loopL_goto (machine k) data h f1 _ _ [] _ p1 110 rest hsm rfl hat1 hstep]
      have key := lit_run k .hTop .n data h hsm _ 0 rfl (by simp [Lit.tail]) rest f1 (p1 + 1) []
        ({ initRegs dst hs with p := ((p1 + 1 : Nat) : Int) } : Regs τ) hat' rfl hf'
      have hl : Lit.tail .n = [117, 108, 108] := rfl
      simp only [List.drop_zero, hl] at key
      cases hsl : scanLit [117, 108, 108] rest with
      | none => rw [hsl] at key; exact key
      | some r' =>
        rw [hsl] at key
        obtain ⟨f2, p2, hat2, hf2, e2⟩ := key
        simp only [WalkRes]
        rw [e2, htop_after_finish k data h f2 p2 _ r' hat2 rfl hf2]
        exact ⟨rfl, rfl, rfl, p2, hat2, rfl⟩
    · have h110' : (b == 110) = false := by simpa using h110
      simp only [h110', Bool.false_eq_true, if_false]
      rcases hk with rfl | rfl
      · by_cases h91 : (b == 91) = true
        · have hb91 : b = 91 := by simpa using h91
          subst hb91
          have hstep : (machine .harr).step ⟨.hTop, .want true⟩ 91 = ([], some ⟨.hArr, .want true⟩) := by
            simp [machine, step, isWs]
          rw [hcl, loopL_goto (machine .harr) data h f1 _ _ [] _ p1 91 rest hsm rfl hat1 hstep]
          have key := arr_walk h hwb data hsm (data.toList.length + 1) true rest f1 (p1 + 1)
            ({ initRegs dst hs with p := ((p1 + 1 : Nat) : Int) } : Regs τ) hat' rfl rfl hf'
            (by simp only [Array.length_toList]; omega)
          simpa [initRegs] using key
        · have h91' : (b == 91) = false := by simpa using h91
          have hstep : (machine .harr).step ⟨.hTop, .want true⟩ b = errTr .harr .hTop := by
            simp [machine, step, hnws, h110', h91']
          have hk1 : (Kind.harr == Kind.hobj) = false := rfl
          simp only [beq_self_eq_true, Bool.true_and, h91', Bool.false_eq_true, if_false, hk1, Bool.false_and, WalkRes]
          rw [hcl]
          exact errTr_stops .harr .hTop data h f1 _ [] _ b hb hstep
      · by_cases h123 : (b == 123) = true
        · have hb123 : b = 123 := by simpa using h123
          subst hb123
          have hstep : (machine .hobj).step ⟨.hTop, .want true⟩ 123 = ([], some ⟨.hObj, .wantKey true⟩) := by
            simp [machine, step, isWs]
          rw [hcl, loopL_goto (machine .hobj) data h f1 _ _ [] _ p1 123 rest hsm rfl hat1 hstep]
          have key := obj_walk h hwb data hsm (data.toList.length + 1) true rest f1 (p1 + 1)
            ({ initRegs dst hs with p := ((p1 + 1 : Nat) : Int) } : Regs τ) hat' rfl rfl hf'
            (by simp only [Array.length_toList]; omega)
          have hk1 : (Kind.hobj == Kind.harr) = false := rfl
          simpa [hk1, initRegs] using key
        · have h123' : (b == 123) = false := by simpa using h123
          have hstep : (machine .hobj).step ⟨.hTop, .want true⟩ b = errTr .hobj .hTop := by
            simp [machine, step, hnws, h110', h123']
          have hk1 : (Kind.hobj == Kind.harr) = false := rfl
          simp only [beq_self_eq_true, Bool.true_and, h123', Bool.false_eq_true, if_false, hk1, Bool.false_and, WalkRes]
          rw [hcl]
          exact errTr_stops .hobj .hTop data h f1 _ [] _ b hb hstep

end RJson.Abs
