import RJson.Proofs.TraverseTop
/-!
# The traversal with its handler, in terms of the specification's member list

`Spec.traverseArray` / `traverseObject` give the members (raw key bytes, offset of the value's first byte) and the
end offset of a well-formed array / object (or `null`). `replay` calls the handler on them in order, stopping
at the first error. `arrWalk` / `objWalk` (what the machines compute) are exactly that.
-/
namespace RJson.Abs
open RJson.Ragel RJson.Spec RJson.HelpersSpec

/-- the handler called on the members in order; stops at the first handler error -/
def replay {τ} (h : Handler τ) (data : List UInt8) : List Member → τ → Nat → τ × Nat × Option Nat
  | [], hs, n => (hs, n, none)
  | m :: ms, hs, n =>
    match (h hs m.field.toArray (data.drop m.off).toArray).2.2 with
    | some id => ((h hs m.field.toArray (data.drop m.off).toArray).1, n + 1, some id)
    | none => replay h data ms (h hs m.field.toArray (data.drop m.off).toArray).1 (n + 1)

def replayOut {τ} (x : τ × Nat × Option Nat) (rest : List UInt8) : TOut τ :=
  match x.2.2 with
  | none => .done x.1 x.2.1 rest
  | some id => .herr x.1 x.2.1 id

theorem drop_of_suffix {v data : List UInt8} (h : v <:+ data) : data.drop (data.length - v.length) = v := by
  obtain ⟨t, rfl⟩ := h
  simp

theorem value_start_of_scan (mdv : Option Nat) (sf d : Nat) (b : UInt8) (rest r : List UInt8)
    (h : scanValue mdv sf d (b :: rest) = some r) : isValueStart b = true := by
  cases sf with
  | zero => simp [scanValue] at h
  | succ sf =>
    simp only [scanValue] at h
    simp only [isValueStart]
    by_cases h1 : (b == 34) = true
    · simp [h1]
    by_cases h2 : (b == 116) = true
    · simp [h2]
    by_cases h3 : (b == 102) = true
    · simp [h3]
    by_cases h4 : (b == 110) = true
    · simp [h4]
    by_cases h5 : (b == 91) = true
    · simp [h5]
    by_cases h6 : (b == 123) = true
    · simp [h6]
    simp only [h1, h2, h3, h4, h5, h6, Bool.false_eq_true, if_false] at h
    by_cases h7 : b = 45
    · subst h7; simp
    rw [scanNumber_other b rest h7] at h
    by_cases h8 : b = 48
    · subst h8; simp
    rw [scanNum1_other b rest h8] at h
    by_cases h9 : isDig19 b = true
    · simp [h9]
    · have : (49 ≤ b && b ≤ 57) = false := by simpa [isDig19] using h9
      simp [this] at h

/-- the handler's arguments for a member found at `v` -/
theorem memberOut_of_scan {τ} (h : Handler τ) (field : Bytes) (v r : List UInt8) (hs : τ)
    (hsv : scanValue none (2 * v.length + 2) 0 v = some r) :
    memberOut h field v hs =
      match (h hs field v.toArray).2.2 with
      | some id => .herr (h hs field v.toArray).1 id
      | none => .next (h hs field v.toArray).1 r := by
  cases v with
  | nil => rw [scanValue_nil] at hsv; cases hsv
  | cons b rest =>
    have hvs := value_start_of_scan _ _ _ b rest r hsv
    simp only [memberOut, hvs, Bool.not_true, Bool.false_eq_true, if_false, hsv]
    cases (h hs field (b :: rest).toArray).2.2 <;> rfl

theorem memberOut_not_next_of_scan_none {τ} (h : Handler τ) (field : Bytes) (v : List UInt8) (hs : τ)
    (hsv : scanValue none (2 * v.length + 2) 0 v = none) :
    ∀ hs' r, memberOut h field v hs ≠ .next hs' r := by
  intro hs' r hm
  have := memberOut_next_inv h field v hs hs' r hm
  rw [hsv] at this
  cases this

theorem stepMember_not_done {τ} (m : MOut τ) (calls : Nat) (cont : τ → Nat → List UInt8 → TOut τ)
    (hm : ∀ hs' r, m ≠ .next hs' r) : ∀ hs' n rest, stepMember m calls cont ≠ .done hs' n rest := by
  intro hs' n rest
  cases m with
  | bad => simp [stepMember]
  | herr a b => simp [stepMember]
  | next a b => exact absurd rfl (hm a b)

/-- one member found by the specification, in both formulations -/
theorem member_step {τ} (h : Handler τ) (data : List UInt8) (field : List UInt8) (v r : List UInt8) (hv : v <:+ data)
    (hsv : scanValue none (2 * v.length + 2) 0 v = some r) (hs : τ) (calls : Nat)
    (cont : τ → Nat → List UInt8 → TOut τ) (new' : List Member) (rest : List UInt8)
    (ih : ∀ hs2 c2, cont hs2 c2 r = replayOut (replay h data new' hs2 c2) rest) :
    stepMember (memberOut h field.toArray v hs) calls cont =
      replayOut (replay h data ({ field := field, off := data.length - v.length } :: new') hs calls) rest := by
  rw [memberOut_of_scan h _ v r hs hsv]
  simp only [replay, drop_of_suffix hv]
  cases he : (h hs field.toArray v.toArray).2.2 with
  | some id => simp only [stepMember, replayOut]
  | none => simp only [stepMember]; exact ih _ _

/-- arrays -/
theorem arr_members_walk {τ} (h : Handler τ) (data : List UInt8) :
    ∀ (fuel : Nat) (first : Bool) (l : List UInt8) (acc : List Member) (hs : τ) (calls : Nat), l <:+ data →
      match arrMembers data.length fuel first l acc with
      | some (ms, rest) => ∃ new, ms = acc.reverse ++ new ∧ arrWalk h fuel first l hs calls = replayOut (replay h data new hs calls) rest
      | none => ∀ hs' n rest, arrWalk h fuel first l hs calls ≠ .done hs' n rest := by
  intro fuel
  induction fuel with
  | zero => intro first l acc hs calls _; simp [arrMembers, arrWalk]
  | succ fuel ih =>
    intro first l acc hs calls hl
    simp only [arrMembers, arrWalk]
    have hws := List.IsSuffix.trans (skipWs_suffix l) hl
    cases hsk : skipWs l with
    | nil => simp
    | cons b rest =>
      rw [hsk] at hws
      simp only []
      by_cases h93 : (b == 93) = true
      · simp only [h93, if_true]
        exact ⟨[], by simp, by simp [replay, replayOut]⟩
      · have h93' : (b == 93) = false := by simpa using h93
        simp only [h93', Bool.false_eq_true, if_false]
        -- the start of the member's value, if any
        have core : ∀ (v : List UInt8), v <:+ data →
            match (match scanValue none (2 * v.length + 2) 0 v with
                | none => none
                | some r => arrMembers data.length fuel false r ({ field := [], off := data.length - v.length } :: acc)) with
            | some (ms, rest) => ∃ new, ms = acc.reverse ++ new ∧
                stepMember (memberOut h #[] v hs) calls (fun hs' n r => arrWalk h fuel false r hs' n) =
                  replayOut (replay h data new hs calls) rest
            | none => ∀ hs' n rest, stepMember (memberOut h #[] v hs) calls (fun hs' n r => arrWalk h fuel false r hs' n) ≠ .done hs' n rest := by
          intro v hv
          cases hsv : scanValue none (2 * v.length + 2) 0 v with
          | none =>
            simp only []
            exact stepMember_not_done _ _ _ (memberOut_not_next_of_scan_none h _ v hs hsv)
          | some r =>
            simp only []
            have hr : r <:+ data := List.IsSuffix.trans ((scan_suffix none _).1 _ _ _ hsv) hv
            have ih' := fun hs2 c2 => ih false r ({ field := [], off := data.length - v.length } :: acc) hs2 c2 hr
            cases hm : arrMembers data.length fuel false r ({ field := [], off := data.length - v.length } :: acc) with
            | none =>
              simp only []
              rw [memberOut_of_scan h _ v r hs hsv]
              intro hs' n rest
              cases he : (h hs #[] v.toArray).2.2 with
              | some id => simp [stepMember]
              | none =>
                simp only [stepMember]
                have := ih' (h hs #[] v.toArray).1 (calls + 1)
                rw [hm] at this
                exact this hs' n rest
            | some pr =>
              obtain ⟨ms, rest⟩ := pr
              simp only []
              have h0 := ih' hs calls
              rw [hm] at h0
              obtain ⟨new', hms, _⟩ := h0
              refine ⟨{ field := [], off := data.length - v.length } :: new', by simp [hms], ?_⟩
              have := member_step h data [] v r hv hsv hs calls (fun hs' n r => arrWalk h fuel false r hs' n) new' rest
                (by
                  intro hs2 c2
                  have h2 := ih' hs2 c2
                  rw [hm] at h2
                  obtain ⟨new2, hms2, hw2⟩ := h2
                  have : new2 = new' := by
                    have := hms.symm.trans hms2
                    exact (List.append_cancel_left this).symm
                  rw [← this]; exact hw2)
              exact this
        cases first with
        | true =>
          simp only [if_true]
          exact core (b :: rest) hws
        | false =>
          simp only [Bool.false_eq_true, if_false]
          by_cases h44 : (b == 44) = true
          · simp only [h44, if_true]
            exact core (skipWs rest) (List.IsSuffix.trans (skipWs_suffix rest) (List.IsSuffix.trans (List.suffix_cons b rest) hws))
          · have h44' : (b == 44) = false := by simpa using h44
            simp [h44']

/-! ## objects -/

def colonAt (total fuel : Nat) (acc : List Member) (body : List UInt8) : List UInt8 → Option (List Member × List UInt8)
  | 58 :: r2 =>
    match scanValue none (2 * (skipWs r2).length + 2) 0 (skipWs r2) with
    | none => none
    | some r => objMembers total fuel false r ({ field := body, off := total - (skipWs r2).length } :: acc)
  | _ => none

def objMemberAt (total fuel : Nat) (acc : List Member) : List UInt8 → Option (List Member × List UInt8)
  | 34 :: k =>
    match splitString k with
    | none => none
    | some (body, r1) => colonAt total fuel acc body (skipWs r1)
  | _ => none

theorem objMemberAt_other (total fuel : Nat) (acc : List Member) (b : UInt8) (rest : List UInt8) (hb : b ≠ 34) :
    objMemberAt total fuel acc (b :: rest) = none := by
  simp only [objMemberAt]
  split
  · next heq => injection heq with h1 _; exact absurd h1 hb
  · rfl

theorem colonAt_other (total fuel : Nat) (acc : List Member) (body : List UInt8) (b : UInt8) (rest : List UInt8) (hb : b ≠ 58) :
    colonAt total fuel acc body (b :: rest) = none := by
  simp only [colonAt]
  split
  · next heq => injection heq with h1 _; exact absurd h1 hb
  · rfl

theorem objMembers_succ (total fuel : Nat) (first : Bool) (l : List UInt8) (acc : List Member) :
    objMembers total (fuel + 1) first l acc =
      match skipWs l with
      | [] => none
      | b :: rest =>
        if b == 125 then some (acc.reverse, rest)
        else if first then objMemberAt total fuel acc (b :: rest)
        else if b == 44 then objMemberAt total fuel acc (skipWs rest) else none := by
  simp only [objMembers]
  cases skipWs l with
  | nil => rfl
  | cons b rest =>
    simp only []
    by_cases h125 : (b == 125) = true
    · simp only [h125, if_true]
    · simp only [h125, Bool.false_eq_true, if_false]
      cases first with
      | true =>
        simp only [if_true]
        by_cases hb : b = 34
        · subst hb; rfl
        · rw [objMemberAt_other total fuel acc b rest hb]
          split
          · next heq => injection heq with heq; injection heq with h1 _; exact absurd h1 hb
          · rfl
      | false =>
        simp only [Bool.false_eq_true, if_false]
        by_cases h44 : (b == 44) = true
        · simp only [h44, if_true]
          generalize skipWs rest = x
          cases x with
          | nil => rfl
          | cons d t =>
            by_cases hd : d = 34
            · subst hd; rfl
            · rw [objMemberAt_other total fuel acc d t hd]
              split
              · next heq => injection heq with heq; injection heq with h1 _; exact absurd h1 hd
              · rfl
        · simp only [h44, Bool.false_eq_true, if_false]

theorem obj_members_walk {τ} (h : Handler τ) (data : List UInt8) :
    ∀ (fuel : Nat) (first : Bool) (l : List UInt8) (acc : List Member) (hs : τ) (calls : Nat), l <:+ data →
      match objMembers data.length fuel first l acc with
      | some (ms, rest) => ∃ new, ms = acc.reverse ++ new ∧ objWalk h fuel first l hs calls = replayOut (replay h data new hs calls) rest
      | none => ∀ hs' n rest, objWalk h fuel first l hs calls ≠ .done hs' n rest := by
  intro fuel
  induction fuel with
  | zero => intro first l acc hs calls _; simp [objMembers, objWalk]
  | succ fuel ih =>
    intro first l acc hs calls hl
    rw [objMembers_succ]
    simp only [objWalk]
    have hws := List.IsSuffix.trans (skipWs_suffix l) hl
    cases hsk : skipWs l with
    | nil => simp
    | cons b rest =>
      rw [hsk] at hws
      simp only []
      by_cases h125 : (b == 125) = true
      · simp only [h125, if_true]
        exact ⟨[], by simp, by simp [replay, replayOut]⟩
      · have h125' : (b == 125) = false := by simpa using h125
        simp only [h125', Bool.false_eq_true, if_false]
        have core : ∀ (kl : List UInt8), kl <:+ data →
            match objMemberAt data.length fuel acc kl with
            | some (ms, rest) => ∃ new, ms = acc.reverse ++ new ∧
                keyMember h hs calls (fun hs' n r => objWalk h fuel false r hs' n) kl = replayOut (replay h data new hs calls) rest
            | none => ∀ hs' n rest, keyMember h hs calls (fun hs' n r => objWalk h fuel false r hs' n) kl ≠ .done hs' n rest := by
          intro kl hkl
          cases kl with
          | nil => simp [objMemberAt, keyMember]
          | cons q k =>
            by_cases hq : q = 34
            · subst hq
              rw [keyMember_34]
              simp only [objMemberAt]
              cases hsp : splitString k with
              | none => simp
              | some pr =>
                obtain ⟨body, r1⟩ := pr
                simp only []
                have hr1 : r1 <:+ data := by
                  simp only [splitString] at hsp
                  cases hsb : scanStringBody k with
                  | none => rw [hsb] at hsp; cases hsp
                  | some rr =>
                    rw [hsb] at hsp
                    injection hsp with hsp
                    injection hsp with _ h2
                    subst h2
                    exact List.IsSuffix.trans (suffix_of_cons_suffix (scanStringBody_closing _ _ hsb))
                      (List.IsSuffix.trans (List.suffix_cons 34 k) hkl)
                have hsw := List.IsSuffix.trans (skipWs_suffix r1) hr1
                cases hsk1 : skipWs r1 with
                | nil => simp [colonAt, colonMember]
                | cons b2 r2 =>
                  rw [hsk1] at hsw
                  by_cases h58 : b2 = 58
                  · subst h58
                    rw [colonMember_58]
                    simp only [colonAt]
                    have hv : skipWs r2 <:+ data :=
                      List.IsSuffix.trans (skipWs_suffix r2) (List.IsSuffix.trans (List.suffix_cons 58 r2) hsw)
                    generalize skipWs r2 = v at hv
                    cases hsv : scanValue none (2 * v.length + 2) 0 v with
                    | none =>
                      simp only []
                      exact stepMember_not_done _ _ _ (memberOut_not_next_of_scan_none h _ v hs hsv)
                    | some r =>
                      simp only []
                      have hr : r <:+ data := List.IsSuffix.trans ((scan_suffix none _).1 _ _ _ hsv) hv
                      have ih' := fun hs2 c2 => ih false r ({ field := body, off := data.length - v.length } :: acc) hs2 c2 hr
                      cases hm : objMembers data.length fuel false r ({ field := body, off := data.length - v.length } :: acc) with
                      | none =>
                        simp only []
                        rw [memberOut_of_scan h _ v r hs hsv]
                        intro hs' n rest
                        cases he : (h hs body.toArray v.toArray).2.2 with
                        | some id => simp [stepMember]
                        | none =>
                          simp only [stepMember]
                          have := ih' (h hs body.toArray v.toArray).1 (calls + 1)
                          rw [hm] at this
                          exact this hs' n rest
                      | some pr =>
                        obtain ⟨ms, rest⟩ := pr
                        simp only []
                        have h0 := ih' hs calls
                        rw [hm] at h0
                        obtain ⟨new', hms, _⟩ := h0
                        refine ⟨{ field := body, off := data.length - v.length } :: new', by simp [hms], ?_⟩
                        exact member_step h data body v r hv hsv hs calls (fun hs' n r => objWalk h fuel false r hs' n) new' rest
                          (by
                            intro hs2 c2
                            have h2 := ih' hs2 c2
                            rw [hm] at h2
                            obtain ⟨new2, hms2, hw2⟩ := h2
                            have : new2 = new' := by
                              have := hms.symm.trans hms2
                              exact (List.append_cancel_left this).symm
                            rw [← this]; exact hw2)
                  · rw [colonAt_other _ _ _ _ b2 r2 h58, colonMember_other h _ _ _ _ b2 r2 h58]
                    simp
            · rw [objMemberAt_other _ _ _ q k hq, keyMember_other h _ _ _ q k hq]
              simp
        cases first with
        | true =>
          simp only [if_true]
          exact core (b :: rest) hws
        | false =>
          simp only [Bool.false_eq_true, if_false]
          by_cases h44 : (b == 44) = true
          · simp only [h44, if_true]
            exact core (skipWs rest) (List.IsSuffix.trans (skipWs_suffix rest) (List.IsSuffix.trans (List.suffix_cons b rest) hws))
          · have h44' : (b == 44) = false := by simpa using h44
            simp [h44']

end RJson.Abs
