import RJson.Proofs.StrMachine
import RJson.Certs.AppendRemainderOfString
import RJson.Certs.UnescapeStringContent
import RJson.Model.Api
import RJson.Proofs.Basic
/-!
# `ReadStringBytes` / `ReadString`: the fast pre-scan and the escape machine together = `Spec.readString`
-/
namespace RJson.StrRead
open RJson.Ragel RJson.Spec RJson.AbsSmall RJson.StrDecode RJson.StrMachine RJson.Abs

/-- bytes the pre-scan of `ReadStringBytes` steps over -/
def isPlainB (b : UInt8) : Bool := !(decide (b ≤ 0x1f)) && b != 34 && b != 92

theorem le31_iff_lt32 (b : UInt8) : (b ≤ 0x1f) ↔ (b < 32) := by
  rw [UInt8.le_iff_toNat_le, UInt8.lt_iff_toNat_lt]
  have h1 : (0x1f : UInt8).toNat = 31 := rfl
  have h2 : (32 : UInt8).toNat = 32 := rfl
  omega

theorem scan_plain_prefix : ∀ (pre t : List UInt8), (∀ b ∈ pre, isPlainB b = true) → scanStringBody (pre ++ t) = scanStringBody t := by
  intro pre
  induction pre with
  | nil => intro t _; rfl
  | cons x pre ih =>
    intro t hall
    have hx := hall x (by simp)
    simp only [isPlainB, Bool.and_eq_true, Bool.not_eq_true', decide_eq_false_iff_not, bne_iff_ne, ne_eq] at hx
    obtain ⟨⟨hc, h34⟩, h92⟩ := hx
    have hc' : ¬ x < 32 := fun hh => hc ((le31_iff_lt32 x).mpr hh)
    simp only [List.cons_append]
    rw [scanStringBody_plain x _ h34 h92]
    simp only [hc', if_false]
    exact ih t (fun b hb => hall b (by simp [hb]))

theorem decode_plain_prefix : ∀ (pre B : List UInt8) (F : Nat), (∀ b ∈ pre, isPlainB b = true) →
    decodeString (F + pre.length) (pre ++ B) = pre ++ decodeString F B := by
  intro pre
  induction pre with
  | nil => intro B F _; rfl
  | cons x pre ih =>
    intro B F hall
    have hx := hall x (by simp)
    simp only [isPlainB, Bool.and_eq_true, bne_iff_ne, ne_eq] at hx
    have h92 := hx.2
    simp only [List.cons_append, List.length_cons]
    have : F + (pre.length + 1) = (F + pre.length) + 1 := by omega
    rw [this, decodeString_plain _ x _ h92, ih B F (fun b hb => hall b (by simp [hb]))]

/-- what the pre-scan finds -/
theorem strScan_spec (data : Bytes) : ∀ (l : List UInt8) (fuel p : Nat), At data p l → l.length ≤ fuel →
    ∃ pre t, l = pre ++ t ∧ (∀ b ∈ pre, isPlainB b = true) ∧
      (match t with
        | [] => Model.strScan data fuel p = .eof (p + pre.length)
        | b :: _ => isPlainB b = false ∧
            Model.strScan data fuel p =
              (if b ≤ 0x1f then .control (p + pre.length) else if b == 34 then .quote (p + pre.length) else .escape (p + pre.length))) := by
  intro l
  induction l with
  | nil =>
    intro fuel p hat _
    refine ⟨[], [], rfl, by simp, ?_⟩
    have hp := hat.nil_inv
    have : data[p]? = none := by simp [hp]
    cases fuel <;> simp [Model.strScan, this]
  | cons x rest ih =>
    intro fuel p hat hf
    obtain ⟨fuel, rfl⟩ : ∃ f, fuel = f + 1 := ⟨fuel - 1, by simp only [List.length_cons] at hf; omega⟩
    obtain ⟨hb, hlt, hat'⟩ := hat.cons_inv
    have hget : data[p]? = some x := by
      simp only [getByte] at hb
      have : (0 : Int) ≤ (p : Int) ∧ (p : Int) < (data.size : Int) := by omega
      simpa [this] using hb
    by_cases hpl : isPlainB x = true
    · obtain ⟨pre, t, hl, hall, hm⟩ := ih fuel (p + 1) hat' (by simp only [List.length_cons] at hf; omega)
      refine ⟨x :: pre, t, by simp [hl], by intro b hb; simp at hb; rcases hb with rfl | hb; exact hpl; exact hall b hb, ?_⟩
      have hx := hpl
      simp only [isPlainB, Bool.and_eq_true, Bool.not_eq_true', decide_eq_false_iff_not, bne_iff_ne, ne_eq] at hx
      obtain ⟨⟨hc, h34⟩, h92⟩ := hx
      have h34' : (x == 34) = false := by simpa using h34
      have h92' : (x == 92) = false := by simpa using h92
      have hstep : Model.strScan data (fuel + 1) p = Model.strScan data fuel (p + 1) := by
        simp [Model.strScan, hget, hc, h34', h92']
      have hpos : p + (x :: pre).length = p + 1 + pre.length := by simp only [List.length_cons]; omega
      cases t with
      | nil => simp only [] at hm ⊢; rw [hstep, hm, hpos]
      | cons b t' => simp only [] at hm ⊢; rw [hstep, hpos]; exact hm
    · have hpl' : isPlainB x = false := by simpa using hpl
      refine ⟨[], x :: rest, rfl, by simp, ?_⟩
      simp only [List.length_nil, Nat.add_zero]
      refine ⟨hpl', ?_⟩
      simp only [Model.strScan, hget]
      by_cases hc : x ≤ 0x1f
      · simp [hc]
      · by_cases h34 : (x == 34) = true
        · simp [hc, h34]
        · have h92 : (x == 92) = true := by
            simp only [isPlainB, hc, decide_false, Bool.not_false, Bool.true_and, Bool.and_eq_false_iff, bne_eq_false_iff_eq] at hpl'
            rcases hpl' with h | h
            · exact absurd (by simpa using h) h34
            · simpa using h
          simp [hc, h34, h92]

/-- `appendRemainderOfString(data[off:], dst)` (regenerated table) -/
theorem appendRemainder_spec (data : Bytes) (hsm : Small data) (off : Nat) (hoff : off ≤ data.size) (dst : Bytes) :
    match scanStringBody (data.toList.drop off) with
    | some rest => ∃ body, data.toList.drop off = body ++ 34 :: rest ∧
        (Model.appendRemainder data off dst).err = none ∧ (Model.appendRemainder data off dst).panicked = false ∧
        (Model.appendRemainder data off dst).p = (((data.size - off) - rest.length : Nat) : Int) ∧
        (Model.appendRemainder data off dst).val = dst ++ (decodeString (body.length + 1) body).toArray
    | none => (Model.appendRemainder data off dst).err ≠ none ∧ (Model.appendRemainder data off dst).panicked = false := by
  have hl : (data.extract off data.size).toList = data.toList.drop off := by
    rw [extract_toList]
    rw [List.take_of_length_le]
    simp
  have hsz : (data.extract off data.size).size = data.size - off := by simp
  have hsm' : Small (data.extract off data.size) := by unfold Small at hsm ⊢; rw [hsz]; omega
  have hat : At (data.extract off data.size) 0 (data.toList.drop off) := by
    have := At.start (data.extract off data.size)
    rw [hl] at this
    exact this
  have hlen : (data.toList.drop off).length = data.size - off := by simp
  have key := append_run (data.extract off data.size) hsm' noHandler (data.toList.drop off).length (data.toList.drop off)
    (Nat.le_refl _) none (fuelFor (data.extract off data.size)) 0 (initRegs dst ()) hat rfl
    (by simp only [fuelFor, hsz, hlen]; omega) trivial rfl
  have hrun : Model.runNoStack Gen.AppendRemainderOfString.machine (data.extract off data.size) dst =
      contL (smachine .append) (data.extract off data.size) noHandler (fuelFor (data.extract off data.size)) .start [] (initRegs dst ()) := by
    simp only [Model.runNoStack]
    rw [Certs.AppendRemainderOfString.run_eq, runL_eq_contL]
    rfl
  simp only [Model.appendRemainder, hrun]
  have hst : stOf none = .start := rfl
  rw [hst] at key
  generalize contL (smachine .append) (data.extract off data.size) noHandler (fuelFor (data.extract off data.size)) .start [] (initRegs dst ()) = res at key
  cases hs : scanStringBody (data.toList.drop off) with
  | none =>
    rw [hs] at key
    obtain ⟨e, he⟩ := key
    simp [Model.ofResult, he]
  | some rest =>
    rw [hs] at key
    obtain ⟨body, hb, hres⟩ := key
    obtain ⟨hk, hp, hd⟩ := hres (body.length + 1) (Nat.le_refl _)
    refine ⟨body, hb, ?_⟩
    simp [Model.ofResult, hk, hp, hd, hsz, initRegs, pendL]

theorem readString_34 (data l : List UInt8) (h : skipWs data = 34 :: l) :
    Spec.readString data =
      match splitString l with
      | some (body, rest) => some (decodeString (body.length + 1) body, data.length - rest.length)
      | none => none := by
  simp only [Spec.readString, h]
  rfl

theorem readString_other (data : List UInt8) (h : ∀ l, skipWs data ≠ 34 :: l) : Spec.readString data = none := by
  simp only [Spec.readString]

theorem take_append_len (a b : List UInt8) (n : Nat) (h : n = a.length) : (a ++ b).take n = a := by
  subst h; simp

/-- **`ReadStringBytes`** (fast pre-scan + regenerated escape machine) against the specification -/
theorem readStringBytes_spec (data : Bytes) (hsm : Small data) (buf : Bytes) :
    match Spec.readString data.toList with
    | some (content, n) => (Model.readStringBytes data buf).err = none ∧ (Model.readStringBytes data buf).panicked = false ∧
        (Model.readStringBytes data buf).p = (n : Int) ∧ (Model.readStringBytes data buf).val = buf ++ content.toArray
    | none => (Model.readStringBytes data buf).err ≠ none ∧ (Model.readStringBytes data buf).panicked = false := by
  have hcw := countWhitespace_spec data
  have hwl := skipWs_length_le' data.toList
  simp only [Array.length_toList] at hwl
  have hatL : At data (data.size - (skipWs data.toList).length) (skipWs data.toList) := by
    refine ⟨by omega, ?_⟩
    have := C13Aux.drop_skipWs data.toList
    simpa using this
  simp only [Model.readStringBytes, hcw]
  cases hsk : skipWs data.toList with
  | nil =>
    rw [readString_other _ (by intro l hh; rw [hsk] at hh; cases hh)]
    simp
  | cons b l =>
    rw [hsk] at hatL hwl
    simp only [List.length_cons] at hwl hatL
    obtain ⟨hb, hlt, hat'⟩ := hatL.cons_inv
    have hget : data[data.size - (l.length + 1)]? = some b := by
      simp only [getByte] at hb
      have : (0 : Int) ≤ ((data.size - (l.length + 1) : Nat) : Int) ∧ ((data.size - (l.length + 1) : Nat) : Int) < (data.size : Int) := by omega
      simpa [this] using hb
    have hbang := getBang data _ b hget
    have hne : (data.size - (l.length + 1) == data.size) = false := by simp; omega
    simp only [List.length_cons, hne, Bool.false_or, hbang]
    by_cases h34 : b = 34
    · subst h34
      rw [readString_34 _ l hsk]
      simp only [bne_self_eq_false, Bool.false_eq_true, if_false]
      have hstart : data.size - (l.length + 1) + 1 = data.size - l.length := by omega
      rw [hstart] at hat' ⊢
      have hfuel : data.size - (data.size - l.length) = l.length := by omega
      rw [hfuel]
      obtain ⟨pre, t, hl, hall, hm⟩ := strScan_spec data l l.length (data.size - l.length) hat' (Nat.le_refl _)
      have hlenl : l.length = pre.length + t.length := by rw [hl]; simp
      have hext : data.extract (data.size - l.length) (data.size - l.length + pre.length) = pre.toArray := by
        apply Array.ext'
        rw [extract_toList, hat'.eq, hl]
        simp
      cases t with
      | nil =>
        simp only [] at hm
        rw [hm]
        simp only [splitString]
        rw [hl, scan_plain_prefix pre [] hall]
        simp [scanStringBody]
      | cons c t' =>
        simp only [] at hm
        obtain ⟨hnp, hm⟩ := hm
        rw [hm]
        have hatq : At data (data.size - l.length + pre.length) (c :: t') := by
          have := HelpersSpec.at_suffix hat' pre.length (by rw [hl]; simp)
          have hd : l.drop pre.length = c :: t' := by rw [hl]; simp
          rw [hd] at this
          exact this
        have hdrop : data.toList.drop (data.size - l.length + pre.length) = c :: t' := hatq.eq
        simp only [List.length_cons] at hlenl
        by_cases hc : c ≤ 0x1f
        · -- a control byte: the machine reports it
          simp only [hc, if_true]
          have hc32 : c < 32 := (le31_iff_lt32 c).mp hc
          have h34c : c ≠ 34 := by intro hh; subst hh; exact absurd hc32 (by decide)
          have h92c : c ≠ 92 := by intro hh; subst hh; exact absurd hc32 (by decide)
          have hsn : scanStringBody l = none := by
            rw [hl, scan_plain_prefix pre _ hall, scanStringBody_plain c t' h34c h92c]
            simp [hc32]
          simp only [splitString, hsn]
          have key := appendRemainder_spec data hsm (data.size - l.length + pre.length) (by omega) buf
          rw [hdrop, scanStringBody_plain c t' h34c h92c] at key
          simp only [hc32, if_true] at key
          exact key
        · simp only [hc, if_false]
          by_cases hq : (c == 34) = true
          · -- no escape: the content is the bytes between the quotes
            have hq' : c = 34 := by simpa using hq
            subst hq'
            simp only [beq_self_eq_true, if_true, hext]
            have hss : scanStringBody l = some t' := by
              rw [hl, scan_plain_prefix pre _ hall]; simp [scanStringBody]
            have htake : l.take (l.length - t'.length - 1) = pre := by
              have hn : l.length - t'.length - 1 = pre.length := by omega
              rw [hn, hl]; exact take_append_len pre _ _ rfl
            simp only [splitString, hss, htake]
            have hdec : decodeString (pre.length + 1) pre = pre := by
              have := decode_plain_prefix pre [] 1 hall
              simp only [List.append_nil, decodeString_nil] at this
              rw [Nat.add_comm]; exact this
            rw [hdec]
            refine ⟨trivial, trivial, ?_, rfl⟩
            simp only [Array.length_toList]
            omega
          · -- an escape: the machine decodes the rest
            have hq' : (c == 34) = false := by simpa using hq
            simp only [hq', Bool.false_eq_true, if_false, hext]
            have key := appendRemainder_spec data hsm (data.size - l.length + pre.length) (by omega) (buf ++ pre.toArray)
            rw [hdrop] at key
            have hsl : scanStringBody l = scanStringBody (c :: t') := by rw [hl, scan_plain_prefix pre _ hall]
            simp only [splitString, hsl]
            cases hs : scanStringBody (c :: t') with
            | none =>
              rw [hs] at key
              exact key
            | some rest =>
              rw [hs] at key
              obtain ⟨body, hbd, he, hpk, hp, hv⟩ := key
              have hbl : (c :: t').length = body.length + 1 + rest.length := by rw [hbd]; simp; omega
              simp only [List.length_cons] at hbl
              have htake : l.take (l.length - rest.length - 1) = pre ++ body := by
                have hn : l.length - rest.length - 1 = (pre ++ body).length := by simp; omega
                rw [hn, hl, hbd, ← List.append_assoc]
                exact take_append_len (pre ++ body) _ _ rfl
              simp only [htake]
              have hdec : decodeString ((pre ++ body).length + 1) (pre ++ body) = pre ++ decodeString (body.length + 1) body := by
                have := decode_plain_prefix pre body (body.length + 1) hall
                have e : (pre ++ body).length + 1 = body.length + 1 + pre.length := by simp; omega
                rw [e]; exact this
              rw [hdec]
              refine ⟨he, hpk, ?_, ?_⟩
              · simp only [hp, Array.length_toList]
                omega
              · rw [hv]; simp
    · rw [readString_other _ (by intro l' hh; rw [hsk] at hh; injection hh with h1 _; exact h34 h1)]
      have : (b != 34) = true := by simpa using h34
      simp [this]

end RJson.StrRead
