import RJson.Proofs.ScannerChars
import RJson.Proofs.SkipTop
/-!
# The fast skip machine on well-formed values

Inside a container the fast machine only tracks strings and the bracket kind of the container it is in.
If the reference scanner recognises a value, the fast machine steps over exactly that value.
-/
namespace RJson.Abs
open RJson.Ragel RJson.Spec RJson.HelpersSpec

/-- bytes the fast machine steps over inside context `F` -/
def inert (F : Ctx) (b : UInt8) : Bool :=
  b != 34 && !(F == .farr && (b == 91 || b == 93)) && !(F == .fobj && (b == 123 || b == 125))

theorem body_inert (F : Ctx) (hF : F = .farr ∨ F = .fobj) (b : UInt8) (hb : inert F b = true) :
    (machine .fast).step ⟨F, .body⟩ b = ([], some ⟨F, .body⟩) := by
  rcases hF with rfl | rfl
  · have h1 : (b == 34) = false := by simp [inert] at hb; simpa using hb.1
    have h2 : (b == 91) = false := by simp [inert] at hb; simpa using hb.2.1
    have h3 : (b == 93) = false := by simp [inert] at hb; simpa using hb.2.2
    simp [machine, step, h1, h2, h3]
  · have h1 : (b == 34) = false := by simp [inert] at hb; simpa using hb.1
    have h2 : (b == 123) = false := by simp [inert] at hb; simpa using hb.2.1
    have h3 : (b == 125) = false := by simp [inert] at hb; simpa using hb.2.2
    simp [machine, step, h1, h2, h3]

theorem inert_of_all (Q : UInt8 → Bool)
    (hall : allBelow (fun n => !(Q (UInt8.ofNat n)) || (inert .farr (UInt8.ofNat n) && inert .fobj (UInt8.ofNat n))) 256 = true)
    (F : Ctx) (hF : F = .farr ∨ F = .fobj) (b : UInt8) (hq : Q b = true) : inert F b = true := by
  have := forall_byte (P := fun b => !(Q b) || (inert .farr b && inert .fobj b)) hall b
  simp only [hq, Bool.not_true, Bool.false_or, Bool.and_eq_true] at this
  rcases hF with rfl | rfl
  · exact this.1
  · exact this.2

theorem ws_inert : ∀ (F : Ctx), (F = .farr ∨ F = .fobj) → ∀ b, isWs b = true → inert F b = true :=
  inert_of_all isWs (by decide +kernel)

theorem numChar_inert : ∀ (F : Ctx), (F = .farr ∨ F = .fobj) → ∀ b, numChar b = true → inert F b = true :=
  inert_of_all numChar (by decide +kernel)

theorem letters_inert : ∀ (F : Ctx), (F = .farr ∨ F = .fobj) → ∀ b,
    ([116, 114, 117, 101, 102, 97, 108, 115, 110] : List UInt8).contains b = true → inert F b = true :=
  inert_of_all _ (by decide +kernel)

theorem sep_inert : ∀ (F : Ctx), (F = .farr ∨ F = .fobj) → ∀ b, (b == 44 || b == 58) = true → inert F b = true :=
  inert_of_all _ (by decide +kernel)

/-- a state that loops on the bytes satisfying `P` runs over a `P`-prefix -/
theorem loop_run {τ} (M : PDM AS) (s : AS) (P : UInt8 → Bool) (hs : ∀ b, P b = true → M.step s b = ([], some s))
    (data : Bytes) (h : Handler τ) (hsm : Small data) :
    ∀ (pre rest : List UInt8) (fuel p : Nat) (st : List AS) (r : Regs τ), (∀ b ∈ pre, P b = true) →
      At data p (pre ++ rest) → r.p = p → (pre ++ rest).length + 1 ≤ fuel → Reach M data h fuel s st r rest s st := by
  intro pre
  induction pre with
  | nil => intro rest fuel p st r _ hat hp hf; exact Reach.refl M data h fuel s st r p rest hat hp hf
  | cons b pre ih =>
    intro rest fuel p st r hall hat hp hf
    obtain ⟨fuel, rfl⟩ : ∃ f, fuel = f + 1 := ⟨fuel - 1, by omega⟩
    obtain ⟨_, _, hat'⟩ := hat.cons_inv
    unfold Reach
    rw [contL_cons M data h _ _ _ r p b (pre ++ rest) hp hat,
      loopL_goto M data h fuel s s st r p b (pre ++ rest) hsm hp hat (hs b (hall b (by simp)))]
    exact ih rest fuel (p + 1) st { r with p := ((p + 1 : Nat) : Int) } (fun x hx => hall x (by simp [hx])) hat' rfl
      (by simp only [List.cons_append, List.length_cons] at hf; omega)

theorem pre_run {τ} (F : Ctx) (hF : F = .farr ∨ F = .fobj) (data : Bytes) (h : Handler τ) (hsm : Small data)
    (l r' : List UInt8) (hpre : Pre (inert F) l r') (fuel p : Nat) (st : List AS) (r : Regs τ)
    (hat : At data p l) (hp : r.p = p) (hf : l.length + 1 ≤ fuel) :
    Reach (machine .fast) data h fuel ⟨F, .body⟩ st r r' ⟨F, .body⟩ st := by
  obtain ⟨pre, rfl, hall⟩ := hpre
  exact loop_run (machine .fast) _ (inert F) (body_inert F hF) data h hsm pre r' fuel p st r hall hat hp hf

theorem fast_str_step (F : Ctx) (hF : F = .farr ∨ F = .fobj) (t : Tok) (b : UInt8) (ht : t.isStr = true) :
    (machine .fast).step ⟨F, .tok t⟩ b = strTr .fast F .tok ⟨F, .body⟩ t b := by
  rcases hF with rfl | rfl <;> cases t <;> first | rfl | (simp [Tok.isStr] at ht)

/-- a string inside a fast container -/
theorem fast_str {τ} (F : Ctx) (hF : F = .farr ∨ F = .fobj) (data : Bytes) (h : Handler τ) (hsm : Small data)
    (krest r1 : List UInt8) (hs : scanStringBody krest = some r1) (fuel p : Nat) (st : List AS) (r : Regs τ)
    (hat : At data p (34 :: krest)) (hp : r.p = p) (hf : (34 :: krest).length + 1 ≤ fuel) :
    Reach (machine .fast) data h fuel ⟨F, .body⟩ st r r1 ⟨F, .body⟩ st := by
  obtain ⟨fuel, rfl⟩ : ∃ f, fuel = f + 1 := ⟨fuel - 1, by omega⟩
  obtain ⟨_, _, hat'⟩ := hat.cons_inv
  have hstep : (machine .fast).step ⟨F, .body⟩ 34 = ([], some ⟨F, .tok .str⟩) := by
    rcases hF with rfl | rfl <;> rfl
  have key := str_run .fast F .tok ⟨F, .body⟩ (fun t b ht => fast_str_step F hF t b ht) (fun t ht => str_tok_not_final F t ht)
    data h hsm krest .str rfl fuel (p + 1) st { r with p := ((p + 1 : Nat) : Int) } hat' rfl
    (by simp only [List.length_cons] at hf; omega)
  rw [strScanT_str, hs] at key
  unfold Reach at key ⊢
  rw [contL_cons (machine .fast) data h _ _ _ r p 34 krest hp hat,
    loopL_goto (machine .fast) data h fuel _ _ st r p 34 krest hsm hp hat hstep]
  exact key

/-- the scanner's depth limit is the machines' -/
def mdF : Option Nat := some Gen.skipMaxDepth

/-- consuming the closing bracket `cb` in configuration `(F, S)` leads to `(E, S')` -/
def Closes {τ} (data : Bytes) (h : Handler τ) (F : Ctx) (cb : UInt8) (S : List AS) (E : AS) (S' : List AS) : Prop :=
  ∀ (fuel p : Nat) (r : Regs τ) (rest : List UInt8), At data p (cb :: rest) → r.p = p →
    loopL (machine .fast) data h (fuel + 1) ⟨F, .body⟩ S r =
      contL (machine .fast) data h fuel E S' { r with p := ((p + 1 : Nat) : Int) }

theorem closes_arr_tracked {τ} (data : Bytes) (h : Handler τ) (hsm : Small data) (ret : AS) (st : List AS) :
    Closes data h .farr 93 (ret :: st) ret st := by
  intro fuel p r rest hat hp
  exact loopL_ret (machine .fast) data h fuel _ _ ret st r p 93 rest hsm hp hat rfl

theorem closes_obj_tracked {τ} (data : Bytes) (h : Handler τ) (hsm : Small data) (ret : AS) (st : List AS) :
    Closes data h .fobj 125 (ret :: st) ret st := by
  intro fuel p r rest hat hp
  exact loopL_ret (machine .fast) data h fuel _ _ ret st r p 125 rest hsm hp hat rfl

theorem closes_untracked {τ} (data : Bytes) (h : Handler τ) (hsm : Small data) (F : Ctx) (hF : F = .farr ∨ F = .fobj)
    (cb : UInt8) (hcb : inert F cb = true) (S : List AS) : Closes data h F cb S ⟨F, .body⟩ S := by
  intro fuel p r rest hat hp
  exact loopL_goto (machine .fast) data h fuel _ _ S r p cb rest hsm hp hat (body_inert F hF cb hcb)

def VF {τ} (data : Bytes) (h : Handler τ) (sf : Nat) : Prop :=
  ∀ (F : Ctx), (F = .farr ∨ F = .fobj) → ∀ (d : Nat) (l r' : List UInt8), scanValue mdF sf d l = some r' →
    ∀ (fuel p : Nat) (st : List AS) (r : Regs τ), At data p l → r.p = p → l.length + 1 ≤ fuel →
      st.length ≤ d → d ≤ Gen.skipMaxDepth →
      Reach (machine .fast) data h fuel ⟨F, .body⟩ st r r' ⟨F, .body⟩ st

def AW {τ} (data : Bytes) (h : Handler τ) (sf : Nat) : Prop :=
  ∀ (F : Ctx), (F = .farr ∨ F = .fobj) → ∀ (S : List AS) (E : AS) (S' : List AS), Closes data h F 93 S E S' →
    ∀ (first : Bool) (d : Nat) (l r' : List UInt8), scanArr mdF sf d first l = some r' →
    ∀ (fuel p : Nat) (r : Regs τ), At data p l → r.p = p → l.length + 1 ≤ fuel → S.length ≤ d → d ≤ Gen.skipMaxDepth →
      Reach (machine .fast) data h fuel ⟨F, .body⟩ S r r' E S'

def OW {τ} (data : Bytes) (h : Handler τ) (sf : Nat) : Prop :=
  ∀ (F : Ctx), (F = .farr ∨ F = .fobj) → ∀ (S : List AS) (E : AS) (S' : List AS), Closes data h F 125 S E S' →
    ∀ (first : Bool) (d : Nat) (l r' : List UInt8), scanObj mdF sf d first l = some r' →
    ∀ (fuel p : Nat) (r : Regs τ), At data p l → r.p = p → l.length + 1 ≤ fuel → S.length ≤ d → d ≤ Gen.skipMaxDepth →
      Reach (machine .fast) data h fuel ⟨F, .body⟩ S r r' E S'

theorem lit_pre_inert (F : Ctx) (hF : F = .farr ∨ F = .fobj) (lit : List UInt8)
    (hsub : ∀ c, lit.contains c = true → ([116, 114, 117, 101, 102, 97, 108, 115, 110] : List UInt8).contains c = true)
    (rest r' : List UInt8) (h : scanLit lit rest = some r') : Pre (inert F) rest r' :=
  Pre.mono (fun c hc => letters_inert F hF c (hsub c hc)) (scanLit_pre lit rest r' h)

theorem limit_ok (st : List AS) (d : Nat) (hst : st.length ≤ d) (hd : d ≤ Gen.skipMaxDepth) (hlim : (mdF == some d) = false) :
    (true && st.length == (machine .fast).maxDepth) = false := by
  have hne : Gen.skipMaxDepth ≠ d := by
    intro hh
    simp [mdF, hh] at hlim
  have : (machine .fast).maxDepth = Gen.skipMaxDepth := rfl
  rw [this]
  simp only [Bool.true_and, beq_eq_false_iff_ne, ne_eq]
  omega

theorem vf_step {τ} (data : Bytes) (h : Handler τ) (hsm : Small data) (sf : Nat)
    (hA : AW data h sf) (hO : OW data h sf) : VF data h (sf + 1) := by
  intro F hF d l r' hsv fuel p st r hat hp hf hst hd
  cases l with
  | nil => simp [scanValue] at hsv
  | cons b rest =>
    obtain ⟨hb, hlt, hat'⟩ := hat.cons_inv
    simp only [scanValue] at hsv
    by_cases h34 : (b == 34) = true
    · have : b = 34 := by simpa using h34
      subst this
      simp only [beq_self_eq_true, if_true] at hsv
      exact fast_str F hF data h hsm rest r' hsv fuel p st r hat hp hf
    have h34' : (b == 34) = false := by simpa using h34
    simp only [h34', Bool.false_eq_true, if_false] at hsv
    by_cases h116 : (b == 116) = true
    · have : b = 116 := by simpa using h116
      subst this
      simp only [beq_self_eq_true, if_true] at hsv
      exact pre_run F hF data h hsm _ r' (Pre.cons 116 (letters_inert F hF 116 (by decide))
        (lit_pre_inert F hF _ (by intro c hc; simp at hc; rcases hc with rfl | rfl | rfl | rfl <;> decide) rest r' hsv)) fuel p st r hat hp hf
    have h116' : (b == 116) = false := by simpa using h116
    simp only [h116', Bool.false_eq_true, if_false] at hsv
    by_cases h102 : (b == 102) = true
    · have : b = 102 := by simpa using h102
      subst this
      simp only [beq_self_eq_true, if_true] at hsv
      exact pre_run F hF data h hsm _ r' (Pre.cons 102 (letters_inert F hF 102 (by decide))
        (lit_pre_inert F hF _ (by intro c hc; simp at hc; rcases hc with rfl | rfl | rfl | rfl <;> decide) rest r' hsv)) fuel p st r hat hp hf
    have h102' : (b == 102) = false := by simpa using h102
    simp only [h102', Bool.false_eq_true, if_false] at hsv
    by_cases h110 : (b == 110) = true
    · have : b = 110 := by simpa using h110
      subst this
      simp only [beq_self_eq_true, if_true] at hsv
      exact pre_run F hF data h hsm _ r' (Pre.cons 110 (letters_inert F hF 110 (by decide))
        (lit_pre_inert F hF _ (by intro c hc; simp at hc; rcases hc with rfl | rfl | rfl | rfl <;> decide) rest r' hsv)) fuel p st r hat hp hf
    have h110' : (b == 110) = false := by simpa using h110
    simp only [h110', Bool.false_eq_true, if_false] at hsv
    obtain ⟨fuel, rfl⟩ : ∃ f, fuel = f + 1 := ⟨fuel - 1, by omega⟩
    have hf' : rest.length + 1 ≤ fuel := by simp only [List.length_cons] at hf; omega
    by_cases h91 : (b == 91) = true
    · have : b = 91 := by simpa using h91
      subst this
      simp only [beq_self_eq_true, if_true] at hsv
      by_cases hlim : (mdF == some d) = true
      · simp [hlim] at hsv
      have hlim' : (mdF == some d) = false := by simpa using hlim
      simp only [hlim', Bool.false_eq_true, if_false] at hsv
      rcases hF with rfl | rfl
      · -- a nested array inside a fast array: tracked
        have hstep : (machine .fast).step ⟨.farr, .body⟩ 91 =
            ([.call true ⟨.farr, .body⟩ ⟨.farr, .body⟩], some ⟨.farr, .body⟩) := rfl
        have hcall := loopL_call_ok (machine .fast) data h fuel _ _ _ _ _ st r p 91 rest hsm hp hat hstep
          (limit_ok st d hst hd hlim')
        have key := hA .farr (.inl rfl) (⟨.farr, .body⟩ :: st) ⟨.farr, .body⟩ st (closes_arr_tracked data h hsm _ st)
          true (d + 1) rest r' hsv fuel (p + 1) { r with p := ((p + 1 : Nat) : Int) } hat' rfl hf'
          (by simp only [List.length_cons]; omega) (by
            have hne : Gen.skipMaxDepth ≠ d := by intro hh; simp [mdF, hh] at hlim'
            omega)
        unfold Reach at key ⊢
        rw [contL_cons (machine .fast) data h _ _ _ r p 91 rest hp hat, hcall]
        exact key
      · -- an array inside a fast object: its brackets are stepped over
        have hgo := loopL_goto (machine .fast) data h fuel _ _ st r p 91 rest hsm hp hat
          (body_inert .fobj (.inr rfl) 91 (by decide))
        have key := hA .fobj (.inr rfl) st ⟨.fobj, .body⟩ st (closes_untracked data h hsm .fobj (.inr rfl) 93 (by decide) st)
          true (d + 1) rest r' hsv fuel (p + 1) { r with p := ((p + 1 : Nat) : Int) } hat' rfl hf'
          (by omega) (by
            have hne : Gen.skipMaxDepth ≠ d := by intro hh; simp [mdF, hh] at hlim'
            omega)
        unfold Reach at key ⊢
        rw [contL_cons (machine .fast) data h _ _ _ r p 91 rest hp hat, hgo]
        exact key
    have h91' : (b == 91) = false := by simpa using h91
    simp only [h91', Bool.false_eq_true, if_false] at hsv
    by_cases h123 : (b == 123) = true
    · have : b = 123 := by simpa using h123
      subst this
      simp only [beq_self_eq_true, if_true] at hsv
      by_cases hlim : (mdF == some d) = true
      · simp [hlim] at hsv
      have hlim' : (mdF == some d) = false := by simpa using hlim
      simp only [hlim', Bool.false_eq_true, if_false] at hsv
      rcases hF with rfl | rfl
      · have hgo := loopL_goto (machine .fast) data h fuel _ _ st r p 123 rest hsm hp hat
          (body_inert .farr (.inl rfl) 123 (by decide))
        have key := hO .farr (.inl rfl) st ⟨.farr, .body⟩ st (closes_untracked data h hsm .farr (.inl rfl) 125 (by decide) st)
          true (d + 1) rest r' hsv fuel (p + 1) { r with p := ((p + 1 : Nat) : Int) } hat' rfl hf'
          (by omega) (by
            have hne : Gen.skipMaxDepth ≠ d := by intro hh; simp [mdF, hh] at hlim'
            omega)
        unfold Reach at key ⊢
        rw [contL_cons (machine .fast) data h _ _ _ r p 123 rest hp hat, hgo]
        exact key
      · have hstep : (machine .fast).step ⟨.fobj, .body⟩ 123 =
            ([.call true ⟨.fobj, .body⟩ ⟨.fobj, .body⟩], some ⟨.fobj, .body⟩) := rfl
        have hcall := loopL_call_ok (machine .fast) data h fuel _ _ _ _ _ st r p 123 rest hsm hp hat hstep
          (limit_ok st d hst hd hlim')
        have key := hO .fobj (.inr rfl) (⟨.fobj, .body⟩ :: st) ⟨.fobj, .body⟩ st (closes_obj_tracked data h hsm _ st)
          true (d + 1) rest r' hsv fuel (p + 1) { r with p := ((p + 1 : Nat) : Int) } hat' rfl hf'
          (by simp only [List.length_cons]; omega) (by
            have hne : Gen.skipMaxDepth ≠ d := by intro hh; simp [mdF, hh] at hlim'
            omega)
        unfold Reach at key ⊢
        rw [contL_cons (machine .fast) data h _ _ _ r p 123 rest hp hat, hcall]
        exact key
    have h123' : (b == 123) = false := by simpa using h123
    simp only [h123', Bool.false_eq_true, if_false] at hsv
    exact pre_run F hF data h hsm _ r' (Pre.mono (numChar_inert F hF) (scanNumber_pre _ r' hsv)) (fuel + 1) p st r hat hp hf

/-- one inert byte -/
theorem inert_byte {τ} (F : Ctx) (hF : F = .farr ∨ F = .fobj) (data : Bytes) (h : Handler τ) (hsm : Small data)
    (b : UInt8) (rest : List UInt8) (hb : inert F b = true) (fuel p : Nat) (st : List AS) (r : Regs τ)
    (hat : At data p (b :: rest)) (hp : r.p = p) (hf : (b :: rest).length + 1 ≤ fuel) :
    Reach (machine .fast) data h fuel ⟨F, .body⟩ st r rest ⟨F, .body⟩ st :=
  pre_run F hF data h hsm (b :: rest) rest (Pre.cons b hb (Pre.refl _ _)) fuel p st r hat hp hf

theorem ws_run_fast {τ} (F : Ctx) (hF : F = .farr ∨ F = .fobj) (data : Bytes) (h : Handler τ) (hsm : Small data)
    (l : List UInt8) (fuel p : Nat) (st : List AS) (r : Regs τ) (hat : At data p l) (hp : r.p = p) (hf : l.length + 1 ≤ fuel) :
    Reach (machine .fast) data h fuel ⟨F, .body⟩ st r (skipWs l) ⟨F, .body⟩ st :=
  pre_run F hF data h hsm l _ (Pre.mono (ws_inert F hF) (skipWs_pre l)) fuel p st r hat hp hf

/-- a value, then the rest of the array -/
theorem aw_value_then {τ} (data : Bytes) (h : Handler τ) (sf : Nat) (hV : VF data h sf) (hA : AW data h sf)
    (F : Ctx) (hF : F = .farr ∨ F = .fobj) (S : List AS) (E : AS) (S' : List AS) (hcl : Closes data h F 93 S E S')
    (d : Nat) (l r' : List UInt8)
    (hsv : (match scanValue mdF sf d l with | none => none | some r1 => scanArr mdF sf d false r1) = some r')
    (fuel p : Nat) (r : Regs τ) (hat : At data p l) (hp : r.p = p) (hf : l.length + 1 ≤ fuel)
    (hS : S.length ≤ d) (hd : d ≤ Gen.skipMaxDepth) :
    Reach (machine .fast) data h fuel ⟨F, .body⟩ S r r' E S' := by
  cases hv : scanValue mdF sf d l with
  | none => rw [hv] at hsv; cases hsv
  | some r1 =>
    rw [hv] at hsv
    simp only [] at hsv
    have h1 := hV F hF d l r1 hv fuel p S r hat hp hf hS hd
    apply Reach.trans h1
    intro f2 p2 hat2 hf2
    exact hA F hF S E S' hcl false d r1 r' hsv f2 p2 _ hat2 rfl hf2 hS hd

theorem aw_step {τ} (data : Bytes) (h : Handler τ) (hsm : Small data) (sf : Nat)
    (hV : VF data h sf) (hA : AW data h sf) : AW data h (sf + 1) := by
  intro F hF S E S' hcl first d l r' hsv fuel p r hat hp hf hS hd
  simp only [scanArr] at hsv
  apply Reach.trans (ws_run_fast F hF data h hsm l fuel p S r hat hp hf)
  intro f1 p1 hat1 hf1
  cases hsk : skipWs l with
  | nil => rw [hsk] at hsv; simp at hsv
  | cons b rest =>
    rw [hsk] at hsv hat1 hf1
    simp only [] at hsv
    obtain ⟨hb, hlt, hat'⟩ := hat1.cons_inv
    obtain ⟨f1, rfl⟩ : ∃ f, f1 = f + 1 := ⟨f1 - 1, by omega⟩
    have hf' : rest.length + 1 ≤ f1 := by simp only [List.length_cons] at hf1; omega
    by_cases h93 : (b == 93) = true
    · have : b = 93 := by simpa using h93
      subst this
      simp only [beq_self_eq_true, if_true] at hsv
      injection hsv with hsv
      subst hsv
      unfold Reach
      rw [contL_cons (machine .fast) data h _ _ _ _ p1 93 rest rfl hat1, hcl f1 p1 _ rest hat1 rfl]
      exact ⟨f1, p1 + 1, hat', hf', rfl⟩
    · have h93' : (b == 93) = false := by simpa using h93
      simp only [h93', Bool.false_eq_true, if_false] at hsv
      cases first with
      | true =>
        simp only [if_true] at hsv
        exact aw_value_then data h sf hV hA F hF S E S' hcl d _ r' hsv (f1 + 1) p1 _ hat1 rfl hf1 hS hd
      | false =>
        simp only [Bool.false_eq_true, if_false] at hsv
        by_cases h44 : (b == 44) = true
        · have : b = 44 := by simpa using h44
          subst this
          simp only [beq_self_eq_true, if_true] at hsv
          apply Reach.trans (inert_byte F hF data h hsm 44 rest (sep_inert F hF 44 (by decide)) (f1 + 1) p1 S _ hat1 rfl hf1)
          intro f2 p2 hat2 hf2
          apply Reach.trans (ws_run_fast F hF data h hsm rest f2 p2 S _ hat2 rfl hf2)
          intro f3 p3 hat3 hf3
          exact aw_value_then data h sf hV hA F hF S E S' hcl d _ r' hsv f3 p3 _ hat3 rfl hf3 hS hd
        · have h44' : (b == 44) = false := by simpa using h44
          simp [h44'] at hsv

/-- key, colon, value, rest of the object -/
theorem ow_member_then {τ} (data : Bytes) (h : Handler τ) (hsm : Small data) (sf : Nat) (hV : VF data h sf) (hO : OW data h sf)
    (F : Ctx) (hF : F = .farr ∨ F = .fobj) (S : List AS) (E : AS) (S' : List AS) (hcl : Closes data h F 125 S E S')
    (d : Nat) (l r' : List UInt8) (hsv : objKey mdF sf d l = some r')
    (fuel p : Nat) (r : Regs τ) (hat : At data p l) (hp : r.p = p) (hf : l.length + 1 ≤ fuel)
    (hS : S.length ≤ d) (hd : d ≤ Gen.skipMaxDepth) :
    Reach (machine .fast) data h fuel ⟨F, .body⟩ S r r' E S' := by
  cases l with
  | nil => rw [objKey_nil] at hsv; cases hsv
  | cons b krest =>
    by_cases hb : b = 34
    · subst hb
      rw [objKey_34] at hsv
      simp only [memberThen] at hsv
      cases hs : scanStringBody krest with
      | none => rw [hs] at hsv; cases hsv
      | some r1 =>
        rw [hs] at hsv
        simp only [] at hsv
        apply Reach.trans (fast_str F hF data h hsm krest r1 hs fuel p S r hat hp hf)
        intro f1 p1 hat1 hf1
        apply Reach.trans (ws_run_fast F hF data h hsm r1 f1 p1 S _ hat1 rfl hf1)
        intro f2 p2 hat2 hf2
        cases hsk : skipWs r1 with
        | nil => rw [hsk, colonThen_nil] at hsv; cases hsv
        | cons b2 r2 =>
          rw [hsk] at hsv hat2 hf2
          by_cases h58 : b2 = 58
          · subst h58
            rw [colonThen_58] at hsv
            apply Reach.trans (inert_byte F hF data h hsm 58 r2 (sep_inert F hF 58 (by decide)) f2 p2 S _ hat2 rfl hf2)
            intro f3 p3 hat3 hf3
            apply Reach.trans (ws_run_fast F hF data h hsm r2 f3 p3 S _ hat3 rfl hf3)
            intro f4 p4 hat4 hf4
            cases hv : scanValue mdF sf d (skipWs r2) with
            | none => rw [hv] at hsv; cases hsv
            | some r3 =>
              rw [hv] at hsv
              simp only [] at hsv
              apply Reach.trans (hV F hF d _ r3 hv f4 p4 S _ hat4 rfl hf4 hS hd)
              intro f5 p5 hat5 hf5
              exact hO F hF S E S' hcl false d r3 r' hsv f5 p5 _ hat5 rfl hf5 hS hd
          · rw [colonThen_other _ _ _ b2 r2 h58] at hsv; cases hsv
    · rw [objKey_other _ _ _ b krest hb] at hsv; cases hsv

theorem ow_step {τ} (data : Bytes) (h : Handler τ) (hsm : Small data) (sf : Nat)
    (hV : VF data h sf) (hO : OW data h sf) : OW data h (sf + 1) := by
  intro F hF S E S' hcl first d l r' hsv fuel p r hat hp hf hS hd
  rw [scanObj_succ] at hsv
  apply Reach.trans (ws_run_fast F hF data h hsm l fuel p S r hat hp hf)
  intro f1 p1 hat1 hf1
  cases hsk : skipWs l with
  | nil => rw [hsk] at hsv; simp at hsv
  | cons b rest =>
    rw [hsk] at hsv hat1 hf1
    simp only [] at hsv
    obtain ⟨hb, hlt, hat'⟩ := hat1.cons_inv
    by_cases h125 : (b == 125) = true
    · have : b = 125 := by simpa using h125
      subst this
      obtain ⟨f1, rfl⟩ : ∃ f, f1 = f + 1 := ⟨f1 - 1, by omega⟩
      have hf' : rest.length + 1 ≤ f1 := by simp only [List.length_cons] at hf1; omega
      simp only [beq_self_eq_true, if_true] at hsv
      injection hsv with hsv
      subst hsv
      unfold Reach
      rw [contL_cons (machine .fast) data h _ _ _ _ p1 125 rest rfl hat1, hcl f1 p1 _ rest hat1 rfl]
      exact ⟨f1, p1 + 1, hat', hf', rfl⟩
    · have h125' : (b == 125) = false := by simpa using h125
      simp only [h125', Bool.false_eq_true, if_false] at hsv
      cases first with
      | true =>
        simp only [if_true] at hsv
        exact ow_member_then data h hsm sf hV hO F hF S E S' hcl d _ r' hsv f1 p1 _ hat1 rfl hf1 hS hd
      | false =>
        simp only [Bool.false_eq_true, if_false] at hsv
        by_cases h44 : (b == 44) = true
        · have : b = 44 := by simpa using h44
          subst this
          simp only [beq_self_eq_true, if_true] at hsv
          apply Reach.trans (inert_byte F hF data h hsm 44 rest (sep_inert F hF 44 (by decide)) f1 p1 S _ hat1 rfl hf1)
          intro f2 p2 hat2 hf2
          apply Reach.trans (ws_run_fast F hF data h hsm rest f2 p2 S _ hat2 rfl hf2)
          intro f3 p3 hat3 hf3
          exact ow_member_then data h hsm sf hV hO F hF S E S' hcl d _ r' hsv f3 p3 _ hat3 rfl hf3 hS hd
        · have h44' : (b == 44) = false := by simpa using h44
          simp [h44'] at hsv

theorem fast_goals {τ} (data : Bytes) (h : Handler τ) (hsm : Small data) :
    ∀ sf, VF data h sf ∧ AW data h sf ∧ OW data h sf := by
  intro sf
  induction sf with
  | zero =>
    refine ⟨?_, ?_, ?_⟩
    · intro F _ d l r' hsv; simp [scanValue] at hsv
    · intro F _ S E S' _ first d l r' hsv; simp [scanArr] at hsv
    · intro F _ S E S' _ first d l r' hsv; simp [scanObj] at hsv
  | succ sf ih =>
    obtain ⟨hV, hA, hO⟩ := ih
    exact ⟨vf_step data h hsm sf hA hO, aw_step data h hsm sf hV hA, ow_step data h hsm sf hV hO⟩

/-- after the value, at top level, every machine ends at once -/
theorem top_after_finish_any {τ} (k : Kind) (data : Bytes) (h : Handler τ) (fuel p : Nat) (r : Regs τ) (rest : List UInt8)
    (hat : At data p rest) (hp : r.p = p) (hf : rest.length + 1 ≤ fuel) :
    contL (machine k) data h fuel ⟨.top, .after⟩ [] r = r.finish := by
  cases rest with
  | nil =>
    rw [contL_nil (machine k) data h _ _ _ r p hp hat]
    rfl
  | cons b t =>
    rw [contL_cons (machine k) data h _ _ _ r p b t hp hat]
    obtain ⟨hb, _, _⟩ := hat.cons_inv
    obtain ⟨fuel, rfl⟩ : ∃ f, fuel = f + 1 := ⟨fuel - 1, by omega⟩
    exact loopL_exit (machine k) data h fuel _ [] r b (by rw [hp]; exact hb) rfl

/-- **the fast machine steps over every value the reference scanner recognises** -/
theorem abs_fast_scan {τ} (data : Bytes) (hsm : Small data) (h : Handler τ) (dst : Bytes) (hs : τ) (rest : List UInt8)
    (hsv : scanValue (some Gen.skipMaxDepth) (2 * data.toList.length + 2) 0 (skipWs data.toList) = some rest) :
    (runL (machine .fast) data h dst hs).kind = .ok ∧
      ∃ p : Nat, At data p rest ∧ (runL (machine .fast) data h dst hs).p = (p : Int) := by
  rw [runL_eq_contL]
  have hstart : (machine .fast).start = ⟨.top, .want true⟩ := rfl
  rw [hstart]
  have hws : ∀ b, isWs b = true → (machine .fast).step ⟨.top, .want true⟩ b = ([], some ⟨.top, .want true⟩) := by
    intro b hw; simp [machine, step, hw]
  obtain ⟨f1, p1, hat1, hf1, e1⟩ := ws_loop (machine .fast) _ hws data h hsm data.toList (fuelFor data) 0 []
    (initRegs dst hs) (At.start data) rfl (by simp [fuelFor]; omega)
  rw [e1]
  obtain ⟨sf, hsf⟩ : ∃ sf, 2 * data.toList.length + 2 = sf + 1 := ⟨2 * data.toList.length + 1, rfl⟩
  rw [hsf] at hsv
  -- whatever the value, the run gets to `⟨top, after⟩` in front of `rest`
  have hreach : Reach (machine .fast) data h f1 ⟨.top, .want true⟩ [] ({ initRegs dst hs with p := (p1 : Int) } : Regs τ)
      rest ⟨.top, .after⟩ [] := by
    cases hsk : skipWs data.toList with
    | nil => rw [hsk, scanValue_nil] at hsv; cases hsv
    | cons b rest0 =>
      rw [hsk] at hat1 hf1 hsv
      have hnws := skipWs_cons_of _ b rest0 hsk
      have hstep : (machine .fast).step ⟨.top, .want true⟩ b = startValue .fast .top b := by
        simp [machine, step, hnws]
      obtain ⟨hb, hlt, hat'⟩ := hat1.cons_inv
      by_cases h91 : (b == 91) = true
      · have : b = 91 := by simpa using h91
        subst this
        obtain ⟨f1, rfl⟩ : ∃ f, f1 = f + 1 := ⟨f1 - 1, by omega⟩
        simp only [scanValue] at hsv
        have hsv' : scanArr mdF sf 1 true rest0 = some rest := by
          have hl : ((some Gen.skipMaxDepth : Option Nat) == some 0) = false := by decide
          simpa [hl, mdF] using hsv
        have hstep' : (machine .fast).step ⟨.top, .want true⟩ 91 =
            ([.call true ⟨.top, .after⟩ ⟨.farr, .body⟩], some ⟨.top, .after⟩) := by rw [hstep]; rfl
        have hcall := loopL_call_ok (machine .fast) data h f1 _ _ _ _ _ [] ({ initRegs dst hs with p := (p1 : Int) } : Regs τ) p1 91 rest0 hsm rfl hat1 hstep' (by decide)
        have key := (fast_goals data h hsm sf).2.1 .farr (.inl rfl) [⟨.top, .after⟩] ⟨.top, .after⟩ []
          (closes_arr_tracked data h hsm _ []) true 1 rest0 rest hsv' f1 (p1 + 1)
          ({ initRegs dst hs with p := ((p1 + 1 : Nat) : Int) } : Regs τ) hat' rfl
          (by simp only [List.length_cons] at hf1; omega) (by simp) (by decide)
        unfold Reach at key ⊢
        rw [contL_cons (machine .fast) data h _ _ _ _ p1 91 rest0 rfl hat1, hcall]
        exact key
      · have h91' : (b == 91) = false := by simpa using h91
        by_cases h123 : (b == 123) = true
        · have : b = 123 := by simpa using h123
          subst this
          obtain ⟨f1, rfl⟩ : ∃ f, f1 = f + 1 := ⟨f1 - 1, by omega⟩
          simp only [scanValue] at hsv
          have hsv' : scanObj mdF sf 1 true rest0 = some rest := by
            have hl : ((some Gen.skipMaxDepth : Option Nat) == some 0) = false := by decide
            simpa [hl, mdF] using hsv
          have hstep' : (machine .fast).step ⟨.top, .want true⟩ 123 =
              ([.call true ⟨.top, .after⟩ ⟨.fobj, .body⟩], some ⟨.top, .after⟩) := by rw [hstep]; rfl
          have hcall := loopL_call_ok (machine .fast) data h f1 _ _ _ _ _ [] ({ initRegs dst hs with p := (p1 : Int) } : Regs τ) p1 123 rest0 hsm rfl hat1 hstep' (by decide)
          have key := (fast_goals data h hsm sf).2.2 .fobj (.inr rfl) [⟨.top, .after⟩] ⟨.top, .after⟩ []
            (closes_obj_tracked data h hsm _ []) true 1 rest0 rest hsv' f1 (p1 + 1)
            ({ initRegs dst hs with p := ((p1 + 1 : Nat) : Int) } : Regs τ) hat' rfl
            (by simp only [List.length_cons] at hf1; omega) (by simp) (by decide)
          unfold Reach at key ⊢
          rw [contL_cons (machine .fast) data h _ _ _ _ p1 123 rest0 rfl hat1, hcall]
          exact key
        · have h123' : (b == 123) = false := by simpa using h123
          rw [scanValue_scalar _ sf 0 b rest0 h91' h123'] at hsv
          have key := scalar_run .fast .top (vctx_top .fast) data h hsm _ b rest0 hstep h91' h123' f1 p1 []
            ({ initRegs dst hs with p := (p1 : Int) } : Regs τ) hat1 rfl rfl hf1
          rw [hsv] at key
          exact key
  obtain ⟨f2, p2, hat2, hf2, e2⟩ := hreach
  rw [e2, top_after_finish_any .fast data h f2 p2 _ rest hat2 rfl hf2]
  exact ⟨rfl, p2, hat2, rfl⟩

end RJson.Abs
