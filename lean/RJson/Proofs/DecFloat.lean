import RJson.Proofs.DecScale
/-!
# `floatBits`: the multiprecision conversion returns `Spec.roundRat` of the decimal's value

…whenever the run was exact (`Decimal.exactRun`: no non-zero digit was ever dropped — the `trunc` flag of the decimal
that reaches the rounding step is off).
-/
namespace RJson.Dec
open RJson.FP RJson.Spec RJson.RoundRat

set_option exponentiation.threshold 2000 in
theorem big_pow : (2 : ℚ) ^ (1024 : ℤ) ≤ 10 ^ (310 : ℤ) := by norm_num

set_option exponentiation.threshold 2000 in
theorem tiny_pow : (10 : ℚ) ^ (-331 : ℤ) < 2 ^ (-1075 : ℤ) := by
  rw [zpow_neg, zpow_neg]
  apply inv_strictAnti₀ (by positivity)
  norm_num

set_option maxRecDepth 10000 in
/-- **`floatBits`** on a well-formed decimal in normal form whose run was exact: the result is the correctly rounded
    value of the decimal, with the overflow flag -/
theorem floatBits_spec (a : Decimal) (hg : Good0 a) (n d : ℕ) (hd : d ≠ 0) (hx : (n : ℚ) / d = aval a)
    (hex : a.exactRun = true) : a.floatBits = some (roundRat a.neg n d) := by
  have hdQ : (0 : ℚ) < d := by exact_mod_cast Nat.pos_of_ne_zero hd
  have hm : Gen.fpMantBits = 52 := rfl
  have he : Gen.fpExpBits = 11 := rfl
  have hbi : Gen.fpBias = -1023 := rfl
  have hzero := assemble_eq 0 0 a.neg (by norm_num)
  simp only [Nat.cast_zero, Int.zero_sub, Nat.zero_mul, Nat.add_zero, Nat.zero_mod] at hzero
  have hinf := assemble_eq 0 2047 a.neg (by norm_num)
  have hinfe : ((2047 : ℕ) : ℤ) - 1023 = ((2 ^ 11 : ℕ) : ℤ) - 1 + -1023 := by norm_num
  rw [hinfe] at hinf
  simp only [Nat.zero_mod, Nat.add_zero] at hinf
  by_cases hnd0 : a.nd = 0
  · -- zero
    have hb : (a.nd == 0) = true := by simpa using hnd0
    have hp : a.prepare = some (.early (assemble 0 (-1023) a.neg, false)) := by
      simp only [Decimal.prepare, hm, he, hbi]
      rw [if_pos hb]
    have hn0 : n = 0 := by
      have : aval a = 0 := by simp [aval, hnd0, val]
      rw [this] at hx
      have : (n : ℚ) = 0 := by
        rcases div_eq_zero_iff.mp hx with h | h
        · exact h
        · exact absurd h hdQ.ne'
      exact_mod_cast this
    simp only [Decimal.floatBits, hp, hzero]
    rw [hn0]
    simp [roundRat]
  · have hnd : 1 ≤ a.nd := by omega
    have hb : ¬ ((a.nd == 0) = true) := by simpa using hnd0
    have hxpos : (0 : ℚ) < (n : ℚ) / d := by
      rw [hx]
      have := aval_ge_of_nz a hg.nz hnd
      have : (0 : ℚ) < 10 ^ (a.dp - 1) := by positivity
      linarith
    have hn : n ≠ 0 := by
      intro h0; rw [h0] at hxpos; simp at hxpos
    by_cases hhi : a.dp > 310
    · -- obvious overflow
      have hp : a.prepare = some (.early (assemble 0 (((2 ^ 11 : ℕ) : ℤ) - 1 + -1023) a.neg, true)) := by
        simp only [Decimal.prepare, hm, he, hbi]
        rw [if_neg hb, if_pos hhi]
      simp only [Decimal.floatBits, hp, hinf]
      have hge := aval_ge_of_nz a hg.nz hnd
      have hle : (10 : ℚ) ^ (310 : ℤ) ≤ 10 ^ (a.dp - 1) := zpow_le_zpow_right₀ (by norm_num) (by omega)
      rw [roundRat_overflow a.neg n d hn hd (by rw [hx]; exact le_trans big_pow (le_trans hle hge))]
    · by_cases hlo : a.dp < -330
      · -- obvious underflow
        have hp : a.prepare = some (.early (assemble 0 (-1023) a.neg, false)) := by
          simp only [Decimal.prepare, hm, he, hbi]
          rw [if_neg hb, if_neg hhi, if_pos hlo]
        simp only [Decimal.floatBits, hp, hzero]
        have hlt := aval_lt_pow a hg.wf
        have hle : (10 : ℚ) ^ a.dp ≤ 10 ^ (-331 : ℤ) := zpow_le_zpow_right₀ (by norm_num) (by omega)
        rw [roundRat_zero a.neg n d hn hd (by rw [hx]; exact lt_trans (lt_of_lt_of_le hlt hle) tiny_pow)]
      · -- the scaling ran
        cases hpr : a.prepare with
        | none => simp [Decimal.exactRun, hpr] at hex
        | some res =>
          obtain ⟨a1, e1, a2, e2, a3, exp3, h1, h2, h3, hcases⟩ := prepare_cases a hb hhi hlo res hpr
          have hsc := scaled_spec a hg hnd (by omega) a1 e1 h1 a2 e2 h2 a3 exp3 h3
          rcases hcases with ⟨hov, hres⟩ | ⟨hnov, a4, h4, hres⟩
          · -- the exponent is too large
            subst hres
            have htr3 : a3.trunc = false := by simpa [Decimal.exactRun, hpr] using hex
            obtain ⟨_, v, _, ge⟩ := hsc.exact htr3
            have hexp : (1024 : ℤ) ≤ exp3 := by
              have : ((2 ^ 11 : ℕ) : ℤ) = 2048 := by norm_num
              omega
            have hhalf := ge (by omega)
            simp only [Decimal.floatBits, hpr, he, hbi]
            rw [hsc.neg, hinf]
            have hpow : (2 : ℚ) ^ (1024 : ℤ) ≤ 2 ^ exp3 := zpow_le_zpow_right₀ (by norm_num) hexp
            have hp1 := two_zpow_pos' exp3
            rw [roundRat_overflow a.neg n d hn hd (by
              rw [hx, v, two_zpow_succ]
              calc (2 : ℚ) ^ (1024 : ℤ) ≤ 2 ^ exp3 := hpow
                _ = 1 / 2 * (2 * 2 ^ exp3) := by ring
                _ ≤ aval a3 * (2 * 2 ^ exp3) := mul_le_mul_of_nonneg_right hhalf (by positivity))]
          · -- the rounding step
            subst hres
            have htr4 : a4.trunc = false := by simpa [Decimal.exactRun, hpr] using hex
            obtain ⟨b, hb4, hgb, htm, hbnd, _, hbneg, hbval⟩ := shift_spec a3 hsc.good ((1 + 52 : ℕ) : ℤ) (by norm_num) (by norm_num)
            rw [h4] at hb4
            injection hb4 with hb4
            subst hb4
            obtain ⟨htr3, v4⟩ := hbval htr4
            obtain ⟨_, v, lt3, ge3⟩ := hsc.exact htr3
            have hgood4 : Good a4 := ⟨hgb.wf, hgb.nz, htm (by norm_num) hsc.nd⟩
            have hexp2 : exp3 ≤ 1023 := by
              have : ((2 ^ 11 : ℕ) : ℤ) = 2048 := by norm_num
              omega
            have h53 : ((1 + 52 : ℕ) : ℤ) = 53 := by norm_num
            rw [h53] at v4
            have hval4 : (n : ℚ) / d = aval a4 * 2 ^ (exp3 - 52) := by
              rw [hx, v, v4, mul_assoc, ← zpow_add₀ (by norm_num)]
              have : aval a3 * 2 ^ (exp3 + 1) = aval a3 * 2 ^ ((53 : ℤ) + (exp3 - 52)) := by congr 2; ring
              rw [this]
            have hlt4 : aval a4 < 2 ^ 53 := by
              rw [v4]
              have : (2 : ℚ) ^ (53 : ℤ) = 2 ^ 53 := by norm_num
              rw [this]
              have hp : (0 : ℚ) < 2 ^ 53 := by positivity
              calc aval a3 * 2 ^ 53 < 1 * 2 ^ 53 := mul_lt_mul_of_pos_right lt3 hp
                _ = 2 ^ 53 := one_mul _
            have hge4 : -1022 < exp3 → (2 : ℚ) ^ 52 ≤ aval a4 := by
              intro hh
              rw [v4]
              have : (2 : ℚ) ^ (53 : ℤ) = 2 ^ 53 := by norm_num
              rw [this]
              have := ge3 hh
              calc (2 : ℚ) ^ 52 = 1 / 2 * 2 ^ 53 := by norm_num
                _ ≤ aval a3 * 2 ^ 53 := mul_le_mul_of_nonneg_right this (by positivity)
            have hfin := finish_spec a4 exp3 hgood4 (hbnd hsc.nd) htr4 n d hn hd hval4 hsc.lo hexp2 hlt4 hge4
            simp only [Decimal.floatBits, hpr]
            rw [← hfin, hbneg, hsc.neg]

end RJson.Dec
