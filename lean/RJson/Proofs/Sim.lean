import RJson.Model.Ragel
import RJson.Proofs.AllBelow
/-!
# Simulation certificates between a generated machine and an abstract machine

`checkSim n M A L` is a Boolean closure check over the regenerated tables: `L s` lists the abstract states
that generated state `s` may stand for (a forward-simulation relation; a list, because Ragel minimises and may
merge states the abstract machine keeps apart). `sim_sound` shows that a passing check makes the two machines
indistinguishable for the interpreter: same result (kind, offset, registers, handler state) on every input,
for every handler. The check itself is discharged by `decide +kernel` in `Props/*`, on every run, against
the tables translated from the current `/repo`.
-/
namespace RJson.Ragel

variable {α : Type} [DecidableEq α]

def actMatches (L : Nat → List α) : Act Nat → Act α → Bool
  | .s a, .s a' => a == a'
  | .call l r e, .call l' r' e' => l == l' && (L r).contains r' && (L e).contains e'
  | .ret, .ret => true
  | _, _ => false

def actsMatch (L : Nat → List α) : List (Act Nat) → List (Act α) → Bool
  | [], [] => true
  | a :: as, b :: bs => actMatches L a b && actsMatch L as bs
  | _, _ => false

def tgtMatches (L : Nat → List α) : Option Nat → Option α → Bool
  | none, none => true
  | some t, some t' => (L t).contains t'
  | _, _ => false

def transMatches (L : Nat → List α) (m : List (Act Nat) × Option Nat) (a : List (Act α) × Option α) : Bool :=
  actsMatch L m.1 a.1 && tgtMatches L m.2 a.2

def checkState (M : PDM Nat) (A : PDM α) (L : Nat → List α) (s : Nat) : Bool :=
  (L s).all (fun a => (M.eof s == A.eof a) &&
    allBelow (fun b => transMatches L (M.step s (UInt8.ofNat b)) (A.step a (UInt8.ofNat b))) 256)

def checkSim (n : Nat) (M : PDM Nat) (A : PDM α) (L : Nat → List α) : Bool :=
  (L M.start).contains A.start && (M.maxDepth == A.maxDepth) && (M.hasField == A.hasField) &&
  allBelow (checkState M A L) n

/-- `f` holds on `[lo, lo+len)` — the certificates are checked in chunks (separate modules, built in parallel) -/
def checkRange (f : Nat → Bool) (lo : Nat) : Nat → Bool
  | 0 => true
  | len+1 => f (lo + len) && checkRange f lo len

omit [DecidableEq α] in
theorem checkRange_spec {f : Nat → Bool} {lo : Nat} : ∀ {len}, checkRange f lo len = true → ∀ s, lo ≤ s → s < lo + len → f s = true
  | 0, _, s, h1, h2 => by omega
  | len+1, h, s, h1, h2 => by
    simp only [checkRange, Bool.and_eq_true] at h
    by_cases hs : s = lo + len
    · subst hs; exact h.1
    · exact checkRange_spec h.2 s h1 (by omega)

omit [DecidableEq α] in
theorem allBelow_of_forall {f : Nat → Bool} : ∀ {n}, (∀ s, s < n → f s = true) → allBelow f n = true
  | 0, _ => rfl
  | n+1, h => by
    simp only [allBelow, Bool.and_eq_true]
    exact ⟨h n (by omega), allBelow_of_forall (fun s hs => h s (by omega))⟩

/-- assemble `checkSim` from the start condition and per-state checks -/
theorem checkSim_of_parts {n : Nat} {M : PDM Nat} {A : PDM α} {L : Nat → List α}
    (h0 : ((L M.start).contains A.start && (M.maxDepth == A.maxDepth) && (M.hasField == A.hasField)) = true)
    (hs : ∀ s, s < n → checkState M A L s = true) : checkSim n M A L = true := by
  simp only [checkSim, Bool.and_eq_true] at h0 ⊢
  exact ⟨h0, allBelow_of_forall hs⟩

/-- pointwise relation between the two live stacks -/
inductive StackRel (L : Nat → List α) : List Nat → List α → Prop
  | nil : StackRel L [] []
  | cons {g a gs as} : a ∈ L g → StackRel L gs as → StackRel L (g :: gs) (a :: as)

theorem StackRel.length_eq {L : Nat → List α} {gs : List Nat} {as : List α} (h : StackRel L gs as) : gs.length = as.length := by
  induction h with
  | nil => rfl
  | cons _ _ ih => simp [ih]

theorem StackRel.isEmpty_eq {L : Nat → List α} {gs : List Nat} {as : List α} (h : StackRel L gs as) : gs.isEmpty = as.isEmpty := by
  cases h <;> rfl

/-- results of running an action list on both sides are related -/
inductive ActsRel {τ : Type} (L : Nat → List α) : ActsR Nat τ → ActsR α τ → Prop
  | stop (res : Result τ) : ActsRel L (.stop res) (.stop res)
  | nextNone {gs as} (r : Regs τ) : StackRel L gs as → ActsRel L (.next none gs r) (.next none as r)
  | nextSome {g a gs as} (r : Regs τ) : a ∈ L g → StackRel L gs as → ActsRel L (.next (some g) gs r) (.next (some a) as r)

theorem tgt_rel {τ : Type} {L : Nat → List α} {mt : Option Nat} {at_ : Option α} (h : tgtMatches L mt at_ = true)
    {gs : List Nat} {as : List α} (hst : StackRel L gs as) (r : Regs τ) :
    ActsRel L (.next mt gs r) (.next at_ as r) := by
  cases mt <;> cases at_ <;> simp [tgtMatches] at h
  · exact .nextNone r hst
  · exact .nextSome r h hst

theorem execActs_rel {τ : Type} (M : PDM Nat) (A : PDM α) (L : Nat → List α) (data : Bytes) (h : Handler τ)
    (hd : M.maxDepth = A.maxDepth) (hf : M.hasField = A.hasField) :
    ∀ (ma : List (Act Nat)) (aa : List (Act α)), actsMatch L ma aa = true →
    ∀ (mt : Option Nat) (at_ : Option α) (gs : List Nat) (as : List α) (r : Regs τ),
      ActsRel L (.next mt gs r) (.next at_ as r) →
      ActsRel L (execActsL M data h ma mt gs r) (execActsL A data h aa at_ as r) := by
  intro ma
  induction ma with
  | nil =>
    intro aa hm mt at_ gs as r hrel
    cases aa with
    | nil => simpa [execActsL] using hrel
    | cons _ _ => simp [actsMatch] at hm
  | cons x xs ih =>
    intro aa hm mt at_ gs as r hrel
    cases aa with
    | nil => simp [actsMatch] at hm
    | cons y ys =>
      simp only [actsMatch, Bool.and_eq_true] at hm
      obtain ⟨hxy, hrest⟩ := hm
      have hst : StackRel L gs as := by cases hrel <;> assumption
      cases x with
      | s a =>
        cases y with
        | s a' =>
          simp only [actMatches, beq_iff_eq] at hxy
          subst hxy
          simp only [execActsL, hst.isEmpty_eq, hf]
          split
          · exact .stop _
          · split
            · exact .stop _
            · next r' _ =>
              apply ih ys hrest
              cases hrel with
              | nextNone _ h1 => exact .nextNone r' h1
              | nextSome _ h1 h2 => exact .nextSome r' h1 h2
        | call _ _ _ => simp [actMatches] at hxy
        | ret => simp [actMatches] at hxy
      | call lim rs en =>
        cases y with
        | call lim' rs' en' =>
          simp only [actMatches, Bool.and_eq_true, beq_iff_eq, List.contains_iff_mem] at hxy
          obtain ⟨⟨hl, hr⟩, he⟩ := hxy
          subst hl
          simp only [execActsL, hst.length_eq, hd]
          split
          · exact .stop _
          · exact ih ys hrest _ _ _ _ _ (.nextSome r he (.cons hr hst))
        | s _ => simp [actMatches] at hxy
        | ret => simp [actMatches] at hxy
      | ret =>
        cases y with
        | ret =>
          simp only [execActsL]
          cases hst with
          | nil => exact .stop _
          | cons h1 h2 => exact ih ys hrest _ _ _ _ _ (.nextSome r h1 h2)
        | s _ => simp [actMatches] at hxy
        | call _ _ _ => simp [actMatches] at hxy

theorem checkState_of_checkSim {n : Nat} {M : PDM Nat} {A : PDM α} {L : Nat → List α}
    (hL : ∀ s, n ≤ s → L s = []) (hall : allBelow (checkState M A L) n = true)
    {s : Nat} {a : α} (hsa : a ∈ L s) :
    M.eof s = A.eof a ∧ ∀ b : UInt8, transMatches L (M.step s b) (A.step a b) = true := by
  have hlt : s < n := by
    by_cases h : s < n
    · exact h
    · have := hL s (by omega); rw [this] at hsa; cases hsa
  have hs := allBelow_spec hall s hlt
  simp only [checkState, List.all_eq_true] at hs
  have := hs a hsa
  simp only [Bool.and_eq_true, beq_iff_eq] at this
  refine ⟨this.1, fun b => ?_⟩
  have hb := allBelow_spec this.2 b.toNat b.toNat_lt
  simpa using hb

theorem loop_sim {τ : Type} (n : Nat) (M : PDM Nat) (A : PDM α) (L : Nat → List α)
    (hL : ∀ s, n ≤ s → L s = []) (hd : M.maxDepth = A.maxDepth) (hf : M.hasField = A.hasField)
    (hall : allBelow (checkState M A L) n = true) (data : Bytes) (h : Handler τ) :
    ∀ (fuel : Nat) (s : Nat) (a : α) (gs : List Nat) (as : List α) (r : Regs τ),
      a ∈ L s → StackRel L gs as → loopL M data h fuel s gs r = loopL A data h fuel a as r := by
  intro fuel
  induction fuel with
  | zero => intros; rfl
  | succ fuel ih =>
    intro s a gs as r hsa hst
    obtain ⟨_, htr⟩ := checkState_of_checkSim hL hall hsa
    simp only [loopL]
    cases hgb : getByte data r.p with
    | none => rfl
    | some b =>
      simp only []
      have hb := htr b
      simp only [transMatches, Bool.and_eq_true] at hb
      have hrel := execActs_rel M A L data h hd hf (M.step s b).1 (A.step a b).1 hb.1 (M.step s b).2 (A.step a b).2 gs as r (tgt_rel hb.2 hst r)
      generalize execActsL M data h (M.step s b).1 (M.step s b).2 gs r = rm at hrel
      generalize execActsL A data h (A.step a b).1 (A.step a b).2 as r = ra at hrel
      cases hrel with
      | stop res => rfl
      | nextNone r' _ => rfl
      | nextSome r' h1 h2 =>
        simp only []
        have heof := (checkState_of_checkSim hL hall h1).1
        rw [hf, heof]
        split
        · rfl
        · exact ih _ _ _ _ _ h1 h2

/-- a passing certificate makes the generated machine and the abstract machine indistinguishable -/
theorem sim_sound {τ : Type} (n : Nat) (M : PDM Nat) (A : PDM α) (L : Nat → List α)
    (hL : ∀ s, n ≤ s → L s = []) (hc : checkSim n M A L = true)
    (data : Bytes) (h : Handler τ) (dst : Bytes) (hs : τ) :
    runL M data h dst hs = runL A data h dst hs := by
  simp only [checkSim, Bool.and_eq_true, beq_iff_eq, List.contains_iff_mem] at hc
  obtain ⟨⟨⟨hstart, hd⟩, hf⟩, hall⟩ := hc
  simp only [runL]
  split
  · rw [hf, (checkState_of_checkSim hL hall hstart).1]
  · exact loop_sim n M A L hL hd hf hall data h _ _ _ _ _ _ hstart .nil

end RJson.Ragel
