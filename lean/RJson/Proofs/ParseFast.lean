import RJson.Proofs.FloatValue
import RJson.Proofs.RoundMono
/-!
# `ParseJSONFloatPrefix` on its fast paths returns the correctly rounded value of the literal

For every input that starts with a JSON number: whenever the exact path or Eisel-Lemire (with or without the
truncated-mantissa double check) produces the answer, it is `Spec.roundDec` of the literal's exact value
`Spec.numberValue` — the float `Spec.readFloat` (the oracle of the correspondence run) specifies.
-/
namespace RJson.ParseFast
open RJson.Spec RJson.FP RJson.NumShape RJson.FloatValue RJson.Abs

theorem digit_le9 (b : UInt8) (h : isDigit b = true) : b.toNat - 48 ≤ 9 := by
  have hall : allBelow (fun n => !(isDigit (UInt8.ofNat n)) || decide ((UInt8.ofNat n).toNat - 48 ≤ 9)) 256 = true := by decide +kernel
  have := forall_byte (P := fun b => !(isDigit b) || decide (b.toNat - 48 ≤ 9)) hall b
  simpa [h] using this

theorem digitsVal_acc : ∀ (ds : List UInt8) (acc : Nat), digitsVal ds acc = acc * 10 ^ ds.length + digitsVal ds 0 := by
  intro ds
  induction ds with
  | nil => intro acc; simp [digitsVal]
  | cons b ds ih =>
    intro acc
    simp only [digitsVal, List.length_cons]
    rw [ih (acc * 10 + (b.toNat - 48)), ih (0 * 10 + (b.toNat - 48))]
    rw [Nat.pow_succ]
    ring

theorem digitsVal_lt : ∀ (ds : List UInt8), allDigits ds → digitsVal ds 0 < 10 ^ ds.length := by
  intro ds
  induction ds with
  | nil => intro _; simp [digitsVal]
  | cons b ds ih =>
    intro h
    have hb := digit_le9 b (h b (by simp))
    have := ih (fun x hx => h x (by simp [hx]))
    simp only [digitsVal, List.length_cons]
    rw [digitsVal_acc ds (0 * 10 + (b.toNat - 48)), Nat.pow_succ]
    have : (0 * 10 + (b.toNat - 48)) * 10 ^ ds.length ≤ 9 * 10 ^ ds.length := Nat.mul_le_mul_right _ (by omega)
    omega

theorem digitsVal_append (a b : List UInt8) (acc : Nat) : digitsVal (a ++ b) acc = digitsVal b (digitsVal a acc) := by
  induction a generalizing acc with
  | nil => rfl
  | cons x a ih => simp only [List.cons_append, digitsVal]; exact ih _

/-- the 19-digit accumulator, in closed form -/
theorem acc_closed : ∀ (ds : List UInt8) (man ndMant : Nat) (trunc : Bool), allDigits ds → ndMant ≤ 19 → man < 10 ^ ndMant →
    accDigits ds (man, ndMant, trunc) =
      (digitsVal (ds.take (19 - ndMant)) man, min 19 (ndMant + ds.length), trunc || decide (ndMant + ds.length > 19)) := by
  intro ds
  induction ds with
  | nil =>
    intro man ndMant trunc _ h19 _
    simp only [accDigits, List.take_nil, digitsVal, List.length_nil, Nat.add_zero]
    have : ¬ ndMant > 19 := by omega
    simp [this, Nat.min_eq_right h19]
  | cons b ds ih =>
    intro man ndMant trunc hds h19 hman
    have hb := digit_le9 b (hds b (by simp))
    have hds' : allDigits ds := fun x hx => hds x (by simp [hx])
    simp only [accDigits, List.length_cons]
    by_cases hfull : ndMant ≥ 19
    · have h19' : ndMant = 19 := by omega
      subst h19'
      rw [if_pos hfull, ih man 19 true hds' (Nat.le_refl _) hman]
      simp only [Nat.sub_self, List.take_zero, digitsVal]
      have : 19 + (ds.length + 1) > 19 := by omega
      simp [this]
    · rw [if_neg hfull]
      have hlt : man * 10 + (b.toNat - 48) < 10 ^ (ndMant + 1) := by
        rw [Nat.pow_succ]; omega
      have h64 : man * 10 + (b.toNat - 48) < two64 := by
        have : 10 ^ (ndMant + 1) ≤ 10 ^ 19 := Nat.pow_le_pow_right (by norm_num) (by omega)
        have h2 : (10 : ℕ) ^ 19 < two64 := by unfold two64; norm_num
        omega
      rw [Nat.mod_eq_of_lt h64, ih _ (ndMant + 1) trunc hds' (by omega) hlt]
      have e1 : 19 - ndMant = (19 - (ndMant + 1)) + 1 := by omega
      rw [e1, List.take_succ_cons]
      simp only [digitsVal]
      have e2 : ndMant + 1 + ds.length = ndMant + (ds.length + 1) := by omega
      rw [e2]

theorem clip_ge (C : Nat) : ∀ (ds : List UInt8) (e : Nat), e ≤ clipAcc C ds e := by
  intro ds
  induction ds with
  | nil => intro e; exact Nat.le_refl _
  | cons b ds ih =>
    intro e
    simp only [clipAcc]
    split
    · exact Nat.le_trans (by omega) (ih _)
    · exact ih e

/-- an exponent that was not clipped is the exponent written -/
theorem clip_exact (C : Nat) : ∀ (ds : List UInt8) (e : Nat), clipAcc C ds e < C → clipAcc C ds e = digitsVal ds e := by
  intro ds
  induction ds with
  | nil => intro e _; rfl
  | cons b ds ih =>
    intro e h
    simp only [clipAcc] at h ⊢
    simp only [digitsVal]
    by_cases he : e < C
    · rw [if_pos he] at h ⊢
      exact ih _ h
    · rw [if_neg he] at h
      have := clip_ge C ds e
      omega

/-! ## ranges in which the fast paths answer -/

theorem exact_range (m : ℕ) (e : ℤ) (neg : Bool) (f : ℕ) (h : atof64exact m e neg = some f) : -22 ≤ e ∧ e ≤ 37 := by
  simp only [atof64exact] at h
  split at h
  · cases h
  · by_cases he0 : (e == 0) = true
    · have : e = 0 := by simpa using he0
      omega
    · rw [if_neg he0] at h
      by_cases hpos : (decide (e > 0) && decide (e ≤ 15 + 22)) = true
      · simp only [Bool.and_eq_true, decide_eq_true_eq] at hpos
        omega
      · rw [if_neg hpos] at h
        by_cases hneg : (decide (e < 0) && decide (e ≥ -22)) = true
        · simp only [Bool.and_eq_true, decide_eq_true_eq] at hneg
          omega
        · rw [if_neg hneg] at h; cases h

theorem el_range (m : ℕ) (e : ℤ) (neg : Bool) (f : ℕ) (hm : m ≠ 0) (h : eiselLemire64 m e neg = some f) : -348 ≤ e ∧ e ≤ 347 := by
  have hm0 : (m == 0) = false := by simpa using hm
  obtain ⟨_, hmin, hmax⟩ := C04.el_table_rows
  simp only [eiselLemire64, hm0, Bool.false_eq_true, if_false, hmin, hmax] at h
  by_cases hr : (decide (e < -348) || decide (347 < e)) = true
  · rw [if_pos hr] at h; cases h
  · simp only [Bool.or_eq_true, decide_eq_true_eq, not_or] at hr
    omega

theorem el_one : ∀ neg : Bool, eiselLemire64 1 0 neg = some (4607182418800017408 + signBit neg) := by
  intro neg
  cases neg
  · have : eiselLemire64 1 0 false = some 4607182418800017408 := by decide +kernel
    rw [this]; rfl
  · have : eiselLemire64 1 0 true = some (4607182418800017408 + 9223372036854775808) := by decide +kernel
    rw [this]; rfl

/-- the byte before the end of the literal is a digit -/
theorem last_is_digit (data : Bytes) (neg : Bool) (ip fp : List UInt8) (ec : UInt8) (sg eds rest : List UInt8)
    (h : Shape data.toList neg ip fp ec sg eds rest) :
    data.size - rest.length > 0 ∧ isDigit data[data.size - rest.length - 1]! = true := by
  -- the last run of digits
  obtain ⟨pre, A, hA, hAne, heq⟩ : ∃ pre A : List UInt8, allDigits A ∧ A ≠ [] ∧ data.toList = pre ++ (A ++ rest) := by
    cases heds : eds with
    | cons d ds =>
      refine ⟨(if neg then [45] else []) ++ (ip ++ (fracL fp ++ (ec :: sg))), d :: ds, ?_, by simp, ?_⟩
      · rw [← heds]; exact h.edsDigits
      · rw [h.eq, heds]; simp [expL, List.append_assoc]
    | nil =>
      cases hfp : fp with
      | cons d ds =>
        refine ⟨(if neg then [45] else []) ++ (ip ++ [46]), d :: ds, ?_, by simp, ?_⟩
        · rw [← hfp]; exact h.fpDigits
        · rw [h.eq, heds, hfp]; simp [expL, fracL, List.append_assoc]
      | nil =>
        refine ⟨(if neg then [45] else []), ip, h.ipDigits, h.ipNe, ?_⟩
        rw [h.eq, heds, hfp]; simp [expL, fracL]
  have hat0 := Ragel.At.start data
  have hat := HelpersSpec.at_suffix hat0 pre.length (by rw [heq]; simp)
  rw [heq, List.drop_left, Nat.zero_add] at hat
  have hd := last_digit hat hA hAne
  have hsz : data.size = pre.length + (A.length + rest.length) := by
    have := congrArg List.length heq
    simpa using this
  have hApos : 0 < A.length := List.length_pos_iff.mpr hAne
  have hidx : data.size - rest.length - 1 = pre.length + A.length - 1 := by omega
  rw [hidx]
  exact ⟨by omega, hd⟩

/-- the decimal value above and below a truncated mantissa -/
theorem trunc_bounds (ds : List UInt8) (hds : allDigits ds) (h19 : 19 < ds.length) :
    digitsVal (ds.take 19) 0 * 10 ^ (ds.length - 19) ≤ digitsVal ds 0 ∧
      digitsVal ds 0 < (digitsVal (ds.take 19) 0 + 1) * 10 ^ (ds.length - 19) := by
  have hsplit : ds = ds.take 19 ++ ds.drop 19 := (List.take_append_drop 19 ds).symm
  have hdl : (ds.drop 19).length = ds.length - 19 := by simp
  have hdd : allDigits (ds.drop 19) := fun b hb => hds b (List.mem_of_mem_drop hb)
  have hlt := digitsVal_lt (ds.drop 19) hdd
  have hval : digitsVal ds 0 = digitsVal (ds.take 19) 0 * 10 ^ (ds.length - 19) + digitsVal (ds.drop 19) 0 := by
    conv => lhs; rw [hsplit]
    rw [digitsVal_append, digitsVal_acc (ds.drop 19), hdl]
  rw [hdl] at hlt
  rw [hval]
  constructor
  · omega
  · rw [Nat.add_mul, Nat.one_mul]; omega

/-- what `readFloat` returns, field by field -/
theorem readFloat_fields (data : Bytes) (neg : Bool) (ip fp : List UInt8) (ec : UInt8) (sg eds rest : List UInt8)
    (h : Shape data.toList neg ip fp ec sg eds rest) :
    (readFloat data).ok = true ∧ (readFloat data).p = data.size - rest.length ∧ (readFloat data).neg = neg ∧
    (readFloat data).mantissa = digitsVal ((ip ++ fp).take 19) 0 ∧
    (readFloat data).trunc = decide ((ip ++ fp).length > 19) ∧
    (readFloat data).exp = (if (digitsVal ((ip ++ fp).take 19) 0 != 0) then
        ((ip.length : ℕ) : ℤ) + (clipAcc (10000 + data.size) eds 0 : ℤ) * sgnOf sg - ((min 19 (ip ++ fp).length : ℕ) : ℤ) else 0) := by
  have hds : allDigits (ip ++ fp) := by
    intro b hb
    rcases List.mem_append.mp hb with h1 | h1
    · exact h.ipDigits b h1
    · exact h.fpDigits b h1
  have hacc := acc_closed (ip ++ fp) 0 0 false hds (by norm_num) (by norm_num)
  simp only [Nat.sub_zero, Nat.zero_add, Bool.false_or] at hacc
  rw [readFloat_shape data neg ip fp ec sg eds rest h]
  simp only [rfOf, hacc]
  exact ⟨trivial, trivial, trivial, trivial, trivial, trivial⟩

theorem sgnOf_cases (sg : List UInt8) : sgnOf sg = 1 ∨ sgnOf sg = -1 := by
  unfold sgnOf; split <;> simp

/-- an exponent in the range of the tables was not clipped -/
theorem exp_unclipped (size ipl k : ℕ) (eds sg : List UInt8) (hipl : ipl ≤ size) (hk : k ≤ 19)
    (hr1 : -400 ≤ (ipl : ℤ) + (clipAcc (10000 + size) eds 0 : ℤ) * sgnOf sg - k)
    (hr2 : (ipl : ℤ) + (clipAcc (10000 + size) eds 0 : ℤ) * sgnOf sg - k ≤ 400) :
    clipAcc (10000 + size) eds 0 = digitsVal eds 0 := by
  apply clip_exact
  rcases sgnOf_cases sg with h | h <;> rw [h] at hr1 hr2 <;> omega

theorem roundDec_zero (neg : Bool) (e : ℤ) : roundDec neg 0 e = (signBit neg, false) := by simp [roundDec]

set_option maxRecDepth 10000 in
/-- **the fast paths of `ParseJSONFloatPrefix` are correctly rounded** -/
theorem parse_fast (data : Bytes) (neg : Bool) (ip fp : List UInt8) (ec : UInt8) (sg eds rest : List UInt8)
    (h : Shape data.toList neg ip fp ec sg eds rest)
    (hpath : (parse data).path = .exact ∨ (parse data).path = .eisel ∨ (parse data).path = .eiselTrunc) :
    (parse data).err = false ∧ (parse data).n = data.size - rest.length ∧
      roundDec neg (digitsVal (ip ++ fp) 0) (sgnOf sg * (digitsVal eds 0 : ℤ) - fp.length) = ((parse data).bits, false) := by
  obtain ⟨hok, hp, hneg, hman, htr, hexp⟩ := readFloat_fields data neg ip fp ec sg eds rest h
  obtain ⟨hppos, hlast⟩ := last_is_digit data neg ip fp ec sg eds rest h
  have hds : allDigits (ip ++ fp) := by
    intro b hb
    rcases List.mem_append.mp hb with h1 | h1
    · exact h.ipDigits b h1
    · exact h.fpDigits b h1
  have hipl : ip.length ≤ data.size := by
    have := congrArg List.length h.eq
    simp only [Array.length_toList, List.length_append] at this
    omega
  -- no trailing dot
  have htd : (decide (data.size - rest.length > 0) && data[data.size - rest.length - 1]! == 46) = false := by
    have : (data[data.size - rest.length - 1]! == 46) = false := by
      apply beq_eq_false_iff_ne.mpr
      intro h46; rw [h46] at hlast; exact absurd hlast (by decide)
    rw [this, Bool.and_false]
  generalize hD19 : digitsVal ((ip ++ fp).take 19) 0 = D19 at hman hexp
  have hD19lt : D19 < 10 ^ 19 := by
    rw [← hD19]
    have hd19 : allDigits ((ip ++ fp).take 19) := fun b hb => hds b (List.mem_of_mem_take hb)
    have := digitsVal_lt _ hd19
    have hl : ((ip ++ fp).take 19).length ≤ 19 := by simp
    exact Nat.lt_of_lt_of_le this (Nat.pow_le_pow_right (by norm_num) hl)
  have hD19_64 : D19 < 2 ^ 64 := by
    have : (10 : ℕ) ^ 19 < 2 ^ 64 := by norm_num
    omega
  simp only [parse, hok, Bool.not_true, Bool.false_eq_true, if_false, hp, htd, hman, hneg, htr] at hpath ⊢
  by_cases htrunc : (ip ++ fp).length > 19
  · -- more than 19 digits: only the double-checked Eisel-Lemire path answers
    have hdt : decide ((ip ++ fp).length > 19) = true := decide_eq_true htrunc
    simp only [hdt, Bool.not_true, Bool.false_eq_true, if_false, if_true] at hpath ⊢
    cases hel1 : eiselLemire64 D19 (readFloat data).exp neg with
    | none =>
      rw [hel1] at hpath
      simp only [] at hpath
      exfalso
      revert hpath
      cases Decimal.set (data.extract 0 (data.size - rest.length)) with
      | none => simp
      | some dd =>
        simp only []
        cases dd.floatBits with
        | none => simp
        | some bo => obtain ⟨b, o⟩ := bo; cases o <;> simp
    | some f2 =>
      rw [hel1] at hpath
      simp only [] at hpath ⊢
      cases hel2 : eiselLemire64 ((D19 + 1) % two64) (readFloat data).exp neg with
      | none =>
        rw [hel2] at hpath
        simp only [] at hpath
        exfalso
        revert hpath
        cases Decimal.set (data.extract 0 (data.size - rest.length)) with
        | none => simp
        | some dd =>
          simp only []
          cases dd.floatBits with
          | none => simp
          | some bo => obtain ⟨b, o⟩ := bo; cases o <;> simp
      | some fUp =>
        rw [hel2] at hpath
        simp only [] at hpath ⊢
        by_cases hsame : (f2 == fUp) = true
        · rw [if_pos hsame] at hpath ⊢
          simp only [] at hpath ⊢
          have hfeq : fUp = f2 := by have := beq_iff_eq.mp hsame; exact this.symm
          rw [hfeq] at hel2
          refine ⟨trivial, trivial, ?_⟩
          have hmod : (D19 + 1) % two64 = D19 + 1 := by
            apply Nat.mod_eq_of_lt; unfold two64
            have : (10 : ℕ) ^ 19 < 18446744073709551616 := by norm_num
            omega
          rw [hmod] at hel2
          by_cases hz : D19 = 0
          · -- a zero prefix never passes the double check
            exfalso
            subst hz
            have he0 : (readFloat data).exp = 0 := by rw [hexp]; simp
            rw [he0] at hel1 hel2
            simp only [eiselLemire64, beq_self_eq_true, if_true] at hel1
            rw [el_one neg] at hel2
            injection hel1 with hel1
            injection hel2 with hel2
            omega
          · have hzb : (D19 != 0) = true := by simpa using hz
            rw [if_pos hzb] at hexp
            have hmin : min 19 (ip ++ fp).length = 19 := by omega
            rw [hmin] at hexp
            obtain ⟨er1, er2⟩ := el_range D19 _ neg f2 hz hel1
            have eb1 := er1
            have eb2 := er2
            rw [hexp] at er1 er2
            have hclip := exp_unclipped data.size ip.length 19 eds sg hipl (Nat.le_refl _) (by omega) (by omega)
            rw [hclip] at hexp
            -- the three values
            obtain ⟨tb1, tb2⟩ := trunc_bounds (ip ++ fp) hds htrunc
            rw [hD19] at tb1 tb2
            generalize hk : (ip ++ fp).length - 19 = k at tb1 tb2
            generalize hD : digitsVal (ip ++ fp) 0 = D at tb1 tb2 ⊢
            generalize hX : digitsVal eds 0 = X at hexp ⊢
            generalize hEr : (readFloat data).exp = Er at hexp hel1 hel2 eb1 eb2
            have hE : sgnOf sg * (X : ℤ) - (fp.length : ℕ) = Er - k := by
              rw [hexp, ← hk]
              have : (ip ++ fp).length = ip.length + fp.length := by simp
              rw [this]
              have : ((ip.length + fp.length - 19 : ℕ) : ℤ) = (ip.length : ℤ) + fp.length - 19 := by
                have : 19 ≤ ip.length + fp.length := by simp only [List.length_append] at htrunc; omega
                omega
              rw [this]; ring
            rw [hE]
            have hr1 := EL.eisel_correct D19 Er neg f2 hD19_64 hel1
            have hr3 := EL.eisel_correct (D19 + 1) Er neg f2 (by
              have : (10 : ℕ) ^ 19 < 2 ^ 64 := by norm_num
              omega) hel2
            have hD0 : D ≠ 0 := by
              have : 0 < D19 * 10 ^ k := Nat.mul_pos (Nat.pos_of_ne_zero hz) (by positivity)
              omega
            have hlogD : 3 * k ≤ Nat.log2 D := by
              apply (Nat.le_log2 hD0).mpr
              have h8 : 2 ^ (3 * k) = 8 ^ k := by rw [Nat.pow_mul]
              have h10 : 8 ^ k ≤ 10 ^ k := Nat.pow_le_pow_left (by norm_num) k
              have : 10 ^ k ≤ D19 * 10 ^ k := Nat.le_mul_of_pos_left _ (Nat.pos_of_ne_zero hz)
              omega
            obtain ⟨n1, d1, h1n, h1d, hrd1, hv1⟩ := EL.roundDec_eq neg D19 Er hz (by omega) (by omega)
            obtain ⟨n3, d3, h3n, h3d, hrd3, hv3⟩ := EL.roundDec_eq neg (D19 + 1) Er (by omega) (by omega) (by omega)
            obtain ⟨n2, d2, h2n, h2d, hrd2, hv2⟩ := EL.roundDec_eq neg D (Er - k) hD0 (by omega) (by omega)
            rw [hrd1] at hr1
            rw [hrd3] at hr3
            rw [hrd2]
            apply RoundMono.roundRat_sandwich neg n1 d1 n2 d2 n3 d3 h1n h1d h2n h2d h3n h3d ?_ ?_ f2 hr1 hr3
            · rw [hv1, hv2]
              have hp10 : (0 : ℚ) < 10 ^ (Er - k) := by positivity
              have : (10 : ℚ) ^ Er = 10 ^ k * 10 ^ (Er - k) := by
                rw [← zpow_natCast, ← zpow_add₀ (by norm_num)]; congr 1; ring
              rw [this]
              have tbq : ((D19 * 10 ^ k : ℕ) : ℚ) ≤ (D : ℚ) := by exact_mod_cast tb1
              push_cast at tbq
              calc (D19 : ℚ) * (10 ^ k * 10 ^ (Er - k)) = ((D19 : ℚ) * 10 ^ k) * 10 ^ (Er - k) := by ring
                _ ≤ (D : ℚ) * 10 ^ (Er - k) := mul_le_mul_of_nonneg_right tbq hp10.le
            · rw [hv2, hv3]
              have hp10 : (0 : ℚ) < 10 ^ (Er - k) := by positivity
              have : (10 : ℚ) ^ Er = 10 ^ k * 10 ^ (Er - k) := by
                rw [← zpow_natCast, ← zpow_add₀ (by norm_num)]; congr 1; ring
              rw [this]
              have tbq : (D : ℚ) ≤ (((D19 + 1) * 10 ^ k : ℕ) : ℚ) := by exact_mod_cast Nat.le_of_lt tb2
              push_cast at tbq ⊢
              calc (D : ℚ) * 10 ^ (Er - k) ≤ (((D19 : ℚ) + 1) * 10 ^ k) * 10 ^ (Er - k) := mul_le_mul_of_nonneg_right tbq hp10.le
                _ = ((D19 : ℚ) + 1) * (10 ^ k * 10 ^ (Er - k)) := by ring
        · rw [if_neg hsame] at hpath
          simp only [] at hpath
          exfalso
          revert hpath
          cases Decimal.set (data.extract 0 (data.size - rest.length)) with
          | none => simp
          | some dd =>
            simp only []
            cases dd.floatBits with
            | none => simp
            | some bo => obtain ⟨b, o⟩ := bo; cases o <;> simp
  · -- at most 19 digits: the mantissa is the whole digit string
    have hdt : decide ((ip ++ fp).length > 19) = false := decide_eq_false htrunc
    have htake : (ip ++ fp).take 19 = ip ++ fp := List.take_of_length_le (by omega)
    rw [htake] at hD19
    have hmin : min 19 (ip ++ fp).length = (ip ++ fp).length := by omega
    rw [hmin] at hexp
    simp only [hdt, Bool.not_false, if_true, Bool.false_eq_true, if_false] at hpath ⊢
    rw [hD19]
    -- the exponent `readFloat` reports is the exponent of the literal whenever a table can use it
    have hEeq : D19 ≠ 0 → -400 ≤ (readFloat data).exp → (readFloat data).exp ≤ 400 →
        (readFloat data).exp = sgnOf sg * (digitsVal eds 0 : ℤ) - (fp.length : ℕ) := by
      intro hz l1 l2
      have hzb : (D19 != 0) = true := by simpa using hz
      rw [if_pos hzb] at hexp
      rw [hexp] at l1 l2
      by_cases hnd : (ip ++ fp).length ≤ 19
      · have hclip := exp_unclipped data.size ip.length (ip ++ fp).length eds sg hipl hnd l1 l2
        rw [hexp, hclip]
        simp only [List.length_append]; push_cast; ring
      · omega
    have hzero : D19 = 0 → ∀ e e', roundDec neg D19 e = roundDec neg D19 e' := by
      intro hz e e'; rw [hz, roundDec_zero, roundDec_zero]
    cases hex : atof64exact D19 (readFloat data).exp neg with
    | some f =>
      rw [hex] at hpath
      simp only [] at hpath ⊢
      refine ⟨trivial, trivial, ?_⟩
      have hc := Exact.atof64exact_correct D19 _ neg f hex
      by_cases hz : D19 = 0
      · rw [hzero hz _ (readFloat data).exp]; exact hc
      · obtain ⟨r1, r2⟩ := exact_range D19 _ neg f hex
        rw [← hEeq hz (by omega) (by omega)]; exact hc
    | none =>
      rw [hex] at hpath
      simp only [] at hpath ⊢
      cases hel1 : eiselLemire64 D19 (readFloat data).exp neg with
      | none =>
        rw [hel1] at hpath
        simp only [] at hpath
        exfalso
        revert hpath
        cases Decimal.set (data.extract 0 (data.size - rest.length)) with
        | none => simp
        | some dd =>
          simp only []
          cases dd.floatBits with
          | none => simp
          | some bo => obtain ⟨b, o⟩ := bo; cases o <;> simp
      | some f2 =>
        rw [hel1] at hpath
        simp only [] at hpath ⊢
        refine ⟨trivial, trivial, ?_⟩
        have hc := EL.eisel_correct D19 _ neg f2 hD19_64 hel1
        by_cases hz : D19 = 0
        · rw [hzero hz _ (readFloat data).exp]; exact hc
        · obtain ⟨r1, r2⟩ := el_range D19 _ neg f2 hz hel1
          rw [← hEeq hz (by omega) (by omega)]; exact hc

end RJson.ParseFast
