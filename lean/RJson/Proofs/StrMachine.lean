import RJson.Proofs.StrDecode
import RJson.Proofs.Step
import RJson.Proofs.HelpersSpec
import RJson.Proofs.Traverse
import RJson.Model.AbsSmall
/-!
# The string machines (abstract `smachine`) against `Spec.scanStringBody` / `Spec.decodeString`
-/
namespace RJson.StrMachine
open RJson.Ragel RJson.Spec RJson.AbsSmall RJson.StrDecode RJson.Abs

def IsErrS {τ} (res : Result τ) : Prop := ∃ e, res.kind = .err e

/-- the byte of a plain character whose segment is still pending -/
def PendOK {τ} (data : Bytes) (r : Regs τ) : Option UInt8 → Prop
  | none => True
  | some x => sliceChecked data r.seg r.p = some #[x]

def stOf : Option UInt8 → SS
  | none => .start
  | some _ => .plain

def pendL : Option UInt8 → List UInt8
  | none => []
  | some x => [x]

def leaveActs (pend : Option UInt8) : List (Act SS) := if stOf pend == .plain then [.s .appendSeg] else []

theorem exec_leave {τ} (k : SKind) (data : Bytes) (h : Handler τ) (pend : Option UInt8) (r : Regs τ) (hpk : PendOK data r pend)
    (tgt : Option SS) :
    execActsL (smachine k) data h (leaveActs pend) tgt [] r =
      .next tgt [] { r with dst := r.dst ++ (pendL pend).toArray } := by
  cases pend with
  | none => simp [leaveActs, stOf, execActsL, pendL]
  | some x =>
    simp only [PendOK] at hpk
    simp [leaveActs, stOf, execActsL, execSimple, SAct.isHandler, hpk, pendL]

theorem exec_leave_seg {τ} (k : SKind) (data : Bytes) (h : Handler τ) (pend : Option UInt8) (r : Regs τ) (hpk : PendOK data r pend)
    (tgt : Option SS) :
    execActsL (smachine k) data h (leaveActs pend ++ [.s .segStart]) tgt [] r =
      .next tgt [] { r with dst := r.dst ++ (pendL pend).toArray, seg := r.p } := by
  cases pend with
  | none => simp [leaveActs, stOf, execActsL, execSimple, SAct.isHandler, pendL]
  | some x =>
    simp only [PendOK] at hpk
    simp [leaveActs, stOf, execActsL, execSimple, SAct.isHandler, hpk, pendL]

theorem sstep_main (k : SKind) (pend : Option UInt8) (b : UInt8) :
    (smachine k).step (stOf pend) b =
      if b == 34 then (if k == .append then (leaveActs pend, some .done) else ([], none))
      else if b == 92 then (leaveActs pend ++ [.s .segStart], some .esc)
      else if b < 32 then (if k == .append then serr else ([], none))
      else (leaveActs pend ++ [.s .segStart], some .plain) := by
  cases pend <;> rfl

/-- the run ends without error once the closing quote has been consumed -/
theorem done_finish {τ} (data : Bytes) (h : Handler τ) (fuel p : Nat) (r : Regs τ) (rest : List UInt8)
    (hat : At data p rest) (hp : r.p = p) (hf : rest.length + 1 ≤ fuel) :
    contL (smachine .append) data h fuel .done [] r = r.finish := by
  cases rest with
  | nil =>
    rw [contL_nil (smachine .append) data h _ _ _ r p hp hat]
    rfl
  | cons b t =>
    rw [contL_cons (smachine .append) data h _ _ _ r p b t hp hat]
    obtain ⟨hb, _, _⟩ := hat.cons_inv
    obtain ⟨fuel, rfl⟩ : ∃ f, fuel = f + 1 := ⟨fuel - 1, by omega⟩
    exact loopL_exit (smachine .append) data h fuel _ [] r b (by rw [hp]; exact hb) rfl

theorem serr_stops {τ} (k : SKind) (data : Bytes) (h : Handler τ) (fuel : Nat) (s : SS) (r : Regs τ) (b : UInt8)
    (hb : getByte data r.p = some b) (hs : (smachine k).step s b = serr) :
    IsErrS (loopL (smachine k) data h (fuel + 1) s [] r) := by
  rw [loopL_errReturn (smachine k) data h fuel s [] r b .invalidString none hb hs]
  exact ⟨_, rfl⟩

theorem eof_err {τ} (k : SKind) (data : Bytes) (h : Handler τ) (s : SS) (r : Regs τ)
    (hs : (smachine k).eof s = [.errReturn .invalidString]) :
    IsErrS (runEof data (smachine k).hasField h ((smachine k).eof s) r) := by
  rw [hs]
  exact ⟨_, rfl⟩

/-- failing hex digits after `\u` -/
theorem u_fail {τ} (k : SKind) (data : Bytes) (h : Handler τ) (hsm : Small data) :
    ∀ (j n : Nat), n + j = 4 → ∀ (t : List UInt8), ¬ (j ≤ t.length ∧ (t.take j).all isHex = true) →
      ∀ (fuel p : Nat) (r : Regs τ), At data p t → r.p = p → t.length + 1 ≤ fuel →
      IsErrS (contL (smachine k) data h fuel (.u n) [] r) := by
  intro j
  induction j with
  | zero => intro n _ t hc; exact absurd ⟨Nat.zero_le _, by simp⟩ hc
  | succ j ih =>
    intro n hn t hc fuel p r hat hp hf
    cases t with
    | nil =>
      rw [contL_nil (smachine k) data h _ _ _ r p hp hat]
      exact eof_err k data h _ r (by cases k <;> rfl)
    | cons x t' =>
      obtain ⟨hb, _, hat'⟩ := hat.cons_inv
      obtain ⟨fuel, rfl⟩ : ∃ f, fuel = f + 1 := ⟨fuel - 1, by omega⟩
      rw [contL_cons (smachine k) data h _ _ _ r p x t' hp hat]
      by_cases hx : isHex x = true
      · have hn3 : ¬ n ≥ 3 := by
          intro h3
          have : j = 0 := by omega
          subst this
          exact hc ⟨by simp, by simp [hx]⟩
        have hstep : (smachine k).step (.u n) x = ([], some (.u (n + 1))) := by
          simp [smachine, sstep, isHexB_eq, hx, hn3]
        rw [loopL_goto (smachine k) data h fuel _ _ [] r p x t' hsm hp hat hstep]
        apply ih (n + 1) (by omega) t' _ fuel (p + 1) _ hat' rfl (by simp only [List.length_cons] at hf; omega)
        intro hc'
        apply hc
        refine ⟨by simp only [List.length_cons]; omega, ?_⟩
        simp [List.take_succ_cons, hx, hc'.2]
      · have hstep : (smachine k).step (.u n) x = serr := by
          simp [smachine, sstep, isHexB_eq, hx]
        exact serr_stops k data h fuel _ r x (by rw [hp]; exact hb) hstep

theorem getu4L_some (l : List UInt8) (v : Nat) (h : getu4L l = some v) :
    ∃ a b c d rest, l = 92 :: 117 :: a :: b :: c :: d :: rest ∧ isHex a = true ∧ isHex b = true ∧ isHex c = true ∧ isHex d = true := by
  simp only [getu4L] at h
  split at h
  · next a b c d rest =>
    split at h
    · next hx =>
      simp only [Bool.and_eq_true] at hx
      exact ⟨a, b, c, d, rest, rfl, hx.1.1.1, hx.1.1.2, hx.1.2, hx.2⟩
    · cases h
  · cases h

theorem uniStep_consumed (a b c d : UInt8) (rest : List UInt8) :
    (uniStep a b c d rest).2 = 6 ∨ ((uniStep a b c d rest).2 = 12 ∧ ∃ v, getu4L rest = some v) := by
  simp only [uniStep]
  split
  · cases hg : getu4L rest with
    | none => left; rfl
    | some r2 =>
      simp only []
      split
      · right; exact ⟨rfl, r2, rfl⟩
      · left; rfl
  · split <;> (left; rfl)

/-- the four hex digits of a `\uXXXX` escape and the call of `unescapeUnicodeChar` on the last one -/
theorem u_ok {τ} (k : SKind) (data : Bytes) (h : Handler τ) (hsm : Small data) (q : Nat) (a b c d : UInt8) (rest : List UInt8)
    (hatq : At data q (92 :: 117 :: a :: b :: c :: d :: rest))
    (ha : isHex a = true) (hb : isHex b = true) (hc : isHex c = true) (hd : isHex d = true)
    (fuel : Nat) (r : Regs τ) (hp : r.p = ((q + 2 : Nat) : Int)) (hseg : r.seg = (q : Int)) (hf : rest.length + 5 ≤ fuel) :
    ∃ fuel', (rest.drop ((uniStep a b c d rest).2 - 6)).length + 1 ≤ fuel' ∧
      At data (q + (uniStep a b c d rest).2) (rest.drop ((uniStep a b c d rest).2 - 6)) ∧
      contL (smachine k) data h fuel (.u 0) [] r =
        contL (smachine k) data h fuel' .start []
          { r with dst := r.dst ++ (uniStep a b c d rest).1.toArray, p := ((q + (uniStep a b c d rest).2 : Nat) : Int) } := by
  obtain ⟨_, _, hat1⟩ := hatq.cons_inv
  obtain ⟨_, _, hat2⟩ := hat1.cons_inv
  obtain ⟨_, _, hat3⟩ := hat2.cons_inv
  obtain ⟨_, _, hat4⟩ := hat3.cons_inv
  obtain ⟨_, _, hat5⟩ := hat4.cons_inv
  obtain ⟨hbd, hltd, hat6⟩ := hat5.cons_inv
  have hlen6 := hat6.length
  have hle6 := hat6.le
  obtain ⟨f, rfl⟩ : ∃ f, fuel = f + 4 := ⟨fuel - 4, by omega⟩
  have st0 : (smachine k).step (.u 0) a = ([], some (.u 1)) := by simp [smachine, sstep, isHexB_eq, ha]
  have st1 : (smachine k).step (.u 1) b = ([], some (.u 2)) := by simp [smachine, sstep, isHexB_eq, hb]
  have st2 : (smachine k).step (.u 2) c = ([], some (.u 3)) := by simp [smachine, sstep, isHexB_eq, hc]
  have st3 : (smachine k).step (.u 3) d = ([.s .unescapeU], some .start) := by simp [smachine, sstep, isHexB_eq, hd]
  rw [contL_cons (smachine k) data h _ _ _ r (q + 2) a _ hp hat2,
    loopL_goto (smachine k) data h (f + 3) _ _ [] r (q + 2) a _ hsm hp hat2 st0,
    contL_cons (smachine k) data h _ _ _ _ (q + 2 + 1) b _ rfl hat3,
    loopL_goto (smachine k) data h (f + 2) _ _ [] _ (q + 2 + 1) b _ hsm rfl hat3 st1,
    contL_cons (smachine k) data h _ _ _ _ (q + 2 + 1 + 1) c _ rfl hat4,
    loopL_goto (smachine k) data h (f + 1) _ _ [] _ (q + 2 + 1 + 1) c _ hsm rfl hat4 st2,
    contL_cons (smachine k) data h _ _ _ _ (q + 2 + 1 + 1 + 1) d _ rfl hat5,
    loopL_succ (smachine k) data h f _ [] _ d hbd, st3]
  have hu := unescapeU_eq data q r.dst a b c d rest hatq.eq ha hb hc hd
  have hsegc : (0 : Int) ≤ (q : Int) ∧ (q : Int) ≤ (data.size : Int) := by have := hatq.le; omega
  unfold Small at hsm
  rcases uniStep_consumed a b c d rest with h6 | ⟨h12, v, hv⟩
  · -- one escape
    have hdrop : rest.drop ((uniStep a b c d rest).2 - 6) = rest := by rw [h6]; rfl
    refine ⟨f, by rw [hdrop]; omega, by rw [hdrop, h6]; exact hat6, ?_⟩
    simp only [execActsL, SAct.isHandler, Bool.false_and, Bool.false_eq_true, if_false, execSimple, hseg, hsegc, and_self, if_true,
      Int.toNat_natCast, hu, h6, Bool.not_true, Nat.lt_irrefl, contL]
    have hw : wrap64 (((q + 2 + 1 + 1 + 1 : Nat) : Int) + 1) = ((q + 6 : Nat) : Int) := by rw [wrap64_id] <;> omega
    simp only [hw]
  · -- a surrogate pair: the second escape is skipped as well
    obtain ⟨a2, b2, c2, d2, rest5, hr5, _, _, _, _⟩ := getu4L_some rest v hv
    have hdrop : rest.drop ((uniStep a b c d rest).2 - 6) = rest5 := by rw [h12, hr5]; rfl
    have hat12 : At data (q + 12) rest5 := by
      have := HelpersSpec.at_suffix hat6 6 (by rw [hr5]; simp)
      rw [hr5] at this
      exact this
    have hl5 : rest.length = rest5.length + 6 := by rw [hr5]; simp
    refine ⟨f, by rw [hdrop]; omega, by rw [hdrop, h12]; exact hat12, ?_⟩
    have h126 : (12 : Nat) > 6 := by decide
    simp only [execActsL, SAct.isHandler, Bool.false_and, Bool.false_eq_true, if_false, execSimple, hseg, hsegc, and_self, if_true,
      Int.toNat_natCast, hu, h12, Bool.not_true, h126, contL]
    have hw1 : wrap64 (((q + 2 + 1 + 1 + 1 : Nat) : Int) + (((12 : Nat) : Int) - 6)) = ((q + 11 : Nat) : Int) := by
      rw [wrap64_id] <;> omega
    have hw2 : wrap64 (((q + 11 : Nat) : Int) + 1) = ((q + 12 : Nat) : Int) := by rw [wrap64_id] <;> omega
    simp only [hw1, hw2]

/-! ## one token of a string body -/

/-- after `\u`: `(consumed bytes, decoded bytes, remaining input)` -/
def uSpec : List UInt8 → Option (List UInt8 × List UInt8 × List UInt8)
  | a :: b :: c :: d :: rest =>
    if isHex a && isHex b && isHex c && isHex d then
      some (92 :: 117 :: a :: b :: c :: d :: rest.take ((uniStep a b c d rest).2 - 6), (uniStep a b c d rest).1,
        rest.drop ((uniStep a b c d rest).2 - 6))
    else none
  | _ => none

/-- the first token of a string body whose head is neither a quote nor a control byte:
    `(its bytes, what it decodes to, remaining input)` -/
def tokSpec : List UInt8 → Option (List UInt8 × List UInt8 × List UInt8)
  | [] => none
  | x :: l' =>
    if x == 92 then
      (match l' with
        | [] => none
        | e :: t2 =>
          if e == 117 then uSpec t2
          else if isSimpleEscape e then some ([92, e], [simpleEscape e], t2) else none)
    else some ([x], [x], l')

theorem uSpec_split (t2 T out l'' : List UInt8) (h : uSpec t2 = some (T, out, l'')) : 92 :: 117 :: t2 = T ++ l'' := by
  simp only [uSpec] at h
  split at h
  · split at h
    · injection h with h; injection h with h1 h2; injection h2 with h2 h3
      subst h1 h3
      simp
    · cases h
  · cases h

theorem tokSpec_split (l T out l'' : List UInt8) (h : tokSpec l = some (T, out, l'')) : l = T ++ l'' ∧ T ≠ [] := by
  cases l with
  | nil => simp [tokSpec] at h
  | cons x l' =>
    simp only [tokSpec] at h
    split at h
    · next hx =>
      have hx' : x = 92 := by simpa using hx
      subst hx'
      cases l' with
      | nil => simp at h
      | cons e t2 =>
        simp only [] at h
        split at h
        · next he =>
          have he' : e = 117 := by simpa using he
          subst he'
          have := uSpec_split t2 T out l'' h
          refine ⟨this, ?_⟩
          intro hT; subst hT
          simp only [uSpec] at h
          split at h
          · split at h
            · injection h with h; injection h with h1 _; cases h1
            · cases h
          · cases h
        · split at h
          · injection h with h; injection h with h1 h2; injection h2 with h2 h3
            subst h1 h3
            exact ⟨rfl, by simp⟩
          · cases h
    · injection h with h; injection h with h1 h2; injection h2 with h2 h3
      subst h1 h3
      exact ⟨rfl, by simp⟩

theorem all_take4 (a b c d : UInt8) (rest : List UInt8) :
    ((a :: b :: c :: d :: rest).take 4).all isHex = (isHex a && isHex b && isHex c && isHex d) := by
  simp [Bool.and_assoc]

/-- the scanner over one token -/
theorem scan_tok (l : List UInt8) (x : UInt8) (l' : List UInt8) (hl : l = x :: l') (h34 : x ≠ 34) (hc : ¬ x < 32) :
    scanStringBody l =
      match tokSpec l with
      | some (_, _, l'') => scanStringBody l''
      | none => none := by
  subst hl
  by_cases h92 : x = 92
  · subst h92
    cases l' with
    | nil => simp [tokSpec, scanStringBody]
    | cons e t2 =>
      by_cases hu : e = 117
      · subst hu
        rw [scanStringBody_u]
        simp only [tokSpec, beq_self_eq_true, if_true]
        match t2 with
        | [] => simp [uSpec]
        | [_] => simp [uSpec]
        | [_, _] => simp [uSpec]
        | [_, _, _] => simp [uSpec]
        | a :: b :: c :: d :: rest =>
          have hlen : 4 ≤ (a :: b :: c :: d :: rest).length := by simp
          simp only [hlen, true_and, all_take4, uSpec]
          by_cases hx : (isHex a && isHex b && isHex c && isHex d) = true
          · simp only [hx, if_true, List.drop_succ_cons, List.drop_zero]
            rcases uniStep_consumed a b c d rest with h6 | ⟨h12, v, hv⟩
            · rw [h6]; rfl
            · obtain ⟨a2, b2, c2, d2, rest5, hr5, ha2, hb2, hc2, hd2⟩ := getu4L_some rest v hv
              rw [h12, hr5, scanStringBody_u]
              have hlen2 : 4 ≤ (a2 :: b2 :: c2 :: d2 :: rest5).length := by simp
              simp [hlen2, ha2, hb2, hc2, hd2]
          · simp [hx]
      · rw [scanStringBody_esc e t2 hu]
        have hu' : (e == 117) = false := by simpa using hu
        simp only [tokSpec, beq_self_eq_true, if_true, hu', Bool.false_eq_true, if_false]
        split <;> rfl
  · rw [scanStringBody_plain x l' h34 h92]
    have h92' : (x == 92) = false := by simpa using h92
    simp [tokSpec, h92', hc]

theorem escByte_simple (k : SKind) (e : UInt8) (h : isSimpleEscape e = true) : escByte k e = some (simpleEscape e) := by
  have hall : allBelow (fun n => !(isSimpleEscape (UInt8.ofNat n)) ||
      (decide (escByte .append (UInt8.ofNat n) = some (simpleEscape (UInt8.ofNat n))) &&
       decide (escByte .unescape (UInt8.ofNat n) = some (simpleEscape (UInt8.ofNat n))))) 256 = true := by decide +kernel
  have := forall_byte (P := fun e => !(isSimpleEscape e) ||
      (decide (escByte .append e = some (simpleEscape e)) && decide (escByte .unescape e = some (simpleEscape e)))) hall e
  simp only [h, Bool.not_true, Bool.false_or, Bool.and_eq_true, decide_eq_true_eq] at this
  cases k
  · exact this.1
  · exact this.2

theorem escByte_append_none (e : UInt8) (h : isSimpleEscape e = false) : escByte .append e = none := by
  have hall : allBelow (fun n => isSimpleEscape (UInt8.ofNat n) || decide (escByte .append (UInt8.ofNat n) = none)) 256 = true := by
    decide +kernel
  have := forall_byte (P := fun e => isSimpleEscape e || decide (escByte .append e = none)) hall e
  simpa [h] using this

theorem esc_not_final (k : SKind) : (smachine k).eof .esc = [.errReturn .invalidString] := by cases k <;> rfl

/-- the machine over one token -/
theorem tok_run {τ} (k : SKind) (data : Bytes) (h : Handler τ) (hsm : Small data) (x : UInt8) (l' : List UInt8)
    (h34 : x ≠ 34) (hc : ¬ x < 32) (pend : Option UInt8) (fuel p : Nat) (r : Regs τ)
    (hat : At data p (x :: l')) (hp : r.p = p) (hf : (x :: l').length + 1 ≤ fuel) (hpk : PendOK data r pend) :
    match tokSpec (x :: l') with
    | some (T, out, l'') => ∃ (fuel' : Nat) (pend' : Option UInt8) (r' : Regs τ), l''.length + 1 ≤ fuel' ∧
        At data (p + T.length) l'' ∧ r'.p = ((p + T.length : Nat) : Int) ∧ PendOK data r' pend' ∧ r'.err = r.err ∧
        r'.dst ++ (pendL pend').toArray = r.dst ++ (pendL pend).toArray ++ out.toArray ∧
        contL (smachine k) data h fuel (stOf pend) [] r = contL (smachine k) data h fuel' (stOf pend') [] r'
    | none => k = .append → IsErrS (contL (smachine k) data h fuel (stOf pend) [] r) := by
  obtain ⟨hb, hlt, hat'⟩ := hat.cons_inv
  have hb' : getByte data r.p = some x := by rw [hp]; exact hb
  obtain ⟨fuel, rfl⟩ : ∃ f, fuel = f + 1 := ⟨fuel - 1, by omega⟩
  have hlen' := hat'.length
  simp only [List.length_cons] at hf
  have h34' : (x == 34) = false := by simpa using h34
  have hw : wrap64 (r.p + 1) = ((p + 1 : Nat) : Int) := by
    rw [hp, wrap64_id] <;> (unfold Small at hsm; omega)
  rw [contL_cons (smachine k) data h _ _ _ r p x l' hp hat, loopL_succ (smachine k) data h fuel _ [] r x hb', sstep_main]
  by_cases h92 : x = 92
  · subst h92
    simp only [h34', Bool.false_eq_true, if_false, beq_self_eq_true, if_true, exec_leave_seg k data h pend r hpk]
    simp only [hw]
    have hrp : ({ r with dst := r.dst ++ (pendL pend).toArray, seg := r.p, p := ((p + 1 : Nat) : Int) } : Regs τ).p = ((p + 1 : Nat) : Int) := rfl
    cases l' with
    | nil =>
      simp only [tokSpec, beq_self_eq_true, if_true]
      intro _
      have := hat'.nil_inv
      have hend : (((p + 1 : Nat) : Int) == (data.size : Int)) = true := by simp; omega
      simp only [hend, if_true, esc_not_final]
      exact ⟨_, rfl⟩
    | cons e t2 =>
      obtain ⟨hbe, hlte, hat2⟩ := hat'.cons_inv
      have hlen2 := hat2.length
      simp only [List.length_cons] at hf hlen'
      have hend : (((p + 1 : Nat) : Int) == (data.size : Int)) = false := by simp; omega
      obtain ⟨fuel, rfl⟩ : ∃ f, fuel = f + 1 := ⟨fuel - 1, by omega⟩
      simp only [hend, Bool.false_eq_true, if_false]
      by_cases hu : e = 117
      · subst hu
        have hstep : (smachine k).step .esc 117 = ([], some (.u 0)) := by simp [smachine, sstep]
        rw [loopL_goto (smachine k) data h fuel _ _ [] _ (p + 1) 117 t2 hsm rfl hat' hstep]
        simp only [tokSpec, beq_self_eq_true, if_true]
        cases hus : uSpec t2 with
        | none =>
          simp only []
          intro _
          apply u_fail k data h hsm 4 0 rfl t2 _ fuel (p + 1 + 1) _ hat2 rfl (by omega)
          intro hcond
          match t2, hus, hcond with
          | a :: b :: c :: d :: rest, hus, hcond =>
            rw [all_take4] at hcond
            simp [uSpec, hcond.2] at hus
        | some tr =>
          obtain ⟨T, out, l''⟩ := tr
          simp only []
          match t2, hus, hat2, hlen2, hat' with
          | a :: b :: c :: d :: rest, hus, hat2, hlen2, hat' =>
            simp only [uSpec] at hus
            by_cases hx : (isHex a && isHex b && isHex c && isHex d) = true
            · simp only [hx, if_true] at hus
              injection hus with hus; injection hus with hT hus; injection hus with hout hl''
              simp only [Bool.and_eq_true] at hx
              simp only [List.length_cons] at hlen2 hf
              obtain ⟨f2, hf2, hat2', he2⟩ := u_ok k data h hsm p a b c d rest hat hx.1.1.1 hx.1.1.2 hx.1.2 hx.2 fuel
                ({ r with dst := r.dst ++ (pendL pend).toArray, seg := r.p, p := ((p + 1 + 1 : Nat) : Int) } : Regs τ) rfl hp (by omega)
              have hTlen : T.length = (uniStep a b c d rest).2 := by
                rw [← hT]
                simp only [List.length_cons, List.length_take]
                rcases uniStep_consumed a b c d rest with h6 | ⟨h12, v, hv⟩
                · rw [h6]; simp
                · obtain ⟨a2, b2, c2, d2, rest5, hr5, _⟩ := getu4L_some rest v hv
                  rw [h12, hr5]; simp
              refine ⟨f2, none,
                ({ r with dst := r.dst ++ (pendL pend).toArray ++ (uniStep a b c d rest).1.toArray, seg := r.p,
                          p := ((p + (uniStep a b c d rest).2 : Nat) : Int) } : Regs τ),
                by rw [← hl'']; exact hf2, by rw [← hl'', hTlen]; exact hat2', ?_, trivial, rfl, ?_, he2⟩
              · rw [hTlen]
              · simp only [pendL, ← hout]
                simp
            · simp [hx] at hus
      · have hu' : (e == 117) = false := by simpa using hu
        simp only [tokSpec, beq_self_eq_true, if_true, hu', Bool.false_eq_true, if_false]
        have hbe' : getByte data ((p + 1 : Nat) : Int) = some e := hbe
        by_cases hse : isSimpleEscape e = true
        · simp only [hse, if_true]
          have hstep : (smachine k).step .esc e = ([.s (.appendByte (simpleEscape e))], some .start) := by
            simp [smachine, sstep, hu', escByte_simple k e hse]
          rw [loopL_succ (smachine k) data h fuel _ [] _ e hbe', hstep]
          simp only [execActsL, SAct.isHandler, Bool.false_and, Bool.false_eq_true, if_false, execSimple]
          have hw2 : wrap64 (((p + 1 : Nat) : Int) + 1) = ((p + 2 : Nat) : Int) := by
            rw [wrap64_id] <;> (unfold Small at hsm; omega)
          simp only [hw2]
          refine ⟨fuel, none,
            ({ r with dst := (r.dst ++ (pendL pend).toArray).push (simpleEscape e), seg := r.p, p := ((p + 2 : Nat) : Int) } : Regs τ),
            by omega, hat2, rfl, trivial, rfl, ?_, rfl⟩
          simp [pendL]
        · have hse' : isSimpleEscape e = false := by simpa using hse
          simp only [hse', Bool.false_eq_true, if_false]
          intro hk
          subst hk
          have hstep : (smachine .append).step .esc e = serr := by
            simp [smachine, sstep, hu', escByte_append_none e hse']
          exact serr_stops .append data h fuel _ _ e hbe' hstep
  · have h92' : (x == 92) = false := by simpa using h92
    have hc' : ¬ (x < 32) := hc
    simp only [h34', h92', hc', Bool.false_eq_true, if_false, exec_leave_seg k data h pend r hpk, tokSpec, hw]
    refine ⟨fuel, some x,
      ({ r with dst := r.dst ++ (pendL pend).toArray, seg := r.p, p := ((p + 1 : Nat) : Int) } : Regs τ),
      by omega, hat', rfl, ?_, rfl, ?_, rfl⟩
    · simp only [PendOK, hp]
      have := slice_at hat (p + 1) (by omega) (by omega)
      simpa using this
    · simp [pendL]

/-! ## `decodeString` over one token -/

theorem not_hex_34 : isHex 34 = false := by decide

theorem getu4L_six (x0 x1 x2 x3 x4 x5 : UInt8) (t : List UInt8) :
    getu4L (x0 :: x1 :: x2 :: x3 :: x4 :: x5 :: t) =
      if x0 == 92 && x1 == 117 && (isHex x2 && isHex x3 && isHex x4 && isHex x5) then some (hex4 x2 x3 x4 x5) else none := by
  cases hg : getu4L (x0 :: x1 :: x2 :: x3 :: x4 :: x5 :: t) with
  | some v =>
    obtain ⟨a, b, c, d, rest, hl, ha, hb, hc, hd⟩ := getu4L_some _ v hg
    injection hl with h0 hl; injection hl with h1 hl; injection hl with h2 hl; injection hl with h3 hl
    injection hl with h4 hl; injection hl with h5 hl
    subst h0 h1 h2 h3 h4 h5
    simp only [getu4L, ha, hb, hc, hd, Bool.and_self, if_true] at hg
    simp [ha, hb, hc, hd, hg]
  | none =>
    by_cases hc : (x0 == 92 && x1 == 117 && (isHex x2 && isHex x3 && isHex x4 && isHex x5)) = true
    · simp only [Bool.and_eq_true, beq_iff_eq] at hc
      obtain ⟨⟨h0, h1⟩, ⟨⟨h2, h3⟩, h4⟩, h5⟩ := hc
      subst h0 h1
      simp [getu4L, h2, h3, h4, h5] at hg
    · simp [hc]

/-- a closing quote within the first six bytes stops the look-ahead for a second escape -/
theorem getu4L_append_quote (B X : List UInt8) : getu4L (B ++ 34 :: X) = getu4L B := by
  have short : ∀ (B : List UInt8), B.length < 6 → getu4L (B ++ 34 :: X) = none := by
    intro B hB
    cases hg : getu4L (B ++ 34 :: X) with
    | none => rfl
    | some v =>
      obtain ⟨a, b, c, d, rest, hl, ha, hb, hc, hd⟩ := getu4L_some _ v hg
      match B, hB, hl with
      | [], _, hl => injection hl with h0 _; exact absurd h0 (by decide)
      | [_], _, hl => injection hl with _ hl; injection hl with h1 _; exact absurd h1 (by decide)
      | [_, _], _, hl =>
        injection hl with _ hl; injection hl with _ hl; injection hl with h2 _
        subst h2; simp [not_hex_34] at ha
      | [_, _, _], _, hl =>
        injection hl with _ hl; injection hl with _ hl; injection hl with _ hl; injection hl with h2 _
        subst h2; simp [not_hex_34] at hb
      | [_, _, _, _], _, hl =>
        injection hl with _ hl; injection hl with _ hl; injection hl with _ hl; injection hl with _ hl; injection hl with h2 _
        subst h2; simp [not_hex_34] at hc
      | [_, _, _, _, _], _, hl =>
        injection hl with _ hl; injection hl with _ hl; injection hl with _ hl; injection hl with _ hl; injection hl with _ hl
        injection hl with h2 _
        subst h2; simp [not_hex_34] at hd
      | _ :: _ :: _ :: _ :: _ :: _ :: _, hB, _ => simp at hB; omega
  have short2 : ∀ (B : List UInt8), B.length < 6 → getu4L B = none := by
    intro B hB
    cases hg : getu4L B with
    | none => rfl
    | some v =>
      obtain ⟨a, b, c, d, rest, hl, _⟩ := getu4L_some _ v hg
      rw [hl] at hB
      simp at hB
      omega
  by_cases hB : B.length < 6
  · rw [short B hB, short2 B hB]
  · match B, hB with
    | x0 :: x1 :: x2 :: x3 :: x4 :: x5 :: t, _ =>
      simp only [List.cons_append]
      rw [getu4L_six, getu4L_six]
    | [], hB => simp at hB
    | [_], hB => simp at hB
    | [_, _], hB => simp at hB
    | [_, _, _], hB => simp at hB
    | [_, _, _, _], hB => simp at hB
    | [_, _, _, _, _], hB => simp at hB

theorem uniStep_congr (a b c d : UInt8) (r1 r2 : List UInt8) (h : getu4L r1 = getu4L r2) :
    uniStep a b c d r1 = uniStep a b c d r2 := by
  simp only [uniStep, h]

theorem dec_tok (l T out l'' B X : List UInt8) (ht : tokSpec l = some (T, out, l'')) (hl'' : l'' = B ++ 34 :: X) (F : Nat) :
    decodeString (F + 1) (T ++ B) = out ++ decodeString F B := by
  cases l with
  | nil => simp [tokSpec] at ht
  | cons x l' =>
    simp only [tokSpec] at ht
    split at ht
    · next hx =>
      cases l' with
      | nil => simp at ht
      | cons e t2 =>
        simp only [] at ht
        split at ht
        · -- unicode escape
          match t2, ht with
          | a :: b :: c :: d :: rest, ht =>
            simp only [uSpec] at ht
            split at ht
            · injection ht with ht; injection ht with hT ht; injection ht with hout hdrop
              subst hT hout
              have hrest : rest = rest.take ((uniStep a b c d rest).2 - 6) ++ (B ++ 34 :: X) := by
                rw [← hl'', ← hdrop, List.take_append_drop]
              have hg : getu4L (rest.take ((uniStep a b c d rest).2 - 6) ++ B) = getu4L rest := by
                rcases uniStep_consumed a b c d rest with h6 | ⟨h12, v, hv⟩
                · rw [h6] at hrest ⊢
                  simp only [Nat.sub_self, List.take_zero, List.nil_append] at hrest ⊢
                  rw [hrest, getu4L_append_quote]
                · obtain ⟨a2, b2, c2, d2, rest5, hr5, _, _, _, _⟩ := getu4L_some rest v hv
                  rw [h12, hr5]
                  simp [getu4L]
              have hcongr := uniStep_congr a b c d _ _ hg
              simp only [List.cons_append]
              rw [decodeString_u, hcongr]
              congr 2
              rcases uniStep_consumed a b c d rest with h6 | ⟨h12, v, hv⟩
              · rw [h6]; simp
              · obtain ⟨a2, b2, c2, d2, rest5, hr5, _, _, _, _⟩ := getu4L_some rest v hv
                rw [h12, hr5]; simp
            · cases ht
          | [], ht => simp [uSpec] at ht
          | [_], ht => simp [uSpec] at ht
          | [_, _], ht => simp [uSpec] at ht
          | [_, _, _], ht => simp [uSpec] at ht
        · next he =>
          split at ht
          · injection ht with ht; injection ht with hT ht; injection ht with hout _
            subst hT hout
            have hx' : x = 92 := by simpa using hx
            subst hx'
            have he' : e ≠ 117 := by simpa using he
            simp only [List.cons_append, List.nil_append]
            rw [decodeString_esc F e B he']
          · cases ht
    · next hx =>
      injection ht with ht; injection ht with hT ht; injection ht with hout _
      subst hT hout
      have hx' : x ≠ 92 := by simpa using hx
      simp only [List.cons_append, List.nil_append]
      rw [decodeString_plain F x B hx']

theorem uSpec_some (t T out l2 : List UInt8) (h : uSpec t = some (T, out, l2)) :
    ∃ a b c d rest, t = a :: b :: c :: d :: rest ∧ isHex a = true ∧ isHex b = true ∧ isHex c = true ∧ isHex d = true ∧
      T = 92 :: 117 :: a :: b :: c :: d :: rest.take ((uniStep a b c d rest).2 - 6) ∧ out = (uniStep a b c d rest).1 ∧
      l2 = rest.drop ((uniStep a b c d rest).2 - 6) := by
  simp only [uSpec] at h
  split at h
  · next a b c d rest =>
    split at h
    · next hx =>
      simp only [Bool.and_eq_true] at hx
      injection h with h; injection h with h1 h; injection h with h2 h3
      exact ⟨a, b, c, d, rest, rfl, hx.1.1.1, hx.1.1.2, hx.1.2, hx.2, h1.symm, h2.symm, h3.symm⟩
    · cases h
  · cases h

/-- the first token of a body that is followed by its closing quote lies inside the body -/
theorem tok_snoc (x : UInt8) (l' X T out l2 : List UInt8) (ht : tokSpec (x :: (l' ++ 34 :: X)) = some (T, out, l2))
    (hs : scanStringBody l2 = some X) :
    ∃ B, l2 = B ++ 34 :: X ∧ tokSpec (x :: l') = some (T, out, B) := by
  simp only [tokSpec] at ht ⊢
  by_cases hx : (x == 92) = true
  · simp only [hx, if_true] at ht ⊢
    cases l' with
    | nil =>
      -- `\"`: the quote would be escaped, and nothing closes the string
      simp only [List.nil_append] at ht
      have h1 : ((34 : UInt8) == 117) = false := by decide
      have h2 : isSimpleEscape 34 = true := by decide
      simp only [h1, Bool.false_eq_true, if_false, h2, if_true] at ht
      injection ht with ht; injection ht with _ ht; injection ht with _ hl2
      subst hl2
      have := scanStringBody_length_lt _ _ hs
      omega
    | cons e t2 =>
      simp only [List.cons_append] at ht ⊢
      by_cases he : (e == 117) = true
      · simp only [he, if_true] at ht ⊢
        -- the four hex digits cannot reach the quote
        obtain ⟨a, b, c, d, rest, ht2, ha, hb, hc, hd, hT, hout, hl2⟩ := uSpec_some _ _ _ _ ht
        match t2, ht2 with
        | [], ht2 => injection ht2 with h1 _; subst h1; simp [not_hex_34] at ha
        | [_], ht2 => injection ht2 with _ ht2; injection ht2 with h1 _; subst h1; simp [not_hex_34] at hb
        | [_, _], ht2 =>
          injection ht2 with _ ht2; injection ht2 with _ ht2; injection ht2 with h1 _; subst h1; simp [not_hex_34] at hc
        | [_, _, _], ht2 =>
          injection ht2 with _ ht2; injection ht2 with _ ht2; injection ht2 with _ ht2; injection ht2 with h1 _
          subst h1; simp [not_hex_34] at hd
        | a' :: b' :: c' :: d' :: restL, ht2 =>
          injection ht2 with h1 ht2; injection ht2 with h2 ht2; injection ht2 with h3 ht2; injection ht2 with h4 hrest
          subst h1 h2 h3 h4
          have hrest' : rest = restL ++ 34 :: X := hrest.symm
          subst hrest'
          have hcg := uniStep_congr a' b' c' d' _ _ (getu4L_append_quote restL X)
          rw [hcg] at hT hout hl2
          simp only [uSpec, ha, hb, hc, hd, Bool.and_self, if_true]
          rcases uniStep_consumed a' b' c' d' restL with h6 | ⟨h12, v, hv⟩
          · rw [h6] at hT hl2 ⊢
            simp only [Nat.sub_self, List.take_zero, List.drop_zero] at hT hl2 ⊢
            exact ⟨restL, hl2, by rw [hT, hout]⟩
          · obtain ⟨a2, b2, c2, d2, rest5, hr5, _, _, _, _⟩ := getu4L_some restL v hv
            rw [h12, hr5] at hT hl2 ⊢
            refine ⟨rest5, by rw [hl2]; simp, ?_⟩
            rw [hT, hout]
            simp [hr5]
      · simp only [he, Bool.false_eq_true, if_false] at ht ⊢
        split at ht
        · next hse =>
          injection ht with ht; injection ht with hT ht; injection ht with hout hl2
          simp only [hse, if_true]
          exact ⟨t2, hl2.symm, by rw [hT, hout]⟩
        · cases ht
  · simp only [hx, Bool.false_eq_true, if_false] at ht ⊢
    injection ht with ht; injection ht with hT ht; injection ht with hout hl2
    subst hT; subst hout
    exact ⟨l', hl2.symm, rfl⟩

theorem append_eof (pend : Option UInt8) : (smachine .append).eof (stOf pend) = [.errReturn .invalidString] := by
  cases pend <;> rfl

/-- **the `appendRemainderOfString` machine decodes a string body** -/
theorem append_run {τ} (data : Bytes) (hsm : Small data) (h : Handler τ) :
    ∀ (n : Nat) (l : List UInt8), l.length ≤ n → ∀ (pend : Option UInt8) (fuel p : Nat) (r : Regs τ), At data p l → r.p = p →
      l.length + 1 ≤ fuel → PendOK data r pend → r.err = none →
      match scanStringBody l with
      | some rest => ∃ body, l = body ++ 34 :: rest ∧ ∀ F, body.length + 1 ≤ F →
          (contL (smachine .append) data h fuel (stOf pend) [] r).kind = .ok ∧
          (contL (smachine .append) data h fuel (stOf pend) [] r).p = ((data.size - rest.length : Nat) : Int) ∧
          (contL (smachine .append) data h fuel (stOf pend) [] r).dst = r.dst ++ (pendL pend ++ decodeString F body).toArray
      | none => IsErrS (contL (smachine .append) data h fuel (stOf pend) [] r) := by
  intro n
  induction n with
  | zero =>
    intro l hl pend fuel p r hat hp hf hpk herr
    have : l = [] := List.length_eq_zero_iff.mp (by omega)
    subst this
    simp only [scanStringBody]
    rw [contL_nil (smachine .append) data h _ _ _ r p hp hat]
    exact eof_err .append data h _ r (append_eof pend)
  | succ n ih =>
    intro l hl pend fuel p r hat hp hf hpk herr
    cases l with
    | nil =>
      simp only [scanStringBody]
      rw [contL_nil (smachine .append) data h _ _ _ r p hp hat]
      exact eof_err .append data h _ r (append_eof pend)
    | cons x l' =>
      obtain ⟨hb, hlt, hat'⟩ := hat.cons_inv
      have hb' : getByte data r.p = some x := by rw [hp]; exact hb
      have hlen' := hat'.length
      simp only [List.length_cons] at hl hf
      by_cases h34 : x = 34
      · subst h34
        have hs : scanStringBody (34 :: l') = some l' := by simp [scanStringBody]
        rw [hs]
        refine ⟨[], rfl, ?_⟩
        intro F _
        obtain ⟨fuel, rfl⟩ : ∃ f, fuel = f + 1 := ⟨fuel - 1, by omega⟩
        have hw : wrap64 (r.p + 1) = ((p + 1 : Nat) : Int) := by
          rw [hp, wrap64_id] <;> (unfold Small at hsm; omega)
        rw [contL_cons (smachine .append) data h _ _ _ r p 34 l' hp hat, loopL_succ (smachine .append) data h fuel _ [] r 34 hb', sstep_main]
        simp only [beq_self_eq_true, if_true, exec_leave .append data h pend r hpk, hw]
        have := done_finish data h fuel (p + 1) ({ r with dst := r.dst ++ (pendL pend).toArray, p := ((p + 1 : Nat) : Int) } : Regs τ) l' hat' rfl (by omega)
        have hcl : (if (({ r with dst := r.dst ++ (pendL pend).toArray, p := ((p + 1 : Nat) : Int) } : Regs τ).p == (data.size : Int)) = true then
              runEof data (smachine .append).hasField h ((smachine .append).eof .done) { r with dst := r.dst ++ (pendL pend).toArray, p := ((p + 1 : Nat) : Int) }
            else loopL (smachine .append) data h fuel .done [] { r with dst := r.dst ++ (pendL pend).toArray, p := ((p + 1 : Nat) : Int) }) =
            contL (smachine .append) data h fuel .done [] { r with dst := r.dst ++ (pendL pend).toArray, p := ((p + 1 : Nat) : Int) } := rfl
        rw [hcl, this]
        refine ⟨by simp [Regs.finish, herr], ?_, ?_⟩
        · simp only [Regs.finish]; omega
        · simp [Regs.finish, decodeString_nil]
      · by_cases hc : x < 32
        · have h92 : x ≠ 92 := by intro hh; subst hh; exact absurd hc (by decide)
          rw [scanStringBody_plain x l' h34 h92]
          simp only [hc, if_true]
          obtain ⟨fuel, rfl⟩ : ∃ f, fuel = f + 1 := ⟨fuel - 1, by omega⟩
          rw [contL_cons (smachine .append) data h _ _ _ r p x l' hp hat]
          apply serr_stops .append data h fuel _ r x hb'
          rw [sstep_main]
          have h34' : (x == 34) = false := by simpa using h34
          have h92' : (x == 92) = false := by simpa using h92
          simp [h34', h92', hc]
        · rw [scan_tok (x :: l') x l' rfl h34 hc]
          have key := tok_run .append data h hsm x l' h34 hc pend fuel p r hat hp (by simp only [List.length_cons]; omega) hpk
          cases hts : tokSpec (x :: l') with
          | none =>
            rw [hts] at key
            exact key rfl
          | some tr =>
            obtain ⟨T, out, l''⟩ := tr
            rw [hts] at key
            simp only [] at key ⊢
            obtain ⟨f2, pend2, r2, hf2, hat2, hp2, hpk2, herr2, hdst2, he2⟩ := key
            obtain ⟨hsplit, hTne⟩ := tokSpec_split _ _ _ _ hts
            have hTlen : 0 < T.length := List.length_pos_iff.mpr hTne
            have hl2 : l''.length ≤ n := by
              have := congrArg List.length hsplit
              simp only [List.length_cons, List.length_append] at this
              omega
            have ih2 := ih l'' hl2 pend2 f2 (p + T.length) r2 hat2 hp2 hf2 hpk2 (by rw [herr2]; exact herr)
            rw [he2]
            cases hs2 : scanStringBody l'' with
            | none => rw [hs2] at ih2; exact ih2
            | some rest =>
              rw [hs2] at ih2
              simp only [] at ih2 ⊢
              obtain ⟨body2, hb2, hres⟩ := ih2
              refine ⟨T ++ body2, by rw [hsplit, hb2]; simp, ?_⟩
              intro F hF
              obtain ⟨F, rfl⟩ : ∃ f, F = f + 1 := ⟨F - 1, by simp only [List.length_append] at hF; omega⟩
              obtain ⟨hk, hpp, hd⟩ := hres F (by simp only [List.length_append] at hF; omega)
              refine ⟨hk, hpp, ?_⟩
              rw [hd, dec_tok _ _ _ _ body2 rest hts hb2 F]
              have : r2.dst ++ (pendL pend2 ++ decodeString F body2).toArray =
                  (r2.dst ++ (pendL pend2).toArray) ++ (decodeString F body2).toArray := by simp
              rw [this, hdst2]
              simp

/-- a string body that is followed by its closing quote -/
def WFBody (l : List UInt8) : Prop := ∃ X, scanStringBody (l ++ 34 :: X) = some X

/-- **the `unescapeStringContent` machine on the bytes between the quotes of a well-formed string**: all of them are
    consumed and the result is `Spec.decodeString` -/
theorem unescape_run {τ} (data : Bytes) (hsm : Small data) (h : Handler τ) :
    ∀ (n : Nat) (l : List UInt8), l.length ≤ n → ∀ (pend : Option UInt8) (fuel p : Nat) (r : Regs τ), At data p l → r.p = p →
      l.length + 1 ≤ fuel → PendOK data r pend → r.err = none → WFBody l →
      (contL (smachine .unescape) data h fuel (stOf pend) [] r).kind = .ok ∧
      (contL (smachine .unescape) data h fuel (stOf pend) [] r).p = (data.size : Int) ∧
      ∀ F, l.length + 1 ≤ F →
        (contL (smachine .unescape) data h fuel (stOf pend) [] r).dst = r.dst ++ (pendL pend ++ decodeString F l).toArray := by
  intro n
  induction n with
  | zero =>
    intro l hl pend fuel p r hat hp hf hpk herr _
    have : l = [] := List.length_eq_zero_iff.mp (by omega)
    subst this
    have hpe := hat.nil_inv
    rw [contL_nil (smachine .unescape) data h _ _ _ r p hp hat]
    cases pend with
    | none =>
      refine ⟨by simp [smachine, seof, stOf, runEof, Regs.finish, herr], by simp [smachine, seof, stOf, runEof, Regs.finish, hp, hpe], ?_⟩
      intro F _
      simp [smachine, seof, stOf, runEof, Regs.finish, pendL, decodeString_nil]
    | some x =>
      simp only [PendOK] at hpk
      have hx : execSimple data (smachine .unescape).hasField h .appendSeg r = .cont { r with dst := r.dst ++ #[x] } := by
        simp only [execSimple, hpk]
      have he : (smachine .unescape).eof (stOf (some x)) = [.appendSeg] := rfl
      rw [he]
      simp only [runEof, hx]
      refine ⟨by simp [Regs.finish, herr], by simp [Regs.finish, hp, hpe], ?_⟩
      intro F _
      simp [Regs.finish, pendL, decodeString_nil]
  | succ n ih =>
    intro l hl pend fuel p r hat hp hf hpk herr hwf
    cases l with
    | nil => exact ih [] (by simp) pend fuel p r hat hp hf hpk herr hwf
    | cons x l' =>
      obtain ⟨X, hX⟩ := hwf
      simp only [List.cons_append] at hX
      simp only [List.length_cons] at hl hf
      have h34 : x ≠ 34 := by
        intro hh; subst hh
        simp only [scanStringBody] at hX
        injection hX with hX
        have := congrArg List.length hX
        simp at this
        omega
      have hc : ¬ x < 32 := by
        intro hc
        have h92 : x ≠ 92 := by intro hh; subst hh; exact absurd hc (by decide)
        rw [scanStringBody_plain x _ h34 h92] at hX
        simp [hc] at hX
      rw [scan_tok (x :: (l' ++ 34 :: X)) x _ rfl h34 hc] at hX
      cases hts : tokSpec (x :: (l' ++ 34 :: X)) with
      | none => rw [hts] at hX; cases hX
      | some tr =>
        obtain ⟨T, out, l2⟩ := tr
        rw [hts] at hX
        simp only [] at hX
        obtain ⟨B, hl2, htb⟩ := tok_snoc x l' X T out l2 hts hX
        have key := tok_run .unescape data h hsm x l' h34 hc pend fuel p r hat hp (by simp only [List.length_cons]; omega) hpk
        rw [htb] at key
        simp only [] at key
        obtain ⟨f2, pend2, r2, hf2, hat2, hp2, hpk2, herr2, hdst2, he2⟩ := key
        obtain ⟨hsplit, hTne⟩ := tokSpec_split _ _ _ _ htb
        have hTlen : 0 < T.length := List.length_pos_iff.mpr hTne
        have hlB : B.length ≤ n := by
          have := congrArg List.length hsplit
          simp only [List.length_cons, List.length_append] at this
          omega
        have ih2 := ih B hlB pend2 f2 (p + T.length) r2 hat2 hp2 hf2 hpk2 (by rw [herr2]; exact herr) ⟨X, by rw [← hl2]; exact hX⟩
        rw [he2]
        obtain ⟨hk, hpp, hd⟩ := ih2
        refine ⟨hk, hpp, ?_⟩
        intro F hF
        obtain ⟨F, rfl⟩ : ∃ f, F = f + 1 := ⟨F - 1, by simp only [List.length_cons] at hF; omega⟩
        have hlen : (x :: l').length = T.length + B.length := by rw [hsplit]; simp
        rw [hd F (by simp only [List.length_cons] at hF hlen; omega), hsplit, dec_tok _ _ _ _ B X hts hl2 F]
        have : r2.dst ++ (pendL pend2 ++ decodeString F B).toArray =
            (r2.dst ++ (pendL pend2).toArray) ++ (decodeString F B).toArray := by simp
        rw [this, hdst2]
        simp

end RJson.StrMachine
