import RJson.Spec.Float
import Mathlib.Tactic.Linarith
import Mathlib.Tactic.Positivity
import Mathlib.Tactic.FieldSimp
import Mathlib.Tactic.NormNum
import Mathlib.Tactic.Ring
import Mathlib.Algebra.Order.Field.Power
import Mathlib.Data.Rat.Defs
/-!
# What `Spec.roundRat` computes, in terms of the rational `n / d`

`roundRat` chooses the binary exponent with `Nat.log2` and one correction step.  Here: the exponent it chooses is
*the* exponent `e` for which `⌊(n/d) / 2^e⌋` has 53 bits (when that exponent is at least -1074), so `roundRat` is a
function of the rational value only, and a caller that knows the 53-bit quotient and how the remainder compares
with one half knows the result.
-/
namespace RJson.RoundRat
open RJson.Spec

/-- `q` is the integer part of `x / 2^e` -/
def IsQ (x : ℚ) (e : ℤ) (q : ℕ) : Prop := (q : ℚ) * 2 ^ e ≤ x ∧ x < ((q : ℚ) + 1) * 2 ^ e

/-- how the remainder compares with one half: the code `divPow2` returns -/
def IsC (x : ℚ) (e : ℤ) (q c : ℕ) : Prop :=
  (c = 0 ∧ x = (q : ℚ) * 2 ^ e) ∨ (c = 1 ∧ (q : ℚ) * 2 ^ e < x ∧ x < ((q : ℚ) + 1 / 2) * 2 ^ e) ∨
  (c = 2 ∧ x = ((q : ℚ) + 1 / 2) * 2 ^ e) ∨ (c = 3 ∧ ((q : ℚ) + 1 / 2) * 2 ^ e < x)

theorem two_zpow_pos (e : ℤ) : (0 : ℚ) < 2 ^ e := by positivity

theorem isQ_unique {x : ℚ} {e : ℤ} {q q' : ℕ} (h : IsQ x e q) (h' : IsQ x e q') : q = q' := by
  have hp := two_zpow_pos e
  have h1 : (q : ℚ) * 2 ^ e < ((q' : ℚ) + 1) * 2 ^ e := lt_of_le_of_lt h.1 h'.2
  have h2 : (q' : ℚ) * 2 ^ e < ((q : ℚ) + 1) * 2 ^ e := lt_of_le_of_lt h'.1 h.2
  have h1' : (q : ℚ) < (q' : ℚ) + 1 := lt_of_mul_lt_mul_right h1 hp.le
  have h2' : (q' : ℚ) < (q : ℚ) + 1 := lt_of_mul_lt_mul_right h2 hp.le
  have a : q < q' + 1 := by exact_mod_cast h1'
  have b : q' < q + 1 := by exact_mod_cast h2'
  omega

theorem isC_unique {x : ℚ} {e : ℤ} {q c c' : ℕ} (h : IsC x e q c) (h' : IsC x e q c') : c = c' := by
  have hp := two_zpow_pos e
  have hlt : (q : ℚ) * 2 ^ e < ((q : ℚ) + 1 / 2) * 2 ^ e := by
    apply mul_lt_mul_of_pos_right _ hp; linarith
  rcases h with ⟨rfl, a⟩ | ⟨rfl, a, a'⟩ | ⟨rfl, a⟩ | ⟨rfl, a⟩ <;>
  rcases h' with ⟨rfl, b⟩ | ⟨rfl, b, b'⟩ | ⟨rfl, b⟩ | ⟨rfl, b⟩ <;> first | rfl | (exfalso; linarith)

/-- `divPow2` computes the integer part and the comparison with one half -/
theorem divPow2_spec (n d : ℕ) (hd : 0 < d) (e : ℤ) :
    IsQ ((n : ℚ) / d) e (divPow2 n d e).1 ∧ IsC ((n : ℚ) / d) e (divPow2 n d e).1 (divPow2 n d e).2 := by
  -- the natural numbers `num`, `den` with `num / den = (n / d) / 2^e`
  have key : ∀ (num den : ℕ), 0 < den → (num : ℚ) / den = (n : ℚ) / d / 2 ^ e →
      let q := num / den
      let r := num % den
      let c := if r == 0 then 0 else if 2 * r < den then 1 else if 2 * r == den then 2 else 3
      IsQ ((n : ℚ) / d) e q ∧ IsC ((n : ℚ) / d) e q c := by
    intro num den hden hx
    simp only []
    have hp := two_zpow_pos e
    have hdenQ : (0 : ℚ) < den := by exact_mod_cast hden
    have hdm : (num : ℚ) = ((num / den : ℕ) : ℚ) * den + ((num % den : ℕ) : ℚ) := by
      have := Nat.div_add_mod num den
      have h2 : ((den * (num / den) + num % den : ℕ) : ℚ) = (num : ℚ) := by exact_mod_cast congrArg (Nat.cast (R := ℚ)) this
      push_cast at h2
      linarith
    have hr : ((num % den : ℕ) : ℚ) < den := by exact_mod_cast Nat.mod_lt num hden
    have hr0 : (0 : ℚ) ≤ ((num % den : ℕ) : ℚ) := by positivity
    -- x = (q + r/den) * 2^e
    have hxe : (n : ℚ) / d = (((num / den : ℕ) : ℚ) + ((num % den : ℕ) : ℚ) / den) * 2 ^ e := by
      have h1 : (n : ℚ) / d = (num : ℚ) / den * 2 ^ e := by
        rw [hx]; field_simp
      rw [h1, hdm]
      field_simp
    have hfr : (0 : ℚ) ≤ ((num % den : ℕ) : ℚ) / den := by positivity
    have hfr1 : ((num % den : ℕ) : ℚ) / den < 1 := by rw [div_lt_one hdenQ]; exact hr
    constructor
    · constructor
      · rw [hxe]; apply mul_le_mul_of_nonneg_right _ hp.le; linarith
      · rw [hxe]; apply mul_lt_mul_of_pos_right _ hp; linarith
    · by_cases h0 : num % den = 0
      · left
        simp only [h0, beq_self_eq_true, if_true, true_and]
        rw [hxe, h0]; simp
      · have h0' : (num % den == 0) = false := by simpa using h0
        simp only [h0', Bool.false_eq_true, if_false]
        have hrpos : (0 : ℚ) < ((num % den : ℕ) : ℚ) := by
          have : 0 < num % den := Nat.pos_of_ne_zero h0
          exact_mod_cast this
        by_cases h1 : 2 * (num % den) < den
        · right; left
          simp only [h1, if_true, true_and]
          have h1q : (2 : ℚ) * ((num % den : ℕ) : ℚ) < den := by exact_mod_cast h1
          constructor
          · rw [hxe]; apply mul_lt_mul_of_pos_right _ hp
            have : (0 : ℚ) < ((num % den : ℕ) : ℚ) / den := by positivity
            linarith
          · rw [hxe]; apply mul_lt_mul_of_pos_right _ hp
            have : ((num % den : ℕ) : ℚ) / den < 1 / 2 := by
              rw [div_lt_iff₀ hdenQ]; linarith
            linarith
        · simp only [h1, if_false]
          by_cases h2 : 2 * (num % den) = den
          · right; right; left
            have h2' : (2 * (num % den) == den) = true := by simpa using h2
            simp only [h2', if_true, true_and]
            have h2q : (2 : ℚ) * ((num % den : ℕ) : ℚ) = den := by exact_mod_cast h2
            rw [hxe]
            have : ((num % den : ℕ) : ℚ) / den = 1 / 2 := by
              rw [div_eq_iff hdenQ.ne']; linarith
            rw [this]
          · right; right; right
            have h2' : (2 * (num % den) == den) = false := by simpa using h2
            simp only [h2', Bool.false_eq_true, if_false, true_and]
            have h3 : den < 2 * (num % den) := by omega
            have h3q : (den : ℚ) < 2 * ((num % den : ℕ) : ℚ) := by exact_mod_cast h3
            rw [hxe]; apply mul_lt_mul_of_pos_right _ hp
            have : (1 : ℚ) / 2 < ((num % den : ℕ) : ℚ) / den := by
              rw [lt_div_iff₀ hdenQ]; linarith
            linarith
  have hdQ : (0 : ℚ) < d := by exact_mod_cast hd
  by_cases he : e < 0
  · have h := key (n * 2 ^ (-e).toNat) d hd (by
      push_cast
      have : (2 : ℚ) ^ (-e).toNat = (2 ^ e)⁻¹ := by
        rw [← zpow_natCast, Int.toNat_of_nonneg (by omega), zpow_neg]
      rw [this]; field_simp)
    simpa only [divPow2, he, if_true] using h
  · have h := key n (d * 2 ^ e.toNat) (by positivity) (by
      push_cast
      have : (2 : ℚ) ^ e.toNat = 2 ^ e := by
        rw [← zpow_natCast, Int.toNat_of_nonneg (by omega)]
      rw [this]; field_simp)
    simpa only [divPow2, he, if_false] using h

/-- the binary exponent `roundRat` works at -/
def expOf (n d : ℕ) : ℤ :=
  let k : ℤ := (Nat.log2 n : ℤ) - (Nat.log2 d : ℤ)
  let e0 : ℤ := k - 52
  let q0 := (divPow2 n d e0).1
  let e1 : ℤ := if q0 ≥ 2^53 then e0 + 1 else if q0 < 2^52 then e0 - 1 else e0
  if e1 < -1074 then -1074 else e1

/-- rounding and packing once the exponent is fixed -/
def roundAt (neg : Bool) (qc : ℕ × ℕ) (e : ℤ) : ℕ × Bool :=
  let m := roundHalfEven qc.1 qc.2
  let me : ℕ × ℤ := if m == 2^53 then (2^52, e + 1) else (m, e)
  if me.1 < 2^52 then (signBit neg + me.1, false)
  else
    let biased : ℤ := me.2 + 1075
    if biased ≥ 2047 then (signBit neg + 2047 * 2^52, true)
    else (signBit neg + biased.toNat * 2^52 + (me.1 - 2^52), false)

theorem roundRat_unfold (neg : Bool) (n d : ℕ) (hn : n ≠ 0) (hd : d ≠ 0) :
    roundRat neg n d = roundAt neg (divPow2 n d (expOf n d)) (expOf n d) := by
  have hn' : (n == 0) = false := by simpa using hn
  have hd' : (d == 0) = false := by simpa using hd
  simp only [roundRat, hn', hd', Bool.or_self, Bool.false_eq_true, if_false, roundAt, expOf]
  rfl

theorem zpow_two_lt {a b : ℤ} (h : (2 : ℚ) ^ a < 2 ^ b) : a < b := by
  by_contra hh
  have : b ≤ a := by omega
  have := zpow_le_zpow_right₀ (a := (2 : ℚ)) (by norm_num) this
  linarith

/-- `n / d` lies strictly between `2^(k-1)` and `2^(k+1)` for `k = log2 n - log2 d` -/
theorem log2_bounds (n d : ℕ) (hn : n ≠ 0) (hd : d ≠ 0) :
    (2 : ℚ) ^ ((Nat.log2 n : ℤ) - (Nat.log2 d : ℤ) - 1) < (n : ℚ) / d ∧
    (n : ℚ) / d < 2 ^ ((Nat.log2 n : ℤ) - (Nat.log2 d : ℤ) + 1) := by
  have hdQ : (0 : ℚ) < d := by exact_mod_cast Nat.pos_of_ne_zero hd
  have h1 : ((2 ^ Nat.log2 n : ℕ) : ℚ) ≤ n := by exact_mod_cast Nat.log2_self_le hn
  have h2 : (n : ℚ) < ((2 ^ (Nat.log2 n + 1) : ℕ) : ℚ) := by exact_mod_cast Nat.lt_log2_self
  have h3 : ((2 ^ Nat.log2 d : ℕ) : ℚ) ≤ d := by exact_mod_cast Nat.log2_self_le hd
  have h4 : (d : ℚ) < ((2 ^ (Nat.log2 d + 1) : ℕ) : ℚ) := by exact_mod_cast Nat.lt_log2_self
  push_cast at h1 h2 h3 h4
  have hpd : (0 : ℚ) < 2 ^ Nat.log2 d := by positivity
  constructor
  · -- 2^(ln - ld - 1) = 2^ln / 2^(ld+1) < n / d
    have e1 : (2 : ℚ) ^ ((Nat.log2 n : ℤ) - (Nat.log2 d : ℤ) - 1) = 2 ^ Nat.log2 n / 2 ^ (Nat.log2 d + 1) := by
      rw [show ((Nat.log2 n : ℤ) - (Nat.log2 d : ℤ) - 1) = (Nat.log2 n : ℤ) - ((Nat.log2 d + 1 : ℕ) : ℤ) by push_cast; ring]
      rw [zpow_sub₀ (by norm_num), zpow_natCast, zpow_natCast]
    rw [e1, div_lt_div_iff₀ (by positivity) hdQ]
    calc (2 : ℚ) ^ Nat.log2 n * d < 2 ^ Nat.log2 n * 2 ^ (Nat.log2 d + 1) := by
          apply mul_lt_mul_of_pos_left h4; positivity
      _ ≤ n * 2 ^ (Nat.log2 d + 1) := by
          apply mul_le_mul_of_nonneg_right h1; positivity
  · have e2 : (2 : ℚ) ^ ((Nat.log2 n : ℤ) - (Nat.log2 d : ℤ) + 1) = 2 ^ (Nat.log2 n + 1) / 2 ^ Nat.log2 d := by
      rw [show ((Nat.log2 n : ℤ) - (Nat.log2 d : ℤ) + 1) = ((Nat.log2 n + 1 : ℕ) : ℤ) - (Nat.log2 d : ℤ) by push_cast; ring]
      rw [zpow_sub₀ (by norm_num), zpow_natCast, zpow_natCast]
    rw [e2, div_lt_div_iff₀ hdQ hpd]
    calc (n : ℚ) * 2 ^ Nat.log2 d < 2 ^ (Nat.log2 n + 1) * 2 ^ Nat.log2 d := by
          apply mul_lt_mul_of_pos_right h2 hpd
      _ ≤ 2 ^ (Nat.log2 n + 1) * d := by
          apply mul_le_mul_of_nonneg_left h3; positivity

/-- a 53-bit quotient pins the value between two powers of two -/
theorem isQ_normal_bounds {x : ℚ} {e : ℤ} {q : ℕ} (h : IsQ x e q) (h52 : 2 ^ 52 ≤ q) (h53 : q < 2 ^ 53) :
    (2 : ℚ) ^ (52 + e) ≤ x ∧ x < 2 ^ (53 + e) := by
  have hp := two_zpow_pos e
  have a : ((2 ^ 52 : ℕ) : ℚ) ≤ q := by exact_mod_cast h52
  have b : (q : ℚ) + 1 ≤ ((2 ^ 53 : ℕ) : ℚ) := by exact_mod_cast h53
  push_cast at a b
  constructor
  · rw [zpow_add₀ (by norm_num)]
    calc (2 : ℚ) ^ (52 : ℤ) * 2 ^ e = 2 ^ 52 * 2 ^ e := by norm_cast
      _ ≤ q * 2 ^ e := mul_le_mul_of_nonneg_right a hp.le
      _ ≤ x := h.1
  · rw [zpow_add₀ (by norm_num)]
    calc x < ((q : ℚ) + 1) * 2 ^ e := h.2
      _ ≤ 2 ^ 53 * 2 ^ e := mul_le_mul_of_nonneg_right b hp.le
      _ = (2 : ℚ) ^ (53 : ℤ) * 2 ^ e := by norm_cast

/-- **the exponent `roundRat` chooses is the one at which the quotient has 53 bits**, clamped at -1074 -/
theorem expOf_eq' (n d : ℕ) (hn : n ≠ 0) (hd : d ≠ 0) (e : ℤ)
    (h52 : 2 ^ 52 ≤ (divPow2 n d e).1) (h53 : (divPow2 n d e).1 < 2 ^ 53) :
    expOf n d = if e < -1074 then -1074 else e := by
  have hdpos : 0 < d := Nat.pos_of_ne_zero hd
  obtain ⟨lo, hi⟩ := log2_bounds n d hn hd
  obtain ⟨xlo, xhi⟩ := isQ_normal_bounds (divPow2_spec n d hdpos e).1 h52 h53
  -- e is k - 52 or k - 53
  have c1 : (Nat.log2 n : ℤ) - (Nat.log2 d : ℤ) - 1 < 53 + e := zpow_two_lt (lt_trans lo xhi)
  have c2 : 52 + e < (Nat.log2 n : ℤ) - (Nat.log2 d : ℤ) + 1 := zpow_two_lt (lt_of_le_of_lt xlo hi)
  simp only [expOf]
  generalize hk : (Nat.log2 n : ℤ) - (Nat.log2 d : ℤ) = k at c1 c2 ⊢
  have hcases : e = k - 52 ∨ e = k - 52 - 1 := by omega
  rcases hcases with h | h
  · rw [← h]
    have n53 : ¬ (divPow2 n d e).1 ≥ 2 ^ 53 := by omega
    have n52 : ¬ (divPow2 n d e).1 < 2 ^ 52 := by omega
    simp only [n53, n52, if_false]
  · -- the quotient one exponent higher has 52 bits
    have hq0 := (divPow2_spec n d hdpos (k - 52)).1
    have hx : (n : ℚ) / d < 2 ^ (52 + (k - 52)) := by
      have : 53 + e = 52 + (k - 52) := by omega
      rw [← this]; exact xhi
    have hp := two_zpow_pos (k - 52)
    have hlt : ((divPow2 n d (k - 52)).1 : ℚ) < 2 ^ 52 := by
      have h1 : ((divPow2 n d (k - 52)).1 : ℚ) * 2 ^ (k - 52) < 2 ^ 52 * 2 ^ (k - 52) := by
        calc ((divPow2 n d (k - 52)).1 : ℚ) * 2 ^ (k - 52) ≤ (n : ℚ) / d := hq0.1
          _ < 2 ^ (52 + (k - 52)) := hx
          _ = 2 ^ 52 * 2 ^ (k - 52) := by rw [zpow_add₀ (by norm_num)]; norm_cast
      exact lt_of_mul_lt_mul_right h1 hp.le
    have hltN : (divPow2 n d (k - 52)).1 < 2 ^ 52 := by exact_mod_cast hlt
    have n53 : ¬ (divPow2 n d (k - 52)).1 ≥ 2 ^ 53 := by omega
    simp only [n53, hltN, if_false, if_true]
    rw [← h]

theorem expOf_eq (n d : ℕ) (hn : n ≠ 0) (hd : d ≠ 0) (e : ℤ) (he : -1074 ≤ e)
    (h52 : 2 ^ 52 ≤ (divPow2 n d e).1) (h53 : (divPow2 n d e).1 < 2 ^ 53) : expOf n d = e := by
  rw [expOf_eq' n d hn hd e h52 h53]
  have : ¬ e < -1074 := by omega
  simp only [this, if_false]

/-- **`roundRat` at a known normal exponent** -/
theorem roundRat_at (neg : Bool) (n d : ℕ) (hn : n ≠ 0) (hd : d ≠ 0) (e : ℤ) (he : -1074 ≤ e)
    (h52 : 2 ^ 52 ≤ (divPow2 n d e).1) (h53 : (divPow2 n d e).1 < 2 ^ 53) :
    roundRat neg n d = roundAt neg (divPow2 n d e) e := by
  rw [roundRat_unfold neg n d hn hd, expOf_eq n d hn hd e he h52 h53]

/-- the same, from what a caller knows about the rational value -/
theorem roundRat_of_isQ (neg : Bool) (n d : ℕ) (hn : n ≠ 0) (hd : d ≠ 0) (e : ℤ) (he : -1074 ≤ e) (q c : ℕ)
    (hq : IsQ ((n : ℚ) / d) e q) (hc : IsC ((n : ℚ) / d) e q c) (h52 : 2 ^ 52 ≤ q) (h53 : q < 2 ^ 53) :
    roundRat neg n d = roundAt neg (q, c) e := by
  obtain ⟨sq, sc⟩ := divPow2_spec n d (Nat.pos_of_ne_zero hd) e
  have e1 : (divPow2 n d e).1 = q := isQ_unique sq hq
  rw [e1] at sc
  have e2 : (divPow2 n d e).2 = c := isC_unique sc hc
  have : divPow2 n d e = (q, c) := Prod.ext e1 e2
  rw [roundRat_at neg n d hn hd e he (by rw [e1]; exact h52) (by rw [e1]; exact h53), this]

/-! ## one bit fewer -/

theorem two_zpow_succ (e : ℤ) : (2 : ℚ) ^ (e + 1) = 2 * 2 ^ e := by
  rw [zpow_add_one₀ (by norm_num)]; ring

theorem cast_div_two (q : ℕ) : (q : ℚ) = 2 * ((q / 2 : ℕ) : ℚ) + ((q % 2 : ℕ) : ℚ) := by
  have := Nat.div_add_mod q 2
  have h2 : ((2 * (q / 2) + q % 2 : ℕ) : ℚ) = (q : ℚ) := by exact_mod_cast congrArg (Nat.cast (R := ℚ)) this
  push_cast at h2
  linarith

theorem isQ_halve {x : ℚ} {e : ℤ} {q : ℕ} (h : IsQ x e q) : IsQ x (e + 1) (q / 2) := by
  have hp := two_zpow_pos e
  have hq := cast_div_two q
  have hb : ((q % 2 : ℕ) : ℚ) ≤ 1 := by
    have : q % 2 ≤ 1 := by omega
    exact_mod_cast this
  have hb0 : (0 : ℚ) ≤ ((q % 2 : ℕ) : ℚ) := by positivity
  obtain ⟨h1, h2⟩ := h
  rw [hq] at h1 h2
  constructor
  · rw [two_zpow_succ]
    calc ((q / 2 : ℕ) : ℚ) * (2 * 2 ^ e) = (2 * ((q / 2 : ℕ) : ℚ)) * 2 ^ e := by ring
      _ ≤ (2 * ((q / 2 : ℕ) : ℚ) + ((q % 2 : ℕ) : ℚ)) * 2 ^ e := by
          apply mul_le_mul_of_nonneg_right _ hp.le; linarith
      _ ≤ x := h1
  · rw [two_zpow_succ]
    calc x < (2 * ((q / 2 : ℕ) : ℚ) + ((q % 2 : ℕ) : ℚ) + 1) * 2 ^ e := h2
      _ ≤ (2 * ((q / 2 : ℕ) : ℚ) + 2) * 2 ^ e := by
          apply mul_le_mul_of_nonneg_right _ hp.le; linarith
      _ = (((q / 2 : ℕ) : ℚ) + 1) * (2 * 2 ^ e) := by ring

/-- the comparison with one half after dropping the last bit `b` of the quotient -/
theorem isC_halve {x : ℚ} {e : ℤ} {q : ℕ} (h : IsQ x e q) :
    IsC x (e + 1) (q / 2)
      (if q % 2 = 0 then (if x = (q : ℚ) * 2 ^ e then 0 else 1) else (if x = (q : ℚ) * 2 ^ e then 2 else 3)) := by
  have hp := two_zpow_pos e
  have hq := cast_div_two q
  obtain ⟨h1, h2⟩ := h
  by_cases hb : q % 2 = 0
  · have hb' : ((q % 2 : ℕ) : ℚ) = 0 := by rw [hb]; simp
    rw [hb', add_zero] at hq
    simp only [hb, if_true]
    by_cases hx : x = (q : ℚ) * 2 ^ e
    · simp only [hx, if_true]
      left
      refine ⟨rfl, ?_⟩
      rw [two_zpow_succ, hq]; ring
    · simp only [hx, if_false]
      right; left
      refine ⟨rfl, ?_, ?_⟩
      · rw [two_zpow_succ]
        have : ((q / 2 : ℕ) : ℚ) * (2 * 2 ^ e) = (q : ℚ) * 2 ^ e := by rw [hq]; ring
        rw [this]; exact lt_of_le_of_ne h1 (Ne.symm hx)
      · rw [two_zpow_succ]
        have : (((q / 2 : ℕ) : ℚ) + 1 / 2) * (2 * 2 ^ e) = ((q : ℚ) + 1) * 2 ^ e := by rw [hq]; ring
        rw [this]; exact h2
  · have hb1 : q % 2 = 1 := by omega
    have hb' : ((q % 2 : ℕ) : ℚ) = 1 := by rw [hb1]; simp
    rw [hb'] at hq
    simp only [hb, if_false]
    have hmid : (((q / 2 : ℕ) : ℚ) + 1 / 2) * (2 * 2 ^ e) = (q : ℚ) * 2 ^ e := by rw [hq]; ring
    by_cases hx : x = (q : ℚ) * 2 ^ e
    · simp only [hx, if_true]
      right; right; left
      refine ⟨rfl, ?_⟩
      rw [two_zpow_succ, hmid]
    · simp only [hx, if_false]
      right; right; right
      refine ⟨rfl, ?_⟩
      rw [two_zpow_succ, hmid]
      exact lt_of_le_of_ne h1 (Ne.symm hx)

/-- a value just below the smallest normal number that rounds up to it -/
theorem roundRat_min_normal (neg : Bool) (n d : ℕ) (hn : n ≠ 0) (hd : d ≠ 0)
    (hq : IsQ ((n : ℚ) / d) (-1075) (2 ^ 53 - 1)) (hx : (n : ℚ) / d ≠ ((2 ^ 53 - 1 : ℕ) : ℚ) * 2 ^ (-1075 : ℤ)) :
    roundRat neg n d = (signBit neg + 2 ^ 52, false) := by
  have hdpos := Nat.pos_of_ne_zero hd
  -- 53 bits at -1075, so the exponent is clamped to -1074
  obtain ⟨sq, _⟩ := divPow2_spec n d hdpos (-1075)
  have e1 : (divPow2 n d (-1075)).1 = 2 ^ 53 - 1 := isQ_unique sq hq
  have hexp : expOf n d = -1074 := by
    rw [expOf_eq' n d hn hd (-1075) (by rw [e1]; norm_num) (by rw [e1]; norm_num)]
    simp
  have hq' : IsQ ((n : ℚ) / d) (-1075 + 1) ((2 ^ 53 - 1) / 2) := isQ_halve hq
  have hc' := isC_halve hq
  have hodd : (2 ^ 53 - 1) % 2 = 1 := by norm_num
  simp only [hodd, hx, if_false] at hc'
  have hodd' : ¬ (1 = 0) := by omega
  simp only [hodd', if_false] at hc'
  have e74 : (-1075 : ℤ) + 1 = -1074 := by norm_num
  rw [e74] at hq' hc'
  obtain ⟨sq2, sc2⟩ := divPow2_spec n d hdpos (-1074)
  have f1 : (divPow2 n d (-1074)).1 = (2 ^ 53 - 1) / 2 := isQ_unique sq2 hq'
  rw [f1] at sc2
  have f2 : (divPow2 n d (-1074)).2 = 3 := isC_unique sc2 hc'
  have hdp : divPow2 n d (-1074) = ((2 ^ 53 - 1) / 2, 3) := Prod.ext f1 f2
  rw [roundRat_unfold neg n d hn hd, hexp, hdp]
  simp only [roundAt, roundHalfEven]
  norm_num

/-! ## `roundRat` is a function of the rational value -/

theorem signBit_false : signBit false = 0 := rfl

theorem roundAt_sign (neg : Bool) (qc : ℕ × ℕ) (e : ℤ) :
    roundAt neg qc e = (signBit neg + (roundAt false qc e).1, (roundAt false qc e).2) := by
  simp only [roundAt, signBit_false, Nat.zero_add]
  generalize (if (roundHalfEven qc.1 qc.2 == 2 ^ 53) = true then ((2 ^ 52 : ℕ), e + 1) else (roundHalfEven qc.1 qc.2, e)) = me
  by_cases h1 : me.1 < 2 ^ 52
  · simp only [h1, if_true]
  · simp only [h1, if_false]
    by_cases h2 : me.2 + 1075 ≥ 2047
    · simp only [h2, if_true]
    · simp only [h2, if_false, Nat.add_assoc]

/-- the sign only sets the top bit -/
theorem roundRat_sign (neg : Bool) (n d : ℕ) :
    roundRat neg n d = (signBit neg + (roundRat false n d).1, (roundRat false n d).2) := by
  by_cases hn : n = 0
  · subst hn; simp [roundRat, signBit_false]
  · by_cases hd : d = 0
    · subst hd; simp [roundRat, signBit_false]
    · rw [roundRat_unfold neg n d hn hd, roundRat_unfold false n d hn hd]
      exact roundAt_sign neg _ _

/-- the exponent before clamping -/
def expPre (n d : ℕ) : ℤ :=
  let k : ℤ := (Nat.log2 n : ℤ) - (Nat.log2 d : ℤ)
  let e0 : ℤ := k - 52
  let q0 := (divPow2 n d e0).1
  if q0 ≥ 2^53 then e0 + 1 else if q0 < 2^52 then e0 - 1 else e0

theorem expOf_pre (n d : ℕ) : expOf n d = if expPre n d < -1074 then -1074 else expPre n d := rfl

/-- at the exponent `roundRat` picks (before clamping) the quotient has exactly 53 bits -/
theorem expPre_spec (n d : ℕ) (hn : n ≠ 0) (hd : d ≠ 0) :
    2 ^ 52 ≤ (divPow2 n d (expPre n d)).1 ∧ (divPow2 n d (expPre n d)).1 < 2 ^ 53 := by
  have hdpos : 0 < d := Nat.pos_of_ne_zero hd
  obtain ⟨lo, hi⟩ := log2_bounds n d hn hd
  simp only [expPre]
  generalize hk : (Nat.log2 n : ℤ) - (Nat.log2 d : ℤ) = k at lo hi ⊢
  have hq0 := (divPow2_spec n d hdpos (k - 52)).1
  have hp := two_zpow_pos (k - 52)
  -- x < 2^53 · 2^(k-52), x > 2^51 · 2^(k-52)
  have hx53 : (n : ℚ) / d < 2 ^ 53 * 2 ^ (k - 52) := by
    have : (2 : ℚ) ^ (k + 1) = 2 ^ 53 * 2 ^ (k - 52) := by
      rw [show k + 1 = (53 : ℤ) + (k - 52) by ring, zpow_add₀ (by norm_num)]; norm_cast
    rw [← this]; exact hi
  have hx51 : (2 : ℚ) ^ 51 * 2 ^ (k - 52) < (n : ℚ) / d := by
    have : (2 : ℚ) ^ (k - 1) = 2 ^ 51 * 2 ^ (k - 52) := by
      rw [show k - 1 = (51 : ℤ) + (k - 52) by ring, zpow_add₀ (by norm_num)]; norm_cast
    rw [← this]; exact lo
  have hq53 : (divPow2 n d (k - 52)).1 < 2 ^ 53 := by
    have h1 : ((divPow2 n d (k - 52)).1 : ℚ) * 2 ^ (k - 52) < 2 ^ 53 * 2 ^ (k - 52) := lt_of_le_of_lt hq0.1 hx53
    have := lt_of_mul_lt_mul_right h1 hp.le
    exact_mod_cast this
  have n53 : ¬ (divPow2 n d (k - 52)).1 ≥ 2 ^ 53 := by omega
  simp only [n53, if_false]
  by_cases h52 : (divPow2 n d (k - 52)).1 < 2 ^ 52
  · simp only [h52, if_true]
    -- one exponent lower
    have hq1 := (divPow2_spec n d hdpos (k - 52 - 1)).1
    have hp1 := two_zpow_pos (k - 52 - 1)
    have hpe : (2 : ℚ) ^ (k - 52) = 2 * 2 ^ (k - 52 - 1) := by
      rw [show k - 52 = (k - 52 - 1) + 1 by ring, two_zpow_succ]
      simp
    have hxlt : (n : ℚ) / d < 2 ^ 52 * 2 ^ (k - 52) := by
      have hb : ((divPow2 n d (k - 52)).1 : ℚ) + 1 ≤ 2 ^ 52 := by exact_mod_cast h52
      calc (n : ℚ) / d < (((divPow2 n d (k - 52)).1 : ℚ) + 1) * 2 ^ (k - 52) := hq0.2
        _ ≤ 2 ^ 52 * 2 ^ (k - 52) := mul_le_mul_of_nonneg_right hb hp.le
    constructor
    · -- x > 2^51 · 2 · 2^(e0-1) = 2^52 · 2^(e0-1)
      have h1 : (2 : ℚ) ^ 52 * 2 ^ (k - 52 - 1) < (((divPow2 n d (k - 52 - 1)).1 : ℚ) + 1) * 2 ^ (k - 52 - 1) := by
        calc (2 : ℚ) ^ 52 * 2 ^ (k - 52 - 1) = 2 ^ 51 * (2 * 2 ^ (k - 52 - 1)) := by ring
          _ = 2 ^ 51 * 2 ^ (k - 52) := by rw [hpe]
          _ < (n : ℚ) / d := hx51
          _ < _ := hq1.2
      have := lt_of_mul_lt_mul_right h1 hp1.le
      have h2 : (2 ^ 52 : ℕ) < (divPow2 n d (k - 52 - 1)).1 + 1 := by exact_mod_cast this
      omega
    · have h1 : ((divPow2 n d (k - 52 - 1)).1 : ℚ) * 2 ^ (k - 52 - 1) < 2 ^ 53 * 2 ^ (k - 52 - 1) := by
        calc ((divPow2 n d (k - 52 - 1)).1 : ℚ) * 2 ^ (k - 52 - 1) ≤ (n : ℚ) / d := hq1.1
          _ < 2 ^ 52 * 2 ^ (k - 52) := hxlt
          _ = 2 ^ 52 * (2 * 2 ^ (k - 52 - 1)) := by rw [hpe]
          _ = 2 ^ 53 * 2 ^ (k - 52 - 1) := by ring
      have := lt_of_mul_lt_mul_right h1 hp1.le
      exact_mod_cast this
  · simp only [h52, if_false]
    exact ⟨by omega, hq53⟩

/-- the normal exponent is determined by the value -/
theorem normal_exp_unique {x : ℚ} {e e' : ℤ} {q q' : ℕ} (h : IsQ x e q) (h' : IsQ x e' q')
    (a : 2 ^ 52 ≤ q) (b : q < 2 ^ 53) (a' : 2 ^ 52 ≤ q') (b' : q' < 2 ^ 53) : e = e' := by
  obtain ⟨l1, u1⟩ := isQ_normal_bounds h a b
  obtain ⟨l2, u2⟩ := isQ_normal_bounds h' a' b'
  have c1 : 52 + e < 53 + e' := zpow_two_lt (lt_of_le_of_lt l1 u2)
  have c2 : 52 + e' < 53 + e := zpow_two_lt (lt_of_le_of_lt l2 u1)
  omega

/-- **`roundRat` depends only on the rational value** -/
theorem roundRat_congr (neg : Bool) (n d n' d' : ℕ) (hn : n ≠ 0) (hd : d ≠ 0) (hn' : n' ≠ 0) (hd' : d' ≠ 0)
    (hv : (n : ℚ) / d = (n' : ℚ) / d') : roundRat neg n d = roundRat neg n' d' := by
  have hdp := Nat.pos_of_ne_zero hd
  have hdp' := Nat.pos_of_ne_zero hd'
  obtain ⟨a, b⟩ := expPre_spec n d hn hd
  obtain ⟨a', b'⟩ := expPre_spec n' d' hn' hd'
  have hq := (divPow2_spec n d hdp (expPre n d)).1
  have hq' := (divPow2_spec n' d' hdp' (expPre n' d')).1
  rw [← hv] at hq'
  have he : expPre n d = expPre n' d' := normal_exp_unique hq hq' a b a' b'
  have hE : expOf n d = expOf n' d' := by rw [expOf_pre, expOf_pre, he]
  rw [roundRat_unfold neg n d hn hd, roundRat_unfold neg n' d' hn' hd', ← hE]
  -- the same quotient and remainder class at the same exponent
  obtain ⟨s1, c1⟩ := divPow2_spec n d hdp (expOf n d)
  obtain ⟨s2, c2⟩ := divPow2_spec n' d' hdp' (expOf n d)
  rw [← hv] at s2 c2
  have e1 : (divPow2 n d (expOf n d)).1 = (divPow2 n' d' (expOf n d)).1 := isQ_unique s1 s2
  rw [← e1] at c2
  have e2 : (divPow2 n d (expOf n d)).2 = (divPow2 n' d' (expOf n d)).2 := isC_unique c1 c2
  rw [Prod.ext e1 e2]

/-- **`roundRat` in the subnormal range**: the quotient at exponent -1074 has fewer than 53 bits -/
theorem roundRat_sub (neg : Bool) (n d : ℕ) (hn : n ≠ 0) (hd : d ≠ 0) (q c : ℕ)
    (hq : IsQ ((n : ℚ) / d) (-1074) q) (hc : IsC ((n : ℚ) / d) (-1074) q c) (h52 : q < 2 ^ 52) :
    roundRat neg n d = roundAt neg (q, c) (-1074) := by
  have hdp := Nat.pos_of_ne_zero hd
  obtain ⟨a, b⟩ := expPre_spec n d hn hd
  have hqp := (divPow2_spec n d hdp (expPre n d)).1
  obtain ⟨l, _⟩ := isQ_normal_bounds hqp a b
  -- x < 2^52 · 2^-1074, so the 53-bit exponent is below -1074
  have hp := two_zpow_pos (-1074)
  have hx : (n : ℚ) / d < 2 ^ (52 + (-1074 : ℤ)) := by
    have hb : (q : ℚ) + 1 ≤ 2 ^ 52 := by exact_mod_cast h52
    calc (n : ℚ) / d < ((q : ℚ) + 1) * 2 ^ (-1074 : ℤ) := hq.2
      _ ≤ 2 ^ 52 * 2 ^ (-1074 : ℤ) := mul_le_mul_of_nonneg_right hb hp.le
      _ = 2 ^ (52 + (-1074 : ℤ)) := by rw [zpow_add₀ (by norm_num)]; norm_cast
  have hlt : 52 + expPre n d < 52 + (-1074 : ℤ) := zpow_two_lt (lt_of_le_of_lt l hx)
  have hE : expOf n d = -1074 := by
    rw [expOf_pre, if_pos (by omega)]
  obtain ⟨sq, sc⟩ := divPow2_spec n d hdp (-1074)
  have e1 : (divPow2 n d (-1074)).1 = q := isQ_unique sq hq
  rw [e1] at sc
  have e2 : (divPow2 n d (-1074)).2 = c := isC_unique sc hc
  have hpair : divPow2 n d (-1074) = (q, c) := Prod.ext e1 e2
  rw [roundRat_unfold neg n d hn hd, hE, hpair]

theorem rhe_le (q c : ℕ) : q ≤ roundHalfEven q c ∧ roundHalfEven q c ≤ q + 1 := by
  simp only [roundHalfEven]
  split
  · omega
  · split
    · split <;> omega
    · omega

/-- **at or beyond `2^1024` the result is the overflow** -/
theorem roundRat_overflow (neg : Bool) (n d : ℕ) (hn : n ≠ 0) (hd : d ≠ 0) (hx : (2 : ℚ) ^ (1024 : ℤ) ≤ (n : ℚ) / d) :
    roundRat neg n d = (signBit neg + 2047 * 2 ^ 52, true) := by
  obtain ⟨a, b⟩ := expPre_spec n d hn hd
  have hq := (divPow2_spec n d (Nat.pos_of_ne_zero hd) (expPre n d)).1
  obtain ⟨_, u⟩ := isQ_normal_bounds hq a b
  have hlt : (1024 : ℤ) < 53 + expPre n d := zpow_two_lt (lt_of_le_of_lt hx u)
  have hE : expOf n d = expPre n d := by
    rw [expOf_pre, if_neg (by omega)]
  rw [roundRat_unfold neg n d hn hd, hE]
  obtain ⟨r1, r2⟩ := rhe_le (divPow2 n d (expPre n d)).1 (divPow2 n d (expPre n d)).2
  simp only [roundAt]
  generalize roundHalfEven (divPow2 n d (expPre n d)).1 (divPow2 n d (expPre n d)).2 = M at r1 r2
  by_cases hc : M = 2 ^ 53
  · rw [if_pos (beq_iff_eq.mpr hc)]
    simp only []
    rw [if_neg (Nat.lt_irrefl _), if_pos (by omega)]
  · have hcb : ¬ ((M == 2 ^ 53) = true) := by simpa using hc
    rw [if_neg hcb]
    simp only []
    rw [if_neg (by omega), if_pos (by omega)]

/-- **below `2^-1075` (half the smallest subnormal) the result is zero** -/
theorem roundRat_zero (neg : Bool) (n d : ℕ) (hn : n ≠ 0) (hd : d ≠ 0) (hx : (n : ℚ) / d < 2 ^ (-1075 : ℤ)) :
    roundRat neg n d = (signBit neg, false) := by
  have hpos : (0 : ℚ) < (n : ℚ) / d := by
    have h1 : (0 : ℚ) < n := by exact_mod_cast Nat.pos_of_ne_zero hn
    have h2 : (0 : ℚ) < d := by exact_mod_cast Nat.pos_of_ne_zero hd
    positivity
  have hhalf : ((0 : ℕ) : ℚ) + 1 / 2 = 1 / 2 := by norm_num
  have h75 : (1 / 2 : ℚ) * 2 ^ (-1074 : ℤ) = 2 ^ (-1075 : ℤ) := by
    have : (2 : ℚ) ^ (-1074 : ℤ) = 2 ^ (-1075 : ℤ) * 2 := by
      rw [show (-1074 : ℤ) = -1075 + 1 by norm_num, zpow_add₀ (by norm_num)]; simp
    rw [this]; ring
  have hq : IsQ ((n : ℚ) / d) (-1074) 0 := by
    constructor
    · simp; exact hpos.le
    · simp only [Nat.cast_zero, zero_add, one_mul]
      have : (2 : ℚ) ^ (-1075 : ℤ) ≤ 2 ^ (-1074 : ℤ) := zpow_le_zpow_right₀ (by norm_num) (by norm_num)
      linarith
  have hc : IsC ((n : ℚ) / d) (-1074) 0 1 := by
    right; left
    refine ⟨rfl, by simpa using hpos, ?_⟩
    rw [hhalf, h75]; exact hx
  rw [roundRat_sub neg n d hn hd 0 1 hq hc (by norm_num)]
  simp [roundAt, roundHalfEven]

end RJson.RoundRat
