import RJson.Model.FP
import RJson.Proofs.HelpersSpec
import RJson.Proofs.ScannerProgress
import RJson.Proofs.SkipScalars
/-!
# `readFloat` (internal/fp, hand model) recognises exactly the JSON number at the head of its input

Only the syntax: when `ParseJSONFloatPrefix` reports no error, the input begins with a number literal of the
reference scanner and the reported length is the literal's length.
-/
namespace RJson.FloatSyntax
open RJson.Ragel RJson.Spec RJson.FP RJson.HelpersSpec RJson.Abs

theorem fpIsDigit_eq (b : UInt8) : fpIsDigit b = isDigit b := by
  have hall : allBelow (fun n => fpIsDigit (UInt8.ofNat n) == isDigit (UInt8.ofNat n)) 256 = true := by decide +kernel
  have := forall_byte (P := fun b => fpIsDigit b == isDigit b) hall b
  simpa using this

theorem at_get {data : Bytes} {p : Nat} {t : List UInt8} (h : At data p t) : data[p]? = t.head? := by
  rw [getElem?_eq_drop_head, h.eq]

theorem at_getBang {data : Bytes} {p : Nat} {b : UInt8} {t : List UInt8} (h : At data p (b :: t)) : data[p]! = b := by
  have := at_get h
  rw [Array.getElem!_eq_getD, Array.getD_eq_getD_getElem?, this]; rfl

theorem not_digit_46' : isDigit 46 = false := by decide

/-- digits after the decimal point (or a second point) -/
theorem loop_frac (data : Bytes) : ∀ (t : List UInt8) (fuel p man nd ndMant : Nat) (dp : Int) (trunc : Bool), At data p t → t.length ≤ fuel →
    ∃ man' nd' ndMant' trunc', readFloatLoop data fuel p man nd ndMant dp true trunc =
      (man', nd', ndMant', dp, true, trunc', data.size - (skipDigits t).length) := by
  intro t
  induction t with
  | nil =>
    intro fuel p man nd ndMant dp trunc hat _
    have hp := hat.nil_inv
    have hg : data[p]? = none := by rw [at_get hat]; rfl
    refine ⟨man, nd, ndMant, trunc, ?_⟩
    cases fuel <;> simp [readFloatLoop, hg, skipDigits, hp]
  | cons b rest ih =>
    intro fuel p man nd ndMant dp trunc hat hf
    obtain ⟨fuel, rfl⟩ : ∃ f, fuel = f + 1 := ⟨fuel - 1, by simp only [List.length_cons] at hf; omega⟩
    obtain ⟨_, hlt, hat'⟩ := hat.cons_inv
    have hlen := hat.length
    have hg : data[p]? = some b := by rw [at_get hat]; rfl
    simp only [readFloatLoop, hg, fpIsDigit_eq]
    by_cases hd : isDigit b = true
    · simp only [hd, if_true, skipDigits_cons_digit b rest hd]
      split
      · exact ih fuel (p + 1) _ _ _ _ _ hat' (by simp only [List.length_cons] at hf; omega)
      · exact ih fuel (p + 1) _ _ _ _ _ hat' (by simp only [List.length_cons] at hf; omega)
    · have hd' : isDigit b = false := by simpa using hd
      simp only [hd', Bool.false_eq_true, if_false, skipDigits_cons_nondigit b rest hd']
      refine ⟨man, nd, ndMant, trunc, ?_⟩
      simp only [List.length_cons] at hlen ⊢
      have : data.size - (rest.length + 1) = p := by omega
      by_cases h46 : (b == 46) = true <;> simp [h46, this]

/-- what follows the integer digits: an optional fraction -/
def afterInt : List UInt8 → Bool × List UInt8
  | 46 :: t2 => (true, skipDigits t2)
  | t1 => (false, t1)

theorem afterInt_dot (t2 : List UInt8) : afterInt (46 :: t2) = (true, skipDigits t2) := rfl

theorem afterInt_other (b : UInt8) (t : List UInt8) (hb : b ≠ 46) : afterInt (b :: t) = (false, b :: t) := by
  simp only [afterInt]
  split
  · next heq => injection heq with h1 _; exact absurd h1 hb
  · rfl

theorem afterInt_nil : afterInt [] = (false, []) := rfl

/-- integer digits, then an optional point and fraction digits -/
theorem loop_int (data : Bytes) : ∀ (t : List UInt8) (fuel p man nd ndMant : Nat) (dp : Int) (trunc : Bool), At data p t → t.length ≤ fuel →
    ∃ man' nd' ndMant' dp' trunc', readFloatLoop data fuel p man nd ndMant dp false trunc =
      (man', nd', ndMant', dp', (afterInt (skipDigits t)).1, trunc', data.size - (afterInt (skipDigits t)).2.length) := by
  intro t
  induction t with
  | nil =>
    intro fuel p man nd ndMant dp trunc hat _
    have hp := hat.nil_inv
    have hg : data[p]? = none := by rw [at_get hat]; rfl
    refine ⟨man, nd, ndMant, dp, trunc, ?_⟩
    cases fuel <;> simp [readFloatLoop, hg, skipDigits, afterInt_nil, hp]
  | cons b rest ih =>
    intro fuel p man nd ndMant dp trunc hat hf
    obtain ⟨fuel, rfl⟩ : ∃ f, fuel = f + 1 := ⟨fuel - 1, by simp only [List.length_cons] at hf; omega⟩
    obtain ⟨_, hlt, hat'⟩ := hat.cons_inv
    have hlen := hat.length
    have hg : data[p]? = some b := by rw [at_get hat]; rfl
    have hf' : rest.length ≤ fuel := by simp only [List.length_cons] at hf; omega
    simp only [readFloatLoop, hg, fpIsDigit_eq]
    by_cases hd : isDigit b = true
    · simp only [hd, if_true, skipDigits_cons_digit b rest hd]
      split
      · exact ih fuel (p + 1) _ _ _ _ _ hat' hf'
      · exact ih fuel (p + 1) _ _ _ _ _ hat' hf'
    · have hd' : isDigit b = false := by simpa using hd
      simp only [hd', Bool.false_eq_true, if_false, skipDigits_cons_nondigit b rest hd']
      by_cases h46 : b = 46
      · subst h46
        simp only [beq_self_eq_true, if_true, afterInt_dot]
        obtain ⟨m', n', nm', t', he⟩ := loop_frac data rest fuel (p + 1) man nd ndMant nd trunc hat' hf'
        exact ⟨m', n', nm', nd, t', he⟩
      · have h46' : (b == 46) = false := by simpa using h46
        simp only [h46', Bool.false_eq_true, if_false, afterInt_other b rest h46]
        refine ⟨man, nd, ndMant, dp, trunc, ?_⟩
        simp only [List.length_cons] at hlen ⊢
        have : data.size - (rest.length + 1) = p := by omega
        simp [this]

theorem expDigits_spec (data : Bytes) : ∀ (t : List UInt8) (fuel p e : Nat), At data p t → t.length ≤ fuel →
    (expDigits data fuel p e).1 = data.size - (skipDigits t).length := by
  intro t
  induction t with
  | nil =>
    intro fuel p e hat _
    have hp := hat.nil_inv
    have hg : data[p]? = none := by rw [at_get hat]; rfl
    cases fuel <;> simp [expDigits, hg, skipDigits, hp]
  | cons b rest ih =>
    intro fuel p e hat hf
    obtain ⟨fuel, rfl⟩ : ∃ f, fuel = f + 1 := ⟨fuel - 1, by simp only [List.length_cons] at hf; omega⟩
    obtain ⟨_, hlt, hat'⟩ := hat.cons_inv
    have hlen := hat.length
    have hg : data[p]? = some b := by rw [at_get hat]; rfl
    simp only [expDigits, hg]
    by_cases hd : isDigit b = true
    · have hd2 : (decide (48 ≤ b) && decide (b ≤ 57)) = true := hd
      simp only [hd2, if_true, skipDigits_cons_digit b rest hd]
      exact ih fuel (p + 1) _ hat' (by simp only [List.length_cons] at hf; omega)
    · have hd' : isDigit b = false := by simpa using hd
      have hd2 : (decide (48 ≤ b) && decide (b ≤ 57)) = false := hd'
      simp only [hd2, Bool.false_eq_true, if_false, skipDigits_cons_nondigit b rest hd']
      simp only [List.length_cons] at hlen ⊢; omega

/-- the last consumed digit sits directly in front of what `skipDigits` leaves -/
theorem skipDigits_last : ∀ (t : List UInt8) (d : UInt8) (t' : List UInt8), t = d :: t' → isDigit d = true →
    ∃ pre x, t = pre ++ x :: skipDigits t ∧ isDigit x = true := by
  intro t
  induction t with
  | nil => intro d t' h; cases h
  | cons b rest ih =>
    intro d t' h hd
    injection h with h1 h2
    subst h1 h2
    rw [skipDigits_cons_digit b rest hd]
    cases rest with
    | nil => exact ⟨[], b, by simp [skipDigits], hd⟩
    | cons c rest' =>
      by_cases hc : isDigit c = true
      · obtain ⟨pre, x, hx, hxd⟩ := ih c rest' rfl hc
        exact ⟨b :: pre, x, by rw [List.cons_append, ← hx], hxd⟩
      · have hc' : isDigit c = false := by simpa using hc
        rw [skipDigits_cons_nondigit c rest' hc']
        exact ⟨[], b, rfl, hd⟩

/-- the byte in front of what `skipDigits` leaves, when at least one digit was consumed -/
theorem byte_before_digits {data : Bytes} {q : Nat} {t : List UInt8} (hat : At data q t) (d : UInt8) (t' : List UInt8)
    (ht : t = d :: t') (hd : isDigit d = true) :
    data.size - (skipDigits t).length ≥ 1 ∧ isDigit data[data.size - (skipDigits t).length - 1]! = true := by
  obtain ⟨pre, x, hx, hxd⟩ := skipDigits_last t d t' ht hd
  have hlen := hat.length
  have hle := hat.le
  have hl2 : t.length = pre.length + 1 + (skipDigits t).length := by
    have := congrArg List.length hx
    simp only [List.length_append, List.length_cons] at this
    omega
  have hat2 := at_suffix hat pre.length (by omega)
  have hdrop : t.drop pre.length = x :: skipDigits t := by
    have := congrArg (List.drop pre.length) hx
    simpa using this
  rw [hdrop] at hat2
  have hidx : data.size - (skipDigits t).length - 1 = q + pre.length := by omega
  refine ⟨by omega, ?_⟩
  rw [hidx, at_getBang hat2]
  exact hxd

theorem RF_fail_ok (man : Nat) (neg trunc : Bool) (p : Nat) :
    ({ mantissa := man, exp := 0, neg := neg, trunc := trunc, p := p, ok := false } : RF).ok = false := rfl

/-- `finishUp` with digits seen: an optional exponent -/
theorem finish_syntax (data : Bytes) (man nd ndMant : Nat) (dp : Int) (sawdot neg trunc : Bool) (p : Nat) (t : List UInt8)
    (hat : At data p t) (hok : (readFloatFinish data man nd ndMant dp sawdot true neg trunc p).ok = true) :
    ∃ rest, scanExp t = some rest ∧ (readFloatFinish data man nd ndMant dp sawdot true neg trunc p).p = data.size - rest.length ∧
      ((∃ c t', t = c :: t' ∧ (c == 101 || c == 69) = true) → ¬ (p ≥ 1 ∧ data[p - 1]! = 46)) := by
  have hlen := hat.length
  have hle := hat.le
  cases t with
  | nil =>
    have hg : data[p]? = none := by rw [at_get hat]; rfl
    simp only [readFloatFinish, Bool.not_true, Bool.false_eq_true, if_false, hg] at hok ⊢
    refine ⟨[], rfl, by simp only [List.length_nil] at hlen ⊢; omega, ?_⟩
    rintro ⟨c, t', hh, _⟩; cases hh
  | cons c t' =>
    obtain ⟨_, hlt, hat'⟩ := hat.cons_inv
    have hlen' := hat'.length
    have hg : data[p]? = some c := by rw [at_get hat]; rfl
    simp only [readFloatFinish, Bool.not_true, Bool.false_eq_true, if_false, hg] at hok ⊢
    by_cases he : (c == 101 || c == 69) = true
    · simp only [he, if_true] at hok ⊢
      rw [scanExp_e c t' he]
      by_cases hdot : (decide (p ≥ 1) && data[p - 1]! == 46) = true
      · simp only [hdot, if_true] at hok; cases hok
      · simp only [hdot, Bool.false_eq_true, if_false] at hok ⊢
        have hnd : ¬ (p ≥ 1 ∧ data[p - 1]! = 46) := by
          intro hh; apply hdot; simp [hh.1, hh.2]
        -- the exponent
        cases t' with
        | nil =>
          have hg1 : data[p + 1]? = none := by rw [at_get hat']; rfl
          simp only [hg1] at hok; cases hok
        | cons s t2 =>
          obtain ⟨_, _, hat2⟩ := hat'.cons_inv
          have hlen2 := hat2.length
          have hg1 : data[p + 1]? = some s := by rw [at_get hat']; rfl
          simp only [hg1] at hok ⊢
          by_cases hs : (s == 43 || s == 45) = true
          · have hsp : (if (s == 43) = true then ((p + 1 + 1, (1 : Int)) : Nat × Int) else if (s == 45) = true then (p + 1 + 1, -1) else (p + 1, 1)).1 = p + 1 + 1 := by
              rcases Bool.or_eq_true _ _ |>.mp hs with h | h
              · simp [h]
              · by_cases h43 : (s == 43) = true <;> simp [h43, h]
            rw [expTail_sign s t2 hs]
            generalize hpr : (if (s == 43) = true then ((p + 1 + 1, (1 : Int)) : Nat × Int) else if (s == 45) = true then (p + 1 + 1, -1) else (p + 1, 1)) = pr at hok hsp ⊢
            obtain ⟨pq, es⟩ := pr
            simp only at hsp
            subst hsp
            simp only [] at hok ⊢
            cases t2 with
            | nil =>
              have hg2 : data[p + 1 + 1]? = none := by rw [at_get hat2]; rfl
              simp only [hg2] at hok; cases hok
            | cons d0 t3 =>
              have hg2 : data[p + 1 + 1]? = some d0 := by rw [at_get hat2]; rfl
              simp only [hg2] at hok ⊢
              by_cases hd : (d0 < 48 || d0 > 57) = true
              · simp only [hd, if_true] at hok; cases hok
              · simp only [hd, Bool.false_eq_true, if_false] at hok ⊢
                have hdig : isDigit d0 = true := by
                  simp only [Bool.or_eq_true, decide_eq_true_eq, not_or, UInt8.not_lt] at hd
                  simp only [isDigit, Bool.and_eq_true, decide_eq_true_eq]
                  exact ⟨hd.1, hd.2⟩
                have hexp := expDigits_spec data (d0 :: t3) (data.size - (p + 1 + 1)) (p + 1 + 1) 0 hat2 (by omega)
                rw [skipDigits_cons_digit d0 t3 hdig] at hexp
                simp only [digitsTail, hdig, if_true]
                refine ⟨_, rfl, ?_, fun _ => hnd⟩
                generalize expDigits data (data.size - (p + 1 + 1)) (p + 1 + 1) 0 = ed at hexp ⊢
                obtain ⟨pp, ee⟩ := ed
                simpa using hexp
          · have hs' : (s == 43 || s == 45) = false := by simpa using hs
            have h43 : (s == 43) = false := by simp only [Bool.or_eq_false_iff] at hs'; exact hs'.1
            have h45 : (s == 45) = false := by simp only [Bool.or_eq_false_iff] at hs'; exact hs'.2
            rw [expTail_nosign s t2 hs']
            simp only [h43, h45, Bool.false_eq_true, if_false, hg1] at hok ⊢
            by_cases hd : (s < 48 || s > 57) = true
            · simp only [hd, if_true] at hok; cases hok
            · simp only [hd, Bool.false_eq_true, if_false] at hok ⊢
              have hdig : isDigit s = true := by
                simp only [Bool.or_eq_true, decide_eq_true_eq, not_or, UInt8.not_lt] at hd
                simp only [isDigit, Bool.and_eq_true, decide_eq_true_eq]
                exact ⟨hd.1, hd.2⟩
              have hexp := expDigits_spec data (s :: t2) (data.size - (p + 1)) (p + 1) 0 hat' (by omega)
              rw [skipDigits_cons_digit s t2 hdig] at hexp
              simp only [digitsTail, hdig, if_true]
              refine ⟨_, rfl, ?_, fun _ => hnd⟩
              generalize expDigits data (data.size - (p + 1)) (p + 1) 0 = ed at hexp ⊢
              obtain ⟨pp, ee⟩ := ed
              simpa using hexp
    · have he' : (c == 101 || c == 69) = false := by simpa using he
      simp only [he', Bool.false_eq_true, if_false] at hok ⊢
      rw [scanExp_other c t' he']
      refine ⟨_, rfl, by simp only [List.length_cons] at hlen ⊢; omega, ?_⟩
      rintro ⟨c2, t2, hh, hc2⟩
      injection hh with h1 _
      subst h1
      rw [he'] at hc2; cases hc2

def TrailingDot (data : Bytes) (rf : RF) : Prop := rf.p > 0 ∧ data[rf.p - 1]! = 46

/-- after the decimal point (which sits at `q2 - 1`) -/
theorem frac_part (data : Bytes) (man nd ndMant : Nat) (dp : Int) (neg trunc : Bool) (q2 : Nat) (t2 : List UInt8)
    (hat : At data q2 t2) (hq : q2 ≥ 1) (hdot : data[q2 - 1]! = 46)
    (hok : (readFloatFinish data man nd ndMant dp true true neg trunc (data.size - (skipDigits t2).length)).ok = true)
    (hnt : ¬ TrailingDot data (readFloatFinish data man nd ndMant dp true true neg trunc (data.size - (skipDigits t2).length))) :
    ∃ rest, fracTail t2 = some rest ∧
      (readFloatFinish data man nd ndMant dp true true neg trunc (data.size - (skipDigits t2).length)).p = data.size - rest.length := by
  have hlen := hat.length
  have hle := hat.le
  have hatS := at_skipDigits hat
  obtain ⟨rest, hse, hp, hE⟩ := finish_syntax data man nd ndMant dp true neg trunc _ _ hatS hok
  cases t2 with
  | nil =>
    exfalso
    simp only [skipDigits, scanExp] at hse
    injection hse with hse
    subst hse
    apply hnt
    simp only [List.length_nil] at hlen hp
    refine ⟨by rw [hp]; omega, ?_⟩
    rw [hp]
    have : data.size - 0 - 1 = q2 - 1 := by omega
    rw [this]; exact hdot
  | cons d t'' =>
    by_cases hd : isDigit d = true
    · refine ⟨rest, ?_, hp⟩
      simp only [fracTail, hd, if_true]
      rw [skipDigits_cons_digit d t'' hd] at hse
      exact hse
    · exfalso
      have hd' : isDigit d = false := by simpa using hd
      rw [skipDigits_cons_nondigit d t'' hd'] at hse hp hE hnt
      simp only [List.length_cons] at hlen
      have hpq : data.size - (d :: t'').length = q2 := by simp only [List.length_cons]; omega
      by_cases he : (d == 101 || d == 69) = true
      · exact hE ⟨d, t'', rfl, he⟩ ⟨by omega, by rw [hpq]; exact hdot⟩
      · have he' : (d == 101 || d == 69) = false := by simpa using he
        rw [scanExp_other d t'' he'] at hse
        injection hse with hse
        subst hse
        apply hnt
        refine ⟨by rw [hp]; omega, ?_⟩
        rw [hp, hpq]; exact hdot

/-- from the first digit of the integer part on (`b` at position `q`) -/
def digitsPart (data : Bytes) (neg : Bool) (q : Nat) (b : UInt8) : RF :=
  let pe := data.size
  let man : Nat := if b == 48 then 0 else b.toNat - 48
  let p := q + 1
  if p == pe then readFloatFinish data man 1 1 0 false true neg false p
  else
    let c := data[p]!
    if c == 46 then
      let (man, nd, ndMant, dp, sawdot, trunc, p') := readFloatLoop data (pe - (p+1)) (p+1) man 1 1 1 true false
      readFloatFinish data man nd ndMant dp sawdot true neg trunc p'
    else if c == 48 || isNonZeroDigit c then
      if man == 0 then readFloatFinish data man 1 1 0 false true neg false p
      else
        let man := (man * 10 + (c.toNat - 48)) % two64
        let (man, nd, ndMant, dp, sawdot, trunc, p') := readFloatLoop data (pe - (p+1)) (p+1) man 2 2 0 false false
        readFloatFinish data man nd ndMant dp sawdot true neg trunc p'
    else readFloatFinish data man 1 1 0 false true neg false p

theorem digit_cases (b : UInt8) : (b == 48 || isNonZeroDigit b) = isDigit b := by
  have hall : allBelow (fun n => (UInt8.ofNat n == 48 || isNonZeroDigit (UInt8.ofNat n)) == isDigit (UInt8.ofNat n)) 256 = true := by
    decide +kernel
  have := forall_byte (P := fun b => (b == 48 || isNonZeroDigit b) == isDigit b) hall b
  simpa using this

theorem man_zero_iff (b : UInt8) (hd : isDigit b = true) : ((if b == 48 then 0 else b.toNat - 48) == 0) = (b == 48) := by
  have hall : allBelow (fun n => !(isDigit (UInt8.ofNat n)) ||
      (((if UInt8.ofNat n == 48 then 0 else (UInt8.ofNat n).toNat - 48) == 0) == (UInt8.ofNat n == 48))) 256 = true := by decide +kernel
  have := forall_byte (P := fun b => !(isDigit b) || (((if b == 48 then 0 else b.toNat - 48) == 0) == (b == 48))) hall b
  simpa [hd] using this

theorem dig19_of (b : UInt8) (hd : isDigit b = true) (h48 : b ≠ 48) : (49 ≤ b && b ≤ 57) = true := by
  have hall : allBelow (fun n => !(isDigit (UInt8.ofNat n)) || (UInt8.ofNat n == 48) ||
      (decide (49 ≤ UInt8.ofNat n) && decide (UInt8.ofNat n ≤ 57))) 256 = true := by decide +kernel
  have := forall_byte (P := fun b => !(isDigit b) || (b == 48) || (decide (49 ≤ b) && decide (b ≤ 57))) hall b
  have h48' : (b == 48) = false := by simpa using h48
  simpa [hd, h48'] using this

theorem digitsPart_ok (data : Bytes) (neg : Bool) (q : Nat) (b : UInt8) (t : List UInt8) (hat : At data q (b :: t))
    (hd : isDigit b = true) (hok : (digitsPart data neg q b).ok = true) (hnt : ¬ TrailingDot data (digitsPart data neg q b)) :
    ∃ rest, scanNum1 (b :: t) = some rest ∧ (digitsPart data neg q b).p = data.size - rest.length := by
  obtain ⟨_, hlt, hat'⟩ := hat.cons_inv
  have hlen := hat.length
  have hlen' := hat'.length
  have hbq := at_getBang hat
  simp only [List.length_cons] at hlen
  -- what the scanner does after the first digit
  have hscan : ∀ tl, scanNum1 (b :: tl) = if b == 48 then scanFrac tl else scanFrac (skipDigits tl) := by
    intro tl
    by_cases h48 : b = 48
    · subst h48; simp [scanNum1_zero]
    · have h48' : (b == 48) = false := by simpa using h48
      rw [scanNum1_other b tl h48, dig19_of b hd h48]
      simp [h48']
  -- no trailing dot when the last consumed byte is the digit `b`
  cases t with
  | nil =>
    have hpe : (q + 1 == data.size) = true := by simp only [List.length_nil] at hlen'; simp; omega
    simp only [digitsPart, hpe, if_true] at hok hnt ⊢
    obtain ⟨rest, hse, hp, _⟩ := finish_syntax data _ 1 1 0 false neg false (q + 1) [] hat' hok
    simp only [scanExp] at hse
    injection hse with hse
    subst hse
    refine ⟨[], ?_, hp⟩
    rw [hscan]
    split <;> simp [skipDigits, scanFrac_nil]
  | cons c t' =>
    obtain ⟨_, _, hat2⟩ := hat'.cons_inv
    have hlen2 := hat2.length
    simp only [List.length_cons] at hlen'
    have hpe : (q + 1 == data.size) = false := by simp; omega
    have hcq := at_getBang hat'
    simp only [digitsPart, hpe, Bool.false_eq_true, if_false, hcq, digit_cases] at hok hnt ⊢
    by_cases h46 : c = 46
    · subst h46
      simp only [beq_self_eq_true, if_true] at hok hnt ⊢
      obtain ⟨m', n', nm', tr', hl⟩ := loop_frac data t' (data.size - (q + 1 + 1)) (q + 1 + 1)
        (if b == 48 then 0 else b.toNat - 48) 1 1 1 false hat2 (by omega)
      rw [hl] at hok hnt ⊢
      simp only [] at hok hnt ⊢
      obtain ⟨rest, hft, hp⟩ := frac_part data m' n' nm' 1 neg tr' (q + 1 + 1) t' hat2 (by omega)
        (by have : q + 1 + 1 - 1 = q + 1 := by omega
            rw [this]; exact hcq) hok hnt
      refine ⟨rest, ?_, hp⟩
      rw [hscan]
      have hsd : skipDigits (46 :: t') = 46 :: t' := skipDigits_cons_nondigit 46 t' not_digit_46'
      split
      · rw [scanFrac_dot]; exact hft
      · rw [hsd, scanFrac_dot]; exact hft
    · have h46' : (c == 46) = false := by simpa using h46
      simp only [h46', Bool.false_eq_true, if_false] at hok hnt ⊢
      by_cases hcd : isDigit c = true
      · simp only [hcd, if_true, man_zero_iff b hd] at hok hnt ⊢
        by_cases h48 : (b == 48) = true
        · -- a leading zero followed by a digit: the number is the zero
          simp only [h48, if_true] at hok hnt ⊢
          obtain ⟨rest, hse, hp, _⟩ := finish_syntax data _ 1 1 0 false neg false (q + 1) (c :: t') hat' hok
          have hce : (c == 101 || c == 69) = false := by
            by_cases hh : (c == 101 || c == 69) = true
            · have := not_digit_e c hh; rw [hcd] at this; cases this
            · simpa using hh
          rw [scanExp_other c t' hce] at hse
          injection hse with hse
          subst hse
          refine ⟨c :: t', ?_, hp⟩
          rw [hscan]
          simp only [h48, if_true]
          rw [scanFrac_other c t' h46, scanExp_other c t' hce]
        · have h48' : (b == 48) = false := by simpa using h48
          simp only [h48', Bool.false_eq_true, if_false] at hok hnt ⊢
          obtain ⟨m', n', nm', dp', tr', hl⟩ := loop_int data t' (data.size - (q + 1 + 1)) (q + 1 + 1)
            (((b.toNat - 48) * 10 + (c.toNat - 48)) % two64) 2 2 0 false hat2 (by omega)
          rw [hl] at hok hnt ⊢
          simp only [] at hok hnt ⊢
          rw [hscan]
          simp only [h48', Bool.false_eq_true, if_false, skipDigits_cons_digit c t' hcd]
          -- the digits run, then an optional fraction
          have hatS := at_skipDigits hat2
          have hsl := skipDigits_length_le t'
          cases hsk : skipDigits t' with
          | nil =>
            rw [hsk] at hok hnt hatS
            simp only [afterInt_nil] at hok hnt ⊢
            obtain ⟨rest, hse, hp, _⟩ := finish_syntax data m' n' nm' dp' false neg tr' _ [] hatS hok
            refine ⟨rest, ?_, hp⟩
            rw [scanFrac_nil]; simp only [scanExp] at hse; exact hse
          | cons x t1 =>
            rw [hsk] at hok hnt hatS hsl
            by_cases hx : x = 46
            · subst hx
              simp only [afterInt_dot] at hok hnt ⊢
              obtain ⟨_, _, hatx⟩ := hatS.cons_inv
              simp only [List.length_cons] at hsl hatx
              have hq2 : data.size - (t1.length + 1) + 1 = data.size - t1.length := by omega
              rw [hq2] at hatx
              have hsz : data.size - (skipDigits t1).length = data.size - (skipDigits t1).length := rfl
              obtain ⟨rest, hft, hp⟩ := frac_part data m' n' nm' dp' neg tr' (data.size - t1.length) t1 hatx (by omega)
                (by have : data.size - t1.length - 1 = data.size - (t1.length + 1) := by omega
                    rw [this]
                    simp only [List.length_cons] at hatS
                    exact at_getBang hatS) hok hnt
              exact ⟨rest, by rw [scanFrac_dot]; exact hft, hp⟩
            · simp only [afterInt_other x t1 hx] at hok hnt ⊢
              obtain ⟨rest, hse, hp, _⟩ := finish_syntax data m' n' nm' dp' false neg tr' _ (x :: t1) hatS hok
              exact ⟨rest, by rw [scanFrac_other x t1 hx]; exact hse, hp⟩
      · have hcd' : isDigit c = false := by simpa using hcd
        simp only [hcd', Bool.false_eq_true, if_false] at hok hnt ⊢
        obtain ⟨rest, hse, hp, _⟩ := finish_syntax data _ 1 1 0 false neg false (q + 1) (c :: t') hat' hok
        refine ⟨rest, ?_, hp⟩
        rw [hscan, skipDigits_cons_nondigit c t' hcd', scanFrac_other c t' h46]
        split <;> exact hse

/-- **`readFloat` recognises the JSON number at the head of its input** (success direction) -/
theorem readFloat_ok (data : Bytes) (hok : (readFloat data).ok = true) (hnt : ¬ TrailingDot data (readFloat data)) :
    ∃ rest, scanNumber data.toList = some rest ∧ (readFloat data).p = data.size - rest.length := by
  have hat0 := At.start data
  cases hl : data.toList with
  | nil =>
    have hsz : data.size = 0 := by have := congrArg List.length hl; simpa using this
    simp [FP.readFloat, hsz] at hok
  | cons b0 l0 =>
    rw [hl] at hat0
    have hsz : (data.size == 0) = false := by
      have hs2 : data.size = l0.length + 1 := by simpa using congrArg List.length hl
      simp [hs2]
    have hb0 := at_getBang hat0
    obtain ⟨_, _, hat1⟩ := hat0.cons_inv
    have hlen0 := hat0.length
    simp only [List.length_cons] at hlen0
    have hrf : readFloat data =
        (let neg := b0 == 45
         let p := if neg then 1 else 0
         if p == data.size then { mantissa := 0, exp := 0, neg := false, trunc := false, p := p, ok := false }
         else
           let b := data[p]!
           if b == 46 then { mantissa := 0, exp := 0, neg := neg, trunc := false, p := p, ok := false }
           else if !(b == 48 || isNonZeroDigit b) then readFloatFinish data 0 0 0 0 false false neg false p
           else digitsPart data neg p b) := by
      simp only [FP.readFloat, hsz, Bool.false_eq_true, if_false, hb0, digitsPart]
    rw [hrf] at hok hnt ⊢
    by_cases hneg : b0 = 45
    · subst hneg
      simp only [beq_self_eq_true, if_true] at hok hnt ⊢
      rw [scanNumber_minus]
      cases l0 with
      | nil =>
        have : (1 == data.size) = true := by simp only [List.length_nil] at hlen0; simp; omega
        simp [this] at hok
      | cons b t =>
        have hb1 := at_getBang hat1
        have : (1 == data.size) = false := by simp only [List.length_cons] at hlen0; simp; omega
        simp only [this, Bool.false_eq_true, if_false, hb1, digit_cases] at hok hnt ⊢
        by_cases h46 : (b == 46) = true
        · simp [h46] at hok
        · simp only [h46, Bool.false_eq_true, if_false] at hok hnt ⊢
          by_cases hd : isDigit b = true
          · simp only [hd, Bool.not_true, Bool.false_eq_true, if_false] at hok hnt ⊢
            exact digitsPart_ok data true 1 b t hat1 hd hok hnt
          · have hd' : isDigit b = false := by simpa using hd
            simp [hd', readFloatFinish] at hok
    · have hneg' : (b0 == 45) = false := by simpa using hneg
      simp only [hneg', Bool.false_eq_true, if_false] at hok hnt ⊢
      rw [scanNumber_other b0 l0 hneg]
      have : (0 == data.size) = false := by simp; omega
      simp only [this, Bool.false_eq_true, if_false, hb0, digit_cases] at hok hnt ⊢
      by_cases h46 : (b0 == 46) = true
      · simp [h46] at hok
      · simp only [h46, Bool.false_eq_true, if_false] at hok hnt ⊢
        by_cases hd : isDigit b0 = true
        · simp only [hd, Bool.not_true, Bool.false_eq_true, if_false] at hok hnt ⊢
          exact digitsPart_ok data false 0 b0 l0 hat0 hd hok hnt
        · have hd' : isDigit b0 = false := by simpa using hd
          simp [hd', readFloatFinish] at hok

/-- **`ParseJSONFloatPrefix`**: no error ⇒ the input begins with a JSON number and `n` is its length -/
theorem parse_ok_syntax (data : Bytes) (hok : (parse data).err = false) :
    ∃ rest, scanNumber data.toList = some rest ∧ (parse data).n = data.size - rest.length := by
  have h1 : (readFloat data).ok = true := by
    by_cases h : (readFloat data).ok = true
    · exact h
    · simp [parse, h] at hok
  have h2 : ¬ TrailingDot data (readFloat data) := by
    intro htd
    have : (decide ((readFloat data).p > 0) && data[(readFloat data).p - 1]! == 46) = true := by
      simp [htd.1, htd.2]
    simp [parse, h1, this] at hok
  have h3 : (parse data).n = (readFloat data).p := by
    have hc : (decide ((readFloat data).p > 0) && data[(readFloat data).p - 1]! == 46) = false := by
      by_cases hh : (decide ((readFloat data).p > 0) && data[(readFloat data).p - 1]! == 46) = true
      · exfalso; apply h2
        simp only [Bool.and_eq_true, decide_eq_true_eq, beq_iff_eq] at hh
        exact hh
      · simpa using hh
    simp only [parse, h1, Bool.not_true, Bool.false_eq_true, if_false, hc]
    split
    · rfl
    · split
      · rfl
      · split
        · rfl
        · split
          · rfl
          · split <;> rfl
  obtain ⟨rest, hs, hp⟩ := readFloat_ok data h1 h2
  exact ⟨rest, hs, by rw [h3, hp]⟩

end RJson.FloatSyntax
