import RJson.Proofs.DecScale
/-!
# The shifts of `decimal` without the exactness assumption

Whatever the truncation flag says, a shift returns the exact result cut off after 800 digits:
`aval b ≤ aval a · 2^±k < aval b + 10^(b.dp - 800)`. This is what bounds the scaling loops of `floatBits` for every
decimal (termination, size of the binary exponent), hence: the slow path never panics.
-/
namespace RJson.Dec
open RJson.FP

/-- put down extra digits, any run: the digits written, followed by `z'` dropped digits of value `t'`, are the exact quotient -/
theorem rsExtra_approx (k P ca cb : Nat) :
    ∀ (fuel w z t n j m : Nat) (d : Array UInt8) (tr : Bool), d.size = 800 → w ≤ 800 → DigitsOK d w → n < 2 ^ k * 10 →
      (val d w * 10 ^ z + t) * 2 ^ k * 10 + n = P * 10 ^ j → t < 10 ^ z → w + z + ca = cb + j → (0 < z → w = 800) →
      (n = 0 ∨ (2 ^ m ∣ n ∧ m ≤ k ∧ k + 2 ≤ fuel + m)) →
      let res := rsExtra k (2 ^ k - 1) fuel w n d tr
      ∃ z' t' j', (val res.2.1 res.1 * 10 ^ z' + t') * 2 ^ k * 10 = P * 10 ^ j' ∧ t' < 10 ^ z' ∧ res.1 + z' + ca = cb + j' ∧
        (0 < z' → res.1 = 800) := by
  intro fuel
  induction fuel with
  | zero =>
    intro w z t n j m d tr hsz hw hdw hn hinv ht hpos hz hterm
    have hn0 : n = 0 := by
      rcases hterm with h | ⟨_, h2, h3⟩
      · exact h
      · omega
    subst hn0
    simp only [rsExtra]
    exact ⟨z, t, j, by simpa using hinv, ht, hpos, hz⟩
  | succ fuel ih =>
    intro w z t n j m d tr hsz hw hdw hn hinv ht hpos hz hterm
    have hp : 0 < 2 ^ k := by positivity
    simp only [rsExtra]
    by_cases hn0 : n > 0
    · rw [if_pos hn0]
      obtain ⟨hdiv, hm, hf⟩ : 2 ^ m ∣ n ∧ m ≤ k ∧ k + 2 ≤ fuel + 1 + m := by
        rcases hterm with h | h
        · omega
        · exact h
      have hmask : n &&& (2 ^ k - 1) = n % 2 ^ k := Nat.and_two_pow_sub_one_eq_mod n k
      have hdig : n >>> k ≤ 9 := by
        rw [Nat.shiftRight_eq_div_pow]
        have : n / 2 ^ k < 10 := by
          rw [Nat.div_lt_iff_lt_mul hp]; rw [Nat.mul_comm]; exact hn
        omega
      have hmod : n % 2 ^ k < 2 ^ k := Nat.mod_lt _ hp
      have hdm := Nat.div_add_mod n (2 ^ k)
      have hn' : n % 2 ^ k * 10 < 2 ^ k * 10 := by omega
      have hterm' : n % 2 ^ k * 10 = 0 ∨ (2 ^ (m + 1) ∣ n % 2 ^ k * 10 ∧ m + 1 ≤ k ∧ k + 2 ≤ fuel + (m + 1)) := by
        rcases dvd_mod_step n k m hdiv hm with h | ⟨h1, h2⟩
        · exact .inl h
        · exact .inr ⟨h1, h2, by omega⟩
      rw [hmask]
      by_cases hfit : w < d.size
      · rw [if_pos hfit]
        have hz0 : z = 0 := by
          by_contra hcon
          have := hz (by omega)
          omega
        subst hz0
        have ht0 : t = 0 := by simpa using ht
        subst ht0
        have hres := ih (w + 1) 0 0 (n % 2 ^ k * 10) (j + 1) (m + 1) (d.set! w (UInt8.ofNat (n >>> k + 48))) tr
          (by rw [size_set!]; exact hsz) (by omega)
          (by
            intro i hi
            by_cases hiw : i = w
            · subst hiw; exact byte_set_self d i _ hfit hdig
            · rw [getElem!_set! d w i _ hfit, if_neg hiw]; exact hdw i (by omega))
          hn'
          (by
            simp only [val, Nat.pow_zero, Nat.mul_one, Nat.add_zero] at hinv ⊢
            rw [val_set_ge d w _ hfit w (Nat.le_refl _), dig_set_self d w _ hfit hdig, Nat.shiftRight_eq_div_pow]
            have : (val d w * 10 + n / 2 ^ k) * 2 ^ k * 10 + n % 2 ^ k * 10 =
                (val d w * 2 ^ k * 10 + (2 ^ k * (n / 2 ^ k) + n % 2 ^ k)) * 10 := by ring
            rw [this, hdm, hinv, Nat.pow_succ]; ring)
          (by simp) (by omega) (by omega) hterm'
        exact hres
      · rw [if_neg hfit]
        have hw800 : w = 800 := by omega
        have hres := ih w (z + 1) (t * 10 + n / 2 ^ k) (n % 2 ^ k * 10) (j + 1) (m + 1) d (tr || decide (n >>> k > 0)) hsz hw hdw hn'
          (by
            rw [Nat.pow_succ, Nat.pow_succ]
            have : (val d w * (10 ^ z * 10) + (t * 10 + n / 2 ^ k)) * 2 ^ k * 10 + n % 2 ^ k * 10 =
                ((val d w * 10 ^ z + t) * 2 ^ k * 10 + (2 ^ k * (n / 2 ^ k) + n % 2 ^ k)) * 10 := by ring
            rw [this, hdm, hinv]; ring)
          (by
            rw [Nat.pow_succ]
            have : n / 2 ^ k ≤ 9 := by rw [← Nat.shiftRight_eq_div_pow]; exact hdig
            omega)
          (by omega) (fun _ => hw800) hterm'
        exact hres
    · rw [if_neg hn0]
      have hn00 : n = 0 := by omega
      subst hn00
      exact ⟨z, t, j, by simpa using hinv, ht, hpos, hz⟩

/-- **`rightShift(a, k)`, any run**: the result is `a / 2^k` cut off after 800 digits -/
theorem rightShift_approx (a : Decimal) (h : WF a) (hnz : NZ a) (hnd : 1 ≤ a.nd) (k : Nat) (hk1 : 1 ≤ k) (hk : k ≤ 60) :
    ∃ δ : ℚ, 0 ≤ δ ∧ δ < 10 ^ ((rightShift a k).dp - 800) ∧ aval a / 2 ^ k = aval (rightShift a k) + δ := by
  have hp : (0 : ℕ) < 2 ^ k := by positivity
  simp only [rightShift]
  have hpick := rsPickup_spec a h k hk1 hk (a.nd + 1) 0 0 (by omega) (by omega) rfl (by positivity) (fun _ _ => trivial)
  cases hrp : rsPickup a k (a.nd + 1) 0 0 with
  | none =>
    rw [hrp] at hpick
    simp only [] at hpick
    exfalso
    have := val_ge_of_lead' a.d (hnz hnd) a.nd hnd
    have hp10 : 0 < 10 ^ (a.nd - 1) := by positivity
    omega
  | some pr =>
    obtain ⟨r, n⟩ := pr
    rw [hrp] at hpick
    simp only [] at hpick ⊢
    obtain ⟨_, hn1, hn2, hnv, _⟩ := hpick
    have hr1 : 1 ≤ r := by
      by_contra hcon
      have : r = 0 := by omega
      subst this
      simp [val] at hnv
      omega
    have hmain : ∃ w n1 d1, rsMain k (2 ^ k - 1) a.nd (a.nd + 1) r 0 n a.d = (w, n1, d1) ∧ d1.size = 800 ∧ w ≤ 800 ∧ DigitsOK d1 w ∧
        n1 < 2 ^ k * 10 ∧ (0 < w → 1 ≤ dig d1 0) ∧ (w = 0 → 2 ^ k ≤ n1) ∧
        ∃ j, (val d1 w * 10 ^ 0 + 0) * 2 ^ k * 10 + n1 = val a.d a.nd * 10 ^ j ∧ w + 0 + r = a.nd + j := by
      by_cases hrn : r ≤ a.nd
      · have hm := rsMain_spec k a.nd a.d h.nd h.digits (a.nd + 1) r 0 n a.d (by omega) (by omega) hrn h.size
          (fun _ _ _ => rfl) (fun i hi => absurd hi (by omega)) hn2
          (by rw [Nat.min_eq_left hrn, Nat.sub_self] at hnv; simp [val]; omega)
          (fun hh => absurd hh (by omega)) (fun _ => hn1)
        simp only [] at hm
        obtain ⟨m1, m2, m3, m4, m5, m6, m7⟩ := hm
        refine ⟨(rsMain k (2 ^ k - 1) a.nd (a.nd + 1) r 0 n a.d).1, (rsMain k (2 ^ k - 1) a.nd (a.nd + 1) r 0 n a.d).2.1,
          (rsMain k (2 ^ k - 1) a.nd (a.nd + 1) r 0 n a.d).2.2, rfl, m2, by rw [m1]; have := h.nd; omega, m3, m4, m6, m7, 0, ?_, by rw [m1]; omega⟩
        simp only [Nat.pow_zero, Nat.mul_one, Nat.add_zero]; exact m5
      · have hgt : a.nd < r := by omega
        have hm : rsMain k (2 ^ k - 1) a.nd (a.nd + 1) r 0 n a.d = (0, n, a.d) := by
          simp only [rsMain]
          rw [if_neg (by omega)]
        refine ⟨0, n, a.d, hm, h.size, by omega, fun i hi => absurd hi (by omega), hn2, fun hh => absurd hh (by omega), fun _ => hn1, r - a.nd, ?_, by omega⟩
        rw [Nat.min_eq_right (by omega)] at hnv
        simp [val]; exact hnv
    obtain ⟨w, n1, d1, hmeq, hsz1, hw1, hd1, hn1', hj1, hj2, j0, hinv1, hpos1⟩ := hmain
    rw [hmeq]
    simp only []
    have hterm : n1 = 0 ∨ (2 ^ 0 ∣ n1 ∧ 0 ≤ k ∧ k + 2 ≤ 2000 + 0) := by
      by_cases hz : n1 = 0
      · exact .inl hz
      · exact .inr ⟨by simp, by omega, by omega⟩
    have hext := rsExtra_approx k (val a.d a.nd) r a.nd 2000 w 0 0 n1 j0 0 d1 a.trunc hsz1 hw1 hd1 hn1' hinv1 (by simp) hpos1
      (fun hh => absurd hh (by omega)) hterm
    have hwfx := rsExtra_wf k 2000 w n1 d1 a.trunc hsz1 hw1 hd1 hn1'
    have hnzx := rsExtra_nz k 2000 w n1 d1 a.trunc hsz1 hn1' hj1 hj2
    have hposx := rsExtra_pos k (2 ^ k - 1) 2000 w n1 d1 a.trunc hsz1 (by
        by_cases hw0 : 0 < w
        · exact .inl hw0
        · refine .inr ⟨?_, by norm_num⟩
          have := hj2 (by omega)
          omega)
    simp only [] at hext hwfx
    generalize hre : rsExtra k (2 ^ k - 1) 2000 w n1 d1 a.trunc = re at hext hnzx hwfx hposx
    obtain ⟨w2, d2, tr2⟩ := re
    simp only [] at hext hwfx hposx ⊢
    obtain ⟨e1, e2, e3⟩ := hwfx
    obtain ⟨z', t', j', f2, ft, f3, f4⟩ := hext
    have hwf2 : WF { a with d := d2, nd := w2, dp := a.dp - ((r : ℤ) - 1), trunc := tr2 } := ⟨e1, e2, e3⟩
    obtain ⟨t1, t2, t3, t4⟩ := trim_spec _ hwf2
    have hnz2 : NZ { a with d := d2, nd := w2, dp := a.dp - ((r : ℤ) - 1), trunc := tr2 } := fun hh => hnzx hh
    have htpos := trim_pos _ hnz2 hposx
    have hdpb : ({ a with d := d2, nd := w2, dp := a.dp - ((r : ℤ) - 1), trunc := tr2 } : Decimal).trim.dp = a.dp - ((r : ℤ) - 1) := by
      simp only [Decimal.trim]
      have : (trimLoop d2 w2 == 0) = false := by
        have : ({ a with d := d2, nd := w2, dp := a.dp - ((r : ℤ) - 1), trunc := tr2 } : Decimal).trim.nd = trimLoop d2 w2 := rfl
        rw [this] at htpos
        simp; omega
      rw [this]; rfl
    rw [hdpb, t2]
    simp only [aval]
    -- the value
    have hq : ((val d2 w2 : ℚ) * 10 ^ z' + t') * 2 ^ k * 10 = (val a.d a.nd : ℚ) * 10 ^ j' := by exact_mod_cast f2
    have hpk : (0 : ℚ) < 2 ^ k := by positivity
    have hV : (val a.d a.nd : ℚ) = ((val d2 w2 : ℚ) * 10 ^ z' + t') * 2 ^ k * 10 / 10 ^ j' := by
      rw [eq_div_iff (by positivity)]; exact hq.symm
    have hE : a.dp - ((r : ℤ) - 1) - (w2 : ℤ) = (a.dp - (a.nd : ℤ)) + ((z' : ℤ) + 1 - (j' : ℤ)) := by omega
    refine ⟨(t' : ℚ) * 10 ^ (a.dp - ((r : ℤ) - 1) - (w2 : ℤ) - (z' : ℤ)), by positivity, ?_, ?_⟩
    · have htq : (t' : ℚ) < 10 ^ (z' : ℤ) := by rw [zpow_natCast]; exact_mod_cast ft
      by_cases hz0 : z' = 0
      · subst hz0
        have : t' = 0 := by simpa using ft
        subst this
        simp only [Nat.cast_zero, zero_mul]
        positivity
      · have hw800 : w2 = 800 := f4 (by omega)
        calc (t' : ℚ) * 10 ^ (a.dp - ((r : ℤ) - 1) - (w2 : ℤ) - (z' : ℤ))
            < 10 ^ (z' : ℤ) * 10 ^ (a.dp - ((r : ℤ) - 1) - (w2 : ℤ) - (z' : ℤ)) := mul_lt_mul_of_pos_right htq (by positivity)
          _ = 10 ^ (a.dp - ((r : ℤ) - 1) - 800) := by
              rw [← zpow_add₀ (by norm_num)]; congr 1; rw [hw800]; push_cast; ring
    · rw [hV, hE]
      have e1 : a.dp - (a.nd : ℤ) + ((z' : ℤ) + 1 - (j' : ℤ)) - (z' : ℤ) = a.dp - (a.nd : ℤ) + (1 - (j' : ℤ)) := by ring
      have hz1 : ∀ X : ℤ, (10 : ℚ) ^ (X + ((z' : ℤ) + 1 - (j' : ℤ))) = 10 ^ X * (10 ^ z' * 10 / 10 ^ j') := by
        intro X
        rw [zpow_add₀ (by norm_num), zpow_sub₀ (by norm_num), zpow_add₀ (by norm_num), zpow_natCast, zpow_natCast, zpow_one]
      have hz2 : ∀ X : ℤ, (10 : ℚ) ^ (X + (1 - (j' : ℤ))) = 10 ^ X * (10 / 10 ^ j') := by
        intro X
        rw [zpow_add₀ (by norm_num), zpow_sub₀ (by norm_num), zpow_natCast, zpow_one]
      rw [e1, hz1, hz2]
      have h10j : (10 : ℚ) ^ j' ≠ 0 := by positivity
      have h10z : (10 : ℚ) ^ z' ≠ 0 := by positivity
      have h2k : (2 : ℚ) ^ k ≠ 0 := by positivity
      field_simp

end RJson.Dec
