import RJson.Proofs.DecScale
/-!
# The shifts of `decimal` without the exactness assumption

Whatever the truncation flag says, a shift returns the exact result cut off after 800 digits:
`aval b ≤ aval a · 2^±k < aval b + 10^(b.dp - 800)`. This is what bounds the scaling loops of `floatBits` for every
decimal (termination, size of the binary exponent), hence: the slow path never panics.
-/
namespace RJson.Dec
open RJson.FP

/-- put down extra digits, any run: the digits written, followed by `z'` dropped digits of value `t'`, are the exact quotient -/
theorem rsExtra_approx (k P ca cb : Nat) (tr0 : Bool) :
    ∀ (fuel w z t n j m : Nat) (d : Array UInt8) (tr : Bool), d.size = 800 → w ≤ 800 → DigitsOK d w → n < 2 ^ k * 10 →
      (val d w * 10 ^ z + t) * 2 ^ k * 10 + n = P * 10 ^ j → t < 10 ^ z → w + z + ca = cb + j → (0 < z → w = 800) →
      (n = 0 ∨ (2 ^ m ∣ n ∧ m ≤ k ∧ k + 2 ≤ fuel + m)) → tr = (tr0 || decide (t ≠ 0)) →
      let res := rsExtra k (2 ^ k - 1) fuel w n d tr
      ∃ z' t' j', (val res.2.1 res.1 * 10 ^ z' + t') * 2 ^ k * 10 = P * 10 ^ j' ∧ t' < 10 ^ z' ∧ res.1 + z' + ca = cb + j' ∧
        (0 < z' → res.1 = 800) ∧ res.2.2 = (tr0 || decide (t' ≠ 0)) := by
  intro fuel
  induction fuel with
  | zero =>
    intro w z t n j m d tr hsz hw hdw hn hinv ht hpos hz hterm hfl
    have hn0 : n = 0 := by
      rcases hterm with h | ⟨_, h2, h3⟩
      · exact h
      · omega
    subst hn0
    simp only [rsExtra]
    exact ⟨z, t, j, by simpa using hinv, ht, hpos, hz, hfl⟩
  | succ fuel ih =>
    intro w z t n j m d tr hsz hw hdw hn hinv ht hpos hz hterm hfl
    have hp : 0 < 2 ^ k := by positivity
    simp only [rsExtra]
    by_cases hn0 : n > 0
    · rw [if_pos hn0]
      obtain ⟨hdiv, hm, hf⟩ : 2 ^ m ∣ n ∧ m ≤ k ∧ k + 2 ≤ fuel + 1 + m := by
        rcases hterm with h | h
        · omega
        · exact h
      have hmask : n &&& (2 ^ k - 1) = n % 2 ^ k := Nat.and_two_pow_sub_one_eq_mod n k
      have hdig : n >>> k ≤ 9 := by
        rw [Nat.shiftRight_eq_div_pow]
        have : n / 2 ^ k < 10 := by
          rw [Nat.div_lt_iff_lt_mul hp]; rw [Nat.mul_comm]; exact hn
        omega
      have hmod : n % 2 ^ k < 2 ^ k := Nat.mod_lt _ hp
      have hdm := Nat.div_add_mod n (2 ^ k)
      have hn' : n % 2 ^ k * 10 < 2 ^ k * 10 := by omega
      have hterm' : n % 2 ^ k * 10 = 0 ∨ (2 ^ (m + 1) ∣ n % 2 ^ k * 10 ∧ m + 1 ≤ k ∧ k + 2 ≤ fuel + (m + 1)) := by
        rcases dvd_mod_step n k m hdiv hm with h | ⟨h1, h2⟩
        · exact .inl h
        · exact .inr ⟨h1, h2, by omega⟩
      rw [hmask]
      by_cases hfit : w < d.size
      · rw [if_pos hfit]
        have hz0 : z = 0 := by
          by_contra hcon
          have := hz (by omega)
          omega
        subst hz0
        have ht0 : t = 0 := by simpa using ht
        subst ht0
        have hres := ih (w + 1) 0 0 (n % 2 ^ k * 10) (j + 1) (m + 1) (d.set! w (UInt8.ofNat (n >>> k + 48))) tr
          (by rw [size_set!]; exact hsz) (by omega)
          (by
            intro i hi
            by_cases hiw : i = w
            · subst hiw; exact byte_set_self d i _ hfit hdig
            · rw [getElem!_set! d w i _ hfit, if_neg hiw]; exact hdw i (by omega))
          hn'
          (by
            simp only [val, Nat.pow_zero, Nat.mul_one, Nat.add_zero] at hinv ⊢
            rw [val_set_ge d w _ hfit w (Nat.le_refl _), dig_set_self d w _ hfit hdig, Nat.shiftRight_eq_div_pow]
            have : (val d w * 10 + n / 2 ^ k) * 2 ^ k * 10 + n % 2 ^ k * 10 =
                (val d w * 2 ^ k * 10 + (2 ^ k * (n / 2 ^ k) + n % 2 ^ k)) * 10 := by ring
            rw [this, hdm, hinv, Nat.pow_succ]; ring)
          (by simp) (by omega) (by omega) hterm' hfl
        exact hres
      · rw [if_neg hfit]
        have hw800 : w = 800 := by omega
        have hres := ih w (z + 1) (t * 10 + n / 2 ^ k) (n % 2 ^ k * 10) (j + 1) (m + 1) d (tr || decide (n >>> k > 0)) hsz hw hdw hn'
          (by
            rw [Nat.pow_succ, Nat.pow_succ]
            have : (val d w * (10 ^ z * 10) + (t * 10 + n / 2 ^ k)) * 2 ^ k * 10 + n % 2 ^ k * 10 =
                ((val d w * 10 ^ z + t) * 2 ^ k * 10 + (2 ^ k * (n / 2 ^ k) + n % 2 ^ k)) * 10 := by ring
            rw [this, hdm, hinv]; ring)
          (by
            rw [Nat.pow_succ]
            have : n / 2 ^ k ≤ 9 := by rw [← Nat.shiftRight_eq_div_pow]; exact hdig
            omega)
          (by omega) (fun _ => hw800) hterm' (by
            rw [hfl, Nat.shiftRight_eq_div_pow]
            by_cases ht0 : t = 0
            · subst ht0
              by_cases hq : n / 2 ^ k = 0
              · simp [hq]
              · have : n / 2 ^ k > 0 := Nat.pos_of_ne_zero hq
                simp [hq, this]
            · have htp : 0 < t := Nat.pos_of_ne_zero ht0
              have : t * 10 + n / 2 ^ k ≠ 0 :=
                Nat.ne_of_gt (Nat.lt_of_lt_of_le (Nat.mul_pos htp (by norm_num)) (Nat.le_add_right _ _))
              simp [ht0, this])
        exact hres
    · rw [if_neg hn0]
      have hn00 : n = 0 := by omega
      subst hn00
      exact ⟨z, t, j, by simpa using hinv, ht, hpos, hz, hfl⟩

/-- **`rightShift(a, k)`, any run**: the result is `a / 2^k` cut off after 800 digits -/
theorem rightShift_approx (a : Decimal) (h : WF a) (hnz : NZ a) (hnd : 1 ≤ a.nd) (k : Nat) (hk1 : 1 ≤ k) (hk : k ≤ 60) :
    ∃ δ : ℚ, 0 ≤ δ ∧ δ < 10 ^ ((rightShift a k).dp - 800) ∧ aval a / 2 ^ k = aval (rightShift a k) + δ ∧
      (rightShift a k).trunc = (a.trunc || decide (δ ≠ 0)) := by
  have hp : (0 : ℕ) < 2 ^ k := by positivity
  simp only [rightShift]
  have hpick := rsPickup_spec a h k hk1 hk (a.nd + 1) 0 0 (by omega) (by omega) rfl (by positivity) (fun _ _ => trivial)
  cases hrp : rsPickup a k (a.nd + 1) 0 0 with
  | none =>
    rw [hrp] at hpick
    simp only [] at hpick
    exfalso
    have := val_ge_of_lead' a.d (hnz hnd) a.nd hnd
    have hp10 : 0 < 10 ^ (a.nd - 1) := by positivity
    omega
  | some pr =>
    obtain ⟨r, n⟩ := pr
    rw [hrp] at hpick
    simp only [] at hpick ⊢
    obtain ⟨_, hn1, hn2, hnv, _⟩ := hpick
    have hr1 : 1 ≤ r := by
      by_contra hcon
      have : r = 0 := by omega
      subst this
      simp [val] at hnv
      omega
    have hmain : ∃ w n1 d1, rsMain k (2 ^ k - 1) a.nd (a.nd + 1) r 0 n a.d = (w, n1, d1) ∧ d1.size = 800 ∧ w ≤ 800 ∧ DigitsOK d1 w ∧
        n1 < 2 ^ k * 10 ∧ (0 < w → 1 ≤ dig d1 0) ∧ (w = 0 → 2 ^ k ≤ n1) ∧
        ∃ j, (val d1 w * 10 ^ 0 + 0) * 2 ^ k * 10 + n1 = val a.d a.nd * 10 ^ j ∧ w + 0 + r = a.nd + j := by
      by_cases hrn : r ≤ a.nd
      · have hm := rsMain_spec k a.nd a.d h.nd h.digits (a.nd + 1) r 0 n a.d (by omega) (by omega) hrn h.size
          (fun _ _ _ => rfl) (fun i hi => absurd hi (by omega)) hn2
          (by rw [Nat.min_eq_left hrn, Nat.sub_self] at hnv; simp [val]; omega)
          (fun hh => absurd hh (by omega)) (fun _ => hn1)
        simp only [] at hm
        obtain ⟨m1, m2, m3, m4, m5, m6, m7⟩ := hm
        refine ⟨(rsMain k (2 ^ k - 1) a.nd (a.nd + 1) r 0 n a.d).1, (rsMain k (2 ^ k - 1) a.nd (a.nd + 1) r 0 n a.d).2.1,
          (rsMain k (2 ^ k - 1) a.nd (a.nd + 1) r 0 n a.d).2.2, rfl, m2, by rw [m1]; have := h.nd; omega, m3, m4, m6, m7, 0, ?_, by rw [m1]; omega⟩
        simp only [Nat.pow_zero, Nat.mul_one, Nat.add_zero]; exact m5
      · have hgt : a.nd < r := by omega
        have hm : rsMain k (2 ^ k - 1) a.nd (a.nd + 1) r 0 n a.d = (0, n, a.d) := by
          simp only [rsMain]
          rw [if_neg (by omega)]
        refine ⟨0, n, a.d, hm, h.size, by omega, fun i hi => absurd hi (by omega), hn2, fun hh => absurd hh (by omega), fun _ => hn1, r - a.nd, ?_, by omega⟩
        rw [Nat.min_eq_right (by omega)] at hnv
        simp [val]; exact hnv
    obtain ⟨w, n1, d1, hmeq, hsz1, hw1, hd1, hn1', hj1, hj2, j0, hinv1, hpos1⟩ := hmain
    rw [hmeq]
    simp only []
    have hterm : n1 = 0 ∨ (2 ^ 0 ∣ n1 ∧ 0 ≤ k ∧ k + 2 ≤ 2000 + 0) := by
      by_cases hz : n1 = 0
      · exact .inl hz
      · exact .inr ⟨by simp, by omega, by omega⟩
    have hext := rsExtra_approx k (val a.d a.nd) r a.nd a.trunc 2000 w 0 0 n1 j0 0 d1 a.trunc hsz1 hw1 hd1 hn1' hinv1 (by simp) hpos1
      (fun hh => absurd hh (by omega)) hterm (by simp)
    have hwfx := rsExtra_wf k 2000 w n1 d1 a.trunc hsz1 hw1 hd1 hn1'
    have hnzx := rsExtra_nz k 2000 w n1 d1 a.trunc hsz1 hn1' hj1 hj2
    have hposx := rsExtra_pos k (2 ^ k - 1) 2000 w n1 d1 a.trunc hsz1 (by
        by_cases hw0 : 0 < w
        · exact .inl hw0
        · refine .inr ⟨?_, by norm_num⟩
          have := hj2 (by omega)
          omega)
    simp only [] at hext hwfx
    generalize hre : rsExtra k (2 ^ k - 1) 2000 w n1 d1 a.trunc = re at hext hnzx hwfx hposx
    obtain ⟨w2, d2, tr2⟩ := re
    simp only [] at hext hwfx hposx ⊢
    obtain ⟨e1, e2, e3⟩ := hwfx
    obtain ⟨z', t', j', f2, ft, f3, f4, f5⟩ := hext
    have hwf2 : WF { a with d := d2, nd := w2, dp := a.dp - ((r : ℤ) - 1), trunc := tr2 } := ⟨e1, e2, e3⟩
    obtain ⟨t1, t2, t3, t4⟩ := trim_spec _ hwf2
    have hnz2 : NZ { a with d := d2, nd := w2, dp := a.dp - ((r : ℤ) - 1), trunc := tr2 } := fun hh => hnzx hh
    have htpos := trim_pos _ hnz2 hposx
    have hdpb : ({ a with d := d2, nd := w2, dp := a.dp - ((r : ℤ) - 1), trunc := tr2 } : Decimal).trim.dp = a.dp - ((r : ℤ) - 1) := by
      simp only [Decimal.trim]
      have : (trimLoop d2 w2 == 0) = false := by
        have : ({ a with d := d2, nd := w2, dp := a.dp - ((r : ℤ) - 1), trunc := tr2 } : Decimal).trim.nd = trimLoop d2 w2 := rfl
        rw [this] at htpos
        simp; omega
      rw [this]; rfl
    rw [hdpb, t2]
    simp only [aval]
    -- the value
    have hq : ((val d2 w2 : ℚ) * 10 ^ z' + t') * 2 ^ k * 10 = (val a.d a.nd : ℚ) * 10 ^ j' := by exact_mod_cast f2
    have hpk : (0 : ℚ) < 2 ^ k := by positivity
    have hV : (val a.d a.nd : ℚ) = ((val d2 w2 : ℚ) * 10 ^ z' + t') * 2 ^ k * 10 / 10 ^ j' := by
      rw [eq_div_iff (by positivity)]; exact hq.symm
    have hE : a.dp - ((r : ℤ) - 1) - (w2 : ℤ) = (a.dp - (a.nd : ℤ)) + ((z' : ℤ) + 1 - (j' : ℤ)) := by omega
    refine ⟨(t' : ℚ) * 10 ^ (a.dp - ((r : ℤ) - 1) - (w2 : ℤ) - (z' : ℤ)), by positivity, ?_, ?_, ?_⟩
    rotate_left 2
    · -- the flag: set exactly when a non-zero digit was dropped
      rw [t4]
      show tr2 = (a.trunc || decide ((t' : ℚ) * 10 ^ (a.dp - ((r : ℤ) - 1) - (w2 : ℤ) - (z' : ℤ)) ≠ 0))
      rw [f5]
      congr 1
      have hpw : (10 : ℚ) ^ (a.dp - ((r : ℤ) - 1) - (w2 : ℤ) - (z' : ℤ)) ≠ 0 := by positivity
      by_cases ht0 : t' = 0
      · simp [ht0]
      · have : (t' : ℚ) ≠ 0 := by exact_mod_cast ht0
        simp [ht0, this, hpw]
    · have htq : (t' : ℚ) < 10 ^ (z' : ℤ) := by rw [zpow_natCast]; exact_mod_cast ft
      by_cases hz0 : z' = 0
      · subst hz0
        have : t' = 0 := by simpa using ft
        subst this
        simp only [Nat.cast_zero, zero_mul]
        positivity
      · have hw800 : w2 = 800 := f4 (by omega)
        calc (t' : ℚ) * 10 ^ (a.dp - ((r : ℤ) - 1) - (w2 : ℤ) - (z' : ℤ))
            < 10 ^ (z' : ℤ) * 10 ^ (a.dp - ((r : ℤ) - 1) - (w2 : ℤ) - (z' : ℤ)) := mul_lt_mul_of_pos_right htq (by positivity)
          _ = 10 ^ (a.dp - ((r : ℤ) - 1) - 800) := by
              rw [← zpow_add₀ (by norm_num)]; congr 1; rw [hw800]; push_cast; ring
    · rw [hV, hE]
      have e1 : a.dp - (a.nd : ℤ) + ((z' : ℤ) + 1 - (j' : ℤ)) - (z' : ℤ) = a.dp - (a.nd : ℤ) + (1 - (j' : ℤ)) := by ring
      have hz1 : ∀ X : ℤ, (10 : ℚ) ^ (X + ((z' : ℤ) + 1 - (j' : ℤ))) = 10 ^ X * (10 ^ z' * 10 / 10 ^ j') := by
        intro X
        rw [zpow_add₀ (by norm_num), zpow_sub₀ (by norm_num), zpow_add₀ (by norm_num), zpow_natCast, zpow_natCast, zpow_one]
      have hz2 : ∀ X : ℤ, (10 : ℚ) ^ (X + (1 - (j' : ℤ))) = 10 ^ X * (10 / 10 ^ j') := by
        intro X
        rw [zpow_add₀ (by norm_num), zpow_sub₀ (by norm_num), zpow_natCast, zpow_one]
      rw [e1, hz1, hz2]
      have h10j : (10 : ℚ) ^ j' ≠ 0 := by positivity
      have h10z : (10 : ℚ) ^ z' ≠ 0 := by positivity
      have h2k : (2 : ℚ) ^ k ≠ 0 := by positivity
      field_simp

/-! ## left shift -/

/-- putting one digit down at `w - 1`, any run; `t` is the value of the digits dropped so far (positions 800 and beyond) -/
theorem put_approx (d : Array UInt8) (w e W rem t : Nat) (tr tr0 : Bool) (hsz : d.size = 800) (hw1 : 1 ≤ w) (hwe : w + e = W)
    (hrem : rem ≤ 9) (hok : OkFrom d w (min W 800)) (ht : t < 10 ^ (min e (W - min W 800))) (hfl : tr = (tr0 || decide (t ≠ 0))) :
    ∃ d' tr' t', lsPut d ((w : ℤ) - 1) rem tr = some (d', tr') ∧ d'.size = 800 ∧ (∀ i, i < w - 1 → d'[i]! = d[i]!) ∧
      OkFrom d' (w - 1) (min W 800) ∧ t' < 10 ^ (min (e + 1) (W - min W 800)) ∧ tr' = (tr0 || decide (t' ≠ 0)) ∧
      seg d' (w - 1) (min W 800 - (w - 1)) * 10 ^ (W - min W 800) + t' =
        rem * 10 ^ e + seg d w (min W 800 - w) * 10 ^ (W - min W 800) + t := by
  rw [lsPut_nat d w rem tr hw1]
  by_cases hfit : w - 1 < d.size
  · rw [if_pos hfit]
    have hw800 : w - 1 < 800 := by omega
    have hc : min W 800 - (w - 1) = (min W 800 - w) + 1 := by omega
    refine ⟨_, _, t, rfl, by rw [size_set!]; exact hsz, ?_, ?_, ?_, hfl, ?_⟩
    · intro i hi
      rw [getElem!_set! d (w - 1) i _ hfit, if_neg (by omega)]
    · intro i h1 h2
      by_cases hiw : i = w - 1
      · subst hiw; exact byte_set_self d _ _ hfit hrem
      · rw [getElem!_set! d (w - 1) i _ hfit, if_neg hiw]; exact hok i (by omega) h2
    · exact Nat.lt_of_lt_of_le ht (Nat.pow_le_pow_right (by norm_num) (by omega))
    · rw [hc, seg_cons, dig_set_self d (w - 1) rem hfit hrem]
      have hw' : w - 1 + 1 = w := by omega
      rw [hw', seg_set_out d (w - 1) _ hfit _ w (by omega)]
      have hexp : (min W 800 - w) + (W - min W 800) = e := by omega
      rw [Nat.add_mul, Nat.mul_assoc, ← Nat.pow_add, hexp]
  · rw [if_neg hfit]
    have hw800 : 800 ≤ w - 1 := by omega
    have hc1 : min W 800 - (w - 1) = 0 := by omega
    have hc2 : min W 800 - w = 0 := by omega
    refine ⟨_, _, rem * 10 ^ e + t, rfl, hsz, fun _ _ => rfl, ?_, ?_, ?_, ?_⟩
    · intro i h1 h2; omega
    · have he1 : min (e + 1) (W - min W 800) = e + 1 := by omega
      have he0 : min e (W - min W 800) = e := by omega
      rw [he0] at ht
      rw [he1, Nat.pow_succ]
      have : rem * 10 ^ e ≤ 9 * 10 ^ e := Nat.mul_le_mul_right _ hrem
      omega
    · rw [hfl]
      have hpe : 0 < 10 ^ e := by positivity
      by_cases hr0 : rem = 0
      · subst hr0; simp
      · have : rem * 10 ^ e + t ≠ 0 :=
          Nat.ne_of_gt (Nat.lt_of_lt_of_le (Nat.mul_pos (Nat.pos_of_ne_zero hr0) hpe) (Nat.le_add_right _ _))
        simp [hr0, this]
    · rw [hc1, hc2]; simp [seg]

/-- the first loop of `leftShift`, any run -/
theorem lsMain_approx (k nd delta : Nat) (d0 : Array UInt8) (h0 : DigitsOK d0 nd) (tr0 : Bool) :
    ∀ (r n t : Nat) (d : Array UInt8) (tr : Bool), r ≤ nd → d.size = 800 → (∀ i, i < r → d[i]! = d0[i]!) → n < 2 ^ k →
      OkFrom d (delta + r) (min (nd + delta) 800) → t < 10 ^ (min (nd - r) (nd + delta - min (nd + delta) 800)) →
      tr = (tr0 || decide (t ≠ 0)) →
      (val d0 r * 2 ^ k + n) * 10 ^ (nd - r) +
          seg d (delta + r) (min (nd + delta) 800 - (delta + r)) * 10 ^ (nd + delta - min (nd + delta) 800) + t = val d0 nd * 2 ^ k →
      ∃ n' d' tr' t', lsMain k r ((delta + r : ℕ) : ℤ) n d tr = some (((delta : ℕ) : ℤ), n', d', tr') ∧ d'.size = 800 ∧ n' < 2 ^ k ∧
        OkFrom d' delta (min (nd + delta) 800) ∧ t' < 10 ^ (min nd (nd + delta - min (nd + delta) 800)) ∧ tr' = (tr0 || decide (t' ≠ 0)) ∧
        n' * 10 ^ nd + seg d' delta (min (nd + delta) 800 - delta) * 10 ^ (nd + delta - min (nd + delta) 800) + t' = val d0 nd * 2 ^ k := by
  intro r
  induction r with
  | zero =>
    intro n t d tr _ hsz _ hn hok ht hfl hval
    refine ⟨n, d, tr, t, by simp [lsMain], hsz, hn, by simpa using hok, by simpa using ht, hfl, ?_⟩
    simpa [val] using hval
  | succ r ih =>
    intro n t d tr hr hsz hsame hn hok ht hfl hval
    simp only [lsMain]
    have hp : 0 < 2 ^ k := by positivity
    have hx9 : dig d0 r ≤ 9 := dig_le9 h0 (by omega)
    have hdr : d[r]! = d0[r]! := hsame r (Nat.lt_succ_self r)
    rw [hdr, Nat.shiftLeft_eq]
    have hxdef : d0[r]!.toNat - 48 = dig d0 r := rfl
    rw [hxdef]
    generalize hn1 : n + dig d0 r * 2 ^ k = n1
    have hn1lt : n1 < 10 * 2 ^ k := by
      have : dig d0 r * 2 ^ k ≤ 9 * 2 ^ k := Nat.mul_le_mul_right _ hx9
      omega
    have hrem : n1 - 10 * (n1 / 10) = n1 % 10 := by omega
    have hrem9 : n1 % 10 ≤ 9 := by omega
    rw [hrem]
    obtain ⟨d1, tr1, t1, hput, hsz1, hlow1, hok1, ht1, hfl1, hval1⟩ := put_approx d (delta + (r + 1)) (nd - (r + 1)) (nd + delta) (n1 % 10) t tr tr0 hsz
      (by omega) (by omega) hrem9 hok ht hfl
    rw [hput]
    simp only []
    have hw' : delta + (r + 1) - 1 = delta + r := by omega
    rw [hw'] at hlow1 hok1 hval1
    have hcast : (((delta + (r + 1) : ℕ) : ℤ) - 1) = ((delta + r : ℕ) : ℤ) := by omega
    rw [hcast]
    have hquo : n1 / 10 < 2 ^ k := by
      rw [Nat.div_lt_iff_lt_mul (by norm_num)]; omega
    have he1 : nd - (r + 1) + 1 = nd - r := by omega
    rw [he1] at ht1
    obtain ⟨n', d', tr', t', hres, hsz', hn', hok', ht', hfl', hval'⟩ := ih (n1 / 10) t1 d1 tr1 (by omega) hsz1
      (fun i hi => by rw [hlow1 i (by omega)]; exact hsame i (by omega)) hquo hok1 ht1 hfl1
      (by
        rw [Nat.add_assoc, hval1]
        have he : nd - r = (nd - (r + 1)) + 1 := by omega
        rw [he, Nat.pow_succ]
        have hdm := Nat.div_add_mod n1 10
        simp only [val] at hval
        have : (val d0 r * 2 ^ k + n1 / 10) * (10 ^ (nd - (r + 1)) * 10) + (n1 % 10 * 10 ^ (nd - (r + 1)) +
            seg d (delta + (r + 1)) (min (nd + delta) 800 - (delta + (r + 1))) * 10 ^ (nd + delta - min (nd + delta) 800) + t) =
            ((val d0 r * 10 + dig d0 r) * 2 ^ k + n) * 10 ^ (nd - (r + 1)) +
              seg d (delta + (r + 1)) (min (nd + delta) 800 - (delta + (r + 1))) * 10 ^ (nd + delta - min (nd + delta) 800) + t := by
          have e1 : (val d0 r * 2 ^ k + n1 / 10) * (10 ^ (nd - (r + 1)) * 10) + n1 % 10 * 10 ^ (nd - (r + 1)) =
              (val d0 r * 2 ^ k * 10 + (10 * (n1 / 10) + n1 % 10)) * 10 ^ (nd - (r + 1)) := by ring
          rw [← Nat.add_assoc, ← Nat.add_assoc, e1, hdm, ← hn1]; ring
        rw [this, hval])
    exact ⟨n', d', tr', t', hres, hsz', hn', hok', ht', hfl', hval'⟩

/-- the second loop of `leftShift`, any run -/
theorem lsExtra_approx (W : Nat) (tr0 : Bool) :
    ∀ (fuel w n e t : Nat) (d : Array UInt8) (tr : Bool), w ≤ fuel → w + e = W → d.size = 800 → n < 10 ^ w → (1 ≤ w → 10 ^ (w - 1) ≤ n) →
      OkFrom d w (min W 800) → t < 10 ^ (min e (W - min W 800)) → tr = (tr0 || decide (t ≠ 0)) →
      ∃ d' tr' t', lsExtra fuel (w : ℤ) n d tr = some (d', tr') ∧ d'.size = 800 ∧ OkFrom d' 0 (min W 800) ∧
        t' < 10 ^ (W - min W 800) ∧ tr' = (tr0 || decide (t' ≠ 0)) ∧
        seg d' 0 (min W 800) * 10 ^ (W - min W 800) + t' = n * 10 ^ e + seg d w (min W 800 - w) * 10 ^ (W - min W 800) + t := by
  intro fuel
  induction fuel with
  | zero =>
    intro w n e t d tr hf hwe hsz hn _ hok ht hfl
    have hw0 : w = 0 := by omega
    subst hw0
    have hn0 : n = 0 := by simpa using hn
    subst hn0
    have he : e = W := by omega
    subst he
    refine ⟨d, tr, t, by simp [lsExtra], hsz, hok, ?_, hfl, by simp⟩
    exact Nat.lt_of_lt_of_le ht (Nat.pow_le_pow_right (by norm_num) (by omega))
  | succ fuel ih =>
    intro w n e t d tr hf hwe hsz hn hnlo hok ht hfl
    simp only [lsExtra]
    by_cases hn0 : n > 0
    · rw [if_pos hn0]
      have hw1 : 1 ≤ w := by
        by_contra hc
        have : w = 0 := by omega
        subst this
        simp at hn; omega
      have hrem : n - 10 * (n / 10) = n % 10 := by omega
      have hrem9 : n % 10 ≤ 9 := by omega
      rw [hrem]
      obtain ⟨d1, tr1, t1, hput, hsz1, _, hok1, ht1, hfl1, hval1⟩ := put_approx d w e W (n % 10) t tr tr0 hsz hw1 hwe hrem9 hok ht hfl
      rw [hput]
      simp only []
      have hcast : ((w : ℤ) - 1) = ((w - 1 : ℕ) : ℤ) := by omega
      rw [hcast]
      have hpw : 10 ^ w = 10 ^ (w - 1) * 10 := by
        rw [← Nat.pow_succ]; congr 1; omega
      obtain ⟨d', tr', t', hres, hsz', hok', ht', hfl', hval'⟩ := ih (w - 1) (n / 10) (e + 1) t1 d1 tr1 (by omega) (by omega) hsz1
        (by rw [Nat.div_lt_iff_lt_mul (by norm_num), ← hpw]; exact hn)
        (by
          intro hw2
          have := hnlo hw1
          have hp2 : 10 ^ (w - 1) = 10 ^ (w - 1 - 1) * 10 := by
            rw [← Nat.pow_succ]; congr 1; omega
          rw [Nat.le_div_iff_mul_le (by norm_num), ← hp2]; exact this)
        hok1 ht1 hfl1
      refine ⟨d', tr', t', hres, hsz', hok', ht', hfl', ?_⟩
      rw [hval', Nat.add_assoc, hval1, Nat.pow_succ]
      have hdm := Nat.div_add_mod n 10
      have : n / 10 * (10 ^ e * 10) + (n % 10 * 10 ^ e + seg d w (min W 800 - w) * 10 ^ (W - min W 800) + t) =
          (10 * (n / 10) + n % 10) * 10 ^ e + seg d w (min W 800 - w) * 10 ^ (W - min W 800) + t := by ring
      rw [this, hdm]
    · rw [if_neg hn0]
      have hn00 : n = 0 := by omega
      subst hn00
      have hw0 : w = 0 := by
        by_contra hc
        have := hnlo (by omega)
        have : 0 < 10 ^ (w - 1) := by positivity
        omega
      subst hw0
      have he : e = W := by omega
      subst he
      refine ⟨d, tr, t, rfl, hsz, hok, ?_, hfl, by simp⟩
      exact Nat.lt_of_lt_of_le ht (Nat.pow_le_pow_right (by norm_num) (by omega))

set_option maxRecDepth 10000 in
/-- **`leftShift(a, k)`, any run**: the result is `a · 2^k` cut off after 800 digits -/
theorem leftShift_approx (a : Decimal) (h : WF a) (hnz : NZ a) (hnd : 1 ≤ a.nd) (k : Nat) (hk1 : 1 ≤ k) (hk : k ≤ 60) :
    ∃ b, leftShift a k = some b ∧ ∃ δ : ℚ, 0 ≤ δ ∧ δ < 10 ^ (b.dp - 800) ∧ aval a * 2 ^ k = aval b + δ ∧
      b.trunc = (a.trunc || decide (δ ≠ 0)) := by
  obtain ⟨D2, s, hc, hcd, hcv, hcl, hD1, hD2a, hD2b, hL1⟩ := cheat_facts k hk1 hk
  have hlead : 1 ≤ dig a.d 0 := hnz hnd
  have hP1 : 10 ^ (a.nd - 1) ≤ val a.d a.nd := val_ge_of_lead a.d hlead a.nd hnd
  have hP2 : val a.d a.nd < 10 ^ a.nd := val_lt a.d a.nd h.digits
  generalize hcs : s.toUTF8.data = cs at hcd hcv hcl hL1
  -- the comparison with the cutoff
  have hbsz : (a.d.extract 0 a.nd).size = a.nd := by simp [h.size]; exact h.nd
  have hbok : DigitsOK (a.d.extract 0 a.nd) (a.d.extract 0 a.nd).size := by
    rw [hbsz]; intro i hi
    rw [extract_get a.d a.nd i (by rw [h.size]; exact h.nd) hi]; exact h.digits i hi
  have hless := prefixLess_spec (a.d.extract 0 a.nd) cs hbok hcd
  rw [hbsz] at hless
  have hless' : (prefixIsLessThan (a.d.extract 0 a.nd) cs = true) ↔
      (if cs.size ≤ a.nd then val a.d a.nd / 10 ^ (a.nd - cs.size) < 5 ^ k else val a.d a.nd ≤ 5 ^ k / 10 ^ (cs.size - a.nd)) := by
    rw [hless]
    by_cases hle : cs.size ≤ a.nd
    · rw [if_pos hle, Nat.min_eq_right hle, val_extract a.d a.nd (by rw [h.size]; exact h.nd) cs.size hle,
        val_prefix a.d a.nd cs.size hle h.digits, hcv]
      constructor
      · rintro (h1 | ⟨_, h2⟩)
        · exact h1
        · omega
      · intro h1; exact .inl h1
    · rw [if_neg hle, Nat.min_eq_left (by omega), val_extract a.d a.nd (by rw [h.size]; exact h.nd) a.nd (Nat.le_refl _),
        val_prefix cs cs.size a.nd (by omega) hcd, hcv]
      constructor
      · rintro (h1 | ⟨h1, _⟩) <;> omega
      · intro h1
        rcases Nat.lt_or_eq_of_le h1 with h2 | h2
        · exact .inl h2
        · exact .inr ⟨h2, by omega⟩
  -- the predicted width
  obtain ⟨hT1, hT2⟩ := shift_digits (val a.d a.nd) a.nd k D2 cs.size hnd hP1 hP2 hD1 hD2a hD2b hcl hL1
    (prefixIsLessThan (a.d.extract 0 a.nd) cs = true) hless'
  generalize hdelta : D2 - (if prefixIsLessThan (a.d.extract 0 a.nd) cs = true then 1 else 0) = delta at hT1 hT2
  have hD19 : D2 ≤ 19 := by
    by_contra hcon
    have h1 : (10 : ℕ) ^ 19 ≤ 10 ^ (D2 - 1) := Nat.pow_le_pow_right (by norm_num) (by omega)
    have h2 : (2 : ℕ) ^ k ≤ 2 ^ 60 := Nat.pow_le_pow_right (by norm_num) hk
    have h3 : (2 : ℕ) ^ 60 < 10 ^ 19 := by norm_num
    omega
  have hdl : delta ≤ 19 := by omega
  -- unfold the code
  have hdigits : a.digits = a.d.extract 0 a.nd := rfl
  simp only [leftShift, hc, hdigits, hcs]
  have hwidth : ((a.nd : ℤ) + ((D2 : ℤ) - (if prefixIsLessThan (a.d.extract 0 a.nd) cs = true then 1 else 0))) = ((delta + a.nd : ℕ) : ℤ) := by
    by_cases hl : prefixIsLessThan (a.d.extract 0 a.nd) cs = true
    · have hd : delta = D2 - 1 := by rw [← hdelta, if_pos hl]
      rw [if_pos hl]; omega
    · have hd : delta = D2 := by rw [← hdelta, if_neg hl]; omega
      rw [if_neg hl]; omega
  have hdz : ((D2 : ℤ) - (if prefixIsLessThan (a.d.extract 0 a.nd) cs = true then 1 else 0)) = (delta : ℤ) := by omega
  rw [hwidth]
  -- the first loop
  obtain ⟨n1, d1, tr1, t1, hm, hsz1, hn1, hok1, ht1, hfl1, hval1⟩ := lsMain_approx k a.nd delta a.d h.digits a.trunc a.nd 0 0 a.d a.trunc (Nat.le_refl _)
    h.size (fun _ _ => rfl) (by positivity) (fun i h1 h2 => by omega) (by positivity) (by simp) (by
      have : min (a.nd + delta) 800 - (delta + a.nd) = 0 := by omega
      rw [this]; simp [seg])
  rw [hm]
  simp only []
  obtain ⟨c1, c2⟩ := lsMain_carry k a.nd delta a.d h.digits a.nd 0 a.d a.trunc _ n1 d1 tr1 (Nat.le_refl _) h.size (fun _ _ => rfl) hm
  simp only [Nat.add_zero] at c1 c2
  have hn1hi : n1 < 10 ^ delta := by
    have : n1 * 10 ^ a.nd < 10 ^ delta * 10 ^ a.nd := by
      rw [← Nat.pow_add, Nat.add_comm delta a.nd]; omega
    exact Nat.lt_of_mul_lt_mul_right this
  have hn1lo : 1 ≤ delta → 10 ^ (delta - 1) ≤ n1 := by
    intro hd1
    have h1 : 10 ^ (delta - 1) * 10 ^ a.nd < (n1 + 1) * 10 ^ a.nd := by
      rw [← Nat.pow_add]
      have : delta - 1 + a.nd = a.nd + delta - 1 := by omega
      rw [this]; omega
    have := Nat.lt_of_mul_lt_mul_right h1
    omega
  -- the second loop
  obtain ⟨d2, tr2, t2, he, hsz2, hok2, ht2, hfl2, hval2⟩ := lsExtra_approx (a.nd + delta) a.trunc 64 delta n1 a.nd t1 d1 tr1 (by omega) (by omega) hsz1
    hn1hi hn1lo hok1 ht1 hfl1
  rw [he]
  simp only []
  have hnd' : (if ((delta + a.nd : ℕ) : ℤ) ≥ (d2.size : ℤ) then d2.size
      else (((delta + a.nd : ℕ) : ℤ)).toNat) = min (a.nd + delta) 800 := by
    rw [hsz2]
    split <;> omega
  rw [hnd', hdz]
  have hwf : WF { a with d := d2, nd := min (a.nd + delta) 800, dp := a.dp + (delta : ℤ), trunc := tr2 } :=
    ⟨hsz2, by show min (a.nd + delta) 800 ≤ 800; omega, fun i hi => hok2 i (by omega) hi⟩
  have hnz2 : NZ { a with d := d2, nd := min (a.nd + delta) 800, dp := a.dp + (delta : ℤ), trunc := tr2 } := by
    intro _
    show 1 ≤ dig d2 0
    by_cases hd0 : delta = 0
    · subst hd0
      have hn0 : n1 = 0 := by simpa using hn1hi
      subst hn0
      rw [lsExtra_zero] at he
      injection he with he; injection he with he _
      rw [← he]
      have := lsMain_lead k 0 hk1 a.d hlead a.nd 0 a.d a.trunc _ d1 tr1 hnd h.size (by norm_num) (fun _ _ => rfl) hm
      exact this
    · exact lsExtra_lead 64 delta n1 d1 tr1 d2 tr2 (by omega) (by omega) hsz1 (by omega) hn1hi (hn1lo (by omega)) he
  obtain ⟨u1, u2, u3, u4⟩ := trim_spec _ hwf
  have htpos := trim_pos _ hnz2 (by show 1 ≤ min (a.nd + delta) 800; omega)
  refine ⟨_, rfl, ?_⟩
  have hdpb : ({ a with d := d2, nd := min (a.nd + delta) 800, dp := a.dp + (delta : ℤ), trunc := tr2 } : Decimal).trim.dp = a.dp + (delta : ℤ) := by
    simp only [Decimal.trim]
    have : (trimLoop d2 (min (a.nd + delta) 800) == 0) = false := by
      have : ({ a with d := d2, nd := min (a.nd + delta) 800, dp := a.dp + (delta : ℤ), trunc := tr2 } : Decimal).trim.nd =
          trimLoop d2 (min (a.nd + delta) 800) := rfl
      rw [this] at htpos
      simp; omega
    rw [this]; rfl
  rw [hdpb, u2]
  -- the value
  have hT : seg d2 0 (min (a.nd + delta) 800) * 10 ^ (a.nd + delta - min (a.nd + delta) 800) + t2 = val a.d a.nd * 2 ^ k := by
    rw [hval2, hval1]
  rw [seg_zero] at hT
  simp only [aval]
  generalize hX : a.nd + delta - min (a.nd + delta) 800 = X at hT ht2
  have hTq : (val d2 (min (a.nd + delta) 800) : ℚ) * 10 ^ X + t2 = (val a.d a.nd : ℚ) * 2 ^ k := by exact_mod_cast hT
  have hexp : a.dp + (delta : ℤ) - ((min (a.nd + delta) 800 : ℕ) : ℤ) = (a.dp - (a.nd : ℤ)) + (X : ℤ) := by omega
  refine ⟨(t2 : ℚ) * 10 ^ (a.dp - (a.nd : ℤ)), by positivity, ?_, ?_, ?_⟩
  rotate_left 2
  · rw [u4]
    show tr2 = (a.trunc || decide ((t2 : ℚ) * 10 ^ (a.dp - (a.nd : ℤ)) ≠ 0))
    rw [hfl2]
    congr 1
    have hpw : (10 : ℚ) ^ (a.dp - (a.nd : ℤ)) ≠ 0 := by positivity
    by_cases ht0 : t2 = 0
    · simp [ht0]
    · have : (t2 : ℚ) ≠ 0 := by exact_mod_cast ht0
      simp [ht0, this, hpw]
  · have htq : (t2 : ℚ) < 10 ^ (X : ℤ) := by rw [zpow_natCast]; exact_mod_cast ht2
    by_cases hX0 : X = 0
    · subst hX0
      have : t2 = 0 := by simpa using ht2
      subst this
      simp only [Nat.cast_zero, zero_mul]
      positivity
    · have hC : min (a.nd + delta) 800 = 800 := by omega
      calc (t2 : ℚ) * 10 ^ (a.dp - (a.nd : ℤ)) < 10 ^ (X : ℤ) * 10 ^ (a.dp - (a.nd : ℤ)) := mul_lt_mul_of_pos_right htq (by positivity)
        _ = 10 ^ (a.dp + (delta : ℤ) - 800) := by
            rw [← zpow_add₀ (by norm_num)]; congr 1; omega
  · rw [hexp, zpow_add₀ (by norm_num), zpow_natCast]
    have : (val a.d a.nd : ℚ) * 10 ^ (a.dp - (a.nd : ℤ)) * 2 ^ k = ((val a.d a.nd : ℚ) * 2 ^ k) * 10 ^ (a.dp - (a.nd : ℤ)) := by ring
    rw [this, ← hTq]; ring

end RJson.Dec
